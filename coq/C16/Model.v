(* C16 - executable model of the agent tunnel (listener/agent):
   - the codec: messages.go / encoder.go / decoder.go on top of honeytrap/protocol's
     Encoder (a bufio.Writer over a bytes.Buffer) and Decoder (a bufio.Reader over a
     bytes.Buffer; agent.Decoder reads uint16s, data and strings with io.ReadFull);
   - the session loop of agent.go (serv) with Connections (connections.go) and
     agentConnection (connection.go), stepped by agent messages and by the actions of
     the services holding the surfaced connections.
   Definitions only. *)
From HT Require Import Common.Bytes.
Open Scope Z_scope.

Definition BUFSZ : Z := 4096.            (* bufio default buffer size *)

Definition zfirstn {A} (n : Z) (l : list A) : list A := firstn (Z.to_nat n) l.
Definition zskipn {A} (n : Z) (l : list A) : list A := skipn (Z.to_nat n) l.

(* ------------------------------------------------------------------ *)
(* bufio.Reader over bytes.Buffer.  [rd_rest] = all bytes not yet returned, the first
   [rd_avail] of them sit in the bufio buffer, the others are still in the bytes.Buffer.
   (b.err is never left pending between two calls: Read/ReadByte return readErr().) *)
Record rd := mkRd { rd_avail : Z; rd_rest : bytes }.

(* bufio.Reader.Read(p) with len(p) = n.  None = (0, io.EOF). *)
Definition rd_read (n : Z) (r : rd) : option bytes * rd :=
  if n <=? 0 then (Some [], r)
  else
    let l := rd_rest r in
    if rd_avail r <=? 0 then
      match l with
      | [] => (None, r)
      | _ :: _ =>
        if BUFSZ <=? n then
          (* large read, empty buffer: read directly from the bytes.Buffer *)
          let k := Z.min n (zlen l) in (Some (zfirstn k l), mkRd 0 (zskipn k l))
        else
          (* one fill of the buffer, then copy *)
          let a := Z.min BUFSZ (zlen l) in
          let k := Z.min n a in (Some (zfirstn k l), mkRd (a - k) (zskipn k l))
      end
    else
      (* copy as much as is buffered - never refills *)
      let k := Z.min n (rd_avail r) in (Some (zfirstn k l), mkRd (rd_avail r - k) (zskipn k l)).

(* bufio.Reader.ReadByte: fills when empty *)
Definition rd_byte (r : rd) : option N * rd :=
  match rd_rest r with
  | [] => (None, r)
  | b :: l' =>
    if rd_avail r <=? 0 then (Some b, mkRd (Z.min BUFSZ (zlen (rd_rest r)) - 1) l')
    else (Some b, mkRd (rd_avail r - 1) l')
  end.

(* ------------------------------------------------------------------ *)
(* protocol.Decoder + agent.Decoder: sticky LastError *)
Record dec := mkDec { d_err : bool; d_rd : rd }.

Definition new_dec (data : bytes) : dec := mkDec false (mkRd 0 data).

Definition le16 (bs : bytes) : Z := Z.of_N (nth 0 bs 0%N) + 256 * Z.of_N (nth 1 bs 0%N).

Definition dec_u8 (d : dec) : Z * dec :=
  if d_err d then (0, d)
  else match rd_byte (d_rd d) with
       | (Some b, r') => (Z.of_N b, mkDec false r')
       | (None, r') => (0, mkDec true r')
       end.

(* io.ReadFull(d.Reader, buf) with len(buf) = n: Read again and again until n bytes are
   there or Read fails.  Every Read on a non-exhausted reader returns at least one byte,
   so [Z.to_nat need] rounds always suffice (rd_full_spec); out of fuel is reported like
   an error and shown unreachable.  None = io.EOF / io.ErrUnexpectedEOF. *)
Fixpoint rd_full_loop (fuel : nat) (need : Z) (r : rd) : option bytes * rd :=
  if need <=? 0 then (Some [], r)
  else match fuel with
       | O => (None, r)
       | S f =>
         match rd_read need r with
         | (Some bs, r') =>
           let '(rest, r'') := rd_full_loop f (need - zlen bs) r' in
           (match rest with Some t => Some (bs ++ t) | None => None end, r'')
         | (None, r') => (None, r')
         end
       end.
Definition rd_full (n : Z) (r : rd) : option bytes * rd := rd_full_loop (Z.to_nat n) n r.

(* agent.Decoder.ReadUint16: both bytes or LastError *)
Definition dec_u16 (d : dec) : Z * dec :=
  if d_err d then (0, d)
  else match rd_full 2 (d_rd d) with
       | (Some bs, r') => (le16 bs, mkDec false r')
       | (None, r') => (0, mkDec true r')
       end.

(* ReadData / ReadString: make([]byte, l) then io.ReadFull: all l bytes or LastError and
   an empty result.  The ReadFull is attempted even when the length could not be read
   (l = 0: it returns at once). *)
Definition dec_data (d : dec) : bytes * dec :=
  if d_err d then ([], d)
  else
    let '(l, d1) := dec_u16 d in
    match rd_full l (d_rd d1) with
    | (Some bs, r') => (bs, mkDec (d_err d1) r')
    | (None, r') => ([], mkDec true r')
    end.

Inductive addr := ATcp (ip : bytes) (port : Z) | AUdp (ip : bytes) (port : Z) | ANil.

Definition dec_addr (d : dec) : addr * dec :=
  if d_err d then (ANil, d)
  else
    let '(p, d1) := dec_u8 d in
    let '(ip, d2) := dec_data d1 in
    let '(port, d3) := dec_u16 d2 in
    ((if p =? 6 then ATcp ip port else if p =? 17 then AUdp ip port else ANil), d3).

Fixpoint dec_addrs (n : nat) (d : dec) : list addr * dec :=
  match n with
  | O => ([], d)
  | S n' => let '(a, d1) := dec_addr d in
            let '(r, d2) := dec_addrs n' d1 in (a :: r, d2)
  end.

(* ------------------------------------------------------------------ *)
(* bufio.Writer over bytes.Buffer (never fails) *)
Record wr := mkWr { w_out : bytes; w_buf : bytes }.

Definition new_wr : wr := mkWr [] [].

Definition wr_write (p : bytes) (w : wr) : wr :=
  if zlen p <=? BUFSZ - zlen (w_buf w) then mkWr (w_out w) (w_buf w ++ p)
  else match w_buf w with
       | [] => mkWr (w_out w ++ p) []                       (* large write, empty buffer *)
       | _ :: _ =>
         let k := BUFSZ - zlen (w_buf w) in                 (* fill, flush *)
         let out' := w_out w ++ w_buf w ++ zfirstn k p in
         let rest := zskipn k p in
         if zlen rest <=? BUFSZ then mkWr out' rest else mkWr (out' ++ rest) []
       end.

Definition wr_byte (c : N) (w : wr) : wr :=
  if BUFSZ <=? zlen (w_buf w) then mkWr (w_out w ++ w_buf w) [c]
  else mkWr (w_out w) (w_buf w ++ [c]).

Definition wr_flush (w : wr) : wr := mkWr (w_out w ++ w_buf w) [].

Definition u8_byte (v : Z) : N := Z.to_N (v mod 256).
Definition u16_bytes (v : Z) : bytes := [Z.to_N (v mod 256); Z.to_N ((v / 256) mod 256)].

Definition enc_u8 (v : Z) (w : wr) : wr := wr_byte (u8_byte v) w.
Definition enc_u16 (v : Z) (w : wr) : wr := wr_write (u16_bytes v) w.
Definition enc_data (p : bytes) (w : wr) : wr := wr_write p (enc_u16 (zlen p) w).

(* WriteAddr: an address that is neither *TCPAddr nor *UDPAddr gets NO protocol byte *)
Definition enc_addr (a : addr) (w : wr) : wr :=
  match a with
  | ATcp ip port => enc_u16 port (enc_data ip (enc_u8 6 w))
  | AUdp ip port => enc_u16 port (enc_data ip (enc_u8 17 w))
  | ANil => enc_u16 0 (enc_data [] w)
  end.

Fixpoint enc_addrs (l : list addr) (w : wr) : wr :=
  match l with
  | [] => w
  | a :: r => enc_addrs r (enc_addr a w)
  end.

(* ------------------------------------------------------------------ *)
(* messages.go *)
Inductive msg :=
| MHello (l r : addr)
| MData (l r : addr) (p : bytes)                       (* ReadWriteTCP *)
| MHandshake (pv : Z) (version short commit token : bytes)
| MHsResp (addrs : list addr)
| MEof (l r : addr)
| MPing
| MUdp (l r : addr) (p : bytes).                       (* ReadWriteUDP *)

Definition msg_type (m : msg) : Z :=
  match m with
  | MHello _ _ => 0 | MData _ _ _ => 1 | MHandshake _ _ _ _ _ => 2 | MHsResp _ => 3
  | MEof _ _ => 4 | MPing => 5 | MUdp _ _ _ => 6
  end.

(* MarshalBinary: every message type flushes its bufio.Writer. *)
Definition encode_msg (m : msg) : bytes :=
  match m with
  | MHello l r => w_out (wr_flush (enc_addr r (enc_addr l new_wr)))
  | MEof l r => w_out (wr_flush (enc_addr r (enc_addr l new_wr)))
  | MData l r p => w_out (wr_flush (enc_data p (enc_addr r (enc_addr l new_wr))))
  | MUdp l r p => w_out (wr_flush (enc_data p (enc_addr r (enc_addr l new_wr))))
  | MHandshake pv v s c t =>
      w_out (wr_flush (enc_data t (enc_data c (enc_data s (enc_data v (enc_u16 pv new_wr))))))
  | MHsResp addrs => w_out (wr_flush (enc_addrs addrs (enc_u8 (zlen addrs) new_wr)))
  | MPing => []
  end.

(* the encoding with a final Flush, written out separately: Check.v classifies a
   regression of Handshake.MarshalBinary against it (today it equals encode_msg) *)
Definition encode_flushed (m : msg) : bytes :=
  match m with
  | MHandshake pv v s c t =>
      w_out (wr_flush (enc_data t (enc_data c (enc_data s (enc_data v (enc_u16 pv new_wr))))))
  | _ => encode_msg m
  end.

(* conn2.receive's type switch + UnmarshalBinary (which never returns an error).
   None = "Unsupported message receive type". *)
Definition decode_msg (ty : Z) (data : bytes) : option msg :=
  let d := new_dec data in
  if ty =? 0 then
    let '(l, d1) := dec_addr d in let '(r, _) := dec_addr d1 in Some (MHello l r)
  else if ty =? 1 then
    let '(l, d1) := dec_addr d in let '(r, d2) := dec_addr d1 in
    let '(p, _) := dec_data d2 in Some (MData l r p)
  else if ty =? 2 then
    let '(pv, d1) := dec_u16 d in
    let '(v, d2) := dec_data d1 in let '(s, d3) := dec_data d2 in
    let '(c, d4) := dec_data d3 in let '(t, _) := dec_data d4 in
    Some (MHandshake pv v s c t)
  else if ty =? 3 then
    let '(n, d1) := dec_u8 d in
    let '(l, _) := dec_addrs (Z.to_nat n) d1 in Some (MHsResp l)
  else if ty =? 4 then
    let '(l, d1) := dec_addr d in let '(r, _) := dec_addr d1 in Some (MEof l r)
  else if ty =? 5 then Some MPing
  else if ty =? 6 then
    let '(l, d1) := dec_addr d in let '(r, d2) := dec_addr d1 in
    let '(p, _) := dec_data d2 in Some (MUdp l r p)
  else None.

(* what travels: conn2.send writes type, uint16(len), data; libdisco delivers each
   Write as one transport message; conn2.receive reads them back with one Read each.
   Frames of 65536 bytes or more are outside the model (the length field wraps). *)
Definition transport (m : msg) : option msg := decode_msg (msg_type m) (encode_msg m).

(* ------------------------------------------------------------------ *)
(* Connections.Get compares Laddr.String() and Raddr.String().  For *TCPAddr and
   *UDPAddr alike that is JoinHostPort(IP.String(), port): equal exactly when the
   ports agree and the IPs agree after mapping a 4-byte IP to its 16-byte form. *)
Definition v4prefix : bytes := [0;0;0;0;0;0;0;0;0;0;255;255]%N.
Definition canon_ip (ip : bytes) : bytes := if zlen ip =? 4 then v4prefix ++ ip else ip.

Definition addr_key (a : addr) : option (bytes * Z) :=
  match a with
  | ATcp ip p => Some (canon_ip ip, p)
  | AUdp ip p => Some (canon_ip ip, p)
  | ANil => None
  end.

Definition key_eqb (a b : bytes * Z) : bool := eqb_bytes (fst a) (fst b) && (snd a =? snd b).

Inductive cmp := CEq | CNe | CPanic.     (* x.String() != y.String(); a nil interface panics *)
Definition addr_cmp (a b : addr) : cmp :=
  match addr_key a, addr_key b with
  | Some x, Some y => if key_eqb x y then CEq else CNe
  | _, _ => CPanic
  end.

Record vconn := mkVc { vc_l : addr; vc_r : addr; vc_buf : bytes; vc_closed : bool }.

Record sess := mkSess {
  s_conns : list vconn;      (* every agentConnection created so far; index = accept order *)
  s_reg : list nat;          (* Connections.conns: indices, in Add order *)
  s_alive : bool;            (* serv loop still running *)
  s_udp : list (addr * addr) (* the datagram pseudo-connections surfaced so far, in accept order: what the
                                Fn closure of each one has captured (v.Laddr, v.Raddr of ITS message) *)
}.

Definition sess0 : sess := mkSess [] [] true [].

Definition dummy_vc : vconn := mkVc ANil ANil [] true.
Definition conn_at (s : sess) (i : nat) : vconn := nth i (s_conns s) dummy_vc.

Fixpoint upd {A} (l : list A) (i : nat) (x : A) : list A :=
  match l, i with
  | [], _ => []
  | _ :: r, O => x :: r
  | y :: r, S i' => y :: upd r i' x
  end.

Inductive getres := GFound (i : nat) | GNone | GPanic.

Fixpoint get_conn (cs : list vconn) (reg : list nat) (l r : addr) : getres :=
  match reg with
  | [] => GNone
  | i :: reg' =>
    let c := nth i cs dummy_vc in
    match addr_cmp (vc_l c) l with
    | CPanic => GPanic
    | CNe => get_conn cs reg' l r
    | CEq => match addr_cmp (vc_r c) r with
             | CPanic => GPanic
             | CNe => get_conn cs reg' l r
             | CEq => GFound i
             end
    end
  end.

Fixpoint remove_first (i : nat) (reg : list nat) : list nat :=
  match reg with
  | [] => []
  | j :: r => if Nat.eqb i j then r else j :: remove_first i r
  end.

Definition close_vc (c : vconn) : vconn := mkVc (vc_l c) (vc_r c) (vc_buf c) true.

(* the deferred function of serv: c.Close() first (nothing reaches the agent any more),
   then every registered connection is closed *)
Definition teardown (s : sess) : sess :=
  mkSess (fold_left (fun cs i => upd cs i (close_vc (nth i cs dummy_vc))) (s_reg s) (s_conns s))
         (s_reg s) false (s_udp s).

Inductive res :=
| RNone
| RAcc (l r : addr)                 (* Accept returned a connection with these addresses *)
| RUdpAcc (l r : addr) (p : bytes)  (* Accept returned a datagram pseudo-connection *)
| RData (b : bytes)                 (* Read returned (len b, nil) *)
| REof                              (* Read returned io.EOF *)
| RTimeout                          (* Read ran into its deadline *)
| RPanic.                           (* serv panicked/failed: session torn down *)

Definition is_udp (a : addr) : bool := match a with AUdp _ _ => true | _ => false end.

(* one iteration of the message loop on a received (decoded) message:
   new state, result, frames sent to the agent, connection whose reader got a wake-up token *)
Definition serv_msg (s : sess) (m : msg) : sess * res * list msg * option nat :=
  if negb (s_alive s) then (s, RNone, [], None)
  else match m with
  | MHello l r =>
      (mkSess (s_conns s ++ [mkVc l r [] false]) (s_reg s ++ [length (s_conns s)]) true (s_udp s),
       RAcc l r, [], None)
  | MData l r p =>
      match get_conn (s_conns s) (s_reg s) l r with
      | GPanic => (teardown s, RPanic, [], None)
      | GNone => (s, RNone, [], None)
      | GFound i =>
        let c := conn_at s i in
        if vc_closed c then (s, RNone, [], None)
        else (mkSess (upd (s_conns s) i (mkVc (vc_l c) (vc_r c) (vc_buf c ++ p) false))
                     (s_reg s) true (s_udp s), RNone, [], Some i)
      end
  | MUdp l r p =>
      if is_udp l && is_udp r
      then (mkSess (s_conns s) (s_reg s) true (s_udp s ++ [(l, r)]), RUdpAcc l r p, [], None)
      else (teardown s, RPanic, [], None)            (* failed type assertion *)
  | MEof l r =>
      match get_conn (s_conns s) (s_reg s) l r with
      | GPanic => (teardown s, RPanic, [], None)
      | GNone => (s, RNone, [], None)
      | GFound i =>
        let c := conn_at s i in
        (mkSess (upd (s_conns s) i (close_vc c)) (remove_first i (s_reg s)) true (s_udp s),
         RNone, (if vc_closed c then [] else [MEof (vc_l c) (vc_r c)]), None)
      end
  | MPing => (s, RNone, [], None)
  | MHandshake _ _ _ _ _ => (s, RNone, [], None)
  | MHsResp _ => (s, RNone, [], None)
  end.

(* agentConnection.Read with a buffer of n >= 1 bytes and a deadline, nothing arriving
   while it waits: bytes if any are buffered, else io.EOF if closed, else it waits on
   [in] (a stale wake-up token only makes it look again) until the deadline *)
Definition vc_read (s : sess) (c : nat) (n : Z) : sess * res :=
  let v := conn_at s c in
  match vc_buf v with
  | _ :: _ =>
    (mkSess (upd (s_conns s) c (mkVc (vc_l v) (vc_r v) (zskipn n (vc_buf v)) (vc_closed v)))
            (s_reg s) (s_alive s) (s_udp s),
     RData (zfirstn n (vc_buf v)))
  | [] => (s, if vc_closed v then REof else RTimeout)
  end.

(* ---- who owns the bytes of a queued message ----
   agentConnection.Write(b) and the Fn closure of a datagram pseudo-connection build the
   message with  payload := make([]byte, len(b)); copy(payload, b)  and hand it to the
   session's sender goroutine over [out].  The sender marshals it LATER (conn2.send writes
   the type byte to the transport first, then calls MarshalBinary), when Write has long
   returned and the caller owns b again.  [pay] is what a queued message holds. *)
Inductive pay := PVal (b : bytes) | PRef (i : nat).        (* own copy | the caller's buffer i *)
Definition capture (heap : list bytes) (i : nat) : pay := PVal (nth i heap []).   (* make + copy *)
Definition resolve (heap : list bytes) (p : pay) : bytes :=     (* MarshalBinary, when the sender runs *)
  match p with PVal b => b | PRef i => nth i heap [] end.

(* the payload the agent gets for Write(b) with b = p when the caller refills b with q as
   soon as Write has returned, i.e. before the sender has marshalled the message *)
Definition write_then_refill (p q : bytes) : bytes := resolve [q] (capture [p] 0).

Inductive act :=
| ASend (m : msg)                       (* the agent sends m *)
| ARead (c : nat) (n : Z)               (* service on connection c: Read(n bytes), deadline *)
| APark (c : nat) (n : Z) (m : msg)     (* Read(n) is waiting on c when the agent sends m *)
| AWrite (c : nat) (p q : bytes)        (* service writes p on connection c from a buffer it refills with q right after *)
| AClose (c : nat)                      (* service closes connection c *)
| AUdpR (i : nat) (p q : bytes)         (* service answers p on the i-th datagram pseudo-connection (accept order), whenever
                                           it likes, then refills the buffer with q *)
| ADisc.                                (* the agent disconnects *)

Section Run.
(* what the wire does to a message: [transport] for the code as it is, [Some] for a
   faithful wire *)
Variable wire : msg -> option msg.

Definition recv_msg (s : sess) (m : msg) : sess * res * list msg * option nat :=
  match wire m with
  | Some m' => serv_msg s m'
  | None => if s_alive s then (teardown s, RPanic, [], None) else (s, RNone, [], None)
  end.

Definition wire_out (f : msg) : list msg :=
  match wire f with Some f' => [f'] | None => [] end.

Definition step (s : sess) (a : act) : sess * res * list msg :=
  match a with
  | ASend m => let '(s', r, fs, _) := recv_msg s m in (s', r, flat_map wire_out fs)
  | ARead c n => let '(s', r) := vc_read s c n in (s', r, [])
  | APark c n m =>
      let v := conn_at s c in
      match vc_buf v, vc_closed v with
      | [], false =>
        (* the reader waits in select; m is processed (receive leaves a wake-up token,
           Close closes the channel); the reader looks at the buffer again: bytes if
           there are any now, io.EOF if closed, else it keeps waiting until the deadline *)
        let '(s1, _, fs, _) := recv_msg s m in
        let '(s', r) := vc_read s1 c n in (s', r, flat_map wire_out fs)
      | _, _ =>
        (* Read returns at once; m is processed afterwards *)
        let '(s1, r) := vc_read s c n in
        let '(s', _, fs, _) := recv_msg s1 m in (s', r, flat_map wire_out fs)
      end
  | AWrite c p q =>
      let v := conn_at s c in
      if s_alive s then (s, RNone, wire_out (MData (vc_l v) (vc_r v) (write_then_refill p q)))
      else (s, RPanic, [])                           (* send on closed channel *)
  | AClose c =>
      let v := conn_at s c in
      if vc_closed v then (s, RNone, [])
      else (mkSess (upd (s_conns s) c (close_vc v)) (s_reg s) (s_alive s) (s_udp s), RNone,
            if s_alive s then wire_out (MEof (vc_l v) (vc_r v)) else [])
  | AUdpR i p q =>
      (* DummyUDPConn.Write -> the Fn closure created for THAT datagram: the reply carries the
         addresses of the message the closure was created for, whatever has arrived since *)
      match nth_error (s_udp s) i with
      | Some (l, r) =>
        if s_alive s then (s, RNone, wire_out (MUdp l r (write_then_refill p q))) else (s, RPanic, [])
      | None => (s, RNone, [])                       (* no such datagram: nothing to write on *)
      end
  | ADisc => ((if s_alive s then teardown s else s), RNone, [])
  end.

Fixpoint run (s : sess) (acts : list act) : sess * list res * list msg :=
  match acts with
  | [] => (s, [], [])
  | a :: rest =>
    let '(s1, r, fs) := step s a in
    let '(s2, rs, fs2) := run s1 rest in
    (s2, r :: rs, fs ++ fs2)
  end.
End Run.

Definition ideal_wire (m : msg) : option msg := Some m.

(* ------------------------------------------------------------------ *)
(* One agentConnection and the goroutine reading it, step by step (connection.go), at
   the granularity of the mutex-protected sections and channel operations:
   receive = lock; if closed return; append; NON-BLOCKING send on [in] (capacity 1): the
             token is stored unless one is already pending;
   Close   = lock; closed = true; close(in);
   Read    = loop { lock; buff non-empty => copy, return;                      (PIdle)
                    closed => return io.EOF;  unlock;
                    receive from [in]: a pending token or a closed channel let it
                    through, otherwise it blocks }                              (PWait) *)
Inductive rpc := PIdle | PWait | PDone.
Record cst := mkC { c_buf : bytes; c_closed : bool; c_tok : bool; c_pc : rpc; c_got : bytes }.
Inductive cev := ERecv (p : bytes) | EClose | EReader (n : Z).

Definition cst0 : cst := mkC [] false false PIdle [].

Definition cstep (s : cst) (e : cev) : cst :=
  match e with
  | ERecv p =>
      if c_closed s then s
      else mkC (c_buf s ++ p) false true (c_pc s) (c_got s)
  | EClose => mkC (c_buf s) true (c_tok s) (c_pc s) (c_got s)
  | EReader n =>
      match c_pc s with
      | PIdle =>
        match c_buf s with
        | _ :: _ => mkC (zskipn n (c_buf s)) (c_closed s) (c_tok s) PIdle (c_got s ++ zfirstn n (c_buf s))
        | [] => mkC [] (c_closed s) (c_tok s) (if c_closed s then PDone else PWait) (c_got s)
        end
      | PWait =>
        if c_tok s then mkC (c_buf s) (c_closed s) false PIdle (c_got s)
        else if c_closed s then mkC (c_buf s) true false PIdle (c_got s)
        else s                                                     (* still blocked *)
      | PDone => s
      end
  end.

Definition crun (s : cst) (evs : list cev) : cst := fold_left cstep evs s.

(* payloads accepted by receive (those arriving before Close) *)
Fixpoint accepted (closed : bool) (evs : list cev) : bytes :=
  match evs with
  | [] => []
  | ERecv p :: r => if closed then accepted closed r else p ++ accepted closed r
  | EClose :: r => accepted true r
  | EReader _ :: r => accepted closed r
  end.

(* ------------------------------------------------------------------ *)
(* The outgoing path with explicit buffer ownership, for every schedule: services write
   from buffers they own ([o_heap]) and refill them whenever they like once Write has
   returned; messages wait in [o_q] (taken by / queued for the sender goroutine) until
   the sender marshals them. *)
Record ost := mkO { o_heap : list bytes; o_q : list (bool * addr * addr * pay); o_sent : list msg }.
Inductive oev :=
| OWrite (l r : addr) (i : nat)      (* agentConnection.Write(heap[i]) on the connection with these addresses *)
| OUdpW (l r : addr) (i : nat)       (* DummyUDPConn.Write(heap[i]) -> the Fn closure of serv *)
| OFill (i : nat) (q : bytes)        (* the service refills its buffer i *)
| OSend.                             (* the sender goroutine marshals and sends the oldest message *)

Definition oframe (heap : list bytes) (x : bool * addr * addr * pay) : msg :=
  let '(udp, l, r, p) := x in if udp then MUdp l r (resolve heap p) else MData l r (resolve heap p).

Definition ostep (s : ost) (e : oev) : ost :=
  match e with
  | OWrite l r i => mkO (o_heap s) (o_q s ++ [(false, l, r, capture (o_heap s) i)]) (o_sent s)
  | OUdpW l r i => mkO (o_heap s) (o_q s ++ [(true, l, r, capture (o_heap s) i)]) (o_sent s)
  | OFill i q => mkO (upd (o_heap s) i q) (o_q s) (o_sent s)
  | OSend => match o_q s with
             | [] => s
             | x :: rest => mkO (o_heap s) rest (o_sent s ++ [oframe (o_heap s) x])
             end
  end.

Definition orun (s : ost) (evs : list oev) : ost := fold_left ostep evs s.

(* the frames the services meant: the contents of the buffer at the time of each Write *)
Fixpoint written (heap : list bytes) (evs : list oev) : list msg :=
  match evs with
  | [] => []
  | OWrite l r i :: rest => MData l r (nth i heap []) :: written heap rest
  | OUdpW l r i :: rest => MUdp l r (nth i heap []) :: written heap rest
  | OFill i q :: rest => written (upd heap i q) rest
  | OSend :: rest => written heap rest
  end.

(* ------------------------------------------------------------------ *)
(* Relayed datagrams.  A datagram is (local, remote, payload); the agent relays a list of
   them, the services answer according to a SCHEDULE: a list of (which datagram, bytes,
   what the buffer is refilled with) in any order, any datagram any number of times. *)
Definition dgram : Type := (addr * addr * bytes)%type.
Definition dg_pair (d : dgram) : addr * addr := (fst (fst d), snd (fst d)).
Definition dg_msg (d : dgram) : msg := MUdp (fst (fst d)) (snd (fst d)) (snd d).
Definition dg_udp (d : dgram) : bool := is_udp (fst (fst d)) && is_udp (snd (fst d)).
Definition relay_acts (ds : list dgram) : list act := map (fun d => ASend (dg_msg d)) ds.
Definition relay_res (ds : list dgram) : list res := map (fun d => RUdpAcc (fst (fst d)) (snd (fst d)) (snd d)) ds.

Definition answer : Type := (nat * bytes * bytes)%type.
Definition answer_acts (sch : list answer) : list act := map (fun x => AUdpR (fst (fst x)) (snd (fst x)) (snd x)) sch.
(* the frames the schedule must produce when the pseudo-connections hold the pairs [us]:
   in schedule order, (pair of datagram i, answer bytes) *)
Definition answer_frames (us : list (addr * addr)) (sch : list answer) : list msg :=
  flat_map (fun x => match nth_error us (fst (fst x)) with
                     | Some (l, r) => [MUdp l r (snd (fst x))]
                     | None => []
                     end) sch.
(* NOT the model: all answer functions of a session reading ONE variable that holds the
   datagram received last (what a closure over a per-session variable does) *)
Definition answer_frames_shared (us : list (addr * addr)) (sch : list answer) : list msg :=
  flat_map (fun x => match nth_error us (fst (fst x)), us with
                     | Some _, _ :: _ => let '(l, r) := last us (ANil, ANil) in [MUdp l r (snd (fst x))]
                     | _, _ => []
                     end) sch.

Definition set_udp (s : sess) (u : list (addr * addr)) : sess := mkSess (s_conns s) (s_reg s) (s_alive s) u.

(* the actions that belong to the datagram relay: a ReadWriteUDP message with UDP
   addresses, and an answer on a datagram pseudo-connection *)
Definition is_relay_act (a : act) : bool :=
  match a with
  | ASend (MUdp l r _) => is_udp l && is_udp r
  | AUdpR _ _ _ => true
  | _ => false
  end.
Definition is_udp_msg (m : msg) : bool := match m with MUdp _ _ _ => true | _ => false end.
(* the results of the other actions *)
Fixpoint other_res (acts : list act) (rs : list res) : list res :=
  match acts, rs with
  | a :: acts', r :: rs' => if is_relay_act a then other_res acts' rs' else r :: other_res acts' rs'
  | _, _ => []
  end.

(* ------------------------------------------------------------------ *)
(* The identity of a virtual connection is the PAIR of its two addresses.  [pair_key] is
   that pair in the form Connections.Get compares (two separate String() comparisons):
   ((ip in 16-byte form, port), (ip in 16-byte form, port)); equality on it is structural. *)
Definition pkey : Type := (bytes * Z) * (bytes * Z).
Definition pair_key (l r : addr) : option pkey :=
  match addr_key l, addr_key r with
  | Some a, Some b => Some (a, b)
  | _, _ => None
  end.
Definition pkey_eqb (a b : pkey) : bool := key_eqb (fst a) (fst b) && key_eqb (snd a) (snd b).
Definition opkey_eqb (a b : option pkey) : bool :=
  match a, b with
  | Some x, Some y => pkey_eqb x y
  | None, None => true
  | _, _ => false
  end.

(* a session in which the agent has announced the pairs [ps], in this order *)
Definition hello_step (s : sess) (p : addr * addr) : sess :=
  fst (fst (fst (serv_msg s (MHello (fst p) (snd p))))).
Definition announce (ps : list (addr * addr)) : sess := fold_left hello_step ps sess0.

(* Connections.Get as it would be with ONE derived key per connection, computed by [kf]
   and compared with [keq] (e.g. a string built from both addresses): the first
   registered connection whose key equals the key of the message's pair. *)
Section Keyed.
Variable K : Type.
Variable keq : K -> K -> bool.
Variable kf : addr -> addr -> K.
Fixpoint get_by (cs : list vconn) (reg : list nat) (l r : addr) : option nat :=
  match reg with
  | [] => None
  | i :: reg' =>
    let c := nth i cs dummy_vc in
    if keq (kf (vc_l c) (vc_r c)) (kf l r) then Some i else get_by cs reg' l r
  end.
End Keyed.

(* net.JoinHostPort(IP.String(), port) as text (ASCII codes) for 4-byte IPs:
   "a.b.c.d:port" in decimal without leading zeros.  (Other IP lengths are printed by
   Go in bracketed hexadecimal groups; here they get a bracketed placeholder - only the
   4-byte form is used, and only that form is compared with Go's text by the harness.) *)
Fixpoint dec_loop (fuel : nat) (n : N) (acc : bytes) : bytes :=
  match fuel with
  | O => acc
  | S f =>
    let acc' := (48 + n mod 10)%N :: acc in
    if (n / 10 =? 0)%N then acc' else dec_loop f (n / 10)%N acc'
  end.
Definition dec_render (n : N) : bytes := dec_loop 20 n [].
Definition ip_render (ip : bytes) : bytes :=
  match ip with
  | [a; b; c; d] => dec_render a ++ [46%N] ++ dec_render b ++ [46%N] ++ dec_render c ++ [46%N] ++ dec_render d
  | _ => [91%N] ++ ip ++ [93%N]
  end.
Definition addr_render (a : addr) : bytes :=
  match a with
  | ATcp ip p | AUdp ip p => ip_render ip ++ [58%N] ++ dec_render (Z.to_N p)
  | ANil => []
  end.
(* the two texts glued together WITHOUT a separator: the key the model must not use *)
Definition concat_key (l r : addr) : bytes := addr_render l ++ addr_render r.
