(* C16 - executable comparison of the implementation's observations with the model
   (mismatches) and with the property (violations):
   codec   : the decoded message must equal the encoded one;
   session : the results of every service call and the frames the agent received must
             be those of the tunnel over a faithful wire ([run ideal_wire]), whose
             properties are the theorems of Properties.v. *)
From HT Require Import Common.Bytes C16.Model.
Open Scope Z_scope.

(* ---- compact byte strings in case files (exact; expanded here) ---- *)
Fixpoint pat (k : nat) (s : N) : bytes :=
  match k with
  | O => []
  | S k' => s :: pat k' (if (s + 1 =? 251)%N then 0%N else (s + 1)%N)
  end.
Inductive seg := SG (s n : N) | SZ (n : N) | SL (b : bytes).
Definition X (l : list seg) : bytes :=
  flat_map (fun g => match g with
                     | SG s n => pat (N.to_nat n) s
                     | SZ n => repeat 0%N (N.to_nat n)
                     | SL b => b
                     end) l.

(* ---- equality tests ---- *)
Fixpoint list_eqb {A} (e : A -> A -> bool) (a b : list A) : bool :=
  match a, b with
  | [], [] => true
  | x :: a', y :: b' => e x y && list_eqb e a' b'
  | _, _ => false
  end.

Definition addr_eqb (a b : addr) : bool :=
  match a, b with
  | ATcp i p, ATcp j q => eqb_bytes i j && (p =? q)
  | AUdp i p, AUdp j q => eqb_bytes i j && (p =? q)
  | ANil, ANil => true
  | _, _ => false
  end.

Definition msg_eqb (a b : msg) : bool :=
  match a, b with
  | MHello l r, MHello l' r' => addr_eqb l l' && addr_eqb r r'
  | MEof l r, MEof l' r' => addr_eqb l l' && addr_eqb r r'
  | MData l r p, MData l' r' p' => addr_eqb l l' && addr_eqb r r' && eqb_bytes p p'
  | MUdp l r p, MUdp l' r' p' => addr_eqb l l' && addr_eqb r r' && eqb_bytes p p'
  | MHandshake pv v s c t, MHandshake pv' v' s' c' t' =>
      (pv =? pv') && eqb_bytes v v' && eqb_bytes s s' && eqb_bytes c c' && eqb_bytes t t'
  | MHsResp l, MHsResp l' => list_eqb addr_eqb l l'
  | MPing, MPing => true
  | _, _ => false
  end.

Definition omsg_eqb (a b : option msg) : bool :=
  match a, b with
  | Some x, Some y => msg_eqb x y
  | None, None => true
  | _, _ => false
  end.

Definition res_eqb (a b : res) : bool :=
  match a, b with
  | RNone, RNone => true
  | RAcc l r, RAcc l' r' => addr_eqb l l' && addr_eqb r r'
  | RUdpAcc l r p, RUdpAcc l' r' p' => addr_eqb l l' && addr_eqb r r' && eqb_bytes p p'
  | RData b, RData b' => eqb_bytes b b'
  | REof, REof => true
  | RTimeout, RTimeout => true
  | RPanic, RPanic => true
  | _, _ => false
  end.

(* ---- codec cases ---- *)
Record ccase := mkCCase { cc_id : N; cc_msg : msg; cc_enc : bytes; cc_dec : msg }.

Definition SIG_ROUNDTRIP := 10%N.        (* decoded <> encoded, no narrower class *)
Definition SIG_SHORT_READ := 11%N.       (* correct encoding longer than the 4096-byte bufio buffer (former defect: one Read per field) *)
Definition SIG_HS_NOT_FLUSHED := 12%N.   (* Handshake.MarshalBinary output is not the concatenation of its fields (former defect: no Flush) *)

Definition is_handshake (m : msg) : bool := match m with MHandshake _ _ _ _ _ => true | _ => false end.

Definition ccase_mismatch (c : ccase) : bool :=
  negb (eqb_bytes (encode_msg (cc_msg c)) (cc_enc c))
  || negb (omsg_eqb (decode_msg (msg_type (cc_msg c)) (cc_enc c)) (Some (cc_dec c))).

Definition ccase_sig (c : ccase) : N :=
  if msg_eqb (cc_dec c) (cc_msg c) then 0%N
  else if is_handshake (cc_msg c) && negb (eqb_bytes (cc_enc c) (encode_flushed (cc_msg c)))
       then SIG_HS_NOT_FLUSHED
  else if eqb_bytes (cc_enc c) (encode_flushed (cc_msg c)) && (BUFSZ <? zlen (cc_enc c))
       then SIG_SHORT_READ
  else SIG_ROUNDTRIP.

(* ---- raw decoding cases (correspondence only) ---- *)
Record rcase := mkRCase { rc_id : N; rc_ty : Z; rc_data : bytes; rc_dec : msg }.
Definition rcase_mismatch (c : rcase) : bool :=
  negb (omsg_eqb (decode_msg (rc_ty c) (rc_data c)) (Some (rc_dec c))).

(* ---- session cases ---- *)
Record scase := mkSCase { sc_id : N; sc_acts : list act; sc_res : list res; sc_frames : list msg }.

Definition SIG_SURFACED := 1%N.     (* a connection was not surfaced / surfaced with other addresses *)
Definition SIG_STREAM := 2%N.       (* bytes read on a connection are not its data messages' bytes, in order, once *)
Definition SIG_END := 3%N.          (* a connection ended (or did not end) contrary to eof/close/disconnect *)
Definition SIG_FRAMES := 4%N.       (* frames returned to the agent: wrong addresses, order or content *)
Definition SIG_TORN_DOWN := 5%N.    (* the session was (not) torn down *)
Definition SIG_LARGE_FRAME := 6%N.  (* bytes/frames wrong in a run that carries a frame longer than 4096 bytes (former codec defect) *)
Definition SIG_OTHER := 7%N.

Definition obs_eqb (o : sess * list res * list msg) (rs : list res) (fs : list msg) : bool :=
  let '(_, rs', fs') := o in list_eqb res_eqb rs' rs && list_eqb msg_eqb fs' fs.

Definition scase_mismatch (c : scase) : bool :=
  negb (obs_eqb (run transport sess0 (sc_acts c)) (sc_res c) (sc_frames c)).

Definition res_class (r : res) : N :=
  match r with
  | RAcc _ _ | RUdpAcc _ _ _ => SIG_SURFACED
  | RData _ => SIG_STREAM
  | REof | RTimeout => SIG_END
  | RPanic => SIG_TORN_DOWN
  | RNone => 0%N
  end.

Fixpoint first_diff (spec obs : list res) : N :=
  match spec, obs with
  | [], [] => 0%N
  | x :: s', y :: o' =>
    if res_eqb x y then first_diff s' o'
    else if (res_class x =? SIG_STREAM)%N || (res_class y =? SIG_STREAM)%N then
           (* a Read that should have / should not have returned bytes *)
           SIG_STREAM
    else N.max (N.max (res_class x) (res_class y)) 1%N
  | _, _ => SIG_OTHER
  end.

Definition act_msgs (a : act) : list msg :=
  match a with ASend m => [m] | APark _ _ m => [m] | _ => [] end.

Definition big_frame (m : msg) : bool := BUFSZ <? zlen (encode_flushed m).

(* ---- bytes / end-of-stream delivered to ANOTHER connection than the one the frame's
   address pair names, judged on the observation:
   - the connections are the observed accepts, in order, each with the pair it was
     surfaced with;
   - bytes: (the first 32 bytes of) the payload of a data message addressed to pair X
     turn up in what a service READ on a connection surfaced with a pair Y <> X, and do
     not belong to that connection's own stream;
   - end: a service Read returns io.EOF on a connection that is still open and empty
     according to every frame addressed to ITS pair, after an eof frame naming another
     pair was sent.
   Pairs are compared structurally ([pair_key]: both addresses, IP in 16-byte form and
   port) - never through a text built from them. *)
Definition SIG_MISDELIVERED := 13%N.

Definition act_conn (a : act) : option nat :=
  match a with ARead c _ => Some c | APark c _ _ => Some c | _ => None end.

(* what the service read on connection c *)
Fixpoint stream_of (c : nat) (acts : list act) (rs : list res) : bytes :=
  match acts, rs with
  | a :: acts', r :: rs' =>
    match act_conn a, r with
    | Some c', RData b => if Nat.eqb c c' then b ++ stream_of c acts' rs' else stream_of c acts' rs'
    | _, _ => stream_of c acts' rs'
    end
  | _, _ => []
  end.

Fixpoint acc_pairs (rs : list res) : list (option pkey) :=
  match rs with
  | [] => []
  | RAcc l r :: rs' => pair_key l r :: acc_pairs rs'
  | _ :: rs' => acc_pairs rs'
  end.

Fixpoint starts_with (needle hay : bytes) : bool :=
  match needle, hay with
  | [], _ => true
  | x :: n', y :: h' => (x =? y)%N && starts_with n' h'
  | _ :: _, [] => false
  end.
Fixpoint occurs (needle hay : bytes) : bool :=
  match hay with
  | [] => match needle with [] => true | _ => false end
  | _ :: t => starts_with needle hay || occurs needle t
  end.

Definition data_frames (acts : list act) : list (option pkey * bytes) :=
  flat_map (fun m => match m with MData l r p => [(pair_key l r, p)] | _ => [] end) (flat_map act_msgs acts).

Definition foreign_bytes (own : option pkey) (got want : bytes) (f : option pkey * bytes) : bool :=
  let '(k, p) := f in
  negb (opkey_eqb k own) && (4 <=? zlen p) &&
  (let needle := firstn 32 p in occurs needle got && negb (occurs needle want)).

Fixpoint misdelivered_bytes (acts : list act) (spec obs : list res) (c : nat) (conns : list (option pkey)) : bool :=
  match conns with
  | [] => false
  | own :: rest =>
    existsb (foreign_bytes own (stream_of c acts obs) (stream_of c acts spec)) (data_frames acts)
    || misdelivered_bytes acts spec obs (S c) rest
  end.

Definition is_foreign_eof (own : option pkey) (m : msg) : bool :=
  match m with MEof l r => negb (opkey_eqb (pair_key l r) own) | _ => false end.

(* [eofs]: the eof frames sent so far *)
Fixpoint misdelivered_eof (conns : list (option pkey)) (eofs : list msg) (acts : list act) (spec obs : list res) : bool :=
  match acts, spec, obs with
  | a :: acts', x :: spec', y :: obs' =>
    (match act_conn a, x, y with
     | Some c, RTimeout, REof =>
       match nth_error conns c with
       | Some own => existsb (is_foreign_eof own) eofs
       | None => false
       end
     | _, _, _ => false
     end)
    || misdelivered_eof conns (eofs ++ act_msgs a) acts' spec' obs'
  | _, _, _ => false
  end.

Definition misdelivered (acts : list act) (spec obs : list res) : bool :=
  let conns := acc_pairs obs in
  misdelivered_bytes acts spec obs 0 conns || misdelivered_eof conns [] acts spec obs.

(* ---- relayed datagrams (ReadWriteUDP), judged on the observation.  Every relayed
   datagram is its own flow: the bytes a service writes on the pseudo-connection it was
   handed for datagram i return to the agent tagged with the (local, remote) pair of
   datagram i - whatever arrived in between, however late the answer is.
   - the datagrams are the ReadWriteUDP messages the agent SENT (both addresses UDP), in
     order; the i-th pseudo-connection the services were handed belongs to the i-th;
   - mistagged: a frame returned to the agent carries the payload of an answer and the
     pair of a datagram of this session, but no answer with that payload was written on a
     datagram with that pair (answers are tagged with the datagram they answer);
   - surfaced: the pseudo-connection handed to the services for a datagram shows other
     addresses or another payload than the agent sent;
   - lost / duplicated: the number of ReadWriteUDP frames the agent received is not the
     number of answers the services wrote successfully. *)
Definition SIG_UDP_MISTAGGED := 14%N.
Definition SIG_UDP_SURFACED := 15%N.
Definition SIG_UDP_LOST_DUP := 16%N.

Definition sent_dgrams (acts : list act) : list (addr * addr * bytes) :=
  flat_map (fun m => match m with
                     | MUdp l r p => if is_udp l && is_udp r then [(l, r, p)] else []
                     | _ => []
                     end) (flat_map act_msgs acts).

Definition answers_of (acts : list act) : list (nat * bytes) :=
  flat_map (fun a => match a with AUdpR i p _ => [(i, p)] | _ => [] end) acts.

Definition pair_eqb (a b : addr * addr) : bool := addr_eqb (fst a) (fst b) && addr_eqb (snd a) (snd b).

(* an answer with payload p was written on a datagram whose pair is pr *)
Definition answered_on (ds : list (addr * addr * bytes)) (reps : list (nat * bytes)) (p : bytes) (pr : addr * addr) : bool :=
  existsb (fun x => eqb_bytes (snd x) p &&
                    match nth_error ds (fst x) with
                    | Some d => pair_eqb (fst d) pr
                    | None => false
                    end) reps.

Definition mistagged_frame (ds : list (addr * addr * bytes)) (reps : list (nat * bytes)) (f : msg) : bool :=
  match f with
  | MUdp l r p =>
    (4 <=? zlen p) && existsb (fun x => eqb_bytes (snd x) p) reps
    && existsb (fun d => pair_eqb (fst d) (l, r)) ds
    && negb (answered_on ds reps p (l, r))
  | _ => false
  end.

Definition udp_mistagged (acts : list act) (frames : list msg) : bool :=
  existsb (mistagged_frame (sent_dgrams acts) (answers_of acts)) frames.

Fixpoint udp_surfaced_wrong (acts : list act) (obs : list res) : bool :=
  match acts, obs with
  | a :: acts', y :: obs' =>
    (match a, y with
     | ASend (MUdp l r p), RUdpAcc l' r' p' => negb (addr_eqb l l' && addr_eqb r r' && eqb_bytes p p')
     | _, _ => false
     end) || udp_surfaced_wrong acts' obs'
  | _, _ => false
  end.

Fixpoint answers_written (acts : list act) (obs : list res) : nat :=
  match acts, obs with
  | AUdpR _ _ _ :: acts', RNone :: obs' => S (answers_written acts' obs')
  | _ :: acts', _ :: obs' => answers_written acts' obs'
  | _, _ => O
  end.

Definition udp_lost_or_dup (acts : list act) (obs : list res) (frames : list msg) : bool :=
  negb (Nat.eqb (length (filter is_udp_msg frames)) (answers_written acts obs)).

Definition scase_sig (c : scase) : N :=
  let '(_, rs, fs) := run ideal_wire sess0 (sc_acts c) in
  if list_eqb res_eqb rs (sc_res c) && list_eqb msg_eqb fs (sc_frames c) then 0%N
  else if udp_mistagged (sc_acts c) (sc_frames c) then SIG_UDP_MISTAGGED
  else if udp_surfaced_wrong (sc_acts c) (sc_res c) then SIG_UDP_SURFACED
  else if existsb big_frame (flat_map act_msgs (sc_acts c) ++ fs)
          && ((first_diff rs (sc_res c) =? 0) || (first_diff rs (sc_res c) =? SIG_STREAM))%N
       then SIG_LARGE_FRAME  (* stream/frame deviation in a run carrying a frame above 4096 bytes *)
  else if misdelivered (sc_acts c) rs (sc_res c) then SIG_MISDELIVERED
  else if udp_lost_or_dup (sc_acts c) (sc_res c) (sc_frames c) then SIG_UDP_LOST_DUP
  else match first_diff rs (sc_res c) with
       | 0%N => SIG_FRAMES
       | s => s
       end.

(* ---- address text cases (correspondence only): Laddr.String() ++ Raddr.String() as
   Go prints it, for pairs of 4-byte-IP addresses, against [concat_key] ---- *)
Record kcase := mkKCase { kc_id : N; kc_l : addr; kc_r : addr; kc_text : bytes }.
Definition kcase_mismatch (c : kcase) : bool := negb (eqb_bytes (concat_key (kc_l c) (kc_r c)) (kc_text c)).

(* ---- unsynchronised runs: what one service read vs. what the agent sent for it ---- *)
Record tcase := mkTCase { tc_id : N; tc_sent : bytes; tc_got : bytes }.
Definition SIG_LOST_AT_CLOSE := 8%N.   (* a proper prefix arrived: bytes still buffered when Read returned EOF (former defect) *)
Fixpoint is_prefix (a b : bytes) : bool :=
  match a, b with
  | [], _ => true
  | x :: a', y :: b' => (x =? y)%N && is_prefix a' b'
  | _ :: _, [] => false
  end.
(* the step-by-step model: for every schedule the reader has read every accepted byte
   when Read returns EOF (C16_all_delivered_before_eof) *)
Definition tcase_mismatch (c : tcase) : bool := negb (eqb_bytes (tc_got c) (tc_sent c)).
Definition tcase_sig (c : tcase) : N :=
  if eqb_bytes (tc_got c) (tc_sent c) then 0%N
  else if is_prefix (tc_got c) (tc_sent c) then SIG_LOST_AT_CLOSE else SIG_STREAM.

Inductive case := CC (c : ccase) | CR (c : rcase) | CS (c : scase) | CT (c : tcase) | CK (c : kcase).

Definition case_id (c : case) : N :=
  match c with CC x => cc_id x | CR x => rc_id x | CS x => sc_id x | CT x => tc_id x | CK x => kc_id x end.
Definition case_mismatch (c : case) : bool :=
  match c with CC x => ccase_mismatch x | CR x => rcase_mismatch x | CS x => scase_mismatch x | CT x => tcase_mismatch x
  | CK x => kcase_mismatch x end.
Definition case_sig (c : case) : N :=
  match c with CC x => ccase_sig x | CR _ => 0%N | CS x => scase_sig x | CT x => tcase_sig x | CK _ => 0%N end.

Definition mismatches (cs : list case) : list N :=
  map case_id (filter case_mismatch cs).
Definition violations (cs : list case) : list (N * N) :=
  flat_map (fun c => let s := case_sig c in if (s =? 0)%N then [] else [(case_id c, s)]) cs.

(* tags: codec 1..7 by message type (+20 when the encoding exceeds 4090 bytes), raw 30,
   session 40 + number of surfaced connections; unsynchronised stream 50; address text 60; 0 = Ping codec case / empty stream *)
Definition count_acc (rs : list res) : N :=
  N.of_nat (length (filter (fun r => match r with RAcc _ _ => true | _ => false end) rs)).
Definition tags (cs : list case) : list (N * N) :=
  map (fun c => (case_id c,
                 match c with
                 | CC x => match cc_msg x with
                           | MPing => 0
                           | m => Z.to_N (msg_type m) + 1 + (if (4090 <? zlen (cc_enc x))%Z then 20 else 0)
                           end
                 | CR _ => 30
                 | CS x => 40 + count_acc (sc_res x)
                 | CT x => if eqb_bytes (tc_sent x) [] then 0 else 50
                 | CK _ => 60
                 end)%N) cs.

