(* C20 - lemmas: UniqueSet (Add/Remove/Each over the shared backing array), the knock
   detector's grouping invariant, the tick, and the TCP path. *)
From HT Require Import Common.Bytes C20.Model.
From Coq Require Import ZifyBool ZifyN ZifyNat.
Open Scope Z_scope.

(* ================================================================ UniqueSet *)
Section USetAdd.
  Variable A : Type.
  Variable eqf : A -> A -> bool.

  (* every later member is unequal (for uniqueFunc(later, earlier)) to every earlier one *)
  Fixpoint distinct (s : list A) : Prop :=
    match s with
    | [] => True
    | a :: r => Forall (fun b => eqf b a = false) r /\ distinct r
    end.

  Lemma uadd_spec x s y s' :
    uadd eqf x s = (y, s') ->
    (In y s /\ eqf x y = true /\ s' = s) \/
    (y = x /\ s' = s ++ [x] /\ forall z, In z s -> eqf x z = false).
  Proof.
    unfold uadd. destruct (find (eqf x) s) eqn:F; intros H; injection H as <- <-.
    - left. apply find_some in F. tauto.
    - right. repeat split; auto. intros z Hz. apply (find_none _ _ F z Hz).
  Qed.

  Lemma uadd_first x s y pre post :
    s = pre ++ y :: post -> eqf x y = true -> (forall z, In z pre -> eqf x z = false) ->
    uadd eqf x s = (y, s).
  Proof.
    intros -> Hy Hpre. unfold uadd.
    assert (find (eqf x) (pre ++ y :: post) = Some y) as ->; auto.
    induction pre as [|p pre IH]; cbn [app find].
    - rewrite Hy; auto.
    - rewrite (Hpre p (or_introl eq_refl)). apply IH. intros z Hz; apply Hpre; right; auto.
  Qed.

  Lemma distinct_snoc s x :
    distinct s -> (forall z, In z s -> eqf x z = false) -> distinct (s ++ [x]).
  Proof.
    induction s as [|a r IH]; cbn [distinct app]; intros H Hx.
    - split; auto.
    - destruct H as [Ha Hr]. split.
      + apply Forall_app; split; auto. constructor; auto. apply Hx; left; auto.
      + apply IH; auto. intros z Hz; apply Hx; right; auto.
  Qed.

  Lemma uadd_distinct x s : distinct s -> distinct (snd (uadd eqf x s)).
  Proof.
    intros H. destruct (uadd eqf x s) as [y s'] eqn:E. apply uadd_spec in E.
    destruct E as [(_ & _ & ->)|(_ & -> & Hz)]; cbn [snd]; auto. apply distinct_snoc; auto.
  Qed.

  (* Add grows the set by one exactly when no member is equal *)
  Lemma uadd_count x s :
    length (snd (uadd eqf x s)) = if existsb (eqf x) s then length s else S (length s).
  Proof.
    unfold uadd. destruct (find (eqf x) s) eqn:F.
    - apply find_some in F. cbn [snd].
      assert (existsb (eqf x) s = true) as -> by (apply existsb_exists; eauto). auto.
    - cbn [snd]. assert (existsb (eqf x) s = false) as ->.
      { apply not_true_is_false. intros H. apply existsb_exists in H as (z & Hz & Hq).
        rewrite (find_none _ _ F z Hz) in Hq; discriminate. }
      rewrite app_length; cbn [length]; lia.
  Qed.

End USetAdd.
Arguments distinct {A}.

Section USetEach.
  Variable A : Type.
  Variable idf : A -> N.
  Notation same := (same idf).
  Notation uremove := (uremove idf).
  Notation each_rm := (each_rm idf).
  Notation each_loop := (each_loop idf).
  Notation w_remove := (w_remove idf).
  Notation index_of := (index_of idf).
  Notation slot_is := (slot_is idf).

  Lemma uremove_incl x s z : In z (uremove x s) -> In z s.
  Proof.
    induction s as [|y r IH]; cbn [Model.uremove]; auto.
    destruct (same x y); cbn [In]; intros H; auto. destruct H; auto.
  Qed.

  (* ---- the array during Each ---- *)
  Fixpoint oremove (x : A) (l : list (option A)) : list (option A) :=
    match l with
    | [] => []
    | o :: r => if slot_is x o then r else o :: oremove x r
    end.

  Lemma index_of_lt x l j : index_of x l = Some j -> (j < length l)%nat.
  Proof.
    revert j; induction l as [|o r IH]; cbn [Model.index_of length]; intros j; [discriminate|].
    destruct (slot_is x o).
    - intros H; injection H as <-; lia.
    - destruct (index_of x r) as [j'|]; [|discriminate]. intros H; injection H as <-.
      specialize (IH j' eq_refl); lia.
  Qed.

  Lemma oremove_index x l :
    oremove x l = match index_of x l with
                  | None => l
                  | Some j => firstn j l ++ skipn (S j) l
                  end.
  Proof.
    induction l as [|o r IH]; cbn [oremove Model.index_of]; auto.
    destruct (slot_is x o); auto.
    rewrite IH. destruct (index_of x r) as [j|]; auto.
  Qed.

  Lemma somes_oremove x l : somes (oremove x l) = uremove x (somes l).
  Proof.
    induction l as [|o r IH]; cbn [oremove somes Model.uremove]; auto.
    destruct o as [y|]; cbn [Model.slot_is somes Model.uremove].
    - destruct (same x y); cbn [somes]; auto. rewrite IH; auto.
    - auto.
  Qed.

  Definition w_ok (w : warr A) : Prop := (w_len w <= length (w_arr w))%nat.

  Lemma live_length w : w_ok w -> length (live w) = w_len w.
  Proof. unfold w_ok, live; intros H; rewrite firstn_length; lia. Qed.

  Lemma w_remove_live x w :
    w_ok w -> live (w_remove x w) = oremove x (live w) /\ w_ok (w_remove x w) /\
              length (w_arr (w_remove x w)) = length (w_arr w).
  Proof.
    intros Hok. pose proof (live_length w Hok) as HL.
    unfold Model.w_remove. rewrite oremove_index.
    destruct (index_of x (live w)) as [j|] eqn:Ej; [|auto].
    pose proof (index_of_lt _ _ _ Ej) as Hj. rewrite HL in Hj.
    unfold w_ok in Hok. set (L := w_len w) in *. set (a := w_arr w) in *.
    assert (Hlen1 : length (firstn j a) = j) by (rewrite firstn_length; lia).
    assert (Hlen2 : length (firstn (L - 1 - j) (skipn (S j) a)) = (L - 1 - j)%nat)
      by (rewrite firstn_length, skipn_length; lia).
    split; [|split].
    - unfold live; cbn [w_len w_arr]. fold a. fold L.
      rewrite app_assoc. rewrite firstn_app.
      rewrite app_length, Hlen1, Hlen2.
      replace (L - 1 - (j + (L - 1 - j)))%nat with O by lia.
      cbn [firstn]. rewrite app_nil_r.
      rewrite firstn_all2 by (rewrite app_length, Hlen1, Hlen2; lia).
      rewrite firstn_firstn. replace (Nat.min j L) with j by lia.
      f_equal.
      replace (L - 1 - j)%nat with (L - S j)%nat by lia.
      rewrite firstn_skipn_comm. f_equal. f_equal. lia.
    - unfold w_ok; cbn [w_len w_arr]. rewrite !app_length, Hlen1, Hlen2, skipn_length.
      cbn [length]. lia.
    - cbn [w_arr]. rewrite !app_length, Hlen1, Hlen2, skipn_length. cbn [length]. lia.
  Qed.

  (* the set after Each is the set before minus a list of removals *)
  Lemma each_loop_removes rm idx : forall w vis w',
    w_ok w -> each_loop rm idx w = (vis, w') ->
    w_ok w' /\ exists xs, somes (live w') = fold_left (fun l x => uremove x l) xs (somes (live w)).
  Proof.
    induction idx as [|i r IH]; cbn [Model.each_loop]; intros w vis w' Hok H.
    - injection H as <- <-. split; auto. exists []; reflexivity.
    - set (o := nth i (w_arr w) None) in *.
      set (w1 := match o with Some x => if rm x then w_remove x w else w | None => w end) in *.
      destruct (each_loop rm r w1) as [vis1 w2] eqn:E. injection H as <- <-.
      assert (Hw1 : w_ok w1 /\ exists xs, somes (live w1) = fold_left (fun l x => uremove x l) xs (somes (live w))).
      { subst w1. destruct o as [x|]; [destruct (rm x)|].
        - destruct (w_remove_live x w Hok) as (Hl & Hok' & _). split; auto.
          exists [x]. cbn [fold_left]. rewrite Hl. apply somes_oremove.
        - split; auto. exists []; reflexivity.
        - split; auto. exists []; reflexivity. }
      destruct Hw1 as (Hok1 & xs1 & Hx1).
      destruct (IH w1 vis1 w2 Hok1 E) as (Hok2 & xs2 & Hx2). split; auto.
      exists (xs1 ++ xs2). rewrite fold_left_app, <- Hx1. exact Hx2.
  Qed.

  Lemma somes_map_Some (s : list A) : somes (map Some s) = s.
  Proof. induction s; cbn [map somes]; congruence. Qed.

  Lemma each_rm_removes rm s :
    exists xs, snd (each_rm rm s) = fold_left (fun l x => uremove x l) xs s.
  Proof.
    unfold Model.each_rm.
    destruct (each_loop rm (seq 0 (length s)) (mkW (map Some s) (length s))) as [vis w] eqn:E.
    apply each_loop_removes in E.
    - destruct E as (_ & xs & Hx). exists xs. cbn [snd]. rewrite Hx.
      unfold live; cbn [w_len w_arr]. rewrite firstn_all2 by (rewrite map_length; lia).
      rewrite somes_map_Some; auto.
    - unfold w_ok; cbn [w_len w_arr]. rewrite map_length; lia.
  Qed.

  Lemma fold_uremove_incl xs : forall s z, In z (fold_left (fun l x => uremove x l) xs s) -> In z s.
  Proof.
    induction xs as [|x r IH]; cbn [fold_left]; auto. intros s z H.
    apply IH in H. eapply uremove_incl; eauto.
  Qed.

  Lemma each_rm_incl rm s z : In z (snd (each_rm rm s)) -> In z s.
  Proof. destruct (each_rm_removes rm s) as (xs & ->). apply fold_uremove_incl. Qed.

  (* ---- Each without removal: every member once, in order ---- *)
  Lemma each_loop_norm idx : forall w,
    each_loop (fun _ => false) idx w = (map (fun i => nth i (w_arr w) None) idx, w).
  Proof.
    induction idx as [|i r IH]; intros w; cbn [Model.each_loop map]; auto.
    destruct (nth i (w_arr w) None); rewrite IH; auto.
  Qed.

  Lemma map_nth_seq {B} (l : list B) d : map (fun i => nth i l d) (seq 0 (length l)) = l.
  Proof.
    induction l as [|b r IH]; cbn [length seq map nth]; auto.
    f_equal. rewrite <- seq_shift, map_map. cbn [nth]. exact IH.
  Qed.

  Lemma each_norm s : each_rm (fun _ => false) s = (map Some s, s).
  Proof.
    unfold Model.each_rm. rewrite each_loop_norm. cbn [w_arr].
    rewrite <- (map_length Some s) at 1. rewrite map_nth_seq.
    unfold live; cbn [w_len w_arr]. rewrite firstn_all2 by (rewrite map_length; lia).
    rewrite somes_map_Some; auto.
  Qed.

  (* ---- Each with removal is exact for at most two members with different identities ---- *)
  Lemma each_rm_le2 rm s :
    (length s <= 2)%nat -> NoDup (map idf s) ->
    each_rm rm s = (map Some s, filter (fun x => negb (rm x)) s).
  Proof.
    intros Hl Hnd.
    destruct s as [|a [|b [|c r]]]; [| | |cbn [length] in Hl; lia].
    - reflexivity.
    - unfold Model.each_rm. cbn.
      destruct (rm a); cbn; [|reflexivity].
      unfold Model.w_remove, live; cbn. unfold Model.same. rewrite N.eqb_refl. reflexivity.
    - assert (Hab : (idf a =? idf b)%N = false).
      { cbn [map] in Hnd. inversion Hnd as [|? ? Hn _]. apply N.eqb_neq. intros E. apply Hn. left; auto. }
      assert (Hba : (idf b =? idf a)%N = false) by (rewrite N.eqb_sym; exact Hab).
      unfold Model.each_rm. cbn.
      destruct (rm a) eqn:Ra; cbn;
        repeat (unfold Model.w_remove, live; cbn; unfold Model.same; rewrite ?N.eqb_refl, ?Hba; cbn);
        destruct (rm b) eqn:Rb; cbn;
        repeat (unfold Model.w_remove, live; cbn; unfold Model.same; rewrite ?N.eqb_refl, ?Hba; cbn);
        reflexivity.
  Qed.

  (* ---- and wrong for every set of three or more members when everything visited is removed:
          the second member is skipped ---- *)
  Lemma each_rm_ge3_skips a b c r :
    exists vis, fst (each_rm (fun _ => true) (a :: b :: c :: r)) = Some a :: Some c :: vis.
  Proof.
    unfold Model.each_rm. cbn [length map seq].
    set (rest := map Some r). set (n := length r).
    assert (Hw : exists tl, w_arr (w_remove a (mkW (Some a :: Some b :: Some c :: rest) (S (S (S n)))))
                            = Some b :: Some c :: tl).
    { unfold Model.w_remove, live. cbn [w_len w_arr firstn Model.index_of Model.slot_is].
      unfold Model.same. rewrite N.eqb_refl. cbn [w_arr Nat.sub firstn skipn app]. eexists; reflexivity. }
    destruct Hw as (tl & Hw).
    cbn [Model.each_loop nth w_arr]. rewrite Hw. cbn [nth].
    match goal with |- context [Model.each_loop idf ?f ?i ?w] => destruct (Model.each_loop idf f i w) as [v w'] end.
    cbn [fst]. eexists; reflexivity.
  Qed.
End USetEach.

Section USetOps.
  Variable A : Type.
  Variable eqf : A -> A -> bool.
  Variable idf : A -> N.
  Notation same := (same idf).
  Notation uremove := (uremove idf).
  Notation each_rm := (each_rm idf).
  Notation each_loop := (each_loop idf).
  Notation w_remove := (w_remove idf).
  Notation index_of := (index_of idf).
  Notation slot_is := (slot_is idf).

  Notation distinct := (distinct eqf).

  Lemma distinct_uremove x s : distinct s -> distinct (uremove x s).
  Proof.
    induction s as [|y r IH]; cbn [Model.uremove Proofs.distinct]; auto.
    intros [Hy Hr]. destruct (same x y); auto. cbn [Proofs.distinct]. split; auto.
    apply Forall_forall. intros z Hz. apply uremove_incl in Hz.
    rewrite Forall_forall in Hy; auto.
  Qed.

  Lemma distinct_fold_uremove xs : forall s, distinct s -> distinct (fold_left (fun l x => uremove x l) xs s).
  Proof. induction xs as [|x r IH]; cbn [fold_left]; auto. intros s H. apply IH, distinct_uremove, H. Qed.

  Lemma each_rm_distinct rm s : distinct s -> distinct (snd (each_rm rm s)).
  Proof. intros H. destruct (each_rm_removes A idf rm s) as (xs & ->). apply distinct_fold_uremove, H. Qed.

  (* ---- all operation sequences ---- *)
  Inductive uop := OAdd (x : A) | ORemove (x : A) | OEach (rm : A -> bool).

  Definition ustep (s : list A) (op : uop) : list A :=
    match op with
    | OAdd x => snd (uadd eqf x s)
    | ORemove x => uremove x s
    | OEach rm => snd (each_rm rm s)
    end.

  Definition urun (ops : list uop) : list A := fold_left ustep ops [].

  Lemma urun_distinct_from ops : forall s, distinct s -> distinct (fold_left ustep ops s).
  Proof.
    induction ops as [|op r IH]; cbn [fold_left]; auto. intros s H. apply IH.
    destruct op; cbn [ustep]; [apply uadd_distinct|apply distinct_uremove|apply each_rm_distinct]; auto.
  Qed.

  Lemma urun_distinct ops : distinct (urun ops).
  Proof. apply urun_distinct_from. exact I. Qed.

End USetOps.

Arguments OAdd {A}.
Arguments ORemove {A}.
Arguments OEach {A}.

(* ================================================================ the knock detector *)
Definition gkey (g : group) : N * N * N * N * N :=
  (proto_of (g_kind g), g_smac g, g_dmac g, g_sip g, g_dip g).
Definition kkey (k : knock) : N * N * N * N * N :=
  (proto_of (k_kind k), k_smac k, k_dmac k, k_sip k, k_dip k).

Lemma group_eq_key a b : group_eq a b = true <-> gkey a = gkey b.
Proof.
  unfold group_eq, gkey. rewrite !andb_true_iff, !N.eqb_eq. split.
  - intros ((((H1 & H2) & H3) & H4) & H5). congruence.
  - intros H; injection H; auto.
Qed.

Lemma group_eq_false a b : group_eq a b = false <-> gkey a <> gkey b.
Proof.
  split.
  - intros H E. apply group_eq_key in E. congruence.
  - intros H. apply not_true_is_false. intros E. apply group_eq_key in E. auto.
Qed.

Lemma gkey_new k t id : gkey (new_group k t id) = kkey k.
Proof. reflexivity. Qed.

Lemma gkey_touch k t g : gkey (touch k t g) = gkey g.
Proof. reflexivity. Qed.

Lemma kind_of_proto a b : a <> KTcp -> b <> KTcp -> proto_of a = proto_of b -> a = b.
Proof. destruct a, b; cbn; intros; congruence. Qed.

Lemma kind_eqb_refl c : kind_eqb c c = true.
Proof. destruct c; reflexivity. Qed.

Lemma knock_eq_port c k z :
  c <> KTcp -> k_kind k = c -> k_kind z = c -> (knock_eq c k z = true <-> port_of k = port_of z).
Proof.
  intros Hc Hk Hz. unfold knock_eq, port_of. rewrite Hk, Hz, kind_eqb_refl. cbn [andb].
  destruct c; [congruence| |].
  - rewrite N.eqb_eq. split; [congruence|]. intros H; injection H; auto.
  - split; auto.
Qed.

(* what holds of a group once its knocks so far are ks *)
Definition gcore (ks : list knock) (next : N) (g : group) : Prop :=
  g_kind g <> KTcp /\
  Forall (fun k' => k_kind k' = g_kind g) (g_knocks g) /\
  NoDup (map port_of (g_knocks g)) /\
  (forall pr, In pr (map port_of (g_knocks g)) <->
              exists k, In k ks /\ kkey k = gkey g /\ port_of k = pr) /\
  (g_id g < next)%N.

Definition gseen (ks : list knock) (ts : list Z) (g : group) : Prop :=
  In (g_last g) ts /\ exists k, In k ks /\ kkey k = gkey g.

Definition dinv (kts : list (knock * Z)) (d : det) : Prop :=
  let ks := map fst kts in let ts := map snd kts in
  NoDup (map g_id (d_groups d)) /\
  NoDup (map gkey (d_groups d)) /\
  Forall (gcore ks (d_next d)) (d_groups d) /\
  Forall (gseen ks ts) (d_groups d) /\
  (forall k, In k ks -> In (kkey k) (map gkey (d_groups d))).

Lemma update_id_replace f y post : forall pre,
  (forall g, In g pre -> g_id g <> g_id y) ->
  update_id (g_id y) f (pre ++ y :: post) = pre ++ f y :: post.
Proof.
  induction pre as [|p pre IH]; intros H; cbn [app update_id].
  - rewrite N.eqb_refl; auto.
  - assert ((g_id p =? g_id y)%N = false) as -> by (apply N.eqb_neq, H; left; auto).
    rewrite IH; auto. intros g Hg; apply H; right; auto.
Qed.

Lemma NoDup_snoc {B} (l : list B) a : NoDup l -> ~ In a l -> NoDup (l ++ [a]).
Proof.
  induction l as [|b r IH]; cbn [app]; intros Hn Ha.
  - constructor; auto.
  - inversion Hn as [|? ? Hb Hr]; subst. constructor.
    + rewrite in_app_iff. cbn [In]. intros [H|[H|[]]]; [auto|]. apply Ha; left; auto.
    + apply IH; auto. intros H; apply Ha; right; auto.
Qed.

Lemma gcore_touch ks next k t y :
  gcore ks next y -> k_kind k <> KTcp -> gkey y = kkey k -> gcore (ks ++ [k]) next (touch k t y).
Proof.
  intros (Hk & Hf & Hn & Hp & Hid) Hkk Hkey.
  assert (Hkind : k_kind k = g_kind y).
  { apply kind_of_proto; auto. unfold gkey, kkey in Hkey. congruence. }
  unfold gcore. cbn [touch g_kind g_knocks g_id]. rewrite gkey_touch.
  split; [auto|].
  destruct (uadd (knock_eq (g_kind y)) k (g_knocks y)) as [z s'] eqn:E. cbn [snd].
  apply uadd_spec in E. destruct E as [(Hz & Hq & ->)|(-> & -> & Hnone)].
  - (* an equal knock is already there *)
    assert (Hzk : k_kind z = g_kind y) by (rewrite Forall_forall in Hf; auto).
    apply knock_eq_port in Hq; auto.
    split; [auto|]. split; [auto|]. split; [|auto].
    intros pr. rewrite Hp. split.
    + intros (k' & Hk' & H1 & H2). exists k'. rewrite in_app_iff. auto.
    + intros (k' & Hk' & H1 & H2). apply in_app_iff in Hk' as [Hk'|[<-|[]]].
      * exists k'; auto.
      * apply Hp. rewrite <- H2, Hq. apply in_map; auto.
  - (* appended *)
    assert (Hnew : ~ In (port_of k) (map port_of (g_knocks y))).
    { intros H. apply in_map_iff in H as (z & Hz1 & Hz2).
      assert (Hzk : k_kind z = g_kind y) by (rewrite Forall_forall in Hf; auto).
      assert (knock_eq (g_kind y) k z = true) by (apply knock_eq_port; auto).
      rewrite Hnone in H; auto. discriminate. }
    split; [apply Forall_app; split; auto|].
    split; [rewrite map_app; apply NoDup_snoc; auto|].
    split; [|auto].
    intros pr. rewrite map_app, in_app_iff, Hp. cbn [map In]. split.
    + intros [(k' & Hk' & H1 & H2)|[<-|[]]].
      * exists k'. rewrite in_app_iff; auto.
      * exists k. rewrite in_app_iff; cbn [In]; auto.
    + intros (k' & Hk' & H1 & H2). apply in_app_iff in Hk' as [Hk'|[<-|[]]].
      * left; exists k'; auto.
      * right; left; auto.
Qed.

Lemma gcore_other ks next k g :
  gcore ks next g -> kkey k <> gkey g -> gcore (ks ++ [k]) next g.
Proof.
  intros (Hk & Hf & Hn & Hp & Hid) Hne. unfold gcore. repeat split; auto.
  - intros H. apply Hp in H as (k' & Hk' & H1 & H2). exists k'. rewrite in_app_iff; auto.
  - intros (k' & Hk' & H1 & H2). apply in_app_iff in Hk' as [Hk'|[<-|[]]].
    + apply Hp. exists k'; auto.
    + congruence.
Qed.

Lemma gcore_next ks n m g : gcore ks n g -> (n <= m)%N -> gcore ks m g.
Proof. intros (Hk & Hf & Hn & Hp & Hid) H. unfold gcore. repeat split; auto; try apply Hp; lia. Qed.

Lemma gseen_mono ks ts k t g : gseen ks ts g -> gseen (ks ++ [k]) (ts ++ [t]) g.
Proof.
  intros (Hl & k' & Hk' & H1). split; [rewrite in_app_iff; auto|].
  exists k'. rewrite in_app_iff; auto.
Qed.

(* one knock: the group with the knock's key is touched, every other group is unchanged *)
Lemma step_knock_inv kts d k t :
  dinv kts d -> k_kind k <> KTcp -> dinv (kts ++ [(k, t)]) (step_knock k t d).
Proof.
  intros (Hid & Hkey & Hcore & Hseen & Hcov) Hk.
  unfold step_knock.
  set (g0 := new_group k t (d_next d)).
  destruct (uadd group_eq g0 (d_groups d)) as [y gs1] eqn:E.
  apply uadd_spec in E.
  (* the list in which y is touched *)
  assert (HB : exists pre post,
    gs1 = pre ++ y :: post /\ gkey y = kkey k /\
    NoDup (map g_id gs1) /\ NoDup (map gkey gs1) /\
    Forall (gcore (map fst kts) (d_next d + 1)%N) gs1 /\
    (forall g, In g gs1 -> g = y \/ gseen (map fst kts) (map snd kts) g) /\
    (forall k', In k' (map fst kts) -> In (kkey k') (map gkey gs1))).
  { destruct E as [(Hy & Hq & ->)|(-> & -> & Hnone)].
    - apply group_eq_key in Hq. change (gkey g0) with (kkey k) in Hq.
      destruct (in_split _ _ Hy) as (pre & post & Hsp). exists pre, post.
      repeat split; auto.
      + eapply Forall_impl; [|exact Hcore]. intros g Hg. eapply gcore_next; eauto. lia.
      + intros g Hg. right. rewrite Forall_forall in Hseen; auto.
    - exists (d_groups d), []. split; [reflexivity|]. split; [reflexivity|].
      assert (Hfresh : ~ In (g_id g0) (map g_id (d_groups d))).
      { intros H. apply in_map_iff in H as (g & Hg1 & Hg2).
        rewrite Forall_forall in Hcore. destruct (Hcore g Hg2) as (_ & _ & _ & _ & Hlt).
        cbn [g0 new_group g_id] in Hg1. lia. }
      assert (Hnk : ~ In (kkey k) (map gkey (d_groups d))).
      { intros H. apply in_map_iff in H as (g & Hg1 & Hg2).
        specialize (Hnone g Hg2). apply group_eq_false in Hnone. change (gkey g0) with (kkey k) in Hnone. congruence. }
      split; [rewrite map_app; apply NoDup_snoc; auto|].
      split; [rewrite map_app; apply NoDup_snoc; auto|].
      split.
      + apply Forall_app; split.
        * eapply Forall_impl; [|exact Hcore]. intros g Hg. eapply gcore_next; eauto. lia.
        * constructor; [|constructor]. unfold gcore. cbn [g0 new_group g_kind g_knocks g_id map].
          split; [auto|]. split; [constructor|]. split; [constructor|]. split; [|lia].
          intros pr. split; [intros []|]. intros (k' & Hk' & H1 & _). exfalso. apply Hnk.
          rewrite <- (gkey_new k t (d_next d)). fold g0. rewrite <- H1. apply Hcov; auto.
      + split.
        * intros g Hg. apply in_app_iff in Hg as [Hg|[<-|[]]]; auto.
          right. rewrite Forall_forall in Hseen; auto.
        * intros k' Hk'. rewrite map_app, in_app_iff. left; auto. }
  destruct HB as (pre & post & -> & Hyk & Hid1 & Hkey1 & Hcore1 & Hseen1 & Hcov1).
  assert (Hpre : forall g, In g pre -> g_id g <> g_id y).
  { intros g Hg E'. rewrite map_app in Hid1. cbn [map] in Hid1.
    apply NoDup_remove_2 in Hid1. apply Hid1. rewrite in_app_iff. left.
    rewrite <- E'. apply in_map; auto. }
  rewrite update_id_replace by auto.
  unfold dinv. cbn [d_groups d_next].
  assert (Hids : map g_id (pre ++ touch k t y :: post) = map g_id (pre ++ y :: post))
    by (rewrite !map_app; reflexivity).
  assert (Hkeys : map gkey (pre ++ touch k t y :: post) = map gkey (pre ++ y :: post))
    by (rewrite !map_app; reflexivity).
  rewrite Hids, Hkeys. rewrite (map_app fst), (map_app snd). cbn [map fst snd].
  split; [auto|]. split; [auto|].
  (* keys of the other groups differ from the knock's *)
  assert (Hother : forall g, In g (pre ++ post) -> kkey k <> gkey g).
  { intros g Hg E'. rewrite map_app in Hkey1. cbn [map] in Hkey1.
    apply NoDup_remove_2 in Hkey1. apply Hkey1. rewrite <- map_app.
    rewrite Hyk, E'. apply in_map; auto. }
  rewrite Forall_app in Hcore1. destruct Hcore1 as (Hc1 & Hc2).
  inversion Hc2 as [|? ? Hcy Hc3]; subst.
  split; [|split].
  - apply Forall_app; split; [|constructor].
    + apply Forall_forall. intros g Hg. rewrite Forall_forall in Hc1.
      apply gcore_other; auto. apply Hother. rewrite in_app_iff; auto.
    + apply gcore_touch; auto.
    + apply Forall_forall. intros g Hg. rewrite Forall_forall in Hc3.
      apply gcore_other; auto. apply Hother. rewrite in_app_iff; auto.
  - apply Forall_forall. intros g Hg.
    apply in_app_iff in Hg as [Hg|[<-|Hg]].
    + destruct (Hseen1 g) as [->|H]; [rewrite in_app_iff; auto| |apply gseen_mono; auto].
      exfalso. apply (Hpre y Hg); auto.
    + split; [cbn [touch g_last]; rewrite in_app_iff; cbn [In]; auto|].
      exists k. rewrite in_app_iff, gkey_touch. cbn [In]; auto.
    + destruct (Hseen1 g) as [->|H]; [rewrite in_app_iff; cbn [In]; auto| |apply gseen_mono; auto].
      exfalso. apply (Hother y); [rewrite in_app_iff; auto|congruence].
  - intros k' Hk'. apply in_app_iff in Hk' as [Hk'|[<-|[]]]; auto.
    rewrite <- Hyk, map_app, in_app_iff. right; left; auto.
Qed.

Lemma run_knocks_snoc kts k t d :
  run_knocks (kts ++ [(k, t)]) d = step_knock k t (run_knocks kts d).
Proof. unfold run_knocks. rewrite fold_left_app. reflexivity. Qed.

Lemma dinv0 : dinv [] det0.
Proof.
  unfold dinv, det0. cbn. repeat split; try constructor. intros k [].
Qed.

Lemma run_knocks_inv kts :
  Forall (fun kt => k_kind (fst kt) <> KTcp) kts -> dinv kts (run_knocks kts det0).
Proof.
  induction kts as [|[k t] kts IH] using rev_ind; intros H.
  - exact dinv0.
  - apply Forall_app in H as (H1 & H2). inversion H2; subst.
    rewrite run_knocks_snoc. apply step_knock_inv; auto.
Qed.

Lemma run_with_knocks_events tk kts rest : forall d,
  run_with tk (map (fun kt => DKnock (fst kt) (snd kt)) kts ++ rest) d
  = run_with tk rest (run_knocks kts d).
Proof.
  induction kts as [|[k t] kts IH]; intros d; cbn [map app run_with fst snd]; auto.
  rewrite IH. reflexivity.
Qed.

Lemma run_knocks_events kts rest : forall d,
  run (map (fun kt => DKnock (fst kt) (snd kt)) kts ++ rest) d = run rest (run_knocks kts d).
Proof. apply run_with_knocks_events. Qed.

(* ---- the statement about the groups: one per (protocol group, source, destination) knocked,
        holding exactly the distinct protocol/port pairs knocked, each once ---- *)
Definition groups_exact (ks : list knock) (gs : list group) : Prop :=
  NoDup (map gkey gs) /\
  (forall k, In k ks -> In (kkey k) (map gkey gs)) /\
  (forall g, In g gs ->
     (exists k, In k ks /\ kkey k = gkey g) /\
     NoDup (r_ports (report_of g)) /\
     (forall pr, In pr (r_ports (report_of g)) <->
                 exists k, In k ks /\ kkey k = gkey g /\ port_of k = pr)).

Lemma dinv_exact kts d : dinv kts d -> groups_exact (map fst kts) (d_groups d).
Proof.
  intros (Hid & Hkey & Hcore & Hseen & Hcov). unfold groups_exact. repeat split; auto.
  - rewrite Forall_forall in Hseen. destruct (Hseen g H) as (_ & Hx). exact Hx.
  - rewrite Forall_forall in Hcore. destruct (Hcore g H) as (_ & _ & Hn & _). exact Hn.
  - rewrite Forall_forall in Hcore. destruct (Hcore g H) as (_ & _ & _ & Hp & _). apply Hp.
  - rewrite Forall_forall in Hcore. destruct (Hcore g H) as (_ & _ & _ & Hp & _). apply Hp.
Qed.

(* ---- the tick ---- *)
Lemma filter_all {B} (f : B -> bool) l : (forall x, In x l -> f x = true) -> filter f l = l.
Proof.
  induction l as [|b r IH]; cbn [filter]; auto. intros H.
  rewrite (H b (or_introl eq_refl)), IH; auto. intros x Hx; apply H; right; auto.
Qed.

Lemma filter_none {B} (f : B -> bool) l : (forall x, In x l -> f x = false) -> filter f l = [].
Proof.
  induction l as [|b r IH]; cbn [filter]; auto. intros H.
  rewrite (H b (or_introl eq_refl)), IH; auto. intros x Hx; apply H; right; auto.
Qed.

Lemma existsb_none_map_Some {B} (l : list B) : existsb is_none (map Some l) = false.
Proof. induction l; cbn [map existsb is_none orb]; auto. Qed.

Lemma tick_le2 now d :
  (length (d_groups d) <= 2)%nat -> NoDup (map g_id (d_groups d)) ->
  (forall g, In g (d_groups d) -> due now g = true /\ removable now g = true) ->
  tick now d = TickOk (map report_of (d_groups d)) (mkDet [] (d_next d)).
Proof.
  intros Hl Hn Hd. unfold tick. rewrite (each_rm_le2 _ g_id) by auto.
  rewrite existsb_none_map_Some, somes_map_Some.
  rewrite filter_all by (intros g Hg; apply Hd; auto).
  rewrite filter_none; auto.
  intros g Hg. destruct (Hd g Hg) as (H1 & H2). unfold tick_rm. rewrite H1, H2. reflexivity.
Qed.

Lemma tick_empty now n : tick now (mkDet [] n) = TickOk [] (mkDet [] n).
Proof. reflexivity. Qed.

Definition at_most_two_keys (ks : list knock) : Prop :=
  forall a b c, In a ks -> In b ks -> In c ks -> kkey a = kkey b \/ kkey a = kkey c \/ kkey b = kkey c.

Lemma exact_le2 ks gs : groups_exact ks gs -> at_most_two_keys ks -> (length gs <= 2)%nat.
Proof.
  intros (Hn & _ & Hg) H2.
  destruct gs as [|g1 [|g2 [|g3 r]]]; cbn [length]; try lia. exfalso.
  destruct (Hg g1) as ((k1 & Hk1 & E1) & _); [cbn; auto|].
  destruct (Hg g2) as ((k2 & Hk2 & E2) & _); [cbn; auto|].
  destruct (Hg g3) as ((k3 & Hk3 & E3) & _); [cbn; auto|].
  cbn [map] in Hn. inversion Hn as [|? ? Hn1 Hn']; subst. inversion Hn' as [|? ? Hn2 _]; subst.
  destruct (H2 k1 k2 k3 Hk1 Hk2 Hk3) as [E|[E|E]].
  - apply Hn1. left. congruence.
  - apply Hn1. right; left. congruence.
  - apply Hn2. left. congruence.
Qed.

(* a burst inside [0, tmax], the first tick at least 5 s after it and less than 60 s after its start *)
Lemma scan_le2 kts tmax now later :
  Forall (fun kt => k_kind (fst kt) <> KTcp) kts ->
  Forall (fun kt => 0 <= snd kt <= tmax) kts ->
  tmax + 5000 <= now < 60000 ->
  at_most_two_keys (map fst kts) ->
  exists gs n,
    groups_exact (map fst kts) gs /\
    run (map (fun kt => DKnock (fst kt) (snd kt)) kts ++ [DTick now; DTick later]) det0
      = Some ([map report_of gs; []], mkDet [] n).
Proof.
  intros Hk Ht Hnow H2.
  pose proof (run_knocks_inv kts Hk) as Hinv.
  pose proof (dinv_exact _ _ Hinv) as Hex.
  exists (d_groups (run_knocks kts det0)), (d_next (run_knocks kts det0)).
  split; auto.
  rewrite run_knocks_events. unfold run. cbn [run_with].
  destruct Hinv as (Hid & _ & _ & Hseen & _).
  rewrite tick_le2; auto.
  - eapply exact_le2; eauto.
  - intros g Hg. rewrite Forall_forall in Hseen. destruct (Hseen g Hg) as (Hl & _).
    apply in_map_iff in Hl as ((k', t') & Ht' & Hin). cbn [snd] in Ht'.
    rewrite Forall_forall in Ht. specialize (Ht _ Hin). cbn [snd] in Ht.
    unfold due, removable. rewrite <- Ht'. split.
    + apply orb_true_iff. right. apply negb_true_iff. apply Z.ltb_ge. lia.
    + apply Z.ltb_lt. lia.
Qed.

(* ---- TCP: no path of handleTCP reaches the knock send ---- *)
Lemma tcp_never i : tcp_queues_knock i = false.
Proof.
  destruct i as [a b c d e f s g]. unfold tcp_queues_knock. cbn.
  destruct a, b, c, d, e, f, g; cbn; try reflexivity; destruct s as [[]|]; reflexivity.
Qed.

Lemma knocks_of_tcp st ackok ps :
  Forall (fun p => p_proto p = 0%N) ps -> flat_map (knocks_of_probe st ackok) ps = [].
Proof.
  induction 1 as [|p r Hp _ IH]; cbn [flat_map]; auto.
  rewrite IH, app_nil_r. unfold knocks_of_probe. rewrite Hp, tcp_never. reflexivity.
Qed.

Lemma ticks_idle nows : forall n,
  run (map DTick nows) (mkDet [] n) = Some (map (fun _ => []) nows, mkDet [] n).
Proof.
  unfold run. induction nows as [|t r IH]; intros n; cbn [map run_with]; auto.
  rewrite tick_empty, IH. reflexivity.
Qed.

(* ---- defect class of Each-with-removal: every set of >= 3 members ---- *)
Lemma each_rm_ge3_wrong {A} (idf : A -> N) (s : list A) :
  (3 <= length s)%nat -> NoDup (map idf s) ->
  fst (each_rm idf (fun _ => true) s) <> map Some s.
Proof.
  intros Hl Hn. destruct s as [|a [|b [|c r]]]; cbn [length] in Hl; try lia.
  destruct (each_rm_ge3_skips A idf a b c r) as (vis & ->). cbn [map].
  intros E. injection E as E _. subst c.
  cbn [map] in Hn. inversion Hn as [|? ? _ Hn']; subst. inversion Hn' as [|? ? Hb _]; subst.
  apply Hb. left; auto.
Qed.

(* ---- witnesses ---- *)
Definition wit_udp (src port : N) : knock := mkKnock KUdp (src_mac src) dst_mac (src_ip src) dst_ip port.
Definition wit_kts : list (knock * Z) := [(wit_udp 0 1000, 0); (wit_udp 1 1000, 0); (wit_udp 2 1000, 0)].
Definition wit_rep (src : N) : report := mkReport (src_mac src) dst_mac (src_ip src) dst_ip [(KUdp, 1000%N)].

Lemma wit_run :
  run (map (fun kt => DKnock (fst kt) (snd kt)) wit_kts ++ [DTick 5000; DTick 10000; DTick 15000]) det0
  = Some ([[wit_rep 0; wit_rep 2; wit_rep 2]; [wit_rep 1]; []], mkDet [] 3%N).
Proof. vm_compute. reflexivity. Qed.

Lemma each_rm_refuted :
  exists s : list N, NoDup s /\
    each_rm (fun x => x) (fun _ => true) s = ([Some 1; Some 3; Some 3]%N, [2%N]) /\ s = [1; 2; 3]%N.
Proof.
  exists [1; 2; 3]%N. split; [|split; [vm_compute; reflexivity|reflexivity]].
  repeat constructor; cbn; intros H; repeat destruct H as [H|H]; try discriminate; auto.
Qed.

Lemma run_knocks_exact kts :
  Forall (fun kt => k_kind (fst kt) <> KTcp) kts ->
  groups_exact (map fst kts) (d_groups (run_knocks kts det0)).
Proof. intros H. apply dinv_exact, run_knocks_inv, H. Qed.

Lemma scan_full_refuted :
  ~ (forall kts tmax now later,
     Forall (fun kt => k_kind (fst kt) <> KTcp) kts ->
     Forall (fun kt => 0 <= snd kt <= tmax) kts ->
     tmax + 5000 <= now < 60000 ->
     exists gs n,
       groups_exact (map fst kts) gs /\
       run (map (fun kt => DKnock (fst kt) (snd kt)) kts ++ [DTick now; DTick later]) det0
         = Some ([map report_of gs; []], mkDet [] n)).
Proof.
  intros H.
  destruct (H wit_kts 0 5000 10000) as (gs & n & _ & Hrun).
  - repeat constructor; cbn; discriminate.
  - repeat constructor; cbn; lia.
  - lia.
  - vm_compute in Hrun. discriminate Hrun.
Qed.

Lemma tcp_probes_silent st ackok ps nows :
  Forall (fun p => p_proto p = 0%N) ps ->
  run (map (fun k => DKnock k 0) (flat_map (knocks_of_probe st ackok) ps) ++ map DTick nows) det0
  = Some (map (fun _ => []) nows, det0).
Proof.
  intros H. rewrite knocks_of_tcp by exact H. cbn [map app]. apply ticks_idle.
Qed.

(* ================================================================ the repaired tick *)
Section Copy.
  Variable A : Type.
  Variable idf : A -> N.

  Lemma fold_uremove_cons_other a xs : forall l,
    (forall x, In x xs -> idf x <> idf a) ->
    fold_left (fun l x => uremove idf x l) xs (a :: l) = a :: fold_left (fun l x => uremove idf x l) xs l.
  Proof.
    induction xs as [|x r IH]; intros l H; cbn [fold_left]; auto.
    cbn [uremove]. unfold same at 1.
    assert ((idf x =? idf a)%N = false) as -> by (apply N.eqb_neq, H; left; auto).
    apply IH. intros y Hy; apply H; right; auto.
  Qed.

  Lemma fold_uremove_filter rm s :
    NoDup (map idf s) ->
    fold_left (fun l x => uremove idf x l) (filter rm s) s = filter (fun x => negb (rm x)) s.
  Proof.
    induction s as [|a r IH]; cbn [map filter fold_left]; auto.
    intros Hn. inversion Hn as [|? ? Ha Hr]; subst.
    destruct (rm a) eqn:Ra; cbn [negb fold_left].
    - cbn [uremove]. unfold same. rewrite N.eqb_refl. apply IH; auto.
    - rewrite fold_uremove_cons_other.
      + rewrite IH; auto.
      + intros x Hx E. apply filter_In in Hx as (Hx & _). apply Ha. rewrite <- E. apply in_map; auto.
  Qed.

  Lemma each_rm_copy_exact rm s :
    NoDup (map idf s) -> each_rm_copy idf rm s = (map Some s, filter (fun x => negb (rm x)) s).
  Proof. intros H. unfold each_rm_copy. rewrite fold_uremove_filter; auto. Qed.
End Copy.

Lemma tick_repaired_all now d :
  NoDup (map g_id (d_groups d)) ->
  (forall g, In g (d_groups d) -> due now g = true /\ removable now g = true) ->
  tick_repaired now d = TickOk (map report_of (d_groups d)) (mkDet [] (d_next d)).
Proof.
  intros Hn Hd. unfold tick_repaired. rewrite each_rm_copy_exact by auto.
  rewrite existsb_none_map_Some, somes_map_Some.
  rewrite filter_all by (intros g Hg; apply Hd; auto).
  rewrite filter_none; auto.
  intros g Hg. destruct (Hd g Hg) as (H1 & H2). unfold tick_rm. rewrite H1, H2. reflexivity.
Qed.

(* with Each iterating over a copy the statement holds for any number of groups *)
Lemma scan_repaired kts tmax now later :
  Forall (fun kt => k_kind (fst kt) <> KTcp) kts ->
  Forall (fun kt => 0 <= snd kt <= tmax) kts ->
  tmax + 5000 <= now < 60000 ->
  exists gs n,
    groups_exact (map fst kts) gs /\
    run_with tick_repaired (map (fun kt => DKnock (fst kt) (snd kt)) kts ++ [DTick now; DTick later]) det0
      = Some ([map report_of gs; []], mkDet [] n).
Proof.
  intros Hk Ht Hnow.
  pose proof (run_knocks_inv kts Hk) as Hinv.
  pose proof (dinv_exact _ _ Hinv) as Hex.
  exists (d_groups (run_knocks kts det0)), (d_next (run_knocks kts det0)).
  split; auto.
  rewrite run_with_knocks_events. cbn [run_with].
  destruct Hinv as (Hid & _ & _ & Hseen & _).
  rewrite tick_repaired_all; auto.
  intros g Hg. rewrite Forall_forall in Hseen. destruct (Hseen g Hg) as (Hl & _).
  apply in_map_iff in Hl as ((k', t') & Ht' & Hin). cbn [snd] in Ht'.
  rewrite Forall_forall in Ht. specialize (Ht _ Hin). cbn [snd] in Ht.
  unfold due, removable. rewrite <- Ht'. split.
  - apply orb_true_iff. right. apply negb_true_iff. apply Z.ltb_ge. lia.
  - apply Z.ltb_lt. lia.
Qed.

(* ================================================================ the tick never reads a nil slot *)
Section NoNil.
  Variable A : Type.
  Variable idf : A -> N.

  Lemma my_nth_firstn {B} (l : list B) d : forall n i, (i < n)%nat -> nth i (firstn n l) d = nth i l d.
  Proof.
    induction l as [|b r IH]; intros n i H.
    - rewrite firstn_nil. reflexivity.
    - destruct n; [lia|]. destruct i; cbn [firstn nth]; auto. apply IH; lia.
  Qed.

  Lemma my_nth_skipn {B} (l : list B) d : forall n i, nth i (skipn n l) d = nth (n + i) l d.
  Proof.
    induction l as [|b r IH]; intros n i.
    - rewrite skipn_nil. destruct i, n; reflexivity.
    - destruct n; cbn [skipn Nat.add nth]; auto.
  Qed.

  Lemma index_of_le x l : forall j i,
    index_of idf x l = Some j -> nth i l None = Some x -> (j <= i)%nat.
  Proof.
    induction l as [|o r IH]; intros j i Hj Hi; cbn [index_of] in Hj; [discriminate|].
    destruct i.
    - cbn [nth] in Hi. subst o. cbn [slot_is] in Hj. unfold same in Hj. rewrite N.eqb_refl in Hj.
      injection Hj as <-. lia.
    - cbn [nth] in Hi. destruct (slot_is idf x o); [injection Hj as <-; lia|].
      destruct (index_of idf x r) as [j'|] eqn:E; [|discriminate]. injection Hj as <-.
      specialize (IH j' i eq_refl Hi). lia.
  Qed.

  Lemma w_remove_keeps_some x w i n :
    w_ok A w -> length (w_arr w) = n ->
    (forall j, index_of idf x (live w) = Some j -> (j <= i)%nat) ->
    (forall q, (i <= q < n)%nat -> nth q (w_arr w) None <> None) ->
    forall q, (i < q < n)%nat -> nth q (w_arr (w_remove idf x w)) None <> None.
  Proof.
    intros Hok Hlen Hj Hinv q Hq. pose proof (live_length A w Hok) as HL.
    unfold w_remove. destruct (index_of idf x (live w)) as [j|] eqn:Ej; [|apply Hinv; lia].
    specialize (Hj j eq_refl).
    pose proof (index_of_lt A idf _ _ _ Ej) as HjL. rewrite HL in HjL.
    unfold w_ok in Hok. cbn [w_arr]. set (L := w_len w) in *. set (a := w_arr w) in *.
    assert (Hlen1 : length (firstn j a) = j) by (rewrite firstn_length; lia).
    assert (Hlen2 : length (firstn (L - 1 - j) (skipn (S j) a)) = (L - 1 - j)%nat)
      by (rewrite firstn_length, skipn_length; lia).
    rewrite app_nth2 by lia. rewrite Hlen1.
    destruct (Nat.lt_ge_cases (q - j) (L - 1 - j)) as [H1|H1].
    - rewrite app_nth1 by lia. rewrite my_nth_firstn by lia. rewrite my_nth_skipn.
      apply Hinv. lia.
    - rewrite app_nth2 by lia. rewrite Hlen2.
      destruct (Nat.eq_dec (q - j - (L - 1 - j)) 0) as [H0|H0].
      + rewrite H0. cbn [app nth].
        assert ((j =? L - 1)%nat = false) as -> by (apply Nat.eqb_neq; lia).
        apply Hinv. lia.
      + destruct (q - j - (L - 1 - j))%nat as [|m] eqn:Em; [lia|]. cbn [app nth].
        rewrite my_nth_skipn. replace (L + m)%nat with q by lia. apply Hinv. lia.
  Qed.

  Lemma each_loop_no_nil rm n : forall k i w vis w',
    (i + k = n)%nat -> w_ok A w -> length (w_arr w) = n ->
    (forall q, (i <= q < n)%nat -> nth q (w_arr w) None <> None) ->
    each_loop idf rm (seq i k) w = (vis, w') -> Forall (fun o => o <> None) vis.
  Proof.
    induction k as [|k IH]; intros i w vis w' Hik Hok Hlen Hinv H; cbn [seq each_loop] in H.
    - injection H as <- <-. constructor.
    - set (o := nth i (w_arr w) None) in *.
      assert (Ho : o <> None) by (apply Hinv; lia).
      destruct o as [x|] eqn:Eo; [|congruence].
      set (w1 := if rm x then w_remove idf x w else w) in *.
      destruct (each_loop idf rm (seq (S i) k) w1) as [vis1 w2] eqn:E. injection H as <- <-.
      constructor; [discriminate|].
      apply (IH (S i) w1 vis1 w2); auto; try lia.
      + subst w1. destruct (rm x); auto. apply (w_remove_live A idf x w Hok).
      + subst w1. destruct (rm x); auto.
        destruct (w_remove_live A idf x w Hok) as (_ & _ & Hl). lia.
      + intros q Hq. subst w1. destruct (rm x); [|apply Hinv; lia].
        apply (w_remove_keeps_some x w i n); auto; try lia.
        intros j Hj.
        destruct (Nat.lt_ge_cases i (w_len w)) as [Hi|Hi].
        * apply (index_of_le x (live w)); auto. unfold live. rewrite my_nth_firstn by lia. exact Eo.
        * pose proof (index_of_lt A idf _ _ _ Hj) as HjL. rewrite (live_length A w Hok) in HjL. lia.
  Qed.

  Lemma each_rm_no_nil rm s : Forall (fun o => o <> None) (fst (each_rm idf rm s)).
  Proof.
    unfold each_rm.
    destruct (each_loop idf rm (seq 0 (length s)) (mkW (map Some s) (length s))) as [vis w] eqn:E.
    cbn [fst]. apply (each_loop_no_nil rm (length s) (length s) 0%nat _ _ _ eq_refl) in E; auto.
    - unfold w_ok; cbn [w_len w_arr]. rewrite map_length; lia.
    - cbn [w_arr]. apply map_length.
    - intros q Hq. cbn [w_arr]. intros Hn.
      assert (Hq' : (q < length (map Some s))%nat) by (rewrite map_length; lia).
      apply (nth_In _ (@None A)) in Hq'. rewrite Hn in Hq'. apply in_map_iff in Hq' as (z & Hz & _). discriminate.
  Qed.
End NoNil.

Lemma tick_no_panic now d : tick now d <> TickPanic.
Proof.
  unfold tick. pose proof (each_rm_no_nil group g_id (tick_rm now) (d_groups d)) as H.
  destruct (each_rm g_id (tick_rm now) (d_groups d)) as [vis gs]. cbn [fst] in H.
  assert (existsb is_none vis = false) as ->; [|discriminate].
  apply not_true_is_false. intros E. apply existsb_exists in E as (o & Ho & Hn).
  rewrite Forall_forall in H. specialize (H o Ho). destruct o; [discriminate|congruence].
Qed.

Lemma run_no_panic evs : forall d, run evs d <> None.
Proof.
  unfold run. induction evs as [|[k t|now] r IH]; intros d; cbn [run_with]; [discriminate|apply IH|].
  pose proof (tick_no_panic now d) as Hp. destruct (tick now d) as [reps d'|]; [|congruence].
  specialize (IH d'). destruct (run_with tick r d') as [[rs d'']|]; [discriminate|congruence].
Qed.

(* ---- latent: were TCP knocks queued, they would join the source's UDP group (its Protocol
        is the zero value = ProtocolTCP) whose equality function rejects TCP knocks ---- *)
Definition wit_mixed : list (knock * Z) :=
  [(wit_udp 0 80, 0);
   (mkKnock KTcp (src_mac 0) dst_mac (src_ip 0) dst_ip 80, 0);
   (mkKnock KTcp (src_mac 0) dst_mac (src_ip 0) dst_ip 80, 0)].

Lemma mixed_group_lists_twice :
  map report_of (d_groups (run_knocks wit_mixed det0)) =
  [mkReport (src_mac 0) dst_mac (src_ip 0) dst_ip [(KUdp, 80%N); (KTcp, 80%N); (KTcp, 80%N)]].
Proof. vm_compute. reflexivity. Qed.
