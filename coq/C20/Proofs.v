(* C20 - lemmas: UniqueSet (Add / Remove / Each over a copy), the knock detector's grouping
   invariant, the tick, and the TCP path. *)
From HT Require Import Common.Bytes C20.Model.
From Coq Require Import ZifyBool ZifyN ZifyNat.
Open Scope Z_scope.

(* ================================================================ UniqueSet *)
Section USetAdd.
  Variable A : Type.
  Variable eqf : A -> A -> bool.

  (* every later member is unequal (for uniqueFunc(later, earlier)) to every earlier one *)
  Fixpoint distinct (s : list A) : Prop :=
    match s with
    | [] => True
    | a :: r => Forall (fun b => eqf b a = false) r /\ distinct r
    end.

  Lemma uadd_spec x s y s' :
    uadd eqf x s = (y, s') ->
    (In y s /\ eqf x y = true /\ s' = s) \/
    (y = x /\ s' = s ++ [x] /\ forall z, In z s -> eqf x z = false).
  Proof.
    unfold uadd. destruct (find (eqf x) s) eqn:F; intros H; injection H as <- <-.
    - left. apply find_some in F. tauto.
    - right. repeat split; auto. intros z Hz. apply (find_none _ _ F z Hz).
  Qed.

  Lemma uadd_first x s y pre post :
    s = pre ++ y :: post -> eqf x y = true -> (forall z, In z pre -> eqf x z = false) ->
    uadd eqf x s = (y, s).
  Proof.
    intros -> Hy Hpre. unfold uadd.
    assert (find (eqf x) (pre ++ y :: post) = Some y) as ->; auto.
    induction pre as [|p pre IH]; cbn [app find].
    - rewrite Hy; auto.
    - rewrite (Hpre p (or_introl eq_refl)). apply IH. intros z Hz; apply Hpre; right; auto.
  Qed.

  Lemma distinct_snoc s x :
    distinct s -> (forall z, In z s -> eqf x z = false) -> distinct (s ++ [x]).
  Proof.
    induction s as [|a r IH]; cbn [distinct app]; intros H Hx.
    - split; auto.
    - destruct H as [Ha Hr]. split.
      + apply Forall_app; split; auto. constructor; auto. apply Hx; left; auto.
      + apply IH; auto. intros z Hz; apply Hx; right; auto.
  Qed.

  Lemma uadd_distinct x s : distinct s -> distinct (snd (uadd eqf x s)).
  Proof.
    intros H. destruct (uadd eqf x s) as [y s'] eqn:E. apply uadd_spec in E.
    destruct E as [(_ & _ & ->)|(_ & -> & Hz)]; cbn [snd]; auto. apply distinct_snoc; auto.
  Qed.

  (* Add grows the set by one exactly when no member is equal *)
  Lemma uadd_count x s :
    length (snd (uadd eqf x s)) = if existsb (eqf x) s then length s else S (length s).
  Proof.
    unfold uadd. destruct (find (eqf x) s) eqn:F.
    - apply find_some in F. cbn [snd].
      assert (existsb (eqf x) s = true) as -> by (apply existsb_exists; eauto). auto.
    - cbn [snd]. assert (existsb (eqf x) s = false) as ->.
      { apply not_true_is_false. intros H. apply existsb_exists in H as (z & Hz & Hq).
        rewrite (find_none _ _ F z Hz) in Hq; discriminate. }
      rewrite app_length; cbn [length]; lia.
  Qed.

End USetAdd.
Arguments distinct {A}.

Section USetEach.
  Variable A : Type.
  Variable idf : A -> N.
  Notation same := (same idf).
  Notation uremove := (uremove idf).
  Notation each_rm := (each_rm idf).
  Notation each_loop := (each_loop idf).

  Lemma uremove_incl x s z : In z (uremove x s) -> In z s.
  Proof.
    induction s as [|y r IH]; cbn [Model.uremove]; auto.
    destruct (same x y); cbn [In]; intros H; auto. destruct H; auto.
  Qed.

  (* Each visits exactly the members it found when it started, once each, in order *)
  Lemma each_loop_visits rm copy : forall l, fst (each_loop rm copy l) = copy.
  Proof.
    induction copy as [|x r IH]; intros l; cbn [Model.each_loop]; auto.
    specialize (IH (if rm x then uremove x l else l)).
    destruct (each_loop rm r (if rm x then uremove x l else l)). cbn [fst] in *. congruence.
  Qed.

  Lemma each_loop_left rm copy : forall l,
    snd (each_loop rm copy l) = fold_left (fun l x => uremove x l) (filter rm copy) l.
  Proof.
    induction copy as [|x r IH]; intros l; cbn [Model.each_loop filter]; auto.
    specialize (IH (if rm x then uremove x l else l)).
    destruct (each_loop rm r (if rm x then uremove x l else l)). cbn [snd] in *.
    destruct (rm x); cbn [fold_left]; auto.
  Qed.

  Lemma each_rm_visits rm s : fst (each_rm rm s) = s.
  Proof. apply each_loop_visits. Qed.

  Lemma each_rm_removes rm s :
    snd (each_rm rm s) = fold_left (fun l x => uremove x l) (filter rm s) s.
  Proof. apply each_loop_left. Qed.

  Lemma fold_uremove_cons_other a xs : forall l,
    (forall x, In x xs -> idf x <> idf a) ->
    fold_left (fun l x => uremove x l) xs (a :: l) = a :: fold_left (fun l x => uremove x l) xs l.
  Proof.
    induction xs as [|x r IH]; intros l H; cbn [fold_left]; auto.
    cbn [Model.uremove]. unfold Model.same at 1.
    assert ((idf x =? idf a)%N = false) as -> by (apply N.eqb_neq, H; left; auto).
    apply IH. intros y Hy; apply H; right; auto.
  Qed.

  Lemma fold_uremove_filter rm s :
    NoDup (map idf s) ->
    fold_left (fun l x => uremove x l) (filter rm s) s = filter (fun x => negb (rm x)) s.
  Proof.
    induction s as [|a r IH]; cbn [map filter fold_left]; auto.
    intros Hn. inversion Hn as [|? ? Ha Hr]; subst.
    destruct (rm a) eqn:Ra; cbn [negb fold_left].
    - cbn [Model.uremove]. unfold Model.same. rewrite N.eqb_refl. apply IH; auto.
    - rewrite fold_uremove_cons_other.
      + rewrite IH; auto.
      + intros x Hx E. apply filter_In in Hx as (Hx & _). apply Ha. rewrite <- E. apply in_map; auto.
  Qed.

  (* with distinct identities: exactly the members to be removed are removed *)
  Lemma each_rm_exact rm s :
    NoDup (map idf s) -> each_rm rm s = (s, filter (fun x => negb (rm x)) s).
  Proof.
    intros H. rewrite (surjective_pairing (each_rm rm s)), each_rm_visits, each_rm_removes.
    rewrite fold_uremove_filter; auto.
  Qed.

  Lemma fold_uremove_incl xs : forall s z, In z (fold_left (fun l x => uremove x l) xs s) -> In z s.
  Proof.
    induction xs as [|x r IH]; cbn [fold_left]; auto. intros s z H.
    apply IH in H. eapply uremove_incl; eauto.
  Qed.
End USetEach.

Section USetOps.
  Variable A : Type.
  Variable eqf : A -> A -> bool.
  Variable idf : A -> N.
  Notation same := (same idf).
  Notation uremove := (uremove idf).
  Notation each_rm := (each_rm idf).
  Notation distinct := (distinct eqf).

  Lemma distinct_uremove x s : distinct s -> distinct (uremove x s).
  Proof.
    induction s as [|y r IH]; cbn [Model.uremove Proofs.distinct]; auto.
    intros [Hy Hr]. destruct (same x y); auto. cbn [Proofs.distinct]. split; auto.
    apply Forall_forall. intros z Hz. apply uremove_incl in Hz.
    rewrite Forall_forall in Hy; auto.
  Qed.

  Lemma distinct_fold_uremove xs : forall s, distinct s -> distinct (fold_left (fun l x => uremove x l) xs s).
  Proof. induction xs as [|x r IH]; cbn [fold_left]; auto. intros s H. apply IH, distinct_uremove, H. Qed.

  Lemma each_rm_distinct rm s : distinct s -> distinct (snd (each_rm rm s)).
  Proof. intros H. rewrite each_rm_removes. apply distinct_fold_uremove, H. Qed.

  (* ---- all operation sequences ---- *)
  Inductive uop := OAdd (x : A) | ORemove (x : A) | OEach (rm : A -> bool).

  Definition ustep (s : list A) (op : uop) : list A :=
    match op with
    | OAdd x => snd (uadd eqf x s)
    | ORemove x => uremove x s
    | OEach rm => snd (each_rm rm s)
    end.

  Definition urun (ops : list uop) : list A := fold_left ustep ops [].

  Lemma urun_distinct_from ops : forall s, distinct s -> distinct (fold_left ustep ops s).
  Proof.
    induction ops as [|op r IH]; cbn [fold_left]; auto. intros s H. apply IH.
    destruct op; cbn [ustep]; [apply uadd_distinct|apply distinct_uremove|apply each_rm_distinct]; auto.
  Qed.

  Lemma urun_distinct ops : distinct (urun ops).
  Proof. apply urun_distinct_from. exact I. Qed.

End USetOps.

Arguments OAdd {A}.
Arguments ORemove {A}.
Arguments OEach {A}.

(* ================================================================ the knock detector *)
Definition gkey (g : group) : N * N * N * N * N :=
  (proto_of (g_kind g), g_smac g, g_dmac g, g_sip g, g_dip g).
Definition kkey (k : knock) : N * N * N * N * N :=
  (proto_of (k_kind k), k_smac k, k_dmac k, k_sip k, k_dip k).

Lemma group_eq_key a b : group_eq a b = true <-> gkey a = gkey b.
Proof.
  unfold group_eq, gkey. rewrite !andb_true_iff, !N.eqb_eq. split.
  - intros ((((H1 & H2) & H3) & H4) & H5). congruence.
  - intros H; injection H; auto.
Qed.

Lemma group_eq_false a b : group_eq a b = false <-> gkey a <> gkey b.
Proof.
  split.
  - intros H E. apply group_eq_key in E. congruence.
  - intros H. apply not_true_is_false. intros E. apply group_eq_key in E. auto.
Qed.

Lemma gkey_new k t id : gkey (new_group k t id) = kkey k.
Proof. reflexivity. Qed.

Lemma gkey_touch k t g : gkey (touch k t g) = gkey g.
Proof. reflexivity. Qed.

Lemma kind_of_proto a b : proto_of a = proto_of b -> a = b.
Proof. destruct a, b; cbn; intros; congruence. Qed.

Lemma kind_eqb_refl c : kind_eqb c c = true.
Proof. destruct c; reflexivity. Qed.

Lemma knock_eq_port c k z :
  k_kind k = c -> k_kind z = c -> (knock_eq c k z = true <-> port_of k = port_of z).
Proof.
  intros Hk Hz. unfold knock_eq, port_of. rewrite Hk, Hz, kind_eqb_refl. cbn [andb].
  destruct c.
  - rewrite N.eqb_eq. split; [congruence|]. intros H; injection H; auto.
  - rewrite N.eqb_eq. split; [congruence|]. intros H; injection H; auto.
  - split; auto.
Qed.

(* what holds of a group once its knocks so far are ks *)
Definition gcore (ks : list knock) (next : N) (g : group) : Prop :=
  Forall (fun k' => k_kind k' = g_kind g) (g_knocks g) /\
  NoDup (map port_of (g_knocks g)) /\
  (forall pr, In pr (map port_of (g_knocks g)) <->
              exists k, In k ks /\ kkey k = gkey g /\ port_of k = pr) /\
  (g_id g < next)%N.

Definition gseen (ks : list knock) (ts : list Z) (g : group) : Prop :=
  In (g_last g) ts /\ exists k, In k ks /\ kkey k = gkey g.

Definition dinv (kts : list (knock * Z)) (d : det) : Prop :=
  let ks := map fst kts in let ts := map snd kts in
  NoDup (map g_id (d_groups d)) /\
  NoDup (map gkey (d_groups d)) /\
  Forall (gcore ks (d_next d)) (d_groups d) /\
  Forall (gseen ks ts) (d_groups d) /\
  (forall k, In k ks -> In (kkey k) (map gkey (d_groups d))).

Lemma update_id_replace f y post : forall pre,
  (forall g, In g pre -> g_id g <> g_id y) ->
  update_id (g_id y) f (pre ++ y :: post) = pre ++ f y :: post.
Proof.
  induction pre as [|p pre IH]; intros H; cbn [app update_id].
  - rewrite N.eqb_refl; auto.
  - assert ((g_id p =? g_id y)%N = false) as -> by (apply N.eqb_neq, H; left; auto).
    rewrite IH; auto. intros g Hg; apply H; right; auto.
Qed.

Lemma NoDup_snoc {B} (l : list B) a : NoDup l -> ~ In a l -> NoDup (l ++ [a]).
Proof.
  induction l as [|b r IH]; cbn [app]; intros Hn Ha.
  - constructor; auto.
  - inversion Hn as [|? ? Hb Hr]; subst. constructor.
    + rewrite in_app_iff. cbn [In]. intros [H|[H|[]]]; [auto|]. apply Ha; left; auto.
    + apply IH; auto. intros H; apply Ha; right; auto.
Qed.

Lemma gcore_touch ks next k t y :
  gcore ks next y -> gkey y = kkey k -> gcore (ks ++ [k]) next (touch k t y).
Proof.
  intros (Hf & Hn & Hp & Hid) Hkey.
  assert (Hkind : k_kind k = g_kind y).
  { apply kind_of_proto. unfold gkey, kkey in Hkey. congruence. }
  unfold gcore. cbn [touch g_kind g_knocks g_id]. rewrite gkey_touch.
  destruct (uadd (knock_eq (g_kind y)) k (g_knocks y)) as [z s'] eqn:E. cbn [snd].
  apply uadd_spec in E. destruct E as [(Hz & Hq & ->)|(-> & -> & Hnone)].
  - (* an equal knock is already there *)
    assert (Hzk : k_kind z = g_kind y) by (rewrite Forall_forall in Hf; auto).
    apply knock_eq_port in Hq; auto.
    split; [auto|]. split; [auto|]. split; [|auto].
    intros pr. rewrite Hp. split.
    + intros (k' & Hk' & H1 & H2). exists k'. rewrite in_app_iff. auto.
    + intros (k' & Hk' & H1 & H2). apply in_app_iff in Hk' as [Hk'|[<-|[]]].
      * exists k'; auto.
      * apply Hp. rewrite <- H2, Hq. apply in_map; auto.
  - (* appended *)
    assert (Hnew : ~ In (port_of k) (map port_of (g_knocks y))).
    { intros H. apply in_map_iff in H as (z & Hz1 & Hz2).
      assert (Hzk : k_kind z = g_kind y) by (rewrite Forall_forall in Hf; auto).
      assert (knock_eq (g_kind y) k z = true) by (apply knock_eq_port; auto).
      rewrite Hnone in H; auto. discriminate. }
    split; [apply Forall_app; split; auto|].
    split; [rewrite map_app; apply NoDup_snoc; auto|].
    split; [|auto].
    intros pr. rewrite map_app, in_app_iff, Hp. cbn [map In]. split.
    + intros [(k' & Hk' & H1 & H2)|[<-|[]]].
      * exists k'. rewrite in_app_iff; auto.
      * exists k. rewrite in_app_iff; cbn [In]; auto.
    + intros (k' & Hk' & H1 & H2). apply in_app_iff in Hk' as [Hk'|[<-|[]]].
      * left; exists k'; auto.
      * right; left; auto.
Qed.

Lemma gcore_other ks next k g :
  gcore ks next g -> kkey k <> gkey g -> gcore (ks ++ [k]) next g.
Proof.
  intros (Hf & Hn & Hp & Hid) Hne. unfold gcore. repeat split; auto.
  - intros H. apply Hp in H as (k' & Hk' & H1 & H2). exists k'. rewrite in_app_iff; auto.
  - intros (k' & Hk' & H1 & H2). apply in_app_iff in Hk' as [Hk'|[<-|[]]].
    + apply Hp. exists k'; auto.
    + congruence.
Qed.

Lemma gcore_next ks n m g : gcore ks n g -> (n <= m)%N -> gcore ks m g.
Proof. intros (Hf & Hn & Hp & Hid) H. unfold gcore. repeat split; auto; try apply Hp; lia. Qed.

Lemma gseen_mono ks ts k t g : gseen ks ts g -> gseen (ks ++ [k]) (ts ++ [t]) g.
Proof.
  intros (Hl & k' & Hk' & H1). split; [rewrite in_app_iff; auto|].
  exists k'. rewrite in_app_iff; auto.
Qed.

(* one knock: the group with the knock's key is touched, every other group is unchanged *)
Lemma step_knock_inv kts d k t :
  dinv kts d -> dinv (kts ++ [(k, t)]) (step_knock k t d).
Proof.
  intros (Hid & Hkey & Hcore & Hseen & Hcov).
  unfold step_knock.
  set (g0 := new_group k t (d_next d)).
  destruct (uadd group_eq g0 (d_groups d)) as [y gs1] eqn:E.
  apply uadd_spec in E.
  (* the list in which y is touched *)
  assert (HB : exists pre post,
    gs1 = pre ++ y :: post /\ gkey y = kkey k /\
    NoDup (map g_id gs1) /\ NoDup (map gkey gs1) /\
    Forall (gcore (map fst kts) (d_next d + 1)%N) gs1 /\
    (forall g, In g gs1 -> g = y \/ gseen (map fst kts) (map snd kts) g) /\
    (forall k', In k' (map fst kts) -> In (kkey k') (map gkey gs1))).
  { destruct E as [(Hy & Hq & ->)|(-> & -> & Hnone)].
    - apply group_eq_key in Hq. change (gkey g0) with (kkey k) in Hq.
      destruct (in_split _ _ Hy) as (pre & post & Hsp). exists pre, post.
      repeat split; auto.
      + eapply Forall_impl; [|exact Hcore]. intros g Hg. eapply gcore_next; eauto. lia.
      + intros g Hg. right. rewrite Forall_forall in Hseen; auto.
    - exists (d_groups d), []. split; [reflexivity|]. split; [reflexivity|].
      assert (Hfresh : ~ In (g_id g0) (map g_id (d_groups d))).
      { intros H. apply in_map_iff in H as (g & Hg1 & Hg2).
        rewrite Forall_forall in Hcore. destruct (Hcore g Hg2) as (_ & _ & _ & Hlt).
        cbn [g0 new_group g_id] in Hg1. lia. }
      assert (Hnk : ~ In (kkey k) (map gkey (d_groups d))).
      { intros H. apply in_map_iff in H as (g & Hg1 & Hg2).
        specialize (Hnone g Hg2). apply group_eq_false in Hnone. change (gkey g0) with (kkey k) in Hnone. congruence. }
      split; [rewrite map_app; apply NoDup_snoc; auto|].
      split; [rewrite map_app; apply NoDup_snoc; auto|].
      split.
      + apply Forall_app; split.
        * eapply Forall_impl; [|exact Hcore]. intros g Hg. eapply gcore_next; eauto. lia.
        * constructor; [|constructor]. unfold gcore. cbn [g0 new_group g_kind g_knocks g_id map].
          split; [constructor|]. split; [constructor|]. split; [|lia].
          intros pr. split; [intros []|]. intros (k' & Hk' & H1 & _). exfalso. apply Hnk.
          rewrite <- (gkey_new k t (d_next d)). fold g0. rewrite <- H1. apply Hcov; auto.
      + split.
        * intros g Hg. apply in_app_iff in Hg as [Hg|[<-|[]]]; auto.
          right. rewrite Forall_forall in Hseen; auto.
        * intros k' Hk'. rewrite map_app, in_app_iff. left; auto. }
  destruct HB as (pre & post & -> & Hyk & Hid1 & Hkey1 & Hcore1 & Hseen1 & Hcov1).
  assert (Hpre : forall g, In g pre -> g_id g <> g_id y).
  { intros g Hg E'. rewrite map_app in Hid1. cbn [map] in Hid1.
    apply NoDup_remove_2 in Hid1. apply Hid1. rewrite in_app_iff. left.
    rewrite <- E'. apply in_map; auto. }
  rewrite update_id_replace by auto.
  unfold dinv. cbn [d_groups d_next].
  assert (Hids : map g_id (pre ++ touch k t y :: post) = map g_id (pre ++ y :: post))
    by (rewrite !map_app; reflexivity).
  assert (Hkeys : map gkey (pre ++ touch k t y :: post) = map gkey (pre ++ y :: post))
    by (rewrite !map_app; reflexivity).
  rewrite Hids, Hkeys. rewrite (map_app fst), (map_app snd). cbn [map fst snd].
  split; [auto|]. split; [auto|].
  (* keys of the other groups differ from the knock's *)
  assert (Hother : forall g, In g (pre ++ post) -> kkey k <> gkey g).
  { intros g Hg E'. rewrite map_app in Hkey1. cbn [map] in Hkey1.
    apply NoDup_remove_2 in Hkey1. apply Hkey1. rewrite <- map_app.
    rewrite Hyk, E'. apply in_map; auto. }
  rewrite Forall_app in Hcore1. destruct Hcore1 as (Hc1 & Hc2).
  inversion Hc2 as [|? ? Hcy Hc3]; subst.
  split; [|split].
  - apply Forall_app; split; [|constructor].
    + apply Forall_forall. intros g Hg. rewrite Forall_forall in Hc1.
      apply gcore_other; auto. apply Hother. rewrite in_app_iff; auto.
    + apply gcore_touch; auto.
    + apply Forall_forall. intros g Hg. rewrite Forall_forall in Hc3.
      apply gcore_other; auto. apply Hother. rewrite in_app_iff; auto.
  - apply Forall_forall. intros g Hg.
    apply in_app_iff in Hg as [Hg|[<-|Hg]].
    + destruct (Hseen1 g) as [->|H]; [rewrite in_app_iff; auto| |apply gseen_mono; auto].
      exfalso. apply (Hpre y Hg); auto.
    + split; [cbn [touch g_last]; rewrite in_app_iff; cbn [In]; auto|].
      exists k. rewrite in_app_iff, gkey_touch. cbn [In]; auto.
    + destruct (Hseen1 g) as [->|H]; [rewrite in_app_iff; cbn [In]; auto| |apply gseen_mono; auto].
      exfalso. apply (Hother y); [rewrite in_app_iff; auto|congruence].
  - intros k' Hk'. apply in_app_iff in Hk' as [Hk'|[<-|[]]]; auto.
    rewrite <- Hyk, map_app, in_app_iff. right; left; auto.
Qed.

Lemma run_knocks_snoc kts k t d :
  run_knocks (kts ++ [(k, t)]) d = step_knock k t (run_knocks kts d).
Proof. unfold run_knocks. rewrite fold_left_app. reflexivity. Qed.

Lemma dinv0 : dinv [] det0.
Proof.
  unfold dinv, det0. cbn. repeat split; try constructor. intros k [].
Qed.

Lemma run_knocks_inv kts : dinv kts (run_knocks kts det0).
Proof.
  induction kts as [|[k t] kts IH] using rev_ind.
  - exact dinv0.
  - rewrite run_knocks_snoc. apply step_knock_inv; auto.
Qed.

Lemma run_knocks_events kts rest : forall d,
  run (map (fun kt => DKnock (fst kt) (snd kt)) kts ++ rest) d = run rest (run_knocks kts d).
Proof.
  induction kts as [|[k t] kts IH]; intros d; cbn [map app run fst snd]; auto.
  rewrite IH. reflexivity.
Qed.

(* ---- the statement about the groups: one per (protocol group, source, destination) knocked,
        holding exactly the distinct protocol/port pairs knocked, each once ---- *)
Definition groups_exact (ks : list knock) (gs : list group) : Prop :=
  NoDup (map gkey gs) /\
  (forall k, In k ks -> In (kkey k) (map gkey gs)) /\
  (forall g, In g gs ->
     (exists k, In k ks /\ kkey k = gkey g) /\
     NoDup (r_ports (report_of g)) /\
     (forall pr, In pr (r_ports (report_of g)) <->
                 exists k, In k ks /\ kkey k = gkey g /\ port_of k = pr)).

Lemma dinv_exact kts d : dinv kts d -> groups_exact (map fst kts) (d_groups d).
Proof.
  intros (Hid & Hkey & Hcore & Hseen & Hcov). unfold groups_exact. repeat split; auto.
  - rewrite Forall_forall in Hseen. destruct (Hseen g H) as (_ & Hx). exact Hx.
  - rewrite Forall_forall in Hcore. destruct (Hcore g H) as (_ & Hn & _). exact Hn.
  - rewrite Forall_forall in Hcore. destruct (Hcore g H) as (_ & _ & Hp & _). apply Hp.
  - rewrite Forall_forall in Hcore. destruct (Hcore g H) as (_ & _ & Hp & _). apply Hp.
Qed.

(* ---- the tick ---- *)
Lemma filter_all {B} (f : B -> bool) l : (forall x, In x l -> f x = true) -> filter f l = l.
Proof.
  induction l as [|b r IH]; cbn [filter]; auto. intros H.
  rewrite (H b (or_introl eq_refl)), IH; auto. intros x Hx; apply H; right; auto.
Qed.

Lemma filter_none {B} (f : B -> bool) l : (forall x, In x l -> f x = false) -> filter f l = [].
Proof.
  induction l as [|b r IH]; cbn [filter]; auto. intros H.
  rewrite (H b (or_introl eq_refl)), IH; auto. intros x Hx; apply H; right; auto.
Qed.


(* every group that is due and younger than 60 s is reported once and removed; here: all *)
Lemma tick_all now d :
  NoDup (map g_id (d_groups d)) ->
  (forall g, In g (d_groups d) -> due now g = true /\ removable now g = true) ->
  tick now d = (map report_of (d_groups d), mkDet [] (d_next d)).
Proof.
  intros Hn Hd. unfold tick. rewrite each_rm_exact by auto.
  rewrite filter_all by (intros g Hg; apply Hd; auto).
  rewrite filter_none; auto.
  intros g Hg. destruct (Hd g Hg) as (H1 & H2). unfold tick_rm. rewrite H1, H2. reflexivity.
Qed.

(* in general: exactly the due groups are reported, each once, in order; exactly those of
   them younger than 60 s are removed *)
Lemma tick_general now d :
  NoDup (map g_id (d_groups d)) ->
  tick now d = (map report_of (filter (due now) (d_groups d)),
                mkDet (filter (fun g => negb (tick_rm now g)) (d_groups d)) (d_next d)).
Proof. intros Hn. unfold tick. rewrite each_rm_exact by auto. reflexivity. Qed.

Lemma tick_empty now n : tick now (mkDet [] n) = ([], mkDet [] n).
Proof. reflexivity. Qed.

(* a burst inside [0, tmax], the first tick at least 5 s after it and less than 60 s after its
   start: every group reported once with exactly its ports, nothing afterwards *)
Lemma scan_full kts tmax now later :
  Forall (fun kt => 0 <= snd kt <= tmax) kts ->
  tmax + 5000 <= now < 60000 ->
  exists gs n,
    groups_exact (map fst kts) gs /\
    run (map (fun kt => DKnock (fst kt) (snd kt)) kts ++ [DTick now; DTick later]) det0
      = ([map report_of gs; []], mkDet [] n).
Proof.
  intros Ht Hnow.
  pose proof (run_knocks_inv kts) as Hinv.
  pose proof (dinv_exact _ _ Hinv) as Hex.
  exists (d_groups (run_knocks kts det0)), (d_next (run_knocks kts det0)).
  split; auto.
  rewrite run_knocks_events. cbn [run].
  destruct Hinv as (Hid & _ & _ & Hseen & _).
  rewrite tick_all; auto.
  intros g Hg. rewrite Forall_forall in Hseen. destruct (Hseen g Hg) as (Hl & _).
  apply in_map_iff in Hl as ((k', t') & Ht' & Hin). cbn [snd] in Ht'.
  rewrite Forall_forall in Ht. specialize (Ht _ Hin). cbn [snd] in Ht.
  unfold due, removable. rewrite <- Ht'. split.
  - apply orb_true_iff. right. apply negb_true_iff. apply Z.ltb_ge. lia.
  - apply Z.ltb_lt. lia.
Qed.

Lemma ticks_idle nows : forall n,
  run (map DTick nows) (mkDet [] n) = (map (fun _ => []) nows, mkDet [] n).
Proof.
  induction nows as [|t r IH]; intros n; cbn [map run]; auto.
  rewrite tick_empty, IH. reflexivity.
Qed.

(* ---- TCP: exactly the connection attempts queue a knock ---- *)
Lemma tcp_knock_iff i :
  tcp_queues_knock i =
  t_parse_ok i && t_is_me i && negb (t_port22 i) && t_syn i &&
  (if t_ack i then match t_state i with Some SListen => true | _ => false end else t_table_ok i).
Proof.
  destruct i as [a b c d e f s g h]. unfold tcp_queues_knock. cbn.
  destruct a, b, c, d, e, g; cbn; try reflexivity; destruct s as [[]|]; reflexivity.
Qed.

(* a SYN without ACK to a port other than 22 is a knock whatever state the 4-tuple has
   (a repeated SYN creates a new state and knocks again) *)
Lemma syn_probe_knocks st ackok p :
  p_proto p = 0%N -> flag (p_flags p) 1 = true -> flag (p_flags p) 4 = false -> p_port p <> 22%N ->
  knocks_of_probe st ackok p = [mkKnock KTcp (src_mac (p_src p)) dst_mac (src_ip (p_src p)) (dst_ip_of (p_dst p)) (p_port p)].
Proof.
  intros Hp Hs Ha H22. unfold knocks_of_probe. rewrite Hp, tcp_knock_iff.
  cbn [t_parse_ok t_is_me t_port22 t_syn t_ack t_state t_table_ok].
  rewrite Hs, Ha. apply N.eqb_neq in H22. rewrite H22. reflexivity.
Qed.

(* ---- witnesses (the inputs on which the code failed before the repairs) ---- *)
Definition wit_udp (src port : N) : knock := mkKnock KUdp (src_mac src) dst_mac (src_ip src) dst_ip port.
Definition wit_tcp (src port : N) : knock := mkKnock KTcp (src_mac src) dst_mac (src_ip src) dst_ip port.
Definition wit_kts : list (knock * Z) := [(wit_udp 0 1000, 0); (wit_udp 1 1000, 0); (wit_udp 2 1000, 0)].
Definition wit_rep (src : N) : report := mkReport (src_mac src) dst_mac (src_ip src) dst_ip [(KUdp, 1000%N)].

Lemma wit_run :
  run (map (fun kt => DKnock (fst kt) (snd kt)) wit_kts ++ [DTick 5000; DTick 10000; DTick 15000]) det0
  = ([[wit_rep 0; wit_rep 1; wit_rep 2]; []; []], mkDet [] 3%N).
Proof. vm_compute. reflexivity. Qed.

Definition wit_mixed : list (knock * Z) :=
  [(wit_udp 0 80, 0); (wit_tcp 0 80, 1); (wit_tcp 0 80, 2); (wit_tcp 0 443, 3); (wit_udp 0 80, 4)].

Lemma wit_mixed_run :
  run (map (fun kt => DKnock (fst kt) (snd kt)) wit_mixed ++ [DTick 5004; DTick 10004]) det0
  = ([[mkReport (src_mac 0) dst_mac (src_ip 0) dst_ip [(KUdp, 80%N)];
       mkReport (src_mac 0) dst_mac (src_ip 0) dst_ip [(KTcp, 80%N); (KTcp, 443%N)]]; []], mkDet [] 5%N).
Proof. vm_compute. reflexivity. Qed.

Lemma each_rm_three :
  each_rm (fun x : N => x) (fun _ => true) [1; 2; 3]%N = ([1; 2; 3]%N, []).
Proof. vm_compute. reflexivity. Qed.

Lemma run_knocks_exact kts : groups_exact (map fst kts) (d_groups (run_knocks kts det0)).
Proof. exact (dinv_exact _ _ (run_knocks_inv kts)). Qed.

(* ================================================================ from the frame to the knock *)
Open Scope N_scope.

Lemma blen_app (a b : bytes) : blen (a ++ b) = blen a + blen b.
Proof. unfold blen. rewrite app_length. lia. Qed.

Lemma existsb_eqb_in x l : existsb (N.eqb x) l = true <-> In x l.
Proof.
  rewrite existsb_exists. split.
  - intros (y & Hy & E). apply N.eqb_eq in E. subst; auto.
  - intros H. exists x. split; auto. apply N.eqb_refl.
Qed.

Definition v32 (a b c d : N) : N := (a * 256 + b) * 65536 + (c * 256 + d).
Definition v48 (a b c d e f : N) : N := (a * 256 + b) * 4294967296 + v32 c d e f.

(* ipv4.Parse on a header without options followed by [rest]: the payload is the first
   TotalLen-20 bytes of rest; version, TOS, id, fragment fields, TTL and checksum are free *)
Lemma ipv4_decode_hdr v tos tl1 tl0 id1 id0 fr1 fr0 ttl proto ck1 ck0 s0 s1 s2 s3 t0 t1 t2 t3 rest :
  (v mod 16) * 4 <= 20 + blen rest ->
  20 <= tl1 * 256 + tl0 <= 20 + blen rest ->
  ipv4_decode (ip_hdr v tos tl1 tl0 id1 id0 fr1 fr0 ttl proto ck1 ck0 [s0; s1; s2; s3] [t0; t1; t2; t3] ++ rest)
  = Some (mkIpDec proto (v32 s0 s1 s2 s3) (v32 t0 t1 t2 t3)
                  (firstn (N.to_nat (tl1 * 256 + tl0 - 20)) rest)).
Proof.
  intros Hv Htl. unfold ipv4_decode, ip_hdr.
  cbn [app]. unfold blen at 1 2 3. cbn [length].
  unfold be32, u16, u8. cbn [nth skipn].
  unfold blen in *.
  assert ((N.of_nat (S (S (S (S (S (S (S (S (S (S (S (S (S (S (S (S (S (S (S (S (length rest)))))))))))))))))))))
           = 20 + N.of_nat (length rest))) as -> by lia.
  assert (20 + N.of_nat (length rest) <? 20 = false) as -> by (apply N.ltb_ge; lia).
  assert (20 + N.of_nat (length rest) <? v mod 16 * 4 = false) as -> by (apply N.ltb_ge; lia).
  assert (20 + N.of_nat (length rest) <? tl1 * 256 + tl0 = false) as -> by (apply N.ltb_ge; lia).
  assert (tl1 * 256 + tl0 <? 20 = false) as -> by (apply N.ltb_ge; lia).
  reflexivity.
Qed.

(* the Ethernet layer of rx_frame on an IPv4 frame *)
Lemma rx_frame_eth me tb d0 d1 d2 d3 d4 d5 m0 m1 m2 m3 m4 m5 b :
  rx_frame me tb (eth_hdr [d0; d1; d2; d3; d4; d5] [m0; m1; m2; m3; m4; m5] ++ b) =
  match ipv4_decode b with
  | None => (FNone, tb)
  | Some ip =>
      let smac := v48 m0 m1 m2 m3 m4 m5 in let dmac := v48 d0 d1 d2 d3 d4 d5 in
      let isme := existsb (N.eqb (ip_dst ip)) me in
      match ip_proto ip with
      | 1 => if icmp_decode (ip_payload ip) && isme
             then (FKnock (mkKnock KIcmp smac dmac (ip_src ip) (ip_dst ip) 0), tb) else (FNone, tb)
      | 17 => match udp_decode (ip_payload ip) with
              | None => (FNone, tb)
              | Some (sport, dport) =>
                  if isme && negb (existsb (N.eqb dport) udp_decoder_ports)
                  then (FKnock (mkKnock KUdp smac dmac (ip_src ip) (ip_dst ip) dport), tb)
                  else (FNone, tb)
              end
      | 6 => rx_tcp me tb smac dmac ip
      | _ => (FNone, tb)
      end
  end.
Proof.
  unfold rx_frame, eth_hdr. cbn [app]. unfold blen at 1. cbn [length].
  assert (N.of_nat (S (S (S (S (S (S (S (S (S (S (S (S (S (S (length b))))))))))))))) <? 14 = false) as ->
    by (apply N.ltb_ge; lia).
  unfold be48, be32, u16, u8. cbn [nth skipn]. cbn [N.eqb N.mul N.add Pos.mul Pos.add Pos.eqb negb].
  reflexivity.
Qed.

(* every ICMP message of at least 8 bytes (an echo request without data is 8 bytes), of any
   type and code, addressed to us, is a knock carrying exactly the frame's addresses *)
Lemma icmp_frame_knocks me tb d0 d1 d2 d3 d4 d5 m0 m1 m2 m3 m4 m5
      v tos tl1 tl0 id1 id0 fr1 fr0 ttl ck1 ck0 s0 s1 s2 s3 t0 t1 t2 t3 msg trail :
  (v mod 16) * 4 <= 20 + blen msg ->
  8 <= blen msg -> tl1 * 256 + tl0 = 20 + blen msg ->
  In (v32 t0 t1 t2 t3) me ->
  rx_frame me tb (eth_hdr [d0; d1; d2; d3; d4; d5] [m0; m1; m2; m3; m4; m5] ++
                  ip_hdr v tos tl1 tl0 id1 id0 fr1 fr0 ttl 1 ck1 ck0 [s0; s1; s2; s3] [t0; t1; t2; t3] ++
                  msg ++ trail)
  = (FKnock (mkKnock KIcmp (v48 m0 m1 m2 m3 m4 m5) (v48 d0 d1 d2 d3 d4 d5)
                     (v32 s0 s1 s2 s3) (v32 t0 t1 t2 t3) 0), tb).
Proof.
  intros Hv Hl Htl Hme. rewrite rx_frame_eth.
  rewrite ipv4_decode_hdr by (rewrite ?blen_app; lia).
  cbn [ip_proto ip_payload ip_dst ip_src].
  replace (N.to_nat (tl1 * 256 + tl0 - 20)) with (length msg) by (unfold blen in *; lia).
  rewrite firstn_app, Nat.sub_diag, firstn_all. cbn [firstn]. rewrite app_nil_r.
  unfold icmp_decode. apply N.leb_le in Hl. rewrite Hl.
  apply existsb_eqb_in in Hme. rewrite Hme. reflexivity.
Qed.

(* every UDP datagram with consistent lengths to a port without decoder, addressed to us, is a
   knock with exactly the frame's addresses and destination port - whatever its SOURCE port,
   checksum and payload *)
Lemma udp_frame_knocks me tb d0 d1 d2 d3 d4 d5 m0 m1 m2 m3 m4 m5
      v tos tl1 tl0 id1 id0 fr1 fr0 ttl ck1 ck0 s0 s1 s2 s3 t0 t1 t2 t3
      sp1 sp0 dp1 dp0 ul1 ul0 uc1 uc0 payload trail :
  (v mod 16) * 4 <= 28 + blen payload ->
  tl1 * 256 + tl0 = 28 + blen payload -> ul1 * 256 + ul0 = 8 + blen payload ->
  In (v32 t0 t1 t2 t3) me ->
  ~ In (dp1 * 256 + dp0) udp_decoder_ports ->
  rx_frame me tb (eth_hdr [d0; d1; d2; d3; d4; d5] [m0; m1; m2; m3; m4; m5] ++
                  ip_hdr v tos tl1 tl0 id1 id0 fr1 fr0 ttl 17 ck1 ck0 [s0; s1; s2; s3] [t0; t1; t2; t3] ++
                  ([sp1; sp0; dp1; dp0; ul1; ul0; uc1; uc0] ++ payload) ++ trail)
  = (FKnock (mkKnock KUdp (v48 m0 m1 m2 m3 m4 m5) (v48 d0 d1 d2 d3 d4 d5)
                     (v32 s0 s1 s2 s3) (v32 t0 t1 t2 t3) (dp1 * 256 + dp0)), tb).
Proof.
  intros Hv Htl Hul Hme Hdp. rewrite rx_frame_eth.
  set (seg := [sp1; sp0; dp1; dp0; ul1; ul0; uc1; uc0] ++ payload).
  assert (Hseg : blen seg = 8 + blen payload) by (unfold seg; rewrite blen_app; reflexivity).
  rewrite ipv4_decode_hdr by (rewrite ?blen_app; lia).
  cbn [ip_proto ip_payload ip_dst ip_src].
  replace (N.to_nat (tl1 * 256 + tl0 - 20)) with (length seg) by (unfold blen in *; lia).
  rewrite firstn_app, Nat.sub_diag, firstn_all. cbn [firstn]. rewrite app_nil_r.
  unfold udp_decode. rewrite Hseg.
  assert (8 + blen payload <? 8 = false) as -> by (apply N.ltb_ge; lia).
  unfold seg at 1. unfold u16, u8. cbn [app nth]. rewrite Hul, N.eqb_refl. cbn [negb].
  unfold seg. cbn [app nth].
  apply existsb_eqb_in in Hme. rewrite Hme.
  assert (existsb (N.eqb (dp1 * 256 + dp0)) udp_decoder_ports = false) as ->.
  { apply not_true_is_false. intros H. apply existsb_eqb_in in H. auto. }
  reflexivity.
Qed.

Lemma tcp_opts_ok_nil fuel : tcp_opts_ok fuel [] = true.
Proof. destruct fuel; reflexivity. Qed.

(* every TCP segment without options with SYN and without ACK (any other flag, sequence
   numbers, window, CHECKSUM and payload), neither port 22, addressed to us, is a knock with the
   frame's addresses and destination port - whatever records the state table holds (a repeated
   SYN knocks again); it adds one record *)
Lemma tcp_syn_frame_knocks me tb d0 d1 d2 d3 d4 d5 m0 m1 m2 m3 m4 m5
      v tos tl1 tl0 id1 id0 fr1 fr0 ttl ck1 ck0 s0 s1 s2 s3 t0 t1 t2 t3
      sp1 sp0 dp1 dp0 q0 q1 q2 q3 a0 a1 a2 a3 off fl w1 w0 c1 c0 u1 u0 payload trail :
  (v mod 16) * 4 <= 40 + blen payload ->
  tl1 * 256 + tl0 = 40 + blen payload ->
  off / 16 = 5 -> flag (fl mod 64) 1 = true -> flag (fl mod 64) 4 = false ->
  sp1 * 256 + sp0 <> 22 -> dp1 * 256 + dp0 <> 22 ->
  In (v32 t0 t1 t2 t3) me ->
  rx_frame me tb (eth_hdr [d0; d1; d2; d3; d4; d5] [m0; m1; m2; m3; m4; m5] ++
                  ip_hdr v tos tl1 tl0 id1 id0 fr1 fr0 ttl 6 ck1 ck0 [s0; s1; s2; s3] [t0; t1; t2; t3] ++
                  ([sp1; sp0; dp1; dp0; q0; q1; q2; q3; a0; a1; a2; a3; off; fl; w1; w0; c1; c0; u1; u0]
                   ++ payload) ++ trail)
  = (FKnock (mkKnock KTcp (v48 m0 m1 m2 m3 m4 m5) (v48 d0 d1 d2 d3 d4 d5)
                     (v32 s0 s1 s2 s3) (v32 t0 t1 t2 t3) (dp1 * 256 + dp0)),
     tb ++ [((v32 s0 s1 s2 s3, v32 t0 t1 t2 t3, sp1 * 256 + sp0, dp1 * 256 + dp0), SSynReceived)]).
Proof.
  intros Hv Htl Hoff Hsyn Hack Hsp Hdp Hme. rewrite rx_frame_eth.
  set (seg := [sp1; sp0; dp1; dp0; q0; q1; q2; q3; a0; a1; a2; a3; off; fl; w1; w0; c1; c0; u1; u0] ++ payload).
  assert (Hseg : blen seg = 20 + blen payload) by (unfold seg; rewrite blen_app; reflexivity).
  rewrite ipv4_decode_hdr by (rewrite ?blen_app; lia).
  cbn [ip_proto ip_payload ip_dst ip_src].
  replace (N.to_nat (tl1 * 256 + tl0 - 20)) with (length seg) by (unfold blen in *; lia).
  rewrite firstn_app, Nat.sub_diag, firstn_all. cbn [firstn]. rewrite app_nil_r.
  unfold rx_tcp. cbn [ip_payload ip_src ip_dst].
  assert (Hused : tcp_header_used seg (v32 s0 s1 s2 s3) (v32 t0 t1 t2 t3) = true).
  { unfold tcp_header_used, tcp_unmarshal_ok. rewrite Hseg.
    assert (20 <=? 20 + blen payload = true) as -> by (apply N.leb_le; lia).
    assert (Hn : u8 seg 12 = off) by reflexivity. rewrite Hn, Hoff.
    change (5 <=? 5) with true. change (5 * 4) with 20.
    assert (20 <=? 20 + blen payload = true) as -> by (apply N.leb_le; lia).
    change (N.to_nat (20 - 20)) with O. cbn [firstn].
    rewrite tcp_opts_ok_nil. reflexivity. }
  rewrite Hused. cbn [negb].
  apply existsb_eqb_in in Hme. rewrite Hme. cbn [negb].
  unfold seg. unfold u16, u8. cbn [app nth].
  apply N.eqb_neq in Hsp. apply N.eqb_neq in Hdp. rewrite Hsp, Hdp. cbn [orb].
  rewrite Hsyn, Hack. reflexivity.
Qed.
Close Scope N_scope.

(* ---- converse: what a knock says about the frame (fixed offsets of Ethernet II + IPv4) ---- *)
Open Scope N_scope.

Lemma u8_skipn n : forall (l : bytes) i, u8 (skipn n l) i = u8 l (n + i).
Proof.
  unfold u8. induction n as [|n IH]; intros l i; [reflexivity|].
  destruct l as [|a r]; [destruct i; reflexivity|]. cbn [skipn Nat.add nth]. apply IH.
Qed.

Lemma u8_firstn m : forall (l : bytes) i, (i < m)%nat -> u8 (firstn m l) i = u8 l i.
Proof.
  unfold u8. induction m as [|m IH]; intros l i H; [lia|].
  destruct l as [|a r]; [reflexivity|]. destruct i; cbn [firstn nth]; auto. apply IH; lia.
Qed.

Lemma blen_skipn n (l : bytes) : blen (skipn n l) = blen l - N.of_nat n.
Proof. unfold blen. rewrite skipn_length. lia. Qed.

Lemma blen_firstn m (l : bytes) : blen (firstn m l) = N.min (N.of_nat m) (blen l).
Proof. unfold blen. rewrite firstn_length. lia. Qed.

Lemma ipv4_decode_sound b ip :
  ipv4_decode b = Some ip ->
  20 <= u16 b 2 <= blen b /\
  ip_proto ip = u8 b 9 /\ ip_src ip = be32 b 12 /\ ip_dst ip = be32 b 16 /\
  blen (ip_payload ip) = u16 b 2 - 20 /\
  (forall i, (N.of_nat i < u16 b 2 - 20) -> u8 (ip_payload ip) i = u8 b (20 + i)).
Proof.
  unfold ipv4_decode. set (sk := skipn 20 b). assert (Hsk : sk = skipn 20 b) by reflexivity. clearbody sk.
  destruct (blen b <? 20) eqn:E1; [discriminate|].
  destruct (blen b <? u8 b 0 mod 16 * 4) eqn:E2; [discriminate|].
  destruct (blen b <? u16 b 2) eqn:E3; [discriminate|].
  destruct (u16 b 2 <? 20) eqn:E4; [discriminate|].
  intros H; injection H as <-. cbn [ip_proto ip_src ip_dst ip_payload].
  apply N.ltb_ge in E1, E3, E4.
  split; [lia|]. split; [reflexivity|]. split; [reflexivity|]. split; [reflexivity|]. split.
  - rewrite blen_firstn, Hsk, blen_skipn. lia.
  - intros i Hi. rewrite u8_firstn by lia. rewrite Hsk. apply u8_skipn.
Qed.

Definition frame_fields_ok (me : list N) (f : bytes) (k : knock) : Prop :=
  u16 f 12 = 2048 /\ 20 <= u16 f 16 /\ 14 + u16 f 16 <= blen f /\
  In (k_dip k) me /\
  k_smac k = be48 f 6 /\ k_dmac k = be48 f 0 /\ k_sip k = be32 f 26 /\ k_dip k = be32 f 30 /\
  match k_kind k with
  | KIcmp => u8 f 23 = 1 /\ 28 <= u16 f 16
  | KUdp => u8 f 23 = 17 /\ 28 <= u16 f 16 /\ u16 f 38 = u16 f 16 - 20 /\
            k_port k = u16 f 36 /\ ~ In (u16 f 36) udp_decoder_ports
  | KTcp => u8 f 23 = 6 /\ 40 <= u16 f 16 /\ k_port k = u16 f 36 /\
            u16 f 34 <> 22 /\ u16 f 36 <> 22 /\ flag (u8 f 47 mod 64) 1 = true
  end.

Lemma rx_tcp_sound me tb smac dmac ip o tb' k :
  rx_tcp me tb smac dmac ip = (o, tb') -> o = FKnock k ->
  let d := ip_payload ip in
  20 <= blen d /\ In (ip_dst ip) me /\ k = mkKnock KTcp smac dmac (ip_src ip) (ip_dst ip) (u16 d 2) /\
  u16 d 0 <> 22 /\ u16 d 2 <> 22 /\ flag (u8 d 13 mod 64) 1 = true.
Proof.
  unfold rx_tcp. intros H Ho. subst o.
  destruct (tcp_header_used (ip_payload ip) (ip_src ip) (ip_dst ip)) eqn:Eu; cbn [negb] in H; [|discriminate].
  destruct (existsb (N.eqb (ip_dst ip)) me) eqn:Em; cbn [negb] in H; [|discriminate].
  destruct ((u16 (ip_payload ip) 0 =? 22) || (u16 (ip_payload ip) 2 =? 22)) eqn:E22; [discriminate|].
  apply orb_false_iff in E22 as (Ea & Eb). apply N.eqb_neq in Ea, Eb.
  unfold tcp_header_used in Eu. apply andb_true_iff in Eu as (El & _). apply N.leb_le in El.
  apply existsb_eqb_in in Em.
  assert (Hk : forall t, (FKnock (mkKnock KTcp smac dmac (ip_src ip) (ip_dst ip) (u16 (ip_payload ip) 2)), t)
                         = (FKnock k, tb') ->
               k = mkKnock KTcp smac dmac (ip_src ip) (ip_dst ip) (u16 (ip_payload ip) 2))
    by (intros t E; injection E; auto).
  destruct (flag (u8 (ip_payload ip) 13 mod 64) 1) eqn:Es;
  destruct (flag (u8 (ip_payload ip) 13 mod 64) 4) eqn:Ek;
  destruct (flag (u8 (ip_payload ip) 13 mod 64) 2) eqn:Er;
  destruct (flag (u8 (ip_payload ip) 13 mod 64) 0) eqn:Ef;
  cbn [andb negb] in H;
  try (destruct (tget tb _) as [[]|]);
  try discriminate H;
  (repeat split; auto; eapply Hk; exact H).
Qed.

Lemma rx_frame_sound me tb f k tb' :
  rx_frame me tb f = (FKnock k, tb') -> frame_fields_ok me f k.
Proof.
  unfold rx_frame.
  destruct (blen f <? 14) eqn:E14; [discriminate|].
  destruct (u16 f 12 =? 2048) eqn:Et; cbn [negb]; [|discriminate].
  apply N.eqb_eq in Et. apply N.ltb_ge in E14.
  destruct (ipv4_decode (skipn 14 f)) as [ip|] eqn:Eip; [|discriminate].
  apply ipv4_decode_sound in Eip as (Htl & Hp & Hs & Hd & Hpl & Hpay).
  assert (F16 : u16 (skipn 14 f) 2 = u16 f 16) by (unfold u16; rewrite !u8_skipn; reflexivity).
  assert (F9 : u8 (skipn 14 f) 9 = u8 f 23) by (rewrite u8_skipn; reflexivity).
  assert (F12 : be32 (skipn 14 f) 12 = be32 f 26) by (unfold be32, u16; rewrite !u8_skipn; reflexivity).
  assert (F30 : be32 (skipn 14 f) 16 = be32 f 30) by (unfold be32, u16; rewrite !u8_skipn; reflexivity).
  rewrite F16 in *. rewrite F9 in Hp. rewrite F12 in Hs. rewrite F30 in Hd.
  rewrite blen_skipn in Htl.
  assert (Hpay' : forall i, N.of_nat i < u16 f 16 - 20 -> u8 (ip_payload ip) i = u8 f (34 + i)).
  { intros i Hi. rewrite Hpay by auto. rewrite u8_skipn. f_equal. }
  intros H. unfold frame_fields_ok.
  assert (Hcommon : forall kind port, k = mkKnock kind (be48 f 6) (be48 f 0) (ip_src ip) (ip_dst ip) port ->
            In (ip_dst ip) me ->
            u16 f 12 = 2048 /\ 20 <= u16 f 16 /\ 14 + u16 f 16 <= blen f /\ In (k_dip k) me /\
            k_smac k = be48 f 6 /\ k_dmac k = be48 f 0 /\ k_sip k = be32 f 26 /\ k_dip k = be32 f 30).
  { intros kind port -> Hin. cbn [k_dip k_smac k_dmac k_sip]. rewrite <- Hs, <- Hd.
    repeat split; auto; lia. }
  destruct (N.eq_dec (ip_proto ip) 1) as [P1|P1]; [|destruct (N.eq_dec (ip_proto ip) 17) as [P17|P17];
    [|destruct (N.eq_dec (ip_proto ip) 6) as [P6|P6]]].
  - rewrite P1 in H.
    destruct (icmp_decode (ip_payload ip) && existsb (N.eqb (ip_dst ip)) me) eqn:E; [|discriminate].
    apply andb_true_iff in E as (Ei & Em). apply existsb_eqb_in in Em.
    unfold icmp_decode in Ei. apply N.leb_le in Ei. injection H as Hk _. symmetry in Hk.
    destruct (Hcommon _ _ Hk Em) as (A1 & A2 & A3 & A4 & A5 & A6 & A7 & A8).
    repeat split; auto. subst k. cbn [k_kind]. split; [congruence|lia].
  - rewrite P17 in H.
    destruct (udp_decode (ip_payload ip)) as [[sp dp]|] eqn:Eu; [|discriminate].
    unfold udp_decode in Eu.
    destruct (blen (ip_payload ip) <? 8) eqn:E8; [discriminate|].
    destruct (u16 (ip_payload ip) 4 =? blen (ip_payload ip)) eqn:El; cbn [negb] in Eu; [|discriminate].
    injection Eu as <- <-. apply N.ltb_ge in E8. apply N.eqb_eq in El.
    destruct (existsb (N.eqb (ip_dst ip)) me && negb (existsb (N.eqb (u16 (ip_payload ip) 2)) udp_decoder_ports)) eqn:E;
      [|discriminate].
    apply andb_true_iff in E as (Em & Ed). apply existsb_eqb_in in Em. apply negb_true_iff in Ed.
    injection H as Hk _. symmetry in Hk.
    destruct (Hcommon _ _ Hk Em) as (A1 & A2 & A3 & A4 & A5 & A6 & A7 & A8).
    assert (G2 : u16 (ip_payload ip) 2 = u16 f 36).
    { unfold u16. rewrite !Hpay' by (cbn; lia). reflexivity. }
    assert (G4 : u16 (ip_payload ip) 4 = u16 f 38).
    { unfold u16. rewrite !Hpay' by (cbn; lia). reflexivity. }
    repeat split; auto. subst k. cbn [k_kind k_port].
    repeat split; try congruence; try lia.
    rewrite <- G2. intros Hin. apply existsb_eqb_in in Hin. congruence.
  - rewrite P6 in H.
    destruct (rx_tcp me tb (be48 f 6) (be48 f 0) ip) as [o t] eqn:Er.
    injection H as Ho _.
    destruct (rx_tcp_sound _ _ _ _ _ _ _ k Er Ho) as (B1 & B2 & B3 & B4 & B5 & B6).
    destruct (Hcommon _ _ B3 B2) as (A1 & A2 & A3 & A4 & A5 & A6 & A7 & A8).
    assert (G0 : u16 (ip_payload ip) 0 = u16 f 34).
    { unfold u16. rewrite !Hpay' by (cbn; lia). reflexivity. }
    assert (G2 : u16 (ip_payload ip) 2 = u16 f 36).
    { unfold u16. rewrite !Hpay' by (cbn; lia). reflexivity. }
    assert (G13 : u8 (ip_payload ip) 13 = u8 f 47) by (rewrite Hpay' by (cbn; lia); reflexivity).
    repeat split; auto. subst k. cbn [k_kind k_port].
    repeat split; try congruence; try lia.
  - exfalso. revert H. destruct (ip_proto ip) as [|p]; [discriminate|].
    do 5 (try destruct p as [p|p|]); try discriminate; try congruence.
Qed.
Close Scope N_scope.

(* ================================================================ per destination *)
(* a group's ports come only from knocks with the group's own source AND destination: probes
   of different sensor addresses are never merged, and each (protocol, source, destination)
   knocked has its own group *)
Lemma groups_per_destination ks gs :
  groups_exact ks gs ->
  (forall g pr, In g gs -> In pr (r_ports (report_of g)) ->
     exists k, In k ks /\ port_of k = pr /\ k_dip k = g_dip g /\ k_sip k = g_sip g /\
               k_smac k = g_smac g /\ k_dmac k = g_dmac g /\ proto_of (k_kind k) = proto_of (g_kind g)) /\
  (forall k, In k ks -> exists g, In g gs /\ g_dip g = k_dip k /\ g_sip g = k_sip k /\
               In (port_of k) (r_ports (report_of g))) /\
  (forall g1 g2, In g1 gs -> In g2 gs -> gkey g1 = gkey g2 -> g1 = g2).
Proof.
  intros (Hn & Hcov & Hg). split; [|split].
  - intros g pr Hin Hpr. destruct (Hg g Hin) as (_ & _ & Hp). apply Hp in Hpr as (k & Hk & Hkey & Hpo).
    exists k. unfold kkey, gkey in Hkey. injection Hkey as E1 E2 E3 E4 E5. repeat split; auto.
  - intros k Hk. specialize (Hcov k Hk). apply in_map_iff in Hcov as (g & Hgk & Hin).
    exists g. unfold kkey, gkey in Hgk. injection Hgk as E1 E2 E3 E4 E5. repeat split; auto.
    destruct (Hg g Hin) as (_ & _ & Hp). apply Hp. exists k. repeat split; auto.
    unfold kkey, gkey. congruence.
  - intros g1 g2 H1 H2 E. clear Hcov Hg.
    induction gs as [|g r IH]; [contradiction|]. cbn [map] in Hn. inversion Hn as [|? ? Hni Hnr]; subst.
    destruct H1 as [<-|H1], H2 as [<-|H2]; auto.
    + exfalso. apply Hni. rewrite E. apply in_map; auto.
    + exfalso. apply Hni. rewrite <- E. apply in_map; auto.
Qed.

(* ================================================================ the knock queue *)
From Coq Require Import Permutation.

Lemma osomes_clear {A} (l : list (option A)) : forall i k,
  nth_error l i = Some (Some k) -> Permutation (osomes l) (k :: osomes (clear_nth i l)).
Proof.
  induction l as [|x r IH]; intros i k H; [destruct i; discriminate|].
  destruct i; cbn [nth_error] in H.
  - injection H as ->. cbn [clear_nth osomes]. apply Permutation_refl.
  - cbn [clear_nth]. destruct x as [y|]; cbn [osomes].
    + eapply perm_trans; [apply perm_skip, (IH i k H)|apply perm_swap].
    + apply IH; auto.
Qed.

Definition q_all (st : qstate) : list knock := osomes (q_pending st) ++ q_queue st ++ map fst (q_done st).

(* one step loses nothing, duplicates nothing, and respects the capacity *)
Lemma q_step_perm cap st s : Permutation (q_all (q_step cap st s)) (q_all st).
Proof.
  unfold q_all. destruct s as [i|t]; cbn [q_step].
  - destruct (nth_error (q_pending st) i) as [[k|]|] eqn:E; try apply Permutation_refl.
    destruct (Nat.ltb (length (q_queue st)) cap); [|apply Permutation_refl].
    cbn [q_pending q_queue q_done]. apply osomes_clear in E.
    symmetry. eapply perm_trans; [apply Permutation_app_tail, E|].
    cbn [app]. rewrite <- !app_assoc. cbn [app].
    rewrite (app_assoc (osomes (clear_nth i (q_pending st))) (q_queue st) (k :: map fst (q_done st))).
    apply Permutation_cons_app. rewrite <- app_assoc. apply Permutation_refl.
  - destruct (q_queue st) as [|k r] eqn:E; [rewrite E; apply Permutation_refl|].
    cbn [q_pending q_queue q_done]. rewrite map_app. cbn [map fst].
    apply Permutation_app_head. cbn [app].
    symmetry. rewrite app_assoc. apply Permutation_cons_app.
    rewrite app_nil_r. apply Permutation_refl.
Qed.

Lemma q_step_cap cap st s : (length (q_queue st) <= cap)%nat -> (length (q_queue (q_step cap st s)) <= cap)%nat.
Proof.
  intros H. destruct s as [i|t]; cbn [q_step].
  - destruct (nth_error (q_pending st) i) as [[k|]|]; auto.
    destruct (Nat.ltb (length (q_queue st)) cap) eqn:E; auto.
    cbn [q_queue]. rewrite app_length. cbn [length]. apply Nat.ltb_lt in E. lia.
  - destruct (q_queue st) as [|k r] eqn:E; [rewrite E; auto|]. cbn [q_queue]. cbn [length] in H. lia.
Qed.

Lemma q_run_inv cap steps : forall st,
  (length (q_queue st) <= cap)%nat ->
  Permutation (q_all (q_run cap steps st)) (q_all st) /\ (length (q_queue (q_run cap steps st)) <= cap)%nat.
Proof.
  unfold q_run. induction steps as [|s r IH]; intros st H; cbn [fold_left].
  - split; auto.
  - destruct (IH (q_step cap st s) (q_step_cap cap st s H)) as (Hp & Hc). split; auto.
    eapply perm_trans; [exact Hp|apply q_step_perm].
Qed.

(* for EVERY schedule of producer and detector steps: the knocks still to be sent, those in
   the queue and those received are together exactly the knocks of the burst *)
Lemma q_no_knock_lost cap ks steps :
  let st := q_run cap steps (q_init ks) in
  Permutation (osomes (q_pending st) ++ q_queue st ++ map fst (q_done st)) ks /\
  (length (q_queue st) <= cap)%nat.
Proof.
  cbv zeta. destruct (q_run_inv cap steps (q_init ks)) as (Hp & Hc); [cbn; lia|].
  split; auto. eapply perm_trans; [exact Hp|].
  unfold q_all, q_init. cbn [q_pending q_queue q_done map app]. rewrite app_nil_r.
  clear. induction ks as [|k r IH]; cbn [map osomes]; auto.
Qed.

Lemma groups_exact_perm ks ks' gs :
  (forall k, In k ks <-> In k ks') -> groups_exact ks gs -> groups_exact ks' gs.
Proof.
  intros Hi (Hn & Hc & Hg). split; [auto|]. split.
  - intros k Hk. apply Hc, Hi, Hk.
  - intros g Hin. destruct (Hg g Hin) as ((k & Hk & E) & Hnd & Hp). split; [|split; auto].
    + exists k. split; auto. apply Hi; auto.
    + intros pr. rewrite Hp. split; intros (k' & Hk' & R); exists k'; (split; [apply Hi; auto|auto]).
Qed.

(* hence, whatever the schedule, once it has run to completion the detector holds exactly one
   group per (protocol, source, destination) with exactly the ports of ALL knocks of the burst *)
Lemma q_complete_exact cap ks steps :
  let st := q_run cap steps (q_init ks) in
  q_complete st ->
  Permutation (map fst (q_done st)) ks /\
  groups_exact ks (d_groups (run_knocks (q_done st) det0)).
Proof.
  cbv zeta. intros (Hp & Hq). destruct (q_no_knock_lost cap ks steps) as (Hperm & _).
  rewrite Hp, Hq in Hperm. cbn [app] in Hperm. split; auto.
  eapply groups_exact_perm; [|apply run_knocks_exact].
  intros k. split; intros H; [eapply Permutation_in; eauto|eapply Permutation_in; [symmetry|]; eauto].
Qed.
