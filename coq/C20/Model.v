(* C20 - model of listener/canary/unique-set.go, listener/canary/knock.go and the three
   knockChan send sites of listener/canary/canary_linux.go.  Executable definitions only.

   UniqueSet: between operations the set is its live slice (list A).  Each(fn) iterates
   over an ALIAS of the same backing array (items := us.items[:]); Remove called from fn
   rewrites that array in place (us.items[i] = nil; append(us.items[:i], us.items[i+1:]...)),
   so Each is modelled on an explicit array of slots with an explicit live length.
   Objects have an identity (pointer): idf.  Times are milliseconds (Z). *)
From HT Require Import Common.Bytes.
Open Scope Z_scope.

Section USet.
  Variable A : Type.
  Variable eqf : A -> A -> bool.   (* uniqueFunc(new item, existing item) *)
  Variable idf : A -> N.           (* identity of the object: item != item2 on pointers *)

  Definition same (x y : A) : bool := (idf x =? idf y)%N.

  (* Add: first member equal to the item, else append *)
  Definition uadd (x : A) (s : list A) : A * list A :=
    match find (eqf x) s with
    | Some y => (y, s)
    | None => (x, s ++ [x])
    end.

  (* Remove: first identical member *)
  Fixpoint uremove (x : A) (s : list A) : list A :=
    match s with
    | [] => []
    | y :: r => if same x y then r else y :: uremove x r
    end.

  Definition ufind (f : A -> bool) (s : list A) : option A := find f s.
  Definition ucount (s : list A) : nat := length s.

  (* ---- the backing array during Each ---- *)
  Record warr := mkW { w_arr : list (option A); w_len : nat }.

  Definition slot_is (x : A) (o : option A) : bool :=
    match o with Some y => same x y | None => false end.

  (* first index of a slot identical to x *)
  Fixpoint index_of (x : A) (l : list (option A)) : option nat :=
    match l with
    | [] => None
    | o :: r => if slot_is x o then Some O
                else match index_of x r with Some j => Some (S j) | None => None end
    end.

  Definition live (w : warr) : list (option A) := firstn (w_len w) (w_arr w).

  (* Remove(x) on the array: arr[j] = nil; arr[j+1..L) is copied to arr[j..L-1); the slot
     L-1 keeps what it held (nil if j = L-1); the live length becomes L-1 *)
  Definition w_remove (x : A) (w : warr) : warr :=
    match index_of x (live w) with
    | None => w
    | Some j =>
        let L := w_len w in
        let a := w_arr w in
        let lastv := if Nat.eqb j (L - 1) then None else nth (L - 1) a None in
        mkW (firstn j a ++ firstn (L - 1 - j) (skipn (S j) a) ++ [lastv] ++ skipn L a) (L - 1)
    end.

  (* for i, item := range items { fn(i, item) } where fn removes the visited item when rm says so
     (the deferred knocks.Remove(k) runs when fn returns); the slot read may be nil *)
  Fixpoint each_loop (rm : A -> bool) (idx : list nat) (w : warr) : list (option A) * warr :=
    match idx with
    | [] => ([], w)
    | i :: r =>
        let o := nth i (w_arr w) None in
        let w' := match o with
                  | Some x => if rm x then w_remove x w else w
                  | None => w
                  end in
        let '(vis, w'') := each_loop rm r w' in (o :: vis, w'')
    end.

  Fixpoint somes (l : list (option A)) : list A :=
    match l with
    | [] => []
    | Some x :: r => x :: somes r
    | None :: r => somes r
    end.

  (* visited slots in order, and the set afterwards *)
  Definition each_rm (rm : A -> bool) (s : list A) : list (option A) * list A :=
    let '(vis, w) := each_loop rm (seq 0 (length s)) (mkW (map Some s) (length s)) in
    (vis, somes (live w)).
End USet.

Arguments uadd {A}.
Arguments uremove {A}.
Arguments each_rm {A}.
Arguments each_loop {A}.
Arguments w_remove {A}.
Arguments index_of {A}.
Arguments live {A}.
Arguments somes {A}.
Arguments mkW {A}.
Arguments w_arr {A}.
Arguments w_len {A}.
Arguments same {A}.
Arguments slot_is {A}.

(* ---------------------------------------------------------------- knocks and groups *)
Inductive kind := KTcp | KUdp | KIcmp.

Definition kind_eqb (a b : kind) : bool :=
  match a, b with KTcp, KTcp | KUdp, KUdp | KIcmp, KIcmp => true | _, _ => false end.

Record knock := mkKnock {
  k_kind : kind; k_smac : N; k_dmac : N; k_sip : N; k_dip : N; k_port : N }.

(* the group created by NewGroup of the first knock; g_kind = type of that knock: it fixes
   the Protocol field and the equality function of the group's Knocks set *)
Record group := mkGroup {
  g_id : N; g_kind : kind; g_smac : N; g_dmac : N; g_sip : N; g_dip : N;
  g_start : Z; g_last : Z; g_count : Z; g_knocks : list knock }.

(* KnockUDPPort.NewGroup leaves Protocol at its zero value, which is ProtocolTCP *)
Definition proto_of (k : kind) : N :=
  match k with KTcp => 0 | KUdp => 0 | KIcmp => 2 end%N.

Definition group_eq (a b : group) : bool :=
  ((proto_of (g_kind a) =? proto_of (g_kind b)) && (g_smac a =? g_smac b) &&
   (g_dmac a =? g_dmac b) && (g_sip a =? g_sip b) && (g_dip a =? g_dip b))%N.

(* the closure given to NewUniqueSet by NewGroup: both values must have the creator's type *)
Definition knock_eq (creator : kind) (k1 k2 : knock) : bool :=
  kind_eqb (k_kind k1) creator && kind_eqb (k_kind k2) creator &&
  match creator with KIcmp => true | _ => (k_port k1 =? k_port k2)%N end.

Record det := mkDet { d_groups : list group; d_next : N }.
Definition det0 : det := mkDet [] 0%N.

Definition new_group (k : knock) (t : Z) (id : N) : group :=
  mkGroup id (k_kind k) (k_smac k) (k_dmac k) (k_sip k) (k_dip k) t 0 0 [].

(* knock.Count++; knock.Last = now; knock.Knocks.Add(sk) - through the pointer *)
Definition touch (k : knock) (t : Z) (g : group) : group :=
  mkGroup (g_id g) (g_kind g) (g_smac g) (g_dmac g) (g_sip g) (g_dip g) (g_start g) t
          (g_count g + 1) (snd (uadd (knock_eq (g_kind g)) k (g_knocks g))).

Fixpoint update_id (id : N) (f : group -> group) (gs : list group) : list group :=
  match gs with
  | [] => []
  | g :: r => if (g_id g =? id)%N then f g :: r else g :: update_id id f r
  end.

Definition step_knock (k : knock) (t : Z) (d : det) : det :=
  let g0 := new_group k t (d_next d) in
  let '(g, gs) := uadd group_eq g0 (d_groups d) in
  mkDet (update_id (g_id g) (touch k t) gs) (d_next d + 1)%N.

(* the tick: k.Count > 100, or not k.Last.Add(5s).After(now) *)
Definition due (now : Z) (g : group) : bool :=
  (100 <? g_count g) || negb (now <? g_last g + 5000).
(* k.Last.Add(60s).After(now): defer knocks.Remove(k) *)
Definition removable (now : Z) (g : group) : bool := now <? g_last g + 60000.
Definition tick_rm (now : Z) (g : group) : bool := due now g && removable now g.

Definition port_of (k : knock) : kind * N :=
  (k_kind k, match k_kind k with KIcmp => 0%N | _ => k_port k end).

Record report := mkReport {
  r_smac : N; r_dmac : N; r_sip : N; r_dip : N; r_ports : list (kind * N) }.

Definition report_of (g : group) : report :=
  mkReport (g_smac g) (g_dmac g) (g_sip g) (g_dip g) (map port_of (g_knocks g)).

Definition is_none {A} (o : option A) : bool := match o with None => true | _ => false end.

(* TickPanic: a nil slot reaches the type assertion to a KnockGroup pointer in the detector goroutine (no recover) *)
Inductive tick_out := TickOk (reports : list report) (d : det) | TickPanic.

Definition tick (now : Z) (d : det) : tick_out :=
  let '(vis, gs) := each_rm g_id (tick_rm now) (d_groups d) in
  if existsb is_none vis then TickPanic
  else TickOk (map report_of (filter (due now) (somes vis))) (mkDet gs (d_next d)).

(* the tick once Each iterates over a copy of the slice (fixes/C20-each-iterates-over-copy.patch):
   every member is visited once, the removals act on the live slice only.  NOT the code as it
   stands; used to state what the repair achieves. *)
Definition each_rm_copy {A} (idf : A -> N) (rm : A -> bool) (s : list A) : list (option A) * list A :=
  (map Some s, fold_left (fun l x => uremove idf x l) (filter rm s) s).

Definition tick_repaired (now : Z) (d : det) : tick_out :=
  let '(vis, gs) := each_rm_copy g_id (tick_rm now) (d_groups d) in
  if existsb is_none vis then TickPanic
  else TickOk (map report_of (filter (due now) (somes vis))) (mkDet gs (d_next d)).

Inductive devent := DKnock (k : knock) (t : Z) | DTick (now : Z).

(* the select loop: reports of every tick in order; None = the goroutine panicked *)
Fixpoint run_with (tk : Z -> det -> tick_out) (evs : list devent) (d : det)
  : option (list (list report) * det) :=
  match evs with
  | [] => Some ([], d)
  | DKnock k t :: r => run_with tk r (step_knock k t d)
  | DTick now :: r =>
      match tk now d with
      | TickPanic => None
      | TickOk reps d' =>
          match run_with tk r d' with
          | Some (rs, d'') => Some (reps :: rs, d'')
          | None => None
          end
      end
  end.

Definition run := run_with tick.

Definition run_knocks (ks : list (knock * Z)) (d : det) : det :=
  fold_left (fun d kt => step_knock (fst kt) (snd kt) d) ks d.

(* ---------------------------------------------------------------- which frames queue a knock *)
(* handleTCP up to the knockChan send, as its sequence of early returns.  The fields that
   the TCP state machine (C14) decides are inputs. *)
Inductive sstate := SListen | SSynSent | SSynReceived | SEstablished | SFinWait1 | SFinWait2
                  | SCloseWait | SClosing | SLastAck | STimeWait | SClosed.

Record tcpin := mkTcpIn {
  t_parse_ok : bool; t_is_me : bool; t_port22 : bool;
  t_syn : bool; t_ack : bool; t_rst : bool;
  t_state : option sstate;       (* stateTable.Get for the 4-tuple *)
  t_ack_acceptable : bool }.     (* SND.UNA <= SEG.ACK <= SND.NXT *)

Definition tcp_queues_knock (i : tcpin) : bool :=
  if negb (t_parse_ok i) then false
  else if negb (t_is_me i) then false
  else if t_port22 i then false
  else
    let st := if t_syn i && negb (t_ack i) then Some SListen else t_state i in
    match st with
    | None => false
    | Some s =>
        if (match s with SListen => true | _ => false end) && t_syn i then false  (* SYN|ACK sent, return *)
        else if t_rst i && (match s with SSynReceived | SCloseWait | STimeWait => true | _ => false end) then false
        else if t_syn i then false             (* if hdr.HasFlag(tcp.SYN) { return nil } *)
        else if negb (t_ack i) then false
        else if (match s with SSynReceived => true | _ => false end) && negb (t_ack_acceptable i) then false
        else t_syn i                           (* if hdr.Ctrl&tcp.SYN == tcp.SYN { c.knockChan <- KnockTCPPort } *)
    end.

Definition udp_decoder_ports : list N := [53; 123; 1900; 5060; 161; 162]%N.

(* a probe of the harness: source index, protocol (0 tcp, 1 udp, 2 icmp), destination port,
   TCP flag byte *)
Record probe := P { p_src : N; p_proto : N; p_port : N; p_flags : N }.

Definition src_ip (i : N) : N := (167772161 + i)%N.            (* 10.0.0.(1+i) *)
Definition src_mac (i : N) : N := (2199023255553 + i)%N.       (* 02:00:00:00:00:(01+i) *)
Definition dst_ip : N := 2130706433%N.                         (* 127.0.0.1 *)
Definition dst_mac : N := 2199023255807%N.                     (* 02:00:00:00:00:ff *)

Definition flag (fl bit : N) : bool := N.testbit fl bit.

Definition knocks_of_probe (st : option sstate) (ackok : bool) (p : probe) : list knock :=
  let mk k port := mkKnock k (src_mac (p_src p)) dst_mac (src_ip (p_src p)) dst_ip port in
  match p_proto p with
  | 0%N => if tcp_queues_knock (mkTcpIn true true ((p_port p =? 22)%N) (flag (p_flags p) 1)
                                        (flag (p_flags p) 4) (flag (p_flags p) 2) st ackok)
           then [mk KTcp (p_port p)] else []
  | 1%N => if existsb (N.eqb (p_port p)) udp_decoder_ports then [] else [mk KUdp (p_port p)]
  | _ => [mk KIcmp 0%N]
  end.

(* ---------------------------------------------------------------- the specification *)
(* same (protocol group, source, destination) *)
Definition key_eqb (a b : knock) : bool :=
  ((proto_of (k_kind a) =? proto_of (k_kind b)) && (k_smac a =? k_smac b) &&
   (k_dmac a =? k_dmac b) && (k_sip a =? k_sip b) && (k_dip a =? k_dip b))%N.

Definition gk_eqb (g : group) (k : knock) : bool :=
  ((proto_of (g_kind g) =? proto_of (k_kind k)) && (g_smac g =? k_smac k) &&
   (g_dmac g =? k_dmac k) && (g_sip g =? k_sip k) && (g_dip g =? k_dip k))%N.

Definition rk_eqb (r : report) (k : knock) : bool :=
  ((r_smac r =? k_smac k) && (r_dmac r =? k_dmac k) && (r_sip r =? k_sip k) && (r_dip r =? k_dip k))%N.
