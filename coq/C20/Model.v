(* C20 - model of listener/canary/unique-set.go, listener/canary/knock.go and the three
   knockChan send sites of listener/canary/canary_linux.go (as repaired by the commits
   "UniqueSet.Each iterates over a copy" and "canary queues the TCP knock where a SYN is
   handled; UDP knock groups carry ProtocolUDP").  Executable definitions only.

   UniqueSet: the set is its live slice (list A).  Objects have an identity (pointer): idf.
   Each(fn) iterates over a COPY of the slice taken when it starts; fn may call Remove, which
   acts on the live slice only.  Times are milliseconds (Z). *)
From HT Require Import Common.Bytes.
Open Scope Z_scope.

Section USet.
  Variable A : Type.
  Variable eqf : A -> A -> bool.   (* uniqueFunc(new item, existing item) *)
  Variable idf : A -> N.           (* identity of the object: item != item2 on pointers *)

  Definition same (x y : A) : bool := (idf x =? idf y)%N.

  (* Add: first member equal to the item, else append *)
  Definition uadd (x : A) (s : list A) : A * list A :=
    match find (eqf x) s with
    | Some y => (y, s)
    | None => (x, s ++ [x])
    end.

  (* Remove: first identical member *)
  Fixpoint uremove (x : A) (s : list A) : list A :=
    match s with
    | [] => []
    | y :: r => if same x y then r else y :: uremove x r
    end.

  Definition ufind (f : A -> bool) (s : list A) : option A := find f s.
  Definition ucount (s : list A) : nat := length s.

  (* items := append(nil, us.items...); for i, item := range items { fn(i, item) } where fn
     removes the visited item when rm says so (the deferred knocks.Remove(k) of the tick):
     the loop walks the copy, every Remove acts on the live slice as it then is.
     Result: the items visited in order, and the set afterwards. *)
  Fixpoint each_loop (rm : A -> bool) (copy : list A) (livesl : list A) : list A * list A :=
    match copy with
    | [] => ([], livesl)
    | x :: r =>
        let l' := if rm x then uremove x livesl else livesl in
        let '(vis, l'') := each_loop rm r l' in (x :: vis, l'')
    end.

  Definition each_rm (rm : A -> bool) (s : list A) : list A * list A := each_loop rm s s.
End USet.

Arguments uadd {A}.
Arguments uremove {A}.
Arguments each_rm {A}.
Arguments each_loop {A}.
Arguments same {A}.

(* ---------------------------------------------------------------- knocks and groups *)
Inductive kind := KTcp | KUdp | KIcmp.

Definition kind_eqb (a b : kind) : bool :=
  match a, b with KTcp, KTcp | KUdp, KUdp | KIcmp, KIcmp => true | _, _ => false end.

Record knock := mkKnock {
  k_kind : kind; k_smac : N; k_dmac : N; k_sip : N; k_dip : N; k_port : N }.

(* the group created by NewGroup of the first knock; g_kind = type of that knock: it fixes
   the Protocol field and the equality function of the group's Knocks set *)
Record group := mkGroup {
  g_id : N; g_kind : kind; g_smac : N; g_dmac : N; g_sip : N; g_dip : N;
  g_start : Z; g_last : Z; g_count : Z; g_knocks : list knock }.

(* the Protocol field set by the three NewGroup functions *)
Definition proto_of (k : kind) : N :=
  match k with KTcp => 0 | KUdp => 1 | KIcmp => 2 end%N.

Definition group_eq (a b : group) : bool :=
  ((proto_of (g_kind a) =? proto_of (g_kind b)) && (g_smac a =? g_smac b) &&
   (g_dmac a =? g_dmac b) && (g_sip a =? g_sip b) && (g_dip a =? g_dip b))%N.

(* the closure given to NewUniqueSet by NewGroup: both values must have the creator's type *)
Definition knock_eq (creator : kind) (k1 k2 : knock) : bool :=
  kind_eqb (k_kind k1) creator && kind_eqb (k_kind k2) creator &&
  match creator with KIcmp => true | _ => (k_port k1 =? k_port k2)%N end.

Record det := mkDet { d_groups : list group; d_next : N }.
Definition det0 : det := mkDet [] 0%N.

Definition new_group (k : knock) (t : Z) (id : N) : group :=
  mkGroup id (k_kind k) (k_smac k) (k_dmac k) (k_sip k) (k_dip k) t 0 0 [].

(* knock.Count++; knock.Last = now; knock.Knocks.Add(sk) - through the pointer *)
Definition touch (k : knock) (t : Z) (g : group) : group :=
  mkGroup (g_id g) (g_kind g) (g_smac g) (g_dmac g) (g_sip g) (g_dip g) (g_start g) t
          (g_count g + 1) (snd (uadd (knock_eq (g_kind g)) k (g_knocks g))).

Fixpoint update_id (id : N) (f : group -> group) (gs : list group) : list group :=
  match gs with
  | [] => []
  | g :: r => if (g_id g =? id)%N then f g :: r else g :: update_id id f r
  end.

Definition step_knock (k : knock) (t : Z) (d : det) : det :=
  let g0 := new_group k t (d_next d) in
  let '(g, gs) := uadd group_eq g0 (d_groups d) in
  mkDet (update_id (g_id g) (touch k t) gs) (d_next d + 1)%N.

(* the tick: k.Count > 100, or not k.Last.Add(5s).After(now) *)
Definition due (now : Z) (g : group) : bool :=
  (100 <? g_count g) || negb (now <? g_last g + 5000).
(* k.Last.Add(60s).After(now): defer knocks.Remove(k) *)
Definition removable (now : Z) (g : group) : bool := now <? g_last g + 60000.
Definition tick_rm (now : Z) (g : group) : bool := due now g && removable now g.

Definition port_of (k : knock) : kind * N :=
  (k_kind k, match k_kind k with KIcmp => 0%N | _ => k_port k end).

Record report := mkReport {
  r_smac : N; r_dmac : N; r_sip : N; r_dip : N; r_ports : list (kind * N) }.

Definition report_of (g : group) : report :=
  mkReport (g_smac g) (g_dmac g) (g_sip g) (g_dip g) (map port_of (g_knocks g)).

Definition tick (now : Z) (d : det) : list report * det :=
  let '(vis, gs) := each_rm g_id (tick_rm now) (d_groups d) in
  (map report_of (filter (due now) vis), mkDet gs (d_next d)).

Inductive devent := DKnock (k : knock) (t : Z) | DTick (now : Z).

(* the select loop: the reports of every tick, in order *)
Fixpoint run (evs : list devent) (d : det) : list (list report) * det :=
  match evs with
  | [] => ([], d)
  | DKnock k t :: r => run r (step_knock k t d)
  | DTick now :: r =>
      let '(reps, d') := tick now d in
      let '(rs, d'') := run r d' in (reps :: rs, d'')
  end.

Definition run_knocks (ks : list (knock * Z)) (d : det) : det :=
  fold_left (fun d kt => step_knock (fst kt) (snd kt) d) ks d.

(* ---------------------------------------------------------------- which frames queue a knock *)
(* handleTCP up to its only knockChan send (in the Listen branch).  The fields that the TCP
   state machine (C14) decides are inputs. *)
Inductive sstate := SListen | SSynSent | SSynReceived | SEstablished | SFinWait1 | SFinWait2
                  | SCloseWait | SClosing | SLastAck | STimeWait | SClosed.

Record tcpin := mkTcpIn {
  t_parse_ok : bool; t_is_me : bool; t_port22 : bool;
  t_syn : bool; t_ack : bool; t_rst : bool;
  t_state : option sstate;       (* stateTable.Get for the 4-tuple *)
  t_table_ok : bool;             (* stateTable.Add finds a slot *)
  t_ack_acceptable : bool }.     (* SND.UNA <= SEG.ACK <= SND.NXT *)

(* a SYN without ACK always creates a NEW state in Listen (also for a 4-tuple that already has
   one), which the Listen branch answers with SYN|ACK and reports to the detector *)
Definition tcp_queues_knock (i : tcpin) : bool :=
  if negb (t_parse_ok i) then false
  else if negb (t_is_me i) then false
  else if t_port22 i then false
  else if t_syn i && negb (t_ack i) && negb (t_table_ok i) then false   (* table full: dropped *)
  else
    let st := if t_syn i && negb (t_ack i) then Some SListen else t_state i in
    match st with
    | None => false
    | Some s =>
        if (match s with SListen => true | _ => false end) && t_syn i
        then true                              (* c.knockChan <- KnockTCPPort; return *)
        else false                             (* no other path sends a knock *)
    end.

Definition udp_decoder_ports : list N := [53; 123; 1900; 5060; 161; 162]%N.

(* a probe of the harness: source index, protocol (0 tcp, 1 udp, 2 icmp), destination port,
   TCP flag byte *)
Record probe := P { p_src : N; p_proto : N; p_port : N; p_flags : N }.

Definition src_ip (i : N) : N := (167772161 + i)%N.            (* 10.0.0.(1+i) *)
Definition src_mac (i : N) : N := (2199023255553 + i)%N.       (* 02:00:00:00:00:(01+i) *)
Definition dst_ip : N := 2130706433%N.                         (* 127.0.0.1 *)
Definition dst_mac : N := 2199023255807%N.                     (* 02:00:00:00:00:ff *)

Definition flag (fl bit : N) : bool := N.testbit fl bit.

Definition knocks_of_probe (st : option sstate) (ackok : bool) (p : probe) : list knock :=
  let mk k port := mkKnock k (src_mac (p_src p)) dst_mac (src_ip (p_src p)) dst_ip port in
  match p_proto p with
  | 0%N => if tcp_queues_knock (mkTcpIn true true ((p_port p =? 22)%N) (flag (p_flags p) 1)
                                        (flag (p_flags p) 4) (flag (p_flags p) 2) st true ackok)
           then [mk KTcp (p_port p)] else []
  | 1%N => if existsb (N.eqb (p_port p)) udp_decoder_ports then [] else [mk KUdp (p_port p)]
  | _ => [mk KIcmp 0%N]
  end.

(* ---------------------------------------------------------------- the specification *)
(* same (protocol group, source, destination) *)
Definition key_eqb (a b : knock) : bool :=
  ((proto_of (k_kind a) =? proto_of (k_kind b)) && (k_smac a =? k_smac b) &&
   (k_dmac a =? k_dmac b) && (k_sip a =? k_sip b) && (k_dip a =? k_dip b))%N.

Definition gk_eqb (g : group) (k : knock) : bool :=
  ((proto_of (g_kind g) =? proto_of (k_kind k)) && (g_smac g =? k_smac k) &&
   (g_dmac g =? k_dmac k) && (g_sip g =? k_sip k) && (g_dip g =? k_dip k))%N.

Definition rk_eqb (r : report) (k : knock) : bool :=
  ((r_smac r =? k_smac k) && (r_dmac r =? k_dmac k) && (r_sip r =? k_sip k) && (r_dip r =? k_dip k))%N.
