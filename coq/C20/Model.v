(* C20 - model of listener/canary/unique-set.go, listener/canary/knock.go and the three
   knockChan send sites of listener/canary/canary_linux.go (as repaired by the commits
   "UniqueSet.Each iterates over a copy" and "canary queues the TCP knock where a SYN is
   handled; UDP knock groups carry ProtocolUDP").  Executable definitions only.

   UniqueSet: the set is its live slice (list A).  Objects have an identity (pointer): idf.
   Each(fn) iterates over a COPY of the slice taken when it starts; fn may call Remove, which
   acts on the live slice only.  Times are milliseconds (Z). *)
From HT Require Import Common.Bytes.
Open Scope Z_scope.

Section USet.
  Variable A : Type.
  Variable eqf : A -> A -> bool.   (* uniqueFunc(new item, existing item) *)
  Variable idf : A -> N.           (* identity of the object: item != item2 on pointers *)

  Definition same (x y : A) : bool := (idf x =? idf y)%N.

  (* Add: first member equal to the item, else append *)
  Definition uadd (x : A) (s : list A) : A * list A :=
    match find (eqf x) s with
    | Some y => (y, s)
    | None => (x, s ++ [x])
    end.

  (* Remove: first identical member *)
  Fixpoint uremove (x : A) (s : list A) : list A :=
    match s with
    | [] => []
    | y :: r => if same x y then r else y :: uremove x r
    end.

  Definition ufind (f : A -> bool) (s : list A) : option A := find f s.
  Definition ucount (s : list A) : nat := length s.

  (* items := append(nil, us.items...); for i, item := range items { fn(i, item) } where fn
     removes the visited item when rm says so (the deferred knocks.Remove(k) of the tick):
     the loop walks the copy, every Remove acts on the live slice as it then is.
     Result: the items visited in order, and the set afterwards. *)
  Fixpoint each_loop (rm : A -> bool) (copy : list A) (livesl : list A) : list A * list A :=
    match copy with
    | [] => ([], livesl)
    | x :: r =>
        let l' := if rm x then uremove x livesl else livesl in
        let '(vis, l'') := each_loop rm r l' in (x :: vis, l'')
    end.

  Definition each_rm (rm : A -> bool) (s : list A) : list A * list A := each_loop rm s s.
End USet.

Arguments uadd {A}.
Arguments uremove {A}.
Arguments each_rm {A}.
Arguments each_loop {A}.
Arguments same {A}.

(* ---------------------------------------------------------------- knocks and groups *)
Inductive kind := KTcp | KUdp | KIcmp.

Definition kind_eqb (a b : kind) : bool :=
  match a, b with KTcp, KTcp | KUdp, KUdp | KIcmp, KIcmp => true | _, _ => false end.

Record knock := mkKnock {
  k_kind : kind; k_smac : N; k_dmac : N; k_sip : N; k_dip : N; k_port : N }.

(* the group created by NewGroup of the first knock; g_kind = type of that knock: it fixes
   the Protocol field and the equality function of the group's Knocks set *)
Record group := mkGroup {
  g_id : N; g_kind : kind; g_smac : N; g_dmac : N; g_sip : N; g_dip : N;
  g_start : Z; g_last : Z; g_count : Z; g_knocks : list knock }.

(* the Protocol field set by the three NewGroup functions *)
Definition proto_of (k : kind) : N :=
  match k with KTcp => 0 | KUdp => 1 | KIcmp => 2 end%N.

Definition group_eq (a b : group) : bool :=
  ((proto_of (g_kind a) =? proto_of (g_kind b)) && (g_smac a =? g_smac b) &&
   (g_dmac a =? g_dmac b) && (g_sip a =? g_sip b) && (g_dip a =? g_dip b))%N.

(* the closure given to NewUniqueSet by NewGroup: both values must have the creator's type *)
Definition knock_eq (creator : kind) (k1 k2 : knock) : bool :=
  kind_eqb (k_kind k1) creator && kind_eqb (k_kind k2) creator &&
  match creator with KIcmp => true | _ => (k_port k1 =? k_port k2)%N end.

Record det := mkDet { d_groups : list group; d_next : N }.
Definition det0 : det := mkDet [] 0%N.

Definition new_group (k : knock) (t : Z) (id : N) : group :=
  mkGroup id (k_kind k) (k_smac k) (k_dmac k) (k_sip k) (k_dip k) t 0 0 [].

(* knock.Count++; knock.Last = now; knock.Knocks.Add(sk) - through the pointer *)
Definition touch (k : knock) (t : Z) (g : group) : group :=
  mkGroup (g_id g) (g_kind g) (g_smac g) (g_dmac g) (g_sip g) (g_dip g) (g_start g) t
          (g_count g + 1) (snd (uadd (knock_eq (g_kind g)) k (g_knocks g))).

Fixpoint update_id (id : N) (f : group -> group) (gs : list group) : list group :=
  match gs with
  | [] => []
  | g :: r => if (g_id g =? id)%N then f g :: r else g :: update_id id f r
  end.

Definition step_knock (k : knock) (t : Z) (d : det) : det :=
  let g0 := new_group k t (d_next d) in
  let '(g, gs) := uadd group_eq g0 (d_groups d) in
  mkDet (update_id (g_id g) (touch k t) gs) (d_next d + 1)%N.

(* the tick: k.Count > 100, or not k.Last.Add(5s).After(now) *)
Definition due (now : Z) (g : group) : bool :=
  (100 <? g_count g) || negb (now <? g_last g + 5000).
(* k.Last.Add(60s).After(now): defer knocks.Remove(k) *)
Definition removable (now : Z) (g : group) : bool := now <? g_last g + 60000.
Definition tick_rm (now : Z) (g : group) : bool := due now g && removable now g.

Definition port_of (k : knock) : kind * N :=
  (k_kind k, match k_kind k with KIcmp => 0%N | _ => k_port k end).

Record report := mkReport {
  r_smac : N; r_dmac : N; r_sip : N; r_dip : N; r_ports : list (kind * N) }.

Definition report_of (g : group) : report :=
  mkReport (g_smac g) (g_dmac g) (g_sip g) (g_dip g) (map port_of (g_knocks g)).

Definition tick (now : Z) (d : det) : list report * det :=
  let '(vis, gs) := each_rm g_id (tick_rm now) (d_groups d) in
  (map report_of (filter (due now) vis), mkDet gs (d_next d)).

Inductive devent := DKnock (k : knock) (t : Z) | DTick (now : Z).

(* the select loop: the reports of every tick, in order *)
Fixpoint run (evs : list devent) (d : det) : list (list report) * det :=
  match evs with
  | [] => ([], d)
  | DKnock k t :: r => run r (step_knock k t d)
  | DTick now :: r =>
      let '(reps, d') := tick now d in
      let '(rs, d'') := run r d' in (reps :: rs, d'')
  end.

Definition run_knocks (ks : list (knock * Z)) (d : det) : det :=
  fold_left (fun d kt => step_knock (fst kt) (snd kt) d) ks d.

(* ---------------------------------------------------------------- which frames queue a knock *)
(* handleTCP up to its only knockChan send (in the Listen branch).  The fields that the TCP
   state machine (C14) decides are inputs. *)
Inductive sstate := SListen | SSynSent | SSynReceived | SEstablished | SFinWait1 | SFinWait2
                  | SCloseWait | SClosing | SLastAck | STimeWait | SClosed.

Record tcpin := mkTcpIn {
  t_parse_ok : bool; t_is_me : bool; t_port22 : bool;
  t_syn : bool; t_ack : bool; t_rst : bool;
  t_state : option sstate;       (* stateTable.Get for the 4-tuple *)
  t_table_ok : bool;             (* stateTable.Add finds a slot *)
  t_ack_acceptable : bool }.     (* SND.UNA <= SEG.ACK <= SND.NXT *)

(* a SYN without ACK always creates a NEW state in Listen (also for a 4-tuple that already has
   one), which the Listen branch answers with SYN|ACK and reports to the detector *)
Definition tcp_queues_knock (i : tcpin) : bool :=
  if negb (t_parse_ok i) then false
  else if negb (t_is_me i) then false
  else if t_port22 i then false
  else if t_syn i && negb (t_ack i) && negb (t_table_ok i) then false   (* table full: dropped *)
  else
    let st := if t_syn i && negb (t_ack i) then Some SListen else t_state i in
    match st with
    | None => false
    | Some s =>
        if (match s with SListen => true | _ => false end) && t_syn i
        then true                              (* c.knockChan <- KnockTCPPort; return *)
        else false                             (* no other path sends a knock *)
    end.

Definition udp_decoder_ports : list N := [53; 123; 1900; 5060; 161; 162]%N.

(* a probe of the harness: source index, protocol (0 tcp, 1 udp, 2 icmp), destination port,
   TCP flag byte, index of the sensor address probed *)
Record probe := P { p_src : N; p_proto : N; p_port : N; p_flags : N; p_dst : N }.

Definition src_ip (i : N) : N := (167772161 + i)%N.            (* 10.0.0.(1+i) *)
Definition src_mac (i : N) : N := (2199023255553 + i)%N.       (* 02:00:00:00:00:(01+i) *)
Definition dst_ip : N := 2130706433%N.                         (* 127.0.0.1 *)
Definition dst_mac : N := 2199023255807%N.                     (* 02:00:00:00:00:ff *)
(* the sensor's addresses on the interface (all behind the same hardware address):
   127.0.0.1, 127.0.0.2, 192.0.2.9 *)
Definition dst_ips : list N := [2130706433; 2130706434; 3221225993]%N.
Definition dst_ip_of (i : N) : N := nth (N.to_nat i) dst_ips 0%N.

Definition flag (fl bit : N) : bool := N.testbit fl bit.

Definition knocks_of_probe (st : option sstate) (ackok : bool) (p : probe) : list knock :=
  let mk k port := mkKnock k (src_mac (p_src p)) dst_mac (src_ip (p_src p)) (dst_ip_of (p_dst p)) port in
  match p_proto p with
  | 0%N => if tcp_queues_knock (mkTcpIn true true ((p_port p =? 22)%N) (flag (p_flags p) 1)
                                        (flag (p_flags p) 4) (flag (p_flags p) 2) st true ackok)
           then [mk KTcp (p_port p)] else []
  | 1%N => if existsb (N.eqb (p_port p)) udp_decoder_ports then [] else [mk KUdp (p_port p)]
  | _ => [mk KIcmp 0%N]
  end.

(* ---------------------------------------------------------------- the specification *)
(* same (protocol group, source, destination) *)
Definition key_eqb (a b : knock) : bool :=
  ((proto_of (k_kind a) =? proto_of (k_kind b)) && (k_smac a =? k_smac b) &&
   (k_dmac a =? k_dmac b) && (k_sip a =? k_sip b) && (k_dip a =? k_dip b))%N.

Definition gk_eqb (g : group) (k : knock) : bool :=
  ((proto_of (g_kind g) =? proto_of (k_kind k)) && (g_smac g =? k_smac k) &&
   (g_dmac g =? k_dmac k) && (g_sip g =? k_sip k) && (g_dip g =? k_dip k))%N.

Definition rk_eqb (r : report) (k : knock) : bool :=
  ((r_smac r =? k_smac k) && (r_dmac r =? k_dmac k) && (r_sip r =? k_sip k) && (r_dip r =? k_dip k))%N.

(* ---------------------------------------------------------------- the knock queue *)
(* knockChan is a channel of capacity cap (100).  Every handler (one goroutine per UDP
   datagram; the receive loop itself for ICMP and TCP) performs a BLOCKING send; the detector
   receives one knock per loop iteration.  A schedule is any sequence of attempts:
   QSend i = producer i runs its send (it completes only if the queue has room, otherwise the
   producer stays blocked and may be scheduled again), QRecv t = the detector takes the head
   of the queue at time t. *)
Record qstate := mkQ {
  q_pending : list (option knock);   (* producer i: Some k = its knock is not yet in the queue *)
  q_queue : list knock;
  q_done : list (knock * Z) }.       (* knocks received by the detector, in order, with the time *)

Inductive qstep := QSend (i : nat) | QRecv (t : Z).

Fixpoint clear_nth {A} (i : nat) (l : list (option A)) : list (option A) :=
  match l, i with
  | [], _ => []
  | _ :: r, O => None :: r
  | x :: r, S j => x :: clear_nth j r
  end.

Definition q_step (cap : nat) (st : qstate) (s : qstep) : qstate :=
  match s with
  | QSend i =>
      match nth_error (q_pending st) i with
      | Some (Some k) =>
          if Nat.ltb (length (q_queue st)) cap
          then mkQ (clear_nth i (q_pending st)) (q_queue st ++ [k]) (q_done st)
          else st                                   (* blocked: nothing happens, nothing is lost *)
      | _ => st
      end
  | QRecv t =>
      match q_queue st with
      | k :: r => mkQ (q_pending st) r (q_done st ++ [(k, t)])
      | [] => st
      end
  end.

Definition q_init (ks : list knock) : qstate := mkQ (map Some ks) [] [].
Definition q_run (cap : nat) (steps : list qstep) (st : qstate) : qstate := fold_left (q_step cap) steps st.

Fixpoint osomes {A} (l : list (option A)) : list A :=
  match l with [] => [] | Some x :: r => x :: osomes r | None :: r => osomes r end.

(* the schedule has run to completion: every producer has sent, the queue is drained *)
Definition q_complete (st : qstate) : Prop := osomes (q_pending st) = [] /\ q_queue st = [].

(* ---------------------------------------------------------------- from the frame to the knock *)
(* The receive path byte by byte: ethernet.Parse, ipv4.Parse, then udp.Unmarshal / icmp.Parse /
   tcp.UnmarshalWithChecksum and the guards of handleUDP / handleICMP / handleTCP in front of
   the knockChan sends.  Every field of the knock is the byte range the decoders extract. *)
Open Scope N_scope.

Definition u8 (d : bytes) (i : nat) : N := nth i d 0.
Definition u16 (d : bytes) (i : nat) : N := u8 d i * 256 + u8 d (S i).
Definition be32 (d : bytes) (i : nat) : N := u16 d i * 65536 + u16 d (S (S i)).
Definition be48 (d : bytes) (i : nat) : N := u16 d i * 4294967296 + be32 d (S (S i)).
Definition blen (d : bytes) : N := N.of_nat (length d).

(* ipv4.Header.Unmarshal: the payload is b[20:TotalLen] - IP options count as payload; the
   version nibble is not looked at *)
Record ipdec := mkIpDec { ip_proto : N; ip_src : N; ip_dst : N; ip_payload : bytes }.

Definition ipv4_decode (b : bytes) : option ipdec :=
  if blen b <? 20 then None
  else if blen b <? (u8 b 0 mod 16) * 4 then None
  else if blen b <? u16 b 2 then None
  else if u16 b 2 <? 20 then None
  else Some (mkIpDec (u8 b 9) (be32 b 12) (be32 b 16)
                     (firstn (N.to_nat (u16 b 2 - 20)) (skipn 20 b))).

(* udp.Unmarshal: (source port, destination port) *)
Definition udp_decode (d : bytes) : option (N * N) :=
  if blen d <? 8 then None
  else if negb (u16 d 4 =? blen d) then None
  else Some (u16 d 0, u16 d 2).

(* icmp.Parse succeeds from 8 bytes on (an echo without data is 8 bytes) *)
Definition icmp_decode (d : bytes) : bool := 8 <=? blen d.

(* tcp.Header.Unmarshal: the option loop over data[20:dataStart] *)
Fixpoint tcp_opts_ok (fuel : nat) (o : bytes) : bool :=
  match fuel with
  | O => true
  | S f =>
      match o with
      | [] => true
      | k :: r =>
          if k =? 0 then true                      (* end of option list *)
          else if k =? 1 then tcp_opts_ok f r      (* nop *)
          else match r with
               | [] => false                       (* kind without length *)
               | l :: _ => if l <? 2 then false
                           else if blen o <? l then false
                           else tcp_opts_ok f (skipn (N.to_nat l) o)
               end
      end
  end.

Definition tcp_unmarshal_ok (d : bytes) : bool :=
  let off := u8 d 12 / 16 in
  (20 <=? blen d) && (5 <=? off) && (off * 4 <=? blen d) &&
  tcp_opts_ok (length d) (firstn (N.to_nat (off * 4 - 20)) (skipn 20 d)).

(* tcp.csum: pseudo header + length + every 16-bit word except the checksum field, a trailing
   odd byte as the high byte; folded; complemented *)
Fixpoint sum_words (i : N) (d : bytes) (acc : N) : N :=
  match d with
  | a :: b :: r => sum_words (i + 2) r (if i =? 16 then acc else acc + a * 256 + b)
  | [a] => acc + a * 256
  | [] => acc
  end.
Definition fold16 (c : N) : N := if 0 <? c / 65536 then c mod 65536 + c / 65536 else c.
Definition tcp_csum (d : bytes) (src dst : N) : N :=
  let s := src / 65536 + src mod 65536 + dst / 65536 + dst mod 65536 + 6 + blen d in
  65535 - fold16 (fold16 (fold16 (sum_words 0 d s))).

(* UnmarshalWithChecksum as used by handleTCP: an Unmarshal error is masked by
   ErrInvalidChecksum ("ignored for now") when the checksum does not match; a segment
   shorter than 20 bytes leaves the header zero (no flags) *)
Definition tcp_header_used (d : bytes) (src dst : N) : bool :=
  (20 <=? blen d) && (tcp_unmarshal_ok d || negb (tcp_csum d src dst =? u16 d 16)).

(* the state table as far as the knock depends on it: the connection records in slot order
   (nothing is removed on the paths modelled), each with its state.  stateTable.Get returns the
   FIRST record that matches loosely: each port of the segment equals one of the record's two
   ports, each address one of its two addresses. *)
Definition tuple := (N * N * N * N)%type.     (* SrcIP, DestIP, SrcPort, DestPort *)
Definition tmatch (e q : tuple) : bool :=
  let '(es, ed, esp, edp) := e in let '(qs, qd, qsp, qdp) := q in
  ((esp =? qsp) || (edp =? qsp)) && ((edp =? qdp) || (esp =? qdp)) &&
  ((es =? qs) || (ed =? qs)) && ((ed =? qd) || (es =? qd)).
Definition ttable := list (tuple * sstate).
Fixpoint tget (t : ttable) (q : tuple) : option sstate :=
  match t with
  | [] => None
  | (e, s) :: r => if tmatch e q then Some s else tget r q
  end.
(* the state change goes to that first matching record *)
Fixpoint tset (t : ttable) (q : tuple) (s : sstate) : ttable :=
  match t with
  | [] => []
  | (e, s') :: r => if tmatch e q then (e, s) :: r else (e, s') :: tset r q s
  end.

(* FPanic: ethernet.Parse slices data[12:14] of a frame shorter than 14 bytes (an AF_PACKET
   socket never delivers one).  FUnknown: the segment continues an existing connection in a
   way only the TCP state machine (C14) decides; no knock is queued on those paths either, but
   the table is not tracked further. *)
Inductive fout := FKnock (k : knock) | FNone | FPanic | FUnknown.

Definition rx_tcp (me : list N) (tb : ttable) (smac dmac : N) (ip : ipdec) : fout * ttable :=
  let d := ip_payload ip in
  if negb (tcp_header_used d (ip_src ip) (ip_dst ip)) then (FNone, tb)
  else if negb (existsb (N.eqb (ip_dst ip)) me) then (FNone, tb)
  else
    let sport := u16 d 0 in let dport := u16 d 2 in let fl := u8 d 13 mod 64 in
    let syn := flag fl 1 in let ack := flag fl 4 in let rst := flag fl 2 in let fin := flag fl 0 in
    if (sport =? 22) || (dport =? 22) then (FNone, tb)
    else
      let k := (ip_src ip, ip_dst ip, sport, dport) in
      let kn := FKnock (mkKnock KTcp smac dmac (ip_src ip) (ip_dst ip) dport) in
      if syn && negb ack then
        (* always a new record (next free slot), Listen -> SynReceived, reported *)
        (kn, tb ++ [(k, SSynReceived)])
      else
        match tget tb k with
        | None => (FNone, tb)
        | Some SListen =>
            if syn then (kn, tset tb k SSynReceived)
            else if fin then (FUnknown, tb) else (FNone, tb)
        | Some SSynReceived =>
            if rst then (FNone, tset tb k SListen)
            else if syn then (FNone, tb)
            else if negb ack then (FNone, tb)
            else (FUnknown, tb)
        | Some _ => (FUnknown, tb)
        end.

Definition rx_frame (me : list N) (tb : ttable) (f : bytes) : fout * ttable :=
  if blen f <? 14 then (FPanic, tb)
  else if negb (u16 f 12 =? 2048) then (FNone, tb)          (* ARP is handled only with doARP *)
  else
    let smac := be48 f 6 in let dmac := be48 f 0 in
    match ipv4_decode (skipn 14 f) with
    | None => (FNone, tb)
    | Some ip =>
        let isme := existsb (N.eqb (ip_dst ip)) me in
        match ip_proto ip with
        | 1 => if icmp_decode (ip_payload ip) && isme
               then (FKnock (mkKnock KIcmp smac dmac (ip_src ip) (ip_dst ip) 0), tb) else (FNone, tb)
        | 17 => match udp_decode (ip_payload ip) with
                | None => (FNone, tb)
                | Some (sport, dport) =>
                    if isme && negb (existsb (N.eqb dport) udp_decoder_ports)
                    then (FKnock (mkKnock KUdp smac dmac (ip_src ip) (ip_dst ip) dport), tb)
                    else (FNone, tb)
                end
        | 6 => rx_tcp me tb smac dmac ip
        | _ => (FNone, tb)
        end
    end.

Fixpoint rx_frames (me : list N) (tb : ttable) (fs : list bytes) : list fout :=
  match fs with
  | [] => []
  | f :: r => let '(o, tb') := rx_frame me tb f in o :: rx_frames me tb' r
  end.

(* ---- the frames a scanner sends, by their fields (all bytes) ---- *)
Definition eth_hdr (dm sm : bytes) : bytes := dm ++ sm ++ [8; 0].
(* a 20-byte IPv4 header: v = version/IHL byte, (tl1, tl0) = total length *)
Definition ip_hdr (v tos tl1 tl0 id1 id0 fr1 fr0 ttl proto ck1 ck0 : N) (src dst : bytes) : bytes :=
  [v; tos; tl1; tl0; id1; id0; fr1; fr0; ttl; proto; ck1; ck0] ++ src ++ dst.
Close Scope N_scope.
