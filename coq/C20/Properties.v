(* C20 - property theorems: a port scan is reported once, listing exactly the ports probed.
   Model: C20/Model.v (unique-set.go, knock.go, the knockChan sends of canary_linux.go). *)
From HT Require Import Common.Bytes C20.Model C20.Check C20.Proofs.
Open Scope Z_scope.

(* ---------------------------------------------------------------- the grouping container *)

(* Add returns the first member equal to the item and leaves the set alone, or appends the
   item when no member is equal *)
Theorem C20_uset_add_returns_representative :
  forall A (eqf : A -> A -> bool) (x : A) (s : list A) (y : A) (s' : list A),
  uadd eqf x s = (y, s') ->
  (In y s /\ eqf x y = true /\ s' = s) \/
  (y = x /\ s' = s ++ [x] /\ forall z, In z s -> eqf x z = false).
Proof. exact uadd_spec. Qed.

(* set semantics for ALL operation sequences (Add / Remove / Each with any removal
   predicate), not only those of length <= 6: no two members are ever equal *)
Theorem C20_uset_pairwise_distinct : forall A (eqf : A -> A -> bool) (idf : A -> N) ops,
  distinct eqf (urun A eqf idf ops).
Proof. exact urun_distinct. Qed.

(* Count grows by one exactly when no member is equal to the added item *)
Theorem C20_uset_add_count : forall A (eqf : A -> A -> bool) (x : A) (s : list A),
  length (snd (uadd eqf x s)) = if existsb (eqf x) s then length s else S (length s).
Proof. exact uadd_count. Qed.

(* Each without removal visits every member exactly once, in order, and changes nothing *)
Theorem C20_uset_each_visits_each_member_once : forall A (idf : A -> N) (s : list A),
  each_rm idf (fun _ => false) s = (map Some s, s).
Proof. exact each_norm. Qed.

(* Each never invents or resurrects members: what is left is the set minus some removals *)
Theorem C20_uset_each_only_removes : forall A (idf : A -> N) rm (s : list A),
  exists xs, snd (each_rm idf rm s) = fold_left (fun l x => uremove idf x l) xs s.
Proof. exact each_rm_removes. Qed.

(* Each with removal of visited members is exact for sets of at most two members:
   every member visited once, exactly the members to be removed are removed *)
Theorem C20_uset_each_remove_exact_le2 : forall A (idf : A -> N) rm (s : list A),
  (length s <= 2)%nat -> NoDup (map idf s) ->
  each_rm idf rm s = (map Some s, filter (fun x => negb (rm x)) s).
Proof. exact each_rm_le2. Qed.

(* ... and wrong for EVERY set of three or more members when each visited member is removed
   (what the detector's tick does): the second member is skipped.  Defect (a). *)
Theorem C20_uset_each_remove_wrong_ge3 : forall A (idf : A -> N) (s : list A),
  (3 <= length s)%nat -> NoDup (map idf s) ->
  fst (each_rm idf (fun _ => true) s) <> map Some s.
Proof. exact (@each_rm_ge3_wrong). Qed.

Theorem C20_uset_each_remove_refuted :
  exists s : list N, NoDup s /\
    each_rm (fun x => x) (fun _ => true) s = ([Some 1; Some 3; Some 3]%N, [2%N]) /\ s = [1; 2; 3]%N.
Proof. exact each_rm_refuted. Qed.

(* ---------------------------------------------------------------- the detector *)

(* for every sequence of UDP/ICMP knocks, from any number of sources in any interleaving and
   at any times: there is exactly one group per (protocol group, source, destination)
   knocked, and its port list holds exactly the distinct protocol/port pairs knocked for
   it, each once *)
Theorem C20_groups_exact : forall kts,
  Forall (fun kt => k_kind (fst kt) <> KTcp) kts ->
  groups_exact (map fst kts) (d_groups (run_knocks kts det0)).
Proof. exact run_knocks_exact. Qed.

(* the full statement: a burst (all knocks within [0, tmax]) followed by the first tick at
   least 5 s later reports every group exactly once with exactly its ports, and the next
   tick reports nothing *)
Definition C20_full : Prop :=
  forall kts tmax now later,
  Forall (fun kt => k_kind (fst kt) <> KTcp) kts ->
  Forall (fun kt => 0 <= snd kt <= tmax) kts ->
  tmax + 5000 <= now < 60000 ->
  exists gs n,
    groups_exact (map fst kts) gs /\
    run (map (fun kt => DKnock (fst kt) (snd kt)) kts ++ [DTick now; DTick later]) det0
      = Some ([map report_of gs; []], mkDet [] n).

(* it holds whenever at most two groups are due in the same tick ... *)
Theorem C20_scan_reported_once_le2 : forall kts tmax now later,
  Forall (fun kt => k_kind (fst kt) <> KTcp) kts ->
  Forall (fun kt => 0 <= snd kt <= tmax) kts ->
  tmax + 5000 <= now < 60000 ->
  at_most_two_keys (map fst kts) ->
  exists gs n,
    groups_exact (map fst kts) gs /\
    run (map (fun kt => DKnock (fst kt) (snd kt)) kts ++ [DTick now; DTick later]) det0
      = Some ([map report_of gs; []], mkDet [] n).
Proof. exact scan_le2. Qed.

(* ... and fails with three: one UDP probe from each of three sources is reported as
   source 1, source 3, source 3, and source 2 only one tick later.  Defect (a). *)
Theorem C20_scan_reported_once_refuted : ~ C20_full.
Proof. exact scan_full_refuted. Qed.

(* outside the defect: once Each iterates over a copy of the slice
   (fixes/C20-each-iterates-over-copy.patch) the statement holds for any number of groups *)
Theorem C20_scan_reported_once_with_each_over_copy : forall kts tmax now later,
  Forall (fun kt => k_kind (fst kt) <> KTcp) kts ->
  Forall (fun kt => 0 <= snd kt <= tmax) kts ->
  tmax + 5000 <= now < 60000 ->
  exists gs n,
    groups_exact (map fst kts) gs /\
    run_with tick_repaired (map (fun kt => DKnock (fst kt) (snd kt)) kts ++ [DTick now; DTick later]) det0
      = Some ([map report_of gs; []], mkDet [] n).
Proof. exact scan_repaired. Qed.

Theorem C20_three_sources_witness :
  run (map (fun kt => DKnock (fst kt) (snd kt)) wit_kts ++ [DTick 5000; DTick 10000; DTick 15000]) det0
  = Some ([[wit_rep 0; wit_rep 2; wit_rep 2]; [wit_rep 1]; []], mkDet [] 3%N).
Proof. exact wit_run. Qed.

(* although Remove writes nil into the array Each iterates over, no callback ever receives nil:
   the detector goroutine cannot panic in the tick, for any history of knocks and ticks *)
Theorem C20_uset_each_never_visits_nil : forall A (idf : A -> N) rm (s : list A),
  Forall (fun o => o <> None) (fst (each_rm idf rm s)).
Proof. exact each_rm_no_nil. Qed.

Theorem C20_detector_never_panics : forall evs d, run evs d <> None.
Proof. exact run_no_panic. Qed.

(* the tick of a detector without groups reports nothing, however often it fires *)
Theorem C20_idle_ticks_report_nothing : forall nows n,
  run (map DTick nows) (mkDet [] n) = Some (map (fun _ => []) nows, mkDet [] n).
Proof. exact ticks_idle. Qed.

(* ---------------------------------------------------------------- which frames knock *)

(* no path through handleTCP reaches the KnockTCPPort send: whatever the connection state,
   flags and acknowledgment number.  Defect (b): TCP probes are never reported. *)
Theorem C20_tcp_knock_unreachable : forall i, tcp_queues_knock i = false.
Proof. exact tcp_never. Qed.

Theorem C20_tcp_probes_never_reported : forall st ackok ps nows,
  Forall (fun p => p_proto p = 0%N) ps ->
  run (map (fun k => DKnock k 0) (flat_map (knocks_of_probe st ackok) ps) ++ map DTick nows) det0
  = Some (map (fun _ => []) nows, det0).
Proof. exact tcp_probes_silent. Qed.

(* latent defect (c), not observable while (b) stands: the hypothesis "no TCP knock" of
   C20_groups_exact is needed - a UDP group has Protocol 0 = ProtocolTCP, so TCP knocks of the
   same source would join it, and its equality function never matches a TCP knock *)
Theorem C20_mixed_group_would_list_twice :
  map report_of (d_groups (run_knocks wit_mixed det0)) =
  [mkReport (src_mac 0) dst_mac (src_ip 0) dst_ip [(KUdp, 80%N); (KTcp, 80%N); (KTcp, 80%N)]].
Proof. exact mixed_group_lists_twice. Qed.

(* non-vacuity: two sources, interleaved, repeated ports, UDP and ICMP: two reports in the
   first tick with the distinct pairs, nothing afterwards *)
Example C20_nonvacuous :
  let a p := mkKnock KUdp (src_mac 0) dst_mac (src_ip 0) dst_ip p in
  let b := mkKnock KIcmp (src_mac 1) dst_mac (src_ip 1) dst_ip 0%N in
  let kts := [(a 7%N, 0); (b, 1); (a 9%N, 2); (a 7%N, 3); (b, 4)] in
  Forall (fun kt => k_kind (fst kt) <> KTcp) kts /\ at_most_two_keys (map fst kts) /\
  run (map (fun kt => DKnock (fst kt) (snd kt)) kts ++ [DTick 5004; DTick 10004]) det0
  = Some ([[mkReport (src_mac 0) dst_mac (src_ip 0) dst_ip [(KUdp, 7%N); (KUdp, 9%N)];
            mkReport (src_mac 1) dst_mac (src_ip 1) dst_ip [(KIcmp, 0%N)]]; []], mkDet [] 5%N).
Proof.
  cbv zeta. split; [repeat constructor; cbn; discriminate|]. split; [|vm_compute; reflexivity].
  intros x y z Hx Hy Hz. cbn in Hx, Hy, Hz.
  repeat (destruct Hx as [<-|Hx]; [|]); try contradiction;
  repeat (destruct Hy as [<-|Hy]; [|]); try contradiction;
  repeat (destruct Hz as [<-|Hz]; [|]); try contradiction; vm_compute; tauto.
Qed.

Print Assumptions C20_uset_add_returns_representative.
Print Assumptions C20_uset_pairwise_distinct.
Print Assumptions C20_uset_add_count.
Print Assumptions C20_uset_each_visits_each_member_once.
Print Assumptions C20_uset_each_only_removes.
Print Assumptions C20_uset_each_remove_exact_le2.
Print Assumptions C20_uset_each_remove_wrong_ge3.
Print Assumptions C20_uset_each_remove_refuted.
Print Assumptions C20_groups_exact.
Print Assumptions C20_scan_reported_once_le2.
Print Assumptions C20_scan_reported_once_refuted.
Print Assumptions C20_scan_reported_once_with_each_over_copy.
Print Assumptions C20_three_sources_witness.
Print Assumptions C20_uset_each_never_visits_nil.
Print Assumptions C20_detector_never_panics.
Print Assumptions C20_idle_ticks_report_nothing.
Print Assumptions C20_tcp_knock_unreachable.
Print Assumptions C20_tcp_probes_never_reported.
Print Assumptions C20_mixed_group_would_list_twice.
