(* C20 - property theorems: a port scan is reported once, listing exactly the ports probed.
   Model: C20/Model.v (unique-set.go, knock.go, the knockChan sends of canary_linux.go, as
   repaired: Each iterates over a copy; the TCP knock is queued where a SYN is handled; UDP
   groups carry ProtocolUDP). *)
From HT Require Import Common.Bytes C20.Model C20.Proofs.
From Coq Require Import Permutation.
Open Scope Z_scope.

(* ---------------------------------------------------------------- the grouping container *)

(* Add returns the first member equal to the item and leaves the set alone, or appends the
   item when no member is equal *)
Theorem C20_uset_add_returns_representative :
  forall A (eqf : A -> A -> bool) (x : A) (s : list A) (y : A) (s' : list A),
  uadd eqf x s = (y, s') ->
  (In y s /\ eqf x y = true /\ s' = s) \/
  (y = x /\ s' = s ++ [x] /\ forall z, In z s -> eqf x z = false).
Proof. exact uadd_spec. Qed.

(* set semantics for ALL operation sequences (Add / Remove / Each with any removal
   predicate), not only those of length <= 6: no two members are ever equal *)
Theorem C20_uset_pairwise_distinct : forall A (eqf : A -> A -> bool) (idf : A -> N) ops,
  distinct eqf (urun A eqf idf ops).
Proof. exact urun_distinct. Qed.

(* Count grows by one exactly when no member is equal to the added item *)
Theorem C20_uset_add_count : forall A (eqf : A -> A -> bool) (x : A) (s : list A),
  length (snd (uadd eqf x s)) = if existsb (eqf x) s then length s else S (length s).
Proof. exact uadd_count. Qed.

(* Each visits every member exactly once, in order - whatever the callback removes *)
Theorem C20_uset_each_visits_each_member_once : forall A (idf : A -> N) rm (s : list A),
  fst (each_rm idf rm s) = s.
Proof. exact each_rm_visits. Qed.

(* Each never invents or resurrects members: what is left is the set minus the removals *)
Theorem C20_uset_each_only_removes : forall A (idf : A -> N) rm (s : list A),
  snd (each_rm idf rm s) = fold_left (fun l x => uremove idf x l) (filter rm s) s.
Proof. exact each_rm_removes. Qed.

(* Each with removal of visited members is exact for sets of ANY size: every member visited
   once, exactly the members to be removed are removed *)
Theorem C20_uset_each_remove_exact : forall A (idf : A -> N) rm (s : list A),
  NoDup (map idf s) ->
  each_rm idf rm s = (s, filter (fun x => negb (rm x)) s).
Proof. exact each_rm_exact. Qed.

(* ---------------------------------------------------------------- the detector *)

(* for every sequence of knocks - TCP, UDP, ICMP, from any number of sources in any
   interleaving and at any times: there is exactly one group per (protocol, source,
   destination) knocked, and its port list holds exactly the distinct protocol/port pairs
   knocked for it, each once *)
Theorem C20_groups_exact : forall kts,
  groups_exact (map fst kts) (d_groups (run_knocks kts det0)).
Proof. exact run_knocks_exact. Qed.

(* the full statement: a burst (all knocks within [0, tmax]) of any number of simultaneous
   groups, followed by the first tick at least 5 s later, reports every group exactly once
   with exactly its ports, removes it, and the next tick reports nothing *)
Definition C20_full : Prop :=
  forall kts tmax now later,
  Forall (fun kt => 0 <= snd kt <= tmax) kts ->
  tmax + 5000 <= now < 60000 ->
  exists gs n,
    groups_exact (map fst kts) gs /\
    run (map (fun kt => DKnock (fst kt) (snd kt)) kts ++ [DTick now; DTick later]) det0
      = ([map report_of gs; []], mkDet [] n).

Theorem C20_scan_reported_once : C20_full.
Proof. exact scan_full. Qed.

(* reports are per (protocol, source, destination): every port of a group was knocked by the
   group's own source on the group's own destination address - probes of different sensor
   addresses are never merged -, every knock is in the group of its destination, and there is
   one group per key *)
Theorem C20_reports_per_destination : forall ks gs,
  groups_exact ks gs ->
  (forall g pr, In g gs -> In pr (r_ports (report_of g)) ->
     exists k, In k ks /\ port_of k = pr /\ k_dip k = g_dip g /\ k_sip k = g_sip g /\
               k_smac k = g_smac g /\ k_dmac k = g_dmac g /\ proto_of (k_kind k) = proto_of (g_kind g)) /\
  (forall k, In k ks -> exists g, In g gs /\ g_dip g = k_dip k /\ g_sip g = k_sip k /\
               In (port_of k) (r_ports (report_of g))) /\
  (forall g1 g2, In g1 gs -> In g2 gs -> gkey g1 = gkey g2 -> g1 = g2).
Proof. exact groups_per_destination. Qed.

(* the knock queue (capacity cap, blocking send): for EVERY schedule of producer attempts and
   detector receives, the knocks not yet sent, those queued and those received are together
   exactly the knocks of the burst - none lost, none duplicated -, and the queue never exceeds
   its capacity *)
Theorem C20_queue_no_knock_lost : forall cap ks steps,
  let st := q_run cap steps (q_init ks) in
  Permutation (osomes (q_pending st) ++ q_queue st ++ map fst (q_done st)) ks /\
  (length (q_queue st) <= cap)%nat.
Proof. exact q_no_knock_lost. Qed.

(* so, whatever the schedule and however much larger than the queue the burst is: once every
   producer has sent and the queue is drained, the detector has received a permutation of the
   burst and holds exactly one group per (protocol, source, destination) with exactly the
   ports probed *)
Theorem C20_queue_complete_schedule_exact : forall cap ks steps,
  let st := q_run cap steps (q_init ks) in
  q_complete st ->
  Permutation (map fst (q_done st)) ks /\
  groups_exact ks (d_groups (run_knocks (q_done st) det0)).
Proof. exact q_complete_exact. Qed.

(* any tick, any state with distinct group objects: exactly the due groups are reported, once
   each and in order, and exactly the due groups younger than 60 s are removed *)
Theorem C20_tick_reports_due_groups_once : forall now d,
  NoDup (map g_id (d_groups d)) ->
  tick now d = (map report_of (filter (due now) (d_groups d)),
                mkDet (filter (fun g => negb (tick_rm now g)) (d_groups d)) (d_next d)).
Proof. exact tick_general. Qed.

(* the tick of a detector without groups reports nothing, however often it fires *)
Theorem C20_idle_ticks_report_nothing : forall nows n,
  run (map DTick nows) (mkDet [] n) = (map (fun _ => []) nows, mkDet [] n).
Proof. exact ticks_idle. Qed.

(* ---------------------------------------------------------------- which frames knock *)

(* handleTCP queues a knock exactly for a parsable segment to one of our addresses, not on
   port 22, with SYN, that either carries no ACK (a new state is always created - also for a
   4-tuple that already has one - unless the table is full) or finds its state in Listen *)
Theorem C20_tcp_knock_iff : forall i,
  tcp_queues_knock i =
  t_parse_ok i && t_is_me i && negb (t_port22 i) && t_syn i &&
  (if t_ack i then match t_state i with Some SListen => true | _ => false end else t_table_ok i).
Proof. exact tcp_knock_iff. Qed.

(* every connection attempt (SYN without ACK, port other than 22) is a knock, whatever state
   its 4-tuple has *)
Theorem C20_syn_probe_knocks : forall st ackok p,
  p_proto p = 0%N -> flag (p_flags p) 1 = true -> flag (p_flags p) 4 = false -> p_port p <> 22%N ->
  knocks_of_probe st ackok p = [mkKnock KTcp (src_mac (p_src p)) dst_mac (src_ip (p_src p)) (dst_ip_of (p_dst p)) (p_port p)].
Proof. exact syn_probe_knocks. Qed.

(* ---------------------------------------------------------------- from the frame to the knock *)
(* rx_frame = ethernet.Parse, ipv4.Parse, udp.Unmarshal / icmp.Parse / tcp.UnmarshalWithChecksum
   and the guards of the three handlers, byte by byte.  Frames are given by their fields; every
   field not mentioned in a hypothesis is arbitrary. *)

(* every ICMP message of >= 8 bytes (8 = echo request without data), any type/code, to one of
   our addresses is a knock carrying exactly the frame's MAC and IP addresses *)
Theorem C20_icmp_frame_knocks :
  forall me tb d0 d1 d2 d3 d4 d5 m0 m1 m2 m3 m4 m5
         v tos tl1 tl0 id1 id0 fr1 fr0 ttl ck1 ck0 s0 s1 s2 s3 t0 t1 t2 t3 msg trail,
  ((v mod 16) * 4 <= 20 + blen msg)%N ->
  (8 <= blen msg)%N -> (tl1 * 256 + tl0 = 20 + blen msg)%N ->
  In (v32 t0 t1 t2 t3) me ->
  rx_frame me tb (eth_hdr [d0; d1; d2; d3; d4; d5] [m0; m1; m2; m3; m4; m5] ++
                  ip_hdr v tos tl1 tl0 id1 id0 fr1 fr0 ttl 1 ck1 ck0 [s0; s1; s2; s3] [t0; t1; t2; t3] ++
                  msg ++ trail)
  = (FKnock (mkKnock KIcmp (v48 m0 m1 m2 m3 m4 m5) (v48 d0 d1 d2 d3 d4 d5)
                     (v32 s0 s1 s2 s3) (v32 t0 t1 t2 t3) 0), tb).
Proof. exact icmp_frame_knocks. Qed.

(* every UDP datagram with consistent lengths to a port without decoder is a knock with exactly
   the frame's addresses and DESTINATION port - for every source port, checksum and payload *)
Theorem C20_udp_frame_knocks :
  forall me tb d0 d1 d2 d3 d4 d5 m0 m1 m2 m3 m4 m5
         v tos tl1 tl0 id1 id0 fr1 fr0 ttl ck1 ck0 s0 s1 s2 s3 t0 t1 t2 t3
         sp1 sp0 dp1 dp0 ul1 ul0 uc1 uc0 payload trail,
  ((v mod 16) * 4 <= 28 + blen payload)%N ->
  (tl1 * 256 + tl0 = 28 + blen payload)%N -> (ul1 * 256 + ul0 = 8 + blen payload)%N ->
  In (v32 t0 t1 t2 t3) me ->
  ~ In (dp1 * 256 + dp0)%N udp_decoder_ports ->
  rx_frame me tb (eth_hdr [d0; d1; d2; d3; d4; d5] [m0; m1; m2; m3; m4; m5] ++
                  ip_hdr v tos tl1 tl0 id1 id0 fr1 fr0 ttl 17 ck1 ck0 [s0; s1; s2; s3] [t0; t1; t2; t3] ++
                  ([sp1; sp0; dp1; dp0; ul1; ul0; uc1; uc0] ++ payload) ++ trail)
  = (FKnock (mkKnock KUdp (v48 m0 m1 m2 m3 m4 m5) (v48 d0 d1 d2 d3 d4 d5)
                     (v32 s0 s1 s2 s3) (v32 t0 t1 t2 t3) (dp1 * 256 + dp0)%N), tb).
Proof. exact udp_frame_knocks. Qed.

(* every TCP segment without options carrying SYN and not ACK, neither port 22, is a knock with
   the frame's addresses and destination port - for every other flag, sequence number,
   checksum (valid or not), payload, and whatever records the state table holds *)
Theorem C20_tcp_syn_frame_knocks :
  forall me tb d0 d1 d2 d3 d4 d5 m0 m1 m2 m3 m4 m5
         v tos tl1 tl0 id1 id0 fr1 fr0 ttl ck1 ck0 s0 s1 s2 s3 t0 t1 t2 t3
         sp1 sp0 dp1 dp0 q0 q1 q2 q3 a0 a1 a2 a3 off fl w1 w0 c1 c0 u1 u0 payload trail,
  ((v mod 16) * 4 <= 40 + blen payload)%N ->
  (tl1 * 256 + tl0 = 40 + blen payload)%N ->
  (off / 16 = 5)%N -> flag (fl mod 64) 1 = true -> flag (fl mod 64) 4 = false ->
  (sp1 * 256 + sp0 <> 22)%N -> (dp1 * 256 + dp0 <> 22)%N ->
  In (v32 t0 t1 t2 t3) me ->
  rx_frame me tb (eth_hdr [d0; d1; d2; d3; d4; d5] [m0; m1; m2; m3; m4; m5] ++
                  ip_hdr v tos tl1 tl0 id1 id0 fr1 fr0 ttl 6 ck1 ck0 [s0; s1; s2; s3] [t0; t1; t2; t3] ++
                  ([sp1; sp0; dp1; dp0; q0; q1; q2; q3; a0; a1; a2; a3; off; fl; w1; w0; c1; c0; u1; u0]
                   ++ payload) ++ trail)
  = (FKnock (mkKnock KTcp (v48 m0 m1 m2 m3 m4 m5) (v48 d0 d1 d2 d3 d4 d5)
                     (v32 s0 s1 s2 s3) (v32 t0 t1 t2 t3) (dp1 * 256 + dp0)%N),
     tb ++ [((v32 s0 s1 s2 s3, v32 t0 t1 t2 t3, sp1 * 256 + sp0, dp1 * 256 + dp0)%N, SSynReceived)]).
Proof. exact tcp_syn_frame_knocks. Qed.

(* conversely, for EVERY byte string and state table: a knock is queued only for an IPv4 frame
   whose total length covers the transport header and lies inside the frame, addressed to us;
   its fields are the bytes at the fixed offsets (MACs 6/0, addresses 26/30, destination port
   36); UDP: length field consistent, port without decoder; TCP: SYN set, neither port 22 *)
Theorem C20_frame_knock_sound : forall me tb f k tb',
  rx_frame me tb f = (FKnock k, tb') -> frame_fields_ok me f k.
Proof. exact rx_frame_sound. Qed.

(* ---------------------------------------------------------------- non-vacuity / former witnesses *)

(* three sources at once (reported as 1, 3, 3 and 2 a tick late before the repair) *)
Example C20_three_sources :
  run (map (fun kt => DKnock (fst kt) (snd kt)) wit_kts ++ [DTick 5000; DTick 10000; DTick 15000]) det0
  = ([[wit_rep 0; wit_rep 1; wit_rep 2]; []; []], mkDet [] 3%N).
Proof. exact wit_run. Qed.

(* UDP and TCP knocks of one source interleaved, repeated ports: two groups, no port twice *)
Example C20_mixed_tcp_udp :
  run (map (fun kt => DKnock (fst kt) (snd kt)) wit_mixed ++ [DTick 5004; DTick 10004]) det0
  = ([[mkReport (src_mac 0) dst_mac (src_ip 0) dst_ip [(KUdp, 80%N)];
       mkReport (src_mac 0) dst_mac (src_ip 0) dst_ip [(KTcp, 80%N); (KTcp, 443%N)]]; []], mkDet [] 5%N).
Proof. exact wit_mixed_run. Qed.

Example C20_each_remove_three :
  each_rm (fun x : N => x) (fun _ => true) [1; 2; 3]%N = ([1; 2; 3]%N, []).
Proof. exact each_rm_three. Qed.

Print Assumptions C20_uset_add_returns_representative.
Print Assumptions C20_uset_pairwise_distinct.
Print Assumptions C20_uset_add_count.
Print Assumptions C20_uset_each_visits_each_member_once.
Print Assumptions C20_uset_each_only_removes.
Print Assumptions C20_uset_each_remove_exact.
Print Assumptions C20_groups_exact.
Print Assumptions C20_scan_reported_once.
Print Assumptions C20_reports_per_destination.
Print Assumptions C20_queue_no_knock_lost.
Print Assumptions C20_queue_complete_schedule_exact.
Print Assumptions C20_tick_reports_due_groups_once.
Print Assumptions C20_idle_ticks_report_nothing.
Print Assumptions C20_tcp_knock_iff.
Print Assumptions C20_syn_probe_knocks.
Print Assumptions C20_icmp_frame_knocks.
Print Assumptions C20_udp_frame_knocks.
Print Assumptions C20_tcp_syn_frame_knocks.
Print Assumptions C20_frame_knock_sound.
