(* C20 - executable checkers over the implementation's observations.
   Module U: canary.UniqueSet, every operation sequence (observation trees).
   Module S: portscan events per detector tick for a burst of probes. *)
From Coq Require Import Uint63.
From HT Require Import Common.Bytes C20.Model.
Open Scope N_scope.

Fixpoint list_eqb {A} (e : A -> A -> bool) (a b : list A) : bool :=
  match a, b with
  | [], [] => true
  | x :: a', y :: b' => e x y && list_eqb e a' b'
  | _, _ => false
  end.

Fixpoint nodup_n (l : list N) : list N :=
  match l with
  | [] => []
  | x :: r => if existsb (N.eqb x) r then nodup_n r else x :: nodup_n r
  end.

(* ================================================================ U *)
Module U.

(* observation tree: the packed observation of a sequence and, per next operation (in
   operation order), the subtree of the extended sequence *)
Inductive otree := T (o : Uint63.int) (ch : list otree).
Arguments T o%uint63 ch%list.

Record ucase := mkU { u_id : N; u_nops : N; u_prefix : list N; u_tree : otree }.

(* elements: (key, id); the set's equality is on keys, identity is the id *)
Definition elt := (N * N)%type.
Definition ekey (e : elt) : N := fst e.
Definition eid (e : elt) : N := snd e.
Definition eeq (a b : elt) : bool := ekey a =? ekey b.

Definition code_ids (l : list N) : N := fold_left (fun acc d => acc * 8 + d) l 0.

Definition rm_of (op : N) : elt -> bool :=
  if op =? 6 then (fun _ => true) else (fun e => ekey e =? op - 7).

(* the model: one operation (op code, position = id of a new element) *)
Definition mstep (op pos : N) (s : list elt) : N * list elt :=
  if op <? 3 then let '(y, s') := uadd eeq (op, pos) s in (eid y, s')
  else if op <? 6 then
    match find (fun e => ekey e =? op - 3) s with
    | Some x => (0, uremove eid x s)
    | None => (0, uremove eid (op - 3, 0) s)
    end
  else
    let '(vis, s') := each_rm eid (rm_of op) s in
    (code_ids (map eid vis), s').

Definition obs_of (res : N) (s : list elt) : N :=
  res * 2097152 + N.of_nat (length s) * 262144 + code_ids (map eid s).

Fixpoint mrun (ops : list N) (pos : N) (s : list elt) (last : N) : N * list elt :=
  match ops with
  | [] => (last, s)
  | op :: r => let '(res, s') := mstep op pos s in mrun r (pos + 1) s' res
  end.

(* ---- decoding of an observation ---- *)
Fixpoint digits (fuel : nat) (c : N) (acc : list N) : list N :=
  match fuel with
  | O => acc
  | S f => if c =? 0 then acc else digits f (c / 8) (c mod 8 :: acc)
  end.
Definition o_state (o : N) : list N := digits 8 (o mod 262144) [].
Definition o_count (o : N) : N := (o / 262144) mod 8.
Definition o_result (o : N) : N := o / 2097152.

(* key of the element created by the id-th operation of the path *)
Definition key_of_id (path : list N) (id : N) : N :=
  if id =? 0 then 9 else
  match nth_error path (N.to_nat (id - 1)) with
  | Some op => if op <? 3 then op else 9
  | None => 9
  end.

(* ---- the specification: a set of keys with one representative each ---- *)
Definition spec_step (op pos : N) (s : list elt) : list N * list elt :=
  if op <? 3 then
    match find (fun e => ekey e =? op) s with
    | Some y => ([eid y], s)
    | None => ([pos], s ++ [(op, pos)])
    end
  else if op <? 6 then
    ([], match find (fun e => ekey e =? op - 3) s with
         | Some y => filter (fun e => negb (eid e =? eid y)) s
         | None => s
         end)
  else (map eid s, filter (fun e => negb (rm_of op e)) s).

Definition SIG_ADD_REP := 1.        (* Add did not return the representative / the new item *)
Definition SIG_COUNT := 2.          (* Count() differs from the number of members *)
Definition SIG_MEMBERS := 3.        (* members after Add/Remove are not the set's *)
Definition SIG_EACH_VISIT := 4.     (* Each with removal over >= 3 members does not visit each member once (former defect a) *)
Definition SIG_EACH_LEFT := 5.      (* ... and does not leave exactly the members not removed *)
Definition SIG_EACH_VISIT_SMALL := 6. (* the same with <= 2 members *)
Definition SIG_EACH_LEFT_SMALL := 7.
Definition C_MISMATCH := 100.
Definition C_MALFORMED := 101.

Definition judge (path : list N) (po : N) (op : N) (co : N) : list N :=
  let pre := map (fun id => (key_of_id path id, id)) (o_state po) in
  let pos := N.of_nat (length path) + 1 in
  let '(eres, epost) := spec_step op pos pre in
  let big := 3 <=? N.of_nat (length pre) in
  let st_ok := list_eqb N.eqb (o_state co) (map eid epost) in
  let res_ok := o_result co =? code_ids eres in
  (if o_count co =? N.of_nat (length (o_state co)) then [] else [SIG_COUNT]) ++
  (if op <? 3 then (if res_ok then [] else [SIG_ADD_REP]) ++ (if st_ok then [] else [SIG_MEMBERS])
   else if op <? 6 then (if st_ok then [] else [SIG_MEMBERS])
   else (if res_ok then [] else [if big then SIG_EACH_VISIT else SIG_EACH_VISIT_SMALL]) ++
        (if st_ok then [] else [if big then SIG_EACH_LEFT else SIG_EACH_LEFT_SMALL])).

Definition t_obs (t : otree) : N := match t with T o _ => Z.to_N (Uint63.to_Z o) end.

Fixpoint walk (nops : N) (path : list N) (ms : list elt) (t : otree) {struct t} : list N :=
  match t with
  | T o63 ch =>
      let o := Z.to_N (Uint63.to_Z o63) in
      (match ch with
       | [] => []
       | _ => if N.of_nat (length ch) =? nops then [] else [C_MALFORMED]
       end) ++
      (fix go (j : N) (cs : list otree) {struct cs} : list N :=
         match cs with
         | [] => []
         | c :: r =>
             let pos := N.of_nat (length path) + 1 in
             let '(res, ms') := mstep j pos ms in
             (if t_obs c =? obs_of res ms' then [] else [C_MISMATCH]) ++
             judge path o j (t_obs c) ++
             walk nops (path ++ [j]) ms' c ++ go (j + 1) r
         end) 0 ch
  end.

Definition case_codes (c : ucase) : list N :=
  let '(res, ms) := mrun (u_prefix c) 1 [] 0 in
  nodup_n ((if t_obs (u_tree c) =? obs_of res ms then [] else [C_MISMATCH]) ++
           walk (u_nops c) (u_prefix c) ms (u_tree c)).

Definition mismatches (cs : list ucase) : list N :=
  map u_id (filter (fun c => existsb (fun x => 100 <=? x) (case_codes c)) cs).

Definition violations (cs : list ucase) : list (N * N) :=
  flat_map (fun c => map (fun s => (u_id c, s)) (filter (fun x => x <? 100) (case_codes c))) cs.

Definition tags (cs : list ucase) : list (N * N) :=
  map (fun c => (u_id c, match u_tree c with T _ [] => 0 | _ => 1 + N.of_nat (length (u_prefix c)) end)) cs.

End U.

(* ================================================================ S *)
Module S.

(* ports: (0 tcp | 1 udp | 2 icmp | 3 unparsable text, port) *)
Record ev := E { e_smac : N; e_dmac : N; e_sip : N; e_dip : N; e_ports : list (N * N) }.

Record scase := mkS { s_id : N; s_live : bool; s_probes : list probe; s_ticks : list (list ev) }.

Definition kind_code (k : kind) : N := match k with KTcp => 0 | KUdp => 1 | KIcmp => 2 end.
Definition pair_eqb (a b : N * N) : bool := (fst a =? fst b) && (snd a =? snd b).

Definition ev_of_report (r : report) : ev :=
  E (r_smac r) (r_dmac r) (r_sip r) (r_dip r) (map (fun p => (kind_code (fst p), snd p)) (r_ports r)).

Definition ev_eqb (a b : ev) : bool :=
  (e_smac a =? e_smac b) && (e_dmac a =? e_dmac b) && (e_sip a =? e_sip b) && (e_dip a =? e_dip b) &&
  list_eqb pair_eqb (e_ports a) (e_ports b).

(* the model's prediction: all knocks of the burst, then ticks every 5 s *)
Definition tick_times (n : nat) : list Z := map (fun i => (5000 * Z.of_nat (S i))%Z) (seq 0 n).

Definition model_events (c : scase) : list devent :=
  map (fun k => DKnock k 0%Z) (flat_map (knocks_of_probe None false) (s_probes c)) ++
  map DTick (tick_times (length (s_ticks c))).

(* the observation lists the report rounds that produced events, in order (a tick that reports
   nothing is invisible), padded with empty rounds *)
Definition nonempty {A} (l : list A) : bool := match l with [] => false | _ => true end.
Definition compact (n : nat) (l : list (list ev)) : list (list ev) :=
  firstn n (filter nonempty l ++ repeat [] n).

Definition model_obs (c : scase) : option (list (list ev)) :=
  Some (compact (length (s_ticks c)) (map (map ev_of_report) (fst (run (model_events c) det0)))).

Fixpoint nodup_p (l : list (N * N)) : list (N * N) :=
  match l with
  | [] => []
  | x :: r => if existsb (pair_eqb x) r then nodup_p r else x :: nodup_p r
  end.

(* live cases (frames through the real receive loop): the UDP handler goroutines race, so
   events and ports are compared up to order *)
Fixpoint insert_by {A} (key : A -> N) (x : A) (l : list A) : list A :=
  match l with
  | [] => [x]
  | y :: r => if key x <=? key y then x :: l else y :: insert_by key x r
  end.
Definition sort_by {A} (key : A -> N) (l : list A) : list A := fold_right (insert_by key) [] l.

Definition pair_key (p : N * N) : N := fst p * 65536 + snd p.
Definition ev_key (e : ev) : N :=
  ((e_sip e * 4294967296 + e_dip e) * 281474976710656 + e_smac e) * 4
  + match e_ports e with p :: _ => fst p | [] => 3 end.
Definition canon_ev (e : ev) : ev :=
  E (e_smac e) (e_dmac e) (e_sip e) (e_dip e) (sort_by pair_key (e_ports e)).
Definition canon (t : list ev) : list ev := sort_by ev_key (map canon_ev t).

Definition ngroups (c : scase) : nat :=
  length (nodup_p (map (fun k => (k_sip k * 4294967296 + k_dip k, proto_of (k_kind k)))
                       (flat_map (knocks_of_probe None false) (s_probes c)))).

Definition mismatches (cs : list scase) : list N :=
  map s_id (filter (fun c =>
    match model_obs c with
    | Some m =>
        if s_live c then
          negb (list_eqb (list_eqb ev_eqb) (map canon m) (map canon (s_ticks c)))
        else negb (list_eqb (list_eqb ev_eqb) m (s_ticks c))
    | None => true
    end) cs).

(* ---- the property, evaluated on the observed events ---- *)
Definition SIG_TCP_NEVER := 1.   (* a TCP port probed with SYN is in no portscan event (former defect b) *)
Definition SIG_TWICE := 2.       (* a pair of one source is listed more than once, >= 3 groups due (former defect a) *)
Definition SIG_LATE := 3.        (* a pair is missing from the first tick and listed later, >= 3 groups due (former defect a) *)
Definition SIG_MISSING := 4.     (* a UDP/ICMP pair probed is in no portscan event *)
Definition SIG_SPURIOUS := 5.    (* a listed pair was not probed by that source, or unknown source *)
Definition SIG_TWICE_LE2 := 6.   (* as 2 / 3, although at most two groups were due in the tick *)
Definition SIG_LATE_LE2 := 7.

(* what a probe is expected to be listed as; TCP port 22 is deliberately ignored by the
   listener, a SYN|ACK is not a connection attempt, UDP ports with a decoder are outside the
   property *)
Definition expected_pair (p : probe) : option (N * N) :=
  match p_proto p with
  | 0 => if (p_port p =? 22) || negb (flag (p_flags p) 1) || flag (p_flags p) 4
         then None else Some (0, p_port p)   (* a connection attempt: SYN without ACK *)
  | 1 => if existsb (N.eqb (p_port p)) udp_decoder_ports then None else Some (1, p_port p)
  | _ => Some (2, 0)
  end.

Fixpoint opts {A} (l : list (option A)) : list A :=
  match l with [] => [] | Some x :: r => x :: opts r | None :: r => opts r end.

(* everything is judged per (source, destination): sd = (source index, sensor address index) *)
Definition expected_of (sd : N * N) (ps : list probe) : list (N * N) :=
  nodup_p (opts (map expected_pair
                     (filter (fun p => (p_src p =? fst sd) && (p_dst p =? snd sd)) ps))).

Definition from_src (sd : N * N) (e : ev) : bool :=
  (e_smac e =? src_mac (fst sd)) && (e_sip e =? src_ip (fst sd)) &&
  (e_dmac e =? dst_mac) && (e_dip e =? dst_ip_of (snd sd)).

Definition listed (sd : N * N) (evs : list ev) : list (N * N) :=
  flat_map e_ports (filter (from_src sd) evs).

Definition count_p (x : N * N) (l : list (N * N)) : nat := length (filter (pair_eqb x) l).

(* sigs of one (source, destination) given all events and those of the tick in which the
   report is due *)
Definition sd_sigs (big : bool) (ps : list probe) (all first : list ev) (sd : N * N) : list N :=
  let ex := expected_of sd ps in
  let la := listed sd all in
  let lf := listed sd first in
  let inl x l := existsb (pair_eqb x) l in
  (if existsb (fun x => (fst x =? 0) && negb (inl x la)) ex then [SIG_TCP_NEVER] else []) ++
  (if existsb (fun x => negb (fst x =? 0) && negb (inl x la)) ex then [SIG_MISSING] else []) ++
  (if existsb (fun x => Nat.ltb 1 (count_p x la)) la then [if big then SIG_TWICE else SIG_TWICE_LE2] else []) ++
  (if existsb (fun x => inl x la && negb (inl x lf)) ex then [if big then SIG_LATE else SIG_LATE_LE2] else []) ++
  (if existsb (fun x => negb (inl x ex)) la then [SIG_SPURIOUS] else []).

(* the (source, destination) pairs probed, and - for spurious events - every pair of a known
   source with a sensor address *)
Definition sds_of (ps : list probe) : list (N * N) := nodup_p (map (fun p => (p_src p, p_dst p)) ps).
Definition all_dsts : list N := [0; 1; 2].
Definition sds_all (ps : list probe) : list (N * N) :=
  flat_map (fun s => map (fun d => (s, d)) all_dsts) (nodup_n (map p_src ps)).

Definition case_sigs (c : scase) : list N :=
  let all := concat (s_ticks c) in
  nodup_n (flat_map (sd_sigs (Nat.leb 3 (ngroups c)) (s_probes c) all (hd [] (s_ticks c))) (sds_all (s_probes c)) ++
           (if existsb (fun e => negb (existsb (fun sd => from_src sd e) (sds_all (s_probes c)))) all
            then [SIG_SPURIOUS] else [])).

Definition violations (cs : list scase) : list (N * N) :=
  flat_map (fun c => map (fun s => (s_id c, s)) (case_sigs c)) cs.

(* tag: 1 / 2 = one / two protocol groups knocked, 3 = three or more (several groups due in
   one tick), 4 = probes but no knock (port 22 / SYN|ACK only), 0 = nothing sent *)
Definition tags (cs : list scase) : list (N * N) :=
  map (fun c => (s_id c,
    match s_probes c with
    | [] => 0
    | _ => match ngroups c with O => 4 | 1%nat => 1 | 2%nat => 2 | _ => 3 end
    end)) cs.

End S.

(* ================================================================ F *)
(* raw frames: the model decodes every frame byte by byte (rx_frames) and feeds the knocks to
   the detector model; the property is judged with a decoder-independent reading of the frame
   at fixed offsets (Ethernet II, IPv4 without options) *)
Module F.
Import S.

Record fcase := mkF { f_id : N; f_me : list N; f_frames : list bytes; f_ticks : list (list ev) }.

Fixpoint knocks_of (os : list fout) : list knock :=
  match os with
  | [] => []
  | FKnock k :: r => k :: knocks_of r
  | _ :: r => knocks_of r
  end.

Definition untracked (o : fout) : bool := match o with FPanic | FUnknown => true | _ => false end.

Definition model_ticks (c : fcase) : list (list ev) :=
  let ks := knocks_of (rx_frames (f_me c) [] (f_frames c)) in
  compact (length (f_ticks c)) (map (map ev_of_report)
      (fst (run (map (fun k => DKnock k 0%Z) ks ++ map DTick (tick_times (length (f_ticks c)))) det0))).

(* the UDP handler goroutines race: events and ports are compared up to order *)
Definition ev_key2 (e : ev) : N :=
  (((e_sip e * 4294967296 + e_dip e) * 281474976710656 + e_smac e) * 281474976710656 + e_dmac e) * 4
  + match e_ports e with p :: _ => fst p | [] => 3 end.
Definition canon2 (t : list ev) : list ev := sort_by ev_key2 (map canon_ev t).

Definition mismatches (cs : list fcase) : list N :=
  map f_id (filter (fun c =>
    existsb untracked (rx_frames (f_me c) [] (f_frames c)) ||
    negb (list_eqb (list_eqb ev_eqb) (map canon2 (model_ticks c)) (map canon2 (f_ticks c)))) cs).

(* ---- the property on the observed events ---- *)
Definition SIG_FRAME_MISSING := 8.    (* a well-formed probe frame is in no portscan event of its source *)
Definition SIG_FRAME_TWICE := 9.      (* a pair is listed more than once for one source *)
Definition SIG_FRAME_SPURIOUS := 10.  (* a listed pair corresponds to no frame of that source *)
Definition SIG_FRAME_LATE := 11.      (* listed, but not in the first tick after the burst *)

(* (smac, dmac, sip, dip) and the pair a frame must be listed as, when it is without doubt a
   probe: Ethernet II / IPv4, version 4, no IP options, complete, to one of our addresses;
   UDP with consistent length to a port without decoder; any ICMP message of >= 8 bytes; TCP
   with a well-formed option area (none, or e.g. the MSS-only SYN of nmap, the option sets of
   the Linux / Windows / macOS stacks), SYN and no ACK, neither port 22, any checksum *)
(* TCP options as RFC 793 lays them out: end-of-list, no-op, or kind/length/value with the
   length covering kind and length bytes and staying inside the option area *)
Fixpoint opts_wf (fuel : nat) (o : bytes) : bool :=
  match fuel, o with
  | O, _ => true
  | _, [] => true
  | S f, k :: r =>
      if k =? 0 then true
      else if k =? 1 then opts_wf f r
      else match r with
           | [] => false
           | l :: _ => (2 <=? l) && (l <=? blen o) && opts_wf f (skipn (N.to_nat l) o)
           end
  end.

Definition spec_probe (me : list N) (f : bytes) : option ((N * N * N * N) * (N * N)) :=
  if blen f <? 34 then None
  else if negb (u16 f 12 =? 2048) then None
  else if negb (u8 f 14 =? 69) then None
  else
    let tl := u16 f 16 in
    if (tl <? 20) || (blen f <? 14 + tl) then None
    else if negb (existsb (N.eqb (be32 f 30)) me) then None
    else
      let l4 := tl - 20 in
      let src := (be48 f 6, be48 f 0, be32 f 26, be32 f 30) in
      match u8 f 23 with
      | 17 => if (8 <=? l4) && (u16 f 38 =? l4) && negb (existsb (N.eqb (u16 f 36)) udp_decoder_ports)
              then Some (src, (1, u16 f 36)) else None
      | 1 => if 8 <=? l4 then Some (src, (2, 0)) else None
      | 6 => let off := u8 f 46 / 16 in
             if (20 <=? l4) && (5 <=? off) && (off * 4 <=? l4) &&
                opts_wf 64 (firstn (N.to_nat (off * 4 - 20)) (skipn 54 f)) &&
                flag (u8 f 47) 1 && negb (flag (u8 f 47) 4) &&
                negb (u16 f 34 =? 22) && negb (u16 f 36 =? 22)
             then Some (src, (0, u16 f 36)) else None
      | _ => None
      end.

Definition src_eqb (a b : N * N * N * N) : bool :=
  let '(a1, a2, a3, a4) := a in let '(b1, b2, b3, b4) := b in
  (a1 =? b1) && (a2 =? b2) && (a3 =? b3) && (a4 =? b4).
Definition ev_src (e : ev) : N * N * N * N := (e_smac e, e_dmac e, e_sip e, e_dip e).

Definition listed_for (src : N * N * N * N) (evs : list ev) : list (N * N) :=
  flat_map e_ports (filter (fun e => src_eqb (ev_src e) src) evs).

(* could the frame be the origin of the listed pair at all? *)
Definition frame_matches (e : ev) (p : N * N) (f : bytes) : bool :=
  (34 <=? blen f) && src_eqb (be48 f 6, be48 f 0, be32 f 26, be32 f 30) (ev_src e) &&
  match fst p with
  | 0 => (u8 f 23 =? 6) && (u16 f 36 =? snd p)
  | 1 => (u8 f 23 =? 17) && (u16 f 36 =? snd p)
  | 2 => (u8 f 23 =? 1) && (snd p =? 0)
  | _ => false
  end.

Definition case_sigs (c : fcase) : list N :=
  let all := concat (f_ticks c) in
  let first := hd [] (f_ticks c) in
  let inl x l := existsb (pair_eqb x) l in
  let probes := opts (map (spec_probe (f_me c)) (f_frames c)) in
  nodup_n (
    flat_map (fun sp => let '(src, p) := sp in
      if negb (inl p (listed_for src all)) then [SIG_FRAME_MISSING]
      else (if inl p (listed_for src first) then [] else [SIG_FRAME_LATE]) ++
           (if Nat.ltb 1 (count_p p (listed_for src all)) then [SIG_FRAME_TWICE] else [])) probes ++
    flat_map (fun e => flat_map (fun p =>
      if existsb (frame_matches e p) (f_frames c) then [] else [SIG_FRAME_SPURIOUS]) (e_ports e)) all).

Definition violations (cs : list fcase) : list (N * N) :=
  flat_map (fun c => map (fun s => (f_id c, s)) (case_sigs c)) cs.

(* tag: 1 + number of knocking frames (capped) *)
Definition tags (cs : list fcase) : list (N * N) :=
  map (fun c => (f_id c, match f_frames c with [] => 0 | _ =>
     1 + N.min 200 (N.of_nat (length (knocks_of (rx_frames (f_me c) [] (f_frames c))))) end)) cs.

End F.

(* ================================================================ Q *)
(* bursts larger than the knock queue while the detector is held inside events.Send of an
   earlier group's report (a slow pusher): first the gate probes, the tick that reports them
   (the detector blocks there), then the burst, then the detector is released *)
Module Q.
Import S.

Record qcase := mkQC {
  qc_id : N;
  qc_cap : N;                    (* capacity of knockChan *)
  qc_gate : list probe;          (* probes whose report the detector is held in *)
  qc_burst : list probe;
  qc_blocked : N;                (* producers found blocked in their send once all had run *)
  qc_pre : list ev;              (* events delivered up to the release *)
  qc_ticks : list (list ev) }.   (* events of the ticks after the burst *)

Definition knocks_of_probes (ps : list probe) : list knock := flat_map (knocks_of_probe None false) ps.

(* the model: every knock of the burst reaches the detector (blocking send), in some order *)
Definition model_ticks (c : qcase) : list (list ev) :=
  let evs := map (fun k => DKnock k 0%Z) (knocks_of_probes (qc_gate c)) ++ [DTick 5000%Z] ++
             map (fun k => DKnock k 5000%Z) (knocks_of_probes (qc_burst c)) ++
             map (fun i => DTick (5000 * Z.of_nat (S (S i)))%Z) (seq 0 (length (qc_ticks c))) in
  match map (map ev_of_report) (fst (run evs det0)) with
  | pre :: rest => pre :: compact (length (qc_ticks c)) rest
  | [] => []
  end.

(* with the consumer stopped and every producer scheduled, exactly the knocks beyond the
   capacity are blocked (q_step: a send completes iff the queue has room) *)
Definition model_blocked (c : qcase) : N :=
  let st := q_run (N.to_nat (qc_cap c))
                  (map QSend (seq 0 (length (knocks_of_probes (qc_burst c)))))
                  (q_init (knocks_of_probes (qc_burst c))) in
  N.of_nat (length (osomes (q_pending st))).

Definition ev_key3 (e : ev) : N :=
  ((e_sip e * 4294967296 + e_dip e) * 281474976710656 + e_smac e) * 4
  + match e_ports e with p :: _ => fst p | [] => 3 end.
Definition canon3 (t : list ev) : list ev := sort_by ev_key3 (map canon_ev t).

Definition mismatches (cs : list qcase) : list N :=
  map qc_id (filter (fun c =>
    negb (qc_blocked c =? model_blocked c) ||
    negb (list_eqb (list_eqb ev_eqb) (map canon3 (model_ticks c)) (map canon3 (qc_pre c :: qc_ticks c)))) cs).

Definition SIG_Q_LOST := 12.      (* a probe sent while the queue was full is in no portscan event *)
Definition SIG_Q_TWICE := 13.
Definition SIG_Q_LATE := 14.
Definition SIG_Q_SPURIOUS := 15.
Definition SIG_Q_GATE := 16.      (* the gate group itself is not reported exactly once *)

Definition remap (s : N) : N :=
  if (s =? SIG_TCP_NEVER) || (s =? SIG_MISSING) then SIG_Q_LOST
  else if (s =? SIG_TWICE) || (s =? SIG_TWICE_LE2) then SIG_Q_TWICE
  else if (s =? SIG_LATE) || (s =? SIG_LATE_LE2) then SIG_Q_LATE
  else SIG_Q_SPURIOUS.

Definition case_sigs (c : qcase) : list N :=
  let all := qc_pre c ++ concat (qc_ticks c) in
  let ps := qc_gate c ++ qc_burst c in
  nodup_n (
    (* the gate's own (source, destination) pairs are due before the release *)
    map (fun _ => SIG_Q_GATE)
        (flat_map (sd_sigs false (qc_gate c) (qc_pre c) (qc_pre c)) (sds_of (qc_gate c))) ++
    (* the burst's in the first tick after it *)
    map remap (flat_map (sd_sigs true (qc_burst c) (concat (qc_ticks c)) (hd [] (qc_ticks c)))
                        (sds_of (qc_burst c))) ++
    (if existsb (fun e => negb (existsb (fun sd => from_src sd e) (sds_all ps))) all
     then [SIG_Q_SPURIOUS] else [])).

Definition violations (cs : list qcase) : list (N * N) :=
  flat_map (fun c => map (fun s => (qc_id c, s)) (case_sigs c)) cs.

(* tag: 1 = burst fits the queue, 2 = larger than the queue *)
Definition tags (cs : list qcase) : list (N * N) :=
  map (fun c => (qc_id c,
    if qc_cap c <? N.of_nat (length (knocks_of_probes (qc_burst c))) then 2 else 1)) cs.

End Q.

(* ================================================================ W *)
(* several report windows: burst, wait for its report, next burst (same source addresses and
   ports again), ...  The connection records of earlier windows are still in the state table
   (rx_frames threads the table through all windows); every burst must be reported in its own
   round. *)
Module W.
Import S.

Record wcase := mkW {
  w_id : N; w_me : list N;
  w_windows : list (list bytes);        (* the frames of each burst *)
  w_rounds : list (list ev) }.          (* the report round after each burst, then one more *)

Fixpoint rx_windows (me : list N) (tb : ttable) (ws : list (list bytes)) : list (list knock) :=
  match ws with
  | [] => []
  | w :: r =>
      let step := fix step (tb : ttable) (fs : list bytes) : list knock * ttable :=
        match fs with
        | [] => ([], tb)
        | f :: fr => let '(o, tb') := rx_frame me tb f in
                     let '(ks, tb'') := step tb' fr in
                     (match o with FKnock k => k :: ks | _ => ks end, tb'')
        end in
      let '(ks, tb') := step tb w in ks :: rx_windows me tb' r
  end.

(* window i: knocks at 6000*i ms, its tick at 6000*i + 5000; one more tick at the end *)
Fixpoint window_events (i : nat) (kss : list (list knock)) : list devent :=
  match kss with
  | [] => [DTick (6000 * Z.of_nat i + 5000)%Z]
  | ks :: r => map (fun k => DKnock k (6000 * Z.of_nat i)%Z) ks ++
               [DTick (6000 * Z.of_nat i + 5000)%Z] ++ window_events (S i) r
  end.

Definition model_rounds (c : wcase) : list (list ev) :=
  map (map ev_of_report) (fst (run (window_events 0 (rx_windows (w_me c) [] (w_windows c))) det0)).

Definition untracked_w (c : wcase) : bool :=
  existsb F.untracked (rx_frames (w_me c) [] (concat (w_windows c))).

Definition mismatches (cs : list wcase) : list N :=
  map w_id (filter (fun c =>
    untracked_w c ||
    negb (list_eqb (list_eqb ev_eqb) (map F.canon2 (model_rounds c)) (map F.canon2 (w_rounds c)))) cs).

Definition SIG_W_MISSING := 17.   (* a probe of a burst is not in the report round of that burst *)
Definition SIG_W_TWICE := 18.
Definition SIG_W_SPURIOUS := 19.  (* a pair listed in a round matches no frame of that burst *)
Definition SIG_W_EXTRA := 20.     (* events after the round of the last burst *)

Fixpoint window_sigs (me : list N) (ws : list (list bytes)) (rs : list (list ev)) : list N :=
  match ws, rs with
  | w :: wr, r :: rr =>
      let inl x l := existsb (pair_eqb x) l in
      flat_map (fun sp => let '(src, p) := sp in
        if negb (inl p (F.listed_for src r)) then [SIG_W_MISSING]
        else if Nat.ltb 1 (count_p p (F.listed_for src r)) then [SIG_W_TWICE] else [])
        (opts (map (F.spec_probe me) w)) ++
      flat_map (fun e => flat_map (fun p =>
        if existsb (F.frame_matches e p) w then [] else [SIG_W_SPURIOUS]) (e_ports e)) r ++
      window_sigs me wr rr
  | [], r :: rr => if existsb nonempty (r :: rr) then [SIG_W_EXTRA] else []
  | _, [] => []
  end.

Definition case_sigs (c : wcase) : list N := nodup_n (window_sigs (w_me c) (w_windows c) (w_rounds c)).

Definition violations (cs : list wcase) : list (N * N) :=
  flat_map (fun c => map (fun s => (w_id c, s)) (case_sigs c)) cs.

Definition tags (cs : list wcase) : list (N * N) :=
  map (fun c => (w_id c, N.of_nat (length (w_windows c)))) cs.

End W.
