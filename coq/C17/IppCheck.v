(* C17 (IPP part) - checker over OBSERVATIONS of the real ipp service: the public path
   (HTTP POST: reply body and ipp.* event fields) and the hook path (services/ipp/
   verif_hooks.go: ippMsg.decode as plain data, the package's encoders, ippHandler).
   [violations] judges the implementation's own decoding, reply and event against the
   request that was ENCODED (the structured message [c_msg], never the model's decoding
   of it); [mismatches] compares every observation with the model of the code. *)
From HT Require Import Common.Bytes C17.Model C17.IppModel.
Open Scope Z_scope.

(* the document that follows the encoded message *)
Inductive doc := DLit (l : bytes) | DGen (seed len : N).
(* ipp.data as observed: the bytes, or (long documents) length and a 32-bit hash *)
Inductive dobs := DOLit (l : bytes) | DOHash (len h : N).

Inductive iobs :=
| OReply (body uri user job : bytes) (data : dobs)
| ONoReply | OPanic | OHang.

(* ipp.VerifDecode(raw): what ippMsg.decode built (document as [dobs]), or its error *)
Inductive decobs :=
| DMsg (m : msg) (data : dobs)
| DErr | DPanic | DHang.

Record icase := mkICase {
  c_id : N;
  c_structured : bool;   (* the request is [enc_request] of [c_msg] with document [c_doc] *)
  c_msg : msg;           (* the message that was encoded (document left empty here) *)
  c_head : bytes;        (* the bytes sent, without the document *)
  c_doc : doc;
  c_obs : iobs;          (* public path *)
  c_dec : decobs;        (* hook: VerifDecode of the same bytes *)
  c_encsame : bool;      (* hook: VerifEncode of [c_msg] produced exactly the bytes [c_head]
                            (compared by the harness; true for unstructured requests) *)
  c_hfmt : bytes;        (* hook: format field of VerifHandler's response *)
  c_hsame : bool         (* hook: VerifHandler's encoded response, uri, user, jobname and
                            data are those of the public path (compared by the harness) *)
}.

Definition no_msg : msg := mkMsg 0 0 0 0 [] [].

(* generated documents: x0 = seed mod 2^16, byte = x / 256, x' = (25173 x + 13849) mod 2^16 *)
Fixpoint gen_doc (n : nat) (x : N) : bytes :=
  match n with
  | O => []
  | S k => N.shiftr x 8 :: gen_doc k (N.land (x * 25173 + 13849) 65535)
  end.
Definition doc_bytes (d : doc) : bytes :=
  match d with
  | DLit l => l
  | DGen seed len => gen_doc (N.to_nat len) (N.land seed 65535)
  end.

(* hash of long documents: h0 = 5381, h' = ((33 h) xor b) mod 2^32 (32-bit arithmetic keeps
   vm_compute fast on 64 KiB documents) *)
Definition dhash (l : bytes) : N :=
  fold_left (fun h b => N.land (N.lxor (h * 33) b) 4294967295)%N l 5381%N.

(* boolean equality of byte strings (structural; eqb_bytes computes proofs and is slow
   under vm_compute on kilobyte strings) *)
Fixpoint beq (a b : bytes) : bool :=
  match a, b with
  | [], [] => true
  | x :: a', y :: b' => (x =? y)%N && beq a' b'
  | _, _ => false
  end.

Definition nlen (l : bytes) : N := N.of_nat (length l).

Definition data_ok (expect : bytes) (o : dobs) : bool :=
  match o with
  | DOLit l => beq l expect
  | DOHash len h => (len =? nlen expect)%N && (h =? dhash expect)%N
  end.

Definition raw_of (c : icase) : bytes := c_head c ++ doc_bytes (c_doc c).

(* ---- structural equality of messages ---- *)
Fixpoint list_eqb {A} (e : A -> A -> bool) (a b : list A) : bool :=
  match a, b with
  | [], [] => true
  | x :: a', y :: b' => e x y && list_eqb e a' b'
  | _, _ => false
  end.

Definition attr_eqb (a b : attr) : bool :=
  match a, b with
  | AInt t n v, AInt t' n' v' => (t =? t') && beq n n' && list_eqb Z.eqb v v'
  | AStr t n v, AStr t' n' v' => (t =? t') && beq n n' && list_eqb beq v v'
  | ABool t n v, ABool t' n' v' => (t =? t') && beq n n' && list_eqb Bool.eqb v v'
  | ARange t n l h, ARange t' n' l' h' => (t =? t') && beq n n' && (l =? l') && (h =? h')
  | _, _ => false
  end.

Definition group_eqb (a b : group) : bool :=
  (g_tag a =? g_tag b) && list_eqb attr_eqb (g_attrs a) (g_attrs b).

(* header and groups (the document is compared through [data_ok]) *)
Definition msg_eqb (a b : msg) : bool :=
  (m_maj a =? m_maj b) && (m_min a =? m_min b) && (m_op a =? m_op b) && (m_reqid a =? m_reqid b)
  && list_eqb group_eqb (m_groups a) (m_groups b).

(* ---- correspondence: model of the code vs the observations ---- *)
Definition obs_matches (m : hres) (o : iobs) : bool :=
  match m, o with
  | HReply b u us j d, OReply b' u' us' j' d' =>
      beq b b' && beq u u' && beq us us' && beq j j' && data_ok d d'
  | HNoReply, ONoReply => true
  | HHang, OHang => true
  | _, _ => false
  end.

Definition dec_matches (m : res msg) (o : decobs) : bool :=
  match m, o with
  | ROk a, DMsg b d => msg_eqb a b && data_ok (m_data a) d
  | RErr, DErr => true
  | RFuel, DHang => true
  | _, _ => false
  end.

Definition model_dec (c : icase) : res msg :=
  let raw := raw_of c in dec_msg (fuel_for raw) raw.

Definition hres_of (r : res msg) : hres :=
  match r with
  | ROk body => handle_msg body
  | RErr => HNoReply
  | RFuel => HHang
  end.
Definition fmt_of (r : res msg) : bytes :=
  match r with
  | ROk body => pj_format (snd (response_of body))
  | _ => []
  end.
Definition model_obs (c : icase) : hres := hres_of (model_dec c).
Definition model_fmt (c : icase) : bytes := fmt_of (model_dec c).

(* the bytes sent must be the specification encoding of the structured message, and so
   must be what the package's own encoders produce for it *)
Definition head_ok (c : icase) : bool :=
  negb (c_structured c) || beq (enc_msg (c_msg c)) (c_head c).
Definition enc_ok (c : icase) : bool := c_encsame c.

(* the model is run once per case *)
Definition case_agrees (c : icase) : bool :=
  let r := model_dec c in
  head_ok c && enc_ok c
  && dec_matches r (c_dec c)
  && obs_matches (hres_of r) (c_obs c)
  && beq (fmt_of r) (c_hfmt c)
  && c_hsame c.

Definition mismatches (cs : list icase) : list N :=
  map c_id (filter (fun c => negb (case_agrees c)) cs).

(* ---- the property on the implementation's own observation ---- *)
(* the first operation group of the request as encoded *)
Definition first_op_attrs (m : msg) : list attr :=
  match find is_op_group (m_groups m) with Some g => g_attrs g | None => [] end.

(* first value of the string attribute with that name; empty when absent.  (Should the
   name be repeated - RFC 8011 forbids it - the last one counts.) *)
Fixpoint lookup_from (name : bytes) (l : list attr) (cur : bytes) : bytes :=
  match l with
  | [] => cur
  | AStr _ n vals :: r => lookup_from name r (if beq n name then hd [] vals else cur)
  | _ :: r => lookup_from name r cur
  end.
Definition lookup_str (name : bytes) (l : list attr) : bytes := lookup_from name l [].

(* what the reply must start with: version, status 0, request id, then the operation
   group carrying exactly the charset and language attributes of the request's first
   operation group, in order *)
Definition echo_prefix (m : msg) : bytes :=
  be_enc 1 (m_maj m) ++ be_enc 1 (m_min m) ++ be_enc 2 0 ++ be_enc 4 (m_reqid m)
  ++ enc_groups (op_echo (m_groups m)).

Fixpoint is_prefix (p l : bytes) : bool :=
  match p, l with
  | [], _ => true
  | x :: p', y :: l' => (x =? y)%N && is_prefix p' l'
  | _, [] => false
  end.

Definition reply_echo_ok (m : msg) (body : bytes) : bool :=
  is_prefix (echo_prefix m) body && (last body 0 =? 3)%N.

Definition SIG_HANG := 1%N.
Definition SIG_PANIC := 2%N.
Definition SIG_NOREPLY := 3%N.
Definition SIG_ECHO := 4%N.      (* reply does not echo version / request id / charset / language *)
Definition SIG_FIELDS := 5%N.    (* print job: printer URI, user or job name changed *)
Definition SIG_DOC := 6%N.       (* document in the event differs from the one sent *)
Definition SIG_DECODE := 7%N.    (* ippMsg.decode did not build what was encoded *)
Definition SIG_ENCODE := 8%N.    (* the package's encoders disagree with the specification encoding *)
Definition SIG_HOOK := 9%N.      (* ippHandler's response differs from what the service sent *)
Definition SIG_CLASS_BOOL := 10%N.
Definition SIG_CLASS_RANGE := 11%N.
Definition SIG_CLASS_PJ_NONSTR := 12%N.
Definition SIG_CLASS_INT3 := 13%N.
Definition SIG_RAW_HANG := 20%N.
Definition SIG_RAW_PANIC := 21%N.

(* clause of the property that the observations fail; 0 = none *)
Definition reply_sig (m : msg) (d : bytes) (o : iobs) : N :=
  match o with
  | OHang => SIG_HANG
  | OPanic => SIG_PANIC
  | ONoReply => SIG_NOREPLY
  | OReply body uri user job data =>
      if negb (reply_echo_ok m body) then SIG_ECHO
      else if (m_op m =? OP_PRINT_JOB)
              && negb (beq uri (lookup_str N_URI (first_op_attrs m))
                       && beq user (lookup_str N_USER (first_op_attrs m))
                       && beq job (lookup_str N_JOB (first_op_attrs m))) then SIG_FIELDS
      else if negb (data_ok d data) then SIG_DOC
      else 0%N
  end.

(* "decodes to the operation, request id, attributes and document that were encoded" *)
Definition decode_sig (m : msg) (d : bytes) (o : decobs) : N :=
  match o with
  | DHang => SIG_HANG
  | DPanic => SIG_PANIC
  | DErr => SIG_DECODE
  | DMsg m' data => if msg_eqb m m' && data_ok d data then 0%N else SIG_DECODE
  end.

Definition clause_sig (c : icase) : N :=
  let m := c_msg c in
  let d := doc_bytes (c_doc c) in
  let s := decode_sig m d (c_dec c) in
  if negb (s =? 0)%N then s else
  let s := reply_sig m d (c_obs c) in
  if negb (s =? 0)%N then s else
  if negb (enc_ok c) then SIG_ENCODE else
  if negb (c_hsame c) then SIG_HOOK else 0%N.

(* input classes of the former findings (all repaired in /repo; judged on the request, not
   on the outcome; the codes are kept so that a regression is named) *)
Definition is_bool (a : attr) : bool := match a with ABool _ _ _ => true | _ => false end.
Definition is_range (a : attr) : bool := match a with ARange _ _ _ _ => true | _ => false end.
Definition is_strattr (a : attr) : bool := match a with AStr _ _ _ => true | _ => false end.
Definition is_int3 (a : attr) : bool :=
  match a with AInt _ _ v => Nat.ltb 2 (length v) | _ => false end.
Definition any_attr (p : attr -> bool) (m : msg) : bool :=
  existsb (fun g => existsb p (g_attrs g)) (m_groups m).

Definition class_sig (m : msg) : N :=
  if any_attr is_bool m then SIG_CLASS_BOOL
  else if any_attr is_range m then SIG_CLASS_RANGE
  else if (m_op m =? OP_PRINT_JOB) && negb (forallb is_strattr (first_op_attrs m)) then SIG_CLASS_PJ_NONSTR
  else if any_attr is_int3 m then SIG_CLASS_INT3
  else 0%N.

Definition case_sig (c : icase) : N :=
  if c_structured c then
    let s := clause_sig c in
    if (s =? 0)%N then 0%N
    else let k := class_sig (c_msg c) in if (k =? 0)%N then s else k
  else
    match c_obs c, c_dec c with
    | OHang, _ | _, DHang => SIG_RAW_HANG
    | OPanic, _ | _, DPanic => SIG_RAW_PANIC
    | _, _ => 0%N
    end.

Definition violations (cs : list icase) : list (N * N) :=
  flat_map (fun c => let s := case_sig c in if (s =? 0)%N then [] else [(c_id c, s)]) cs.

(* non-trivial: a structured request with at least one attribute (bit0), with a
   multi-valued attribute (bit1), with a document (bit2), a print job (bit3);
   an unstructured stream that is not empty (bit4) *)
Definition attr_nvals (a : attr) : nat :=
  match a with AInt _ _ v => length v | AStr _ _ v => length v | ABool _ _ v => length v
          | ARange _ _ _ _ => 1%nat end.
Definition case_tag (c : icase) : N :=
  if c_structured c then
    let m := c_msg c in
    ((if any_attr (fun _ => true) m then 1 else 0)
     + (if any_attr (fun a => Nat.ltb 1 (attr_nvals a)) m then 2 else 0)
     + (match doc_bytes (c_doc c) with [] => 0 | _ => 4 end)
     + (if Z.eqb (m_op m) OP_PRINT_JOB then 8 else 0))%N
  else match c_head c with [] => 0%N | _ => 16%N end.
Definition tags (cs : list icase) : list (N * N) := map (fun c => (c_id c, case_tag c)) cs.
