(* C17 - executable form of the property over an OBSERVED trace (no model inside):
   the cursor is recovered from Available(), every primitive read is compared with
   the big-endian value of the buffer at that cursor. *)
From HT Require Import Common.Bytes C17.Model.
Open Scope Z_scope.

(* (size, signed, peek) of the primitive reads named by the property *)
Definition prim_info (o : op) : option (Z * bool * bool) :=
  match o with
  | OByte => Some (1, false, false)
  | OInt16 => Some (2, true, false)
  | OInt32 => Some (4, true, false)
  | OUint32 => Some (4, false, false)
  | OPeekByte => Some (1, false, true)
  | OPeekInt16 => Some (2, true, true)
  | _ => None
  end.

Definition val_eqb (a b : val) : bool :=
  match a, b with
  | VNum x, VNum y => x =? y
  | VBytes x, VBytes y => eqb_bytes x y
  | VUnit, VUnit => true
  | _, _ => false
  end.

Definition obs_eqb (a b : obs) : bool :=
  val_eqb (o_val a) (o_val b) && (o_avail a =? o_avail b) && Bool.eqb (o_err a) (o_err b).

Definition oobs_eqb (a b : option obs) : bool :=
  match a, b with
  | Some x, Some y => obs_eqb x y
  | None, None => true
  | _, _ => false
  end.

Fixpoint list_eqb {A} (e : A -> A -> bool) (a b : list A) : bool :=
  match a, b with
  | [], [] => true
  | x :: a', y :: b' => e x y && list_eqb e a' b'
  | _, _ => false
  end.

(* signature codes of a failing step: 0 = fine *)
Definition SIG_OK := 0%N.
Definition SIG_PANIC := 1%N.
Definition SIG_FIT := 2%N.      (* fitting primitive read: wrong value / advance / error *)
Definition SIG_NOFIT := 3%N.    (* non-fitting primitive read: not (0, error, nothing consumed) *)
Definition SIG_CURSOR := 4%N.   (* cursor left the buffer *)
Definition SIG_SHAPE := 5%N.    (* trace length differs from the op list *)
Definition SIG_SEEK := 7%N.     (* Seek: an in-range target not reached, or an out-of-range one without error / with movement *)
Definition SIG_BLOCK := 6%N.    (* Copy / Data: not the bytes at the cursor, or a non-fitting one without error *)

(* Copy(n) judged like a primitive read of variable size: if it fits it returns exactly the n
   bytes at the cursor and advances by n; otherwise (negative size, or beyond the end) it
   returns nothing, records an error and consumes nothing. *)
Definition copy_sig (data : bytes) (off n : Z) (ob : obs) (off' : Z) : N :=
  if (0 <=? n) && (off + n <=? zlen data) then
    (if val_eqb (o_val ob) (VBytes (slice data off (off + n))) && (off' =? off + n) then SIG_OK else SIG_BLOCK)
  else
    (if val_eqb (o_val ob) (VBytes []) && o_err ob && (off' =? off) then SIG_OK else SIG_BLOCK).

Definition step_sig (data : bytes) (off : Z) (o : op) (ob : obs) : N :=
  let len := zlen data in
  let off' := len - o_avail ob in
  if negb ((0 <=? off') && (off' <=? len)) then SIG_CURSOR else
  match prim_info o with
  | Some (k, sg, pk) =>
      if off + k <=? len then
        let u := be_val (slice data off (off + k)) in
        let v := if sg then to_signed (8 * k) u else u in
        if val_eqb (o_val ob) (VNum v) && (off' =? (if pk then off else off + k))
        then SIG_OK else SIG_FIT
      else
        if val_eqb (o_val ob) (VNum 0) && o_err ob && (off' =? off) then SIG_OK else SIG_NOFIT
  | None =>
      match o with
      | OCopy n => copy_sig data off n ob off'
      | OSeek n =>
          (* the cursor the later reads are judged at: an in-range relative seek (the end of
             the buffer included) lands exactly there, any other records an error and stays *)
          if (0 <=? off + n) && (off + n <=? len) then (if off' =? off + n then SIG_OK else SIG_SEEK)
          else (if o_err ob && (off' =? off) then SIG_OK else SIG_SEEK)
      | OData =>
          (* a signed 16-bit length read as a primitive, then Copy(length) from behind it *)
          if off + 2 <=? len then
            copy_sig data (off + 2) (to_signed 16 (be_val (slice data off (off + 2)))) ob off'
          else
            (if val_eqb (o_val ob) (VBytes []) && o_err ob && (off' =? off) then SIG_OK else SIG_BLOCK)
      | _ => SIG_OK
      end
  end.

Fixpoint trace_sig (data : bytes) (off : Z) (ops : list op) (tr : list (option obs)) : N :=
  match ops, tr with
  | [], [] => SIG_OK
  | o :: ops', Some ob :: tr' =>
      let s := step_sig data off o ob in
      if (s =? 0)%N then trace_sig data (zlen data - o_avail ob) ops' tr' else s
  | _ :: _, None :: _ => SIG_PANIC
  | _, _ => SIG_SHAPE
  end.

Definition prop_b (data : bytes) (ops : list op) (tr : list (option obs)) : bool :=
  (trace_sig data 0 ops tr =? 0)%N.

(* ---- correspondence-run plumbing ---- *)
Record case := mkCase { c_id : N; c_data : bytes; c_ops : list op; c_obs : list (option obs) }.

Definition model_obs (c : case) : list (option obs) := run (new_decoder (c_data c)) (c_ops c).

Definition mismatches (cs : list case) : list N :=
  map c_id (filter (fun c => negb (list_eqb oobs_eqb (model_obs c) (c_obs c))) cs).

Definition violations (cs : list case) : list (N * N) :=
  flat_map (fun c => let s := trace_sig (c_data c) 0 (c_ops c) (c_obs c) in
                     if (s =? 0)%N then [] else [(c_id c, s)]) cs.

(* branch tag used only to count non-trivial cases: bit0 = some primitive read fitted,
   bit1 = some call failed its bounds check (error recorded) *)
Fixpoint tag_walk (d : dec) (ops : list op) (acc : N) : N :=
  match ops with
  | [] => acc
  | o :: r =>
      match step d o with
      | Panic => acc
      | Ok (d', _) =>
          let fit := match prim_info o with
                     | Some (k, _, _) => has_bytes d k | None => false end in
          let newerr := negb (d_err d) && d_err d' in
          tag_walk d' r (N.lor acc (N.lor (if fit then 1 else 0) (if newerr then 2 else 0)))%N
      end
  end.
Definition tags (cs : list case) : list (N * N) :=
  map (fun c => (c_id c, tag_walk (new_decoder (c_data c)) (c_ops c) 0%N)) cs.
