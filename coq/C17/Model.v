(* C17 - model of services/decoder/decoder.go (executable definitions only).
   Go [int] sizes are unbounded [Z]: for |n| < 2^62 and offsets <= len the sum
   offset+n cannot wrap, and a wrapped sum is rejected by the same comparison. *)
From HT Require Import Common.Bytes.
Open Scope Z_scope.

Record dec := mkDec { d_data : bytes; d_off : Z; d_err : bool }.

Inductive op :=
| OByte | OInt16 | OInt32 | OUint32 | OPeekByte | OPeekInt16
| OCopy (n : Z) | OSeek (n : Z) | OData | OAvail | OHasBytes (n : Z).

(* What an operation returns.  [VBytes] is the content of the returned slice /
   string (nil and empty are not distinguished). *)
Inductive val :=
| VNum (z : Z)
| VBytes (l : bytes)
| VUnit.

(* Result of one API call: [Panic] models a run-time panic escaping the call. *)
Inductive outcome (A : Type) := Ok (a : A) | Panic.
Arguments Ok {A} a.
Arguments Panic {A}.

Definition dlen (d : dec) : Z := zlen (d_data d).
Definition avail (d : dec) : Z := dlen d - d_off d.

(* HasBytes(size): nil error iff 0 <= offset+size <= len *)
Definition has_bytes (d : dec) (n : Z) : bool :=
  (0 <=? d_off d + n) && (d_off d + n <=? dlen d).

Definition set_err (d : dec) : dec := mkDec (d_data d) (d_off d) true.
Definition advance (d : dec) (n : Z) : dec := mkDec (d_data d) (d_off d + n) (d_err d).

(* the k bytes at the cursor *)
Definition at_cursor (d : dec) (k : Z) : bytes := slice (d_data d) (d_off d) (d_off d + k).

(* primitive big-endian read of k bytes; [signed] selects int16/int32 vs uint32/byte *)
Definition read_prim (d : dec) (k : Z) (signed peek : bool) : dec * Z :=
  if has_bytes d k then
    let u := be_val (at_cursor d k) in
    let v := if signed then to_signed (8 * k) u else u in
    (if peek then d else advance d k, v)
  else (set_err d, 0).

(* Copy(size): rejected when size < 0 (fix: commit in /repo) or when it does not fit *)
Definition copy (d : dec) (n : Z) : dec * val :=
  if n <? 0 then (set_err d, VBytes [])
  else if has_bytes d n then (advance d n, VBytes (at_cursor d n))
  else (set_err d, VBytes []).

Definition step (d : dec) (o : op) : outcome (dec * val) :=
  match o with
  | OByte      => let '(d', v) := read_prim d 1 false false in Ok (d', VNum v)
  | OInt16     => let '(d', v) := read_prim d 2 true  false in Ok (d', VNum v)
  | OInt32     => let '(d', v) := read_prim d 4 true  false in Ok (d', VNum v)
  | OUint32    => let '(d', v) := read_prim d 4 false false in Ok (d', VNum v)
  | OPeekByte  => let '(d', v) := read_prim d 1 false true  in Ok (d', VNum v)
  | OPeekInt16 => let '(d', v) := read_prim d 2 true  true  in Ok (d', VNum v)
  | OCopy n    => Ok (copy d n)
  | OSeek n    => if has_bytes d n then Ok (advance d n, VUnit) else Ok (set_err d, VUnit)
  | OData      => let '(d1, l) := read_prim d 2 true false in Ok (copy d1 l)
  | OAvail     => Ok (d, VNum (avail d))
  | OHasBytes n => Ok (d, VNum (if has_bytes d n then 1 else 0))
  end.

(* The observation after each call: returned value, Available(), LastError() != nil;
   [None] = the call panicked (the trace ends there). *)
Record obs := mkObs { o_val : val; o_avail : Z; o_err : bool }.

Fixpoint run (d : dec) (ops : list op) : list (option obs) :=
  match ops with
  | [] => []
  | o :: r =>
      match step d o with
      | Panic => [None]
      | Ok (d', v) => Some (mkObs v (avail d') (d_err d')) :: run d' r
      end
  end.

(* final decoder state, for invariants over reachable states *)
Fixpoint run_state (d : dec) (ops : list op) : option dec :=
  match ops with
  | [] => Some d
  | o :: r => match step d o with Panic => None | Ok (d', _) => run_state d' r end
  end.

Definition new_decoder (data : bytes) : dec := mkDec data 0 false.

(* ---- encoder (services/decoder/encoder.go): appends to a byte list ---- *)
Definition enc_u8 (buf : bytes) (b : Z) : bytes := buf ++ be_enc 1 b.
Definition enc_u16 (buf : bytes) (v : Z) : bytes := buf ++ be_enc 2 v.
Definition enc_u32 (buf : bytes) (v : Z) : bytes := buf ++ be_enc 4 v.
(* WriteData(v, zero): int16(len v) then the bytes; zero => a zero length only *)
Definition enc_data (buf : bytes) (v : bytes) (zero : bool) : bytes :=
  if zero then enc_u16 buf 0 else enc_u16 buf (zlen v) ++ v.
