(* C17 - property theorems (decoder part).  Nothing but statements closed by
   [exact lemma] and [Print Assumptions]. *)
From HT Require Import Common.Bytes C17.Model C17.Check C17.Proofs.
Open Scope Z_scope.

(* every reachable decoder state has its cursor inside the buffer, buffer unchanged *)
Theorem C17_dec_cursor_in_bounds : forall data ops d',
  run_state (new_decoder data) ops = Some d' ->
  (0 <= d_off d' <= zlen data) /\ d_data d' = data.
Proof. exact cursor_in_bounds. Qed.

(* no operation sequence with any size argument fails abruptly *)
Theorem C17_dec_never_panics : forall data ops, ~ In None (run (new_decoder data) ops).
Proof. intros data ops. exact (run_no_panic ops _). Qed.

Theorem C17_dec_every_state_reachable_total : forall data ops,
  exists d', run_state (new_decoder data) ops = Some d'.
Proof. intros data ops. exact (run_state_total ops _). Qed.

(* a primitive read that fits returns the big-endian value at the cursor and advances *)
Theorem C17_dec_read_fits : forall d k sg pk,
  wf d -> 0 <= k -> d_off d + k <= dlen d ->
  read_prim d k sg pk =
    (if pk then d else advance d k,
     let u := be_val (slice (d_data d) (d_off d) (d_off d + k)) in
     if sg then to_signed (8 * k) u else u).
Proof. exact read_fits. Qed.

(* one that does not fit returns zero, records an error and consumes nothing *)
Theorem C17_dec_read_nofit : forall d k sg pk,
  wf d -> 0 <= k -> dlen d < d_off d + k ->
  read_prim d k sg pk = (set_err d, 0).
Proof. exact read_nofit. Qed.

Theorem C17_dec_err_sticky : forall d o d' v,
  step d o = Ok (d', v) -> d_err d = true -> d_err d' = true.
Proof. exact step_err_sticky. Qed.

(* the model's trace satisfies the executable property used on implementation traces *)
Theorem C17_dec_model_meets_prop : forall data ops,
  prop_b data ops (run (new_decoder data) ops) = true.
Proof. exact model_meets_prop. Qed.

(* what the encoder wrote is what the decoder reads *)
Theorem C17_int16_roundtrip : forall pre rest e v, - 2 ^ 15 <= v < 2 ^ 15 ->
  step (at_pos pre (be_enc 2 v ++ rest) e) OInt16 = Ok (at_pos (pre ++ be_enc 2 v) rest e, VNum v).
Proof. exact decode_int16. Qed.

Theorem C17_int32_roundtrip : forall pre rest e v, - 2 ^ 31 <= v < 2 ^ 31 ->
  step (at_pos pre (be_enc 4 v ++ rest) e) OInt32 = Ok (at_pos (pre ++ be_enc 4 v) rest e, VNum v).
Proof. exact decode_int32. Qed.

Theorem C17_data_roundtrip : forall pre rest e v, zlen v < 2 ^ 15 ->
  step (at_pos pre (enc_data [] v false ++ rest) e) OData
  = Ok (at_pos (pre ++ enc_data [] v false) rest e, VBytes v).
Proof. exact decode_data. Qed.

(* non-vacuity: a concrete decoder meets the hypotheses of fits / nofit *)
Example C17_fits_nonvacuous :
  let d := mkDec [1; 2; 3]%N 1 false in wf d /\ d_off d + 2 <= dlen d /\ dlen d < d_off d + 4.
Proof. cbv; repeat split; discriminate. Qed.

Print Assumptions C17_dec_cursor_in_bounds.
Print Assumptions C17_dec_never_panics.
Print Assumptions C17_dec_every_state_reachable_total.
Print Assumptions C17_dec_read_fits.
Print Assumptions C17_dec_read_nofit.
Print Assumptions C17_dec_err_sticky.
Print Assumptions C17_dec_model_meets_prop.
Print Assumptions C17_int16_roundtrip.
Print Assumptions C17_int32_roundtrip.
Print Assumptions C17_data_roundtrip.

(* ====================================================================== *)
(* C17 - property theorems (IPP part).  Model: C17/IppModel.v (the code as it is =
   [as_coded]; [patched] = after fixes/C17-ipp-*.patch); [supported fx n m] is the class
   of requests of the property's quantifier that the code with repairs [fx] can take
   (see IppProofs.v: every supported value tag, >= 1 value, names 1..32767 bytes, strings
   up to 32767 bytes, int32 integers, any delimiter tags, any document; with [as_coded]:
   no boolean, no rangeOfInteger, at most 2 integer values); [n] is the fuel. *)
From HT Require Import C17.IppModel C17.IppCheck C17.IppProofs.

(* an IPP request built from the supported attribute types decodes to the operation,
   request id, attributes and document data that were encoded - never out of fuel *)
Theorem C17_ipp_roundtrip : forall fx n m,
  supported fx n m = true -> dec_msg fx n (enc_request m) = ROk m.
Proof. exact dec_msg_enc. Qed.

Theorem C17_ipp_roundtrip_as_coded : forall n m,
  supported as_coded n m = true -> dec_msg as_coded n (enc_request m) = ROk m.
Proof. exact (dec_msg_enc as_coded). Qed.

(* full class of the property, for the code after the proposed repairs *)
Theorem C17_ipp_roundtrip_patched : forall n m,
  supported patched n m = true -> dec_msg patched n (enc_request m) = ROk m.
Proof. exact (dec_msg_enc patched). Qed.

(* the reply echoes version, request id, charset and language (reply_echo_ok: it starts
   with version, status 0, request id and the operation group holding exactly the
   charset/language attributes of the request's operation group, and ends with the end
   tag); the event carries the document and, for a print job, printer URI, user and
   job name unchanged.  [pj_safe]: outside the print-job finding. *)
Theorem C17_ipp_request_served : forall fx n m,
  supported fx n m = true -> pj_safe fx m = true ->
  exists body uri user job,
    handler fx n (enc_request m) = HReply body uri user job (m_data m) /\
    reply_echo_ok m body = true /\
    (m_op m = OP_PRINT_JOB ->
       uri = lookup_str N_URI (first_op_attrs m) /\
       user = lookup_str N_USER (first_op_attrs m) /\
       job = lookup_str N_JOB (first_op_attrs m)).
Proof. exact request_served. Qed.

(* setPrintJobResponse, for every attribute list: the fields are the named attributes *)
Theorem C17_ipp_print_job_fields : forall fx l p p',
  pj_scan fx l p = Some p' ->
  pj_uri p' = lookup_from N_URI l (pj_uri p) /\
  pj_user p' = lookup_from N_USER l (pj_user p) /\
  pj_job p' = lookup_from N_JOB l (pj_job p).
Proof. exact pj_scan_fields. Qed.

(* the model's observation passes the executable property used on implementation runs *)
Theorem C17_ipp_model_meets_prop : forall fx n m,
  supported fx n m = true -> pj_safe fx m = true ->
  match handler fx n (enc_request m) with
  | HReply b u us j d => clause_sig m (m_data m) (OReply b u us j (DOLit d)) = 0%N
  | _ => False
  end.
Proof. exact model_meets_clause. Qed.

(* ---- the code as it is, outside [supported as_coded]: refuted forms ---- *)
Theorem C17_ipp_boolean_refuted :
  supported patched 20 w_bool = true /\
  exists m', dec_msg as_coded 20 (enc_request w_bool) = ROk m' /\ m' <> w_bool.
Proof. exact w_bool_refuted. Qed.

Theorem C17_ipp_boolean_last_no_return :
  supported patched 20 w_bool_last = true /\
  handler as_coded (N.to_nat 3000) (enc_request w_bool_last) = HHang.
Proof. exact w_bool_last_refuted. Qed.

Theorem C17_ipp_integer_1setof_refuted :
  supported patched 20 w_int3 = true /\
  exists m', dec_msg as_coded 20 (enc_request w_int3) = ROk m' /\ m' <> w_int3.
Proof. exact w_int3_refuted. Qed.

Theorem C17_ipp_range_of_integer_refuted :
  supported patched 20 w_range = true /\
  handler as_coded 20 (enc_request w_range) = HPanic /\
  exists m', dec_msg as_coded 20 (enc_request w_range) = ROk m' /\ m' <> w_range.
Proof. exact w_range_refuted. Qed.

Theorem C17_ipp_print_job_nonstring_refuted :
  supported as_coded 20 w_pj_int = true /\ handler as_coded 20 (enc_request w_pj_int) = HPanic.
Proof. exact w_pj_int_refuted. Qed.

Theorem C17_ipp_unknown_value_tag_refuted :
  forall n, (2 <= n)%nat -> handler as_coded n w_unknown_raw = HPanic.
Proof. exact w_unknown_refuted. Qed.

(* no fuel suffices for a body without end-of-attributes tag *)
Theorem C17_ipp_missing_end_tag_diverges : forall n, handler as_coded n [] = HHang.
Proof. exact empty_body_diverges. Qed.

(* the repaired code decodes / serves every witness above and refuses the empty body *)
Theorem C17_ipp_patched_serves_witnesses :
  dec_msg patched 20 (enc_request w_bool) = ROk w_bool /\
  dec_msg patched 20 (enc_request w_bool_last) = ROk w_bool_last /\
  dec_msg patched 20 (enc_request w_int3) = ROk w_int3 /\
  dec_msg patched 20 (enc_request w_range) = ROk w_range /\
  (exists b u us j d, handler patched 20 (enc_request w_pj_int) = HReply b u us j d) /\
  (exists b u us j d, handler patched 20 w_unknown_raw = HReply b u us j d).
Proof. exact witnesses_patched. Qed.

Theorem C17_ipp_patched_refuses_empty_body :
  forall n, (1 <= n)%nat -> handler patched n [] = HNoReply.
Proof. exact empty_body_patched. Qed.

(* non-vacuity: a print job with string, integer (1 and 2 values), enum and multi-valued
   keyword attributes is in the class the unchanged code serves *)
Example C17_ipp_supported_nonvacuous :
  supported as_coded 20 ex_print_job = true /\ pj_safe as_coded ex_print_job = true.
Proof. exact ex_print_job_supported. Qed.

Print Assumptions C17_ipp_roundtrip.
Print Assumptions C17_ipp_roundtrip_as_coded.
Print Assumptions C17_ipp_roundtrip_patched.
Print Assumptions C17_ipp_request_served.
Print Assumptions C17_ipp_print_job_fields.
Print Assumptions C17_ipp_model_meets_prop.
Print Assumptions C17_ipp_boolean_refuted.
Print Assumptions C17_ipp_boolean_last_no_return.
Print Assumptions C17_ipp_integer_1setof_refuted.
Print Assumptions C17_ipp_range_of_integer_refuted.
Print Assumptions C17_ipp_print_job_nonstring_refuted.
Print Assumptions C17_ipp_unknown_value_tag_refuted.
Print Assumptions C17_ipp_missing_end_tag_diverges.
Print Assumptions C17_ipp_patched_serves_witnesses.
Print Assumptions C17_ipp_patched_refuses_empty_body.

(* the fuel the correspondence run hands the model (two more than the number of request
   bytes) suffices for every supported request *)
Theorem C17_ipp_fuel_suffices : forall fx n m,
  supported fx n m = true -> supported fx (fuel_for (enc_request m)) m = true.
Proof. exact supported_fuel_for. Qed.

Theorem C17_ipp_roundtrip_with_run_fuel : forall fx n m,
  supported fx n m = true ->
  dec_msg fx (fuel_for (enc_request m)) (enc_request m) = ROk m.
Proof. exact dec_msg_enc_fuel_for. Qed.

Print Assumptions C17_ipp_fuel_suffices.
Print Assumptions C17_ipp_roundtrip_with_run_fuel.
