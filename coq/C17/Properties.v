(* C17 - property theorems (decoder part).  Nothing but statements closed by
   [exact lemma] and [Print Assumptions]. *)
From HT Require Import Common.Bytes C17.Model C17.Check C17.Proofs.
Open Scope Z_scope.

(* every reachable decoder state has its cursor inside the buffer, buffer unchanged *)
Theorem C17_dec_cursor_in_bounds : forall data ops d',
  run_state (new_decoder data) ops = Some d' ->
  (0 <= d_off d' <= zlen data) /\ d_data d' = data.
Proof. exact cursor_in_bounds. Qed.

(* no operation sequence with any size argument fails abruptly *)
Theorem C17_dec_never_panics : forall data ops, ~ In None (run (new_decoder data) ops).
Proof. intros data ops. exact (run_no_panic ops _). Qed.

Theorem C17_dec_every_state_reachable_total : forall data ops,
  exists d', run_state (new_decoder data) ops = Some d'.
Proof. intros data ops. exact (run_state_total ops _). Qed.

(* a primitive read that fits returns the big-endian value at the cursor and advances *)
Theorem C17_dec_read_fits : forall d k sg pk,
  wf d -> 0 <= k -> d_off d + k <= dlen d ->
  read_prim d k sg pk =
    (if pk then d else advance d k,
     let u := be_val (slice (d_data d) (d_off d) (d_off d + k)) in
     if sg then to_signed (8 * k) u else u).
Proof. exact read_fits. Qed.

(* one that does not fit returns zero, records an error and consumes nothing *)
Theorem C17_dec_read_nofit : forall d k sg pk,
  wf d -> 0 <= k -> dlen d < d_off d + k ->
  read_prim d k sg pk = (set_err d, 0).
Proof. exact read_nofit. Qed.

Theorem C17_dec_err_sticky : forall d o d' v,
  step d o = Ok (d', v) -> d_err d = true -> d_err d' = true.
Proof. exact step_err_sticky. Qed.

(* the model's trace satisfies the executable property used on implementation traces *)
Theorem C17_dec_model_meets_prop : forall data ops,
  prop_b data ops (run (new_decoder data) ops) = true.
Proof. exact model_meets_prop. Qed.

(* what the encoder wrote is what the decoder reads *)
Theorem C17_int16_roundtrip : forall pre rest e v, - 2 ^ 15 <= v < 2 ^ 15 ->
  step (at_pos pre (be_enc 2 v ++ rest) e) OInt16 = Ok (at_pos (pre ++ be_enc 2 v) rest e, VNum v).
Proof. exact decode_int16. Qed.

Theorem C17_int32_roundtrip : forall pre rest e v, - 2 ^ 31 <= v < 2 ^ 31 ->
  step (at_pos pre (be_enc 4 v ++ rest) e) OInt32 = Ok (at_pos (pre ++ be_enc 4 v) rest e, VNum v).
Proof. exact decode_int32. Qed.

Theorem C17_data_roundtrip : forall pre rest e v, zlen v < 2 ^ 15 ->
  step (at_pos pre (enc_data [] v false ++ rest) e) OData
  = Ok (at_pos (pre ++ enc_data [] v false) rest e, VBytes v).
Proof. exact decode_data. Qed.

(* non-vacuity: a concrete decoder meets the hypotheses of fits / nofit *)
Example C17_fits_nonvacuous :
  let d := mkDec [1; 2; 3]%N 1 false in wf d /\ d_off d + 2 <= dlen d /\ dlen d < d_off d + 4.
Proof. cbv; repeat split; discriminate. Qed.

Print Assumptions C17_dec_cursor_in_bounds.
Print Assumptions C17_dec_never_panics.
Print Assumptions C17_dec_every_state_reachable_total.
Print Assumptions C17_dec_read_fits.
Print Assumptions C17_dec_read_nofit.
Print Assumptions C17_dec_err_sticky.
Print Assumptions C17_dec_model_meets_prop.
Print Assumptions C17_int16_roundtrip.
Print Assumptions C17_int32_roundtrip.
Print Assumptions C17_data_roundtrip.

(* ====================================================================== *)
(* C17 - property theorems (IPP part).  Model: C17/IppModel.v, the code of services/ipp
   after the fix: commits (missing end tag, boolean, integer 1setOf, rangeOfInteger,
   uninterpreted value tags, print job with non-string attributes).  [supported n m] is
   the class of requests of the property's quantifier (IppProofs.v: every value tag -
   integer, enum, boolean, rangeOfInteger, the seven string tags and every other
   non-delimiter tag kept as an opaque string -, any number >= 1 of values, names
   1..32767 bytes, strings up to 32767 bytes, int32 integers, groups with any delimiter
   tags 0..5 except 3, closed by the end-of-attributes group, any document); [n] bounds the
   numbers of groups / attributes per group / values per attribute and is the fuel. *)
From HT Require Import C17.IppModel C17.IppCheck C17.IppProofs.

(* an IPP request built from the supported attribute types decodes to the operation,
   request id, attributes and document data that were encoded - never out of fuel *)
Theorem C17_ipp_roundtrip : forall n m,
  supported n m = true -> dec_msg n (enc_request m) = ROk m.
Proof. exact dec_msg_enc. Qed.

(* ... in particular with the fuel of the correspondence run and with any larger fuel *)
Theorem C17_ipp_fuel_suffices : forall n m,
  supported n m = true -> supported (fuel_for (enc_request m)) m = true.
Proof. exact supported_fuel_for. Qed.

Theorem C17_ipp_roundtrip_any_fuel : forall n0 m n,
  supported n0 m = true -> (fuel_for (enc_request m) <= n)%nat ->
  dec_msg n (enc_request m) = ROk m.
Proof. exact dec_msg_enc_any_fuel. Qed.

(* ippMsg.decode returns for EVERY body: with fuel two more than the number of bytes
   (or more) the model never runs out of fuel ... *)
Theorem C17_ipp_decode_terminates : forall raw n,
  (fuel_for raw <= n)%nat -> dec_msg n raw <> RFuel.
Proof. exact dec_msg_terminates. Qed.

Theorem C17_ipp_decode_terminates_bound : forall raw,
  exists n, (n <= length raw + 2)%nat /\ dec_msg n raw <> RFuel.
Proof. exact dec_msg_terminates_bound. Qed.

(* ... and more fuel never changes a result *)
Theorem C17_ipp_fuel_monotone : forall raw n n',
  (n <= n')%nat -> dec_msg n raw <> RFuel -> dec_msg n' raw = dec_msg n raw.
Proof. exact dec_msg_mono. Qed.

Theorem C17_ipp_handler_returns : forall raw n,
  (fuel_for raw <= n)%nat -> handler n raw <> HHang.
Proof. exact handler_returns. Qed.

(* a body without end-of-attributes tag (the empty body, a request cut before its end
   tag, ...) is refused with the decode error: no reply, no event, for every fuel from
   the bound upwards *)
Theorem C17_ipp_no_end_tag_refused : forall raw n,
  ~ In 3%N raw -> (fuel_for raw <= n)%nat -> dec_msg n raw = RErr.
Proof. exact no_end_tag_refused. Qed.

Theorem C17_ipp_no_end_tag_no_reply : forall raw n,
  ~ In 3%N raw -> (fuel_for raw <= n)%nat -> handler n raw = HNoReply.
Proof. exact no_end_tag_no_reply. Qed.

Theorem C17_ipp_empty_body_refused : forall n, (2 <= n)%nat -> handler n [] = HNoReply.
Proof. exact empty_body_refused. Qed.

(* the reply echoes version, request id, charset and language (reply_echo_ok: it starts
   with version, status 0, request id and the operation group holding exactly the
   charset/language attributes of the request's operation group, and ends with the end
   tag); the event carries the document and, for a print job, printer URI, user and
   job name unchanged *)
Theorem C17_ipp_request_served : forall n m,
  supported n m = true ->
  exists body uri user job,
    handler n (enc_request m) = HReply body uri user job (m_data m) /\
    reply_echo_ok m body = true /\
    (m_op m = OP_PRINT_JOB ->
       uri = lookup_str N_URI (first_op_attrs m) /\
       user = lookup_str N_USER (first_op_attrs m) /\
       job = lookup_str N_JOB (first_op_attrs m)).
Proof. exact request_served. Qed.

(* setPrintJobResponse, for every attribute list: the fields are the named attributes *)
Theorem C17_ipp_print_job_fields : forall l p,
  pj_uri (pj_scan l p) = lookup_from N_URI l (pj_uri p) /\
  pj_user (pj_scan l p) = lookup_from N_USER l (pj_user p) /\
  pj_job (pj_scan l p) = lookup_from N_JOB l (pj_job p).
Proof. exact pj_scan_fields. Qed.

(* the case the model produces for a supported request passes the executable property
   that [violations] evaluates on implementation runs *)
Theorem C17_ipp_model_meets_prop : forall id n m,
  supported n m = true -> case_sig (model_case id m) = 0%N.
Proof. exact model_meets_clause. Qed.

(* non-vacuity: the requests the code mishandled before the repairs (boolean, boolean
   last without document, four integer values, rangeOfInteger with a negative bound in a
   print job's operation group, print job with an integer operation attribute, an
   octetString attribute) are all in the supported class, and the print job with the
   integer attribute is served with its job name and document *)
Example C17_ipp_former_witnesses_supported :
  supported 20 w_bool = true /\ supported 20 w_bool_last = true /\ supported 20 w_int3 = true /\
  supported 20 w_range = true /\ supported 20 w_pj_int = true /\ supported 20 w_opaque = true /\
  exists b u us, handler 20 (enc_request w_pj_int)
                 = HReply b u us (lookup_str N_JOB (first_op_attrs w_pj_int)) (m_data w_pj_int).
Proof. exact former_witnesses_supported. Qed.

Example C17_ipp_supported_nonvacuous : supported 20 ex_print_job = true.
Proof. exact ex_print_job_supported. Qed.

Print Assumptions C17_ipp_roundtrip.
Print Assumptions C17_ipp_fuel_suffices.
Print Assumptions C17_ipp_roundtrip_any_fuel.
Print Assumptions C17_ipp_decode_terminates.
Print Assumptions C17_ipp_decode_terminates_bound.
Print Assumptions C17_ipp_fuel_monotone.
Print Assumptions C17_ipp_handler_returns.
Print Assumptions C17_ipp_no_end_tag_refused.
Print Assumptions C17_ipp_no_end_tag_no_reply.
Print Assumptions C17_ipp_empty_body_refused.
Print Assumptions C17_ipp_request_served.
Print Assumptions C17_ipp_print_job_fields.
Print Assumptions C17_ipp_model_meets_prop.
