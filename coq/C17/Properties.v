(* C17 - property theorems (decoder part).  Nothing but statements closed by
   [exact lemma] and [Print Assumptions]. *)
From HT Require Import Common.Bytes C17.Model C17.Check C17.Proofs.
Open Scope Z_scope.

(* every reachable decoder state has its cursor inside the buffer, buffer unchanged *)
Theorem C17_dec_cursor_in_bounds : forall data ops d',
  run_state (new_decoder data) ops = Some d' ->
  (0 <= d_off d' <= zlen data) /\ d_data d' = data.
Proof. exact cursor_in_bounds. Qed.

(* no operation sequence with any size argument fails abruptly *)
Theorem C17_dec_never_panics : forall data ops, ~ In None (run (new_decoder data) ops).
Proof. intros data ops. exact (run_no_panic ops _). Qed.

Theorem C17_dec_every_state_reachable_total : forall data ops,
  exists d', run_state (new_decoder data) ops = Some d'.
Proof. intros data ops. exact (run_state_total ops _). Qed.

(* a primitive read that fits returns the big-endian value at the cursor and advances *)
Theorem C17_dec_read_fits : forall d k sg pk,
  wf d -> 0 <= k -> d_off d + k <= dlen d ->
  read_prim d k sg pk =
    (if pk then d else advance d k,
     let u := be_val (slice (d_data d) (d_off d) (d_off d + k)) in
     if sg then to_signed (8 * k) u else u).
Proof. exact read_fits. Qed.

(* one that does not fit returns zero, records an error and consumes nothing *)
Theorem C17_dec_read_nofit : forall d k sg pk,
  wf d -> 0 <= k -> dlen d < d_off d + k ->
  read_prim d k sg pk = (set_err d, 0).
Proof. exact read_nofit. Qed.

Theorem C17_dec_err_sticky : forall d o d' v,
  step d o = Ok (d', v) -> d_err d = true -> d_err d' = true.
Proof. exact step_err_sticky. Qed.

(* the model's trace satisfies the executable property used on implementation traces *)
Theorem C17_dec_model_meets_prop : forall data ops,
  prop_b data ops (run (new_decoder data) ops) = true.
Proof. exact model_meets_prop. Qed.

(* what the encoder wrote is what the decoder reads *)
Theorem C17_int16_roundtrip : forall pre rest e v, - 2 ^ 15 <= v < 2 ^ 15 ->
  step (at_pos pre (be_enc 2 v ++ rest) e) OInt16 = Ok (at_pos (pre ++ be_enc 2 v) rest e, VNum v).
Proof. exact decode_int16. Qed.

Theorem C17_int32_roundtrip : forall pre rest e v, - 2 ^ 31 <= v < 2 ^ 31 ->
  step (at_pos pre (be_enc 4 v ++ rest) e) OInt32 = Ok (at_pos (pre ++ be_enc 4 v) rest e, VNum v).
Proof. exact decode_int32. Qed.

Theorem C17_data_roundtrip : forall pre rest e v, zlen v < 2 ^ 15 ->
  step (at_pos pre (enc_data [] v false ++ rest) e) OData
  = Ok (at_pos (pre ++ enc_data [] v false) rest e, VBytes v).
Proof. exact decode_data. Qed.

(* non-vacuity: a concrete decoder meets the hypotheses of fits / nofit *)
Example C17_fits_nonvacuous :
  let d := mkDec [1; 2; 3]%N 1 false in wf d /\ d_off d + 2 <= dlen d /\ dlen d < d_off d + 4.
Proof. cbv; repeat split; discriminate. Qed.

Print Assumptions C17_dec_cursor_in_bounds.
Print Assumptions C17_dec_never_panics.
Print Assumptions C17_dec_every_state_reachable_total.
Print Assumptions C17_dec_read_fits.
Print Assumptions C17_dec_read_nofit.
Print Assumptions C17_dec_err_sticky.
Print Assumptions C17_dec_model_meets_prop.
Print Assumptions C17_int16_roundtrip.
Print Assumptions C17_int32_roundtrip.
Print Assumptions C17_data_roundtrip.
