(* C17 - lemmas about the decoder model. *)
From HT Require Import Common.Bytes C17.Model C17.Check.
From Coq Require Import ZifyBool ZifyN ZifyNat.
Open Scope Z_scope.

Definition wf (d : dec) : Prop := 0 <= d_off d <= dlen d.

Lemma new_decoder_wf data : wf (new_decoder data).
Proof. unfold wf, new_decoder, dlen; cbn; pose proof (zlen_nonneg data); lia. Qed.

Lemma has_bytes_spec d n :
  has_bytes d n = true <-> 0 <= d_off d + n <= dlen d.
Proof. unfold has_bytes; lia. Qed.

(* -- one step -- *)
Lemma read_prim_wf d k sg pk d' v :
  wf d -> 0 <= k -> read_prim d k sg pk = (d', v) ->
  wf d' /\ d_data d' = d_data d.
Proof.
  unfold read_prim, wf; intros Hwf Hk H.
  destruct (has_bytes d k) eqn:Hb.
  - apply has_bytes_spec in Hb. destruct pk; inversion H; subst; (split; [unfold dlen in *; cbn in *; lia | reflexivity]).
  - inversion H; subst; (split; [unfold dlen in *; cbn in *; lia | reflexivity]).
Qed.

Lemma copy_wf d n d' v :
  wf d -> copy d n = (d', v) -> wf d' /\ d_data d' = d_data d.
Proof.
  unfold copy, wf; intros Hwf H.
  destruct (n <? 0) eqn:Hn.
  - inversion H; subst; (split; [unfold dlen in *; cbn in *; lia | reflexivity]).
  - destruct (has_bytes d n) eqn:Hb.
    + apply has_bytes_spec in Hb. inversion H; subst; (split; [unfold dlen in *; cbn in *; lia | reflexivity]).
    + inversion H; subst; (split; [unfold dlen in *; cbn in *; lia | reflexivity]).
Qed.

Lemma step_total d o : exists d' v, step d o = Ok (d', v).
Proof.
  destruct o; cbn [step];
    try (destruct (read_prim _ _ _ _) as [? ?]);
    try (destruct (has_bytes _ _));
    try (match goal with |- context [copy ?a ?b] => destruct (copy a b) as [? ?] end);
    eauto.
Qed.

Lemma step_never_panics d o : step d o <> Panic.
Proof. destruct (step_total d o) as (d' & v & H); rewrite H; discriminate. Qed.

Lemma step_wf d o d' v :
  wf d -> step d o = Ok (d', v) -> wf d' /\ d_data d' = d_data d.
Proof.
  intros Hwf H; destruct o; cbn [step] in H.
  1-6: match type of H with
       | context [read_prim ?d0 ?k ?s ?p] =>
           destruct (read_prim d0 k s p) as [d1 v1] eqn:E; inversion H; subst;
           eapply read_prim_wf; [exact Hwf| |exact E]; lia
       end.
  - inversion H as [H1]; eapply copy_wf; eauto.
  - destruct (has_bytes d n) eqn:Hb; inversion H; subst; (split; [|reflexivity]);
      unfold wf, dlen in *; cbn.
    + apply has_bytes_spec in Hb; unfold dlen in Hb; lia.
    + lia.
  - destruct (read_prim d 2 true false) as [d1 l] eqn:E. inversion H as [H1].
    destruct (read_prim_wf d 2 true false d1 l Hwf ltac:(lia) E) as [Hw1 Hd1].
    destruct (copy_wf _ _ _ _ Hw1 H1) as [Hw2 Hd2]. split; [exact Hw2|congruence].
  - inversion H; subst; auto.
  - inversion H; subst; auto.
Qed.

Lemma read_prim_err d k sg pk d' v :
  read_prim d k sg pk = (d', v) -> d_err d = true -> d_err d' = true.
Proof.
  unfold read_prim; destruct (has_bytes d k); destruct pk; intros H He; inversion H; subst; cbn; auto.
Qed.

Lemma copy_err d n d' v : copy d n = (d', v) -> d_err d = true -> d_err d' = true.
Proof.
  unfold copy; destruct (n <? 0); [|destruct (has_bytes d n)]; intros H He; inversion H; subst; cbn; auto.
Qed.

Lemma step_err_sticky d o d' v :
  step d o = Ok (d', v) -> d_err d = true -> d_err d' = true.
Proof.
  intros H He; destruct o; cbn [step] in H.
  1-6: match type of H with
       | context [read_prim ?d0 ?k ?s ?p] =>
           destruct (read_prim d0 k s p) as [d1 v1] eqn:E; inversion H; subst;
           eapply read_prim_err; eauto
       end.
  - inversion H as [H1]; eapply copy_err; eauto.
  - destruct (has_bytes d n); inversion H; subst; cbn; auto.
  - destruct (read_prim d 2 true false) as [d1 l] eqn:E. inversion H as [H1].
    eapply copy_err; [exact H1|]. eapply read_prim_err; eauto.
  - inversion H; subst; auto.
  - inversion H; subst; auto.
Qed.

(* -- reachable states -- *)
Lemma run_state_wf ops : forall d d',
  wf d -> run_state d ops = Some d' -> wf d' /\ d_data d' = d_data d.
Proof.
  induction ops as [|o ops IH]; intros d d' Hwf H; cbn [run_state] in H.
  - inversion H; subst; auto.
  - destruct (step d o) as [[d1 v]|] eqn:E; [|discriminate].
    destruct (step_wf _ _ _ _ Hwf E) as [Hw1 Hd1].
    destruct (IH _ _ Hw1 H) as [Hw Hd]. split; [exact Hw|congruence].
Qed.

Lemma run_state_total ops : forall d, exists d', run_state d ops = Some d'.
Proof.
  induction ops as [|o ops IH]; intros d; cbn [run_state]; eauto.
  destruct (step_total d o) as (d1 & v & E); rewrite E; apply IH.
Qed.

Lemma run_no_panic ops : forall d, ~ In None (run d ops).
Proof.
  induction ops as [|o ops IH]; intros d; cbn [run]; [tauto|].
  destruct (step_total d o) as (d1 & v & E); rewrite E.
  cbn [In]; intros [H|H]; [discriminate|exact (IH _ H)].
Qed.

(* -- the primitive-read clauses, stated directly -- *)
Lemma read_fits d k sg pk :
  wf d -> 0 <= k -> d_off d + k <= dlen d ->
  read_prim d k sg pk =
    (if pk then d else advance d k,
     let u := be_val (slice (d_data d) (d_off d) (d_off d + k)) in
     if sg then to_signed (8 * k) u else u).
Proof.
  intros Hwf Hk Hfit; unfold read_prim.
  assert (Hb : has_bytes d k = true) by (apply has_bytes_spec; unfold wf in Hwf; lia).
  rewrite Hb; reflexivity.
Qed.

Lemma read_nofit d k sg pk :
  wf d -> 0 <= k -> dlen d < d_off d + k ->
  read_prim d k sg pk = (set_err d, 0).
Proof.
  intros Hwf Hk Hfit; unfold read_prim.
  assert (Hb : has_bytes d k = false).
  { destruct (has_bytes d k) eqn:E; auto. apply has_bytes_spec in E; lia. }
  rewrite Hb; reflexivity.
Qed.

(* -- the model satisfies the executable property -- *)
Lemma val_eqb_refl v : val_eqb v v = true.
Proof. destruct v; cbn; try lia. apply eqb_bytes_true; reflexivity. Qed.

Lemma prim_step_shape d o k sg pk :
  prim_info o = Some (k, sg, pk) ->
  0 <= k /\ step d o = let '(d', v) := read_prim d k sg pk in Ok (d', VNum v).
Proof. destruct o; cbn; intros H; inversion H; subst; split; try lia; reflexivity. Qed.


(* Copy and Data meet the block-read reading of the property *)
Lemma copy_sig_ok d n d' v :
  wf d -> copy d n = (d', v) ->
  copy_sig (d_data d) (d_off d) n (mkObs v (avail d') (d_err d')) (d_off d') = SIG_OK.
Proof.
  intros Hwf H. unfold copy in H. unfold copy_sig; cbn [o_val o_err].
  unfold wf, dlen in Hwf.
  destruct (n <? 0) eqn:Hn.
  - inversion H; subst. cbn [set_err d_off d_err d_data].
    assert ((0 <=? n) = false) as -> by lia. cbn [andb]. rewrite Z.eqb_refl. reflexivity.
  - unfold has_bytes, dlen in H.
    destruct ((0 <=? d_off d + n) && (d_off d + n <=? zlen (d_data d))) eqn:Hb.
    + inversion H; subst. cbn [advance d_off d_err d_data].
      assert ((0 <=? n) && (d_off d + n <=? zlen (d_data d)) = true) as -> by lia.
      unfold at_cursor. rewrite val_eqb_refl, Z.eqb_refl. reflexivity.
    + inversion H; subst. cbn [set_err d_off d_err d_data].
      assert ((0 <=? n) && (d_off d + n <=? zlen (d_data d)) = false) as -> by lia.
      rewrite Z.eqb_refl. reflexivity.
Qed.

Lemma step_sig_block d o d' v :
  wf d -> step d o = Ok (d', v) -> prim_info o = None ->
  match o with
  | OCopy n => copy_sig (d_data d) (d_off d) n (mkObs v (avail d') (d_err d')) (d_off d')
  | OSeek n =>
      if (0 <=? d_off d + n) && (d_off d + n <=? zlen (d_data d)) then (if d_off d' =? d_off d + n then SIG_OK else SIG_SEEK)
      else (if o_err (mkObs v (avail d') (d_err d')) && (d_off d' =? d_off d) then SIG_OK else SIG_SEEK)
  | OData =>
      if d_off d + 2 <=? zlen (d_data d) then
        copy_sig (d_data d) (d_off d + 2)
          (to_signed 16 (be_val (slice (d_data d) (d_off d) (d_off d + 2)))) (mkObs v (avail d') (d_err d')) (d_off d')
      else
        (if val_eqb (o_val (mkObs v (avail d') (d_err d'))) (VBytes []) && o_err (mkObs v (avail d') (d_err d'))
            && (d_off d' =? d_off d) then SIG_OK else SIG_BLOCK)
  | _ => SIG_OK
  end = SIG_OK.
Proof.
  intros Hwf H Hp. destruct o; try reflexivity; try discriminate Hp.
  - cbn [step] in H. inversion H as [Hc]. apply (copy_sig_ok d n d' v Hwf).
    destruct (copy d n) as [a b]. inversion Hc; reflexivity.
  - cbn [step] in H. unfold has_bytes, dlen in H.
    destruct ((0 <=? d_off d + n) && (d_off d + n <=? zlen (d_data d))) eqn:Hb;
      inversion H; subst; cbn [advance set_err d_off d_err o_err]; rewrite Z.eqb_refl; reflexivity.
  - cbn [step] in H.
    destruct (d_off d + 2 <=? zlen (d_data d)) eqn:Hfit.
    + rewrite (read_fits d 2 true false Hwf ltac:(lia)) in H by (unfold dlen; lia).
      cbn [d_off advance] in H.
      inversion H as [Hc0].
      assert (Hw2 : wf (advance d 2)) by (unfold wf, dlen in *; cbn [advance d_off d_data]; lia).
      pose proof (copy_sig_ok (advance d 2) _ d' v Hw2 Hc0) as Hc.
      cbn [advance d_off d_data] in Hc. exact Hc.
    + rewrite (read_nofit d 2 true false Hwf ltac:(lia)) in H by (unfold dlen; lia).
      inversion H as [Ec].
      unfold copy in Ec. cbn in Ec. unfold has_bytes, dlen in Ec. cbn [set_err d_off d_data] in Ec.
      unfold wf, dlen in Hwf.
      assert ((0 <=? d_off d + 0) && (d_off d + 0 <=? zlen (d_data d)) = true) as E1 by lia.
      rewrite E1 in Ec. inversion Ec; subst. cbn [o_val o_err advance set_err d_off d_err d_data].
      unfold at_cursor. cbn [set_err d_off d_data]. rewrite Z.add_0_r.
      assert (Hs : slice (d_data d) (d_off d) (d_off d) = []).
      { unfold slice. replace (d_off d - d_off d) with 0 by lia. reflexivity. }
      rewrite Hs. cbn. rewrite ?Z.add_0_r, Z.eqb_refl. reflexivity.
Qed.

Lemma step_sig_ok d o d' v :
  wf d -> step d o = Ok (d', v) ->
  step_sig (d_data d) (d_off d) o (mkObs v (avail d') (d_err d')) = SIG_OK.
Proof.
  intros Hwf H.
  destruct (step_wf _ _ _ _ Hwf H) as [Hw' Hd'].
  unfold step_sig; cbn [o_avail o_val o_err].
  assert (Hoff : zlen (d_data d) - avail d' = d_off d')
    by (unfold avail, dlen; rewrite Hd'; lia).
  rewrite Hoff.
  assert (Hin : (0 <=? d_off d') && (d_off d' <=? zlen (d_data d)) = true).
  { unfold wf, dlen in Hw'; rewrite Hd' in Hw'; lia. }
  rewrite Hin; cbn [negb].
  destruct (prim_info o) as [[[k sg] pk]|] eqn:Hp; [|apply (step_sig_block d o d' v Hwf H Hp)].
  destruct (prim_step_shape d o k sg pk Hp) as [Hk Hs].
  rewrite Hs in H.
  destruct (d_off d + k <=? zlen (d_data d)) eqn:Hfit.
  - rewrite (read_fits d k sg pk Hwf Hk) in H by (unfold dlen; lia).
    inversion H; subst. rewrite val_eqb_refl.
    destruct pk; cbn; rewrite Z.eqb_refl; reflexivity.
  - rewrite (read_nofit d k sg pk Hwf Hk) in H by (unfold dlen; lia).
    inversion H; subst; cbn. rewrite Z.eqb_refl; reflexivity.
Qed.

Lemma run_trace_sig ops : forall d,
  wf d -> trace_sig (d_data d) (d_off d) ops (run d ops) = SIG_OK.
Proof.
  induction ops as [|o ops IH]; intros d Hwf; cbn [run trace_sig]; [reflexivity|].
  destruct (step_total d o) as (d1 & v & E); rewrite E. cbn [trace_sig].
  rewrite (step_sig_ok _ _ _ _ Hwf E). cbn.
  destruct (step_wf _ _ _ _ Hwf E) as [Hw1 Hd1].
  cbn [o_avail].
  replace (zlen (d_data d) - avail d1) with (d_off d1)
    by (unfold avail, dlen; rewrite Hd1; lia).
  rewrite <- Hd1. apply IH, Hw1.
Qed.

(* -- big-endian round trips -- *)
Lemma be_val_app a b : be_val (a ++ b) = be_val a * 256 ^ zlen b + be_val b.
Proof.
  unfold be_val. rewrite be_val_acc_app. generalize (be_val_acc 0 a) as acc.
  induction b as [|x b IH]; intros acc.
  - rewrite zlen_nil; cbn; lia.
  - cbn [be_val_acc]. rewrite IH, (IH (0 * 256 + Z.of_N x)), zlen_cons.
    pose proof (zlen_nonneg b). rewrite Z.pow_add_r by lia. lia.
Qed.

Lemma be_enc_length k v : zlen (be_enc k v) = Z.of_nat k.
Proof. induction k as [|k IH]; cbn [be_enc]; [reflexivity|rewrite zlen_cons, IH; lia]. Qed.

Lemma be_enc_wf k v : wf_bytes (be_enc k v) = true.
Proof.
  induction k as [|k IH]; cbn [be_enc wf_bytes forallb]; [reflexivity|].
  fold (wf_bytes (be_enc k v)); rewrite IH, andb_true_r. unfold byteb.
  assert (0 <= (v / 256 ^ Z.of_nat k) mod 256 < 256) by (apply Z.mod_pos_bound; lia). lia.
Qed.

Lemma be_val_enc k v : be_val (be_enc k v) = v mod 256 ^ Z.of_nat k.
Proof.
  induction k as [|k IH].
  - cbn. rewrite Z.mod_1_r; reflexivity.
  - cbn [be_enc]. change (?x :: ?l) with ([x] ++ l).
    rewrite be_val_app, IH, be_enc_length.
    unfold be_val; cbn [be_val_acc].
    rewrite Z2N.id by (apply Z.mod_pos_bound; lia).
    replace (Z.of_nat (S k)) with (Z.of_nat k + 1) by lia.
    rewrite Z.pow_add_r by lia. change (256 ^ 1) with 256.
    assert (0 < 256 ^ Z.of_nat k) by (apply Z.pow_pos_nonneg; lia).
    set (p := 256 ^ Z.of_nat k) in *.
    rewrite Z.rem_mul_r by lia. ring.
Qed.

Lemma signed16_roundtrip v :
  - 2 ^ 15 <= v < 2 ^ 15 -> to_signed 16 (be_val (be_enc 2 v)) = v.
Proof.
  intros H; rewrite be_val_enc. unfold to_signed.
  change (256 ^ Z.of_nat 2) with 65536. change (2 ^ (16 - 1)) with 32768.
  change (2 ^ 16) with 65536. change (2 ^ 15) with 32768 in H.
  destruct (v mod 65536 <? 32768) eqn:E; lia.
Qed.

Lemma signed32_roundtrip v :
  - 2 ^ 31 <= v < 2 ^ 31 -> to_signed 32 (be_val (be_enc 4 v)) = v.
Proof.
  intros H; rewrite be_val_enc. unfold to_signed.
  change (256 ^ Z.of_nat 4) with 4294967296. change (2 ^ (32 - 1)) with 2147483648.
  change (2 ^ 32) with 4294967296. change (2 ^ 31) with 2147483648 in H.
  destruct (v mod 4294967296 <? 2147483648) eqn:E; lia.
Qed.

Lemma unsigned32_roundtrip v :
  0 <= v < 2 ^ 32 -> be_val (be_enc 4 v) = v.
Proof.
  intros H; rewrite be_val_enc. change (256 ^ Z.of_nat 4) with 4294967296.
  change (2 ^ 32) with 4294967296 in H. apply Z.mod_small; lia.
Qed.

(* slicing a buffer built by appending *)
Lemma slice_app_mid {A} (a b c : list A) :
  slice (a ++ b ++ c) (zlen a) (zlen a + zlen b) = b.
Proof.
  unfold slice, zlen.
  replace (Z.to_nat (Z.of_nat (length a))) with (length a + 0)%nat by lia.
  rewrite skipn_app, skipn_all2 by lia. cbn [app].
  replace (length a + 0 - length a)%nat with 0%nat by lia. cbn [skipn].
  replace (Z.to_nat (Z.of_nat (length a) + Z.of_nat (length b) - Z.of_nat (length a)))
    with (length b + 0)%nat by lia.
  rewrite firstn_app_2. cbn [firstn]. apply app_nil_r.
Qed.

(* Reading back what the encoder wrote: a decoder positioned at the start of
   enc_u16 / enc_u32 / enc_data output (with anything before and after). *)
Definition at_pos (pre rest : bytes) (e : bool) : dec := mkDec (pre ++ rest) (zlen pre) e.

Lemma at_pos_wf pre rest e : wf (at_pos pre rest e).
Proof. unfold wf, at_pos, dlen; cbn. rewrite zlen_app. pose proof (zlen_nonneg pre); pose proof (zlen_nonneg rest); lia. Qed.

Lemma read_prim_at_pos pre x rest e k sg :
  zlen x = k -> 0 <= k ->
  read_prim (at_pos pre (x ++ rest) e) k sg false =
    (at_pos (pre ++ x) rest e, if sg then to_signed (8 * k) (be_val x) else be_val x).
Proof.
  intros Hx Hk.
  rewrite read_fits; [| apply at_pos_wf | exact Hk |].
  - unfold at_pos, advance; cbn [d_data d_off d_err].
    rewrite <- Hx, slice_app_mid. f_equal.
    rewrite zlen_app, <- app_assoc. reflexivity.
  - unfold at_pos, dlen; cbn. rewrite !zlen_app. pose proof (zlen_nonneg rest). lia.
Qed.

Lemma decode_int16 pre rest e v :
  - 2 ^ 15 <= v < 2 ^ 15 ->
  step (at_pos pre (be_enc 2 v ++ rest) e) OInt16 = Ok (at_pos (pre ++ be_enc 2 v) rest e, VNum v).
Proof.
  intros Hv; cbn [step]. rewrite (read_prim_at_pos pre (be_enc 2 v) rest e 2 true).
  - change (8 * 2) with 16. rewrite signed16_roundtrip by exact Hv. reflexivity.
  - apply be_enc_length.
  - lia.
Qed.

Lemma decode_int32 pre rest e v :
  - 2 ^ 31 <= v < 2 ^ 31 ->
  step (at_pos pre (be_enc 4 v ++ rest) e) OInt32 = Ok (at_pos (pre ++ be_enc 4 v) rest e, VNum v).
Proof.
  intros Hv; cbn [step]. rewrite (read_prim_at_pos pre (be_enc 4 v) rest e 4 true).
  - change (8 * 4) with 32. rewrite signed32_roundtrip by exact Hv. reflexivity.
  - apply be_enc_length.
  - lia.
Qed.

Lemma decode_byte pre rest e b :
  (b < 256)%N ->
  step (at_pos pre (b :: rest) e) OByte = Ok (at_pos (pre ++ [b]) rest e, VNum (Z.of_N b)).
Proof.
  intros Hb; cbn [step]. change (b :: rest) with ([b] ++ rest).
  rewrite (read_prim_at_pos pre [b] rest e 1 false); [|reflexivity|lia].
  unfold be_val; cbn. reflexivity.
Qed.

Lemma copy_at_pos pre x rest e :
  copy (at_pos pre (x ++ rest) e) (zlen x) = (at_pos (pre ++ x) rest e, VBytes x).
Proof.
  unfold copy. pose proof (zlen_nonneg x) as Hx.
  assert (Hn : (zlen x <? 0) = false) by lia. rewrite Hn.
  assert (Hb : has_bytes (at_pos pre (x ++ rest) e) (zlen x) = true).
  { apply has_bytes_spec. unfold at_pos, dlen; cbn. rewrite !zlen_app.
    pose proof (zlen_nonneg pre); pose proof (zlen_nonneg rest); lia. }
  rewrite Hb. unfold at_pos, advance, at_cursor; cbn [d_data d_off d_err].
  rewrite slice_app_mid. f_equal. rewrite zlen_app, <- app_assoc. reflexivity.
Qed.

(* Data() after WriteData(v,false): for every string shorter than 2^15 *)
Lemma decode_data pre rest e v :
  zlen v < 2 ^ 15 ->
  step (at_pos pre (enc_data [] v false ++ rest) e) OData
  = Ok (at_pos (pre ++ enc_data [] v false) rest e, VBytes v).
Proof.
  intros Hv. unfold enc_data, enc_u16. cbn [app step].
  rewrite <- app_assoc.
  rewrite (read_prim_at_pos pre (be_enc 2 (zlen v)) (v ++ rest) e 2 true);
    [|apply be_enc_length|lia].
  change (8 * 2) with 16.
  pose proof (zlen_nonneg v).
  rewrite signed16_roundtrip by (change (2 ^ 15) with 32768 in *; lia).
  rewrite copy_at_pos. rewrite <- app_assoc. reflexivity.
Qed.

Lemma cursor_in_bounds data ops d' :
  run_state (new_decoder data) ops = Some d' ->
  (0 <= d_off d' <= zlen data) /\ d_data d' = data.
Proof.
  intros H. destruct (run_state_wf ops _ _ (new_decoder_wf data) H) as [Hw Hd].
  cbn in Hd. split; [|exact Hd]. unfold wf, dlen in Hw. rewrite Hd in Hw. exact Hw.
Qed.

Lemma model_meets_prop data ops : prop_b data ops (run (new_decoder data) ops) = true.
Proof.
  unfold prop_b.
  pose proof (run_trace_sig ops (new_decoder data) (new_decoder_wf data)) as H.
  cbn [new_decoder d_data d_off] in H. rewrite H. reflexivity.
Qed.
