(* C17 (IPP part) - executable model of services/ipp/{values,group,message}.go and of
   the glue of ipp.go from request body to reply body and event fields.
   Definitions only.  Built on the decoder model of C17/Model.v (dec, read_prim, copy,
   has_bytes): every decoder call of the Go code is one of the d_* wrappers below.

   The code is modelled as it is after the fix: commits 02601aa (missing end tag),
   2160ad7 (boolean), 4b2729a (integer 1setOf), b5970f8 (rangeOfInteger), 9cbf4b3
   (uninterpreted value tags) and 544d664 (print job, non-string attributes).

   Numbers are [Z]: bytes read by Byte() are 0..255, Int16()/Int32() results are the
   signed values.  Loops are on explicit fuel ([RFuel] = out of fuel); IppProofs.v shows
   that [fuel_for] suffices for every body and that more fuel never changes a result. *)
From HT Require Import Common.Bytes C17.Model.
From Coq Require Import String Ascii.
Open Scope Z_scope.

(* ---- decoder calls used by the IPP code (services/decoder) ---- *)
Definition d_byte (d : dec) : dec * Z := read_prim d 1 false false.
Definition d_int16 (d : dec) : dec * Z := read_prim d 2 true false.
Definition d_int32 (d : dec) : dec * Z := read_prim d 4 true false.
Definition val_bytes (v : val) : bytes := match v with VBytes l => l | _ => [] end.
(* Data(): Int16 then Copy of the signed length *)
Definition d_getdata (d : dec) : dec * bytes :=
  let '(d1, l) := d_int16 d in
  let '(d2, v) := copy d1 l in (d2, val_bytes v).
Definition d_seek (d : dec) (n : Z) : dec :=
  if has_bytes d n then advance d n else set_err d.

(* ---- message structure (values.go, group.go, message.go) ---- *)
Inductive attr :=
| AInt (tag : Z) (name : bytes) (vals : list Z)          (* valInt *)
| AStr (tag : Z) (name : bytes) (vals : list bytes)      (* valStr *)
| ABool (tag : Z) (name : bytes) (vals : list bool)      (* valBool *)
| ARange (tag : Z) (name : bytes) (lo hi : Z).           (* valRangeInt *)

Record group := mkGroup { g_tag : Z; g_attrs : list attr }.

(* ippMsg: [m_groups] is the Go field [attributes] (for a decoded request it ends with
   the end-of-attributes group); [m_op] is statusCode (operation id in a request). *)
Record msg := mkMsg {
  m_maj : Z; m_min : Z; m_op : Z; m_reqid : Z;
  m_groups : list group; m_data : bytes }.

Definition attr_tag (a : attr) : Z :=
  match a with AInt t _ _ | AStr t _ _ | ABool t _ _ | ARange t _ _ _ => t end.
Definition attr_name (a : attr) : bytes :=
  match a with AInt _ n _ | AStr _ n _ | ABool _ n _ | ARange _ n _ _ => n end.

(* tags (message.go) *)
Definition T_OP := 1.  Definition T_JOB := 2.  Definition T_END := 3.
Definition T_PRINTER := 4.  Definition T_UNSUP := 5.
Definition V_INT := 33.      (* 0x21 *)
Definition V_BOOL := 34.     (* 0x22 *)
Definition V_ENUM := 35.     (* 0x23 *)
Definition V_RANGE := 51.    (* 0x33 *)
Definition V_TEXT := 65.     (* 0x41 *)
Definition V_NAME := 66.     (* 0x42 *)
Definition V_KEYWORD := 68.  (* 0x44 *)
Definition V_URI := 69.      (* 0x45 *)
Definition V_CHARSET := 71.  (* 0x47 *)
Definition V_LANG := 72.     (* 0x48 *)
Definition V_MIME := 73.     (* 0x49 *)
Definition OP_PRINT_JOB := 2.
Definition OP_VALIDATE_JOB := 4.
Definition OP_GET_JOB_ATTR := 9.
Definition OP_GET_PRINTER_ATTR := 11.
Definition OP_CUPS_GET_DEVICES := 16395.  (* 0x400b *)

(* ---- encoders (valX.encode, attribGroup.encode, ippMsg.encode) ---- *)
Definition enc_tag (t : Z) : bytes := [Z.to_N t].
Definition enc_name (name : bytes) (first : bool) : bytes := enc_data [] name (negb first).

(* one value of an attribute: tag, name (zero length for an additional value), value *)
Definition enc_int_val (v : Z) : bytes := be_enc 2 4 ++ be_enc 4 v.
Definition enc_str_val (v : bytes) : bytes := enc_data [] v false.
Definition enc_bool_val (b : bool) : bytes := be_enc 2 1 ++ [if b then 1%N else 0%N].

Fixpoint enc_vals {V} (ev : V -> bytes) (t : Z) (name : bytes) (first : bool) (vs : list V) : bytes :=
  match vs with
  | [] => []
  | v :: r => enc_tag t ++ enc_name name first ++ ev v ++ enc_vals ev t name false r
  end.

Definition enc_attr (a : attr) : bytes :=
  match a with
  | AInt t n vs => enc_vals enc_int_val t n true vs
  | AStr t n vs => enc_vals enc_str_val t n true vs
  | ABool t n vs => enc_vals enc_bool_val t n true vs
  | ARange t n lo hi => enc_tag t ++ enc_name n true ++ be_enc 2 8 ++ be_enc 4 lo ++ be_enc 4 hi
  end.

Fixpoint enc_attrs (l : list attr) : bytes :=
  match l with [] => [] | a :: r => enc_attr a ++ enc_attrs r end.
Definition enc_group (g : group) : bytes := enc_tag (g_tag g) ++ enc_attrs (g_attrs g).
Fixpoint enc_groups (l : list group) : bytes :=
  match l with [] => [] | g :: r => enc_group g ++ enc_groups r end.

(* ippMsg.encode: header and groups; the document is not written *)
Definition enc_msg (m : msg) : bytes :=
  be_enc 1 (m_maj m) ++ be_enc 1 (m_min m) ++ be_enc 2 (m_op m) ++ be_enc 4 (m_reqid m)
  ++ enc_groups (m_groups m).
(* a request on the wire: the encoded message followed by the document *)
Definition enc_request (m : msg) : bytes := enc_msg m ++ m_data m.

(* ---- value decoders (values.go) ---- *)
Inductive res (A : Type) := ROk (a : A) | RErr | RFuel.
Arguments ROk {A} a.  Arguments RErr {A}.  Arguments RFuel {A}.

(* The "additional values" loop of valInt / valStr / valBool.decode.  Entered with the
   look-ahead byte [vtag] already read:
     for vtag == v.tag { if l := Int16(); l == 0 { v := rd(); vtag = Byte() }
                         else { Seek(-2); break } }
   [None] = out of fuel. *)
Fixpoint more {V} (rd : dec -> dec * V) (cont : Z -> bool) (fuel : nat)
         (d : dec) (vtag : Z) (acc : list V) : option (dec * list V) :=
  if cont vtag then
    match fuel with
    | O => None
    | S f =>
        let '(d1, l) := d_int16 d in
        if l =? 0 then
          let '(d2, v) := rd d1 in
          let '(d3, vt) := d_byte d2 in
          more rd cont f d3 vt (acc ++ [v])
        else Some (d_seek d1 (-2), acc)
    end
  else Some (d, acc).

(* look-ahead byte, loop, Seek(-1) *)
Definition tail_vals {V} (rd : dec -> dec * V) (cont : Z -> bool) (fuel : nat)
           (d : dec) (acc : list V) : option (dec * list V) :=
  let '(d1, vt) := d_byte d in
  match more rd cont fuel d1 vt acc with
  | Some (d2, vs) => Some (d_seek d2 (-1), vs)
  | None => None
  end.

(* value readers: value-length field (read away) then the value *)
Definition rd_int (d : dec) : dec * Z := let '(d1, _) := d_int16 d in d_int32 d1.
Definition rd_str (d : dec) : dec * bytes := d_getdata d.
Definition is_one (b : Z) : bool := b =? 1.
Definition rd_bool (d : dec) : dec * bool :=
  let '(d1, _) := d_int16 d in let '(d2, b) := d_byte d1 in (d2, is_one b).

(* the common shape of valInt / valStr / valBool.decode: name, first value, additional
   values; the three Go functions differ in the value reader only *)
Definition dec_multi {V} (rd : dec -> dec * V) (mk : bytes -> list V -> attr)
           (fuel : nat) (d : dec) (tag : Z) : option (dec * attr) :=
  let '(d1, name) := d_getdata d in
  let '(d2, v) := rd d1 in
  match tail_vals rd (Z.eqb tag) fuel d2 [v] with
  | Some (d3, vs) => Some (d3, mk name vs)
  | None => None
  end.

Definition dec_str (fuel : nat) (d : dec) (tag : Z) := dec_multi rd_str (AStr tag) fuel d tag.
Definition dec_int (fuel : nat) (d : dec) (tag : Z) := dec_multi rd_int (AInt tag) fuel d tag.
Definition dec_bool (fuel : nat) (d : dec) (tag : Z) := dec_multi rd_bool (ABool tag) fuel d tag.

(* valRangeInt.decode *)
Definition dec_range (d : dec) (tag : Z) : dec * attr :=
  let '(d1, name) := d_getdata d in
  let '(d2, _) := d_int16 d1 in
  let '(d3, lo) := d_int32 d2 in
  let '(d4, hi) := d_int32 d3 in
  (d4, ARange tag name lo hi).

(* ---- attribGroup.decode (group.go) ---- *)
Inductive kind := KInt | KBool | KStr | KRange.

(* the switch on the value tag: which ValueType is allocated (default: valStr) *)
Definition kind_of (vtag : Z) : kind :=
  if (vtag =? V_INT) || (vtag =? V_ENUM) then KInt
  else if vtag =? V_BOOL then KBool
  else if vtag =? V_RANGE then KRange
  else KStr.

Definition lift {A} (o : option A) : res A := match o with Some a => ROk a | None => RFuel end.

(* v.decode(dec) - the error it returns is dropped by the caller *)
Definition dec_value (n : nat) (d : dec) (vtag : Z) : res (dec * attr) :=
  match kind_of vtag with
  | KInt => lift (dec_int n d vtag)
  | KBool => lift (dec_bool n d vtag)
  | KStr => lift (dec_str n d vtag)
  | KRange => ROk (dec_range d vtag)
  end.

(* for vtag := Byte(); vtag > 5; vtag = Byte() { if LastError != nil {return err}; ... }
   Seek(-1).  [racc] is ag.val reversed; [n] is the fuel handed to the value loops. *)
Fixpoint dec_group_loop (n fuel : nat) (d : dec) (racc : list attr)
  : res (dec * list attr) :=
  let '(d1, vtag) := d_byte d in
  if vtag >? 5 then
    match fuel with
    | O => RFuel
    | S f =>
        if d_err d1 then RErr else
        match dec_value n d1 vtag with
        | ROk (d2, a) => dec_group_loop n f d2 (a :: racc)
        | RErr => RErr | RFuel => RFuel
        end
    end
  else ROk (d_seek d1 (-1), rev racc).

(* ---- ippMsg.decode (message.go) ---- *)
(* for dtag := Byte(); dtag != 3; dtag = Byte() {
     if LastError != nil {return err}; group.decode; append } *)
Fixpoint dec_msg_loop (n fuel : nat) (d : dec) (racc : list group)
  : res (dec * list group) :=
  let '(d1, dtag) := d_byte d in
  if dtag =? T_END then ROk (d1, rev racc)
  else
    match fuel with
    | O => RFuel
    | S f =>
        if d_err d1 then RErr else
        match dec_group_loop n n d1 [] with
        | ROk (d2, attrs) => dec_msg_loop n f d2 (mkGroup dtag attrs :: racc)
        | RErr => RErr | RFuel => RFuel
        end
    end.

Definition dec_msg (n : nat) (raw : bytes) : res msg :=
  let d := new_decoder raw in
  let '(d1, maj) := d_byte d in
  let '(d2, mi) := d_byte d1 in
  let '(d3, op) := d_int16 d2 in
  let '(d4, rid) := d_int32 d3 in
  match dec_msg_loop n n d4 [] with
  | ROk (d5, gs) =>
      let '(d6, v) := copy d5 (avail d5) in
      if d_err d6 then RErr
      else ROk (mkMsg maj mi op rid (gs ++ [mkGroup T_END []]) (val_bytes v))
  | RErr => RErr | RFuel => RFuel
  end.

(* ---- ippHandler (message.go) and the reply/event of ipp.go ---- *)
Fixpoint str (s : string) : bytes :=
  match s with EmptyString => [] | String a r => N_of_ascii a :: str r end.

(* group.go [model] plus the printer-name appended by one call of IPP() with the
   default configuration (PrinterName "") *)
Definition printer_model : group := mkGroup T_PRINTER [
  AStr V_KEYWORD (str "compression-supported") [str "none"];
  ARange V_RANGE (str "copies-supported") 1 1;
  AStr V_MIME (str "document-format-supported")
       [str "application/octet-stream"; str "image/pwg-raster"; str "application/pdf"];
  AStr V_NAME (str "marker-colors") [str "black"; str "cyan"; str "magenta"; str "yellow"];
  AInt V_INT (str "marker-high-levels") [100; 100; 100; 100];
  AInt V_INT (str "marker-levels") [80; 100; 100; 100];
  AInt V_INT (str "marker-low-levels") [10; 10; 10; 10];
  AStr V_KEYWORD (str "media-cols-supported") [str "media-type"; str "media-size"];
  AInt V_ENUM (str "operations-supported") [2; 4; 11];
  AStr V_KEYWORD (str "print-color-mode-supported") [str "auto"; str "color"; str "monochrome"];
  ABool V_BOOL (str "printer-is-accepting-jobs") [true];
  AInt V_ENUM (str "printer-state") [3];
  AStr V_KEYWORD (str "printer-state-reasons") [str "none"];
  AStr V_NAME (str "printer-name") [[]]
].

Definition N_URI := str "printer-uri".
Definition N_USER := str "requesting-user-name".
Definition N_FORMAT := str "document-format".
Definition N_JOB := str "job-name".

Definition is_cs_lang (a : attr) : bool := (attr_tag a =? V_CHARSET) || (attr_tag a =? V_LANG).
Definition is_op_group (g : group) : bool := g_tag g =? T_OP.

(* setOpAttribResponse for the first operation group (if any) *)
Definition op_echo (gs : list group) : list group :=
  match find is_op_group gs with
  | Some g => [mkGroup (g_tag g) (filter is_cs_lang (g_attrs g))]
  | None => []
  end.

(* the extra fields of the response: uri, username, format, jobname *)
Record pj := mkPj { pj_uri : bytes; pj_user : bytes; pj_format : bytes; pj_job : bytes }.
Definition pj_empty := mkPj [] [] [] [].

(* setPrintJobResponse: walks the first operation group; values that are not valStr
   are skipped *)
Fixpoint pj_scan (l : list attr) (p : pj) : pj :=
  match l with
  | [] => p
  | AStr _ name vals :: r =>
      let v0 := hd [] vals in
      let p' :=
        if eqb_bytes name N_URI then mkPj v0 (pj_user p) (pj_format p) (pj_job p)
        else if eqb_bytes name N_USER then mkPj (pj_uri p) v0 (pj_format p) (pj_job p)
        else if eqb_bytes name N_FORMAT then mkPj (pj_uri p) (pj_user p) v0 (pj_job p)
        else if eqb_bytes name N_JOB then mkPj (pj_uri p) (pj_user p) (pj_format p) v0
        else p in
      pj_scan r p'
  | _ :: r => pj_scan r p
  end.

Definition print_job_fields (gs : list group) : pj :=
  match find is_op_group gs with
  | Some g => pj_scan (g_attrs g) pj_empty
  | None => pj_empty
  end.

(* What one HTTP POST produces: the reply body and the event fields ipp.uri, ipp.user,
   ipp.job-name, ipp.data; or no reply at all (Handle returned the decode error); or no
   return (out of fuel - excluded by IppProofs.dec_msg_terminates). *)
Inductive hres :=
| HReply (body uri user job data : bytes)
| HNoReply | HHang.

(* the response message of ippHandler and its extra fields *)
Definition response_of (body : msg) : msg * pj :=
  let op := m_op body in
  let extra :=
    if op =? OP_GET_PRINTER_ATTR then [printer_model]
    else if op =? OP_CUPS_GET_DEVICES then [mkGroup T_PRINTER []]
    else [] in
  let p := if op =? OP_PRINT_JOB then print_job_fields (m_groups body) else pj_empty in
  (mkMsg (m_maj body) (m_min body) 0 (m_reqid body)
         (op_echo (m_groups body) ++ extra ++ [mkGroup T_END []]) (m_data body), p).

Definition handle_msg (body : msg) : hres :=
  let '(r, p) := response_of body in
  HReply (enc_msg r) (pj_uri p) (pj_user p) (pj_job p) (m_data body).

Definition handler (n : nat) (raw : bytes) : hres :=
  match dec_msg n raw with
  | ROk body => handle_msg body
  | RErr => HNoReply
  | RFuel => HHang
  end.

(* fuel that the correspondence run gives the model: more than the number of bytes *)
Definition fuel_for (raw : bytes) : nat := S (S (List.length raw)).
