(* C17 (IPP part) - executable model of services/ipp/{values,group,message}.go and of
   the glue of ipp.go from request body to reply body and event fields.
   Definitions only.  Built on the decoder model of C17/Model.v (dec, read_prim, copy,
   has_bytes): every decoder call of the Go code is one of the d_* wrappers below.

   The code is modelled AS CODED.  Each proposed repair (fixes/C17-ipp-*.patch) is a
   boolean switch of [fixes]; [as_coded] (all false) is what the correspondence run
   compares with /repo, [patched] (all true) is the code after all repairs.

   Numbers are [Z]: bytes read by Byte() are 0..255, Int16()/Int32() results are the
   signed values.  Loops are on explicit fuel ([RFuel] = out of fuel). *)
From HT Require Import Common.Bytes C17.Model.
From Coq Require Import String Ascii.
Open Scope Z_scope.

Record fixes := mkFixes {
  fx_bool : bool;      (* C17-ipp-boolean-decode.patch *)
  fx_int : bool;       (* C17-ipp-integer-1setof.patch *)
  fx_range : bool;     (* C17-ipp-range-of-integer.patch *)
  fx_unknown : bool;   (* C17-ipp-unknown-value-tag.patch *)
  fx_endtag : bool;    (* C17-ipp-missing-end-tag.patch *)
  fx_printjob : bool   (* C17-ipp-print-job-nonstring.patch *)
}.
Definition as_coded : fixes := mkFixes false false false false false false.
Definition patched : fixes := mkFixes true true true true true true.

(* ---- decoder calls used by the IPP code (services/decoder) ---- *)
Definition d_byte (d : dec) : dec * Z := read_prim d 1 false false.
Definition d_int16 (d : dec) : dec * Z := read_prim d 2 true false.
Definition d_int32 (d : dec) : dec * Z := read_prim d 4 true false.
Definition val_bytes (v : val) : bytes := match v with VBytes l => l | _ => [] end.
(* Data(): Int16 then Copy of the signed length *)
Definition d_getdata (d : dec) : dec * bytes :=
  let '(d1, l) := d_int16 d in
  let '(d2, v) := copy d1 l in (d2, val_bytes v).
Definition d_seek (d : dec) (n : Z) : dec :=
  if has_bytes d n then advance d n else set_err d.

(* ---- message structure (values.go, group.go, message.go) ---- *)
Inductive attr :=
| AInt (tag : Z) (name : bytes) (vals : list Z)          (* valInt *)
| AStr (tag : Z) (name : bytes) (vals : list bytes)      (* valStr *)
| ABool (tag : Z) (name : bytes) (vals : list bool)      (* valBool *)
| ARange (tag : Z) (name : bytes) (lo hi : Z).           (* valRangeInt *)

Record group := mkGroup { g_tag : Z; g_attrs : list attr }.

(* ippMsg: [m_groups] is the Go field [attributes] (for a decoded request it ends with
   the end-of-attributes group); [m_op] is statusCode (operation id in a request). *)
Record msg := mkMsg {
  m_maj : Z; m_min : Z; m_op : Z; m_reqid : Z;
  m_groups : list group; m_data : bytes }.

Definition attr_tag (a : attr) : Z :=
  match a with AInt t _ _ | AStr t _ _ | ABool t _ _ | ARange t _ _ _ => t end.
Definition attr_name (a : attr) : bytes :=
  match a with AInt _ n _ | AStr _ n _ | ABool _ n _ | ARange _ n _ _ => n end.

(* tags (message.go) *)
Definition T_OP := 1.  Definition T_JOB := 2.  Definition T_END := 3.
Definition T_PRINTER := 4.  Definition T_UNSUP := 5.
Definition V_INT := 33.      (* 0x21 *)
Definition V_BOOL := 34.     (* 0x22 *)
Definition V_ENUM := 35.     (* 0x23 *)
Definition V_RANGE := 51.    (* 0x33 *)
Definition V_TEXT := 65.     (* 0x41 *)
Definition V_NAME := 66.     (* 0x42 *)
Definition V_KEYWORD := 68.  (* 0x44 *)
Definition V_URI := 69.      (* 0x45 *)
Definition V_CHARSET := 71.  (* 0x47 *)
Definition V_LANG := 72.     (* 0x48 *)
Definition V_MIME := 73.     (* 0x49 *)
Definition OP_PRINT_JOB := 2.
Definition OP_VALIDATE_JOB := 4.
Definition OP_GET_JOB_ATTR := 9.
Definition OP_GET_PRINTER_ATTR := 11.
Definition OP_CUPS_GET_DEVICES := 16395.  (* 0x400b *)

(* ---- encoders (valX.encode, attribGroup.encode, ippMsg.encode) ---- *)
Definition enc_tag (t : Z) : bytes := [Z.to_N t].
Definition enc_name (name : bytes) (first : bool) : bytes := enc_data [] name (negb first).

(* one value of an attribute: tag, name (zero length for an additional value), value *)
Definition enc_int_val (v : Z) : bytes := be_enc 2 4 ++ be_enc 4 v.
Definition enc_str_val (v : bytes) : bytes := enc_data [] v false.
Definition enc_bool_val (b : bool) : bytes := be_enc 2 1 ++ [if b then 1%N else 0%N].

Fixpoint enc_vals {V} (ev : V -> bytes) (t : Z) (name : bytes) (first : bool) (vs : list V) : bytes :=
  match vs with
  | [] => []
  | v :: r => enc_tag t ++ enc_name name first ++ ev v ++ enc_vals ev t name false r
  end.

Definition enc_attr (a : attr) : bytes :=
  match a with
  | AInt t n vs => enc_vals enc_int_val t n true vs
  | AStr t n vs => enc_vals enc_str_val t n true vs
  | ABool t n vs => enc_vals enc_bool_val t n true vs
  | ARange t n lo hi => enc_tag t ++ enc_name n true ++ be_enc 2 8 ++ be_enc 4 lo ++ be_enc 4 hi
  end.

Fixpoint enc_attrs (l : list attr) : bytes :=
  match l with [] => [] | a :: r => enc_attr a ++ enc_attrs r end.
Definition enc_group (g : group) : bytes := enc_tag (g_tag g) ++ enc_attrs (g_attrs g).
Fixpoint enc_groups (l : list group) : bytes :=
  match l with [] => [] | g :: r => enc_group g ++ enc_groups r end.

(* ippMsg.encode: header and groups; the document is not written *)
Definition enc_msg (m : msg) : bytes :=
  be_enc 1 (m_maj m) ++ be_enc 1 (m_min m) ++ be_enc 2 (m_op m) ++ be_enc 4 (m_reqid m)
  ++ enc_groups (m_groups m).
(* a request on the wire: the encoded message followed by the document *)
Definition enc_request (m : msg) : bytes := enc_msg m ++ m_data m.

(* ---- value decoders (values.go) ---- *)
Inductive res (A : Type) := ROk (a : A) | RErr | RPanic | RFuel.
Arguments ROk {A} a.  Arguments RErr {A}.  Arguments RPanic {A}.  Arguments RFuel {A}.

(* The "additional values" loop shared by the value decoders.  Entered with the
   look-ahead byte [vtag] already read:
     for cont(vtag) { if l := Int16(); l == 0 { v := rd(); vtag = Byte() }
                      else { Seek(-2); break } }
   [None] = out of fuel. *)
Fixpoint more {V} (rd : dec -> dec * V) (cont : Z -> bool) (fuel : nat)
         (d : dec) (vtag : Z) (acc : list V) : option (dec * list V) :=
  if cont vtag then
    match fuel with
    | O => None
    | S f =>
        let '(d1, l) := d_int16 d in
        if l =? 0 then
          let '(d2, v) := rd d1 in
          let '(d3, vt) := d_byte d2 in
          more rd cont f d3 vt (acc ++ [v])
        else Some (d_seek d1 (-2), acc)
    end
  else Some (d, acc).

(* look-ahead byte, loop, Seek(-1) *)
Definition tail_vals {V} (rd : dec -> dec * V) (cont : Z -> bool) (fuel : nat)
           (d : dec) (acc : list V) : option (dec * list V) :=
  let '(d1, vt) := d_byte d in
  match more rd cont fuel d1 vt acc with
  | Some (d2, vs) => Some (d_seek d2 (-1), vs)
  | None => None
  end.

(* value readers: value-length field then the value *)
Definition rd_int (d : dec) : dec * Z := let '(d1, _) := d_int16 d in d_int32 d1.
Definition rd_str (d : dec) : dec * bytes := d_getdata d.
Definition is_one (b : Z) : bool := b =? 1.
(* as coded: the 2-byte value length is read with one Byte() for the first value and
   not at all for an additional value *)
Definition rd_bool_first_coded (d : dec) : dec * bool :=
  let '(d1, _) := d_byte d in let '(d2, b) := d_byte d1 in (d2, is_one b).
Definition rd_bool_more_coded (d : dec) : dec * bool :=
  let '(d1, b) := d_byte d in (d1, is_one b).
Definition rd_bool (d : dec) : dec * bool :=
  let '(d1, _) := d_int16 d in let '(d2, b) := d_byte d1 in (d2, is_one b).

(* valStr.decode *)
Definition dec_str (fuel : nat) (d : dec) (tag : Z) : option (dec * attr) :=
  let '(d1, name) := d_getdata d in
  let '(d2, v) := rd_str d1 in
  match tail_vals rd_str (Z.eqb tag) fuel d2 [v] with
  | Some (d3, vs) => Some (d3, AStr tag name vs)
  | None => None
  end.

(* valInt.decode as coded: at most one additional value, no loop *)
Definition dec_int_coded (d : dec) (tag : Z) : dec * attr :=
  let '(d1, name) := d_getdata d in
  let '(d2, v1) := rd_int d1 in
  let '(d3, vtag) := d_byte d2 in
  if vtag =? tag then
    let '(d4, l) := d_int16 d3 in
    if l =? 0 then
      let '(d5, v2) := rd_int d4 in (d5, AInt tag name [v1; v2])
    else (d_seek d4 (-3), AInt tag name [v1])
  else (d_seek d3 (-1), AInt tag name [v1]).

(* valInt.decode after C17-ipp-integer-1setof.patch: same loop as valStr *)
Definition dec_int_fixed (fuel : nat) (d : dec) (tag : Z) : option (dec * attr) :=
  let '(d1, name) := d_getdata d in
  let '(d2, v) := rd_int d1 in
  match tail_vals rd_int (Z.eqb tag) fuel d2 [v] with
  | Some (d3, vs) => Some (d3, AInt tag name vs)
  | None => None
  end.

(* valBool.decode as coded: loops while the look-ahead byte DIFFERS from the tag *)
Definition dec_bool_coded (fuel : nat) (d : dec) (tag : Z) : option (dec * attr) :=
  let '(d1, name) := d_getdata d in
  let '(d2, b) := rd_bool_first_coded d1 in
  match tail_vals rd_bool_more_coded (fun vt => negb (vt =? tag)) fuel d2 [b] with
  | Some (d3, vs) => Some (d3, ABool tag name vs)
  | None => None
  end.

(* valBool.decode after C17-ipp-boolean-decode.patch *)
Definition dec_bool_fixed (fuel : nat) (d : dec) (tag : Z) : option (dec * attr) :=
  let '(d1, name) := d_getdata d in
  let '(d2, b) := rd_bool d1 in
  match tail_vals rd_bool (Z.eqb tag) fuel d2 [b] with
  | Some (d3, vs) => Some (d3, ABool tag name vs)
  | None => None
  end.

(* valRangeInt.decode (reached only after C17-ipp-range-of-integer.patch) *)
Definition dec_range (d : dec) (tag : Z) : dec * attr :=
  let '(d1, name) := d_getdata d in
  let '(d2, _) := d_int16 d1 in
  let '(d3, lo) := d_int32 d2 in
  let '(d4, hi) := d_int32 d3 in
  (d4, ARange tag name lo hi).

(* ---- attribGroup.decode (group.go) ---- *)
Inductive kind := KInt | KBool | KStr | KRange | KNil.

(* the switch on the value tag: which ValueType is allocated (KNil: none, v stays nil) *)
Definition kind_of (fx : fixes) (vtag : Z) : kind :=
  if (vtag =? V_INT) || (vtag =? V_ENUM) then KInt
  else if vtag =? V_BOOL then KBool
  else if (vtag =? V_KEYWORD) || (vtag =? V_CHARSET) || (vtag =? V_URI) || (vtag =? V_LANG)
          || (vtag =? V_MIME) || (vtag =? V_TEXT) || (vtag =? V_NAME) then KStr
  else if vtag =? V_RANGE then (if fx_range fx then KRange else KInt)
  else if fx_unknown fx then KStr else KNil.

Definition lift {A} (o : option A) : res A := match o with Some a => ROk a | None => RFuel end.

(* v.decode(dec) - the error it returns is dropped by the caller *)
Definition dec_value (fx : fixes) (n : nat) (d : dec) (vtag : Z) : res (dec * attr) :=
  match kind_of fx vtag with
  | KInt => if fx_int fx then lift (dec_int_fixed n d vtag) else ROk (dec_int_coded d vtag)
  | KBool => if fx_bool fx then lift (dec_bool_fixed n d vtag) else lift (dec_bool_coded n d vtag)
  | KStr => lift (dec_str n d vtag)
  | KRange => ROk (dec_range d vtag)
  | KNil => RPanic   (* method call on a nil ValueType *)
  end.

(* for vtag := Byte(); vtag > 5; vtag = Byte() { if LastError != nil {return err}; ... }
   Seek(-1).  [racc] is ag.val reversed; [n] is the fuel handed to the value loops. *)
Fixpoint dec_group_loop (fx : fixes) (n fuel : nat) (d : dec) (racc : list attr)
  : res (dec * list attr) :=
  let '(d1, vtag) := d_byte d in
  if vtag >? 5 then
    match fuel with
    | O => RFuel
    | S f =>
        if d_err d1 then RErr else
        match dec_value fx n d1 vtag with
        | ROk (d2, a) => dec_group_loop fx n f d2 (a :: racc)
        | RErr => RErr | RPanic => RPanic | RFuel => RFuel
        end
    end
  else ROk (d_seek d1 (-1), rev racc).

(* ---- ippMsg.decode (message.go) ---- *)
(* for dtag := Byte(); dtag != 3; dtag = Byte() { group.decode; append }
   After C17-ipp-missing-end-tag.patch the body starts with a LastError check. *)
Fixpoint dec_msg_loop (fx : fixes) (n fuel : nat) (d : dec) (racc : list group)
  : res (dec * list group) :=
  let '(d1, dtag) := d_byte d in
  if dtag =? T_END then ROk (d1, rev racc)
  else
    match fuel with
    | O => RFuel
    | S f =>
        if fx_endtag fx && d_err d1 then RErr else
        match dec_group_loop fx n n d1 [] with
        | ROk (d2, attrs) => dec_msg_loop fx n f d2 (mkGroup dtag attrs :: racc)
        | RErr => RErr | RPanic => RPanic | RFuel => RFuel
        end
    end.

Definition dec_msg (fx : fixes) (n : nat) (raw : bytes) : res msg :=
  let d := new_decoder raw in
  let '(d1, maj) := d_byte d in
  let '(d2, mi) := d_byte d1 in
  let '(d3, op) := d_int16 d2 in
  let '(d4, rid) := d_int32 d3 in
  match dec_msg_loop fx n n d4 [] with
  | ROk (d5, gs) =>
      let '(d6, v) := copy d5 (avail d5) in
      if d_err d6 then RErr
      else ROk (mkMsg maj mi op rid (gs ++ [mkGroup T_END []]) (val_bytes v))
  | RErr => RErr | RPanic => RPanic | RFuel => RFuel
  end.

(* ---- ippHandler (message.go) and the reply/event of ipp.go ---- *)
Fixpoint str (s : string) : bytes :=
  match s with EmptyString => [] | String a r => N_of_ascii a :: str r end.

(* group.go [model] plus the printer-name appended by one call of IPP() with the
   default configuration (PrinterName "") *)
Definition printer_model : group := mkGroup T_PRINTER [
  AStr V_KEYWORD (str "compression-supported") [str "none"];
  ARange V_RANGE (str "copies-supported") 1 1;
  AStr V_MIME (str "document-format-supported")
       [str "application/octet-stream"; str "image/pwg-raster"; str "application/pdf"];
  AStr V_NAME (str "marker-colors") [str "black"; str "cyan"; str "magenta"; str "yellow"];
  AInt V_INT (str "marker-high-levels") [100; 100; 100; 100];
  AInt V_INT (str "marker-levels") [80; 100; 100; 100];
  AInt V_INT (str "marker-low-levels") [10; 10; 10; 10];
  AStr V_KEYWORD (str "media-cols-supported") [str "media-type"; str "media-size"];
  AInt V_ENUM (str "operations-supported") [2; 4; 11];
  AStr V_KEYWORD (str "print-color-mode-supported") [str "auto"; str "color"; str "monochrome"];
  ABool V_BOOL (str "printer-is-accepting-jobs") [true];
  AInt V_ENUM (str "printer-state") [3];
  AStr V_KEYWORD (str "printer-state-reasons") [str "none"];
  AStr V_NAME (str "printer-name") [[]]
].

Definition N_URI := str "printer-uri".
Definition N_USER := str "requesting-user-name".
Definition N_FORMAT := str "document-format".
Definition N_JOB := str "job-name".

Definition is_cs_lang (a : attr) : bool := (attr_tag a =? V_CHARSET) || (attr_tag a =? V_LANG).
Definition is_op_group (g : group) : bool := g_tag g =? T_OP.

(* setOpAttribResponse for the first operation group (if any) *)
Definition op_echo (gs : list group) : list group :=
  match find is_op_group gs with
  | Some g => [mkGroup (g_tag g) (filter is_cs_lang (g_attrs g))]
  | None => []
  end.

(* the extra fields of the response: uri, username, format, jobname *)
Record pj := mkPj { pj_uri : bytes; pj_user : bytes; pj_format : bytes; pj_job : bytes }.
Definition pj_empty := mkPj [] [] [] [].

(* setPrintJobResponse: walks the first operation group; [None] = nil dereference
   (v, _ := val.( *valStr ); v.name) on a value that is not a valStr *)
Fixpoint pj_scan (fx : fixes) (l : list attr) (p : pj) : option pj :=
  match l with
  | [] => Some p
  | AStr _ name vals :: r =>
      let v0 := hd [] vals in
      let p' :=
        if eqb_bytes name N_URI then mkPj v0 (pj_user p) (pj_format p) (pj_job p)
        else if eqb_bytes name N_USER then mkPj (pj_uri p) v0 (pj_format p) (pj_job p)
        else if eqb_bytes name N_FORMAT then mkPj (pj_uri p) (pj_user p) v0 (pj_job p)
        else if eqb_bytes name N_JOB then mkPj (pj_uri p) (pj_user p) (pj_format p) v0
        else p in
      pj_scan fx r p'
  | _ :: r => if fx_printjob fx then pj_scan fx r p else None
  end.

Definition print_job_fields (fx : fixes) (gs : list group) : option pj :=
  match find is_op_group gs with
  | Some g => pj_scan fx (g_attrs g) pj_empty
  | None => Some pj_empty
  end.

(* What one HTTP POST produces: the reply body and the event fields ipp.uri, ipp.user,
   ipp.job-name, ipp.data; or no reply at all (Handle returned the decode error); or a
   panic in the handler goroutine; or no return (out of fuel). *)
Inductive hres :=
| HReply (body uri user job data : bytes)
| HNoReply | HPanic | HHang.

Definition reply_of (body : msg) (extra : list group) (p : pj) : hres :=
  let r := mkMsg (m_maj body) (m_min body) 0 (m_reqid body)
                 (op_echo (m_groups body) ++ extra ++ [mkGroup T_END []]) [] in
  HReply (enc_msg r) (pj_uri p) (pj_user p) (pj_job p) (m_data body).

Definition handle_msg (fx : fixes) (body : msg) : hres :=
  let op := m_op body in
  if op =? OP_GET_PRINTER_ATTR then reply_of body [printer_model] pj_empty
  else if op =? OP_PRINT_JOB then
    match print_job_fields fx (m_groups body) with
    | Some p => reply_of body [] p
    | None => HPanic
    end
  else if op =? OP_CUPS_GET_DEVICES then reply_of body [mkGroup T_PRINTER []] pj_empty
  else reply_of body [] pj_empty.

Definition handler (fx : fixes) (n : nat) (raw : bytes) : hres :=
  match dec_msg fx n raw with
  | ROk body => handle_msg fx body
  | RErr => HNoReply
  | RPanic => HPanic
  | RFuel => HHang
  end.

(* fuel that the correspondence run gives the model: more than the number of bytes *)
Definition fuel_for (raw : bytes) : nat := S (S (List.length raw)).
