(* C17 (IPP part) - lemmas about the IPP model. *)
From HT Require Import Common.Bytes C17.Model C17.Check C17.Proofs C17.IppModel C17.IppCheck.
From Coq Require Import ZifyBool ZifyN ZifyNat.
From Coq Require String.
Open Scope Z_scope.
Notation str := IppModel.str.

(* ------------------------------------------------------------------ *)
(* decoder calls on a buffer positioned at the start of encoder output *)

Lemma d_byte_at pre b rest e :
  d_byte (at_pos pre (b :: rest) e) = (at_pos (pre ++ [b]) rest e, Z.of_N b).
Proof.
  unfold d_byte. change (b :: rest) with ([b] ++ rest).
  rewrite (read_prim_at_pos pre [b] rest e 1 false); [|reflexivity|lia].
  unfold be_val; cbn. reflexivity.
Qed.

Lemma d_tag_at pre t rest e :
  0 <= t -> d_byte (at_pos pre (enc_tag t ++ rest) e) = (at_pos (pre ++ enc_tag t) rest e, t).
Proof.
  intros Ht. unfold enc_tag. cbn [app]. rewrite d_byte_at. rewrite Z2N.id by exact Ht. reflexivity.
Qed.

Lemma d_int16_at pre rest e v :
  - 2 ^ 15 <= v < 2 ^ 15 ->
  d_int16 (at_pos pre (be_enc 2 v ++ rest) e) = (at_pos (pre ++ be_enc 2 v) rest e, v).
Proof.
  intros Hv. unfold d_int16.
  rewrite (read_prim_at_pos pre (be_enc 2 v) rest e 2 true); [|apply be_enc_length|lia].
  change (8 * 2) with 16. rewrite signed16_roundtrip by exact Hv. reflexivity.
Qed.

Lemma d_int32_at pre rest e v :
  - 2 ^ 31 <= v < 2 ^ 31 ->
  d_int32 (at_pos pre (be_enc 4 v ++ rest) e) = (at_pos (pre ++ be_enc 4 v) rest e, v).
Proof.
  intros Hv. unfold d_int32.
  rewrite (read_prim_at_pos pre (be_enc 4 v) rest e 4 true); [|apply be_enc_length|lia].
  change (8 * 4) with 32. rewrite signed32_roundtrip by exact Hv. reflexivity.
Qed.

Lemma enc_data_false s : enc_data [] s false = be_enc 2 (zlen s) ++ s.
Proof. reflexivity. Qed.
Lemma enc_data_true s : enc_data [] s true = be_enc 2 0.
Proof. reflexivity. Qed.

Lemma d_getdata_at pre rest e s :
  zlen s < 2 ^ 15 ->
  d_getdata (at_pos pre (enc_data [] s false ++ rest) e) = (at_pos (pre ++ enc_data [] s false) rest e, s).
Proof.
  intros Hs. unfold d_getdata. rewrite enc_data_false, <- app_assoc.
  pose proof (zlen_nonneg s).
  rewrite d_int16_at by (change (2 ^ 15) with 32768 in *; lia).
  rewrite copy_at_pos. cbn [val_bytes]. rewrite <- app_assoc. reflexivity.
Qed.

Lemma d_seek_back pre x rest e :
  d_seek (at_pos (pre ++ x) rest e) (- zlen x) = at_pos pre (x ++ rest) e.
Proof.
  unfold d_seek.
  assert (Hb : has_bytes (at_pos (pre ++ x) rest e) (- zlen x) = true).
  { apply has_bytes_spec. unfold at_pos, dlen; cbn. rewrite !zlen_app.
    pose proof (zlen_nonneg pre); pose proof (zlen_nonneg rest); pose proof (zlen_nonneg x); lia. }
  rewrite Hb. unfold at_pos, advance; cbn [d_data d_off d_err].
  rewrite zlen_app, <- app_assoc. f_equal. lia.
Qed.

Lemma d_seek_back1 pre b rest e :
  d_seek (at_pos (pre ++ [b]) rest e) (-1) = at_pos pre (b :: rest) e.
Proof. exact (d_seek_back pre [b] rest e). Qed.

Lemma be_enc2_length v : zlen (be_enc 2 v) = 2.
Proof. apply be_enc_length. Qed.

Lemma d_seek_back2 pre v rest e :
  d_seek (at_pos (pre ++ be_enc 2 v) rest e) (-2) = at_pos pre (be_enc 2 v ++ rest) e.
Proof. rewrite <- (d_seek_back pre (be_enc 2 v) rest e), be_enc2_length. reflexivity. Qed.

(* ------------------------------------------------------------------ *)
(* value readers *)

Definition int_ok (v : Z) : bool := (- 2 ^ 31 <=? v) && (v <? 2 ^ 31).
Definition str_ok (s : bytes) : bool := zlen s <? 2 ^ 15.
Definition name_ok (s : bytes) : bool := (0 <? zlen s) && (zlen s <? 2 ^ 15).

Lemma rd_int_at pre rest e v :
  int_ok v = true ->
  rd_int (at_pos pre (enc_int_val v ++ rest) e) = (at_pos (pre ++ enc_int_val v) rest e, v).
Proof.
  intros Hv. unfold rd_int, enc_int_val, int_ok in *. rewrite <- app_assoc.
  rewrite d_int16_at by (change (2 ^ 15) with 32768; lia).
  rewrite d_int32_at by lia. rewrite <- app_assoc. reflexivity.
Qed.

Lemma rd_str_at pre rest e s :
  str_ok s = true ->
  rd_str (at_pos pre (enc_str_val s ++ rest) e) = (at_pos (pre ++ enc_str_val s) rest e, s).
Proof. intros Hs. unfold rd_str, enc_str_val, str_ok in *. apply d_getdata_at. lia. Qed.

Lemma rd_bool_at pre rest e b :
  rd_bool (at_pos pre (enc_bool_val b ++ rest) e) = (at_pos (pre ++ enc_bool_val b) rest e, b).
Proof.
  unfold rd_bool, enc_bool_val. rewrite <- app_assoc.
  rewrite d_int16_at by (change (2 ^ 15) with 32768; lia).
  cbn [app]. rewrite d_byte_at. rewrite <- app_assoc. cbn [app].
  destruct b; reflexivity.
Qed.

(* ------------------------------------------------------------------ *)
(* what may follow an attribute with tag t: a byte other than t, or t followed by a
   non-zero name length (the next attribute has a name) *)
Definition follow_ok (t : Z) (rest : bytes) : Prop :=
  exists b rest', rest = b :: rest' /\
    (Z.of_N b <> t \/ exists n r, rest' = be_enc 2 n ++ r /\ 0 < n < 2 ^ 15).

Section TailVals.
  Context {V : Type} (rd : dec -> dec * V) (ev : V -> bytes) (okv : V -> bool).
  Hypothesis Hrd : forall v pre rest e, okv v = true ->
    rd (at_pos pre (ev v ++ rest) e) = (at_pos (pre ++ ev v) rest e, v).

  Lemma tail_vals_enc t name rest e :
    0 <= t -> follow_ok t rest ->
    forall vs pre acc fuel,
      forallb okv vs = true -> (length vs < fuel)%nat ->
      tail_vals rd (Z.eqb t) fuel (at_pos pre (enc_vals ev t name false vs ++ rest) e) acc
      = Some (at_pos (pre ++ enc_vals ev t name false vs) rest e, acc ++ vs).
  Proof.
    intros Ht (b & rest' & Hrest & Hfol).
    induction vs as [|v vs IH]; intros pre acc fuel Hok Hfuel.
    - cbn [enc_vals app]. rewrite !app_nil_r. subst rest. unfold tail_vals.
      rewrite d_byte_at.
      destruct fuel as [|f]; [cbn in Hfuel; lia|].
      cbn [more].
      destruct (t =? Z.of_N b) eqn:Eb.
      + destruct Hfol as [Hne|(n & r & Hr & Hn)]; [lia|]. subst rest'.
        rewrite d_int16_at by lia.
        assert (Hn0 : (n =? 0) = false) by lia. rewrite Hn0.
        rewrite d_seek_back2, d_seek_back1. reflexivity.
      + rewrite d_seek_back1. reflexivity.
    - cbn [forallb] in Hok. apply andb_true_iff in Hok as [Hv Hvs].
      cbn [enc_vals]. unfold enc_name. cbn [negb]. rewrite enc_data_true.
      rewrite <- !app_assoc. unfold tail_vals.
      rewrite d_tag_at by exact Ht.
      destruct fuel as [|f]; [cbn in Hfuel; lia|].
      cbn [more]. rewrite Z.eqb_refl.
      rewrite d_int16_at by (change (2 ^ 15) with 32768; lia).
      cbn [Z.eqb]. rewrite Hrd by exact Hv.
      specialize (IH (((pre ++ enc_tag t) ++ be_enc 2 0) ++ ev v) (acc ++ [v]) f Hvs
                     ltac:(cbn [length] in Hfuel; lia)).
      unfold tail_vals in IH.
      destruct (d_byte (at_pos (((pre ++ enc_tag t) ++ be_enc 2 0) ++ ev v)
                               (enc_vals ev t name false vs ++ rest) e)) as [d3 vt].
      rewrite IH. rewrite <- !app_assoc. reflexivity.
  Qed.
End TailVals.

(* ------------------------------------------------------------------ *)
(* supported attributes *)

Definition is_int_tag (t : Z) : bool := (t =? V_INT) || (t =? V_ENUM).
(* every value tag that attribGroup.decode keeps as strings: the seven it names and
   every other non-delimiter byte *)
Definition is_str_tag (t : Z) : bool :=
  (5 <? t) && (t <? 256) && negb (is_int_tag t) && negb (t =? V_BOOL) && negb (t =? V_RANGE).
Definition nonempty {A} (l : list A) : bool := match l with [] => false | _ => true end.

(* every value tag; names 1..2^15-1 bytes; at least one value (any number of them);
   strings below 2^15 bytes; integers in int32 *)
Definition attr_ok (a : attr) : bool :=
  match a with
  | AStr t n vs => is_str_tag t && name_ok n && nonempty vs && forallb str_ok vs
  | AInt t n vs => is_int_tag t && name_ok n && nonempty vs && forallb int_ok vs
  | ABool t n vs => (t =? V_BOOL) && name_ok n && nonempty vs
  | ARange t n lo hi => (t =? V_RANGE) && name_ok n && int_ok lo && int_ok hi
  end.

Definition body_vals {V} (ev : V -> bytes) (t : Z) (n : bytes) (vs : list V) : bytes :=
  match vs with
  | [] => []
  | v :: r => enc_name n true ++ ev v ++ enc_vals ev t n false r
  end.

(* the encoding of an attribute without its leading tag byte *)
Definition enc_attr_body (a : attr) : bytes :=
  match a with
  | AInt t n vs => body_vals enc_int_val t n vs
  | AStr t n vs => body_vals enc_str_val t n vs
  | ABool t n vs => body_vals enc_bool_val t n vs
  | ARange t n lo hi => enc_name n true ++ be_enc 2 8 ++ be_enc 4 lo ++ be_enc 4 hi
  end.

Lemma enc_attr_split a :
  attr_ok a = true -> enc_attr a = enc_tag (attr_tag a) ++ enc_attr_body a.
Proof.
  destruct a as [t n vs|t n vs|t n vs|t n lo hi]; cbn [attr_ok enc_attr attr_tag enc_attr_body];
    try (destruct vs as [|v vs]; [cbn [nonempty]; rewrite ?andb_false_r; cbn; discriminate|reflexivity]).
  reflexivity.
Qed.

Lemma str_tag_kind t : is_str_tag t = true -> kind_of t = KStr /\ 5 < t.
Proof.
  unfold is_str_tag, is_int_tag, kind_of. intros H.
  repeat (apply andb_true_iff in H as [H ?]).
  repeat match goal with Hx : negb _ = true |- _ => apply negb_true_iff in Hx; rewrite Hx end.
  split; [reflexivity|lia].
Qed.

Lemma int_tag_kind t : is_int_tag t = true -> kind_of t = KInt /\ 5 < t.
Proof.
  unfold is_int_tag. intros H.
  repeat (apply orb_true_iff in H as [H|H]); apply Z.eqb_eq in H; subst t; split; reflexivity.
Qed.

Lemma enc_name_true n : enc_name n true = enc_data [] n false.
Proof. reflexivity. Qed.

Lemma attr_ok_tag a : attr_ok a = true -> 5 < attr_tag a.
Proof.
  destruct a as [t n vs|t n vs|t n vs|t n lo hi]; cbn [attr_ok attr_tag]; intros H;
    repeat (apply andb_true_iff in H as [H ?]).
  - apply int_tag_kind, H.
  - apply str_tag_kind, H.
  - apply Z.eqb_eq in H; subst; reflexivity.
  - apply Z.eqb_eq in H; subst; reflexivity.
Qed.

(* valInt / valStr / valBool.decode on what their encode wrote *)
Lemma dec_multi_enc {V} (rd : dec -> dec * V) (ev : V -> bytes) (okv : V -> bool)
      (mk : bytes -> list V -> attr)
      (Hrd : forall v pre rest e, okv v = true ->
         rd (at_pos pre (ev v ++ rest) e) = (at_pos (pre ++ ev v) rest e, v))
      n t nm vs pre rest e :
  5 < t -> name_ok nm = true -> nonempty vs = true -> forallb okv vs = true ->
  follow_ok t rest -> (length vs < n)%nat ->
  dec_multi rd mk n (at_pos pre (body_vals ev t nm vs ++ rest) e) t
  = Some (at_pos (pre ++ body_vals ev t nm vs) rest e, mk nm vs).
Proof.
  intros Ht Hnm Hne Hok Hfol Hn.
  destruct vs as [|v1 vs]; [discriminate|].
  cbn [forallb] in Hok. apply andb_true_iff in Hok as [Hv1 Hvs].
  unfold name_ok in Hnm. cbn [body_vals]. rewrite enc_name_true, <- !app_assoc.
  unfold dec_multi. rewrite d_getdata_at by lia. rewrite Hrd by exact Hv1.
  rewrite (tail_vals_enc rd ev okv Hrd t nm rest e ltac:(lia) Hfol vs _ [v1] n Hvs
             ltac:(cbn [length] in Hn; lia)).
  cbn [app]. rewrite <- !app_assoc. reflexivity.
Qed.

Lemma dec_value_enc n a pre rest e :
  attr_ok a = true -> follow_ok (attr_tag a) rest -> (attr_nvals a < n)%nat ->
  dec_value n (at_pos pre (enc_attr_body a ++ rest) e) (attr_tag a)
  = ROk (at_pos (pre ++ enc_attr_body a) rest e, a).
Proof.
  intros Hok Hfol Hn.
  pose proof (attr_ok_tag a Hok) as Htag.
  destruct a as [t nm vs|t nm vs|t nm vs|t nm lo hi];
    cbn [attr_ok attr_tag enc_attr_body attr_nvals] in *;
    repeat (apply andb_true_iff in Hok as [Hok ?]).
  - destruct (int_tag_kind t Hok) as [Hk _]. unfold dec_value. rewrite Hk. unfold dec_int.
    rewrite (dec_multi_enc rd_int enc_int_val int_ok (AInt t)
               (fun v pre rest e H => rd_int_at pre rest e v H)) by assumption.
    reflexivity.
  - destruct (str_tag_kind t Hok) as [Hk _]. unfold dec_value. rewrite Hk. unfold dec_str.
    rewrite (dec_multi_enc rd_str enc_str_val str_ok (AStr t)
               (fun v pre rest e H => rd_str_at pre rest e v H)) by assumption.
    reflexivity.
  - apply Z.eqb_eq in Hok. subst t. unfold dec_value. change (kind_of V_BOOL) with KBool.
    unfold dec_bool.
    rewrite (dec_multi_enc rd_bool enc_bool_val (fun _ => true) (ABool V_BOOL)
               (fun v pre rest e _ => rd_bool_at pre rest e v))
      by (try assumption; clear; induction vs; cbn; auto).
    reflexivity.
  - apply Z.eqb_eq in Hok. subst t. unfold dec_value. change (kind_of V_RANGE) with KRange.
    unfold name_ok, int_ok in *. rewrite enc_name_true, <- !app_assoc.
    unfold dec_range. rewrite d_getdata_at by lia.
    rewrite d_int16_at by (change (2 ^ 15) with 32768; lia).
    rewrite !d_int32_at by lia.
    rewrite <- !app_assoc. reflexivity.
Qed.

(* ------------------------------------------------------------------ *)
(* groups *)

Definition delim_start (rest : bytes) : Prop := exists b r, rest = b :: r /\ Z.of_N b <= 5.

Lemma enc_attr_body_name fx a :
  attr_ok fx a = true ->
  exists x, enc_attr_body a = be_enc 2 (zlen (attr_name a)) ++ x /\ 0 < zlen (attr_name a) < 2 ^ 15.
Proof.
  destruct a as [t n vs|t n vs|t n vs|t n lo hi]; cbn [attr_ok attr_name enc_attr_body]; intros H;
    repeat (apply andb_true_iff in H as [H ?]);
    try (destruct vs as [|v vs]; [discriminate|]); cbn [body_vals];
    rewrite enc_name_true, enc_data_false, <- app_assoc; unfold name_ok in *;
    (eexists; split; [reflexivity|lia]).
Qed.

Lemma follow_attrs fx t attrs rest :
  5 < t -> forallb (attr_ok fx) attrs = true -> delim_start rest ->
  follow_ok t (enc_attrs attrs ++ rest).
Proof.
  intros Ht Hok (b & r & Hrest & Hb).
  destruct attrs as [|a l].
  - cbn [enc_attrs app]. exists b, r. split; [exact Hrest|left; lia].
  - cbn [forallb] in Hok. apply andb_true_iff in Hok as [Ha _].
    cbn [enc_attrs]. rewrite (enc_attr_split fx a Ha).
    destruct (enc_attr_body_name fx a Ha) as (x & Hx & Hn). rewrite Hx.
    unfold enc_tag. rewrite <- !app_assoc. cbn [app].
    eexists _, _. split; [reflexivity|]. right. eexists _, _. split; [reflexivity|exact Hn].
Qed.

Lemma dec_group_loop_enc fx n rest :
  delim_start rest ->
  forall attrs pre racc fuel,
    forallb (attr_ok fx) attrs = true ->
    forallb (fun a => Nat.ltb (attr_nvals a) n) attrs = true ->
    (length attrs < fuel)%nat ->
    dec_group_loop fx n fuel (at_pos pre (enc_attrs attrs ++ rest) false) racc
    = ROk (at_pos (pre ++ enc_attrs attrs) rest false, rev racc ++ attrs).
Proof.
  intros Hrest.
  induction attrs as [|a l IH]; intros pre racc fuel Hok Hnv Hfuel.
  - destruct Hrest as (b & r & -> & Hb). cbn [enc_attrs app]. rewrite !app_nil_r.
    destruct fuel as [|f]; [cbn in Hfuel; lia|].
    cbn [dec_group_loop]. rewrite d_byte_at.
    assert (Hgt : (Z.of_N b >? 5) = false) by lia. rewrite Hgt.
    rewrite d_seek_back1. reflexivity.
  - cbn [forallb] in Hok, Hnv.
    apply andb_true_iff in Hok as [Ha Hl]. apply andb_true_iff in Hnv as [Hna Hnl].
    pose proof (attr_ok_tag fx a Ha) as Htag.
    destruct fuel as [|f]; [cbn in Hfuel; lia|].
    cbn [enc_attrs]. rewrite (enc_attr_split fx a Ha), <- !app_assoc.
    cbn [dec_group_loop]. rewrite d_tag_at by lia.
    assert (Hgt : (attr_tag a >? 5) = true) by lia. rewrite Hgt.
    change (d_err (at_pos (pre ++ enc_tag (attr_tag a)) (enc_attr_body a ++ enc_attrs l ++ rest) false)) with false.
    cbn iota.
    rewrite (dec_value_enc fx n a _ (enc_attrs l ++ rest) false Ha
               (follow_attrs fx _ l rest Htag Hl Hrest) ltac:(apply Nat.ltb_lt in Hna; exact Hna)).
    rewrite (IH _ (a :: racc) f Hl Hnl ltac:(cbn [length] in Hfuel; lia)).
    cbn [rev]. rewrite <- !app_assoc. reflexivity.
Qed.

Definition group_ok (fx : fixes) (n : nat) (g : group) : bool :=
  (0 <=? g_tag g) && (g_tag g <=? 5) && negb (g_tag g =? T_END)
  && forallb (attr_ok fx) (g_attrs g)
  && forallb (fun a => Nat.ltb (attr_nvals a) n) (g_attrs g)
  && Nat.ltb (length (g_attrs g)) n.

Lemma groups_delim fx n gs doc :
  forallb (group_ok fx n) gs = true -> delim_start (enc_groups gs ++ enc_tag T_END ++ doc).
Proof.
  destruct gs as [|g l]; intros H.
  - cbn [enc_groups app]. unfold enc_tag. cbn [app]. eexists _, _. split; [reflexivity|]. cbn. lia.
  - cbn [forallb] in H. apply andb_true_iff in H as [Hg _]. unfold group_ok in Hg.
    repeat (apply andb_true_iff in Hg as [Hg ?]).
    cbn [enc_groups]. unfold enc_group, enc_tag. rewrite <- !app_assoc. cbn [app].
    eexists _, _. split; [reflexivity|]. rewrite Z2N.id by lia. lia.
Qed.

Lemma dec_msg_loop_enc fx n doc :
  forall gs pre racc fuel,
    forallb (group_ok fx n) gs = true -> (length gs < fuel)%nat ->
    dec_msg_loop fx n fuel (at_pos pre (enc_groups gs ++ enc_tag T_END ++ doc) false) racc
    = ROk (at_pos (pre ++ enc_groups gs ++ enc_tag T_END) doc false, rev racc ++ gs).
Proof.
  induction gs as [|g l IH]; intros pre racc fuel Hok Hfuel.
  - cbn [enc_groups app]. rewrite !app_nil_r.
    destruct fuel as [|f]; [cbn in Hfuel; lia|].
    cbn [dec_msg_loop]. rewrite d_tag_at by (unfold T_END; lia).
    rewrite Z.eqb_refl. reflexivity.
  - pose proof (groups_delim fx n l doc) as Hdel.
    cbn [forallb] in Hok. apply andb_true_iff in Hok as [Hg Hl]. specialize (Hdel Hl).
    unfold group_ok in Hg. repeat (apply andb_true_iff in Hg as [Hg ?]).
    destruct fuel as [|f]; [cbn in Hfuel; lia|].
    cbn [enc_groups]. unfold enc_group. rewrite <- !app_assoc.
    cbn [dec_msg_loop]. rewrite d_tag_at by lia.
    match goal with H : negb (g_tag g =? T_END) = true |- _ =>
      apply negb_true_iff in H; rewrite H end.
    change (d_err (at_pos (pre ++ enc_tag (g_tag g))
                          (enc_attrs (g_attrs g) ++ enc_groups l ++ enc_tag T_END ++ doc) false)) with false.
    rewrite andb_false_r.
    rewrite (dec_group_loop_enc fx n _ Hdel (g_attrs g) _ [] n) by
      (try assumption; match goal with H : Nat.ltb _ _ = true |- _ => apply Nat.ltb_lt in H; exact H end).
    cbn [rev app].
    rewrite (IH _ (mkGroup (g_tag g) (g_attrs g) :: racc) f Hl ltac:(cbn [length] in Hfuel; lia)).
    cbn [rev]. destruct g as [gt ga]. cbn [g_tag g_attrs]. rewrite <- !app_assoc. reflexivity.
Qed.

(* ------------------------------------------------------------------ *)
(* whole requests *)

Definition end_group : group := mkGroup T_END [].
Definition is_end_group (g : group) : bool := (g_tag g =? T_END) && negb (nonempty (g_attrs g)).

(* a request of the property's quantifier: version bytes, 16-bit operation, 32-bit
   request id, groups with delimiter tags 0..5 except 3 holding supported attributes,
   closed by the end-of-attributes group, any document; [n] bounds the numbers of
   groups, attributes per group and values per attribute (it is the fuel) *)
Definition supported (fx : fixes) (n : nat) (m : msg) : bool :=
  (0 <=? m_maj m) && (m_maj m <? 256) && (0 <=? m_min m) && (m_min m <? 256)
  && (- 2 ^ 15 <=? m_op m) && (m_op m <? 2 ^ 15) && int_ok (m_reqid m)
  && nonempty (m_groups m) && is_end_group (last (m_groups m) end_group)
  && forallb (group_ok fx n) (removelast (m_groups m))
  && Nat.ltb (length (m_groups m)) n.

Lemma be_enc1 v : 0 <= v < 256 -> be_enc 1 v = enc_tag v.
Proof.
  intros Hv. unfold enc_tag. cbn [be_enc]. change (256 ^ Z.of_nat 0) with 1.
  rewrite Z.div_1_r, Z.mod_small by lia. reflexivity.
Qed.

Lemma new_decoder_at raw : new_decoder raw = at_pos [] raw false.
Proof. reflexivity. Qed.

Lemma is_end_group_eq g : is_end_group g = true -> g = end_group.
Proof.
  destruct g as [t l]. unfold is_end_group, end_group. cbn [g_tag g_attrs]. intros H.
  apply andb_true_iff in H as [Ht Hl]. apply Z.eqb_eq in Ht. subst t.
  destruct l; [reflexivity|discriminate].
Qed.

Lemma enc_groups_app a b : enc_groups (a ++ b) = enc_groups a ++ enc_groups b.
Proof. induction a as [|g a IH]; cbn [enc_groups app]; [reflexivity|rewrite IH, app_assoc; reflexivity]. Qed.

Lemma dec_msg_enc fx n m :
  supported fx n m = true -> dec_msg fx n (enc_request m) = ROk m.
Proof.
  unfold supported. intros H. repeat (apply andb_true_iff in H as [H ?]).
  destruct m as [maj mi op rid gs doc]. cbn [m_maj m_min m_op m_reqid m_groups m_data] in *.
  assert (Hgs : gs = removelast gs ++ [end_group]).
  { destruct gs as [|g0 gs0]; [discriminate|].
    rewrite (app_removelast_last end_group (l := g0 :: gs0)) at 1 by discriminate.
    f_equal. f_equal. apply is_end_group_eq. assumption. }
  set (gs' := removelast gs) in *.
  unfold dec_msg, enc_request, enc_msg. cbn [m_maj m_min m_op m_reqid m_groups m_data].
  rewrite Hgs at 1. rewrite enc_groups_app. cbn [enc_groups]. unfold enc_group, end_group at 1.
  cbn [g_tag g_attrs enc_attrs]. rewrite !app_nil_r.
  rewrite !be_enc1 by lia. rewrite <- !app_assoc.
  rewrite new_decoder_at.
  rewrite !d_tag_at by lia.
  rewrite d_int16_at by lia.
  unfold int_ok in *. rewrite d_int32_at by lia.
  rewrite (dec_msg_loop_enc fx n doc gs' _ [] n) by
    (try assumption;
     match goal with H : Nat.ltb (length gs) n = true |- _ =>
       apply Nat.ltb_lt in H; rewrite Hgs, app_length in H; cbn [length] in H; lia end).
  cbn [rev app].
  match goal with |- context [copy (at_pos ?P doc false) ?k] =>
    replace k with (zlen doc);
    [ replace (at_pos P doc false) with (at_pos P (doc ++ []) false) by (rewrite app_nil_r; reflexivity)
    | unfold avail, dlen, at_pos; cbn [d_data d_off]; rewrite zlen_app; lia ]
  end.
  rewrite copy_at_pos. cbn [d_err at_pos val_bytes].
  rewrite Hgs. reflexivity.
Qed.

(* ------------------------------------------------------------------ *)
(* reply and event *)

Lemma handler_enc fx n m :
  supported fx n m = true -> handler fx n (enc_request m) = handle_msg fx m.
Proof. intros H. unfold handler. rewrite (dec_msg_enc fx n m H). reflexivity. Qed.

Lemma beq_eq a : forall b, beq a b = true <-> a = b.
Proof.
  induction a as [|x a IH]; intros [|y b]; cbn [beq]; split; intros H; try discriminate; auto.
  - apply andb_true_iff in H as [Hx Hab]. apply N.eqb_eq in Hx. apply IH in Hab. congruence.
  - inversion H; subst. rewrite N.eqb_refl. cbn. apply IH. reflexivity.
Qed.

Lemma beq_eqb a b : beq a b = eqb_bytes a b.
Proof.
  destruct (eqb_bytes a b) eqn:E.
  - apply eqb_bytes_true in E. apply beq_eq, E.
  - destruct (beq a b) eqn:E'; [|reflexivity].
    apply beq_eq in E'. apply eqb_bytes_true in E'. congruence.
Qed.

Lemma is_prefix_app p x : is_prefix p (p ++ x) = true.
Proof. induction p as [|a p IH]; cbn [is_prefix app]; [reflexivity|rewrite N.eqb_refl, IH; reflexivity]. Qed.

Lemma names_distinct :
  eqb_bytes N_URI N_USER = false /\ eqb_bytes N_URI N_FORMAT = false /\ eqb_bytes N_URI N_JOB = false /\
  eqb_bytes N_USER N_URI = false /\ eqb_bytes N_USER N_FORMAT = false /\ eqb_bytes N_USER N_JOB = false /\
  eqb_bytes N_FORMAT N_URI = false /\ eqb_bytes N_FORMAT N_USER = false /\ eqb_bytes N_FORMAT N_JOB = false /\
  eqb_bytes N_JOB N_URI = false /\ eqb_bytes N_JOB N_USER = false /\ eqb_bytes N_JOB N_FORMAT = false.
Proof. vm_compute. repeat split. Qed.

(* setPrintJobResponse leaves in uri / username / jobname the values of the attributes
   printer-uri / requesting-user-name / job-name *)
Lemma pj_scan_fields fx : forall l p p',
  pj_scan fx l p = Some p' ->
  pj_uri p' = lookup_from N_URI l (pj_uri p) /\
  pj_user p' = lookup_from N_USER l (pj_user p) /\
  pj_job p' = lookup_from N_JOB l (pj_job p).
Proof.
  destruct names_distinct as (D1 & D2 & D3 & D4 & D5 & D6 & D7 & D8 & D9 & D10 & D11 & D12).
  induction l as [|a l IH]; intros p p' H; cbn [pj_scan lookup_from] in *.
  - inversion H; subst; auto.
  - destruct a as [t n vs|t n vs|t n vs|t n lo hi];
      try (destruct (fx_printjob fx); [apply IH, H|discriminate]).
    rewrite !beq_eqb.
    apply IH in H. destruct H as (H1 & H2 & H3). rewrite H1, H2, H3. clear H1 H2 H3.
    destruct (eqb_bytes n N_URI) eqn:E1.
    { apply eqb_bytes_true in E1. subst n. rewrite D1, D3. cbn [pj_uri pj_user pj_job]. auto. }
    destruct (eqb_bytes n N_USER) eqn:E2.
    { apply eqb_bytes_true in E2. subst n. rewrite D6. cbn [pj_uri pj_user pj_job]. auto. }
    destruct (eqb_bytes n N_FORMAT) eqn:E3.
    { apply eqb_bytes_true in E3. subst n. rewrite D9. cbn [pj_uri pj_user pj_job]. auto. }
    destruct (eqb_bytes n N_JOB) eqn:E4; cbn [pj_uri pj_user pj_job]; auto.
Qed.

Lemma pj_scan_some fx : forall l p,
  fx_printjob fx = true \/ forallb is_strattr l = true -> exists p', pj_scan fx l p = Some p'.
Proof.
  induction l as [|a l IH]; intros p H; cbn [pj_scan]; [eauto|].
  destruct a as [t n vs|t n vs|t n vs|t n lo hi];
    try (destruct H as [H|H]; [rewrite H; apply IH; auto|cbn in H; discriminate]).
  apply IH. destruct H as [H|H]; [auto|right]. cbn [forallb is_strattr] in H. exact H.
Qed.

(* the print job does not run into the nil dereference of setPrintJobResponse *)
Definition pj_safe (fx : fixes) (m : msg) : bool :=
  negb (m_op m =? OP_PRINT_JOB) || fx_printjob fx || forallb is_strattr (first_op_attrs m).

Lemma enc_groups_last extra : enc_groups (extra ++ [end_group]) = enc_groups extra ++ [3%N].
Proof. rewrite enc_groups_app. reflexivity. Qed.

Lemma reply_of_ok m extra p :
  exists body, reply_of m extra p = HReply body (pj_uri p) (pj_user p) (pj_job p) (m_data m)
               /\ reply_echo_ok m body = true.
Proof.
  unfold reply_of. eexists. split; [reflexivity|].
  unfold reply_echo_ok, echo_prefix, enc_msg. cbn [m_maj m_min m_op m_reqid m_groups].
  rewrite enc_groups_app. change (mkGroup T_END []) with end_group. rewrite enc_groups_last.
  apply andb_true_iff. split.
  - rewrite !app_assoc. rewrite <- (app_assoc _ (enc_groups extra) [3%N]). apply is_prefix_app.
  - rewrite !app_assoc. rewrite last_last. reflexivity.
Qed.

Lemma handle_msg_ok fx m :
  pj_safe fx m = true ->
  exists body uri user job,
    handle_msg fx m = HReply body uri user job (m_data m) /\
    reply_echo_ok m body = true /\
    (m_op m = OP_PRINT_JOB ->
       uri = lookup_str N_URI (first_op_attrs m) /\
       user = lookup_str N_USER (first_op_attrs m) /\
       job = lookup_str N_JOB (first_op_attrs m)).
Proof.
  intros Hs. unfold handle_msg.
  destruct (m_op m =? OP_GET_PRINTER_ATTR) eqn:E1.
  { destruct (reply_of_ok m [printer_model] pj_empty) as (b & Hb & He).
    eexists _, _, _, _. split; [exact Hb|]. split; [exact He|].
    intros Hop. rewrite Hop in E1. discriminate. }
  destruct (m_op m =? OP_PRINT_JOB) eqn:E2.
  { unfold print_job_fields, pj_safe, first_op_attrs in *. rewrite E2 in Hs. cbn [negb orb] in Hs.
    destruct (find is_op_group (m_groups m)) as [g|].
    - destruct (pj_scan_some fx (g_attrs g) pj_empty) as (p & Hp).
      { apply orb_true_iff in Hs. tauto. }
      rewrite Hp. destruct (reply_of_ok m [] p) as (b & Hb & He).
      eexists _, _, _, _. split; [exact Hb|]. split; [exact He|]. intros _.
      apply (pj_scan_fields fx _ _ _ Hp).
    - destruct (reply_of_ok m [] pj_empty) as (b & Hb & He).
      eexists _, _, _, _. split; [exact Hb|]. split; [exact He|]. intros _.
      cbn. auto. }
  destruct (m_op m =? OP_CUPS_GET_DEVICES) eqn:E3.
  { destruct (reply_of_ok m [mkGroup T_PRINTER []] pj_empty) as (b & Hb & He).
    eexists _, _, _, _. split; [exact Hb|]. split; [exact He|].
    intros Hop. rewrite Hop in E2. discriminate. }
  destruct (reply_of_ok m [] pj_empty) as (b & Hb & He).
  eexists _, _, _, _. split; [exact Hb|]. split; [exact He|].
  intros Hop. rewrite Hop in E2. discriminate.
Qed.

(* the property, for every supported request: a reply is produced; it echoes version,
   request id, charset and language; the event carries the document and, for a print
   job, printer URI, user and job name unchanged *)
Lemma request_served fx n m :
  supported fx n m = true -> pj_safe fx m = true ->
  exists body uri user job,
    handler fx n (enc_request m) = HReply body uri user job (m_data m) /\
    reply_echo_ok m body = true /\
    (m_op m = OP_PRINT_JOB ->
       uri = lookup_str N_URI (first_op_attrs m) /\
       user = lookup_str N_USER (first_op_attrs m) /\
       job = lookup_str N_JOB (first_op_attrs m)).
Proof. intros H Hs. rewrite (handler_enc fx n m H). apply handle_msg_ok, Hs. Qed.

(* ... hence the model's observation passes the executable property of IppCheck *)
Lemma data_ok_refl d : data_ok d (DOLit d) = true.
Proof. cbn. apply beq_eq. reflexivity. Qed.

Lemma model_meets_clause fx n m :
  supported fx n m = true -> pj_safe fx m = true ->
  match handler fx n (enc_request m) with
  | HReply b u us j d => clause_sig m (m_data m) (OReply b u us j (DOLit d)) = 0%N
  | _ => False
  end.
Proof.
  intros H Hs. destruct (request_served fx n m H Hs) as (b & u & us & j & Hh & He & Hf).
  rewrite Hh. unfold clause_sig. rewrite He. cbn [negb].
  destruct (m_op m =? OP_PRINT_JOB) eqn:E.
  - apply Z.eqb_eq in E. destruct (Hf E) as (-> & -> & ->).
    assert (R : forall x, beq x x = true) by (intros; apply beq_eq; reflexivity).
    rewrite !R. cbn [andb negb]. rewrite data_ok_refl. reflexivity.
  - cbn [andb]. rewrite data_ok_refl. reflexivity.
Qed.

(* ------------------------------------------------------------------ *)
Import String.StringSyntax.
Local Open Scope string_scope.
Local Open Scope list_scope.
Local Open Scope Z_scope.
(* the code as it is: witnesses outside [supported as_coded] *)

Definition a_charset := AStr V_CHARSET (str "attributes-charset") [str "utf-8"].
Definition a_lang := AStr V_LANG (str "attributes-natural-language") [str "en"].
Definition a_uri := AStr V_URI N_URI [str "ipp://192.0.2.1/printers/p"].
Definition a_job := AStr V_NAME N_JOB [str "report"].

(* a boolean attribute followed by other attributes and a document *)
Definition w_bool : msg :=
  mkMsg 1 1 OP_PRINT_JOB 1
        [mkGroup T_OP [a_charset; a_lang; a_uri]; mkGroup T_JOB [ABool V_BOOL (str "last-document") [true]; AInt V_INT (str "copies") [2]]; end_group]
        (str "%PDF").
(* a boolean attribute at the very end, no document *)
Definition w_bool_last : msg :=
  mkMsg 1 1 OP_GET_PRINTER_ATTR 2 [mkGroup T_OP [a_charset; a_lang; ABool V_BOOL (str "my-jobs") [true]]; end_group] [].
(* three integer values *)
Definition w_int3 : msg :=
  mkMsg 2 0 OP_PRINT_JOB 6 [mkGroup T_OP [a_charset; a_lang; a_uri]; mkGroup T_JOB [AInt V_INT (str "copies") [1; 2; 3]]; end_group] (str "d").
(* rangeOfInteger in the operation group of a print job, job-name after it *)
Definition w_range : msg :=
  mkMsg 1 1 OP_PRINT_JOB 3 [mkGroup T_OP [a_charset; a_lang; a_uri; ARange V_RANGE (str "page-ranges") 1 2; a_job]; end_group] (str "x").
(* print job with an integer operation attribute *)
Definition w_pj_int : msg :=
  mkMsg 1 1 OP_PRINT_JOB 5 [mkGroup T_OP [a_charset; a_lang; a_uri; AInt V_INT (str "job-k-octets") [12]]; end_group] (str "data").
(* an octetString attribute (value tag 0x30, not in the switch of attribGroup.decode) *)
Definition w_unknown_raw : bytes :=
  [1; 1; 0; 11; 0; 0; 0; 1; 1; 48; 0; 1; 110; 0; 1; 118; 3]%N.

Lemma w_bool_refuted :
  supported patched 20 w_bool = true /\
  exists m', dec_msg as_coded 20 (enc_request w_bool) = ROk m' /\ m' <> w_bool.
Proof. split; [vm_compute; reflexivity|]. eexists. split; [vm_compute; reflexivity|discriminate]. Qed.

Lemma w_bool_last_refuted :
  supported patched 20 w_bool_last = true /\
  handler as_coded (N.to_nat 3000) (enc_request w_bool_last) = HHang.
Proof. split; vm_compute; reflexivity. Qed.

Lemma w_int3_refuted :
  supported patched 20 w_int3 = true /\
  exists m', dec_msg as_coded 20 (enc_request w_int3) = ROk m' /\ m' <> w_int3.
Proof. split; [vm_compute; reflexivity|]. eexists. split; [vm_compute; reflexivity|discriminate]. Qed.

Lemma w_range_refuted :
  supported patched 20 w_range = true /\
  handler as_coded 20 (enc_request w_range) = HPanic /\
  exists m', dec_msg as_coded 20 (enc_request w_range) = ROk m' /\ m' <> w_range.
Proof.
  split; [vm_compute; reflexivity|]. split; [vm_compute; reflexivity|].
  eexists. split; [vm_compute; reflexivity|discriminate].
Qed.

Lemma w_pj_int_refuted :
  supported as_coded 20 w_pj_int = true /\ handler as_coded 20 (enc_request w_pj_int) = HPanic.
Proof. split; vm_compute; reflexivity. Qed.

Lemma w_unknown_refuted : forall n, (2 <= n)%nat -> handler as_coded n w_unknown_raw = HPanic.
Proof.
  intros n Hn. destruct n as [|[|n]]; [lia|lia|]. reflexivity.
Qed.

(* the repaired code serves all of them *)
Lemma witnesses_patched :
  dec_msg patched 20 (enc_request w_bool) = ROk w_bool /\
  dec_msg patched 20 (enc_request w_bool_last) = ROk w_bool_last /\
  dec_msg patched 20 (enc_request w_int3) = ROk w_int3 /\
  dec_msg patched 20 (enc_request w_range) = ROk w_range /\
  (exists b u us j d, handler patched 20 (enc_request w_pj_int) = HReply b u us j d) /\
  (exists b u us j d, handler patched 20 w_unknown_raw = HReply b u us j d).
Proof.
  repeat split; try (vm_compute; reflexivity); eexists _, _, _, _, _; vm_compute; reflexivity.
Qed.

(* a body without end-of-attributes tag: the group loop of ippMsg.decode never ends,
   whatever the fuel (here: the empty body) *)
Definition D0 : dec := mkDec [] 0 true.

Lemma group_loop_D0 n fuel : dec_group_loop as_coded n fuel D0 [] = ROk (D0, []).
Proof. destruct fuel; reflexivity. Qed.

Lemma msg_loop_D0 n : forall fuel racc, dec_msg_loop as_coded n fuel D0 racc = RFuel.
Proof.
  induction fuel as [|f IH]; intros racc; [reflexivity|].
  cbn [dec_msg_loop]. change (d_byte D0) with (D0, 0). cbn iota beta.
  change (0 =? T_END) with false. cbn iota.
  change (fx_endtag as_coded && d_err D0) with false. cbn iota.
  rewrite group_loop_D0. apply IH.
Qed.

Lemma empty_body_diverges : forall n, handler as_coded n [] = HHang.
Proof.
  intros n. unfold handler, dec_msg.
  change (new_decoder []) with (mkDec [] 0 false).
  change (d_byte (mkDec [] 0 false)) with (D0, 0). cbn iota beta.
  change (d_byte D0) with (D0, 0). cbn iota beta.
  change (d_int16 D0) with (D0, 0). cbn iota beta.
  change (d_int32 D0) with (D0, 0). cbn iota beta.
  rewrite msg_loop_D0. reflexivity.
Qed.

(* after C17-ipp-missing-end-tag.patch the same request is refused *)
Lemma empty_body_patched : forall n, (1 <= n)%nat -> handler patched n [] = HNoReply.
Proof. intros n Hn. destruct n as [|n]; [lia|]. reflexivity. Qed.

(* non-vacuity of [supported]: requests the code as it is serves *)
Definition ex_print_job : msg :=
  mkMsg 2 0 OP_PRINT_JOB (-2)
        [mkGroup T_OP [a_charset; a_lang; a_uri; AStr V_NAME N_USER [str "alice"]; a_job;
                       AStr V_MIME N_FORMAT [str "application/pdf"]];
         mkGroup T_JOB [AInt V_INT (str "copies") [2]; AInt V_ENUM (str "finishings") [3; 4];
                        AStr V_KEYWORD (str "sides") [str "one-sided"; []; str "x"]];
         end_group]
        (str "%PDF-1.4 hello").

Lemma ex_print_job_supported :
  supported as_coded 20 ex_print_job = true /\ pj_safe as_coded ex_print_job = true.
Proof. split; vm_compute; reflexivity. Qed.

(* ------------------------------------------------------------------ *)
(* the fuel used by the correspondence run ([fuel_for]: two more than the number of
   bytes) suffices for every supported request *)

Lemma enc_vals_len {V} (ev : V -> bytes) t nm : forall vs first,
  (length vs <= length (enc_vals ev t nm first vs))%nat.
Proof.
  induction vs as [|v r IH]; intros first; cbn [enc_vals length]; [lia|].
  unfold enc_tag. cbn [app length]. rewrite !app_length. specialize (IH false). lia.
Qed.

Lemma enc_attr_len a : (attr_nvals a <= length (enc_attr a))%nat.
Proof.
  destruct a as [t n vs|t n vs|t n vs|t n lo hi]; cbn [attr_nvals enc_attr];
    try apply enc_vals_len.
  unfold enc_tag. cbn [app length]. lia.
Qed.

Lemma attr_ok_nvals fx a : attr_ok fx a = true -> (1 <= attr_nvals a)%nat.
Proof.
  destruct a as [t n vs|t n vs|t n vs|t n lo hi]; cbn [attr_ok attr_nvals]; intros H;
    repeat (apply andb_true_iff in H as [H ?]);
    try (destruct vs; [discriminate|cbn [length]; lia]).
  lia.
Qed.

Lemma enc_attrs_len fx : forall l,
  forallb (attr_ok fx) l = true ->
  (length l <= length (enc_attrs l))%nat /\
  (forall a, In a l -> (attr_nvals a <= length (enc_attrs l))%nat).
Proof.
  induction l as [|a l IH]; intros H; cbn [enc_attrs length].
  - split; [lia|intros a []].
  - cbn [forallb] in H. apply andb_true_iff in H as [Ha Hl]. destruct (IH Hl) as [IH1 IH2].
    pose proof (enc_attr_len a). pose proof (attr_ok_nvals fx a Ha).
    rewrite app_length. split; [lia|].
    intros b [<-|Hb]; [lia|]. specialize (IH2 b Hb). lia.
Qed.

Lemma enc_groups_len : forall gs,
  (length gs <= length (enc_groups gs))%nat /\
  (forall g, In g gs -> (length (enc_attrs (g_attrs g)) <= length (enc_groups gs))%nat).
Proof.
  induction gs as [|g gs [IH1 IH2]]; cbn [enc_groups length].
  - split; [lia|intros g []].
  - unfold enc_group, enc_tag. cbn [app length]. rewrite !app_length. split; [lia|].
    intros h [<-|Hh]; [lia|]. specialize (IH2 h Hh). lia.
Qed.

Lemma supported_fuel_for fx n m :
  supported fx n m = true -> supported fx (fuel_for (enc_request m)) m = true.
Proof.
  unfold supported. intros H. repeat (apply andb_true_iff in H as [H ?]).
  assert (Hlen : (length (enc_groups (m_groups m)) <= length (enc_request m))%nat).
  { unfold enc_request, enc_msg. rewrite !app_length. lia. }
  destruct (enc_groups_len (m_groups m)) as [L1 L2].
  assert (Hgs : m_groups m = removelast (m_groups m) ++ [last (m_groups m) end_group]).
  { destruct (m_groups m) as [|g0 gs0]; [discriminate|]. apply app_removelast_last. discriminate. }
  rewrite H, H9, H8, H7, H6, H5, H4, H3, H2. cbn [andb].
  apply andb_true_iff; split.
  - apply forallb_forall. intros g Hg.
    match goal with H : forallb (group_ok fx n) _ = true |- _ =>
      rewrite forallb_forall in H; specialize (H g Hg); rename H into Hok end.
    assert (Hin : In g (m_groups m)) by (rewrite Hgs; apply in_or_app; auto).
    specialize (L2 g Hin).
    unfold group_ok in *. repeat (apply andb_true_iff in Hok as [Hok ?]).
    destruct (enc_attrs_len fx (g_attrs g)) as [A1 A2]; [assumption|].
    repeat match goal with Hx : ?b = true |- context [?b] => rewrite Hx end. cbn [andb].
    apply andb_true_iff; split.
    + apply forallb_forall. intros a Ha. specialize (A2 a Ha).
      apply Nat.ltb_lt. unfold fuel_for. lia.
    + apply Nat.ltb_lt. unfold fuel_for. lia.
  - apply Nat.ltb_lt. unfold fuel_for. lia.
Qed.

(* the form used by the correspondence run: model fuel = fuel_for of the bytes sent *)
Lemma dec_msg_enc_fuel_for fx n m :
  supported fx n m = true ->
  dec_msg fx (fuel_for (enc_request m)) (enc_request m) = ROk m.
Proof. intros H. apply dec_msg_enc, (supported_fuel_for fx n m H). Qed.
