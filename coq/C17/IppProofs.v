(* C17 (IPP part) - lemmas about the IPP model. *)
From HT Require Import Common.Bytes C17.Model C17.Check C17.Proofs C17.IppModel C17.IppCheck.
From Coq Require Import ZifyBool ZifyN ZifyNat.
From Coq Require String.
Open Scope Z_scope.
Notation str := IppModel.str.

(* ------------------------------------------------------------------ *)
(* decoder calls on a buffer positioned at the start of encoder output *)

Lemma d_byte_at pre b rest e :
  d_byte (at_pos pre (b :: rest) e) = (at_pos (pre ++ [b]) rest e, Z.of_N b).
Proof.
  unfold d_byte. change (b :: rest) with ([b] ++ rest).
  rewrite (read_prim_at_pos pre [b] rest e 1 false); [|reflexivity|lia].
  unfold be_val; cbn. reflexivity.
Qed.

Lemma d_tag_at pre t rest e :
  0 <= t -> d_byte (at_pos pre (enc_tag t ++ rest) e) = (at_pos (pre ++ enc_tag t) rest e, t).
Proof.
  intros Ht. unfold enc_tag. cbn [app]. rewrite d_byte_at. rewrite Z2N.id by exact Ht. reflexivity.
Qed.

Lemma d_int16_at pre rest e v :
  - 2 ^ 15 <= v < 2 ^ 15 ->
  d_int16 (at_pos pre (be_enc 2 v ++ rest) e) = (at_pos (pre ++ be_enc 2 v) rest e, v).
Proof.
  intros Hv. unfold d_int16.
  rewrite (read_prim_at_pos pre (be_enc 2 v) rest e 2 true); [|apply be_enc_length|lia].
  change (8 * 2) with 16. rewrite signed16_roundtrip by exact Hv. reflexivity.
Qed.

Lemma d_int32_at pre rest e v :
  - 2 ^ 31 <= v < 2 ^ 31 ->
  d_int32 (at_pos pre (be_enc 4 v ++ rest) e) = (at_pos (pre ++ be_enc 4 v) rest e, v).
Proof.
  intros Hv. unfold d_int32.
  rewrite (read_prim_at_pos pre (be_enc 4 v) rest e 4 true); [|apply be_enc_length|lia].
  change (8 * 4) with 32. rewrite signed32_roundtrip by exact Hv. reflexivity.
Qed.

Lemma enc_data_false s : enc_data [] s false = be_enc 2 (zlen s) ++ s.
Proof. reflexivity. Qed.
Lemma enc_data_true s : enc_data [] s true = be_enc 2 0.
Proof. reflexivity. Qed.

Lemma d_getdata_at pre rest e s :
  zlen s < 2 ^ 15 ->
  d_getdata (at_pos pre (enc_data [] s false ++ rest) e) = (at_pos (pre ++ enc_data [] s false) rest e, s).
Proof.
  intros Hs. unfold d_getdata. rewrite enc_data_false, <- app_assoc.
  pose proof (zlen_nonneg s).
  rewrite d_int16_at by (change (2 ^ 15) with 32768 in *; lia).
  rewrite copy_at_pos. cbn [val_bytes]. rewrite <- app_assoc. reflexivity.
Qed.

Lemma d_seek_back pre x rest e :
  d_seek (at_pos (pre ++ x) rest e) (- zlen x) = at_pos pre (x ++ rest) e.
Proof.
  unfold d_seek.
  assert (Hb : has_bytes (at_pos (pre ++ x) rest e) (- zlen x) = true).
  { apply has_bytes_spec. unfold at_pos, dlen; cbn. rewrite !zlen_app.
    pose proof (zlen_nonneg pre); pose proof (zlen_nonneg rest); pose proof (zlen_nonneg x); lia. }
  rewrite Hb. unfold at_pos, advance; cbn [d_data d_off d_err].
  rewrite zlen_app, <- app_assoc. f_equal. lia.
Qed.

Lemma d_seek_back1 pre b rest e :
  d_seek (at_pos (pre ++ [b]) rest e) (-1) = at_pos pre (b :: rest) e.
Proof. exact (d_seek_back pre [b] rest e). Qed.

Lemma be_enc2_length v : zlen (be_enc 2 v) = 2.
Proof. apply be_enc_length. Qed.

Lemma d_seek_back2 pre v rest e :
  d_seek (at_pos (pre ++ be_enc 2 v) rest e) (-2) = at_pos pre (be_enc 2 v ++ rest) e.
Proof. rewrite <- (d_seek_back pre (be_enc 2 v) rest e), be_enc2_length. reflexivity. Qed.

(* ------------------------------------------------------------------ *)
(* value readers *)

Definition int_ok (v : Z) : bool := (- 2 ^ 31 <=? v) && (v <? 2 ^ 31).
Definition str_ok (s : bytes) : bool := zlen s <? 2 ^ 15.
Definition name_ok (s : bytes) : bool := (0 <? zlen s) && (zlen s <? 2 ^ 15).

Lemma rd_int_at pre rest e v :
  int_ok v = true ->
  rd_int (at_pos pre (enc_int_val v ++ rest) e) = (at_pos (pre ++ enc_int_val v) rest e, v).
Proof.
  intros Hv. unfold rd_int, enc_int_val, int_ok in *. rewrite <- app_assoc.
  rewrite d_int16_at by (change (2 ^ 15) with 32768; lia).
  rewrite d_int32_at by lia. rewrite <- app_assoc. reflexivity.
Qed.

Lemma rd_str_at pre rest e s :
  str_ok s = true ->
  rd_str (at_pos pre (enc_str_val s ++ rest) e) = (at_pos (pre ++ enc_str_val s) rest e, s).
Proof. intros Hs. unfold rd_str, enc_str_val, str_ok in *. apply d_getdata_at. lia. Qed.

Lemma rd_bool_at pre rest e b :
  rd_bool (at_pos pre (enc_bool_val b ++ rest) e) = (at_pos (pre ++ enc_bool_val b) rest e, b).
Proof.
  unfold rd_bool, enc_bool_val. rewrite <- app_assoc.
  rewrite d_int16_at by (change (2 ^ 15) with 32768; lia).
  cbn [app]. rewrite d_byte_at. rewrite <- app_assoc. cbn [app].
  destruct b; reflexivity.
Qed.

(* ------------------------------------------------------------------ *)
(* what may follow an attribute with tag t: a byte other than t, or t followed by a
   non-zero name length (the next attribute has a name) *)
Definition follow_ok (t : Z) (rest : bytes) : Prop :=
  exists b rest', rest = b :: rest' /\
    (Z.of_N b <> t \/ exists n r, rest' = be_enc 2 n ++ r /\ 0 < n < 2 ^ 15).

Section TailVals.
  Context {V : Type} (rd : dec -> dec * V) (ev : V -> bytes) (okv : V -> bool).
  Hypothesis Hrd : forall v pre rest e, okv v = true ->
    rd (at_pos pre (ev v ++ rest) e) = (at_pos (pre ++ ev v) rest e, v).

  Lemma tail_vals_enc t name rest e :
    0 <= t -> follow_ok t rest ->
    forall vs pre acc fuel,
      forallb okv vs = true -> (length vs < fuel)%nat ->
      tail_vals rd (Z.eqb t) fuel (at_pos pre (enc_vals ev t name false vs ++ rest) e) acc
      = Some (at_pos (pre ++ enc_vals ev t name false vs) rest e, acc ++ vs).
  Proof.
    intros Ht (b & rest' & Hrest & Hfol).
    induction vs as [|v vs IH]; intros pre acc fuel Hok Hfuel.
    - cbn [enc_vals app]. rewrite !app_nil_r. subst rest. unfold tail_vals.
      rewrite d_byte_at.
      destruct fuel as [|f]; [cbn in Hfuel; lia|].
      cbn [more].
      destruct (t =? Z.of_N b) eqn:Eb.
      + destruct Hfol as [Hne|(n & r & Hr & Hn)]; [lia|]. subst rest'.
        rewrite d_int16_at by lia.
        assert (Hn0 : (n =? 0) = false) by lia. rewrite Hn0.
        rewrite d_seek_back2, d_seek_back1. reflexivity.
      + rewrite d_seek_back1. reflexivity.
    - cbn [forallb] in Hok. apply andb_true_iff in Hok as [Hv Hvs].
      cbn [enc_vals]. unfold enc_name. cbn [negb]. rewrite enc_data_true.
      rewrite <- !app_assoc. unfold tail_vals.
      rewrite d_tag_at by exact Ht.
      destruct fuel as [|f]; [cbn in Hfuel; lia|].
      cbn [more]. rewrite Z.eqb_refl.
      rewrite d_int16_at by (change (2 ^ 15) with 32768; lia).
      cbn [Z.eqb]. rewrite Hrd by exact Hv.
      specialize (IH (((pre ++ enc_tag t) ++ be_enc 2 0) ++ ev v) (acc ++ [v]) f Hvs
                     ltac:(cbn [length] in Hfuel; lia)).
      unfold tail_vals in IH.
      destruct (d_byte (at_pos (((pre ++ enc_tag t) ++ be_enc 2 0) ++ ev v)
                               (enc_vals ev t name false vs ++ rest) e)) as [d3 vt].
      rewrite IH. rewrite <- !app_assoc. reflexivity.
  Qed.
End TailVals.

(* ------------------------------------------------------------------ *)
(* supported attributes *)

Definition is_int_tag (t : Z) : bool := (t =? V_INT) || (t =? V_ENUM).
(* every value tag that attribGroup.decode keeps as strings: the seven it names and
   every other non-delimiter byte *)
Definition is_str_tag (t : Z) : bool :=
  if is_int_tag t || (t =? V_BOOL) || (t =? V_RANGE) then false else (5 <? t) && (t <? 256).
Definition nonempty {A} (l : list A) : bool := match l with [] => false | _ => true end.

(* every value tag; names 1..2^15-1 bytes; at least one value (any number of them);
   strings below 2^15 bytes; integers in int32 *)
Definition attr_ok (a : attr) : bool :=
  match a with
  | AStr t n vs => is_str_tag t && name_ok n && nonempty vs && forallb str_ok vs
  | AInt t n vs => is_int_tag t && name_ok n && nonempty vs && forallb int_ok vs
  | ABool t n vs => (t =? V_BOOL) && name_ok n && nonempty vs
  | ARange t n lo hi => (t =? V_RANGE) && name_ok n && int_ok lo && int_ok hi
  end.

Definition body_vals {V} (ev : V -> bytes) (t : Z) (n : bytes) (vs : list V) : bytes :=
  match vs with
  | [] => []
  | v :: r => enc_name n true ++ ev v ++ enc_vals ev t n false r
  end.

(* the encoding of an attribute without its leading tag byte *)
Definition enc_attr_body (a : attr) : bytes :=
  match a with
  | AInt t n vs => body_vals enc_int_val t n vs
  | AStr t n vs => body_vals enc_str_val t n vs
  | ABool t n vs => body_vals enc_bool_val t n vs
  | ARange t n lo hi => enc_name n true ++ be_enc 2 8 ++ be_enc 4 lo ++ be_enc 4 hi
  end.

Lemma enc_attr_split a :
  attr_ok a = true -> enc_attr a = enc_tag (attr_tag a) ++ enc_attr_body a.
Proof.
  destruct a as [t n vs|t n vs|t n vs|t n lo hi]; cbn [attr_ok enc_attr attr_tag enc_attr_body];
    try (destruct vs as [|v vs]; [cbn [nonempty]; rewrite ?andb_false_r; cbn; discriminate|reflexivity]).
  reflexivity.
Qed.

Lemma str_tag_kind t : is_str_tag t = true -> kind_of t = KStr /\ 5 < t.
Proof.
  unfold is_str_tag, is_int_tag, kind_of. intros H.
  destruct ((t =? V_INT) || (t =? V_ENUM)) eqn:E1; [discriminate|].
  destruct (t =? V_BOOL) eqn:E2; [discriminate|].
  destruct (t =? V_RANGE) eqn:E3; [discriminate|].
  cbn [orb] in H. split; [reflexivity|lia].
Qed.

Lemma int_tag_kind t : is_int_tag t = true -> kind_of t = KInt /\ 5 < t.
Proof.
  unfold is_int_tag. intros H.
  repeat (apply orb_true_iff in H as [H|H]); apply Z.eqb_eq in H; subst t; split; reflexivity.
Qed.

Lemma enc_name_true n : enc_name n true = enc_data [] n false.
Proof. reflexivity. Qed.

Lemma attr_ok_tag a : attr_ok a = true -> 5 < attr_tag a.
Proof.
  destruct a as [t n vs|t n vs|t n vs|t n lo hi]; cbn [attr_ok attr_tag]; intros H;
    repeat (apply andb_true_iff in H as [H ?]).
  - apply int_tag_kind, H.
  - apply str_tag_kind, H.
  - apply Z.eqb_eq in H; subst; reflexivity.
  - apply Z.eqb_eq in H; subst; reflexivity.
Qed.

(* valInt / valStr / valBool.decode on what their encode wrote *)
Lemma dec_multi_enc {V} (rd : dec -> dec * V) (ev : V -> bytes) (okv : V -> bool)
      (mk : bytes -> list V -> attr)
      (Hrd : forall v pre rest e, okv v = true ->
         rd (at_pos pre (ev v ++ rest) e) = (at_pos (pre ++ ev v) rest e, v))
      n t nm vs pre rest e :
  5 < t -> name_ok nm = true -> nonempty vs = true -> forallb okv vs = true ->
  follow_ok t rest -> (length vs < n)%nat ->
  dec_multi rd mk n (at_pos pre (body_vals ev t nm vs ++ rest) e) t
  = Some (at_pos (pre ++ body_vals ev t nm vs) rest e, mk nm vs).
Proof.
  intros Ht Hnm Hne Hok Hfol Hn.
  destruct vs as [|v1 vs]; [discriminate|].
  cbn [forallb] in Hok. apply andb_true_iff in Hok as [Hv1 Hvs].
  unfold name_ok in Hnm. cbn [body_vals]. rewrite enc_name_true, <- !app_assoc.
  unfold dec_multi. rewrite d_getdata_at by lia. rewrite Hrd by exact Hv1.
  rewrite (tail_vals_enc rd ev okv Hrd t nm rest e ltac:(lia) Hfol vs _ [v1] n Hvs
             ltac:(cbn [length] in Hn; lia)).
  cbn [app]. rewrite <- !app_assoc. reflexivity.
Qed.

Lemma dec_value_enc n a pre rest e :
  attr_ok a = true -> follow_ok (attr_tag a) rest -> (attr_nvals a < n)%nat ->
  dec_value n (at_pos pre (enc_attr_body a ++ rest) e) (attr_tag a)
  = ROk (at_pos (pre ++ enc_attr_body a) rest e, a).
Proof.
  intros Hok Hfol Hn.
  pose proof (attr_ok_tag a Hok) as Htag.
  destruct a as [t nm vs|t nm vs|t nm vs|t nm lo hi];
    cbn [attr_ok attr_tag enc_attr_body attr_nvals] in *;
    repeat (apply andb_true_iff in Hok as [Hok ?]).
  - destruct (int_tag_kind t Hok) as [Hk _]. unfold dec_value. rewrite Hk. unfold dec_int.
    rewrite (dec_multi_enc rd_int enc_int_val int_ok (AInt t)
               (fun v pre rest e H => rd_int_at pre rest e v H)) by assumption.
    reflexivity.
  - destruct (str_tag_kind t Hok) as [Hk _]. unfold dec_value. rewrite Hk. unfold dec_str.
    rewrite (dec_multi_enc rd_str enc_str_val str_ok (AStr t)
               (fun v pre rest e H => rd_str_at pre rest e v H)) by assumption.
    reflexivity.
  - apply Z.eqb_eq in Hok. subst t. unfold dec_value. change (kind_of V_BOOL) with KBool.
    unfold dec_bool.
    rewrite (dec_multi_enc rd_bool enc_bool_val (fun _ => true) (ABool V_BOOL)
               (fun v pre rest e _ => rd_bool_at pre rest e v))
      by (try assumption; clear; induction vs; cbn; auto).
    reflexivity.
  - apply Z.eqb_eq in Hok. subst t. unfold dec_value. change (kind_of V_RANGE) with KRange.
    unfold name_ok, int_ok in *. rewrite enc_name_true, <- !app_assoc.
    unfold dec_range. rewrite d_getdata_at by lia.
    rewrite d_int16_at by (change (2 ^ 15) with 32768; lia).
    rewrite !d_int32_at by lia.
    rewrite <- !app_assoc. reflexivity.
Qed.

(* ------------------------------------------------------------------ *)
(* groups *)

Definition delim_start (rest : bytes) : Prop := exists b r, rest = b :: r /\ Z.of_N b <= 5.

Lemma enc_attr_body_name a :
  attr_ok a = true ->
  exists x, enc_attr_body a = be_enc 2 (zlen (attr_name a)) ++ x /\ 0 < zlen (attr_name a) < 2 ^ 15.
Proof.
  destruct a as [t n vs|t n vs|t n vs|t n lo hi]; cbn [attr_ok attr_name enc_attr_body]; intros H;
    repeat (apply andb_true_iff in H as [H ?]);
    try (destruct vs as [|v vs]; [discriminate|]); cbn [body_vals];
    rewrite enc_name_true, enc_data_false, <- app_assoc; unfold name_ok in *;
    (eexists; split; [reflexivity|lia]).
Qed.

Lemma follow_attrs t attrs rest :
  5 < t -> forallb attr_ok attrs = true -> delim_start rest ->
  follow_ok t (enc_attrs attrs ++ rest).
Proof.
  intros Ht Hok (b & r & Hrest & Hb).
  destruct attrs as [|a l].
  - cbn [enc_attrs app]. exists b, r. split; [exact Hrest|left; lia].
  - cbn [forallb] in Hok. apply andb_true_iff in Hok as [Ha _].
    cbn [enc_attrs]. rewrite (enc_attr_split a Ha).
    destruct (enc_attr_body_name a Ha) as (x & Hx & Hn). rewrite Hx.
    unfold enc_tag. rewrite <- !app_assoc. cbn [app].
    eexists _, _. split; [reflexivity|]. right. eexists _, _. split; [reflexivity|exact Hn].
Qed.

Lemma dec_group_loop_enc n rest :
  delim_start rest ->
  forall attrs pre racc fuel,
    forallb attr_ok attrs = true ->
    forallb (fun a => Nat.ltb (attr_nvals a) n) attrs = true ->
    (length attrs < fuel)%nat ->
    dec_group_loop n fuel (at_pos pre (enc_attrs attrs ++ rest) false) racc
    = ROk (at_pos (pre ++ enc_attrs attrs) rest false, rev racc ++ attrs).
Proof.
  intros Hrest.
  induction attrs as [|a l IH]; intros pre racc fuel Hok Hnv Hfuel.
  - destruct Hrest as (b & r & -> & Hb). cbn [enc_attrs app]. rewrite !app_nil_r.
    destruct fuel as [|f]; [cbn in Hfuel; lia|].
    cbn [dec_group_loop]. rewrite d_byte_at.
    assert (Hgt : (Z.of_N b >? 5) = false) by lia. rewrite Hgt.
    rewrite d_seek_back1. reflexivity.
  - cbn [forallb] in Hok, Hnv.
    apply andb_true_iff in Hok as [Ha Hl]. apply andb_true_iff in Hnv as [Hna Hnl].
    pose proof (attr_ok_tag a Ha) as Htag.
    destruct fuel as [|f]; [cbn in Hfuel; lia|].
    cbn [enc_attrs]. rewrite (enc_attr_split a Ha), <- !app_assoc.
    cbn [dec_group_loop]. rewrite d_tag_at by lia.
    assert (Hgt : (attr_tag a >? 5) = true) by lia. rewrite Hgt.
    change (d_err (at_pos (pre ++ enc_tag (attr_tag a)) (enc_attr_body a ++ enc_attrs l ++ rest) false)) with false.
    cbn iota.
    rewrite (dec_value_enc n a _ (enc_attrs l ++ rest) false Ha
               (follow_attrs _ l rest Htag Hl Hrest) ltac:(apply Nat.ltb_lt in Hna; exact Hna)).
    rewrite (IH _ (a :: racc) f Hl Hnl ltac:(cbn [length] in Hfuel; lia)).
    cbn [rev]. rewrite <- !app_assoc. reflexivity.
Qed.

Definition group_ok (n : nat) (g : group) : bool :=
  (0 <=? g_tag g) && (g_tag g <=? 5) && negb (g_tag g =? T_END)
  && forallb attr_ok (g_attrs g)
  && forallb (fun a => Nat.ltb (attr_nvals a) n) (g_attrs g)
  && Nat.ltb (length (g_attrs g)) n.

Lemma groups_delim n gs doc :
  forallb (group_ok n) gs = true -> delim_start (enc_groups gs ++ enc_tag T_END ++ doc).
Proof.
  destruct gs as [|g l]; intros H.
  - cbn [enc_groups app]. unfold enc_tag. cbn [app]. eexists _, _. split; [reflexivity|]. cbn. lia.
  - cbn [forallb] in H. apply andb_true_iff in H as [Hg _]. unfold group_ok in Hg.
    repeat (apply andb_true_iff in Hg as [Hg ?]).
    cbn [enc_groups]. unfold enc_group, enc_tag. rewrite <- !app_assoc. cbn [app].
    eexists _, _. split; [reflexivity|]. rewrite Z2N.id by lia. lia.
Qed.

Lemma dec_msg_loop_enc n doc :
  forall gs pre racc fuel,
    forallb (group_ok n) gs = true -> (length gs < fuel)%nat ->
    dec_msg_loop n fuel (at_pos pre (enc_groups gs ++ enc_tag T_END ++ doc) false) racc
    = ROk (at_pos (pre ++ enc_groups gs ++ enc_tag T_END) doc false, rev racc ++ gs).
Proof.
  induction gs as [|g l IH]; intros pre racc fuel Hok Hfuel.
  - cbn [enc_groups app]. rewrite !app_nil_r.
    destruct fuel as [|f]; [cbn in Hfuel; lia|].
    cbn [dec_msg_loop]. rewrite d_tag_at by (unfold T_END; lia).
    rewrite Z.eqb_refl. reflexivity.
  - pose proof (groups_delim n l doc) as Hdel.
    cbn [forallb] in Hok. apply andb_true_iff in Hok as [Hg Hl]. specialize (Hdel Hl).
    unfold group_ok in Hg. repeat (apply andb_true_iff in Hg as [Hg ?]).
    destruct fuel as [|f]; [cbn in Hfuel; lia|].
    cbn [enc_groups]. unfold enc_group. rewrite <- !app_assoc.
    cbn [dec_msg_loop]. rewrite d_tag_at by lia.
    match goal with H : negb (g_tag g =? T_END) = true |- _ =>
      apply negb_true_iff in H; rewrite H end.
    change (d_err (at_pos (pre ++ enc_tag (g_tag g))
                          (enc_attrs (g_attrs g) ++ enc_groups l ++ enc_tag T_END ++ doc) false)) with false.
    cbn iota.
    rewrite (dec_group_loop_enc n _ Hdel (g_attrs g) _ [] n) by
      (try assumption; match goal with H : Nat.ltb _ _ = true |- _ => apply Nat.ltb_lt in H; exact H end).
    cbn [rev app].
    rewrite (IH _ (mkGroup (g_tag g) (g_attrs g) :: racc) f Hl ltac:(cbn [length] in Hfuel; lia)).
    cbn [rev]. destruct g as [gt ga]. cbn [g_tag g_attrs]. rewrite <- !app_assoc. reflexivity.
Qed.

(* ------------------------------------------------------------------ *)
(* whole requests *)

Definition end_group : group := mkGroup T_END [].
Definition is_end_group (g : group) : bool := (g_tag g =? T_END) && negb (nonempty (g_attrs g)).

(* a request of the property's quantifier: version bytes, 16-bit operation, 32-bit
   request id, groups with delimiter tags 0..5 except 3 holding supported attributes,
   closed by the end-of-attributes group, any document; [n] bounds the numbers of
   groups, attributes per group and values per attribute (it is the fuel) *)
Definition supported (n : nat) (m : msg) : bool :=
  (0 <=? m_maj m) && (m_maj m <? 256) && (0 <=? m_min m) && (m_min m <? 256)
  && (- 2 ^ 15 <=? m_op m) && (m_op m <? 2 ^ 15) && int_ok (m_reqid m)
  && nonempty (m_groups m) && is_end_group (last (m_groups m) end_group)
  && forallb (group_ok n) (removelast (m_groups m))
  && Nat.ltb (length (m_groups m)) n.

Lemma be_enc1 v : 0 <= v < 256 -> be_enc 1 v = enc_tag v.
Proof.
  intros Hv. unfold enc_tag. cbn [be_enc]. change (256 ^ Z.of_nat 0) with 1.
  rewrite Z.div_1_r, Z.mod_small by lia. reflexivity.
Qed.

Lemma new_decoder_at raw : new_decoder raw = at_pos [] raw false.
Proof. reflexivity. Qed.

Lemma is_end_group_eq g : is_end_group g = true -> g = end_group.
Proof.
  destruct g as [t l]. unfold is_end_group, end_group. cbn [g_tag g_attrs]. intros H.
  apply andb_true_iff in H as [Ht Hl]. apply Z.eqb_eq in Ht. subst t.
  destruct l; [reflexivity|discriminate].
Qed.

Lemma enc_groups_app a b : enc_groups (a ++ b) = enc_groups a ++ enc_groups b.
Proof. induction a as [|g a IH]; cbn [enc_groups app]; [reflexivity|rewrite IH, app_assoc; reflexivity]. Qed.

Lemma dec_msg_enc n m :
  supported n m = true -> dec_msg n (enc_request m) = ROk m.
Proof.
  unfold supported. intros H. repeat (apply andb_true_iff in H as [H ?]).
  destruct m as [maj mi op rid gs doc]. cbn [m_maj m_min m_op m_reqid m_groups m_data] in *.
  assert (Hgs : gs = removelast gs ++ [end_group]).
  { destruct gs as [|g0 gs0]; [discriminate|].
    rewrite (app_removelast_last end_group (l := g0 :: gs0)) at 1 by discriminate.
    f_equal. f_equal. apply is_end_group_eq. assumption. }
  set (gs' := removelast gs) in *.
  unfold dec_msg, enc_request, enc_msg. cbn [m_maj m_min m_op m_reqid m_groups m_data].
  rewrite Hgs at 1. rewrite enc_groups_app. cbn [enc_groups]. unfold enc_group, end_group at 1.
  cbn [g_tag g_attrs enc_attrs]. rewrite !app_nil_r.
  rewrite !be_enc1 by lia. rewrite <- !app_assoc.
  rewrite new_decoder_at.
  rewrite !d_tag_at by lia.
  rewrite d_int16_at by lia.
  unfold int_ok in *. rewrite d_int32_at by lia.
  rewrite (dec_msg_loop_enc n doc gs' _ [] n) by
    (try assumption;
     match goal with H : Nat.ltb (length gs) n = true |- _ =>
       apply Nat.ltb_lt in H; rewrite Hgs, app_length in H; cbn [length] in H; lia end).
  cbn [rev app].
  match goal with |- context [copy (at_pos ?P doc false) ?k] =>
    replace k with (zlen doc);
    [ replace (at_pos P doc false) with (at_pos P (doc ++ []) false) by (rewrite app_nil_r; reflexivity)
    | unfold avail, dlen, at_pos; cbn [d_data d_off]; rewrite zlen_app; lia ]
  end.
  rewrite copy_at_pos. cbn [d_err at_pos val_bytes].
  rewrite Hgs. reflexivity.
Qed.

(* ------------------------------------------------------------------ *)
(* termination for EVERY body, and independence of the result from the fuel *)

(* d' is a later state of the same decoder: same buffer, cursor in bounds, error sticky *)
Definition same (d d' : dec) : Prop :=
  d_data d' = d_data d /\ wf d' /\ (d_err d = true -> d_err d' = true).
(* ... reached by reads only: the cursor did not move back *)
Definition fwd (d d' : dec) : Prop := same d d' /\ d_off d <= d_off d'.
(* ... reached by reads and rewinds: no net move back unless an error was recorded *)
Definition adv (d d' : dec) : Prop := same d d' /\ (d_err d' = false -> d_off d <= d_off d').

Lemma same_dlen d d' : same d d' -> dlen d' = dlen d.
Proof. intros (H & _). unfold dlen. rewrite H. reflexivity. Qed.

Lemma fwd_refl d : wf d -> fwd d d.
Proof. intros H. repeat split; auto; try apply H; lia. Qed.

Lemma fwd_trans a b c : fwd a b -> fwd b c -> fwd a c.
Proof.
  intros ((H1 & H2 & H3) & H4) ((H5 & H6 & H7) & H8). repeat split; try apply H6; try lia; auto.
  congruence.
Qed.

Lemma fwd_adv a b : fwd a b -> adv a b.
Proof. intros (H & H'). split; [exact H|intros _; exact H']. Qed.

Lemma adv_trans a b c : adv a b -> adv b c -> adv a c.
Proof.
  intros ((H1 & H2 & H3) & H4) ((H5 & H6 & H7) & H8). repeat split; try apply H6; auto.
  - congruence.
  - intros Hc. destruct (d_err b) eqn:Eb; [rewrite H7 in Hc by reflexivity; discriminate|].
    specialize (H4 eq_refl). specialize (H8 Hc). lia.
Qed.

Lemma fwd_wf a b : fwd a b -> wf b.
Proof. intros ((_ & H & _) & _). exact H. Qed.
Lemma adv_wf a b : adv a b -> wf b.
Proof. intros ((_ & H & _) & _). exact H. Qed.

Lemma read_prim_cases d k sg :
  read_prim d k sg false =
    if has_bytes d k then (advance d k, snd (read_prim d k sg false)) else (set_err d, 0).
Proof. unfold read_prim. destruct (has_bytes d k); reflexivity. Qed.

Lemma advance_fwd d k : wf d -> 0 <= k -> has_bytes d k = true -> fwd d (advance d k).
Proof.
  intros Hw Hk Hb. apply has_bytes_spec in Hb. unfold fwd, same, wf, advance, dlen in *. cbn. repeat split; auto; lia.
Qed.

Lemma set_err_fwd d : wf d -> fwd d (set_err d).
Proof. intros Hw. unfold fwd, same, wf, set_err, dlen in *. cbn. repeat split; auto; lia. Qed.

Lemma read_prim_fwd d k sg : wf d -> 0 <= k -> fwd d (fst (read_prim d k sg false)).
Proof.
  intros Hw Hk. rewrite read_prim_cases. destruct (has_bytes d k) eqn:Hb; cbn [fst].
  - apply advance_fwd; assumption.
  - apply set_err_fwd, Hw.
Qed.

Lemma copy_fwd d n : wf d -> fwd d (fst (copy d n)).
Proof.
  intros Hw. unfold copy. destruct (n <? 0) eqn:Hn; cbn [fst]; [apply set_err_fwd, Hw|].
  destruct (has_bytes d n) eqn:Hb; cbn [fst]; [apply advance_fwd; auto; lia|apply set_err_fwd, Hw].
Qed.

Lemma d_byte_fwd d : wf d -> fwd d (fst (d_byte d)).
Proof. intros; apply read_prim_fwd; auto; lia. Qed.
Lemma d_int16_fwd d : wf d -> fwd d (fst (d_int16 d)).
Proof. intros; apply read_prim_fwd; auto; lia. Qed.
Lemma d_int32_fwd d : wf d -> fwd d (fst (d_int32 d)).
Proof. intros; apply read_prim_fwd; auto; lia. Qed.

Lemma d_getdata_fwd d : wf d -> fwd d (fst (d_getdata d)).
Proof.
  intros Hw. unfold d_getdata. pose proof (d_int16_fwd d Hw) as H1.
  destruct (d_int16 d) as [d1 l]. cbn [fst] in H1.
  pose proof (copy_fwd d1 l (fwd_wf _ _ H1)) as H2.
  destruct (copy d1 l) as [d2 v]. cbn [fst] in *. eapply fwd_trans; eauto.
Qed.

Lemma rd_int_fwd d : wf d -> fwd d (fst (rd_int d)).
Proof.
  intros Hw. unfold rd_int. pose proof (d_int16_fwd d Hw) as H1.
  destruct (d_int16 d) as [d1 l]. cbn [fst] in H1.
  eapply fwd_trans; [exact H1|]. apply d_int32_fwd, (fwd_wf _ _ H1).
Qed.

Lemma rd_str_fwd d : wf d -> fwd d (fst (rd_str d)).
Proof. apply d_getdata_fwd. Qed.

Lemma rd_bool_fwd d : wf d -> fwd d (fst (rd_bool d)).
Proof.
  intros Hw. unfold rd_bool. pose proof (d_int16_fwd d Hw) as H1.
  destruct (d_int16 d) as [d1 l]. cbn [fst] in H1.
  pose proof (d_byte_fwd d1 (fwd_wf _ _ H1)) as H2.
  destruct (d_byte d1) as [d2 b]. cbn [fst] in *. eapply fwd_trans; eauto.
Qed.

(* Byte(): either it fitted (cursor + 1, error flag unchanged) or it returned 0 and
   recorded an error *)
Lemma d_byte_cases d d1 v :
  wf d -> d_byte d = (d1, v) ->
  fwd d d1 /\ ((d_off d1 = d_off d + 1 /\ d_err d1 = d_err d) \/ (v = 0 /\ d_err d1 = true)).
Proof.
  intros Hw H. pose proof (d_byte_fwd d Hw) as Hf. rewrite H in Hf. cbn [fst] in Hf.
  split; [exact Hf|]. unfold d_byte in H. rewrite read_prim_cases in H.
  destruct (has_bytes d 1); inversion H; subst; [left|right]; cbn; auto.
Qed.

Lemma d_seek_same d n :
  wf d -> same d (d_seek d n) /\
          (d_err (d_seek d n) = false -> d_off (d_seek d n) = d_off d + n /\ d_err d = false).
Proof.
  intros Hw. unfold d_seek. destruct (has_bytes d n) eqn:Hb.
  - apply has_bytes_spec in Hb. unfold same, wf, advance, dlen in *. cbn. repeat split; auto; lia.
  - unfold same, wf, set_err, dlen in *. cbn. repeat split; auto; try lia; discriminate.
Qed.

(* a non-zero Int16() followed by Seek(-2) is back where it was *)
Lemma int16_seek_back d d1 l :
  wf d -> d_int16 d = (d1, l) -> l <> 0 -> d_seek d1 (-2) = d.
Proof.
  intros Hw H Hl. unfold d_int16 in H. rewrite read_prim_cases in H.
  destruct (has_bytes d 2) eqn:Hb; inversion H; subst; [|congruence].
  apply has_bytes_spec in Hb. unfold d_seek.
  assert (Hb' : has_bytes (advance d 2) (-2) = true).
  { apply has_bytes_spec. unfold wf, advance, dlen in *. cbn. lia. }
  rewrite Hb'. destruct d as [dd off e]. unfold advance. cbn. f_equal. lia.
Qed.

Section MoreTerm.
  Context {V : Type} (rd : dec -> dec * V) (tag : Z).
  Hypothesis Hrd : forall d, wf d -> fwd d (fst (rd d)).
  Hypothesis Htag : tag <> 0.

  Lemma more_fwd : forall fuel d vt acc d2 vs,
    wf d -> more rd (Z.eqb tag) fuel d vt acc = Some (d2, vs) -> fwd d d2.
  Proof.
    induction fuel as [|f IH]; intros d vt acc d2 vs Hw H; cbn [more] in H;
      destruct (tag =? vt) eqn:Et; try discriminate;
      try (inversion H; subst; apply fwd_refl, Hw).
    pose proof (d_int16_fwd d Hw) as H1.
    destruct (d_int16 d) as [d1 l] eqn:E16. cbn [fst] in H1.
    destruct (l =? 0) eqn:El.
    - pose proof (Hrd d1 (fwd_wf _ _ H1)) as H2. destruct (rd d1) as [d2' v]. cbn [fst] in H2.
      pose proof (d_byte_fwd d2' (fwd_wf _ _ H2)) as H3. destruct (d_byte d2') as [d3 vt']. cbn [fst] in H3.
      apply IH in H; [|exact (fwd_wf _ _ H3)].
      eapply fwd_trans; [exact H1|]. eapply fwd_trans; [exact H2|]. eapply fwd_trans; eauto.
    - inversion H; subst. rewrite (int16_seek_back d d1 l Hw E16) by lia. apply fwd_refl, Hw.
  Qed.

  Lemma more_term : forall fuel d vt acc,
    wf d -> ((tag =? vt) = true -> avail d < Z.of_nat fuel) ->
    more rd (Z.eqb tag) fuel d vt acc <> None.
  Proof.
    induction fuel as [|f IH]; intros d vt acc Hw Hf; cbn [more];
      destruct (tag =? vt) eqn:Et; try discriminate.
    - specialize (Hf eq_refl). unfold wf, avail in *. lia.
    - specialize (Hf eq_refl).
      pose proof (d_int16_fwd d Hw) as H1.
      destruct (d_int16 d) as [d1 l] eqn:E16. cbn [fst] in H1.
      destruct (l =? 0) eqn:El; [|discriminate].
      pose proof (Hrd d1 (fwd_wf _ _ H1)) as H2. destruct (rd d1) as [d2' v]. cbn [fst] in H2.
      destruct (d_byte d2') as [d3 vt'] eqn:Eb.
      destruct (d_byte_cases d2' d3 vt' (fwd_wf _ _ H2) Eb) as [H3 Hc].
      apply IH; [exact (fwd_wf _ _ H3)|]. intros Et'.
      destruct Hc as [[Ho _]|[Hv _]]; [|apply Z.eqb_eq in Et'; congruence].
      pose proof (same_dlen _ _ (proj1 H1)). pose proof (same_dlen _ _ (proj1 H2)).
      pose proof (same_dlen _ _ (proj1 H3)).
      destruct H1 as [_ H1], H2 as [_ H2]. unfold avail in *. lia.
  Qed.

  Lemma tail_adv fuel d acc d' vs :
    wf d -> tail_vals rd (Z.eqb tag) fuel d acc = Some (d', vs) -> adv d d'.
  Proof.
    intros Hw H. unfold tail_vals in H.
    destruct (d_byte d) as [d1 vt] eqn:Eb.
    destruct (d_byte_cases d d1 vt Hw Eb) as [H1 Hc].
    destruct (more rd (Z.eqb tag) fuel d1 vt acc) as [[d2 vs']|] eqn:Em; [|discriminate].
    inversion H; subst. pose proof (more_fwd _ _ _ _ _ _ (fwd_wf _ _ H1) Em) as H2.
    destruct (d_seek_same d2 (-1) (fwd_wf _ _ H2)) as [Hs Hp].
    destruct H1 as [(A1 & A2 & A3) A4], H2 as [(B1 & B2 & B3) B4], Hs as (C1 & C2 & C3).
    split; [repeat split; try apply C2; auto; congruence|].
    intros He. destruct (Hp He) as [Ho He2].
    destruct Hc as [[Ho1 He1]|[_ He1]].
    - lia.
    - rewrite B3 in He2 by exact He1. discriminate.
  Qed.

  Lemma tail_term fuel d acc :
    wf d -> avail d < Z.of_nat fuel -> tail_vals rd (Z.eqb tag) fuel d acc <> None.
  Proof.
    intros Hw Hf. unfold tail_vals.
    destruct (d_byte d) as [d1 vt] eqn:Eb.
    destruct (d_byte_cases d d1 vt Hw Eb) as [H1 _].
    destruct (more rd (Z.eqb tag) fuel d1 vt acc) as [[d2 vs']|] eqn:Em; [discriminate|].
    exfalso. revert Em. apply more_term; [exact (fwd_wf _ _ H1)|]. intros _.
    pose proof (same_dlen _ _ (proj1 H1)). destruct H1 as [_ H1]. unfold avail in *. lia.
  Qed.
End MoreTerm.

(* more fuel never changes a result *)
Lemma more_mono {V} (rd : dec -> dec * V) cont : forall fuel fuel' d vt acc r,
  (fuel <= fuel')%nat -> more rd cont fuel d vt acc = Some r -> more rd cont fuel' d vt acc = Some r.
Proof.
  induction fuel as [|f IH]; intros fuel' d vt acc r Hle H; cbn [more] in H.
  - destruct (cont vt) eqn:Ec; [discriminate|]. destruct fuel'; cbn [more]; rewrite Ec; exact H.
  - destruct fuel' as [|f']; [lia|]. cbn [more]. destruct (cont vt); [|exact H].
    destruct (d_int16 d) as [d1 l]. destruct (l =? 0); [|exact H].
    destruct (rd d1) as [d2 v]. destruct (d_byte d2) as [d3 vt'].
    apply (IH f'); [lia|exact H].
Qed.

Lemma tail_mono {V} (rd : dec -> dec * V) cont fuel fuel' d acc r :
  (fuel <= fuel')%nat -> tail_vals rd cont fuel d acc = Some r -> tail_vals rd cont fuel' d acc = Some r.
Proof.
  intros Hle H. unfold tail_vals in *. destruct (d_byte d) as [d1 vt].
  destruct (more rd cont fuel d1 vt acc) as [[d2 vs]|] eqn:Em; [|discriminate].
  rewrite (more_mono rd cont fuel fuel' d1 vt acc _ Hle Em). exact H.
Qed.

Section MultiTerm.
  Context {V : Type} (rd : dec -> dec * V) (mk : bytes -> list V -> attr).
  Hypothesis Hrd : forall d, wf d -> fwd d (fst (rd d)).

  Lemma dec_multi_adv n d t d' a :
    t <> 0 -> wf d -> dec_multi rd mk n d t = Some (d', a) -> adv d d'.
  Proof.
    intros Ht Hw H. unfold dec_multi in H.
    pose proof (d_getdata_fwd d Hw) as H1. destruct (d_getdata d) as [d1 nm]. cbn [fst] in H1.
    pose proof (Hrd d1 (fwd_wf _ _ H1)) as H2. destruct (rd d1) as [d2 v]. cbn [fst] in H2.
    destruct (tail_vals rd (Z.eqb t) n d2 [v]) as [[d3 vs]|] eqn:Et; [|discriminate].
    inversion H; subst.
    eapply adv_trans; [apply fwd_adv; eapply fwd_trans; eauto|].
    eapply (tail_adv rd t Hrd); [exact (fwd_wf _ _ H2)|exact Et].
  Qed.

  Lemma dec_multi_term n d t :
    t <> 0 -> wf d -> dlen d < Z.of_nat n -> dec_multi rd mk n d t <> None.
  Proof.
    intros Ht Hw Hn. unfold dec_multi.
    pose proof (d_getdata_fwd d Hw) as H1. destruct (d_getdata d) as [d1 nm]. cbn [fst] in H1.
    pose proof (Hrd d1 (fwd_wf _ _ H1)) as H2. destruct (rd d1) as [d2 v]. cbn [fst] in H2.
    destruct (tail_vals rd (Z.eqb t) n d2 [v]) as [[d3 vs]|] eqn:Et; [discriminate|].
    exfalso. revert Et. apply (tail_term rd t Hrd Ht); [exact (fwd_wf _ _ H2)|].
    pose proof (same_dlen _ _ (proj1 H1)). pose proof (same_dlen _ _ (proj1 H2)).
    pose proof (fwd_wf _ _ H2) as Hw2. unfold wf, avail in *. lia.
  Qed.

  Lemma dec_multi_mono n n' d t r :
    (n <= n')%nat -> dec_multi rd mk n d t = Some r -> dec_multi rd mk n' d t = Some r.
  Proof.
    intros Hle H. unfold dec_multi in *. destruct (d_getdata d) as [d1 nm]. destruct (rd d1) as [d2 v].
    destruct (tail_vals rd (Z.eqb t) n d2 [v]) as [[d3 vs]|] eqn:Et; [|discriminate].
    rewrite (tail_mono rd _ n n' d2 [v] _ Hle Et). exact H.
  Qed.
End MultiTerm.

Lemma dec_range_fwd d t : wf d -> fwd d (fst (dec_range d t)).
Proof.
  intros Hw. unfold dec_range.
  pose proof (d_getdata_fwd d Hw) as H1. destruct (d_getdata d) as [d1 nm]. cbn [fst] in H1.
  pose proof (d_int16_fwd d1 (fwd_wf _ _ H1)) as H2. destruct (d_int16 d1) as [d2 x]. cbn [fst] in H2.
  pose proof (d_int32_fwd d2 (fwd_wf _ _ H2)) as H3. destruct (d_int32 d2) as [d3 lo]. cbn [fst] in H3.
  pose proof (d_int32_fwd d3 (fwd_wf _ _ H3)) as H4. destruct (d_int32 d3) as [d4 hi]. cbn [fst] in *.
  eapply fwd_trans; [exact H1|]. eapply fwd_trans; [exact H2|]. eapply fwd_trans; eauto.
Qed.

Lemma dec_value_adv n d t d' a :
  t <> 0 -> wf d -> dec_value n d t = ROk (d', a) -> adv d d'.
Proof.
  intros Ht Hw H. unfold dec_value in H. destruct (kind_of t).
  - unfold dec_int in H. destruct (dec_multi rd_int (AInt t) n d t) as [[d2 a2]|] eqn:E; inversion H; subst.
    eapply dec_multi_adv; eauto using rd_int_fwd.
  - unfold dec_bool in H. destruct (dec_multi rd_bool (ABool t) n d t) as [[d2 a2]|] eqn:E; inversion H; subst.
    eapply dec_multi_adv; eauto using rd_bool_fwd.
  - unfold dec_str in H. destruct (dec_multi rd_str (AStr t) n d t) as [[d2 a2]|] eqn:E; inversion H; subst.
    eapply dec_multi_adv; eauto using rd_str_fwd.
  - inversion H. pose proof (dec_range_fwd d t Hw) as Hf. rewrite H1 in Hf. apply fwd_adv, Hf.
Qed.

Lemma dec_value_term n d t :
  t <> 0 -> wf d -> dlen d < Z.of_nat n -> exists d' a, dec_value n d t = ROk (d', a).
Proof.
  intros Ht Hw Hn. unfold dec_value. destruct (kind_of t).
  - unfold dec_int. destruct (dec_multi rd_int (AInt t) n d t) as [[d2 a2]|] eqn:E; [cbn; eauto|].
    exfalso. revert E. apply dec_multi_term; auto using rd_int_fwd.
  - unfold dec_bool. destruct (dec_multi rd_bool (ABool t) n d t) as [[d2 a2]|] eqn:E; [cbn; eauto|].
    exfalso. revert E. apply dec_multi_term; auto using rd_bool_fwd.
  - unfold dec_str. destruct (dec_multi rd_str (AStr t) n d t) as [[d2 a2]|] eqn:E; [cbn; eauto|].
    exfalso. revert E. apply dec_multi_term; auto using rd_str_fwd.
  - destruct (dec_range d t); eauto.
Qed.

Lemma dec_value_mono n n' d t r :
  (n <= n')%nat -> dec_value n d t = r -> r <> RFuel -> dec_value n' d t = r.
Proof.
  intros Hle H Hr. unfold dec_value in *. destruct (kind_of t); try exact H.
  - unfold dec_int in *. destruct (dec_multi rd_int (AInt t) n d t) as [x|] eqn:E; [|cbn in H; congruence].
    rewrite (dec_multi_mono _ _ n n' d t x Hle E). exact H.
  - unfold dec_bool in *. destruct (dec_multi rd_bool (ABool t) n d t) as [x|] eqn:E; [|cbn in H; congruence].
    rewrite (dec_multi_mono _ _ n n' d t x Hle E). exact H.
  - unfold dec_str in *. destruct (dec_multi rd_str (AStr t) n d t) as [x|] eqn:E; [|cbn in H; congruence].
    rewrite (dec_multi_mono _ _ n n' d t x Hle E). exact H.
Qed.

(* iterations a loop of attribGroup.decode / ippMsg.decode can still make from [d]:
   one once an error is recorded, otherwise at most one per remaining byte plus two *)
Definition need (d : dec) : Z := if d_err d then 1 else avail d + 2.

Lemma group_adv n : forall fuel d racc d' l,
  wf d -> dec_group_loop n fuel d racc = ROk (d', l) -> adv d d'.
Proof.
  assert (Hexit : forall d d1 vtag, wf d -> d_byte d = (d1, vtag) -> adv d (d_seek d1 (-1))).
  { intros d d1 vtag Hw Eb. destruct (d_byte_cases d d1 vtag Hw Eb) as [H1 Hc].
    destruct (d_seek_same d1 (-1) (fwd_wf _ _ H1)) as [Hs Hp].
    destruct H1 as [(A1 & A2 & A3) A4], Hs as (C1 & C2 & C3).
    split; [repeat split; try apply C2; auto; congruence|].
    intros He. destruct (Hp He) as [Ho He1].
    destruct Hc as [[Ho1 _]|[_ He2]]; [lia|congruence]. }
  induction fuel as [|f IH]; intros d racc d' l Hw H; cbn [dec_group_loop] in H;
    destruct (d_byte d) as [d1 vtag] eqn:Eb; destruct (vtag >? 5) eqn:Eg; try discriminate;
    try (inversion H; subst; eapply Hexit; eauto).
  destruct (d_byte_cases d d1 vtag Hw Eb) as [H1 _].
  destruct (d_err d1); [discriminate|].
  destruct (dec_value n d1 vtag) as [[d2 a]| |] eqn:Ev; try discriminate.
  pose proof (dec_value_adv n d1 vtag d2 a ltac:(lia) (fwd_wf _ _ H1) Ev) as H2.
  apply IH in H; [|exact (adv_wf _ _ H2)].
  eapply adv_trans; [apply fwd_adv, H1|]. eapply adv_trans; eauto.
Qed.

Lemma need_after d1 d2 f :
  wf d1 -> adv d1 d2 -> d_err d1 = false -> avail d1 + 2 <= Z.of_nat f -> need d2 <= Z.of_nat f.
Proof.
  intros Hw [Hs Hp] He Hf. pose proof (same_dlen _ _ Hs). unfold need.
  destruct (d_err d2) eqn:E2; [unfold wf, avail in *; lia|].
  specialize (Hp eq_refl). unfold avail in *. lia.
Qed.

Lemma group_term n : forall fuel d racc,
  wf d -> dlen d < Z.of_nat n -> need d <= Z.of_nat fuel ->
  dec_group_loop n fuel d racc <> RFuel.
Proof.
  induction fuel as [|f IH]; intros d racc Hw Hn Hf; cbn [dec_group_loop];
    destruct (d_byte d) as [d1 vtag] eqn:Eb; destruct (vtag >? 5) eqn:Eg; try discriminate.
  - unfold need in Hf. destruct (d_err d); unfold wf, avail in *; lia.
  - destruct (d_byte_cases d d1 vtag Hw Eb) as [H1 Hc].
    destruct (d_err d1) eqn:E1; [discriminate|].
    destruct Hc as [[Ho He]|[Hv He]]; [|congruence].
    pose proof (same_dlen _ _ (proj1 H1)) as Hl.
    destruct (dec_value_term n d1 vtag ltac:(lia) (fwd_wf _ _ H1) ltac:(lia)) as (d2 & a & Ev).
    rewrite Ev.
    pose proof (dec_value_adv n d1 vtag d2 a ltac:(lia) (fwd_wf _ _ H1) Ev) as H2.
    apply IH; [exact (adv_wf _ _ H2)|pose proof (same_dlen _ _ (proj1 H2)); lia|].
    apply (need_after d1 d2 f (fwd_wf _ _ H1) H2 E1).
    unfold need in Hf. rewrite <- He in Hf. unfold avail in *. lia.
Qed.

Lemma group_mono n n' : forall fuel fuel' d racc r,
  (n <= n')%nat -> (fuel <= fuel')%nat ->
  dec_group_loop n fuel d racc = r -> r <> RFuel -> dec_group_loop n' fuel' d racc = r.
Proof.
  induction fuel as [|f IH]; intros fuel' d racc r Hn Hle H Hr; cbn [dec_group_loop] in H.
  - destruct (d_byte d) as [d1 vtag] eqn:Eb. destruct (vtag >? 5) eqn:Eg; [congruence|].
    destruct fuel'; cbn [dec_group_loop]; rewrite Eb, Eg; exact H.
  - destruct fuel' as [|f']; [lia|]. cbn [dec_group_loop].
    destruct (d_byte d) as [d1 vtag]. destruct (vtag >? 5); [|exact H].
    destruct (d_err d1); [exact H|].
    destruct (dec_value n d1 vtag) as [[d2 a]| |] eqn:Ev; try congruence.
    + rewrite (dec_value_mono n n' d1 vtag _ Hn Ev) by discriminate.
      apply (IH f'); auto; lia.
    + rewrite (dec_value_mono n n' d1 vtag _ Hn Ev) by discriminate. exact H.
Qed.

Lemma msg_term n : forall fuel d racc,
  wf d -> dlen d < Z.of_nat n -> need d <= Z.of_nat fuel ->
  dec_msg_loop n fuel d racc <> RFuel.
Proof.
  induction fuel as [|f IH]; intros d racc Hw Hn Hf; cbn [dec_msg_loop];
    destruct (d_byte d) as [d1 dtag] eqn:Eb; destruct (dtag =? T_END) eqn:Eg; try discriminate.
  - unfold need in Hf. destruct (d_err d); unfold wf, avail in *; lia.
  - destruct (d_byte_cases d d1 dtag Hw Eb) as [H1 Hc].
    destruct (d_err d1) eqn:E1; [discriminate|].
    destruct Hc as [[Ho He]|[Hv He]]; [|congruence].
    pose proof (same_dlen _ _ (proj1 H1)) as Hl.
    assert (Hf1 : avail d1 + 2 <= Z.of_nat f).
    { unfold need in Hf. rewrite <- He in Hf. unfold avail in *. lia. }
    destruct (dec_group_loop n n d1 []) as [[d2 attrs]| |] eqn:Eg2; try discriminate.
    + pose proof (group_adv n n d1 [] d2 attrs (fwd_wf _ _ H1) Eg2) as H2.
      apply IH; [exact (adv_wf _ _ H2)|pose proof (same_dlen _ _ (proj1 H2)); lia|].
      apply (need_after d1 d2 f (fwd_wf _ _ H1) H2 E1 Hf1).
    + exfalso. revert Eg2. apply group_term; [exact (fwd_wf _ _ H1)|lia|].
      unfold need. rewrite E1. pose proof (fwd_wf _ _ H1) as Hw1. unfold wf, avail in *. lia.
Qed.

Lemma msg_mono n n' : forall fuel fuel' d racc r,
  (n <= n')%nat -> (fuel <= fuel')%nat ->
  dec_msg_loop n fuel d racc = r -> r <> RFuel -> dec_msg_loop n' fuel' d racc = r.
Proof.
  induction fuel as [|f IH]; intros fuel' d racc r Hn Hle H Hr; cbn [dec_msg_loop] in H.
  - destruct (d_byte d) as [d1 dtag] eqn:Eb. destruct (dtag =? T_END) eqn:Eg; [|congruence].
    destruct fuel'; cbn [dec_msg_loop]; rewrite Eb, Eg; exact H.
  - destruct fuel' as [|f']; [lia|]. cbn [dec_msg_loop].
    destruct (d_byte d) as [d1 dtag]. destruct (dtag =? T_END); [exact H|].
    destruct (d_err d1); [exact H|].
    destruct (dec_group_loop n n d1 []) as [[d2 attrs]| |] eqn:Eg2; try congruence.
    + rewrite (group_mono n n' n n' d1 [] _ Hn Hn Eg2) by discriminate.
      apply (IH f'); auto; lia.
    + rewrite (group_mono n n' n n' d1 [] _ Hn Hn Eg2) by discriminate. exact H.
Qed.

(* the header reads of ippMsg.decode *)
Lemma header_fwd raw :
  let d := new_decoder raw in
  let d1 := fst (d_byte d) in let d2 := fst (d_byte d1) in
  let d3 := fst (d_int16 d2) in let d4 := fst (d_int32 d3) in
  fwd d d4.
Proof.
  cbn zeta. pose proof (new_decoder_wf raw) as Hw.
  pose proof (d_byte_fwd _ Hw) as H1.
  pose proof (d_byte_fwd _ (fwd_wf _ _ H1)) as H2.
  pose proof (d_int16_fwd _ (fwd_wf _ _ H2)) as H3.
  pose proof (d_int32_fwd _ (fwd_wf _ _ H3)) as H4.
  eapply fwd_trans; [exact H1|]. eapply fwd_trans; [exact H2|]. eapply fwd_trans; eauto.
Qed.

Lemma dec_msg_unfold n raw :
  dec_msg n raw =
  let d := new_decoder raw in
  let d1 := fst (d_byte d) in let d2 := fst (d_byte d1) in
  let d3 := fst (d_int16 d2) in let d4 := fst (d_int32 d3) in
  match dec_msg_loop n n d4 [] with
  | ROk (d5, gs) =>
      if d_err (fst (copy d5 (avail d5))) then RErr
      else ROk (mkMsg (snd (d_byte d)) (snd (d_byte d1)) (snd (d_int16 d2)) (snd (d_int32 d3))
                      (gs ++ [mkGroup T_END []]) (val_bytes (snd (copy d5 (avail d5)))))
  | RErr => RErr | RFuel => RFuel
  end.
Proof.
  unfold dec_msg. cbn zeta.
  destruct (d_byte (new_decoder raw)) as [d1 maj]. cbn [fst snd].
  destruct (d_byte d1) as [d2 mi]. cbn [fst snd].
  destruct (d_int16 d2) as [d3 op]. cbn [fst snd].
  destruct (d_int32 d3) as [d4 rid]. cbn [fst snd].
  destruct (dec_msg_loop n n d4 []) as [[d5 gs]| |]; try reflexivity.
  destruct (copy d5 (avail d5)) as [d6 v]. reflexivity.
Qed.

(* ippMsg.decode returns for EVERY body: two more iterations than bytes always suffice *)
Lemma dec_msg_terminates raw n : (fuel_for raw <= n)%nat -> dec_msg n raw <> RFuel.
Proof.
  intros Hn. rewrite dec_msg_unfold. cbn zeta.
  pose proof (header_fwd raw) as Hf. cbn zeta in Hf.
  set (d4 := fst (d_int32 _)) in *.
  pose proof (same_dlen _ _ (proj1 Hf)) as Hl.
  assert (Hraw : dlen (new_decoder raw) = Z.of_nat (length raw)) by reflexivity.
  unfold fuel_for in Hn.
  destruct (dec_msg_loop n n d4 []) as [[d5 gs]| |] eqn:E; try discriminate.
  - destruct (d_err (fst (copy d5 (avail d5)))); discriminate.
  - exfalso. revert E. apply msg_term; [exact (fwd_wf _ _ Hf)|lia|].
    pose proof (fwd_wf _ _ Hf) as Hw. unfold need. destruct (d_err d4); unfold wf, avail in *; lia.
Qed.

Lemma dec_msg_terminates_bound raw :
  exists n, (n <= length raw + 2)%nat /\ dec_msg n raw <> RFuel.
Proof.
  exists (fuel_for raw). split; [unfold fuel_for; lia|]. exact (dec_msg_terminates raw _ (le_n _)).
Qed.

Lemma dec_msg_mono raw n n' :
  (n <= n')%nat -> dec_msg n raw <> RFuel -> dec_msg n' raw = dec_msg n raw.
Proof.
  intros Hle H. rewrite !dec_msg_unfold in *. cbn zeta in *.
  set (d4 := fst (d_int32 _)) in *.
  destruct (dec_msg_loop n n d4 []) as [[d5 gs]| |] eqn:E; try congruence.
  - rewrite (msg_mono n n' n n' d4 [] _ Hle Hle E) by discriminate. reflexivity.
  - rewrite (msg_mono n n' n n' d4 [] _ Hle Hle E) by discriminate. reflexivity.
Qed.

(* hence the result is the one computed with the run's fuel, whatever larger fuel *)
Lemma dec_msg_fuel_indep raw n :
  (fuel_for raw <= n)%nat -> dec_msg n raw = dec_msg (fuel_for raw) raw.
Proof.
  intros Hn. apply dec_msg_mono; [exact Hn|]. apply dec_msg_terminates. lia.
Qed.

(* ------------------------------------------------------------------ *)
(* a body without end-of-attributes tag is refused *)

Lemma d_byte_in d d1 v :
  wf d -> d_byte d = (d1, v) -> v <> 0 -> In (Z.to_N v) (d_data d).
Proof.
  intros Hw H Hv. unfold d_byte, read_prim in H.
  destruct (has_bytes d 1) eqn:Hb; [|inversion H; congruence].
  apply has_bytes_spec in Hb. inversion H; subst. clear H.
  unfold at_cursor, slice, wf, dlen, zlen in *.
  replace (Z.to_nat (d_off d + 1 - d_off d)) with 1%nat in * by lia.
  destruct (skipn (Z.to_nat (d_off d)) (d_data d)) as [|x r] eqn:Es.
  - exfalso. apply Hv. reflexivity.
  - cbn [firstn]. unfold be_val. cbn [be_val_acc].
    replace (0 * 256 + Z.of_N x) with (Z.of_N x) by lia. rewrite N2Z.id.
    rewrite <- (firstn_skipn (Z.to_nat (d_off d)) (d_data d)), Es.
    apply in_or_app. right. left. reflexivity.
Qed.

Lemma msg_loop_ok_end n : forall fuel d racc d' gs,
  wf d -> dec_msg_loop n fuel d racc = ROk (d', gs) -> In 3%N (d_data d).
Proof.
  assert (Hend : forall d d1 dtag, wf d -> d_byte d = (d1, dtag) -> (dtag =? T_END) = true -> In 3%N (d_data d)).
  { intros d d1 dtag Hw Eb Eg. apply Z.eqb_eq in Eg. subst dtag.
    apply (d_byte_in d d1 T_END Hw Eb). discriminate. }
  induction fuel as [|f IH]; intros d racc d' gs Hw H; cbn [dec_msg_loop] in H;
    destruct (d_byte d) as [d1 dtag] eqn:Eb; destruct (dtag =? T_END) eqn:Eg; try discriminate;
    try solve [eapply Hend; eauto].
  destruct (d_byte_cases d d1 dtag Hw Eb) as [H1 _].
  destruct (d_err d1); [discriminate|].
  destruct (dec_group_loop n n d1 []) as [[d2 attrs]| |] eqn:Eg2; try discriminate.
  pose proof (group_adv n n d1 [] d2 attrs (fwd_wf _ _ H1) Eg2) as H2.
  apply IH in H; [|exact (adv_wf _ _ H2)].
  destruct H1 as [(A1 & _) _], H2 as [(B1 & _) _]. rewrite <- A1, <- B1. exact H.
Qed.

Lemma no_end_tag_refused raw n :
  ~ In 3%N raw -> (fuel_for raw <= n)%nat -> dec_msg n raw = RErr.
Proof.
  intros Hno Hn. pose proof (dec_msg_terminates raw n Hn) as Ht.
  rewrite dec_msg_unfold in *. cbn zeta in *.
  pose proof (header_fwd raw) as Hf. cbn zeta in Hf.
  set (d4 := fst (d_int32 _)) in *.
  destruct (dec_msg_loop n n d4 []) as [[d5 gs]| |] eqn:E; try congruence.
  exfalso. apply Hno.
  pose proof (msg_loop_ok_end n n d4 [] d5 gs (fwd_wf _ _ Hf) E) as Hin.
  destruct Hf as [(A1 & _) _]. rewrite A1 in Hin. exact Hin.
Qed.

Lemma no_end_tag_no_reply raw n :
  ~ In 3%N raw -> (fuel_for raw <= n)%nat -> handler n raw = HNoReply.
Proof. intros H Hn. unfold handler. rewrite (no_end_tag_refused raw n H Hn). reflexivity. Qed.

(* every body gets an answer or a decode error: the handler returns *)
Lemma handler_returns raw n : (fuel_for raw <= n)%nat -> handler n raw <> HHang.
Proof.
  intros Hn. pose proof (dec_msg_terminates raw n Hn). unfold handler.
  destruct (dec_msg n raw); [unfold handle_msg; destruct (response_of a)| |]; congruence.
Qed.

(* ------------------------------------------------------------------ *)
(* reply and event *)

Lemma handler_enc n m :
  supported n m = true -> handler n (enc_request m) = handle_msg m.
Proof. intros H. unfold handler. rewrite (dec_msg_enc n m H). reflexivity. Qed.

Lemma beq_eq a : forall b, beq a b = true <-> a = b.
Proof.
  induction a as [|x a IH]; intros [|y b]; cbn [beq]; split; intros H; try discriminate; auto.
  - apply andb_true_iff in H as [Hx Hab]. apply N.eqb_eq in Hx. apply IH in Hab. congruence.
  - inversion H; subst. rewrite N.eqb_refl. cbn. apply IH. reflexivity.
Qed.

Lemma beq_refl a : beq a a = true.
Proof. apply beq_eq. reflexivity. Qed.

Lemma beq_eqb a b : beq a b = eqb_bytes a b.
Proof.
  destruct (eqb_bytes a b) eqn:E.
  - apply eqb_bytes_true in E. apply beq_eq, E.
  - destruct (beq a b) eqn:E'; [|reflexivity].
    apply beq_eq in E'. apply eqb_bytes_true in E'. congruence.
Qed.

Lemma is_prefix_app p x : is_prefix p (p ++ x) = true.
Proof. induction p as [|a p IH]; cbn [is_prefix app]; [reflexivity|rewrite N.eqb_refl, IH; reflexivity]. Qed.

Lemma names_distinct :
  eqb_bytes N_URI N_USER = false /\ eqb_bytes N_URI N_FORMAT = false /\ eqb_bytes N_URI N_JOB = false /\
  eqb_bytes N_USER N_URI = false /\ eqb_bytes N_USER N_FORMAT = false /\ eqb_bytes N_USER N_JOB = false /\
  eqb_bytes N_FORMAT N_URI = false /\ eqb_bytes N_FORMAT N_USER = false /\ eqb_bytes N_FORMAT N_JOB = false /\
  eqb_bytes N_JOB N_URI = false /\ eqb_bytes N_JOB N_USER = false /\ eqb_bytes N_JOB N_FORMAT = false.
Proof. vm_compute. repeat split. Qed.

(* setPrintJobResponse leaves in uri / username / jobname the values of the string
   attributes printer-uri / requesting-user-name / job-name, whatever else is there *)
Lemma pj_scan_fields : forall l p,
  pj_uri (pj_scan l p) = lookup_from N_URI l (pj_uri p) /\
  pj_user (pj_scan l p) = lookup_from N_USER l (pj_user p) /\
  pj_job (pj_scan l p) = lookup_from N_JOB l (pj_job p).
Proof.
  destruct names_distinct as (D1 & D2 & D3 & D4 & D5 & D6 & D7 & D8 & D9 & D10 & D11 & D12).
  induction l as [|a l IH]; intros p; cbn [pj_scan lookup_from]; [auto|].
  destruct a as [t n vs|t n vs|t n vs|t n lo hi]; try apply IH.
  rewrite !beq_eqb.
  match goal with |- context [pj_scan l ?q] => destruct (IH q) as (H1 & H2 & H3) end.
  rewrite H1, H2, H3. clear H1 H2 H3.
  destruct (eqb_bytes n N_URI) eqn:E1.
  { apply eqb_bytes_true in E1. subst n. rewrite D1, D3. cbn [pj_uri pj_user pj_job]. auto. }
  destruct (eqb_bytes n N_USER) eqn:E2.
  { apply eqb_bytes_true in E2. subst n. rewrite D6. cbn [pj_uri pj_user pj_job]. auto. }
  destruct (eqb_bytes n N_FORMAT) eqn:E3.
  { apply eqb_bytes_true in E3. subst n. rewrite D9. cbn [pj_uri pj_user pj_job]. auto. }
  destruct (eqb_bytes n N_JOB) eqn:E4; cbn [pj_uri pj_user pj_job]; auto.
Qed.

Lemma enc_groups_last extra : enc_groups (extra ++ [end_group]) = enc_groups extra ++ [3%N].
Proof. rewrite enc_groups_app. reflexivity. Qed.

Lemma response_echo_ok m : reply_echo_ok m (enc_msg (fst (response_of m))) = true.
Proof.
  unfold response_of. cbn [fst].
  unfold reply_echo_ok, echo_prefix, enc_msg. cbn [m_maj m_min m_op m_reqid m_groups].
  rewrite enc_groups_app. change (mkGroup T_END []) with end_group. rewrite enc_groups_last.
  apply andb_true_iff. split.
  - rewrite !app_assoc.
    match goal with |- is_prefix ?p ((?p ++ ?x) ++ ?y) = true => rewrite <- (app_assoc p x y) end.
    apply is_prefix_app.
  - rewrite !app_assoc. rewrite last_last. reflexivity.
Qed.

Lemma handle_msg_ok m :
  exists body uri user job,
    handle_msg m = HReply body uri user job (m_data m) /\
    reply_echo_ok m body = true /\
    (m_op m = OP_PRINT_JOB ->
       uri = lookup_str N_URI (first_op_attrs m) /\
       user = lookup_str N_USER (first_op_attrs m) /\
       job = lookup_str N_JOB (first_op_attrs m)).
Proof.
  pose proof (response_echo_ok m) as He.
  unfold handle_msg. destruct (response_of m) as [r p] eqn:Er. cbn [fst] in He.
  eexists _, _, _, _. split; [reflexivity|]. split; [exact He|].
  intros Hop. unfold response_of in Er. inversion Er as [[Hr Hp]]. clear Er Hr.
  rewrite Hop. change (OP_PRINT_JOB =? OP_PRINT_JOB) with true. cbn iota.
  unfold print_job_fields, lookup_str, first_op_attrs.
  destruct (find is_op_group (m_groups m)) as [g|]; [|cbn; auto].
  apply (pj_scan_fields (g_attrs g) pj_empty).
Qed.

(* the property, for every supported request: a reply is produced; it echoes version,
   request id, charset and language; the event carries the document and, for a print
   job, printer URI, user and job name unchanged *)
Lemma request_served n m :
  supported n m = true ->
  exists body uri user job,
    handler n (enc_request m) = HReply body uri user job (m_data m) /\
    reply_echo_ok m body = true /\
    (m_op m = OP_PRINT_JOB ->
       uri = lookup_str N_URI (first_op_attrs m) /\
       user = lookup_str N_USER (first_op_attrs m) /\
       job = lookup_str N_JOB (first_op_attrs m)).
Proof. intros H. rewrite (handler_enc n m H). apply handle_msg_ok. Qed.

(* ------------------------------------------------------------------ *)
(* the fuel used by the correspondence run ([fuel_for]: two more than the number of
   bytes) is within [supported]'s bounds for every supported request *)

Lemma enc_vals_len {V} (ev : V -> bytes) t nm : forall vs first,
  (length vs <= length (enc_vals ev t nm first vs))%nat.
Proof.
  induction vs as [|v r IH]; intros first; cbn [enc_vals length]; [lia|].
  unfold enc_tag. cbn [app length]. rewrite !app_length. specialize (IH false). lia.
Qed.

Lemma enc_attr_len a : (attr_nvals a <= length (enc_attr a))%nat.
Proof.
  destruct a as [t n vs|t n vs|t n vs|t n lo hi]; cbn [attr_nvals enc_attr];
    try apply enc_vals_len.
  unfold enc_tag. cbn [app length]. lia.
Qed.

Lemma attr_ok_nvals a : attr_ok a = true -> (1 <= attr_nvals a)%nat.
Proof.
  destruct a as [t n vs|t n vs|t n vs|t n lo hi]; cbn [attr_ok attr_nvals]; intros H;
    repeat (apply andb_true_iff in H as [H ?]);
    try (destruct vs; [discriminate|cbn [length]; lia]).
  lia.
Qed.

Lemma enc_attrs_len : forall l,
  forallb attr_ok l = true ->
  (length l <= length (enc_attrs l))%nat /\
  (forall a, In a l -> (attr_nvals a <= length (enc_attrs l))%nat).
Proof.
  induction l as [|a l IH]; intros H; cbn [enc_attrs length].
  - split; [lia|intros a []].
  - cbn [forallb] in H. apply andb_true_iff in H as [Ha Hl]. destruct (IH Hl) as [IH1 IH2].
    pose proof (enc_attr_len a). pose proof (attr_ok_nvals a Ha).
    rewrite app_length. split; [lia|].
    intros b [<-|Hb]; [lia|]. specialize (IH2 b Hb). lia.
Qed.

Lemma enc_groups_len : forall gs,
  (length gs <= length (enc_groups gs))%nat /\
  (forall g, In g gs -> (length (enc_attrs (g_attrs g)) <= length (enc_groups gs))%nat).
Proof.
  induction gs as [|g gs [IH1 IH2]]; cbn [enc_groups length].
  - split; [lia|intros g []].
  - unfold enc_group, enc_tag. cbn [app length]. rewrite !app_length. split; [lia|].
    intros h [<-|Hh]; [lia|]. specialize (IH2 h Hh). lia.
Qed.

Lemma supported_fuel_for n m :
  supported n m = true -> supported (fuel_for (enc_request m)) m = true.
Proof.
  unfold supported. intros H. repeat (apply andb_true_iff in H as [H ?]).
  assert (Hlen : (length (enc_groups (m_groups m)) <= length (enc_request m))%nat).
  { unfold enc_request, enc_msg. rewrite !app_length. lia. }
  destruct (enc_groups_len (m_groups m)) as [L1 L2].
  assert (Hgs : m_groups m = removelast (m_groups m) ++ [last (m_groups m) end_group]).
  { destruct (m_groups m) as [|g0 gs0]; [discriminate|]. apply app_removelast_last. discriminate. }
  rewrite H, H9, H8, H7, H6, H5, H4, H3, H2. cbn [andb].
  apply andb_true_iff; split.
  - apply forallb_forall. intros g Hg.
    match goal with H : forallb (group_ok n) _ = true |- _ =>
      rewrite forallb_forall in H; specialize (H g Hg); rename H into Hok end.
    assert (Hin : In g (m_groups m)) by (rewrite Hgs; apply in_or_app; auto).
    specialize (L2 g Hin).
    unfold group_ok in *. repeat (apply andb_true_iff in Hok as [Hok ?]).
    destruct (enc_attrs_len (g_attrs g)) as [A1 A2]; [assumption|].
    repeat match goal with Hx : ?b = true |- context [?b] => rewrite Hx end. cbn [andb].
    apply andb_true_iff; split.
    + apply forallb_forall. intros a Ha. specialize (A2 a Ha).
      apply Nat.ltb_lt. unfold fuel_for. lia.
    + apply Nat.ltb_lt. unfold fuel_for. lia.
  - apply Nat.ltb_lt. unfold fuel_for. lia.
Qed.

(* the round trip with ANY fuel from the run's fuel upwards *)
Lemma dec_msg_enc_any_fuel n0 m n :
  supported n0 m = true -> (fuel_for (enc_request m) <= n)%nat ->
  dec_msg n (enc_request m) = ROk m.
Proof.
  intros H Hn. rewrite (dec_msg_fuel_indep _ n Hn).
  apply dec_msg_enc, (supported_fuel_for n0 m H).
Qed.

(* ------------------------------------------------------------------ *)
(* the model's observations pass the executable property of IppCheck *)

Lemma list_eqb_refl {A} (e : A -> A -> bool) (He : forall x, e x x = true) l : list_eqb e l l = true.
Proof. induction l as [|x l IH]; cbn [list_eqb]; [reflexivity|rewrite He, IH; reflexivity]. Qed.

Lemma attr_eqb_refl a : attr_eqb a a = true.
Proof.
  destruct a as [t n vs|t n vs|t n vs|t n lo hi]; cbn [attr_eqb];
    rewrite ?Z.eqb_refl, ?beq_refl; cbn [andb];
    try (apply list_eqb_refl; first [exact Z.eqb_refl|exact beq_refl|intros []; reflexivity]).
  reflexivity.
Qed.

Lemma msg_eqb_refl m : msg_eqb m m = true.
Proof.
  unfold msg_eqb. rewrite !Z.eqb_refl. cbn [andb].
  apply list_eqb_refl. intros g. unfold group_eqb. rewrite Z.eqb_refl. cbn [andb].
  apply list_eqb_refl, attr_eqb_refl.
Qed.

Lemma data_ok_refl d : data_ok d (DOLit d) = true.
Proof. cbn. apply beq_refl. Qed.

(* the case the model itself produces for a request *)
Definition model_case (id : N) (m : msg) : icase :=
  let raw := enc_request m in
  mkICase id true m (enc_msg m) (DLit (m_data m))
          (match handler (fuel_for raw) raw with
           | HReply b u us j d => OReply b u us j (DOLit d)
           | HNoReply => ONoReply
           | HHang => OHang
           end)
          (match dec_msg (fuel_for raw) raw with
           | ROk m' => DMsg m' (DOLit (m_data m'))
           | RErr => DErr
           | RFuel => DHang
           end)
          true [] true.

Lemma model_meets_clause id n m :
  supported n m = true -> case_sig (model_case id m) = 0%N.
Proof.
  intros H. pose proof (supported_fuel_for n m H) as Hf.
  unfold case_sig, model_case. cbn [c_structured]. cbn zeta.
  replace (clause_sig _) with 0%N; [reflexivity|]. symmetry.
  unfold clause_sig. cbn [c_msg c_doc c_dec c_obs c_hsame doc_bytes].
  rewrite (dec_msg_enc _ m Hf).
  destruct (request_served _ m Hf) as (b & u & us & j & Hh & He & Hp). rewrite Hh.
  unfold decode_sig. rewrite msg_eqb_refl, data_ok_refl. cbn [andb negb N.eqb].
  unfold reply_sig. rewrite He. cbn [negb].
  assert (Hfields : (m_op m =? OP_PRINT_JOB)
            && negb (beq u (lookup_str N_URI (first_op_attrs m))
                     && beq us (lookup_str N_USER (first_op_attrs m))
                     && beq j (lookup_str N_JOB (first_op_attrs m))) = false).
  { destruct (m_op m =? OP_PRINT_JOB) eqn:E; [|reflexivity].
    apply Z.eqb_eq in E. destruct (Hp E) as (-> & -> & ->). rewrite !beq_refl. reflexivity. }
  rewrite Hfields, data_ok_refl. cbn [negb N.eqb].
  reflexivity.
Qed.

(* ------------------------------------------------------------------ *)
(* examples *)
Import String.StringSyntax.
Local Open Scope string_scope.
Local Open Scope list_scope.
Local Open Scope Z_scope.

Definition a_charset := AStr V_CHARSET (str "attributes-charset") [str "utf-8"].
Definition a_lang := AStr V_LANG (str "attributes-natural-language") [str "en"].
Definition a_uri := AStr V_URI N_URI [str "ipp://192.0.2.1/printers/p"].
Definition a_job := AStr V_NAME N_JOB [str "report"].

(* the requests that the code mishandled before the fix: commits *)
Definition w_bool : msg :=
  mkMsg 1 1 OP_PRINT_JOB 1
        [mkGroup T_OP [a_charset; a_lang; a_uri]; mkGroup T_JOB [ABool V_BOOL (str "last-document") [true]; AInt V_INT (str "copies") [2]]; end_group]
        (str "%PDF").
Definition w_bool_last : msg :=
  mkMsg 1 1 OP_GET_PRINTER_ATTR 2 [mkGroup T_OP [a_charset; a_lang; ABool V_BOOL (str "my-jobs") [true; false]]; end_group] [].
Definition w_int3 : msg :=
  mkMsg 2 0 OP_PRINT_JOB 6 [mkGroup T_OP [a_charset; a_lang; a_uri]; mkGroup T_JOB [AInt V_INT (str "copies") [1; 2; 3; 4]]; end_group] (str "d").
Definition w_range : msg :=
  mkMsg 1 1 OP_PRINT_JOB 3 [mkGroup T_OP [a_charset; a_lang; a_uri; ARange V_RANGE (str "page-ranges") 1 (-1); a_job]; end_group] (str "x").
Definition w_pj_int : msg :=
  mkMsg 1 1 OP_PRINT_JOB 5 [mkGroup T_OP [a_charset; a_lang; a_uri; AInt V_INT (str "job-k-octets") [12]; a_job]; end_group] (str "data").
(* an octetString attribute (value tag 0x30): kept as an opaque string *)
Definition w_opaque : msg :=
  mkMsg 1 1 OP_GET_PRINTER_ATTR 1 [mkGroup T_OP [AStr 48 (str "n") [str "v"]]; end_group] [].

Lemma former_witnesses_supported :
  supported 20 w_bool = true /\ supported 20 w_bool_last = true /\ supported 20 w_int3 = true /\
  supported 20 w_range = true /\ supported 20 w_pj_int = true /\ supported 20 w_opaque = true /\
  exists b u us, handler 20 (enc_request w_pj_int)
                 = HReply b u us (lookup_str N_JOB (first_op_attrs w_pj_int)) (m_data w_pj_int).
Proof. repeat split; try (vm_compute; reflexivity). eexists _, _, _. vm_compute. reflexivity. Qed.

Lemma empty_body_refused : forall n, (2 <= n)%nat -> handler n [] = HNoReply.
Proof. intros n Hn. apply no_end_tag_no_reply; [intros []|exact Hn]. Qed.

Definition ex_print_job : msg :=
  mkMsg 2 0 OP_PRINT_JOB (-2)
        [mkGroup T_OP [a_charset; a_lang; a_uri; AStr V_NAME N_USER [str "alice"]; a_job;
                       AStr V_MIME N_FORMAT [str "application/pdf"]; ABool V_BOOL (str "ipp-attribute-fidelity") [false]];
         mkGroup T_JOB [AInt V_INT (str "copies") [2]; AInt V_ENUM (str "finishings") [3; 4; 5];
                        ARange V_RANGE (str "page-ranges") 1 5;
                        AStr V_KEYWORD (str "sides") [str "one-sided"; []; str "x"]];
         end_group]
        (str "%PDF-1.4 hello").

Lemma ex_print_job_supported : supported 20 ex_print_job = true.
Proof. vm_compute. reflexivity. Qed.
