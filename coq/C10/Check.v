(* C10 - executable checks over the implementation's observations.
   part "svc": one service instance fed a history of datagrams (CS), and the constants
               of services.NewLimiter as written in the source (CC);
   part "rate": golang.org/x/time/rate under a synthetic clock (CR). *)
From HT Require Import Common.Bytes C10.Model.
From Coq Require Uint63.
Open Scope Z_scope.

(* payloads arrive packed, 7 bytes (big-endian) per primitive 63-bit integer, the last
   word holding the remaining bytes: much faster for coqc to read than N literals *)
Module Packed.
Import Uint63.
Fixpoint low_bits (n : nat) (x : Uint63.int) : N :=
  match n with
  | O => 0%N
  | S n' => (if Uint63.is_even x then N.double else N.succ_double) (low_bits n' (Uint63.lsr x 1%uint63))
  end.
Definition word_bytes (w : Uint63.int) : bytes :=
  map (fun sh => low_bits 8 (Uint63.lsr w sh)) [48; 40; 32; 24; 16; 8; 0]%uint63.
Fixpoint unpack (len : Z) (ws : list Uint63.int) : bytes :=
  match ws with
  | [] => []
  | [w] => skipn (Z.to_nat (7 - len)) (word_bytes w)
  | w :: r => word_bytes w ++ unpack (len - 7) r
  end.
End Packed.
Definition unpack := Packed.unpack.

(* observation for one datagram *)
Record dobs := mkO {
  o_ip : bytes;            (* source address, 16-byte form *)
  o_replies : list N;      (* response datagrams written to it while this datagram was handled *)
  o_panic : bool;          (* Handle panicked *)
  o_alone : list N         (* the same, when only this source's datagrams are replayed on a new instance *)
}.

Record scase := mkS { s_id : N; s_svc : svc; s_exact : bool; s_h : list (dgram * dobs) }.
Record rcase := mkR { r_id : N; r_ts : list Z; r_obs : list bool }.
Record ccase := mkC { k_id : N; k_interval : Z; k_burst : Z }.
(* part "conc": per fresh source address, x_rows = (datagrams sent - the first ones
   handled concurrently -, responses received); all datagrams carry x_d's payload *)
Record xcase := mkX { x_id : N; x_svc : svc; x_d : dgram; x_elapsed : Z; x_rows : list (Z * Z) }.

(* part "lim": services.Limiter itself on long call sequences over many keys.  The calls
   are given as segments: for each of g_keys keys from index g_first on, g_per calls with
   that key followed by g_flood calls with key 0 (the flooding source) *)
Record lseg := mkSeg { g_first : Z; g_keys : Z; g_per : Z; g_flood : Z }.
Record lcase := mkL {
  l_id : N; l_exact : bool;    (* few enough keys for the model run to be affordable *)
  l_segs : list lseg;
  l_elapsed : Z;               (* ns from the first to the last call *)
  l_other : Z;                 (* grants to addresses that are neither TCP nor UDP (must be 0) *)
  l_flood : Z;                 (* grants to key 0 *)
  l_hist : list (Z * Z)        (* (g, number of other keys granted g > 0 times), ascending g *)
}.
Inductive case := CS (c : scase) | CR (c : rcase) | CC (c : ccase) | CX (c : xcase) | CL (c : lcase).

Definition SIG_OVER_BURST := 1%N.     (* one source IP received more than 4 responses inside one interval *)
Definition SIG_INTERFERENCE := 2%N.   (* what a source receives depends on other sources' datagrams *)
Definition SIG_KEY := 3%N.            (* two different source IPs share a limiter key (or one IP has two) *)
Definition SIG_RATE_OVER := 4%N.      (* the rate library granted more than burst inside one interval (less 2 ns) *)
Definition SIG_CONC_OVER := 6%N.      (* a source whose first datagrams were handled concurrently got more than 4 responses *)
Definition SIG_LONG_RUN := 7%N.       (* services.Limiter granted one key more than burst + elapsed/interval over a long call sequence *)
Definition SIG_CONSTS := 5%N.         (* NewLimiter: burst above 4 or refill faster than one per 10 min *)

(* ---- CS: property evaluated on the observations alone ---- *)
Definition answered (c : scase) : list (bytes * Z * Z) :=     (* source, time, number of responses *)
  flat_map (fun x => match o_replies (snd x) with
                     | [] => []
                     | rs => [(o_ip (snd x), d_t (fst x), zlen rs)]
                     end) (s_h c).

Definition over_burst (c : scase) : bool :=
  let rl := answered c in
  existsb (fun x => let '(ip, a, _) := x in
             BURST <? fold_left (fun acc y => let '(ip', t, n) := y in
                                   if eqb_bytes ip ip' && in_win a I_NS t then acc + n else acc) rl 0) rl.

Definition interference (c : scase) : bool :=
  existsb (fun x => negb (eqb_bytes (o_replies (snd x)) (o_alone (snd x)))) (s_h c).

Definition pair_mem (p : bytes * bytes) (l : list (bytes * bytes)) : bool :=
  existsb (fun q => eqb_bytes (fst p) (fst q) && eqb_bytes (snd p) (snd q)) l.

Definition key_pairs (c : scase) : list (bytes * bytes) :=
  fold_left (fun acc x => let p := (o_ip (snd x), d_key (fst x)) in if pair_mem p acc then acc else p :: acc)
            (s_h c) [].

Definition key_conflict (c : scase) : bool :=
  let ps := key_pairs c in
  existsb (fun p => existsb (fun q => xorb (eqb_bytes (fst p) (fst q)) (eqb_bytes (snd p) (snd q))) ps) ps.

Definition scase_sig (c : scase) : N :=
  if over_burst c then SIG_OVER_BURST
  else if key_conflict c then SIG_KEY
  else if interference c then SIG_INTERFERENCE
  else 0%N.

(* ---- CS: the model's prediction ---- *)
(* ev_replies, ev_panic, ev_denied: projections of one datagram's events, in Model.v *)

Definition model_run (c : scase) : list (list event) := run (s_svc c) [] [] (map fst (s_h c)).

Fixpoint agree (m : list (list event)) (h : list (dgram * dobs)) : bool :=
  match m, h with
  | [], [] => true
  | ev :: m', x :: h' =>
      eqb_bytes (ev_replies ev) (o_replies (snd x)) && Bool.eqb (ev_panic ev) (o_panic (snd x)) && agree m' h'
  | _, _ => false
  end.

Definition scase_mismatch (c : scase) : bool := s_exact c && negb (agree (model_run c) (s_h c)).

Definition distinct_sources (c : scase) : nat := length (key_pairs c).

Definition scase_tag (c : scase) : N :=
  let m := model_run c in
  ((if existsb (fun x => match o_replies (snd x) with [] => false | _ => true end) (s_h c) then 1 else 0)
   + (if existsb ev_denied m then 2 else 0)
   + (if (2 <=? distinct_sources c)%nat then 4 else 0)
   + (if existsb ev_panic m then 8 else 0)
   + (if existsb (fun x => (2 <=? length (o_replies (snd x)))%nat) (s_h c) then 16 else 0))%N.

(* ---- CR: the rate library against [bstep], refill included ---- *)
(* the library computes in float64 and truncates durations to whole nanoseconds (it
   grants while less than 1 ns is missing; a saturating refill may lose up to 1 ns): a
   decision taken with the credit within 2 ns of the price of a token is not compared,
   nor is anything after it *)
Definition ambiguous (b : bucket) (t : Z) : bool :=
  let c := Z.min CAP (b_credit b + (t - Z.min (b_last b) t)) in (I_NS - 2 <=? c) && (c <=? I_NS + 2).

Fixpoint rate_differs (b : bucket) (ts : list Z) (obs : list bool) : bool :=
  match ts, obs with
  | [], [] => false
  | t :: ts', g :: obs' =>
      if ambiguous b t then false
      else let '(g', b') := bstep b t in
           if Bool.eqb g g' then rate_differs b' ts' obs' else true
  | _, _ => true
  end.

Fixpoint rate_ambiguous (b : bucket) (ts : list Z) : bool :=
  match ts with
  | [] => false
  | t :: ts' => if ambiguous b t then true else rate_ambiguous (snd (bstep b t)) ts'
  end.

Definition rstart (c : rcase) : bucket := fresh (hd 0 (r_ts c)).
Definition rcase_mismatch (c : rcase) : bool := rate_differs (rstart c) (r_ts c) (r_obs c).

Fixpoint nondecr_b (l : list Z) : bool :=
  match l with
  | x :: r => match r with [] => true | y :: _ => (x <=? y) && nondecr_b r end
  | [] => true
  end.

Definition rate_over (c : rcase) : bool :=
  nondecr_b (r_ts c) &&
  let tg := combine (r_ts c) (r_obs c) in
  existsb (fun x => snd x &&
             (BURST <? fold_left (fun acc y => if snd y && in_win (fst x) (I_NS - 2) (fst y) then acc + 1 else acc) tg 0)) tg.

Definition rcase_tag (c : rcase) : N :=
  ((if existsb negb (r_obs c) then 1 else 0)                                   (* some call refused *)
   + (if (Z.to_nat BURST <? length (filter (fun g => g) (r_obs c)))%nat then 2 else 0)   (* refill observed *)
   + (if nondecr_b (r_ts c) then 0 else 4)                                      (* clock stepped back *)
   + (if rate_ambiguous (rstart c) (r_ts c) then 8 else 0))%N.

(* ---- CC ---- *)
Definition ccase_mismatch (c : ccase) : bool := negb ((k_interval c =? I_NS) && (k_burst c =? BURST)).
Definition ccase_sig (c : ccase) : N := if (4 <? k_burst c) || (k_interval c <? 600000000000) then SIG_CONSTS else 0%N.

(* ---- CX ---- *)
(* every Allow of the script is followed by a response: then, whatever the interleaving,
   an atomic limiter lets exactly min(burst, number of Allow calls) responses through *)
Fixpoint uniform (s : list step) : bool :=
  match s with
  | [] => true
  | SAsk :: r => match r with SReply _ :: r' => uniform r' | _ => false end
  | _ => false
  end.
Definition asks_of (s : list step) : Z := zlen (filter (fun x => match x with SAsk => true | _ => false end) s).

(* everything happens within x_elapsed ns: burst plus what is refilled in that time *)
Definition xcase_sig (c : xcase) : N :=
  if existsb (fun row => BURST + x_elapsed c / I_NS <? snd row) (x_rows c) then SIG_CONC_OVER else 0%N.
Definition xcase_mismatch (c : xcase) : bool :=
  let sc := script (x_svc c) [] (x_d c) in
  (x_elapsed c <? I_NS / 2) && uniform sc && existsb (fun row => negb (snd row =? Z.min BURST (fst row * asks_of sc))) (x_rows c).
Definition x_full (c : xcase) : bool := existsb (fun row => snd row =? BURST) (x_rows c).
Definition x_part (c : xcase) : bool := existsb (fun row => (0 <? snd row) && (snd row <? BURST)) (x_rows c).
Definition xcase_tag (c : xcase) : N := ((if x_full c then 1 else 0) + (if x_part c then 2 else 0))%N.

(* ---- CL ---- *)
Definition kx (i : Z) : key := [Z.to_N (i / 65536); Z.to_N ((i / 256) mod 256); Z.to_N (i mod 256)].

Fixpoint seg_keys (n : nat) (j per flood : Z) : list Z :=
  match n with
  | O => []
  | S n' => repeat j (Z.to_nat per) ++ repeat 0 (Z.to_nat flood) ++ seg_keys n' (j + 1) per flood
  end.
Definition seg_calls (s : lseg) : list Z := seg_keys (Z.to_nat (g_keys s)) (g_first s) (g_per s) (g_flood s).

Fixpoint bump (cnt : list (Z * Z)) (i : Z) : list (Z * Z) :=
  match cnt with
  | [] => [(i, 1)]
  | (j, n) :: r => if j =? i then (j, n + 1) :: r else (j, n) :: bump r i
  end.

(* the model's limiter over the calls (all inside the no-refill window: clock 0);
   grants per key index, most recent key first *)
Fixpoint lrun (l : limiter) (cnt : list (Z * Z)) (calls : list Z) : list (Z * Z) :=
  match calls with
  | [] => cnt
  | i :: r => let '(g, l') := allow l (kx i) 0 in
              lrun l' (if g then (match cnt with (j, n) :: c' => if j =? i then (j, n + 1) :: c' else (i, 1) :: cnt
                                  | [] => [(i, 1)] end) else cnt) r
  end.

(* lrun conses a key again when other keys were granted in between: merge *)
Definition merge (cnt : list (Z * Z)) : list (Z * Z) :=
  fold_left (fun acc x => let '(j, n) := x in
               (fix add (a : list (Z * Z)) := match a with
                                              | [] => [(j, n)]
                                              | (j', n') :: r => if j' =? j then (j', n' + n) :: r else (j', n') :: add r
                                              end) acc) cnt [].

Definition hist_of (cnt : list (Z * Z)) : list (Z * Z) :=
  filter (fun x => 0 <? snd x)
    (map (fun g => (g, zlen (filter (fun x => negb (fst x =? 0) && (snd x =? g)) cnt))) [1; 2; 3; 4; 5; 6; 7; 8]).

Definition lcase_model (c : lcase) : Z * list (Z * Z) :=
  let cnt := merge (lrun [] [] (flat_map seg_calls (l_segs c))) in
  (fold_left (fun acc x => if fst x =? 0 then acc + snd x else acc) cnt 0, hist_of cnt).

Fixpoint zz_eqb (a b : list (Z * Z)) : bool :=
  match a, b with
  | [], [] => true
  | (x, y) :: a', (x', y') :: b' => (x =? x') && (y =? y') && zz_eqb a' b'
  | _, _ => false
  end.

Definition lcase_mismatch (c : lcase) : bool :=
  if negb (l_other c =? 0) then true
  else if l_exact c && (l_elapsed c <? I_NS / 2) then   (* (if, not &&: vm_compute is call-by-value) *)
    let '(f, h) := lcase_model c in negb ((f =? l_flood c) && zz_eqb h (l_hist c))
  else false.
Definition lcase_sig (c : lcase) : N :=
  let lim := BURST + l_elapsed c / I_NS in
  if (lim <? l_flood c) || existsb (fun x => lim <? fst x) (l_hist c) then SIG_LONG_RUN else 0%N.

(* ---- exported ---- *)
Definition case_id (c : case) : N := match c with CS s => s_id s | CR r => r_id r | CC k => k_id k | CX x => x_id x | CL l => l_id l end.
Definition case_sig (c : case) : N :=
  match c with
  | CS s => scase_sig s
  | CR r => if rate_over r then SIG_RATE_OVER else 0%N
  | CC k => ccase_sig k
  | CX x => xcase_sig x
  | CL l => lcase_sig l
  end.
Definition case_mismatch (c : case) : bool :=
  match c with CS s => scase_mismatch s | CR r => rcase_mismatch r | CC k => ccase_mismatch k | CX x => xcase_mismatch x | CL l => lcase_mismatch l end.

Definition mismatches (cs : list case) : list N := map case_id (filter case_mismatch cs).
Definition violations (cs : list case) : list (N * N) :=
  flat_map (fun c => let s := case_sig c in if (s =? 0)%N then [] else [(case_id c, s)]) cs.
Definition tags (cs : list case) : list (N * N) :=
  map (fun c => (case_id c, match c with CS s => scase_tag s | CR r => rcase_tag r | CC _ => 1%N | CX x => xcase_tag x | CL _ => 1%N end)) cs.
