(* C10 - executable checks over the implementation's observations.
   part "svc": one service instance fed a history of datagrams (CS), and the constants
               of services.NewLimiter as written in the source (CC);
   part "rate": golang.org/x/time/rate under a synthetic clock (CR). *)
From HT Require Import Common.Bytes C10.Model.
From Coq Require Uint63.
Open Scope Z_scope.

(* payloads arrive packed, 7 bytes (big-endian) per primitive 63-bit integer, the last
   word holding the remaining bytes: much faster for coqc to read than N literals *)
Module Packed.
Import Uint63.
Fixpoint low_bits (n : nat) (x : Uint63.int) : N :=
  match n with
  | O => 0%N
  | S n' => (if Uint63.is_even x then N.double else N.succ_double) (low_bits n' (Uint63.lsr x 1%uint63))
  end.
Definition word_bytes (w : Uint63.int) : bytes :=
  map (fun sh => low_bits 8 (Uint63.lsr w sh)) [48; 40; 32; 24; 16; 8; 0]%uint63.
Fixpoint unpack (len : Z) (ws : list Uint63.int) : bytes :=
  match ws with
  | [] => []
  | [w] => skipn (Z.to_nat (7 - len)) (word_bytes w)
  | w :: r => word_bytes w ++ unpack (len - 7) r
  end.
End Packed.
Definition unpack := Packed.unpack.

(* observation for one datagram *)
Record dobs := mkO {
  o_ip : bytes;            (* source address, 16-byte form *)
  o_replies : list N;      (* response datagrams written to it while this datagram was handled *)
  o_panic : bool;          (* Handle panicked *)
  o_alone : list N         (* the same, when only this source's datagrams are replayed on a new instance *)
}.

Record scase := mkS { s_id : N; s_svc : svc; s_exact : bool; s_h : list (dgram * dobs) }.
Record rcase := mkR { r_id : N; r_ts : list Z; r_obs : list bool }.
Record ccase := mkC { k_id : N; k_interval : Z; k_burst : Z }.
(* part "conc": per fresh source address, x_rows = (datagrams sent - the first ones
   handled concurrently -, responses received); all datagrams carry x_d's payload *)
Record xcase := mkX { x_id : N; x_svc : svc; x_d : dgram; x_rows : list (Z * Z) }.
Inductive case := CS (c : scase) | CR (c : rcase) | CC (c : ccase) | CX (c : xcase).

Definition SIG_OVER_BURST := 1%N.     (* one source IP received more than 4 responses inside one interval *)
Definition SIG_INTERFERENCE := 2%N.   (* what a source receives depends on other sources' datagrams *)
Definition SIG_KEY := 3%N.            (* two different source IPs share a limiter key (or one IP has two) *)
Definition SIG_RATE_OVER := 4%N.      (* the rate library granted more than burst inside one interval (less 2 ns) *)
Definition SIG_CONC_OVER := 6%N.      (* a source whose first datagrams were handled concurrently got more than 4 responses *)
Definition SIG_CONSTS := 5%N.         (* NewLimiter: burst above 4 or refill faster than one per 10 min *)

(* ---- CS: property evaluated on the observations alone ---- *)
Definition answered (c : scase) : list (bytes * Z * Z) :=     (* source, time, number of responses *)
  flat_map (fun x => match o_replies (snd x) with
                     | [] => []
                     | rs => [(o_ip (snd x), d_t (fst x), zlen rs)]
                     end) (s_h c).

Definition over_burst (c : scase) : bool :=
  let rl := answered c in
  existsb (fun x => let '(ip, a, _) := x in
             BURST <? fold_left (fun acc y => let '(ip', t, n) := y in
                                   if eqb_bytes ip ip' && in_win a I_NS t then acc + n else acc) rl 0) rl.

Definition interference (c : scase) : bool :=
  existsb (fun x => negb (eqb_bytes (o_replies (snd x)) (o_alone (snd x)))) (s_h c).

Definition pair_mem (p : bytes * bytes) (l : list (bytes * bytes)) : bool :=
  existsb (fun q => eqb_bytes (fst p) (fst q) && eqb_bytes (snd p) (snd q)) l.

Definition key_pairs (c : scase) : list (bytes * bytes) :=
  fold_left (fun acc x => let p := (o_ip (snd x), d_key (fst x)) in if pair_mem p acc then acc else p :: acc)
            (s_h c) [].

Definition key_conflict (c : scase) : bool :=
  let ps := key_pairs c in
  existsb (fun p => existsb (fun q => xorb (eqb_bytes (fst p) (fst q)) (eqb_bytes (snd p) (snd q))) ps) ps.

Definition scase_sig (c : scase) : N :=
  if over_burst c then SIG_OVER_BURST
  else if key_conflict c then SIG_KEY
  else if interference c then SIG_INTERFERENCE
  else 0%N.

(* ---- CS: the model's prediction ---- *)
(* ev_replies, ev_panic, ev_denied: projections of one datagram's events, in Model.v *)

Definition model_run (c : scase) : list (list event) := run (s_svc c) [] [] (map fst (s_h c)).

Fixpoint agree (m : list (list event)) (h : list (dgram * dobs)) : bool :=
  match m, h with
  | [], [] => true
  | ev :: m', x :: h' =>
      eqb_bytes (ev_replies ev) (o_replies (snd x)) && Bool.eqb (ev_panic ev) (o_panic (snd x)) && agree m' h'
  | _, _ => false
  end.

Definition scase_mismatch (c : scase) : bool := s_exact c && negb (agree (model_run c) (s_h c)).

Definition distinct_sources (c : scase) : nat := length (key_pairs c).

Definition scase_tag (c : scase) : N :=
  let m := model_run c in
  ((if existsb (fun x => match o_replies (snd x) with [] => false | _ => true end) (s_h c) then 1 else 0)
   + (if existsb ev_denied m then 2 else 0)
   + (if (2 <=? distinct_sources c)%nat then 4 else 0)
   + (if existsb ev_panic m then 8 else 0)
   + (if existsb (fun x => (2 <=? length (o_replies (snd x)))%nat) (s_h c) then 16 else 0))%N.

(* ---- CR: the rate library against [bstep], refill included ---- *)
(* the library computes in float64 and truncates durations to whole nanoseconds (it
   grants while less than 1 ns is missing; a saturating refill may lose up to 1 ns): a
   decision taken with the credit within 2 ns of the price of a token is not compared,
   nor is anything after it *)
Definition ambiguous (b : bucket) (t : Z) : bool :=
  let c := Z.min CAP (b_credit b + (t - Z.min (b_last b) t)) in (I_NS - 2 <=? c) && (c <=? I_NS + 2).

Fixpoint rate_differs (b : bucket) (ts : list Z) (obs : list bool) : bool :=
  match ts, obs with
  | [], [] => false
  | t :: ts', g :: obs' =>
      if ambiguous b t then false
      else let '(g', b') := bstep b t in
           if Bool.eqb g g' then rate_differs b' ts' obs' else true
  | _, _ => true
  end.

Fixpoint rate_ambiguous (b : bucket) (ts : list Z) : bool :=
  match ts with
  | [] => false
  | t :: ts' => if ambiguous b t then true else rate_ambiguous (snd (bstep b t)) ts'
  end.

Definition rstart (c : rcase) : bucket := fresh (hd 0 (r_ts c)).
Definition rcase_mismatch (c : rcase) : bool := rate_differs (rstart c) (r_ts c) (r_obs c).

Fixpoint nondecr_b (l : list Z) : bool :=
  match l with
  | x :: r => match r with [] => true | y :: _ => (x <=? y) && nondecr_b r end
  | [] => true
  end.

Definition rate_over (c : rcase) : bool :=
  nondecr_b (r_ts c) &&
  let tg := combine (r_ts c) (r_obs c) in
  existsb (fun x => snd x &&
             (BURST <? fold_left (fun acc y => if snd y && in_win (fst x) (I_NS - 2) (fst y) then acc + 1 else acc) tg 0)) tg.

Definition rcase_tag (c : rcase) : N :=
  ((if existsb negb (r_obs c) then 1 else 0)                                   (* some call refused *)
   + (if (Z.to_nat BURST <? length (filter (fun g => g) (r_obs c)))%nat then 2 else 0)   (* refill observed *)
   + (if nondecr_b (r_ts c) then 0 else 4)                                      (* clock stepped back *)
   + (if rate_ambiguous (rstart c) (r_ts c) then 8 else 0))%N.

(* ---- CC ---- *)
Definition ccase_mismatch (c : ccase) : bool := negb ((k_interval c =? I_NS) && (k_burst c =? BURST)).
Definition ccase_sig (c : ccase) : N := if (4 <? k_burst c) || (k_interval c <? 600000000000) then SIG_CONSTS else 0%N.

(* ---- CX ---- *)
(* every Allow of the script is followed by a response: then, whatever the interleaving,
   an atomic limiter lets exactly min(burst, number of Allow calls) responses through *)
Fixpoint uniform (s : list step) : bool :=
  match s with
  | [] => true
  | SAsk :: r => match r with SReply _ :: r' => uniform r' | _ => false end
  | _ => false
  end.
Definition asks_of (s : list step) : Z := zlen (filter (fun x => match x with SAsk => true | _ => false end) s).

Definition xcase_sig (c : xcase) : N :=
  if existsb (fun row => BURST <? snd row) (x_rows c) then SIG_CONC_OVER else 0%N.
Definition xcase_mismatch (c : xcase) : bool :=
  let sc := script (x_svc c) [] (x_d c) in
  uniform sc && existsb (fun row => negb (snd row =? Z.min BURST (fst row * asks_of sc))) (x_rows c).
Definition x_full (c : xcase) : bool := existsb (fun row => snd row =? BURST) (x_rows c).
Definition x_part (c : xcase) : bool := existsb (fun row => (0 <? snd row) && (snd row <? BURST)) (x_rows c).
Definition xcase_tag (c : xcase) : N := ((if x_full c then 1 else 0) + (if x_part c then 2 else 0))%N.

(* ---- exported ---- *)
Definition case_id (c : case) : N := match c with CS s => s_id s | CR r => r_id r | CC k => k_id k | CX x => x_id x end.
Definition case_sig (c : case) : N :=
  match c with
  | CS s => scase_sig s
  | CR r => if rate_over r then SIG_RATE_OVER else 0%N
  | CC k => ccase_sig k
  | CX x => xcase_sig x
  end.
Definition case_mismatch (c : case) : bool :=
  match c with CS s => scase_mismatch s | CR r => rcase_mismatch r | CC k => ccase_mismatch k | CX x => xcase_mismatch x end.

Definition mismatches (cs : list case) : list N := map case_id (filter case_mismatch cs).
Definition violations (cs : list case) : list (N * N) :=
  flat_map (fun c => let s := case_sig c in if (s =? 0)%N then [] else [(case_id c, s)]) cs.
Definition tags (cs : list case) : list (N * N) :=
  map (fun c => (case_id c, match c with CS s => scase_tag s | CR r => rcase_tag r | CC _ => 1%N | CX x => xcase_tag x end)) cs.
