(* C10 - lemmas about the token bucket, the limiter map and the services' scripts. *)
From HT Require Import Common.Bytes C10.Model.
From Coq Require Import ZifyBool ZifyN ZifyNat.
Open Scope Z_scope.

(* ------------------------------------------------------------------ *)
(* byte-string equality *)

Lemma eqb_bytes_refl a : eqb_bytes a a = true.
Proof. apply eqb_bytes_true; reflexivity. Qed.

Lemma eqb_bytes_false a b : eqb_bytes a b = false <-> a <> b.
Proof.
  split.
  - intros H E. apply eqb_bytes_true in E. congruence.
  - intros H. destruct (eqb_bytes a b) eqn:E; auto. apply eqb_bytes_true in E. contradiction.
Qed.

(* ------------------------------------------------------------------ *)
(* one bucket *)

Definition wfb (b : bucket) : Prop := 0 <= b_credit b <= CAP.

(* credit available at time t (after advance) *)
Definition availc (b : bucket) (t : Z) : Z := Z.min CAP (b_credit b + (t - Z.min (b_last b) t)).

Lemma bstep_eq b t :
  bstep b t = if I_NS <=? availc b t then (true, mkB (availc b t - I_NS) t)
              else (false, mkB (b_credit b) (Z.min (b_last b) t)).
Proof. reflexivity. Qed.

Lemma consts_pos : 0 < I_NS /\ CAP = 4 * I_NS.
Proof. unfold CAP, BURST, I_NS. lia. Qed.

Lemma bstep_wf b t : wfb b -> wfb (snd (bstep b t)).
Proof.
  unfold wfb. rewrite bstep_eq. pose proof consts_pos as [Hi Hc].
  unfold availc. destruct (I_NS <=? _) eqn:E; cbn [snd b_credit]; lia.
Qed.

Lemma bstep_last b t : b_last (snd (bstep b t)) <= t.
Proof. rewrite bstep_eq. destruct (I_NS <=? _); cbn [snd b_last]; lia. Qed.

Lemma availc_nonneg b t : wfb b -> 0 <= availc b t.
Proof. unfold wfb, availc. pose proof consts_pos. lia. Qed.

Lemma availc_le b t : availc b t <= CAP.
Proof. unfold availc. lia. Qed.

(* products with the interval are linear once it is a literal *)
Ltac zl := unfold I_NS in *; lia.

Lemma bseq_cons b t r : bseq b (t :: r) = fst (bstep b t) :: bseq (snd (bstep b t)) r.
Proof. cbn [bseq]. destruct (bstep b t). reflexivity. Qed.

Lemma wcount_cons a w t ts g gs :
  wcount a w (t :: ts) (g :: gs) = (if g && in_win a w t then 1 else 0) + wcount a w ts gs.
Proof. reflexivity. Qed.

(* strong form of "nondecreasing" *)
Fixpoint sorted2 (l : list Z) : Prop :=
  match l with
  | [] => True
  | x :: r => (forall y, In y r -> x <= y) /\ sorted2 r
  end.

Lemma nondecr_sorted2 l : nondecr l -> sorted2 l.
Proof.
  induction l as [|x r IH]; cbn [nondecr sorted2]; auto.
  intros [Hx Hr]. specialize (IH Hr). split; auto.
  destruct r as [|y r']; [intros ? []|].
  cbn [sorted2] in IH. destruct IH as [Hy _].
  intros z [<-|Hz]; auto. specialize (Hy z Hz). lia.
Qed.

Lemma wcount_nonneg a w : forall ts gs, 0 <= wcount a w ts gs.
Proof.
  induction ts as [|t ts IH]; intros [|g gs]; cbn [wcount]; try lia.
  specialize (IH gs). destruct (g && in_win a w t); lia.
Qed.

Lemma wcount_after a w : forall ts b,
  (forall t, In t ts -> a + w <= t) -> wcount a w ts (bseq b ts) = 0.
Proof.
  induction ts as [|t r IH]; intros b H; [reflexivity|].
  rewrite bseq_cons, wcount_cons, IH by (intros; apply H; right; auto).
  assert (a + w <= t) by (apply H; left; auto).
  unfold in_win. destruct (fst (bstep b t)); cbn [andb]; [|lia].
  destruct (a <=? t) eqn:E1, (t <? a + w) eqn:E2; cbn [andb]; lia.
Qed.

(* from the first call inside the window [a, a+w) on *)
Lemma wcount_from a w : forall r t1 b,
  sorted2 (t1 :: r) -> wfb b -> b_last b <= t1 -> a <= t1 -> t1 < a + w ->
  wcount a w (t1 :: r) (bseq b (t1 :: r)) * I_NS <= availc b t1 + (a + w - 1 - t1).
Proof.
  induction r as [|t2 r IH]; intros t1 b Hs Hw Hl Ha Hb.
  - rewrite bseq_cons. cbn [bseq]. rewrite wcount_cons. cbn [wcount].
    pose proof (availc_nonneg b t1 Hw). rewrite bstep_eq.
    destruct (I_NS <=? availc b t1) eqn:E; cbn [fst andb].
    + destruct (in_win a w t1); zl.
    + zl.
  - rewrite bseq_cons, wcount_cons.
    cbn [sorted2] in Hs. destruct Hs as [H1 Hs2].
    assert (Ht12 : t1 <= t2) by (apply H1; left; auto).
    pose proof (availc_nonneg b t1 Hw) as Hnn.
    pose proof (bstep_wf b t1 Hw) as Hw'.
    pose proof (bstep_last b t1) as Hl'.
    destruct (Z.ltb_spec t2 (a + w)) as [Hin|Hout].
    + specialize (IH t2 (snd (bstep b t1)) Hs2 Hw' ltac:(lia) ltac:(lia) Hin).
      revert IH Hw' Hl'. rewrite bstep_eq.
      destruct (I_NS <=? availc b t1) eqn:E; cbn [fst snd andb]; intros IH Hw' Hl'.
      * assert (availc (mkB (availc b t1 - I_NS) t1) t2 <= availc b t1 - I_NS + (t2 - t1))
          by (unfold availc at 1; cbn [b_credit b_last]; lia).
        destruct (in_win a w t1); zl.
      * assert (availc (mkB (b_credit b) (Z.min (b_last b) t1)) t2 <= availc b t1 + (t2 - t1))
          by (unfold availc; cbn [b_credit b_last]; lia).
        zl.
    + rewrite wcount_after.
      2:{ intros t [<-|Ht]; [lia|]. cbn [sorted2] in Hs2. destruct Hs2 as [H2 _]. specialize (H2 t Ht). lia. }
      rewrite bstep_eq. destruct (I_NS <=? availc b t1) eqn:E; cbn [fst andb].
      * destruct (in_win a w t1); zl.
      * zl.
Qed.

Definition head_ok (b : bucket) (ts : list Z) : Prop :=
  match ts with [] => True | t :: _ => b_last b <= t end.

(* any window, any length: at most the burst plus what is refilled during the window *)
Lemma wcount_bound a w : 1 <= w -> forall ts b,
  sorted2 ts -> wfb b -> head_ok b ts ->
  wcount a w ts (bseq b ts) * I_NS <= CAP + (w - 1).
Proof.
  intros Hw1. induction ts as [|t1 r IH]; intros b Hs Hw Hh.
  - cbn [bseq wcount]. pose proof consts_pos. lia.
  - cbn [head_ok] in Hh.
    destruct (Z.ltb_spec t1 a) as [Hbefore|Hge].
    + rewrite bseq_cons, wcount_cons.
      cbn [sorted2] in Hs. destruct Hs as [H1 Hs2].
      assert (Hin : in_win a w t1 = false) by (unfold in_win; destruct (a <=? t1) eqn:E; cbn [andb]; auto; lia).
      rewrite Hin, andb_false_r.
      specialize (IH (snd (bstep b t1)) Hs2 (bstep_wf b t1 Hw)).
      assert (Hh' : head_ok (snd (bstep b t1)) r).
      { destruct r as [|t2 r']; cbn [head_ok]; auto.
        pose proof (bstep_last b t1). assert (t1 <= t2) by (apply H1; left; auto). lia. }
      specialize (IH Hh'). zl.
    + destruct (Z.ltb_spec t1 (a + w)) as [Hin|Hout].
      * pose proof (wcount_from a w r t1 b Hs Hw Hh Hge Hin).
        pose proof (availc_le b t1). zl.
      * rewrite wcount_after.
        -- pose proof consts_pos. lia.
        -- intros t [<-|Ht]; [lia|]. cbn [sorted2] in Hs. destruct Hs as [H1 _]. specialize (H1 t Ht). lia.
Qed.

Lemma bucket_window ts b a :
  nondecr ts -> wfb b -> head_ok b ts -> wcount a I_NS ts (bseq b ts) <= 4.
Proof.
  intros Hs Hw Hh.
  pose proof (wcount_bound a I_NS ltac:(unfold I_NS; lia) ts b (nondecr_sorted2 _ Hs) Hw Hh).
  pose proof consts_pos as [Hi Hc]. unfold I_NS in *. lia.
Qed.

Lemma bucket_rate ts b a w :
  1 <= w -> nondecr ts -> wfb b -> head_ok b ts ->
  wcount a w ts (bseq b ts) * I_NS <= BURST * I_NS + (w - 1).
Proof.
  intros Hw1 Hs Hw Hh. apply (wcount_bound a w Hw1 ts b (nondecr_sorted2 _ Hs) Hw Hh).
Qed.

(* a full bucket grants: the first datagrams of a source are answered *)
Lemma fresh_grants t : fst (bstep (fresh t) t) = true.
Proof.
  rewrite bstep_eq. unfold availc, fresh. cbn [b_credit b_last].
  pose proof consts_pos as [Hi Hc].
  destruct (I_NS <=? _) eqn:E; cbn [fst]; auto. lia.
Qed.

(* refill: a bucket emptied at time t0 grants again exactly from t0 + I_NS on *)
Lemma refill_edge t0 t :
  t0 <= t -> fst (bstep (mkB 0 t0) t) = (t0 + I_NS <=? t).
Proof.
  intros H. rewrite bstep_eq. unfold availc. cbn [b_credit b_last].
  pose proof consts_pos as [Hi Hc].
  destruct (I_NS <=? _) eqn:E, (t0 + I_NS <=? t) eqn:F; cbn [fst]; try reflexivity; lia.
Qed.

(* ------------------------------------------------------------------ *)
(* the limiter map *)

Lemma lookup_store_same l k b : lookup (store l k b) k = Some b.
Proof.
  induction l as [|[k' b'] r IH]; cbn [store lookup].
  - rewrite eqb_bytes_refl. reflexivity.
  - destruct (eqb_bytes k' k) eqn:E; cbn [lookup].
    + rewrite eqb_bytes_refl. reflexivity.
    + rewrite E. exact IH.
Qed.

Lemma lookup_store_other l k b k' : k <> k' -> lookup (store l k b) k' = lookup l k'.
Proof.
  intros Hne. induction l as [|[k0 b0] r IH]; cbn [store lookup].
  - apply eqb_bytes_false in Hne. rewrite Hne. reflexivity.
  - destruct (eqb_bytes k0 k) eqn:E; cbn [lookup].
    + apply eqb_bytes_true in E. subst k0. apply eqb_bytes_false in Hne. rewrite Hne. reflexivity.
    + destruct (eqb_bytes k0 k'); auto.
Qed.

Lemma allow_eq l k t :
  allow l k t = (fst (bstep (bucket_of l k t) t), store l k (snd (bstep (bucket_of l k t) t))).
Proof. unfold allow. destruct (bstep (bucket_of l k t) t). reflexivity. Qed.

Lemma allow_isolated l k1 k2 t : k1 <> k2 -> lookup (snd (allow l k1 t)) k2 = lookup l k2.
Proof. intros H. rewrite allow_eq. cbn [snd]. apply lookup_store_other; auto. Qed.

Lemma allow_fresh l k t : lookup l k = None -> fst (allow l k t) = true.
Proof. intros H. rewrite allow_eq. cbn [fst]. unfold bucket_of. rewrite H. apply fresh_grants. Qed.

(* ------------------------------------------------------------------ *)
(* the Allow calls of one key, as a bucket sequence *)

Definition asks (k : key) (tr : list event) : list (Z * bool) :=
  flat_map (fun e => match e with
                     | EAsk k' t g => if eqb_bytes k' k then [(t, g)] else []
                     | _ => []
                     end) tr.

Definition start (ob : option bucket) (t : Z) : bucket :=
  match ob with Some b => b | None => fresh t end.

Fixpoint kseq (ob : option bucket) (ts : list Z) : list bool * option bucket :=
  match ts with
  | [] => ([], ob)
  | t :: r => let b' := snd (bstep (start ob t) t) in
              (fst (bstep (start ob t) t) :: fst (kseq (Some b') r), snd (kseq (Some b') r))
  end.

Lemma kseq_app ob a b :
  kseq ob (a ++ b) = (fst (kseq ob a) ++ fst (kseq (snd (kseq ob a)) b), snd (kseq (snd (kseq ob a)) b)).
Proof.
  revert ob. induction a as [|t r IH]; intros ob; cbn [app kseq fst snd].
  - destruct (kseq ob b); reflexivity.
  - rewrite IH. cbn [fst snd]. reflexivity.
Qed.

Lemma asks_app k a b : asks k (a ++ b) = asks k a ++ asks k b.
Proof. unfold asks. apply flat_map_app. Qed.

Lemma exec_nil_inv : forall (A : Type) (x y : A * list event), x = y -> snd x = snd y.
Proof. intros; subst; auto. Qed.

(* what exec does to the limiter and which Allow results it records *)
Lemma exec_asks k0 : forall s l ts t cur,
  let r := exec l k0 ts t cur s in
  kseq (lookup l k0) (map fst (asks k0 (snd r))) = (map snd (asks k0 (snd r)), lookup (fst r) k0)
  /\ (forall k, k <> k0 -> lookup (fst r) k = lookup l k /\ asks k (snd r) = []).
Proof.
  induction s as [|st s IH]; intros l ts t cur; cbn zeta.
  - cbn [exec fst snd asks flat_map map kseq]. auto.
  - destruct st as [|c|].
    + (* SAsk *)
      cbn [exec]. rewrite allow_eq.
      set (now := hd t ts). set (b0 := bucket_of l k0 now).
      destruct (fst (bstep b0 now)) eqn:G.
      * specialize (IH (store l k0 (snd (bstep b0 now))) (tl ts) t now). cbn zeta in IH.
        destruct (exec (store l k0 (snd (bstep b0 now))) k0 (tl ts) t now s) as [l2 ev] eqn:E.
        cbn [fst snd] in *. destruct IH as [IH1 IH2]. split.
        -- unfold asks at 1 2. cbn [flat_map]. rewrite eqb_bytes_refl. fold (asks k0 ev).
           cbn [app map fst snd kseq].
           rewrite lookup_store_same in IH1.
           assert (Hst : start (lookup l k0) now = b0) by reflexivity.
           rewrite Hst, G, IH1. reflexivity.
        -- intros k Hk. destruct (IH2 k Hk) as [A B]. split.
           ++ rewrite A. apply lookup_store_other; auto.
           ++ unfold asks. cbn [flat_map].
              assert (Hne : eqb_bytes k0 k = false) by (apply eqb_bytes_false; auto).
              rewrite Hne. exact B.
      * cbn [fst snd]. split.
        -- unfold asks. cbn [flat_map]. rewrite eqb_bytes_refl. cbn [app map fst snd kseq].
           assert (Hst : start (lookup l k0) now = b0) by reflexivity.
           rewrite Hst, G, lookup_store_same. reflexivity.
        -- intros k Hk. split; [apply lookup_store_other; auto|].
           unfold asks. cbn [flat_map].
           assert (Hne : eqb_bytes k0 k = false) by (apply eqb_bytes_false; auto).
           rewrite Hne. reflexivity.
    + (* SReply *)
      cbn [exec]. specialize (IH l ts t cur). cbn zeta in IH.
      destruct (exec l k0 ts t cur s) as [l' ev]. cbn [fst snd] in *.
      unfold asks in *. cbn [flat_map app]. exact IH.
    + (* SPanic *)
      cbn [exec fst snd asks flat_map map kseq app]. auto.
Qed.

Lemma handle_events s st l d :
  handle s st l d =
  (next_state s st d (snd (exec l (d_key d) (d_ts d) (d_t d) (d_t d) (script s st d))),
   fst (exec l (d_key d) (d_ts d) (d_t d) (d_t d) (script s st d)),
   snd (exec l (d_key d) (d_ts d) (d_t d) (d_t d) (script s st d))).
Proof. unfold handle. destruct (exec _ _ _ _ _ _). reflexivity. Qed.

Lemma run_cons s st l d r :
  run s st l (d :: r) =
  snd (handle s st l d) :: run s (fst (fst (handle s st l d))) (snd (fst (handle s st l d))) r.
Proof. cbn [run]. destruct (handle s st l d) as [[st' l'] ev]. reflexivity. Qed.

Lemma run_asks s k : forall h st l,
  fst (kseq (lookup l k) (map fst (asks k (concat (run s st l h))))) = map snd (asks k (concat (run s st l h))).
Proof.
  induction h as [|d r IH]; intros st l.
  - reflexivity.
  - rewrite run_cons. cbn [concat]. rewrite asks_app, !map_app, kseq_app. cbn [fst].
    rewrite handle_events. cbn [fst snd].
    pose proof (exec_asks (d_key d) (script s st d) l (d_ts d) (d_t d) (d_t d)) as H. cbn zeta in H.
    set (x := exec l (d_key d) (d_ts d) (d_t d) (d_t d) (script s st d)) in *.
    destruct H as [H1 H2].
    destruct (eqb_bytes (d_key d) k) eqn:E.
    + apply eqb_bytes_true in E. subst k. rewrite H1. cbn [fst snd]. rewrite IH. reflexivity.
    + apply eqb_bytes_false in E. destruct (H2 k ltac:(congruence)) as [A B].
      rewrite B. cbn [map kseq fst snd app]. rewrite <- A. apply IH.
Qed.

Lemma kseq_some : forall r b, fst (kseq (Some b) r) = bseq b r.
Proof.
  induction r as [|t r IH]; intros b; [reflexivity|].
  cbn [kseq fst start]. rewrite bseq_cons, IH. reflexivity.
Qed.

Lemma kseq_bseq ob ts : fst (kseq ob ts) = bseq (start ob (hd 0 ts)) ts.
Proof.
  destruct ts as [|t r]; [reflexivity|]. cbn [hd kseq fst].
  rewrite bseq_cons, kseq_some. reflexivity.
Qed.

Lemma grants_wcount k a w : forall tr,
  grants_in k a w tr = wcount a w (map fst (asks k tr)) (map snd (asks k tr)).
Proof.
  induction tr as [|e tr IH]; [reflexivity|].
  destruct e as [k' t g|k' t c|k']; unfold asks in *; cbn [grants_in flat_map]; auto.
  destruct (eqb_bytes k' k) eqn:E; cbn [app map fst snd andb].
  - rewrite wcount_cons. destruct g; cbn [andb]; rewrite IH; reflexivity.
  - destruct g; rewrite IH; reflexivity.
Qed.

Lemma asks_times_in k : forall tr y, In y (map fst (asks k tr)) -> In y (ask_times tr).
Proof.
  induction tr as [|e tr IH]; intros y H; [destruct H|].
  destruct e as [k' t g|k' t c|k']; unfold asks in *; cbn [flat_map ask_times] in *; auto.
  destruct (eqb_bytes k' k); cbn [app map fst In] in *.
  - destruct H as [<-|H]; [left; auto|right; auto].
  - right; auto.
Qed.

Lemma asks_sorted k : forall tr, sorted2 (ask_times tr) -> sorted2 (map fst (asks k tr)).
Proof.
  induction tr as [|e tr IH]; intros H; [exact I|].
  destruct e as [k' t g|k' t c|k']; cbn [ask_times] in H.
  - cbn [sorted2] in H. destruct H as [H1 H2].
    unfold asks. cbn [flat_map]. fold (asks k tr).
    destruct (eqb_bytes k' k); cbn [app map fst sorted2]; auto.
    split; auto. intros y Hy. apply H1. eapply asks_times_in; eauto.
  - unfold asks. cbn [flat_map app]. apply IH; auto.
  - unfold asks. cbn [flat_map app]. apply IH; auto.
Qed.

(* Allow results recorded in the trace of a new service instance: any window of length
   w contains at most burst + (w-1)/interval grants for one key *)
Lemma trace_grants_rate s h k a w :
  1 <= w -> nondecr (ask_times (trace s h)) ->
  grants_in k a w (trace s h) * I_NS <= BURST * I_NS + (w - 1).
Proof.
  intros Hw Hs. unfold trace in *.
  rewrite grants_wcount, <- run_asks, kseq_bseq.
  apply wcount_bound; auto.
  - apply asks_sorted. apply nondecr_sorted2. exact Hs.
  - cbn [lookup start]. unfold wfb, fresh. cbn [b_credit]. pose proof consts_pos. lia.
  - cbn [lookup start]. destruct (map fst (asks k (concat (run s [] [] h)))); cbn [head_ok hd fresh b_last]; auto. lia.
Qed.

Lemma trace_grants_window s h k a :
  nondecr (ask_times (trace s h)) -> grants_in k a I_NS (trace s h) <= 4.
Proof.
  intros Hs. pose proof (trace_grants_rate s h k a I_NS ltac:(unfold I_NS; lia) Hs).
  unfold BURST, I_NS in *. lia.
Qed.

(* ------------------------------------------------------------------ *)
(* responses are covered by grants *)

Lemma replies_app k a w x y : replies_in k a w (x ++ y) = replies_in k a w x + replies_in k a w y.
Proof.
  induction x as [|e x IH]; [reflexivity|]. destruct e; cbn [app replies_in]; rewrite IH; lia.
Qed.

Lemma grants_app k a w x y : grants_in k a w (x ++ y) = grants_in k a w x + grants_in k a w y.
Proof.
  induction x as [|e x IH]; [reflexivity|].
  destruct e as [k' t g|k' t c|k']; cbn [app grants_in]; try (rewrite IH; lia).
  destruct g; rewrite IH; lia.
Qed.

Lemma grants_nonneg k a w : forall tr, 0 <= grants_in k a w tr.
Proof.
  induction tr as [|e tr IH]; cbn [grants_in]; [lia|].
  destruct e as [k' t g|k' t c|k']; auto. destruct g; auto.
  destruct (eqb_bytes k' k && in_win a w t); lia.
Qed.

Lemma exec_covered k0 k a w : forall n s, (length s <= n)%nat -> guarded s = true ->
  forall l ts t cur,
  replies_in k a w (snd (exec l k0 ts t cur s)) <= grants_in k a w (snd (exec l k0 ts t cur s)).
Proof.
  induction n as [|n IH]; intros s Hn Hg l ts t cur.
  - destruct s; [cbn; lia|cbn [length] in Hn; lia].
  - destruct s as [|st s]; [cbn; lia|].
    destruct st as [|c|]; [|cbn [guarded] in Hg; discriminate|cbn [exec snd replies_in grants_in]; lia].
    cbn [exec]. set (now := hd t ts).
    destruct (allow l k0 now) as [g l1]. destruct g.
    2:{ cbn [snd replies_in grants_in]. lia. }
    destruct s as [|st2 s'].
    + cbn [exec snd replies_in grants_in].
      destruct (eqb_bytes k0 k && in_win a w now); lia.
    + destruct st2 as [|c|].
      * (* another Allow follows *)
        cbn [guarded] in Hg.
        assert (Hg' : guarded (SAsk :: s') = true) by exact Hg.
        specialize (IH (SAsk :: s') ltac:(cbn [length] in *; lia) Hg' l1 (tl ts) t now).
        destruct (exec l1 k0 (tl ts) t now (SAsk :: s')) as [l2 ev]. cbn [snd] in *.
        cbn [replies_in grants_in].
        destruct (eqb_bytes k0 k && in_win a w now); lia.
      * (* the response guarded by this Allow *)
        cbn [guarded] in Hg. cbn [exec].
        specialize (IH s' ltac:(cbn [length] in *; lia) Hg l1 (tl ts) t now).
        destruct (exec l1 k0 (tl ts) t now s') as [l2 ev]. cbn [snd] in *.
        cbn [replies_in grants_in].
        destruct (eqb_bytes k0 k && in_win a w now); lia.
      * cbn [exec snd replies_in grants_in].
        destruct (eqb_bytes k0 k && in_win a w now); lia.
Qed.

(* ------------------------------------------------------------------ *)
(* every service's script is guarded *)

Lemma mc_loop_guarded : forall f rem, guarded (mc_loop f rem) = true.
Proof.
  induction f as [|f IH]; intros rem; [reflexivity|].
  cbn [mc_loop]. unfold mc_step. destruct (split_at_nl rem) as [[line rest]|]; [|reflexivity].
  cbv zeta.
  destruct (eqb_bytes _ _); [cbn [guarded]; apply IH|].
  destruct (eqb_bytes _ _); [cbn [guarded]; apply IH|].
  destruct (is_store _); [|cbn [guarded]; apply IH].
  destruct (_ <? 5)%nat; [reflexivity|].
  destruct (atoi _) as [v|]; [|reflexivity].
  destruct (v <? 0); [reflexivity|].
  destruct (_ && _); [reflexivity|].
  cbn [guarded]. apply IH.
Qed.

Lemma script_guarded s st d : guarded (script s st d) = true.
Proof.
  destruct s; cbn [script].
  - unfold tftp_script.
    destruct (nth 1 (d_payload d) 0 =? 1)%N; [destruct (2 <=? _)%nat; reflexivity|].
    destruct (nth 1 (d_payload d) 0 =? 2)%N; [destruct (2 <=? _)%nat; reflexivity|].
    destruct (nth 1 (d_payload d) 0 =? 3)%N; [|reflexivity].
    destruct (_ <=? 2)%nat; [reflexivity|]. destruct (has_buf _ _); reflexivity.
  - apply mc_loop_guarded.
  - unfold snmp_script. destruct (_ =? 1)%N; [reflexivity|]. destruct (_ =? 2)%N; [reflexivity|].
    destruct (_ =? 3)%N; [reflexivity|]. destruct (_ =? 4)%N; reflexivity.
  - unfold cs_script. destruct (_ || _); [|reflexivity]. destruct (_ <=? 4)%nat; reflexivity.
Qed.

Lemma run_covered s k a w : forall h st l,
  replies_in k a w (concat (run s st l h)) <= grants_in k a w (concat (run s st l h)).
Proof.
  induction h as [|d r IH]; intros st l; [cbn; lia|].
  rewrite run_cons. cbn [concat]. rewrite replies_app, grants_app, handle_events. cbn [fst snd].
  pose proof (exec_covered (d_key d) k a w _ (script s st d) (le_n _) (script_guarded s st d)
                l (d_ts d) (d_t d) (d_t d)).
  specialize (IH (next_state s st d (snd (exec l (d_key d) (d_ts d) (d_t d) (d_t d) (script s st d))))
                 (fst (exec l (d_key d) (d_ts d) (d_t d) (d_t d) (script s st d)))).
  lia.
Qed.

Lemma amplification_rate s h k a w :
  1 <= w -> nondecr (ask_times (trace s h)) ->
  replies_in k a w (trace s h) * I_NS <= BURST * I_NS + (w - 1).
Proof.
  intros Hw Hs. pose proof (trace_grants_rate s h k a w Hw Hs).
  pose proof (run_covered s k a w h [] []). unfold trace in *. zl.
Qed.

Lemma amplification_bound s h k a :
  nondecr (ask_times (trace s h)) -> replies_in k a I_NS (trace s h) <= 4.
Proof.
  intros Hs. pose proof (trace_grants_window s h k a Hs).
  pose proof (run_covered s k a I_NS h [] []). unfold trace in *. lia.
Qed.

(* ------------------------------------------------------------------ *)
(* sources do not influence each other *)

Definition keyb (k : key) (d : dgram) : bool := eqb_bytes (d_key d) k.
Definition stk (k : key) (st : tstate) : tstate := filter (fun a => eqb_bytes (fst a) k) st.

Lemma exec_keys k0 : forall s l ts t cur, Forall (fun e => ev_key e = k0) (snd (exec l k0 ts t cur s)).
Proof.
  induction s as [|st s IH]; intros l ts t cur; [constructor|].
  destruct st as [|c|]; cbn [exec].
  - destruct (allow l k0 (hd t ts)) as [g l1]. destruct g.
    + specialize (IH l1 (tl ts) t (hd t ts)). destruct (exec l1 k0 (tl ts) t (hd t ts) s). cbn [snd] in *.
      constructor; auto.
    + cbn [snd]. repeat constructor.
  - specialize (IH l ts t cur). destruct (exec l k0 ts t cur s). cbn [snd] in *. constructor; auto.
  - cbn [snd]. repeat constructor.
Qed.

Lemma proj_all k ev : Forall (fun e => ev_key e = k) ev -> proj k ev = ev.
Proof.
  induction 1 as [|e ev He _ IH]; [reflexivity|].
  unfold proj in *. cbn [filter]. rewrite He, eqb_bytes_refl, IH. reflexivity.
Qed.

Lemma proj_none k0 k ev : k0 <> k -> Forall (fun e => ev_key e = k0) ev -> proj k ev = [].
Proof.
  intros Hne. induction 1 as [|e ev He _ IH]; [reflexivity|].
  unfold proj in *. cbn [filter]. rewrite He.
  assert (E : eqb_bytes k0 k = false) by (apply eqb_bytes_false; auto).
  rewrite E. exact IH.
Qed.

Lemma proj_app k x y : proj k (x ++ y) = proj k x ++ proj k y.
Proof. apply filter_app. Qed.

Lemma exec_agree k0 : forall s l1 l2 ts t cur,
  lookup l1 k0 = lookup l2 k0 ->
  snd (exec l1 k0 ts t cur s) = snd (exec l2 k0 ts t cur s) /\
  lookup (fst (exec l1 k0 ts t cur s)) k0 = lookup (fst (exec l2 k0 ts t cur s)) k0.
Proof.
  induction s as [|st s IH]; intros l1 l2 ts t cur H; [cbn [exec fst snd]; auto|].
  destruct st as [|c|]; cbn [exec].
  - rewrite !allow_eq.
    assert (Hb : bucket_of l1 k0 (hd t ts) = bucket_of l2 k0 (hd t ts)) by (unfold bucket_of; rewrite H; reflexivity).
    rewrite Hb. set (b0 := bucket_of l2 k0 (hd t ts)).
    destruct (fst (bstep b0 (hd t ts))).
    + specialize (IH (store l1 k0 (snd (bstep b0 (hd t ts)))) (store l2 k0 (snd (bstep b0 (hd t ts))))
                     (tl ts) t (hd t ts)).
      rewrite !lookup_store_same in IH. specialize (IH eq_refl).
      destruct (exec (store l1 k0 _) k0 (tl ts) t (hd t ts) s) as [la eva].
      destruct (exec (store l2 k0 _) k0 (tl ts) t (hd t ts) s) as [lb evb].
      cbn [fst snd] in *. destruct IH as [-> ->]. auto.
    + cbn [fst snd]. rewrite !lookup_store_same. auto.
  - specialize (IH l1 l2 ts t cur H).
    destruct (exec l1 k0 ts t cur s) as [la eva]. destruct (exec l2 k0 ts t cur s) as [lb evb].
    cbn [fst snd] in *. destruct IH as [-> ->]. auto.
  - cbn [fst snd]. auto.
Qed.

Lemma has_buf_stk k st a : fst a = k -> has_buf (stk k st) a = has_buf st a.
Proof.
  intros Ha. unfold has_buf, stk. induction st as [|x st IH]; [reflexivity|].
  cbn [filter existsb]. destruct (eqb_bytes _ k) eqn:E; cbn [existsb]; rewrite IH; auto.
  unfold addr_eqb at 2. rewrite Ha.
  assert (E' : eqb_bytes k (fst x) = false).
  { apply eqb_bytes_false. apply eqb_bytes_false in E. intros Hx. apply E. symmetry. exact Hx. }
  rewrite E'. reflexivity.
Qed.

Lemma filter_comm {A} (f g : A -> bool) l : filter f (filter g l) = filter g (filter f l).
Proof.
  induction l as [|x l IH]; [reflexivity|]. cbn [filter].
  destruct (g x) eqn:G, (f x) eqn:F; cbn [filter]; rewrite ?G, ?F, IH; reflexivity.
Qed.

Lemma stk_del k st a : stk k (del_buf st a) = del_buf (stk k st) a.
Proof. unfold stk, del_buf. apply filter_comm. Qed.

Lemma stk_del_other k st a : fst a <> k -> stk k (del_buf st a) = stk k st.
Proof.
  intros Ha. unfold stk, del_buf. induction st as [|x st IH]; [reflexivity|]. cbn [filter].
  destruct (eqb_bytes _ k) eqn:E.
  - assert (Hx : addr_eqb a x = false).
    { unfold addr_eqb. apply eqb_bytes_true in E.
      assert (E' : eqb_bytes (fst a) (fst x) = false).
      { apply eqb_bytes_false. intros Hx. apply Ha. rewrite Hx. exact E. }
      rewrite E'. reflexivity. }
    rewrite Hx. cbn [negb filter]. rewrite E, IH. reflexivity.
  - destruct (negb (addr_eqb a x)); cbn [filter]; rewrite ?E; exact IH.
Qed.

Lemma stk_cons_same k a st : fst a = k -> stk k (a :: st) = a :: stk k st.
Proof.
  intros H. unfold stk. cbn [filter]. destruct (eqb_bytes _ k) eqn:E; auto.
  apply eqb_bytes_false in E. exfalso. apply E. exact H.
Qed.

Lemma stk_cons_other k a st : fst a <> k -> stk k (a :: st) = stk k st.
Proof.
  intros H. unfold stk. cbn [filter]. destruct (eqb_bytes _ k) eqn:E; auto.
  apply eqb_bytes_true in E. exfalso. apply H. exact E.
Qed.

Lemma script_agree s k st1 st2 d :
  d_key d = k -> stk k st1 = stk k st2 -> script s st1 d = script s st2 d.
Proof.
  intros Hk H. destruct s; cbn [script]; auto.
  unfold tftp_script.
  rewrite <- (has_buf_stk k st1), <- (has_buf_stk k st2), H by exact Hk. reflexivity.
Qed.

Lemma next_agree s k st1 st2 d ev :
  d_key d = k -> stk k st1 = stk k st2 -> stk k (next_state s st1 d ev) = stk k (next_state s st2 d ev).
Proof.
  intros Hk H. destruct s; cbn [next_state]; auto.
  unfold tftp_next. destruct (negb (first_granted ev)); auto.
  destruct (_ =? 2)%N.
  - destruct (2 <=? _)%nat; auto.
    rewrite !stk_cons_same by exact Hk. rewrite !stk_del, H. reflexivity.
  - destruct (_ =? 3)%N; auto. destruct (_ <=? 2)%nat; auto.
    rewrite <- (has_buf_stk k st1), <- (has_buf_stk k st2), H by exact Hk.
    destruct (has_buf (stk k st2) _); auto.
    destruct (_ =? 512); auto. rewrite !stk_del, H. reflexivity.
Qed.

Lemma next_other s k st d ev : d_key d <> k -> stk k (next_state s st d ev) = stk k st.
Proof.
  intros Hk. destruct s; cbn [next_state]; auto.
  unfold tftp_next. destruct (negb (first_granted ev)); auto.
  destruct (_ =? 2)%N.
  - destruct (2 <=? _)%nat; auto.
    rewrite stk_cons_other by exact Hk. apply stk_del_other. exact Hk.
  - destruct (_ =? 3)%N; auto. destruct (_ <=? 2)%nat; auto. destruct (has_buf st _); auto.
    destruct (_ =? 512); auto. apply stk_del_other. exact Hk.
Qed.

Lemma run_proj s k : forall h st1 st2 l1 l2,
  lookup l1 k = lookup l2 k -> stk k st1 = stk k st2 ->
  proj k (concat (run s st1 l1 h)) = concat (run s st2 l2 (filter (keyb k) h)).
Proof.
  induction h as [|d r IH]; intros st1 st2 l1 l2 Hl Hst; [reflexivity|].
  rewrite run_cons. cbn [concat filter]. rewrite proj_app, handle_events. cbn [fst snd].
  unfold keyb at 1. destruct (eqb_bytes (d_key d) k) eqn:E.
  - apply eqb_bytes_true in E.
    rewrite run_cons. cbn [concat]. rewrite handle_events. cbn [fst snd].
    rewrite <- (script_agree s k st1 st2 d E Hst).
    subst k.
    destruct (exec_agree (d_key d) (script s st1 d) l1 l2 (d_ts d) (d_t d) (d_t d) Hl) as [Hev Hlk].
    rewrite proj_all by apply exec_keys.
    rewrite Hev. f_equal. apply IH; auto.
    rewrite <- Hev. apply next_agree; auto.
  - apply eqb_bytes_false in E.
    rewrite (proj_none (d_key d) k) by (auto; apply exec_keys). cbn [app].
    apply IH.
    + pose proof (exec_asks (d_key d) (script s st1 d) l1 (d_ts d) (d_t d) (d_t d)) as [_ H2]. cbn zeta in H2.
      destruct (H2 k ltac:(congruence)) as [A _]. rewrite A. exact Hl.
    + rewrite next_other by exact E. exact Hst.
Qed.

Lemma others_unaffected s h k :
  proj k (trace s h) = trace s (filter (fun d => eqb_bytes (d_key d) k) h).
Proof. unfold trace. apply (run_proj s k h [] [] [] []); reflexivity. Qed.

(* the source port plays no part in the limiter's decision: by construction [allow]
   has no port argument; for the record, the Allow results and the number and times of
   responses do not depend on the ports used *)
Definition erase (e : event) : event :=
  match e with EReply k t _ => EReply k t 0%N | _ => e end.

(* ------------------------------------------------------------------ *)
(* statements as used in Properties.v *)

Lemma bucket_window_stmt : forall ts b a,
  nondecr ts -> 0 <= b_credit b <= CAP -> (forall t r, ts = t :: r -> b_last b <= t) ->
  wcount a I_NS ts (bseq b ts) <= 4.
Proof.
  intros ts b a Hs Hw Hh. apply bucket_window; auto.
  destruct ts as [|t r]; cbn [head_ok]; auto. eapply Hh; reflexivity.
Qed.

Lemma bucket_rate_stmt : forall ts b a w,
  1 <= w -> nondecr ts -> 0 <= b_credit b <= CAP -> (forall t r, ts = t :: r -> b_last b <= t) ->
  wcount a w ts (bseq b ts) * I_NS <= BURST * I_NS + (w - 1).
Proof.
  intros ts b a w Hw1 Hs Hw Hh. apply bucket_rate; auto.
  destruct ts as [|t r]; cbn [head_ok]; auto. eapply Hh; reflexivity.
Qed.

Lemma replies_covered : forall s h k a w,
  replies_in k a w (trace s h) <= grants_in k a w (trace s h).
Proof. intros. unfold trace. apply run_covered. Qed.

(* a tftp read request "f" / "o" from address 1.1 *)
Definition ex_rrq (port t : Z) : dgram := mkD [49; 46; 49]%N port t [] 0%N [0; 1; 102; 0; 111; 0]%N.

(* ------------------------------------------------------------------ *)
(* the fuel of the memcached command loop suffices: more fuel never changes the result *)

Lemma mc_loop_S f rem : mc_loop (S f) rem = mc_step (mc_loop f) rem.
Proof. reflexivity. Qed.

Lemma split_at_nl_shorter : forall rem line rest,
  split_at_nl rem = Some (line, rest) -> (length rest < length rem)%nat.
Proof.
  induction rem as [|c r IH]; intros line rest H; [discriminate|].
  cbn [split_at_nl] in H. destruct (c =? 10)%N.
  - injection H as <- <-. cbn [length]. lia.
  - destruct (split_at_nl r) as [[a b]|] eqn:E; [|discriminate].
    injection H as <- <-. specialize (IH a b eq_refl). cbn [length]. lia.
Qed.

Lemma mc_step_ext rec1 rec2 rem :
  (forall r, (length r < length rem)%nat -> rec1 r = rec2 r) -> mc_step rec1 rem = mc_step rec2 rem.
Proof.
  intros H. unfold mc_step.
  destruct (split_at_nl rem) as [[line rest]|] eqn:E; [|reflexivity].
  apply split_at_nl_shorter in E. cbv zeta.
  destruct (eqb_bytes _ _); [rewrite H by exact E; reflexivity|].
  destruct (eqb_bytes _ _); [rewrite H by exact E; reflexivity|].
  destruct (is_store _); [|rewrite H by exact E; reflexivity].
  destruct (_ <? 5)%nat; [reflexivity|].
  destruct (atoi _) as [v|]; [|reflexivity].
  destruct (v <? 0); [reflexivity|].
  destruct (_ && _); [reflexivity|].
  rewrite H; [reflexivity|].
  rewrite !skipn_length; lia.
Qed.

Lemma mc_loop_fuel : forall f rem, (length rem < f)%nat -> mc_loop f rem = mc_loop (S f) rem.
Proof.
  induction f as [|f IH]; intros rem H; [lia|].
  rewrite (mc_loop_S f), (mc_loop_S (S f)). apply mc_step_ext.
  intros r Hr. apply IH. lia.
Qed.

Lemma mc_script_fuel d : forall n, (length (d_payload d) < n)%nat ->
  mc_loop n (skipn 8 (d_payload d)) = mc_script d.
Proof.
  intros n Hn. unfold mc_script.
  assert (Hl : (length (skipn 8 (d_payload d)) <= length (d_payload d))%nat) by (rewrite skipn_length; lia).
  induction n as [|n IH]; [lia|].
  destruct (Nat.eq_dec n (length (d_payload d))) as [->|Hne]; [reflexivity|].
  rewrite <- mc_loop_fuel by lia. apply IH. lia.
Qed.

(* ------------------------------------------------------------------ *)
(* source ports are irrelevant: Allow results, number and times of responses *)

Definition erase_step (x : step) : step := match x with SReply _ => SReply 0%N | _ => x end.

Definition with_port (f : dgram -> Z) (d : dgram) : dgram :=
  mkD (d_key d) (f d) (d_t d) (d_ts d) (d_oracle d) (d_payload d).

Lemma script_shape s st1 st2 d f :
  map erase_step (script s st1 d) = map erase_step (script s st2 (with_port f d)).
Proof.
  destruct s; cbn [script]; try reflexivity.
  unfold tftp_script, with_port. cbn [d_payload d_key d_port].
  destruct (nth 1 (d_payload d) 0 =? 1)%N; [reflexivity|].
  destruct (nth 1 (d_payload d) 0 =? 2)%N; [reflexivity|].
  destruct (nth 1 (d_payload d) 0 =? 3)%N; [|reflexivity].
  destruct (_ <=? 2)%nat; [reflexivity|].
  destruct (has_buf st1 _), (has_buf st2 _); reflexivity.
Qed.

Lemma exec_shape k : forall s1 s2, map erase_step s1 = map erase_step s2 ->
  forall l ts t cur,
  fst (exec l k ts t cur s1) = fst (exec l k ts t cur s2) /\
  map erase (snd (exec l k ts t cur s1)) = map erase (snd (exec l k ts t cur s2)).
Proof.
  induction s1 as [|x s1 IH]; intros [|y s2] H l ts t cur; try discriminate; [cbn; auto|].
  cbn [map] in H. injection H as Hxy Hr.
  destruct x as [|c|], y as [|c'|]; try discriminate; cbn [exec].
  - destruct (allow l k (hd t ts)) as [g l1]. destruct g; [|cbn; auto].
    specialize (IH s2 Hr l1 (tl ts) t (hd t ts)).
    destruct (exec l1 k (tl ts) t (hd t ts) s1), (exec l1 k (tl ts) t (hd t ts) s2).
    cbn [fst snd map erase] in *. destruct IH as [-> ->]. auto.
  - specialize (IH s2 Hr l ts t cur).
    destruct (exec l k ts t cur s1), (exec l k ts t cur s2).
    cbn [fst snd map erase] in *. destruct IH as [-> ->]. auto.
  - cbn; auto.
Qed.

Lemma run_ports s f : forall h st1 st2 l,
  map erase (concat (run s st1 l h)) = map erase (concat (run s st2 l (map (with_port f) h))).
Proof.
  induction h as [|d r IH]; intros st1 st2 l; [reflexivity|].
  cbn [map]. rewrite !run_cons. cbn [concat]. rewrite !map_app, !handle_events. cbn [fst snd].
  destruct (exec_shape (d_key d) _ _ (script_shape s st1 st2 d f) l (d_ts d) (d_t d) (d_t d)) as [Hl Hev].
  change (d_key (with_port f d)) with (d_key d). change (d_ts (with_port f d)) with (d_ts d).
  change (d_t (with_port f d)) with (d_t d).
  rewrite Hev, Hl. f_equal. apply IH.
Qed.

Lemma ports_irrelevant s h f :
  map erase (trace s h) = map erase (trace s (map (with_port f) h)).
Proof. unfold trace. apply run_ports. Qed.

(* ------------------------------------------------------------------ *)
(* concurrent Allow calls: every schedule of the atomic steps *)

Lemma upd_length : forall h i b, length (upd h i b) = length h.
Proof. induction h as [|x r IH]; intros [|i] b; cbn [upd length]; auto. Qed.

Lemma nth_upd_same : forall h i b d, (i < length h)%nat -> nth i (upd h i b) d = b.
Proof.
  induction h as [|x r IH]; intros [|i] b d H; cbn [length] in H; try lia; cbn [upd nth]; auto.
  apply IH. lia.
Qed.

Lemma nth_upd_other : forall h i j b d, i <> j -> nth j (upd h i b) d = nth j h d.
Proof.
  induction h as [|x r IH]; intros [|i] [|j] b d H; cbn [upd nth]; auto; try congruence.
Qed.

Definition cinv (keys : nat -> key) (cs : cstate) (tmin : Z) : Prop :=
  (forall k i, mfind (cs_map cs) k = Some i -> (i < length (cs_heap cs))%nat) /\
  (forall k1 k2 i, mfind (cs_map cs) k1 = Some i -> mfind (cs_map cs) k2 = Some i -> k1 = k2) /\
  (forall th i, hfind (cs_held cs) th = Some i -> mfind (cs_map cs) (keys th) = Some i) /\
  (forall i d, (i < length (cs_heap cs))%nat -> wfb (nth i (cs_heap cs) d) /\ b_last (nth i (cs_heap cs) d) <= tmin).

Fixpoint acts_ok (tmin : Z) (acts : list action) : Prop :=
  match acts with
  | [] => True
  | a :: r => tmin <= atime a /\ acts_ok (atime a) r
  end.

Definition ktakes (k : key) (evs : list (key * Z * bool)) : list (Z * bool) :=
  flat_map (fun e => if eqb_bytes (fst (fst e)) k then [(snd (fst e), snd e)] else []) evs.

Lemma ktakes_app k x y : ktakes k (x ++ y) = ktakes k x ++ ktakes k y.
Proof. unfold ktakes. apply flat_map_app. Qed.

Lemma wfb_fresh t : wfb (fresh t).
Proof. unfold wfb, fresh. cbn [b_credit]. pose proof consts_pos. lia. Qed.

Lemma mfind_cons_other m k k' i : k' <> k -> mfind ((k', i) :: m) k = mfind m k.
Proof. intros H. cbn [mfind]. apply eqb_bytes_false in H. rewrite H. reflexivity. Qed.

Lemma mfind_cons_same m k i : mfind ((k, i) :: m) k = Some i.
Proof. cbn [mfind]. rewrite eqb_bytes_refl. reflexivity. Qed.

(* one step keeps the invariant, with the clock advanced to the step's time *)
Lemma cstep_inv keys cs tmin a :
  cinv keys cs tmin -> tmin <= atime a -> cinv keys (fst (cstep keys cs a)) (atime a).
Proof.
  intros (I1 & I2 & I3 & I4) Ht. unfold cinv.
  destruct a as [th now|th now]; cbn [atime] in *; cbn [cstep].
  - destruct (mfind (cs_map cs) (keys th)) as [i|] eqn:E; cbn [fst cs_map cs_heap cs_held].
    + refine (conj I1 (conj I2 (conj _ _))).
      * intros th' j. cbn [hfind]. destruct (Nat.eqb th th') eqn:Eth; [|apply I3].
        apply Nat.eqb_eq in Eth. subst th'. intros H. injection H as <-. exact E.
      * intros j d H. destruct (I4 j d H) as [Hw Hl]. split; [exact Hw|lia].
    + refine (conj _ (conj _ (conj _ _))).
      * intros k i. destruct (eqb_bytes (keys th) k) eqn:Ek.
        -- apply eqb_bytes_true in Ek. subst k. rewrite mfind_cons_same. intros H. injection H as <-.
           rewrite app_length. cbn [length]. lia.
        -- apply eqb_bytes_false in Ek. rewrite mfind_cons_other by exact Ek. intros H.
           specialize (I1 k i H). rewrite app_length. cbn [length]. lia.
      * intros k1 k2 i. destruct (eqb_bytes (keys th) k1) eqn:E1, (eqb_bytes (keys th) k2) eqn:E2.
        -- apply eqb_bytes_true in E1, E2. congruence.
        -- apply eqb_bytes_true in E1. apply eqb_bytes_false in E2. subst k1.
           rewrite mfind_cons_same, mfind_cons_other by exact E2. intros H1 H2. injection H1 as <-.
           specialize (I1 k2 _ H2). lia.
        -- apply eqb_bytes_false in E1. apply eqb_bytes_true in E2. subst k2.
           rewrite mfind_cons_same, mfind_cons_other by exact E1. intros H1 H2. injection H2 as <-.
           specialize (I1 k1 _ H1). lia.
        -- apply eqb_bytes_false in E1, E2. rewrite !mfind_cons_other by assumption. apply I2.
      * intros th' j. cbn [hfind]. destruct (Nat.eqb th th') eqn:Eth.
        -- apply Nat.eqb_eq in Eth. subst th'. intros H. injection H as <-. apply mfind_cons_same.
        -- intros H. specialize (I3 th' j H).
           destruct (eqb_bytes (keys th) (keys th')) eqn:Ek.
           ++ apply eqb_bytes_true in Ek. rewrite Ek in E. congruence.
           ++ apply eqb_bytes_false in Ek. rewrite mfind_cons_other by exact Ek. exact I3.
      * intros j d H. rewrite app_length in H. cbn [length] in H.
        destruct (Nat.eq_dec j (length (cs_heap cs))) as [->|Hne].
        -- rewrite app_nth2, Nat.sub_diag by lia. cbn [nth]. split; [apply wfb_fresh|cbn [fresh b_last]; lia].
        -- rewrite app_nth1 by lia. destruct (I4 j d ltac:(lia)) as [Hw Hl]. split; [exact Hw|lia].
  - destruct (hfind (cs_held cs) th) as [i|] eqn:E; cbn [fst cs_map cs_heap cs_held].
    + pose proof (I1 _ _ (I3 _ _ E)) as Hi.
      refine (conj _ (conj I2 (conj I3 _))).
      * intros k j H. rewrite upd_length. eapply I1; eauto.
      * intros j d H. rewrite upd_length in H. destruct (Nat.eq_dec i j) as [<-|Hne].
        -- rewrite nth_upd_same by lia. split; [apply bstep_wf; apply I4; lia|apply bstep_last].
        -- rewrite nth_upd_other by exact Hne. destruct (I4 j d H) as [Hw Hl]. split; [exact Hw|lia].
    + refine (conj I1 (conj I2 (conj I3 _))).
      intros j d H. destruct (I4 j d H) as [Hw Hl]. split; [exact Hw|lia].
Qed.

Lemma ktakes_single k k' t g : ktakes k [(k', t, g)] = if eqb_bytes k' k then [(t, g)] else [].
Proof. unfold ktakes. cbn [flat_map fst snd]. apply app_nil_r. Qed.

Lemma cstep_take_eq keys cs th now i :
  hfind (cs_held cs) th = Some i ->
  cstep keys cs (ATake th now) =
  (mkCS (cs_map cs) (upd (cs_heap cs) i (snd (bstep (nth i (cs_heap cs) (fresh now)) now))) (cs_held cs),
   [(keys th, now, fst (bstep (nth i (cs_heap cs) (fresh now)) now))]).
Proof. intros H. cbn [cstep]. rewrite H. reflexivity. Qed.

(* the Allow results of one key, under any schedule, are those of ONE bucket fed with the
   clock readings in schedule order *)
Lemma cproj keys k : forall acts cs tmin,
  cinv keys cs tmin -> acts_ok tmin acts ->
  exists b, wfb b /\
    (forall i, mfind (cs_map cs) k = Some i -> b = nth i (cs_heap cs) (fresh 0)) /\
    map snd (ktakes k (crun keys cs acts)) = bseq b (map fst (ktakes k (crun keys cs acts))) /\
    head_ok b (map fst (ktakes k (crun keys cs acts))) /\
    sorted2 (map fst (ktakes k (crun keys cs acts))) /\
    (forall t, In t (map fst (ktakes k (crun keys cs acts))) -> tmin <= t).
Proof.
  induction acts as [|a r IH]; intros cs tmin Hinv Hok.
  - cbn [crun ktakes flat_map map bseq head_ok sorted2].
    destruct Hinv as (I1 & I2 & I3 & I4).
    destruct (mfind (cs_map cs) k) as [i|] eqn:E.
    + exists (nth i (cs_heap cs) (fresh 0)). split; [apply I4; eapply I1; eauto|].
      split; [intros j Hj; injection Hj as <-; reflexivity|]. repeat split; auto. intros t [].
    + exists (fresh tmin). split; [apply wfb_fresh|]. split; [intros j Hj; discriminate|].
      repeat split; auto. intros t [].
  - cbn [acts_ok] in Hok. destruct Hok as [Ht Hr].
    pose proof (cstep_inv keys cs tmin a Hinv Ht) as Hinv'.
    cbn [crun]. cbv zeta. rewrite ktakes_app.
    destruct (IH (fst (cstep keys cs a)) (atime a) Hinv' Hr) as (b' & Hw' & Hlink' & Hseq' & Hh' & Hs' & Hm').
    set (tk' := ktakes k (crun keys (fst (cstep keys cs a)) r)) in *.
    destruct Hinv as (I1 & I2 & I3 & I4).
    destruct a as [th now|th now]; cbn [atime] in *.
    + (* LoadOrStore: no Allow result; the key's bucket, if any, is untouched *)
      assert (Hnil : snd (cstep keys cs (ALoad th now)) = []) by (cbn [cstep]; destruct (mfind (cs_map cs) (keys th)); reflexivity).
      rewrite Hnil. cbn [ktakes flat_map app].
      exists b'. split; [exact Hw'|]. split.
      * intros i Hi. revert Hlink'. cbn [cstep].
        destruct (mfind (cs_map cs) (keys th)) as [j|] eqn:E; cbn [fst cs_map cs_heap]; intros Hlink'.
        -- apply Hlink'. exact Hi.
        -- assert (Hne : keys th <> k) by (intros Hx; rewrite Hx in E; congruence).
           rewrite (Hlink' i) by (rewrite mfind_cons_other by exact Hne; exact Hi).
           apply app_nth1. eapply I1; eauto.
      * split; [exact Hseq'|]. split; [exact Hh'|]. split; [exact Hs'|]. intros t Hin. specialize (Hm' t Hin). lia.
    + destruct (hfind (cs_held cs) th) as [i|] eqn:E.
      2:{ (* no bucket held: nothing happens *)
          assert (Hc : cstep keys cs (ATake th now) = (cs, [])) by (cbn [cstep]; rewrite E; reflexivity).
          rewrite Hc in *. cbn [fst snd ktakes flat_map app] in *.
          exists b'. split; [exact Hw'|]. split; [exact Hlink'|]. split; [exact Hseq'|]. split; [exact Hh'|]. split; [exact Hs'|]. intros t Hin. specialize (Hm' t Hin). lia. }
      pose proof (I3 _ _ E) as Hmap. pose proof (I1 _ _ Hmap) as Hi.
      rewrite (cstep_take_eq keys cs th now i E) in *. cbn [fst snd cs_map cs_heap] in *.
      assert (Hd : nth i (cs_heap cs) (fresh now) = nth i (cs_heap cs) (fresh 0)) by (apply nth_indep; exact Hi).
      rewrite Hd in *.
      set (b0 := nth i (cs_heap cs) (fresh 0)) in *.
      rewrite ktakes_single.
      destruct (eqb_bytes (keys th) k) eqn:Ek.
      * apply eqb_bytes_true in Ek. cbn [app map fst snd].
        exists b0. split; [apply I4; exact Hi|]. split.
        -- intros j Hj. rewrite Ek in Hmap. rewrite Hmap in Hj. injection Hj as <-. reflexivity.
        -- rewrite Ek in Hmap. specialize (Hlink' i Hmap). rewrite nth_upd_same in Hlink' by exact Hi.
           subst b'. rewrite bseq_cons, Hseq'. split; [reflexivity|].
           destruct (I4 i (fresh 0) Hi) as [_ Hl]. fold b0 in Hl.
           split; [cbn [head_ok]; lia|]. split.
           ++ cbn [sorted2]. split; [exact Hm'|exact Hs'].
           ++ intros t [<-|Hin]; [lia|]. specialize (Hm' t Hin). lia.
      * apply eqb_bytes_false in Ek. cbn [app].
        exists b'. split; [exact Hw'|]. split.
        -- intros j Hj. rewrite (Hlink' j Hj). apply nth_upd_other.
           intros ->. apply Ek. eapply I2; eauto.
        -- split; [exact Hseq'|]. split; [exact Hh'|]. split; [exact Hs'|]. intros t Hin. specialize (Hm' t Hin). lia.
Qed.

Lemma cgrants_wcount k a w : forall evs,
  cgrants k a w evs = wcount a w (map fst (ktakes k evs)) (map snd (ktakes k evs)).
Proof.
  induction evs as [|[[k' t] g] r IH]; [reflexivity|].
  cbn [cgrants]. change ((k', t, g) :: r) with ([(k', t, g)] ++ r).
  rewrite ktakes_app, ktakes_single.
  destruct (eqb_bytes k' k); cbn [app map fst snd].
  - rewrite wcount_cons, IH. destruct g; cbn [andb]; reflexivity.
  - rewrite IH. destruct g; cbn [andb]; reflexivity.
Qed.

Lemma cinv0 keys t : cinv keys cs0 t.
Proof.
  unfold cinv, cs0. cbn [cs_map cs_heap cs_held mfind hfind length].
  repeat split; try discriminate; intros; lia.
Qed.

Lemma nondecr_acts_ok : forall acts tmin,
  nondecr (tmin :: map atime acts) -> acts_ok tmin acts.
Proof.
  induction acts as [|a r IH]; intros tmin H; [exact I|].
  cbn [map nondecr] in H. destruct H as [H1 H2]. cbn [acts_ok]. split; [exact H1|].
  apply IH. exact H2.
Qed.

(* ALL interleavings: whatever the schedule of LoadOrStore and Allow() steps of any number
   of goroutines (clock readings nondecreasing along the schedule), a key is granted at
   most burst + (w-1)/interval times in a window of length w *)
Lemma concurrent_rate keys acts k a w :
  1 <= w -> nondecr (map atime acts) ->
  cgrants k a w (crun keys cs0 acts) * I_NS <= BURST * I_NS + (w - 1).
Proof.
  intros Hw Hs.
  assert (Hok : acts_ok (hd 0 (map atime acts)) acts).
  { apply nondecr_acts_ok. destruct acts as [|x r]; [exact (conj I I)|].
    cbn [map hd nondecr] in *. split; [lia|exact Hs]. }
  destruct (cproj keys k acts cs0 _ (cinv0 keys _) Hok) as (b & Hwf & _ & Hseq & Hh & Hsrt & _).
  rewrite cgrants_wcount, Hseq. apply wcount_bound; auto.
Qed.

Lemma concurrent_bound keys acts k a :
  nondecr (map atime acts) -> cgrants k a I_NS (crun keys cs0 acts) <= 4.
Proof.
  intros Hs. pose proof (concurrent_rate keys acts k a I_NS ltac:(unfold I_NS; lia) Hs).
  unfold BURST, I_NS in *. lia.
Qed.

(* the lookup-then-store variant: six goroutines of one fresh source all miss in Load,
   each stores and uses its own bucket *)
Lemma racy_witness : exists keys acts k,
  nondecr (map (fun a => match a with RLoad _ => 0 | RStore _ t => t | RTake _ t => t end) acts) /\
  cgrants k 0 I_NS (rrun keys cs0 acts) = 6.
Proof.
  exists (fun _ => [9]%N).
  exists (map RLoad (seq 0 6) ++ map (fun th => RStore th 0) (seq 0 6) ++ map (fun th => RTake th 1) (seq 0 6)).
  exists [9]%N. split; [vm_compute; repeat split; intro H; discriminate H|vm_compute; reflexivity].
Qed.
