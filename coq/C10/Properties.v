(* C10 - UDP services cannot be used as traffic amplifiers: property theorems. *)
(* (C10.Check is deliberately not imported: it uses primitive integers to unpack case
   payloads, and the theorems must not have them in their library closure) *)
From HT Require Import Common.Bytes C10.Model C10.Proofs.
Open Scope Z_scope.

(* ---- the token bucket (rate.Limiter with the constants of services.NewLimiter) ---- *)

(* one bucket, any nondecreasing sequence of clock readings, any start state: no
   half-open window of one interval [a, a + 10 min) contains more than 4 grants *)
Theorem C10_bucket_window : forall ts b a,
  nondecr ts -> 0 <= b_credit b <= CAP -> (forall t r, ts = t :: r -> b_last b <= t) ->
  wcount a I_NS ts (bseq b ts) <= 4.
Proof. exact bucket_window_stmt. Qed.

(* long-run rate: a window of any length w holds at most burst + (w-1)/interval grants *)
Theorem C10_bucket_rate : forall ts b a w,
  1 <= w -> nondecr ts -> 0 <= b_credit b <= CAP -> (forall t r, ts = t :: r -> b_last b <= t) ->
  wcount a w ts (bseq b ts) * I_NS <= BURST * I_NS + (w - 1).
Proof. exact bucket_rate_stmt. Qed.

(* refill (model only; real time cannot be waited for): a bucket emptied at t0 grants
   again exactly from t0 + 10 min on *)
Theorem C10_refill_edge : forall t0 t,
  t0 <= t -> fst (bstep (mkB 0 t0) t) = (t0 + I_NS <=? t).
Proof. exact refill_edge. Qed.

(* ---- the limiter map: one bucket per source IP, ports play no part ---- *)

(* a decision for source k1 leaves every other source's bucket untouched *)
Theorem C10_limiter_isolated : forall l k1 k2 t,
  k1 <> k2 -> lookup (snd (allow l k1 t)) k2 = lookup l k2.
Proof. exact allow_isolated. Qed.

(* a source the limiter has not seen is let through, whatever the others did *)
Theorem C10_unseen_source_served : forall l k t, lookup l k = None -> fst (allow l k t) = true.
Proof. exact allow_fresh. Qed.

(* ---- the services ---- *)

(* in all four services every conn.Write is directly preceded by its own successful Allow *)
Theorem C10_scripts_guarded : forall s st d, guarded (script s st d) = true.
Proof. exact script_guarded. Qed.

(* hence, for every history and every window, responses to a source are covered by
   grants to that source in the same window *)
Theorem C10_replies_covered : forall s h k a w,
  replies_in k a w (trace s h) <= grants_in k a w (trace s h).
Proof. exact replies_covered. Qed.

(* THE BOUND: for each service, every history of datagrams (any sources, ports,
   contents, any number) handled by a service instance with a nondecreasing clock, every
   source IP k and every instant a: at most 4 response datagrams go to k in
   [a, a + 10 min) *)
Theorem C10_amplification_bound : forall s h k a,
  nondecr (ask_times (trace s h)) -> replies_in k a I_NS (trace s h) <= 4.
Proof. exact amplification_bound. Qed.

(* and over a window of any length w: at most 4 + (w-1)/interval *)
Theorem C10_amplification_rate : forall s h k a w,
  1 <= w -> nondecr (ask_times (trace s h)) ->
  replies_in k a w (trace s h) * I_NS <= BURST * I_NS + (w - 1).
Proof. exact amplification_rate. Qed.

(* one source's requests never use up another source's allowance: what concerns
   source k in the trace of a history (Allow results, responses, their times and
   contents) is exactly the trace of k's datagrams alone *)
Theorem C10_others_unaffected : forall s h k,
  proj k (trace s h) = trace s (filter (fun d => eqb_bytes (d_key d) k) h).
Proof. exact others_unaffected. Qed.

(* the source ports play no part: with any other assignment of source ports to the
   datagrams, the Allow results and the number, recipients and times of the responses
   are the same (only tftp's response contents depend on its per-address transfer buffers) *)
Theorem C10_ports_irrelevant : forall s h f,
  map erase (trace s h) = map erase (trace s (map (with_port f) h)).
Proof. exact ports_irrelevant. Qed.

(* the fuel of the memcached command loop (payload length + 1) suffices: any larger
   amount gives the same script *)
Theorem C10_memcached_fuel_suffices : forall d n,
  (length (d_payload d) < n)%nat -> mc_loop n (skipn 8 (d_payload d)) = mc_script d.
Proof. exact mc_script_fuel. Qed.

(* ---- concurrency: the server handles every datagram in its own goroutine ---- *)

(* ALL interleavings: Limiter.Allow = atomic LoadOrStore, then Allow() on the bucket it
   returned.  For any number of goroutines, any assignment of source addresses to them
   and any schedule of these steps (clock nondecreasing along the schedule), every
   source is granted at most 4 times in any window [a, a + 10 min) *)
Theorem C10_every_interleaving_bound : forall keys acts k a,
  nondecr (map atime acts) -> cgrants k a I_NS (crun keys cs0 acts) <= 4.
Proof. exact concurrent_bound. Qed.

Theorem C10_every_interleaving_rate : forall keys acts k a w,
  1 <= w -> nondecr (map atime acts) ->
  cgrants k a w (crun keys cs0 acts) * I_NS <= BURST * I_NS + (w - 1).
Proof. exact concurrent_rate. Qed.

(* the atomicity of LoadOrStore is what this rests on: with Load, then NewLimiter + Store
   on a miss, six goroutines of one fresh source that all miss are all granted *)
Theorem C10_lookup_then_store_refuted : exists keys acts k,
  nondecr (map (fun a => match a with RLoad _ => 0 | RStore _ t => t | RTake _ t => t end) acts) /\
  cgrants k 0 I_NS (rrun keys cs0 acts) = 6.
Proof. exact racy_witness. Qed.

(* ---- non-vacuity ---- *)
(* seven read requests from one address, seven different ports: the 4th is answered, the
   5th is not, nor is the one sent 1 ns before the refill; the one at the refill is *)
Example C10_fourth_yes_fifth_no :
  let h := [ex_rrq 1 0; ex_rrq 2 1; ex_rrq 3 2; ex_rrq 4 3; ex_rrq 5 4; ex_rrq 6 (I_NS - 1); ex_rrq 7 I_NS] in
  nondecr (ask_times (trace Tftp h)) /\
  map ev_replies (run Tftp [] [] h) =
    [[T_ERR_NOTFOUND]; [T_ERR_NOTFOUND]; [T_ERR_NOTFOUND]; [T_ERR_NOTFOUND]; []; []; [T_ERR_NOTFOUND]] /\
  replies_in [49; 46; 49]%N 0 I_NS (trace Tftp h) = 4.
Proof.
  cbv zeta. split; [|split; vm_compute; reflexivity].
  vm_compute. repeat split; intro H; discriminate H.
Qed.

(* two IPv6 sources interleaved: each gets its own four answers *)
Example C10_two_sources :
  let a := [50; 48; 48; 49; 58; 58; 49]%N in let b := [50; 48; 48; 49; 58; 58; 50]%N in
  let q k t := mkD k 7 t [] 0%N [255; 255; 255; 255; 84; 0]%N in
  let h := [q a 0; q b 1; q a 2; q b 3; q a 4; q b 5; q a 6; q b 7; q a 8; q b 9] in
  replies_in a 0 I_NS (trace CStrike h) = 4 /\ replies_in b 0 I_NS (trace CStrike h) = 4 /\
  proj a (trace CStrike h) = trace CStrike [q a 0; q a 2; q a 4; q a 6; q a 8].
Proof. cbv zeta. repeat split; vm_compute; reflexivity. Qed.

(* six goroutines of one fresh source, all LoadOrStore first, then all Allow(): four grants *)
Example C10_six_goroutines_four_grants :
  let acts := map (fun th => ALoad th 0) (seq 0 6) ++ map (fun th => ATake th 1) (seq 0 6) in
  nondecr (map atime acts) /\ cgrants [9]%N 0 I_NS (crun (fun _ => [9]%N) cs0 acts) = 4.
Proof. cbv zeta. split; [vm_compute; repeat split; intro H; discriminate H|vm_compute; reflexivity]. Qed.

(* six commands in one memcached datagram: four answers *)
Example C10_memcached_multi :
  let stats := [115; 116; 97; 116; 115; 13; 10]%N in
  let d := mkD [49]%N 9 0 [] 0%N ([0;0;0;0;0;1;0;0]%N ++ stats ++ stats ++ stats ++ stats ++ stats ++ stats) in
  map ev_replies (run Memcached [] [] [d]) = [[M_STATS; M_STATS; M_STATS; M_STATS]].
Proof. vm_compute. reflexivity. Qed.

Print Assumptions C10_bucket_window.
Print Assumptions C10_bucket_rate.
Print Assumptions C10_refill_edge.
Print Assumptions C10_limiter_isolated.
Print Assumptions C10_unseen_source_served.
Print Assumptions C10_scripts_guarded.
Print Assumptions C10_replies_covered.
Print Assumptions C10_amplification_bound.
Print Assumptions C10_amplification_rate.
Print Assumptions C10_others_unaffected.
Print Assumptions C10_ports_irrelevant.
Print Assumptions C10_memcached_fuel_suffices.
Print Assumptions C10_every_interleaving_bound.
Print Assumptions C10_every_interleaving_rate.
Print Assumptions C10_lookup_then_store_refuted.
