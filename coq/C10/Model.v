(* C10 - model of services/limiter.go (on top of golang.org/x/time/rate) and of the
   Allow/Write structure of the four rate-limited UDP services
   (services/tftp.go, memcached.go, snmp/snmp.go, counterstrike.go).
   Executable definitions only.

   Time is an integer number of nanoseconds.  A token bucket is kept in
   "nanoseconds of refill": rate.Limiter's float64 [tokens] is [credit / I_NS]
   (float rounding idealised as exact arithmetic; the correspondence run treats a
   decision closer than 2 ns to the refill edge as ambiguous). *)
From HT Require Import Common.Bytes.
From Coq Require Import String Ascii.
From Coq Require Import List.   (* List.length etc. take precedence over String's again *)
Open Scope Z_scope.

(* ---- constants of services.NewLimiter ---- *)
Definition I_NS : Z := 600000000000.     (* rate.Every(time.Minute * 10): one token per 10 min *)
Definition BURST : Z := 4.               (* burst: 4 *)
Definition CAP : Z := BURST * I_NS.

(* ---- rate.Limiter ---- *)
Record bucket := mkB { b_credit : Z; b_last : Z }.

(* advance(now) followed by reserveN(now, 1, 0):
     last' := if now.Before(last) then now else last
     tokens := min(burst, tokens + (now - last') * limit)
     ok := tokens - 1 >= 0 (waitDuration <= 0)
     ok  => last := now, tokens := tokens - 1
     !ok => last := last', tokens unchanged *)
Definition bstep (b : bucket) (now : Z) : bool * bucket :=
  let lst := Z.min (b_last b) now in
  let c := Z.min CAP (b_credit b + (now - lst)) in
  if I_NS <=? c then (true, mkB (c - I_NS) now) else (false, mkB (b_credit b) lst).

(* the rate.Limiter that LoadOrStore inserts for an unseen key has tokens 0 and
   last = the zero time: its first advance saturates at burst whatever [now] is.  A
   bucket holding CAP behaves identically. *)
Definition fresh (now : Z) : bucket := mkB CAP now.

(* ---- services.Limiter: sync.Map from IP.String() to *rate.Limiter ---- *)
Definition key := bytes.                 (* the text IP.String() of the source; no port *)
Definition limiter := list (key * bucket).

Fixpoint lookup (l : limiter) (k : key) : option bucket :=
  match l with
  | [] => None
  | (k', b) :: r => if eqb_bytes k' k then Some b else lookup r k
  end.

Fixpoint store (l : limiter) (k : key) (b : bucket) : limiter :=
  match l with
  | [] => [(k, b)]
  | (k', b') :: r => if eqb_bytes k' k then (k, b) :: r else (k', b') :: store r k b
  end.

Definition bucket_of (l : limiter) (k : key) (now : Z) : bucket :=
  match lookup l k with Some b => b | None => fresh now end.

(* Limiter.Allow(addr) for a *net.UDPAddr / *net.TCPAddr whose IP prints as k *)
Definition allow (l : limiter) (k : key) (now : Z) : bool * limiter :=
  let '(g, b') := bstep (bucket_of l k now) now in (g, store l k b').

(* ---- what a service's Handle does with one datagram ---- *)
(* SAsk: s.limiter.Allow(conn.RemoteAddr()); every service returns at once when it is
   refused.  SReply c: one conn.Write (= one response datagram), c a projection of
   its content.  SPanic: Handle panics (recovered by server.handle). *)
Inductive step := SAsk | SReply (c : N) | SPanic.

Inductive event :=
| EAsk (k : key) (t : Z) (g : bool)
| EReply (k : key) (t : Z) (c : N)
| EPanic (k : key).

(* ts: clock readings of the successive Allow calls of this Handle (t when exhausted);
   cur: reading of the latest one *)
Fixpoint exec (l : limiter) (k : key) (ts : list Z) (t : Z) (cur : Z) (s : list step)
  : limiter * list event :=
  match s with
  | [] => (l, [])
  | SPanic :: _ => (l, [EPanic k])
  | SReply c :: r => let '(l', ev) := exec l k ts t cur r in (l', EReply k cur c :: ev)
  | SAsk :: r =>
      let now := hd t ts in
      let '(g, l1) := allow l k now in
      if g then let '(l2, ev) := exec l1 k (tl ts) t now r in (l2, EAsk k now true :: ev)
      else (l1, [EAsk k now false])
  end.

Record dgram := mkD {
  d_key : key;            (* Raddr.IP.String() *)
  d_port : Z;             (* Raddr.Port *)
  d_t : Z;                (* clock when Handle is entered *)
  d_ts : list Z;          (* clock readings of its Allow calls, if they differ from d_t *)
  d_oracle : N;           (* snmp only, outcome of the ASN.1 library's decoding: 1 = a v1 Get/GetNext/Set
                             request (its event is sent just before Allow), 2 = the decoder panicked,
                             3 = as 1, but encoding the response panics,
                             4 = as 1, but encoding the response fails (Handle returns its error),
                             0 = anything else (Handle returns before Allow) *)
  d_payload : bytes
}.

Inductive svc := Tftp | Memcached | Snmp | CStrike.

Definition bs (s : string) : bytes := map N_of_ascii (list_ascii_of_string s).
Arguments bs s%string.

(* ---- tftp ---- *)
(* buffers: the remote addresses (IP text, port) with an open write transfer *)
Definition tstate := list (key * Z).
Definition addr_eqb (a b : key * Z) : bool := eqb_bytes (fst a) (fst b) && (snd a =? snd b).
Definition has_buf (st : tstate) (a : key * Z) : bool := existsb (addr_eqb a) st.
Definition del_buf (st : tstate) (a : key * Z) : tstate := filter (fun x => negb (addr_eqb a x)) st.

Fixpoint count_nul (p : bytes) : nat :=
  match p with [] => O | c :: r => if (c =? 0)%N then S (count_nul r) else count_nul r end.

Definition T_ERR_NOTFOUND : N := 327681.   (* 00 05 00 01: bytes 1..3 of the reply *)
Definition T_ACK0 : N := 262144.           (* 00 04 00 00 *)
Definition T_ERR_NOBUF : N := 327684.      (* 00 05 00 04 *)
Definition t_ack (blk : N) : N := (262144 + blk)%N.

(* Allow comes first; then the opcode is the second byte (zero when absent); RRQ/WRQ
   answer only if filename and mode are both NUL-terminated; DATA answers unless the
   datagram ends right after the opcode (reading the block number hits end of stream;
   the end of stream after it counts as an empty last block) *)
Definition tftp_script (st : tstate) (d : dgram) : list step :=
  let p := d_payload d in
  let ty := nth 1 p 0%N in
  let rem := skipn 2 p in
  SAsk ::
  (if (ty =? 1)%N then (if (2 <=? count_nul rem)%nat then [SReply T_ERR_NOTFOUND] else [])
   else if (ty =? 2)%N then (if (2 <=? count_nul rem)%nat then [SReply T_ACK0] else [])
   else if (ty =? 3)%N then
     (if (length p <=? 2)%nat then []
      else if has_buf st (d_key d, d_port d)
      then [SReply (t_ack (nth 2 p 0 * 256 + nth 3 p 0)%N)] else [SReply T_ERR_NOBUF])
   else []).

(* buffers after the datagram, given whether Allow let it through *)
Definition tftp_next (st : tstate) (d : dgram) (granted : bool) : tstate :=
  if negb granted then st else
  let p := d_payload d in
  let ty := nth 1 p 0%N in
  let a := (d_key d, d_port d) in
  if (ty =? 2)%N then (if (2 <=? count_nul (skipn 2 p))%nat then a :: del_buf st a else st)
  else if (ty =? 3)%N then
    (if (length p <=? 2)%nat then st
     else if has_buf st a then
       (if Z.min 512 (Z.max 0 (zlen p - 4)) =? 512 then st else del_buf st a)
     else st)
  else st.

(* ---- memcached ---- *)
Fixpoint split_at_nl (p : bytes) : option (bytes * bytes) :=   (* ReadBytes('\n') *)
  match p with
  | [] => None
  | c :: r => if (c =? 10)%N then Some ([c], r)
              else match split_at_nl r with Some (a, b) => Some (c :: a, b) | None => None end
  end.

Definition strip2 (line : bytes) : bytes :=
  if (2 <=? length line)%nat then firstn (length line - 2) line else line.

Fixpoint split_sp (p : bytes) : list bytes :=                  (* bytes.Split(p, " ") *)
  match p with
  | [] => [[]]
  | c :: r => if (c =? 32)%N then [] :: split_sp r
              else match split_sp r with w :: ws => (c :: w) :: ws | [] => [[c]] end
  end.

Definition is_digit (c : N) : bool := ((48 <=? c) && (c <=? 57))%N.
Fixpoint dec_val (s : bytes) (acc : Z) : Z :=
  match s with [] => acc | c :: r => dec_val r (acc * 10 + (Z.of_N c - 48)) end.

(* strconv.Atoi on a 64-bit platform *)
Definition atoi (s : bytes) : option Z :=
  let '(neg, ds) := match s with
                    | c :: r => if (c =? 43)%N then (false, r) else if (c =? 45)%N then (true, r) else (false, s)
                    | [] => (false, s)
                    end in
  match ds with
  | [] => None
  | _ => if forallb is_digit ds then
           let v := dec_val ds 0 in
           if neg then (if v <=? 9223372036854775808 then Some (- v) else None)
           else (if v <? 9223372036854775808 then Some v else None)
         else None
  end.

Definition is_store (w : bytes) : bool :=
  existsb (eqb_bytes w) [bs "add"; bs "replace"; bs "prepend"; bs "append"; bs "cas"; bs "set"].

Definition M_OK : N := 1.  Definition M_STATS : N := 2.  Definition M_STORED : N := 3.  Definition M_ERROR : N := 4.

(* one iteration of the command loop; one Allow per command line, before its reply;
   [rec] is the rest of the loop.  A storage command's data block is read by its
   declared length: io.ReadFull of min(count, 80) bytes, then Discard(count - n + 2) *)
Definition mc_step (rec : bytes -> list step) (rem : bytes) : list step :=
  match split_at_nl rem with
  | None => []
  | Some (line, rest) =>
    let parts := split_sp (strip2 line) in
    let w := hd [] parts in
    SAsk ::
    (if eqb_bytes w (bs "flush_all") then SReply M_OK :: rec rest
     else if eqb_bytes w (bs "stats") then SReply M_STATS :: rec rest
     else if is_store w then
       (if (length parts <? 5)%nat then []
        else match atoi (nth 4 parts []) with
             | None => []
             | Some v =>
                 if v <? 0 then [] else
                 let n := Z.min (Z.min v 80) (zlen rest) in         (* io.ReadFull(b, buff[:min(count,80)]) *)
                 if (0 <? v) && (n =? 0) then [] else               (* nothing left of the block: error *)
                 let rest1 := skipn (Z.to_nat n) rest in
                 let rest2 := skipn (Z.to_nat (Z.min (v - n + 2) (zlen rest1))) rest1 in   (* b.Discard(count-n+2) *)
                 SReply M_STORED :: rec rest2
             end)
     else SReply M_ERROR :: rec rest)
  end.

Fixpoint mc_loop (fuel : nat) (rem : bytes) : list step :=
  match fuel with
  | O => []
  | S f => mc_step (mc_loop f) rem
  end.

(* 8-byte UDP frame header, then the loop; every iteration consumes a byte *)
Definition mc_script (d : dgram) : list step :=
  mc_loop (S (length (d_payload d))) (skipn 8 (d_payload d)).

(* ---- snmp: decoding is the ASN.1 library's; a reply exists only behind Allow ---- *)
Definition snmp_script (d : dgram) : list step :=
  if (d_oracle d =? 1)%N then [SAsk; SReply 1%N]
  else if (d_oracle d =? 2)%N then [SPanic]
  else if (d_oracle d =? 3)%N then [SAsk; SPanic]
  else if (d_oracle d =? 4)%N then [SAsk]
  else [].

(* ---- counterstrike ---- *)
Definition cs_script (d : dgram) : list step :=
  let buf := firstn 1024 (d_payload d) in
  let h := firstn 4 (buf ++ [0; 0; 0; 0]%N) in          (* buf[0:4] reaches into the zeroed capacity *)
  if eqb_bytes h [255; 255; 255; 255]%N || eqb_bytes h [255; 255; 255; 254]%N then
    if (length buf <=? 4)%nat then [SPanic]              (* buf[4]: index out of range *)
    else [SAsk; SReply 1%N]
  else [].

Definition script (s : svc) (st : tstate) (d : dgram) : list step :=
  match s with
  | Tftp => tftp_script st d
  | Memcached => mc_script d
  | Snmp => snmp_script d
  | CStrike => cs_script d
  end.

Definition first_granted (ev : list event) : bool :=
  match ev with EAsk _ _ true :: _ => true | _ => false end.

Definition next_state (s : svc) (st : tstate) (d : dgram) (ev : list event) : tstate :=
  match s with Tftp => tftp_next st d (first_granted ev) | _ => st end.

(* one Handle call *)
Definition handle (s : svc) (st : tstate) (l : limiter) (d : dgram) : tstate * limiter * list event :=
  let '(l', ev) := exec l (d_key d) (d_ts d) (d_t d) (d_t d) (script s st d) in
  (next_state s st d ev, l', ev).

(* a service instance handling datagrams one after the other: events per datagram *)
Fixpoint run (s : svc) (st : tstate) (l : limiter) (h : list dgram) : list (list event) :=
  match h with
  | [] => []
  | d :: r => let '(st', l', ev) := handle s st l d in ev :: run s st' l' r
  end.

(* a new service instance: services.NewLimiter(), no buffers *)
Definition trace (s : svc) (h : list dgram) : list event := concat (run s [] [] h).

(* ---- projections of the events of one datagram ---- *)
Definition ev_replies (ev : list event) : list N :=
  flat_map (fun e => match e with EReply _ _ c => [c] | _ => [] end) ev.
Definition ev_panic (ev : list event) : bool :=
  existsb (fun e => match e with EPanic _ => true | _ => false end) ev.
Definition ev_denied (ev : list event) : bool :=
  existsb (fun e => match e with EAsk _ _ false => true | _ => false end) ev.

(* ---- counting ---- *)
Definition in_win (a w t : Z) : bool := (a <=? t) && (t <? a + w).

(* response datagrams to source k written at a time in [a, a+w) *)
Fixpoint replies_in (k : key) (a w : Z) (tr : list event) : Z :=
  match tr with
  | [] => 0
  | EReply k' t _ :: r => (if eqb_bytes k' k && in_win a w t then 1 else 0) + replies_in k a w r
  | _ :: r => replies_in k a w r
  end.

Fixpoint grants_in (k : key) (a w : Z) (tr : list event) : Z :=
  match tr with
  | [] => 0
  | EAsk k' t true :: r => (if eqb_bytes k' k && in_win a w t then 1 else 0) + grants_in k a w r
  | _ :: r => grants_in k a w r
  end.

Fixpoint ask_times (tr : list event) : list Z :=
  match tr with
  | [] => []
  | EAsk _ t _ :: r => t :: ask_times r
  | _ :: r => ask_times r
  end.

Fixpoint nondecr (l : list Z) : Prop :=
  match l with
  | [] => True
  | x :: r => match r with [] => True | y :: _ => x <= y end /\ nondecr r
  end.

Definition ev_key (e : event) : key :=
  match e with EAsk k _ _ => k | EReply k _ _ => k | EPanic k => k end.

(* the part of a trace that concerns source k *)
Definition proj (k : key) (tr : list event) : list event :=
  filter (fun e => eqb_bytes (ev_key e) k) tr.

(* every reply is written directly after an Allow that returned true *)
Fixpoint guarded (s : list step) : bool :=
  match s with
  | [] => true
  | SPanic :: _ => true
  | SReply _ :: _ => false
  | SAsk :: r => match r with
                 | SReply _ :: r' => guarded r'
                 | _ => guarded r
                 end
  end.

(* one bucket fed with a list of clock readings *)
Fixpoint bseq (b : bucket) (ts : list Z) : list bool :=
  match ts with
  | [] => []
  | t :: r => let '(g, b') := bstep b t in g :: bseq b' r
  end.

Fixpoint wcount (a w : Z) (ts : list Z) (gs : list bool) : Z :=
  match ts, gs with
  | t :: ts', g :: gs' => (if g && in_win a w t then 1 else 0) + wcount a w ts' gs'
  | _, _ => 0
  end.

(* ---- concurrent Allow calls (the server runs one goroutine per datagram) ---- *)
(* Limiter.Allow is two atomic steps: (1) sync.Map.LoadOrStore(key, new limiter), which
   yields a pointer to the key's rate.Limiter - the stored one, or the new one which it
   stores in the same step; (2) rate.Limiter.Allow() on that pointer, under the limiter's
   own mutex.  Buckets live in a heap and are named by their index, so that "which bucket
   does this goroutine hold" is explicit; a schedule is any list of such steps. *)
Record cstate := mkCS {
  cs_map : list (key * nat);       (* sync.Map: key -> bucket *)
  cs_heap : list bucket;
  cs_held : list (nat * nat)       (* goroutine -> the bucket its LoadOrStore returned *)
}.

Inductive action :=
| ALoad (th : nat) (now : Z)       (* goroutine th performs LoadOrStore *)
| ATake (th : nat) (now : Z).      (* goroutine th performs Allow() on the bucket it holds *)

Definition atime (a : action) : Z := match a with ALoad _ t => t | ATake _ t => t end.

Fixpoint mfind (m : list (key * nat)) (k : key) : option nat :=
  match m with [] => None | (k', i) :: r => if eqb_bytes k' k then Some i else mfind r k end.

Fixpoint hfind (h : list (nat * nat)) (th : nat) : option nat :=
  match h with [] => None | (th', i) :: r => if Nat.eqb th' th then Some i else hfind r th end.

Fixpoint upd (h : list bucket) (i : nat) (b : bucket) : list bucket :=
  match h, i with
  | [], _ => []
  | _ :: r, O => b :: r
  | x :: r, S i' => x :: upd r i' b
  end.

(* keys th: the source address of goroutine th's datagram.  Result: new state and the
   Allow result produced, if any *)
Definition cstep (keys : nat -> key) (cs : cstate) (a : action) : cstate * list (key * Z * bool) :=
  match a with
  | ALoad th now =>
      match mfind (cs_map cs) (keys th) with
      | Some i => (mkCS (cs_map cs) (cs_heap cs) ((th, i) :: cs_held cs), [])
      | None => let i := length (cs_heap cs) in
                (mkCS ((keys th, i) :: cs_map cs) (cs_heap cs ++ [fresh now]) ((th, i) :: cs_held cs), [])
      end
  | ATake th now =>
      match hfind (cs_held cs) th with
      | None => (cs, [])                                  (* nothing to call Allow on yet *)
      | Some i => let r := bstep (nth i (cs_heap cs) (fresh now)) now in
                  (mkCS (cs_map cs) (upd (cs_heap cs) i (snd r)) (cs_held cs), [(keys th, now, fst r)])
      end
  end.

Fixpoint crun (keys : nat -> key) (cs : cstate) (acts : list action) : list (key * Z * bool) :=
  match acts with
  | [] => []
  | a :: r => let x := cstep keys cs a in snd x ++ crun keys (fst x) r
  end.

Definition cs0 : cstate := mkCS [] [] [].      (* services.NewLimiter() *)

(* Allow calls of source k that returned true at a time in [a, a+w) *)
Fixpoint cgrants (k : key) (a w : Z) (evs : list (key * Z * bool)) : Z :=
  match evs with
  | [] => 0
  | (k', t, g) :: r => (if g && eqb_bytes k' k && in_win a w t then 1 else 0) + cgrants k a w r
  end.

(* the lookup-then-store variant (Load; on a miss NewLimiter + Store) for comparison: the
   miss and the store are separate steps *)
Inductive raction :=
| RLoad (th : nat)                 (* Load: remember the bucket, or the miss *)
| RStore (th : nat) (now : Z)      (* after a miss: new bucket, Store overwrites the entry *)
| RTake (th : nat) (now : Z).

Definition rstep (keys : nat -> key) (cs : cstate) (a : raction) : cstate * list (key * Z * bool) :=
  match a with
  | RLoad th =>
      match mfind (cs_map cs) (keys th) with
      | Some i => (mkCS (cs_map cs) (cs_heap cs) ((th, i) :: cs_held cs), [])
      | None => (cs, [])
      end
  | RStore th now =>
      let i := length (cs_heap cs) in
      (mkCS ((keys th, i) :: cs_map cs) (cs_heap cs ++ [fresh now]) ((th, i) :: cs_held cs), [])
  | RTake th now =>
      match hfind (cs_held cs) th with
      | None => (cs, [])
      | Some i => let r := bstep (nth i (cs_heap cs) (fresh now)) now in
                  (mkCS (cs_map cs) (upd (cs_heap cs) i (snd r)) (cs_held cs), [(keys th, now, fst r)])
      end
  end.

Fixpoint rrun (keys : nat -> key) (cs : cstate) (acts : list raction) : list (key * Z * bool) :=
  match acts with
  | [] => []
  | a :: r => let x := rstep keys cs a in snd x ++ rrun keys (fst x) r
  end.
