(* C06 - executable comparison of the implementation's observations with the routing
   specification [spec_received] (violations) and with the model [received] (mismatches). *)
From HT Require Import Common.Bytes C06.Model.
Open Scope Z_scope.

Fixpoint list_eqb {A} (e : A -> A -> bool) (a b : list A) : bool :=
  match a, b with
  | [], [] => true
  | x :: a', y :: b' => e x y && list_eqb e a' b'
  | _, _ => false
  end.

Definition fval_eqb (a b : fval) : bool :=
  match a, b with
  | FMissing, FMissing => true
  | FStr x, FStr y => eqb_str x y
  | FOther, FOther => true
  | _, _ => false
  end.

Definition dv_eqb (a b : N * fval) : bool := (fst a =? fst b)%N && fval_eqb (snd a) (snd b).

Definition count_id (i : N) (l : list N) : nat := length (filter (fun j => (j =? i)%N) l).

(* ---- kind "regex": the matcher against Go's regexp on one (expression, subject) ---- *)
Record rcase := mkRCase {
  rc_id : N;
  rc_re : re;
  rc_expr : str;      (* the expression string that was compiled by Go *)
  rc_subj : str;
  rc_go : bool        (* regexp.MustCompile(expr).MatchString(subj) *)
}.

Definition rcase_ok (c : rcase) : bool :=
  eqb_str (show_top (rc_re c)) (rc_expr c) && Bool.eqb (match_string (rc_re c) (rc_subj c)) (rc_go c).

(* ---- kind "bus": one configuration, one event stream ---- *)
Record bcase := mkBCase {
  bc_id : N;
  bc_cfg : config;
  bc_evs : list event;
  bc_obs : list (str * list (N * fval));    (* per capture channel: (id, token field) in arrival order *)
  bc_post : list fval;                      (* token field of every event after Send returned *)
  bc_alone : list (str * list (N * fval))   (* channel c observed in a second run under [restrict cfg c] *)
}.

Definition SIG_MISSING := 1%N.   (* a channel received fewer copies of an event than admitting filters name it *)
Definition SIG_EXTRA := 2%N.     (* a channel received an event (copy) no admitting filter accounts for *)
Definition SIG_ORDER := 3%N.     (* right events, not in sending order *)
Definition SIG_TOKEN := 4%N.     (* a delivered event does not carry the sensor token *)
Definition SIG_DEPENDS := 5%N.   (* what a channel receives changed when other channels/filters were removed *)

Definition chan_sig (cfg : config) (evs : list event) (c : str) (obs : list (N * fval)) : N :=
  let spec := spec_received cfg evs c in
  let io := map fst obs in
  let isp := map fst spec in
  if list_eqb N.eqb io isp then
    if forallb (fun d => fval_eqb (snd d) (FStr (c_token cfg))) obs then 0%N else SIG_TOKEN
  else if existsb (fun i => Nat.ltb (count_id i io) (count_id i isp)) isp then SIG_MISSING
  else if existsb (fun i => Nat.ltb (count_id i isp) (count_id i io)) io then SIG_EXTRA
  else SIG_ORDER.

Fixpoint first_nz (l : list N) : N :=
  match l with
  | [] => 0%N
  | x :: r => if (x =? 0)%N then first_nz r else x
  end.

Fixpoint lookup (c : str) (l : list (str * list (N * fval))) : option (list (N * fval)) :=
  match l with
  | [] => None
  | (k, v) :: r => if eqb_str k c then Some v else lookup c r
  end.

Definition bcase_sig (c : bcase) : N :=
  first_nz (map (fun p => chan_sig (bc_cfg c) (bc_evs c) (fst p) (snd p)) (bc_obs c) ++
            map (fun p => match lookup (fst p) (bc_obs c) with
                          | Some o => if list_eqb dv_eqb o (snd p) then 0%N else SIG_DEPENDS
                          | None => 0%N
                          end) (bc_alone c)).

Definition bcase_model_ok (c : bcase) : bool :=
  forallb (fun p => list_eqb dv_eqb (received (bc_cfg c) (bc_evs c) (fst p)) (snd p)) (bc_obs c) &&
  list_eqb fval_eqb (post_tokens (wire (bc_cfg c)) (bc_evs c)) (bc_post c) &&
  forallb (fun p => list_eqb dv_eqb (received (restrict (bc_cfg c) (fst p)) (bc_evs c) (fst p)) (snd p)) (bc_alone c).

(* ---- kind "conc": K senders, each its own goroutine and its own stream, one server ---- *)
Record ccase := mkCCase {
  cc_id : N;
  cc_cfg : config;
  cc_streams : list (list event);           (* per sender; event ids unique over all streams *)
  cc_obs : list (str * list (N * fval))     (* per capture channel: arrival order *)
}.

Definition SIG_C_MISSING := 6%N.  (* concurrent senders: an event reached a channel fewer times than admitting filters name it *)
Definition SIG_C_EXTRA := 7%N.    (* concurrent senders: a delivery nobody accounts for *)
Definition SIG_C_ORDER := 8%N.    (* concurrent senders: one sender's own events overtook each other *)

Definition mem_id (i : N) (l : list N) : bool := existsb (fun j => (j =? i)%N) l.

(* what the channel saw of one sender: the deliveries whose id belongs to the stream *)
Definition of_sender (st : list event) (obs : list (N * fval)) : list (N * fval) :=
  filter (fun d => mem_id (fst d) (map ev_id st)) obs.

Definition sender_sig (cfg : config) (c : str) (obs : list (N * fval)) (st : list event) : N :=
  let io := map fst (of_sender st obs) in
  let isp := map fst (spec_received cfg st c) in
  if list_eqb N.eqb io isp then
    if forallb (fun d => fval_eqb (snd d) (FStr (c_token cfg))) (of_sender st obs) then 0%N else SIG_TOKEN
  else if existsb (fun i => Nat.ltb (count_id i io) (count_id i isp)) isp then SIG_C_MISSING
  else if existsb (fun i => Nat.ltb (count_id i isp) (count_id i io)) io then SIG_C_EXTRA
  else SIG_C_ORDER.

Definition ccase_sig (c : ccase) : N :=
  let all_ids := flat_map (map ev_id) (cc_streams c) in
  first_nz (flat_map (fun p =>
              (if forallb (fun d => mem_id (fst d) all_ids) (snd p) then 0%N else SIG_C_EXTRA) ::
              map (sender_sig (cc_cfg c) (fst p) (snd p)) (cc_streams c)) (cc_obs c)).

(* the model: every sender's projection is what the channel receives from that stream alone
   (Proofs: interleaving lemmas), in the terms of the model *)
Definition ccase_model_ok (c : ccase) : bool :=
  let all_ids := flat_map (map ev_id) (cc_streams c) in
  forallb (fun p =>
    forallb (fun d => mem_id (fst d) all_ids) (snd p) &&
    forallb (fun st => list_eqb dv_eqb (of_sender st (snd p)) (received (cc_cfg c) st (fst p))) (cc_streams c))
    (cc_obs c).

Inductive case := CR (c : rcase) | CB (c : bcase) | CC (c : ccase).
Definition case_id (c : case) : N := match c with CR r => rc_id r | CB b => bc_id b | CC x => cc_id x end.

Definition mismatches (cs : list case) : list N :=
  map case_id (filter (fun c => negb (match c with
                                      | CR r => rcase_ok r
                                      | CB b => bcase_model_ok b
                                      | CC x => ccase_model_ok x
                                      end)) cs).

Definition violations (cs : list case) : list (N * N) :=
  flat_map (fun c => match c with
                     | CR _ => []
                     | CB b => let s := bcase_sig b in if (s =? 0)%N then [] else [(bc_id b, s)]
                     | CC x => let s := ccase_sig x in if (s =? 0)%N then [] else [(cc_id x, s)]
                     end) cs.

(* tags.  regex: 1 = matches, 2 = does not.  bus: 0 = nothing to route (no events, or no
   filter names a configured channel); 1 = every copy the wiring could deliver was
   refused by a filter; 2 = some delivered, some refused; 3 = all delivered.
   conc: 4 + number of senders (0 if nothing can be delivered) *)
Definition possible (cfg : config) (evs : list event) : nat :=
  (length evs * length (wire cfg))%nat.

Definition tags (cs : list case) : list (N * N) :=
  map (fun c => (case_id c,
    match c with
    | CR r => if match_string (rc_re r) (rc_subj r) then 1 else 2
    | CB b =>
        let p := possible (bc_cfg b) (bc_evs b) in
        let d := length (run (wire (bc_cfg b)) (bc_evs b)) in
        if Nat.eqb p 0 then 0 else if Nat.eqb d 0 then 1 else if Nat.ltb d p then 2 else 3
    | CC x =>
        if Nat.eqb (length (run (wire (cc_cfg x)) (concat (cc_streams x)))) 0 then 0
        else 4 + N.of_nat (length (cc_streams x))
    end)%N) cs.
