(* C06 - property theorems: every event reaches exactly the channels whose filters admit it. *)
From HT Require Import Common.Bytes C06.Model C06.Check C06.Proofs.
Open Scope Z_scope.

(* the full statement: what channel c receives from the wired bus is, event by event in
   sending order, one copy carrying the sensor token for every naming of c by an admitting
   filter (namings of unconfigured channels count zero) - and nothing else *)
Definition C06_full : Prop :=
  forall cfg evs c,
    received cfg evs c =
    flat_map (fun e => repeat (ev_id e, FStr (c_token cfg)) (copies cfg c e)) evs.

Theorem C06_route_exact : C06_full.
Proof. exact route_exact. Qed.

(* with duplicate-free channel lists (a filter that lists a channel twice subscribes it
   twice, as coded): exactly once per filter that names the channel and admits the event *)
Theorem C06_once_per_admitting_filter : forall cfg c e,
  (forall f, In f (c_filters cfg) -> NoDup (f_chans f)) ->
  mem_str c (configured cfg) = true ->
  copies cfg c e = length (filter (fun f => mem_str c (f_chans f) && admits f e) (c_filters cfg)).
Proof. exact copies_NoDup. Qed.

(* sending order is preserved: the reception of a stream is the concatenation of the
   receptions of its parts *)
Theorem C06_order_preserved : forall cfg evs1 evs2 c,
  received cfg (evs1 ++ evs2) c = received cfg evs1 c ++ received cfg evs2 c.
Proof. exact received_app. Qed.

(* no other channel: every single delivery made by the bus goes to a configured channel
   named by a filter that admits that very event, and carries the sensor token *)
Theorem C06_delivery_sound : forall cfg evs n i t,
  In (n, (i, t)) (run (wire cfg) evs) ->
  In n (configured cfg) /\ t = FStr (c_token cfg) /\
  exists f e, In f (c_filters cfg) /\ In e evs /\ In n (f_chans f) /\ admits f e = true /\ ev_id e = i.
Proof. exact delivery_sound. Qed.

Theorem C06_route_no_other : forall cfg evs c,
  (forall f e, In f (c_filters cfg) -> In e evs -> In c (f_chans f) -> In c (configured cfg) -> admits f e = false) ->
  received cfg evs c = [].
Proof. exact route_no_other. Qed.

Theorem C06_unconfigured_receives_nothing : forall cfg evs c,
  mem_str c (configured cfg) = false -> received cfg evs c = [].
Proof. exact not_configured_nothing. Qed.

(* delivered events carry the sensor token, whatever "token" field the sender had put in *)
Theorem C06_token_carried : forall cfg evs c i t,
  In (i, t) (received cfg evs c) -> t = FStr (c_token cfg).
Proof. exact token_carried. Qed.

(* what one channel receives does not depend on the other channels, on the other names in
   the filters' channel lists, or on filters that do not name it *)
Theorem C06_route_independent : forall cfg evs c,
  received cfg evs c = received (restrict cfg c) evs c.
Proof. exact route_independent. Qed.

Theorem C06_route_independent_of_other_filters : forall cfg evs c,
  received cfg evs c = received (prune cfg c) evs c.
Proof. exact route_prune. Qed.

Theorem C06_same_view_same_reception : forall cfg cfg' evs c,
  restrict cfg c = restrict cfg' c -> received cfg evs c = received cfg' evs c.
Proof.
  intros cfg cfg' evs c H. rewrite (route_independent cfg), (route_independent cfg'), H. reflexivity.
Qed.

(* a filter admits an event iff any category expression matches the category and any
   service expression matches the service, an absent list admitting everything *)
Theorem C06_admits_spec : forall f e,
  admits f e = true <->
  (f_cats f = [] \/ exists r, In r (f_cats f) /\ match_string r (fget (ev_cat e)) = true) /\
  (f_svcs f = [] \/ exists r, In r (f_svcs f) /\ match_string r (fget (ev_svc e)) = true).
Proof. exact admits_spec. Qed.

Theorem C06_absent_list_admits_all : forall chans e, admits (mkFlt chans [] []) e = true.
Proof. intros; reflexivity. Qed.

(* a missing or non-string category/service is filtered as the empty string *)
Theorem C06_missing_is_empty : forall f i v s t,
  v = FMissing \/ v = FOther ->
  admits f (mkEv i v s t) = admits f (mkEv i (FStr []) s t) /\
  admits f (mkEv i s v t) = admits f (mkEv i s (FStr []) t).
Proof. exact missing_is_empty. Qed.

(* the sender's event object: untouched if nobody received it, otherwise only the token
   field was stored; id, category and service never change *)
Theorem C06_sender_event : forall cfg e,
  fst (bus_send (wire cfg) e) =
  match snd (bus_send (wire cfg) e) with [] => e | _ :: _ => set_tok e (c_token cfg) end.
Proof. exact sender_event. Qed.

Theorem C06_fields_untouched : forall cfg e,
  let e' := fst (bus_send (wire cfg) e) in
  ev_id e' = ev_id e /\ ev_cat e' = ev_cat e /\ ev_svc e' = ev_svc e.
Proof. exact fields_untouched. Qed.

(* non-vacuity: three channels (one with an unregistered type), filters with ^ssh$ / an
   absent list / a doubled name / an unknown name; events with matching, non-matching,
   missing and non-string fields and a forged token *)
Definition ex_ssh := [115; 115; 104]%N.
Definition ex_re_ssh := Cat Bol (Cat (Cat (Cat (Chr 115) (Chr 115)) (Chr 104)) Eol).
Definition ex_c1 := [99; 49]%N.  Definition ex_c2 := [99; 50]%N.  Definition ex_c3 := [99; 51]%N.
Definition ex_tok := [116; 107]%N.
Definition ex_cfg := mkCfg [mkCd ex_c1 true; mkCd ex_c2 true; mkCd ex_c3 false]
  [mkFlt [ex_c1] [] []; mkFlt [ex_c2; ex_c2; ex_c3; [120]%N] [] [ex_re_ssh]] ex_tok.
Definition ex_evs := [mkEv 0 (FStr ex_ssh) FMissing FMissing;
                      mkEv 1 (FStr (ex_ssh ++ [100]%N)) (FStr ex_ssh) (FStr [102]%N);
                      mkEv 2 FOther FMissing FOther].

Example C06_nonvacuous :
  received ex_cfg ex_evs ex_c1 = [(0, FStr ex_tok); (1, FStr ex_tok); (2, FStr ex_tok)]%N /\
  received ex_cfg ex_evs ex_c2 = [(0, FStr ex_tok); (0, FStr ex_tok)]%N /\
  received ex_cfg ex_evs ex_c3 = [] /\
  show_top ex_re_ssh = [94; 115; 115; 104; 36]%N /\
  post_tokens (wire ex_cfg) ex_evs = [FStr ex_tok; FStr ex_tok; FStr ex_tok] /\
  post_tokens (wire (prune ex_cfg ex_c2)) ex_evs = [FStr ex_tok; FStr [102]%N; FOther].
Proof. vm_compute. repeat split; reflexivity. Qed.

(* the matcher decides a declarative matching relation [M] (Proofs.v): continuation k is
   reached exactly at the end states of the ways expression r matches from state (b, s) *)
Theorem C06_matcher_spec : forall r b s k,
  mt r b s k = true <-> exists b' s', M r b s b' s' /\ k b' s' = true.
Proof. exact mt_spec. Qed.

(* MatchString semantics: unanchored - some piece of the text, after a prefix p, is matched;
   ^ holds only where p is empty, $ only where nothing of the text is left *)
Theorem C06_match_string_unanchored : forall r s,
  match_string r s = true <-> exists p q b' s', s = p ++ q /\ M r (is_nil p) q b' s'.
Proof. exact match_string_spec. Qed.

(* the empty expression and .* as a list element admit every value (also the empty string
   that stands for a missing / non-string field) *)
Theorem C06_empty_expression_matches_all : forall s,
  match_string Eps s = true /\ match_string (Star Any) s = true.
Proof. intros s; split; destruct s; reflexivity. Qed.

Example C06_matcher_examples :
  match_string ex_re_ssh ex_ssh = true /\ match_string ex_re_ssh (ex_ssh ++ [100]%N) = false /\
  match_string (Cat (Cat (Chr 115) (Chr 115)) (Chr 104)) ([120]%N ++ ex_ssh ++ [100]%N) = true /\
  match_string (Cat Bol Eol) [] = true /\ match_string (Cat Bol Eol) [97]%N = false /\
  match_string Any [10]%N = false /\ match_string (Cat (Chr 97) Bol) [97; 97]%N = false.
Proof. vm_compute. repeat split; reflexivity. Qed.

(* concurrent senders.  Every sender (goroutine) sends its own stream; the bus as a whole
   produces an interleaving L of the per-sender delivery sequences [run (wire cfg) stream_j]
   ([is_interleaving]: (sender, delivery) pairs whose projection on each sender is that
   sender's sequence - any schedule of subscriber calls).  Then, for every channel: *)
From Coq Require Import Permutation.

(* ... the deliveries of one sender arrive in that sender's sending order and are exactly
   what the channel receives from that stream alone (cross-sender order is unspecified) *)
Theorem C06_concurrent_sender_order : forall cfg streams L c j,
  is_interleaving (map (run (wire cfg)) streams) L ->
  (j < length streams)%nat ->
  on_chan c (proj j L) = received cfg (nth j streams []) c.
Proof. exact interleaving_sender_order. Qed.

(* ... and as a multiset the channel gets every event of every sender exactly copies-many
   times, with the token: nothing is lost or duplicated by overlapping Sends *)
Theorem C06_concurrent_multiset : forall cfg streams L c,
  is_interleaving (map (run (wire cfg)) streams) L ->
  Permutation (on_chan c (map snd L))
              (flat_map (fun e => repeat (ev_id e, FStr (c_token cfg)) (copies cfg c e)) (concat streams)).
Proof. exact interleaving_multiset. Qed.

(* non-vacuity: an interleaving of two senders' deliveries that is not a concatenation *)
Example C06_concurrent_nonvacuous :
  let s1 := [mkEv 100 (FStr ex_ssh) FMissing FMissing; mkEv 101 (FStr ex_ssh) FMissing FMissing] in
  let s2 := [mkEv 200 FMissing FMissing FMissing] in
  let d e := (ex_c1, (ev_id e, FStr ex_tok)) in
  let L := [(0%nat, d (mkEv 100 FMissing FMissing FMissing)); (1%nat, d (mkEv 200 FMissing FMissing FMissing));
            (0%nat, (ex_c2, (100%N, FStr ex_tok))); (0%nat, (ex_c2, (100%N, FStr ex_tok)));
            (0%nat, d (mkEv 101 FMissing FMissing FMissing));
            (0%nat, (ex_c2, (101%N, FStr ex_tok))); (0%nat, (ex_c2, (101%N, FStr ex_tok)))] in
  is_interleaving (map (run (wire ex_cfg)) [s1; s2]) L.
Proof.
  cbv zeta. split.
  - repeat constructor.
  - intros j Hj. cbn [length map] in Hj.
    destruct j as [|[|j]]; [vm_compute; reflexivity | vm_compute; reflexivity | lia].
Qed.

Print Assumptions C06_route_exact.
Print Assumptions C06_once_per_admitting_filter.
Print Assumptions C06_order_preserved.
Print Assumptions C06_delivery_sound.
Print Assumptions C06_route_no_other.
Print Assumptions C06_unconfigured_receives_nothing.
Print Assumptions C06_token_carried.
Print Assumptions C06_route_independent.
Print Assumptions C06_route_independent_of_other_filters.
Print Assumptions C06_same_view_same_reception.
Print Assumptions C06_admits_spec.
Print Assumptions C06_absent_list_admits_all.
Print Assumptions C06_missing_is_empty.
Print Assumptions C06_sender_event.
Print Assumptions C06_fields_untouched.
Print Assumptions C06_matcher_spec.
Print Assumptions C06_match_string_unanchored.
Print Assumptions C06_empty_expression_matches_all.
Print Assumptions C06_concurrent_sender_order.
Print Assumptions C06_concurrent_multiset.
