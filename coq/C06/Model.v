(* C06 - model of the event bus (pushers/eventbus/eventbus.go), the filter and token
   channels (pushers/filters.go), event.Get (event/map.go) and the channel/filter wiring
   loop of Run (server/honeytrap.go).  Executable definitions only.

   Regular expressions: the subset  literal | . | ^ | $ | concatenation | alternation |
   grouping | *  with Go's regexp.MatchString semantics: UNANCHORED search, '.' does not
   match '\n', '^' / '$' match only at the beginning / end of the text (no (?m) flag).
   Expressions are abstract syntax; [show_top] prints the expression string that is put
   into the configuration (the correspondence run checks that the string handed to the
   implementation is [show_top] of the tree and that Go's verdict equals [match_string]).
   Subjects are byte strings; the correspondence run uses ASCII only (Go matches runes). *)
From HT Require Import Common.Bytes.
Open Scope Z_scope.

Definition str := bytes.
Definition eqb_str := eqb_bytes.

Fixpoint mem_str (x : str) (l : list str) : bool :=
  match l with
  | [] => false
  | y :: r => if eqb_str x y then true else mem_str x r
  end.

Fixpoint count_str (x : str) (l : list str) : nat :=
  match l with
  | [] => O
  | y :: r => if eqb_str x y then S (count_str x r) else count_str x r
  end.

(* ------------------------------------------------------------------ *)
(* regular expressions                                                  *)
(* ------------------------------------------------------------------ *)
Inductive re :=
| Eps                      (* empty expression / empty group *)
| Chr (c : N)              (* one literal byte *)
| Any                      (* .  : any byte except 10 *)
| Bol                      (* ^  *)
| Eol                      (* $  *)
| Cat (a b : re)
| Alt (a b : re)
| Star (a : re).

Definition C_nl := 10%N.

(* state of a match attempt: [b] = nothing of the text lies before the current
   position (so ^ holds), [s] = the rest of the text.  Continuation-passing
   backtracking matcher; [k] is called on every way the expression can end. *)
Definition kont := bool -> str -> bool.

(* r* : zero iterations, or one iteration that consumes at least one byte followed by
   r* again (an iteration that consumes nothing leaves the state unchanged, so it is
   skipped); [n] bounds the number of iterations by the length of the rest. *)
Fixpoint star_loop (step : bool -> str -> kont -> bool) (k : kont) (n : nat) (b : bool) (s : str) : bool :=
  k b s ||
  match n with
  | O => false
  | S n' => step b s (fun b' s' => if Nat.ltb (length s') (length s) then star_loop step k n' b' s' else false)
  end.

Fixpoint mt (r : re) (b : bool) (s : str) (k : kont) {struct r} : bool :=
  match r with
  | Eps => k b s
  | Chr c => match s with
             | x :: s' => if (x =? c)%N then k false s' else false
             | [] => false
             end
  | Any => match s with
           | x :: s' => if (x =? C_nl)%N then false else k false s'
           | [] => false
           end
  | Bol => if b then k b s else false
  | Eol => match s with [] => k b s | _ :: _ => false end
  | Cat r1 r2 => mt r1 b s (fun b' s' => mt r2 b' s' k)
  | Alt r1 r2 => mt r1 b s k || mt r2 b s k
  | Star r1 => star_loop (mt r1) k (length s) b s
  end.

Definition k_true : kont := fun _ _ => true.

(* a match starting at the current position or at any later one *)
Fixpoint search_from (r : re) (b : bool) (s : str) : bool :=
  mt r b s k_true ||
  match s with
  | [] => false
  | _ :: s' => search_from r false s'
  end.

(* regexp.MustCompile(expr).MatchString(s) *)
Definition match_string (r : re) (s : str) : bool := search_from r true s.

(* --- printing (the expression string of the configuration) --- *)
Definition is_meta (c : N) : bool :=
  existsb (fun m => (m =? c)%N) [92; 46; 43; 42; 63; 40; 41; 124; 91; 93; 123; 125; 94; 36]%N.
    (* \ . + * ? ( ) | [ ] { } ^ $ *)

Definition paren (s : str) : str := (40 :: s ++ [41])%N.

(* lvl 0: alternation context, 1: concatenation context, 2: operand of '*' *)
Fixpoint show (lvl : nat) (r : re) : str :=
  match r with
  | Eps => [40; 41]%N
  | Chr c => if is_meta c then [92; c]%N else [c]
  | Any => [46]%N
  | Bol => if Nat.leb 2 lvl then [40; 94; 41]%N else [94]%N
  | Eol => if Nat.leb 2 lvl then [40; 36; 41]%N else [36]%N
  | Cat a b0 => let x := show 1 a ++ show 1 b0 in if Nat.leb 2 lvl then paren x else x
  | Alt a b0 => let x := show 0 a ++ [124]%N ++ show 0 b0 in if Nat.leb 1 lvl then paren x else x
  | Star a => let x := show 2 a ++ [42]%N in if Nat.leb 2 lvl then paren x else x
  end.

(* at top level the empty expression is the empty string *)
Definition show_top (r : re) : str := match r with Eps => [] | _ => show 0 r end.

(* ------------------------------------------------------------------ *)
(* events                                                               *)
(* ------------------------------------------------------------------ *)
(* value of a field of the event's key-value store, as event.Get sees it *)
Inductive fval :=
| FMissing                 (* key not present *)
| FStr (s : str)           (* a Go string *)
| FOther.                  (* any value that is not a Go string (int, []byte, nil, ...) *)

(* event.Get: "" unless the key is present and holds a string *)
Definition fget (v : fval) : str := match v with FStr s => s | _ => [] end.

Record event := mkEv {
  ev_id : N;               (* Custom("id", n): identifies the event *)
  ev_cat : fval;           (* "category" *)
  ev_svc : fval;           (* "service" *)
  ev_tok : fval            (* "token" *)
}.

(* event.Token(t)(e): e.Store("token", t) - the store is shared, so the sender's event
   and every later subscriber see the new value: state passing *)
Definition set_tok (e : event) (t : str) : event :=
  mkEv (ev_id e) (ev_cat e) (ev_svc e) (FStr t).

Inductive fld := FCategory | FService.
Definition field_of (f : fld) (e : event) : fval :=
  match f with FCategory => ev_cat e | FService => ev_svc e end.

(* ------------------------------------------------------------------ *)
(* channels (pushers/filters.go)                                        *)
(* ------------------------------------------------------------------ *)
(* RegexFilterFunc(field, exprs)(e): the loop returns true at the first expression that
   matches e.Get(field), false after the last *)
Fixpoint any_match (rs : list re) (v : str) : bool :=
  match rs with
  | [] => false
  | r :: rest => if match_string r v then true else any_match rest v
  end.

Inductive chan :=
| Sink (name : str)                              (* the configured backend (capture) channel *)
| TokenCh (tok : str) (c : chan)                 (* tokenChannel *)
| FilterCh (f : fld) (rs : list re) (c : chan).  (* filterChannel with a RegexFilterFunc *)

(* what a backend receives: (channel name, (event id, "token" field at delivery)) *)
Definition delivery := (str * (N * fval))%type.

Fixpoint chan_send (c : chan) (e : event) : event * list delivery :=
  match c with
  | Sink n => (e, [(n, (ev_id e, ev_tok e))])
  | TokenCh t c' => chan_send c' (set_tok e t)
  | FilterCh f rs c' =>
      if any_match rs (fget (field_of f e)) then chan_send c' e else (e, [])
  end.

(* EventBus.Send: every subscriber in subscription order, synchronously, same event *)
Fixpoint bus_send (subs : list chan) (e : event) : event * list delivery :=
  match subs with
  | [] => (e, [])
  | c :: rest =>
      let '(e1, d1) := chan_send c e in
      let '(e2, d2) := bus_send rest e1 in
      (e2, d1 ++ d2)
  end.

(* ------------------------------------------------------------------ *)
(* configuration and wiring (Run)                                       *)
(* ------------------------------------------------------------------ *)
(* a [channel.<name>] table; [cd_ok] = its type is set and registered (otherwise Run logs
   an error and the name is not entered into the channels map) *)
Record chandef := mkCd { cd_name : str; cd_ok : bool }.

(* a [[filter]] table; an absent list decodes to the empty list *)
Record flt := mkFlt { f_chans : list str; f_svcs : list re; f_cats : list re }.

Record config := mkCfg { c_defs : list chandef; c_filters : list flt; c_token : str }.

Definition configured (cfg : config) : list str :=
  map cd_name (filter cd_ok (c_defs cfg)).

(* the channel subscribed for one name of one filter *)
Definition build (tok : str) (name : str) (svcs cats : list re) : chan :=
  let c0 := TokenCh tok (Sink name) in
  let c1 := match cats with [] => c0 | _ :: _ => FilterCh FCategory cats c0 end in
  match svcs with [] => c1 | _ :: _ => FilterCh FService svcs c1 end.

Definition wire_filter (chs : list str) (tok : str) (f : flt) : list chan :=
  flat_map (fun name => if mem_str name chs then [build tok name (f_svcs f) (f_cats f)] else [])
           (f_chans f).

(* subscribers in subscription order (the BusChannel subscribed first forwards to the
   process-wide gobus and does not touch the event: left out) *)
Definition wire (cfg : config) : list chan :=
  flat_map (wire_filter (configured cfg) (c_token cfg)) (c_filters cfg).

(* a stream of events, each a fresh event object, sent one after the other *)
Definition run (subs : list chan) (evs : list event) : list delivery :=
  flat_map (fun e => snd (bus_send subs e)) evs.

(* the "token" field of each event object after its Send returned *)
Definition post_tokens (subs : list chan) (evs : list event) : list fval :=
  map (fun e => ev_tok (fst (bus_send subs e))) evs.

Definition on_chan (c : str) (ds : list delivery) : list (N * fval) :=
  map snd (filter (fun d => eqb_str (fst d) c) ds).

(* what channel [c] receives, in order *)
Definition received (cfg : config) (evs : list event) (c : str) : list (N * fval) :=
  on_chan c (run (wire cfg) evs).

(* ------------------------------------------------------------------ *)
(* specification                                                        *)
(* ------------------------------------------------------------------ *)
Definition is_nil {A} (l : list A) : bool := match l with [] => true | _ :: _ => false end.

(* a filter admits an event: any category expression matches the category and any
   service expression matches the service; an absent (empty) list admits everything *)
Definition admits (f : flt) (e : event) : bool :=
  (is_nil (f_cats f) || existsb (fun r => match_string r (fget (ev_cat e))) (f_cats f)) &&
  (is_nil (f_svcs f) || existsb (fun r => match_string r (fget (ev_svc e))) (f_svcs f)).

(* how often filter [f] names the configured channel [c] *)
Definition namings (cfg : config) (c : str) (f : flt) : nat :=
  if mem_str c (configured cfg) then count_str c (f_chans f) else O.

Fixpoint copies_in (cfg : config) (c : str) (fs : list flt) (e : event) : nat :=
  match fs with
  | [] => O
  | f :: rest => ((if admits f e then namings cfg c f else O) + copies_in cfg c rest e)%nat
  end.

(* number of copies of [e] that channel [c] must receive *)
Definition copies (cfg : config) (c : str) (e : event) : nat := copies_in cfg c (c_filters cfg) e.

Definition spec_received (cfg : config) (evs : list event) (c : str) : list (N * fval) :=
  flat_map (fun e => repeat (ev_id e, FStr (c_token cfg)) (copies cfg c e)) evs.

(* the view of channel [c]: only [c] itself and, in every filter, only the namings of [c] *)
Definition restrict (cfg : config) (c : str) : config :=
  mkCfg (filter (fun d => eqb_str c (cd_name d)) (c_defs cfg))
        (map (fun f => mkFlt (filter (eqb_str c) (f_chans f)) (f_svcs f) (f_cats f)) (c_filters cfg))
        (c_token cfg).

(* ... and without the filters that do not name [c] at all *)
Definition prune (cfg : config) (c : str) : config :=
  mkCfg (filter (fun d => eqb_str c (cd_name d)) (c_defs cfg))
        (filter (fun f => mem_str c (f_chans f)) (c_filters cfg))
        (c_token cfg).
