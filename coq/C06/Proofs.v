(* C06 - lemmas. *)
From HT Require Import Common.Bytes C06.Model.
From Coq Require Import ZifyBool ZifyN ZifyNat.
Open Scope Z_scope.

(* ---------------- strings ---------------- *)
Lemma eqb_str_true a b : eqb_str a b = true <-> a = b.
Proof. apply eqb_bytes_true. Qed.

Lemma eqb_str_refl a : eqb_str a a = true.
Proof. apply eqb_str_true; reflexivity. Qed.

Lemma eqb_str_sym a b : eqb_str a b = eqb_str b a.
Proof.
  destruct (eqb_str a b) eqn:E1, (eqb_str b a) eqn:E2; auto.
  - apply eqb_str_true in E1; subst; rewrite eqb_str_refl in E2; discriminate.
  - apply eqb_str_true in E2; subst; rewrite eqb_str_refl in E1; discriminate.
Qed.

Lemma mem_str_In x l : mem_str x l = true <-> In x l.
Proof.
  induction l as [|y l IH]; cbn [mem_str In]; [split; [discriminate|tauto]|].
  destruct (eqb_str x y) eqn:E.
  - apply eqb_str_true in E; subst; tauto.
  - rewrite IH; split; [tauto|]. intros [H|H]; auto. subst; rewrite eqb_str_refl in E; discriminate.
Qed.

Lemma count_str_pos x l : (0 < count_str x l)%nat <-> In x l.
Proof.
  induction l as [|y l IH]; cbn [count_str In]; [split; [lia|tauto]|].
  destruct (eqb_str x y) eqn:E.
  - apply eqb_str_true in E; subst; split; [auto|lia].
  - rewrite IH; split; [tauto|]. intros [H|H]; auto. subst; rewrite eqb_str_refl in E; discriminate.
Qed.

Lemma count_str_filter_self c l : count_str c (filter (eqb_str c) l) = count_str c l.
Proof.
  induction l as [|y l IH]; cbn [filter count_str]; auto.
  destruct (eqb_str c y) eqn:E; cbn [count_str]; rewrite ?E, IH; reflexivity.
Qed.

Lemma count_str_NoDup c l : NoDup l -> count_str c l = if mem_str c l then 1%nat else 0%nat.
Proof.
  induction 1 as [|y l Hn Hd IH]; cbn [count_str mem_str]; auto.
  destruct (eqb_str c y) eqn:E; auto.
  apply eqb_str_true in E; subst y. rewrite IH.
  destruct (mem_str c l) eqn:M; auto. apply mem_str_In in M; contradiction.
Qed.

(* ---------------- filters ---------------- *)
Lemma any_match_existsb rs v : any_match rs v = existsb (fun r => match_string r v) rs.
Proof. induction rs as [|r rs IH]; cbn [any_match existsb]; auto. destruct (match_string r v); auto. Qed.

Lemma admits_set_tok f e t : admits f (set_tok e t) = admits f e.
Proof. reflexivity. Qed.

Lemma set_tok_idem e t : set_tok (set_tok e t) t = set_tok e t.
Proof. reflexivity. Qed.

(* one subscribed channel: admitted => token stored, one delivery carrying it; refused => nothing *)
Lemma chan_send_build tok name f e :
  chan_send (build tok name (f_svcs f) (f_cats f)) e =
  if admits f e then (set_tok e tok, [(name, (ev_id e, FStr tok))]) else (e, []).
Proof.
  unfold build, admits.
  destruct (f_svcs f) as [|s ss] eqn:Es, (f_cats f) as [|c cs] eqn:Ec;
    cbn [chan_send is_nil orb andb field_of]; rewrite ?any_match_existsb.
  - reflexivity.
  - destruct (existsb _ (c :: cs)); reflexivity.
  - destruct (existsb _ (s :: ss)); reflexivity.
  - destruct (existsb _ (s :: ss)); destruct (existsb _ (c :: cs)); reflexivity.
Qed.

(* ---------------- wiring as a list of (channel name, filter) ---------------- *)
Definition pairs_of (chs : list str) (f : flt) : list (str * flt) :=
  map (fun n => (n, f)) (filter (fun n => mem_str n chs) (f_chans f)).

Definition mkchan (tok : str) (p : str * flt) : chan :=
  build tok (fst p) (f_svcs (snd p)) (f_cats (snd p)).

Definition wire_pairs (cfg : config) : list (str * flt) :=
  flat_map (pairs_of (configured cfg)) (c_filters cfg).

Lemma wire_filter_pairs chs tok f : wire_filter chs tok f = map (mkchan tok) (pairs_of chs f).
Proof.
  unfold wire_filter, pairs_of. induction (f_chans f) as [|n l IH]; cbn [flat_map filter map]; auto.
  destruct (mem_str n chs); cbn [app map]; rewrite IH; reflexivity.
Qed.

Lemma wire_pairs_eq cfg : wire cfg = map (mkchan (c_token cfg)) (wire_pairs cfg).
Proof.
  unfold wire, wire_pairs. induction (c_filters cfg) as [|f l IH]; cbn [flat_map map]; auto.
  rewrite map_app, IH, wire_filter_pairs; reflexivity.
Qed.

Definition deliv (tok : str) (e : event) (p : str * flt) : list delivery :=
  if admits (snd p) e then [(fst p, (ev_id e, FStr tok))] else [].

Lemma bus_send_pairs tok ps : forall e,
  bus_send (map (mkchan tok) ps) e =
  (if existsb (fun p => admits (snd p) e) ps then set_tok e tok else e, flat_map (deliv tok e) ps).
Proof.
  induction ps as [|p ps IH]; intro e; cbn [map bus_send existsb flat_map]; [reflexivity|].
  unfold mkchan at 1. rewrite chan_send_build. unfold deliv at 1.
  destruct (admits (snd p) e) eqn:A; rewrite IH; cbn [orb app].
  - f_equal. destruct (existsb _ ps); reflexivity.
  - reflexivity.
Qed.

(* ---------------- per-channel projection ---------------- *)
Lemma on_chan_app c a b : on_chan c (a ++ b) = on_chan c a ++ on_chan c b.
Proof. unfold on_chan. rewrite filter_app, map_app; reflexivity. Qed.

Lemma on_chan_flat_map {A} c (g : A -> list delivery) l :
  on_chan c (flat_map g l) = flat_map (fun x => on_chan c (g x)) l.
Proof. induction l as [|x l IH]; cbn [flat_map]; auto. rewrite on_chan_app, IH; reflexivity. Qed.

Definition count_adm (c : str) (e : event) (ps : list (str * flt)) : nat :=
  length (filter (fun p : str * flt => eqb_str (fst p) c && admits (snd p) e) ps).

Lemma count_adm_app c e a b : count_adm c e (a ++ b) = (count_adm c e a + count_adm c e b)%nat.
Proof. unfold count_adm. rewrite filter_app, app_length; reflexivity. Qed.

Lemma count_adm_cons c e p ps :
  count_adm c e (p :: ps) =
  ((if eqb_str (fst p) c && admits (snd p) e then 1 else 0) + count_adm c e ps)%nat.
Proof.
  unfold count_adm. cbn [filter].
  destruct (eqb_str (fst p) c && admits (snd p) e); reflexivity.
Qed.

Lemma on_chan_deliv tok c e ps :
  on_chan c (flat_map (deliv tok e) ps) = repeat (ev_id e, FStr tok) (count_adm c e ps).
Proof.
  induction ps as [|p ps IH]; cbn [flat_map]; [reflexivity|].
  rewrite on_chan_app, IH, count_adm_cons.
  unfold deliv, on_chan.
  destruct (admits (snd p) e); cbn [filter map fst snd app].
  - destruct (eqb_str (fst p) c); cbn [andb map snd app length repeat Nat.add]; reflexivity.
  - rewrite Bool.andb_false_r. reflexivity.
Qed.

Lemma count_adm_pairs_of chs f c e :
  count_adm c e (pairs_of chs f) =
  if admits f e then (if mem_str c chs then count_str c (f_chans f) else O) else O.
Proof.
  unfold pairs_of, count_adm. induction (f_chans f) as [|n l IH]; cbn [filter map count_str].
  - cbn. destruct (admits f e), (mem_str c chs); reflexivity.
  - destruct (mem_str n chs) eqn:M; cbn [map filter fst snd].
    + rewrite (eqb_str_sym c n). destruct (eqb_str n c) eqn:E; cbn [andb].
      * apply eqb_str_true in E; subst n. rewrite M in *.
        destruct (admits f e); cbn [length]; rewrite IH; reflexivity.
      * exact IH.
    + rewrite IH. rewrite (eqb_str_sym c n). destruct (eqb_str n c) eqn:E; auto.
      apply eqb_str_true in E; subst n. rewrite M. destruct (admits f e); reflexivity.
Qed.

Lemma count_adm_wire cfg c e : count_adm c e (wire_pairs cfg) = copies cfg c e.
Proof.
  unfold wire_pairs, copies, namings. induction (c_filters cfg) as [|f l IH]; cbn [flat_map copies_in]; [reflexivity|].
  rewrite count_adm_app, IH, count_adm_pairs_of. reflexivity.
Qed.

(* ---------------- the routing function ---------------- *)
Lemma bus_send_wire cfg e :
  bus_send (wire cfg) e =
  (if existsb (fun p => admits (snd p) e) (wire_pairs cfg) then set_tok e (c_token cfg) else e,
   flat_map (deliv (c_token cfg) e) (wire_pairs cfg)).
Proof. rewrite wire_pairs_eq. apply bus_send_pairs. Qed.

Lemma received_event cfg e c :
  on_chan c (snd (bus_send (wire cfg) e)) = repeat (ev_id e, FStr (c_token cfg)) (copies cfg c e).
Proof. rewrite bus_send_wire. cbn [snd]. rewrite on_chan_deliv, count_adm_wire. reflexivity. Qed.

Lemma route_exact cfg evs c : received cfg evs c = spec_received cfg evs c.
Proof.
  unfold received, run, spec_received. rewrite on_chan_flat_map.
  apply flat_map_ext. intro e. apply received_event.
Qed.

Lemma received_app cfg a b c : received cfg (a ++ b) c = received cfg a c ++ received cfg b c.
Proof. unfold received, run. rewrite flat_map_app, on_chan_app. reflexivity. Qed.

(* every delivery is accounted for *)
Lemma In_wire_pairs cfg n f :
  In (n, f) (wire_pairs cfg) <-> In f (c_filters cfg) /\ In n (f_chans f) /\ In n (configured cfg).
Proof.
  unfold wire_pairs. rewrite in_flat_map. split.
  - intros (g & Hg & Hin). unfold pairs_of in Hin. apply in_map_iff in Hin as (m & Hm & Hin).
    inversion Hm; subst. apply filter_In in Hin as [H1 H2]. apply mem_str_In in H2. auto.
  - intros (Hf & Hn & Hc). exists f; split; auto. unfold pairs_of. apply in_map_iff. exists n; split; auto.
    apply filter_In; split; auto. apply mem_str_In; auto.
Qed.

Lemma delivery_sound cfg evs n i t :
  In (n, (i, t)) (run (wire cfg) evs) ->
  In n (configured cfg) /\ t = FStr (c_token cfg) /\
  exists f e, In f (c_filters cfg) /\ In e evs /\ In n (f_chans f) /\ admits f e = true /\ ev_id e = i.
Proof.
  unfold run. rewrite in_flat_map. intros (e & He & Hin). rewrite bus_send_wire in Hin. cbn [snd] in Hin.
  apply in_flat_map in Hin as ([m f] & Hp & Hd). unfold deliv in Hd. cbn [fst snd] in Hd.
  destruct (admits f e) eqn:A; [|contradiction]. destruct Hd as [Hd|[]]. inversion Hd; subst.
  apply In_wire_pairs in Hp as (Hf & Hn & Hc). repeat split; auto. exists f, e; auto.
Qed.

Lemma copies_zero cfg c e :
  (forall f, In f (c_filters cfg) -> In c (f_chans f) -> In c (configured cfg) -> admits f e = false) ->
  copies cfg c e = O.
Proof.
  unfold copies. induction (c_filters cfg) as [|f l IH]; intros H; cbn [copies_in]; [reflexivity|].
  rewrite IH by (intros; apply H; cbn [In]; auto).
  destruct (admits f e) eqn:A; [|reflexivity]. unfold namings.
  destruct (mem_str c (configured cfg)) eqn:M; [|reflexivity]. apply mem_str_In in M.
  destruct (count_str c (f_chans f)) eqn:K; [reflexivity|].
  assert (In c (f_chans f)) by (apply count_str_pos; lia).
  rewrite H in A by (cbn [In]; auto). discriminate.
Qed.

Lemma route_no_other cfg evs c :
  (forall f e, In f (c_filters cfg) -> In e evs -> In c (f_chans f) -> In c (configured cfg) -> admits f e = false) ->
  received cfg evs c = [].
Proof.
  intros H. rewrite route_exact. unfold spec_received.
  induction evs as [|e evs IH]; cbn [flat_map]; [reflexivity|].
  rewrite copies_zero by (intros; apply (H f e); cbn [In]; auto). cbn [repeat app].
  apply IH. intros; apply (H f e0); cbn [In]; auto.
Qed.

(* ---------------- independence ---------------- *)
Lemma configured_restrict cfg c :
  mem_str c (configured (restrict cfg c)) = mem_str c (configured cfg).
Proof.
  unfold configured, restrict; cbn [c_defs]. induction (c_defs cfg) as [|d l IH]; cbn [filter map mem_str]; auto.
  destruct (eqb_str c (cd_name d)) eqn:E; cbn [filter].
  - destruct (cd_ok d); cbn [map mem_str]; rewrite ?E; auto.
  - destruct (cd_ok d); cbn [map mem_str]; rewrite ?E; auto.
Qed.

Lemma namings_restrict cfg c f :
  namings (restrict cfg c) c (mkFlt (filter (eqb_str c) (f_chans f)) (f_svcs f) (f_cats f)) = namings cfg c f.
Proof.
  unfold namings. rewrite configured_restrict. cbn [f_chans]. rewrite count_str_filter_self. reflexivity.
Qed.

Lemma copies_restrict cfg c e : copies (restrict cfg c) c e = copies cfg c e.
Proof.
  unfold copies. change (c_filters (restrict cfg c))
    with (map (fun f => mkFlt (filter (eqb_str c) (f_chans f)) (f_svcs f) (f_cats f)) (c_filters cfg)).
  generalize (c_filters cfg) as l. induction l as [|f l IH]; cbn [map copies_in]; [reflexivity|].
  rewrite IH, namings_restrict. reflexivity.
Qed.

Lemma route_independent cfg evs c : received cfg evs c = received (restrict cfg c) evs c.
Proof.
  rewrite !route_exact. unfold spec_received. apply flat_map_ext. intro e.
  rewrite copies_restrict. reflexivity.
Qed.

Lemma namings_prune cfg c f : namings (prune cfg c) c f = namings cfg c f.
Proof.
  unfold namings.
  change (configured (prune cfg c)) with (configured (restrict cfg c)).
  rewrite configured_restrict. reflexivity.
Qed.

Lemma copies_prune cfg c e : copies (prune cfg c) c e = copies cfg c e.
Proof.
  unfold copies. change (c_filters (prune cfg c))
    with (filter (fun f => mem_str c (f_chans f)) (c_filters cfg)).
  generalize (c_filters cfg) as l. induction l as [|f l IH]; cbn [filter copies_in]; [reflexivity|].
  destruct (mem_str c (f_chans f)) eqn:M; cbn [copies_in]; rewrite IH, ?namings_prune; [reflexivity|].
  unfold namings.
  assert (count_str c (f_chans f) = O) as ->.
  { destruct (count_str c (f_chans f)) eqn:K; auto.
    assert (In c (f_chans f)) by (apply count_str_pos; lia). apply mem_str_In in H. congruence. }
  destruct (admits f e), (mem_str c (configured cfg)); reflexivity.
Qed.

Lemma route_prune cfg evs c : received cfg evs c = received (prune cfg c) evs c.
Proof.
  rewrite !route_exact. unfold spec_received. apply flat_map_ext. intro e.
  rewrite copies_prune. reflexivity.
Qed.

(* ---------------- admits ---------------- *)
Lemma admits_spec f e :
  admits f e = true <->
  (f_cats f = [] \/ exists r, In r (f_cats f) /\ match_string r (fget (ev_cat e)) = true) /\
  (f_svcs f = [] \/ exists r, In r (f_svcs f) /\ match_string r (fget (ev_svc e)) = true).
Proof.
  unfold admits. rewrite Bool.andb_true_iff, !Bool.orb_true_iff, !existsb_exists.
  assert (forall (l : list re), is_nil l = true <-> l = []) as N
    by (intros [|? ?]; cbn; split; congruence).
  rewrite !N. tauto.
Qed.

(* the event object after Send *)
Lemma sender_event cfg e :
  fst (bus_send (wire cfg) e) =
  match snd (bus_send (wire cfg) e) with [] => e | _ :: _ => set_tok e (c_token cfg) end.
Proof.
  rewrite bus_send_wire. cbn [fst snd].
  induction (wire_pairs cfg) as [|p ps IH]; cbn [existsb flat_map]; [reflexivity|].
  unfold deliv at 1. destruct (admits (snd p) e); cbn [orb app]; auto.
Qed.

(* duplicate-free channel lists: one copy per admitting filter that names the channel *)
Lemma copies_NoDup cfg c e :
  (forall f, In f (c_filters cfg) -> NoDup (f_chans f)) ->
  mem_str c (configured cfg) = true ->
  copies cfg c e = length (filter (fun f => mem_str c (f_chans f) && admits f e) (c_filters cfg)).
Proof.
  intros Hnd Hc. unfold copies. revert Hnd. generalize (c_filters cfg) as l.
  induction l as [|f l IH]; intros Hnd; cbn [copies_in filter]; [reflexivity|].
  rewrite IH by (intros; apply Hnd; cbn [In]; auto).
  unfold namings. rewrite Hc, (count_str_NoDup c (f_chans f)) by (apply Hnd; cbn [In]; auto).
  destruct (mem_str c (f_chans f)), (admits f e); reflexivity.
Qed.

Lemma not_configured_nothing cfg evs c : mem_str c (configured cfg) = false -> received cfg evs c = [].
Proof.
  intros H. apply route_no_other. intros f e _ _ _ Hc. apply mem_str_In in Hc. congruence.
Qed.

Lemma token_carried cfg evs c i t : In (i, t) (received cfg evs c) -> t = FStr (c_token cfg).
Proof.
  rewrite route_exact. unfold spec_received. rewrite in_flat_map. intros (e & _ & H).
  apply repeat_spec in H. congruence.
Qed.

Lemma fields_untouched cfg e :
  let e' := fst (bus_send (wire cfg) e) in
  ev_id e' = ev_id e /\ ev_cat e' = ev_cat e /\ ev_svc e' = ev_svc e.
Proof.
  cbv zeta. rewrite sender_event. destruct (snd (bus_send (wire cfg) e)); cbn; auto.
Qed.

Lemma missing_is_empty f i v s t :
  v = FMissing \/ v = FOther ->
  admits f (mkEv i v s t) = admits f (mkEv i (FStr []) s t) /\
  admits f (mkEv i s v t) = admits f (mkEv i s (FStr []) t).
Proof. intros [-> | ->]; split; reflexivity. Qed.

(* ---------------- the matcher against a declarative matching relation ---------------- *)
(* [M r b s b' s']: expression r matches a piece of text starting in state (b, s) - b = the
   position is the beginning of the text, s = the rest of the text - and ending in (b', s') *)
Inductive M : re -> bool -> str -> bool -> str -> Prop :=
| M_eps b s : M Eps b s b s
| M_chr c b s : M (Chr c) b (c :: s) false s
| M_any x b s : x <> C_nl -> M Any b (x :: s) false s
| M_bol s : M Bol true s true s
| M_eol b : M Eol b [] b []
| M_cat r1 r2 b s b1 s1 b2 s2 : M r1 b s b1 s1 -> M r2 b1 s1 b2 s2 -> M (Cat r1 r2) b s b2 s2
| M_altl r1 r2 b s b' s' : M r1 b s b' s' -> M (Alt r1 r2) b s b' s'
| M_altr r1 r2 b s b' s' : M r2 b s b' s' -> M (Alt r1 r2) b s b' s'
| M_star0 r b s : M (Star r) b s b s
| M_star1 r b s b1 s1 b2 s2 : M r b s b1 s1 -> M (Star r) b1 s1 b2 s2 -> M (Star r) b s b2 s2.

Lemma M_suffix r b s b' s' :
  M r b s b' s' -> exists p, s = p ++ s' /\ b' = (if is_nil p then b else false).
Proof.
  induction 1.
  - exists []; auto.
  - exists [c]; auto.
  - exists [x]; auto.
  - exists []; auto.
  - exists []; auto.
  - destruct IHM1 as (p1 & -> & ->), IHM2 as (p2 & -> & ->).
    exists (p1 ++ p2). rewrite app_assoc. split; auto. destruct p1, p2; reflexivity.
  - assumption.
  - assumption.
  - exists []; auto.
  - destruct IHM1 as (p1 & -> & ->), IHM2 as (p2 & -> & ->).
    exists (p1 ++ p2). rewrite app_assoc. split; auto. destruct p1, p2; reflexivity.
Qed.

Lemma M_progress r b s b' s' :
  M r b s b' s' -> (length s' <= length s)%nat /\ (length s' = length s -> b' = b /\ s' = s).
Proof.
  intros H. apply M_suffix in H as (p & -> & ->). rewrite app_length. split; [lia|].
  intros L. destruct p as [|x p]; [auto|]. cbn [length] in L. lia.
Qed.

Lemma star_loop_sound (step : bool -> str -> kont -> bool) (R : bool -> str -> bool -> str -> Prop) k :
  (forall b s k', step b s k' = true -> exists b1 s1, R b s b1 s1 /\ k' b1 s1 = true) ->
  forall n b s, star_loop step k n b s = true ->
  exists bs : list (bool * str), True /\
    exists b' s', k b' s' = true /\
      (fix chain (l : list (bool * str)) (b0 : bool) (s0 : str) : Prop :=
         match l with
         | [] => b0 = b' /\ s0 = s'
         | (b1, s1) :: l' => R b0 s0 b1 s1 /\ chain l' b1 s1
         end) bs b s.
Proof.
  intros Hstep. induction n as [|n IH]; intros b s H; cbn [star_loop] in H; apply Bool.orb_true_iff in H as [H|H].
  - exists []; split; auto. exists b, s; auto.
  - discriminate.
  - exists []; split; auto. exists b, s; auto.
  - apply Hstep in H as (b1 & s1 & HR & Hk).
    destruct (Nat.ltb (length s1) (length s)); [|discriminate].
    apply IH in Hk as (bs & _ & b' & s' & Hk & Hc).
    exists ((b1, s1) :: bs); split; auto. exists b', s'; split; auto.
Qed.

Lemma mt_sound r : forall b s k, mt r b s k = true -> exists b' s', M r b s b' s' /\ k b' s' = true.
Proof.
  induction r as [| c | | | | r1 IH1 r2 IH2 | r1 IH1 r2 IH2 | r1 IH1]; intros b s k H; cbn [mt] in H.
  - exists b, s; split; [constructor|auto].
  - destruct s as [|x s]; [discriminate|]. destruct (x =? c)%N eqn:E; [|discriminate].
    apply N.eqb_eq in E; subst. exists false, s; split; [constructor|auto].
  - destruct s as [|x s]; [discriminate|]. destruct (x =? C_nl)%N eqn:E; [discriminate|].
    apply N.eqb_neq in E. exists false, s; split; [constructor; auto|auto].
  - destruct b; [|discriminate]. exists true, s; split; [constructor|auto].
  - destruct s; [|discriminate]. exists b, []; split; [constructor|auto].
  - apply IH1 in H as (b1 & s1 & H1 & H). apply IH2 in H as (b2 & s2 & H2 & H).
    exists b2, s2; split; [econstructor; eauto|auto].
  - apply Bool.orb_true_iff in H as [H|H].
    + apply IH1 in H as (b' & s' & H1 & H). exists b', s'; split; [apply M_altl; auto|auto].
    + apply IH2 in H as (b' & s' & H1 & H). exists b', s'; split; [apply M_altr; auto|auto].
  - apply (star_loop_sound (mt r1) (M r1) k IH1) in H as (bs & _ & b' & s' & Hk & Hc).
    exists b', s'; split; auto. clear Hk. revert b s Hc.
    induction bs as [|[b1 s1] bs IHb]; intros b s Hc.
    + destruct Hc; subst. constructor.
    + destruct Hc as [HR Hc]. eapply M_star1; eauto.
Qed.

Lemma star_loop_zero step k n b s : k b s = true -> star_loop step k n b s = true.
Proof. intros H. destruct n; cbn [star_loop]; rewrite H; reflexivity. Qed.

Lemma mt_complete_aux r b s b' s' :
  M r b s b' s' -> forall k, k b' s' = true ->
  mt r b s k = true /\
  match r with
  | Star r1 => forall n, (length s <= n)%nat -> star_loop (mt r1) k n b s = true
  | _ => True
  end.
Proof.
  induction 1; intros k Hk.
  - split; auto.
  - cbn [mt]. rewrite N.eqb_refl. auto.
  - cbn [mt]. apply N.eqb_neq in H. rewrite H. auto.
  - split; auto.
  - split; auto.
  - split; auto. cbn [mt]. apply IHM1. apply IHM2. assumption.
  - split; auto. cbn [mt]. apply Bool.orb_true_iff; left. apply IHM; assumption.
  - split; auto. cbn [mt]. apply Bool.orb_true_iff; right. apply IHM; assumption.
  - cbn [mt]. split; [|intros n _]; apply star_loop_zero; assumption.
  - assert (forall n, (length s <= n)%nat -> star_loop (mt r) k n b s = true) as G.
    { intros n Hn. destruct (M_progress _ _ _ _ _ H) as [Hle Heq].
      destruct (Nat.eq_dec (length s1) (length s)) as [E|E].
      - destruct (Heq E) as [-> ->]. apply (IHM2 k Hk). assumption.
      - destruct n as [|n]; [lia|]. cbn [star_loop]. apply Bool.orb_true_iff; right.
        apply IHM1. assert (Nat.ltb (length s1) (length s) = true) as -> by (apply Nat.ltb_lt; lia).
        apply (IHM2 k Hk). lia. }
    split; [cbn [mt]; apply G; lia | exact G].
Qed.

Lemma mt_spec r b s k :
  mt r b s k = true <-> exists b' s', M r b s b' s' /\ k b' s' = true.
Proof.
  split; [apply mt_sound|]. intros (b' & s' & H & Hk). apply (mt_complete_aux _ _ _ _ _ H k Hk).
Qed.

Lemma search_from_spec r : forall s b,
  search_from r b s = true <->
  exists p q b' s', s = p ++ q /\ M r (if is_nil p then b else false) q b' s'.
Proof.
  induction s as [|x s IH]; intros b; cbn [search_from]; rewrite Bool.orb_true_iff, mt_spec.
  - split.
    + intros [(b' & s' & H & _) | H]; [|discriminate]. exists [], [], b', s'; auto.
    + intros (p & q & b' & s' & E & H). left. destruct p; [|discriminate]. cbn in E; subst q.
      exists b', s'; auto.
  - rewrite IH. split.
    + intros [(b' & s' & H & _) | (p & q & b' & s' & -> & H)].
      * exists [], (x :: s), b', s'; auto.
      * exists (x :: p), q, b', s'; split; auto. destruct p; exact H.
    + intros (p & q & b' & s' & E & H). destruct p as [|y p].
      * left. cbn in E; subst q. exists b', s'; auto.
      * right. cbn in E. inversion E; subst. exists p, q, b', s'; split; auto. destruct p; exact H.
Qed.

(* unanchored: some piece p ++ [m] ++ q of the text is matched; ^ holds only if p is empty,
   $ only at the end of the text *)
Lemma match_string_spec r s :
  match_string r s = true <-> exists p q b' s', s = p ++ q /\ M r (is_nil p) q b' s'.
Proof.
  unfold match_string. rewrite search_from_spec. split; intros (p & q & b' & s' & E & H); exists p, q, b', s'; split; auto;
    destruct p; exact H.
Qed.

(* ---------------- concurrent senders ---------------- *)
(* Each sender is a goroutine sending its own stream; every event is its own object and the
   subscribed channels keep no state, so what sender j's Sends deliver is [run subs stream_j]
   whatever the others do, and the bus as a whole produces some interleaving of these
   per-sender delivery sequences (at the granularity of one subscriber call).  An
   interleaving is a sequence of (sender, delivery) whose projection on every sender is
   that sender's sequence. *)
From Coq Require Import Permutation.

Definition proj {A} (j : nat) (l : list (nat * A)) : list A :=
  map snd (filter (fun p => Nat.eqb (fst p) j) l).

Definition is_interleaving {A} (seqs : list (list A)) (L : list (nat * A)) : Prop :=
  Forall (fun p => (fst p < length seqs)%nat) L /\
  forall j, (j < length seqs)%nat -> proj j L = nth j seqs [].

Lemma perm_filter_split {A} (f : A -> bool) l :
  Permutation l (filter f l ++ filter (fun x => negb (f x)) l).
Proof.
  induction l as [|x l IH]; cbn [filter]; [constructor|].
  destruct (f x); cbn [negb app].
  - constructor; exact IH.
  - apply Permutation_cons_app; exact IH.
Qed.

Lemma perm_filter {A} (f : A -> bool) l l' : Permutation l l' -> Permutation (filter f l) (filter f l').
Proof.
  induction 1; cbn [filter].
  - constructor.
  - destruct (f x); [constructor|]; assumption.
  - destruct (f x), (f y); try constructor; apply Permutation_refl.
  - eapply Permutation_trans; eassumption.
Qed.

Lemma proj_filter_other {A} j K (l : list (nat * A)) :
  j <> K -> proj j (filter (fun p => negb (Nat.eqb (fst p) K)) l) = proj j l.
Proof.
  intros N. unfold proj. induction l as [|p l IH]; cbn [filter]; [reflexivity|].
  destruct (Nat.eqb (fst p) K) eqn:E1; cbn [negb filter].
  - apply Nat.eqb_eq in E1. destruct (Nat.eqb (fst p) j) eqn:E2; [apply Nat.eqb_eq in E2; lia|]. exact IH.
  - destruct (Nat.eqb (fst p) j); cbn [map]; rewrite IH; reflexivity.
Qed.

Lemma tagged_perm {A} K : forall (l : list (nat * A)),
  Forall (fun p => (fst p < K)%nat) l ->
  Permutation (map snd l) (concat (map (fun j => proj j l) (seq 0 K))).
Proof.
  induction K as [|K IH]; intros l H.
  - destruct l as [|p l]; [constructor|]. inversion H; lia.
  - rewrite seq_S, map_app, concat_app. cbn [map concat plus]. rewrite app_nil_r.
    set (l' := filter (fun p => negb (Nat.eqb (fst p) K)) l).
    assert (Forall (fun p => (fst p < K)%nat) l') as H'.
    { apply Forall_forall. intros p Hp. apply filter_In in Hp as [Hp Hn].
      rewrite Forall_forall in H. specialize (H p Hp). apply Bool.negb_true_iff, Nat.eqb_neq in Hn. lia. }
    eapply Permutation_trans.
    { apply Permutation_map. apply (perm_filter_split (fun p => negb (Nat.eqb (fst p) K))). }
    rewrite map_app. apply Permutation_app.
    + eapply Permutation_trans; [apply (IH l' H')|].
      erewrite map_ext_in; [apply Permutation_refl|].
      intros j Hj. apply in_seq in Hj. apply proj_filter_other. lia.
    + unfold proj. erewrite filter_ext; [apply Permutation_refl|].
      intros p. cbn. apply Bool.negb_involutive.
Qed.

Lemma map_nth_seq {A} (d : A) l : map (fun j => nth j l d) (seq 0 (length l)) = l.
Proof.
  induction l as [|x l IH]; cbn [length seq map nth]; [reflexivity|].
  f_equal. rewrite <- seq_shift, map_map. exact IH.
Qed.

Lemma interleaving_perm {A} (seqs : list (list A)) L :
  is_interleaving seqs L -> Permutation (map snd L) (concat seqs).
Proof.
  intros [Ht Hp]. eapply Permutation_trans; [apply tagged_perm; exact Ht|].
  erewrite map_ext_in; [rewrite map_nth_seq; apply Permutation_refl|].
  intros j Hj. apply in_seq in Hj. apply Hp. lia.
Qed.

Lemma run_concat subs streams : run subs (concat streams) = concat (map (run subs) streams).
Proof.
  unfold run. induction streams as [|s l IH]; cbn [concat map]; [reflexivity|].
  rewrite flat_map_app, IH. reflexivity.
Qed.

(* per sender: what channel c saw of sender j, in arrival order, is exactly what c receives
   from sender j's stream alone - its own events never overtake each other *)
Lemma interleaving_sender_order cfg streams L c j :
  is_interleaving (map (run (wire cfg)) streams) L ->
  (j < length streams)%nat ->
  on_chan c (proj j L) = received cfg (nth j streams []) c.
Proof.
  intros [_ Hp] Hj. rewrite Hp by (rewrite map_length; exact Hj).
  change (@nil delivery) with (run (wire cfg) []). rewrite map_nth. reflexivity.
Qed.

(* as a multiset: what channel c saw of all senders together is what it would receive from
   all their events sent one after the other - every event exactly copies-many times *)
Lemma interleaving_multiset cfg streams L c :
  is_interleaving (map (run (wire cfg)) streams) L ->
  Permutation (on_chan c (map snd L)) (spec_received cfg (concat streams) c).
Proof.
  intros H. rewrite <- route_exact. unfold received. rewrite run_concat.
  unfold on_chan. apply Permutation_map, perm_filter, interleaving_perm, H.
Qed.
