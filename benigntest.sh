#!/bin/sh
# usage: ./benigntest.sh <label> <patch.diff> <Cxx> [<Cyy> ...]
# A behaviour-preserving rewrite of /repo must leave every check silent: the patch is applied to a
# scratch worktree (never /repo), each named quick check is run against it with VERIF_REPO, and the
# verdict lines are appended to results/benign-<label>.txt. Exit 1 if any check raised an alarm.
L=$1; D=$(realpath "$2"); shift 2
W=/tmp/alt-benign-$L-$$
git -C /repo worktree add --detach "$W" HEAD >/dev/null 2>&1 || { echo "cannot create worktree"; exit 2; }
git -C "$W" apply "$D" || { echo "PATCH DOES NOT APPLY"; git -C /repo worktree remove --force "$W"; exit 2; }
OUT=results/benign-$L.txt; rc=0
{ echo "# benign rewrite $L: $(grep '^+++ ' "$D" | sed 's/+++ b\///' | tr '\n' ' ')"; } > "$OUT"
for P in "$@"; do
  VERIF_REPO="$W" ./check "$P" > /tmp/benign-$L-$P.log 2>&1; r=$?
  grep -E '^(VIOLATION|KNOWN-FINDING|C[0-9]+ tier)' /tmp/benign-$L-$P.log | cut -c1-220 >> "$OUT"
  echo "$P exit=$r" >> "$OUT"; [ $r -ne 0 ] && rc=1
done
git -C /repo worktree remove --force "$W"
rm -rf /verif/work/alt-$(printf %s "$W" | sha1sum | cut -c1-10)
cat "$OUT"; exit $rc
