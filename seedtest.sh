#!/bin/sh
# usage: ./seedtest.sh <Cxx> <patch.diff> [check args]
# Try a check against a seeded change WITHOUT touching /repo: scratch worktree of /repo's HEAD
# (+ its uncommitted changes are NOT included), patch applied there, check run with VERIF_REPO
# pointing at it (own work/evidence/replay directories under work/alt-*), worktree removed.
P=$1; D=$(realpath "$2"); shift 2
W=/tmp/alt-$P-$$
git -C /repo worktree add --detach "$W" HEAD >/dev/null 2>&1 || { echo "cannot create worktree"; exit 2; }
git -C "$W" apply "$D" || { echo "PATCH DOES NOT APPLY"; git -C /repo worktree remove --force "$W"; exit 2; }
VERIF_REPO="$W" ./check "$P" "$@"; rc=$?
git -C /repo worktree remove --force "$W"
A=/verif/work/alt-$(printf %s "$W" | sha1sum | cut -c1-10)
mkdir -p /verif/work/seedreplay; cp "$A"/replay/*.json /verif/work/seedreplay/ 2>/dev/null; cp "$A/evidence/$P.json" "/verif/work/seedreplay/evidence-$P.json" 2>/dev/null
rm -rf "$A"
echo "check exit=$rc"
