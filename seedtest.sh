#!/bin/sh
# usage: ./seedtest.sh <Cxx> <patch.diff>  -- apply a seeded change to /repo, run the quick check, undo it
P=$1; D=$2
git -C /repo status --short | grep -v '^??' | head -3
git -C /repo apply "$D" || { echo "PATCH DOES NOT APPLY"; exit 2; }
./check $P --tier quick; rc=$?
git -C /repo checkout -- . 
echo "check exit=$rc"
