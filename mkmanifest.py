#!/usr/bin/env python3
"""Regenerate MANIFEST.json from props/*.json (run after adding/changing a property config)."""
import json, os, glob
ROOT = os.path.dirname(os.path.abspath(__file__))
ids = [json.loads(l)["id"] for l in open(os.path.join(ROOT, "properties.jsonl"))]
checks, na = [], []
pending = json.load(open(os.path.join(ROOT, "props", "_pending.json"))) if os.path.exists(os.path.join(ROOT, "props", "_pending.json")) else {}
for pid in ids:
    p = os.path.join(ROOT, "props", pid + ".json")
    if not os.path.exists(p):
        na.append(dict(property_id=pid, reason=pending.get(pid, "check not built yet (planned, DESIGN.md section 6 %s); not claimed until its proof and correspondence run" % pid)))
        continue
    c = json.load(open(p))
    checks.append(dict(
        property_id=pid,
        quick_cmd="./check %s --tier quick" % pid,
        thorough_cmd="./check %s --tier thorough" % pid,
        evidence_file="/verif/evidence/%s.json" % pid,
        replay_cmd_template="./check %s --replay {path}" % pid,
        engine="coq-proof+correspondence",
        level_claimed=dict(category="proof", text=c["level_text"], design_ref=c.get("design_ref", "DESIGN.md section 6 " + pid)),
        level_note=c["level_note"],
        technique=c.get("technique", "Coq 8.16 theorems over an executable Gallina model; model tied to /repo by a differential correspondence run (vm_compute) on every check")))
hooks = [l.strip() for l in open(os.path.join(ROOT, "MANIFEST.hooks")) if l.strip() and not l.startswith("#")] if os.path.exists(os.path.join(ROOT, "MANIFEST.hooks")) else []
m = dict(
    version=1,
    setup_cmd="./setup.sh",
    hooks=dict(guard="verif", enable="go build -tags verif (harness module replaces github.com/honeytrap/honeytrap => /repo)",
               baseline_off_cmd="cd /repo && GOFLAGS=-mod=mod GOPROXY=off GOSUMDB=off go test -vet=off -count=1 -timeout 25m ./...",
               source_commits=[h.split()[0] for h in hooks], add_only=True),
    engines=[dict(name="coq-proof+correspondence", path="/verif/check",
                  serves_properties=[c["property_id"] for c in checks],
                  kind_free_text="Coq 8.16.1 development under /verif/coq (hand-written executable models, theorems per property in Cxx/Properties.v, Print Assumptions parsed on every run); Go harness under /verif/harness runs the real code on generated inputs and writes case files that coqc evaluates (model vs implementation, and the executable property prop_b on the implementation's own observations); factgen regenerates coq/Gen/*.v from the Go source")],
    checks=checks,
    notes="All checks: ./check <id> [--tier quick|thorough] [--replay file]. known_findings.json lists recorded/fixed defects. See DESIGN.md.",
    not_applicable=na)
json.dump(m, open(os.path.join(ROOT, "MANIFEST.json"), "w"), indent=1)
print("checks:", [c["property_id"] for c in checks], "not claimed:", [n["property_id"] for n in na])
