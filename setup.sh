#!/bin/sh
# setup_cmd: build everything from files on disk (offline).
set -e
cd "$(dirname "$0")"
export GOFLAGS=-mod=mod GOPROXY=off GOSUMDB=off GOTOOLCHAIN=local CGO_ENABLED=0
mkdir -p work/bin evidence replay coq/Gen coq/Run
[ -f /repo/go.sum ] && cp /repo/go.sum harness/go.sum
python3 - <<'PY'
import importlib.machinery, importlib.util, os, sys
here = os.getcwd()
loader = importlib.machinery.SourceFileLoader("vcheck", os.path.join(here, "check"))
spec = importlib.util.spec_from_loader("vcheck", loader); m = importlib.util.module_from_spec(spec); loader.exec_module(m)
log = []
print("factgen:", m.run_factgen(log)); print("\n".join(log))
m.ensure_makefile()
PY
(cd coq && timeout 3000 make -j16 2>&1 | tail -5)
for d in harness/cmd/*/; do n=$(basename "$d"); (cd harness && go build -tags verif -o ../work/bin/$n ./cmd/$n) || echo "harness $n failed to build"; done
echo setup done
