#!/usr/bin/env python3
"""confirm_seed.py <prop> <k> <srcdir> : confirm a seeded change in a scratch worktree of /repo and
store it under /verif/seeded/<prop>-<k>/ (patch.diff, demo, meta.json)."""
import sys, os, re, subprocess, json, shutil
prop, k, src = sys.argv[1], sys.argv[2], sys.argv[3].rstrip("/")
env = dict(os.environ, GOFLAGS="-mod=mod", GOPROXY="off", GOSUMDB="off", GOTOOLCHAIN="local")
wt = "/tmp/seedconfirm-%s-%s" % (prop, k)
def sh(cmd, cwd=None, timeout=2400):
    p = subprocess.run(cmd, shell=True, cwd=cwd, env=env, stdout=subprocess.PIPE, stderr=subprocess.STDOUT, timeout=timeout)
    return p.returncode, p.stdout.decode("utf-8", "replace")
subprocess.run("git -C /repo worktree remove --force %s 2>/dev/null; git -C /repo worktree add -q --detach %s HEAD" % (wt, wt), shell=True, check=True)
try:
    demo = [f for f in os.listdir(src) if f.startswith("demo")][0]
    head = "".join(open(os.path.join(src, demo)).readlines()[:8])
    dest = re.search(r"(?:Copy to|Destination:)\s*(\S+)", head).group(1).rstrip(";,.:")
    dest = re.sub(r"^/tmp/seed/[^/]+/", "", dest)   # some seeders name the path inside their own worktree
    run = re.search(r"(go test [^\n(]*)", head).group(1).strip()
    patch = os.path.join(src, "patch.diff")
    pkgs = sorted({"./" + os.path.dirname(m) for m in re.findall(r"^\+\+\+ b/(\S+)", open(patch).read(), re.M)})
    res = {}
    shutil.copy(os.path.join(src, demo), os.path.join(wt, dest))
    res["demo_on_clean"] = sh(run, wt)
    os.remove(os.path.join(wt, dest))
    rc, out = sh("git apply %s" % patch, wt)
    assert rc == 0, "patch does not apply: " + out
    res["build"] = sh("go build ./...", wt)
    # one test of the vendored tls package hangs on the unchanged tree (and three fail there): skip the
    # hanging one, judge the rest by the pinned baseline below
    skip = " -skip TestHandshakeServerECDHEECDSAAES -timeout 300s" if any("ja3" in p_ for p_ in pkgs) else " -timeout 20m"
    res["existing_tests"] = sh("go test -vet=off -count=1%s %s" % (skip, " ".join(pkgs)), wt)
    if res["existing_tests"][0] != 0:
        # a package whose own tests fail on the unchanged tree too (services/ja3/crypto/tls): what
        # counts is the pinned baseline - every test BASELINE.json lists as stable for the touched
        # packages must still pass
        stable = set(json.load(open("/root/.vp/BASELINE.json"))["stable_pass"])
        rc, out = sh("go test -json -vet=off -count=1%s %s" % (skip, " ".join(pkgs)), wt)
        passed, mods = set(), set()
        for line in out.split("\n"):
            try: ev = json.loads(line)
            except Exception: continue
            if ev.get("Package"): mods.add(ev["Package"])
            if ev.get("Action") == "pass" and ev.get("Test"):
                passed.add(ev["Package"] + "::" + ev["Test"])
        missing = sorted(t for t in stable if t.split("::")[0] in mods and t not in passed and "TestHandshakeServerECDHEECDSAAES" not in t)
        res["existing_tests"] = (0 if not missing else 1,
                                 "pinned stable tests of the touched packages: %d missing %s" % (len(missing), missing[:5]))
    shutil.copy(os.path.join(src, demo), os.path.join(wt, dest))
    res["demo_on_changed"] = sh(run, wt)
    ok = (res["demo_on_clean"][0] == 0 and res["build"][0] == 0 and res["existing_tests"][0] == 0 and res["demo_on_changed"][0] != 0)
    for n, (rc, out) in res.items():
        print("%-16s rc=%d %s" % (n, rc, out.strip().split("\n")[-1][:150]))
    print("CONFIRMED" if ok else "NOT CONFIRMED")
    if ok:
        dst = "/verif/seeded/%s-%s" % (prop, k)
        os.makedirs(dst, exist_ok=True)
        shutil.copy(patch, dst); shutil.copy(os.path.join(src, demo), dst)
        if os.path.exists(os.path.join(src, "notes.md")):
            shutil.copy(os.path.join(src, "notes.md"), dst)
        notes = open(os.path.join(src, "notes.md")).read() if os.path.exists(os.path.join(src, "notes.md")) else ""
        json.dump(dict(property=prop, seed=k, base_commit=subprocess.check_output("git -C /repo rev-parse HEAD", shell=True).decode().strip(),
                       files=pkgs, demo_destination=dest, demo_command=run,
                       needs_to_manifest=(re.search(r"(?is)(needs|trigger)[^\n]*\n(.{0,600})", notes) or [None, None, ""])[2].strip()[:600] if notes else "",
                       confirmed=dict(demo_on_clean_tree="pass", build="ok", existing_tests_of_touched_packages="pass", demo_on_changed_tree="fail"),
                       commands=["git apply patch.diff", "go build ./...", "go test -vet=off -count=1 " + " ".join(pkgs), run],
                       detected_by=None), open(os.path.join(dst, "meta.json"), "w"), indent=1)
finally:
    subprocess.run("git -C /repo worktree remove --force %s" % wt, shell=True)
