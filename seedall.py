#!/usr/bin/env python3
"""seedall.py <prop> <outdir> <label> [check-prop ...]: for every numbered change under outdir: confirm it
(confirm_seed.py, stored as seeded/<prop>-<label><k>), apply it in a scratch worktree (VERIF_REPO), run the quick check(s),
and record whether it was detected in meta.json."""
import sys, os, subprocess, json, re
prop, outdir, label = sys.argv[1], sys.argv[2].rstrip("/"), sys.argv[3]
checks = sys.argv[4:] or [prop]
ROOT = os.path.dirname(os.path.abspath(__file__))
for k in sorted(d for d in os.listdir(outdir) if d.isdigit()):
    src = os.path.join(outdir, k)
    if not os.path.exists(os.path.join(src, "patch.diff")):
        continue
    sid = "%s%s" % (label, k)
    out = subprocess.run([os.path.join(ROOT, "confirm_seed.py"), prop, sid, src], stdout=subprocess.PIPE, stderr=subprocess.STDOUT).stdout.decode()
    confirmed = "\nCONFIRMED" in "\n" + out
    print("%s-%s: %s" % (prop, sid, "CONFIRMED" if confirmed else "NOT CONFIRMED\n" + out[-600:]))
    res = []
    wt = "/tmp/alt-%s-%s-%d" % (prop, sid, os.getpid())
    subprocess.call(["git", "-C", "/repo", "worktree", "add", "--detach", wt, "HEAD"], stdout=subprocess.DEVNULL, stderr=subprocess.DEVNULL)
    try:
        if subprocess.call(["git", "-C", wt, "apply", os.path.join(src, "patch.diff")]) != 0:
            print("  patch does not apply"); continue
        for c in checks:
            p = subprocess.run([os.path.join(ROOT, "check"), c], cwd=ROOT, stdout=subprocess.PIPE, stderr=subprocess.STDOUT,
                               env=dict(os.environ, VERIF_REPO=wt))
            lines = p.stdout.decode().strip().split("\n")
            v = [l for l in lines if l.startswith("VIOLATION")]
            res.append((c, p.returncode, (v[0] if v else ""), lines[-1]))
            print("  check %s: exit %d %s | %s" % (c, p.returncode, (v[0][:110] if v else ""), lines[-1][-100:]))
    finally:
        subprocess.call(["git", "-C", "/repo", "worktree", "remove", "--force", wt])
    mp = os.path.join(ROOT, "seeded", "%s-%s" % (prop, sid), "meta.json")
    if os.path.exists(mp):
        m = json.load(open(mp))
        det = [r for r in res if r[1] != 0]
        if det:
            sig = ""
            rp = re.search(r"replay=(\S+)", det[0][2])
            if rp and os.path.exists(rp.group(1)):
                try: sig = json.load(open(rp.group(1))).get("signature", "")
                except Exception: pass
            m["detected_by"] = "quick: ./check %s -> %s %s" % (det[0][0], "VIOLATION" + (" (no-failing-input-found)" if "no-failing-input-found" in det[0][2] else ""), sig)
        else:
            m["detected_by"] = "MISSED by quick: " + ", ".join(c for c, _, _, _ in res)
        json.dump(m, open(mp, "w"), indent=1)
    import hashlib, shutil
    shutil.rmtree(os.path.join(ROOT, "work", "alt-" + hashlib.sha1(wt.encode()).hexdigest()[:10]), ignore_errors=True)
