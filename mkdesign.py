#!/usr/bin/env python3
"""Regenerate the generated tables of DESIGN.md (between <!-- GEN:x --> markers) from props/, seeded/, known_findings.json, evidence/."""
import json, os, glob, re
ROOT = os.path.dirname(os.path.abspath(__file__))
def load(p, d=None):
    try: return json.load(open(p))
    except Exception: return d
rows = ["| id | theorems (discharged) | quick cases / non-trivial | quick wall s | parts and signatures |", "|---|---|---|---|---|"]
for pf in sorted(glob.glob(os.path.join(ROOT, "props", "C??.json"))):
    c = load(pf); pid = c["id"]; ev = load(os.path.join(ROOT, "evidence", pid + ".json"), {})
    cov = ev.get("coverage", {})
    sigs = "; ".join("%s: %s" % (part, ", ".join(v.get("sig_names", {}).values())) for part, v in c.get("parts", {}).items())
    rows.append("| %s | %s/%s | %s / %s | %s | %s |" % (pid, cov.get("discharged", "?"), cov.get("obligations", "?"), cov.get("evaluations", "?"), cov.get("distinct_nontrivial", "?"), ev.get("wall_s", "?"), sigs[:400]))
status = "\n".join(rows)
kf = load(os.path.join(ROOT, "known_findings.json"), {"findings": []})["findings"]
for p in sorted(glob.glob(os.path.join(ROOT, "props", "*.known.json"))):
    kf += load(p, {"findings": []})["findings"]
frows = ["| property | status | commit | signature | what |", "|---|---|---|---|---|"]
for f in kf:
    frows.append("| %s | %s | %s | `%s` | %s |" % (f.get("property"), f.get("status", "known"), f.get("commit", ""), f.get("signature"), f.get("what", "").replace("|", "/")[:300]))
findings = "\n".join(frows)
srows = ["| seed | property | files | needs to manifest | detected by | last sweep |", "|---|---|---|---|---|---|"]
for m in sorted(glob.glob(os.path.join(ROOT, "seeded", "*", "meta.json"))):
    d = load(m)
    ls = d.get("last_sweep") or {}
    sweep = ("%s@%s: %s %s" % (ls.get("check", ""), ls.get("repo_head", ""), ls.get("result", ""), ls.get("signature", ""))) if ls else ""
    det = d.get("detected_by") or "not yet run"
    if d.get("obsolete"):
        det = "OBSOLETE: " + d["obsolete"][:260]
    srows.append("| %s | %s | %s | %s | %s | %s |" % (os.path.basename(os.path.dirname(m)), d.get("property"), " ".join(d.get("files", [])), (d.get("needs_to_manifest") or "").replace("\n", " ").replace("|", "/")[:220], det.replace("|", "/"), sweep))
seeds = "\n".join(srows)
lrows = []
for pf in sorted(glob.glob(os.path.join(ROOT, "props", "C??.json"))):
    c = load(pf)
    lrows.append("* **%s** - %s\n  *Trusted/assumed:* %s %s" % (c["id"], c.get("level_text", ""), c.get("level_note", ""), (" Assumptions: " + "; ".join(c.get("assumptions", []))) if c.get("assumptions") else ""))
levels = "\n".join(lrows)
p = os.path.join(ROOT, "DESIGN.md")
s = open(p).read()
for name, body in (("status", status), ("findings", findings), ("seeds", seeds), ("levels", levels)):
    s = re.sub(r"(<!-- GEN:%s -->).*?(<!-- /GEN:%s -->)" % (name, name), lambda m: m.group(1) + "\n" + body + "\n" + m.group(2), s, flags=re.S)
open(p, "w").write(s)
print("DESIGN.md tables regenerated")
