// C13 harness: raw ClientHello records against the real https service (registered
// "https" servicer, in-memory connection wrapped like the server does) and against the
// vendored TLS stack directly (tls.Server with a GetConfigForClient callback capturing the
// ClientHelloInfo as soon as the hello is parsed).  Observed: https.ja3-digest / https.server-name of the event the
// service emits, and the JA3() string of the real ClientHelloInfo for the same bytes;
// digest == hex(md5(string)) is checked here with crypto/md5 (MD5 is a library oracle).
package main

import (
	"context"
	"crypto/md5"
	"encoding/hex"
	"errors"
	"fmt"
	"io"
	"net"
	"strings"
	"sync"
	"time"

	"github.com/honeytrap/honeytrap/event"
	"github.com/honeytrap/honeytrap/pushers"
	"github.com/honeytrap/honeytrap/server"
	"github.com/honeytrap/honeytrap/services"
	tls "github.com/honeytrap/honeytrap/services/ja3/crypto/tls"

	"verif/harness/hx"
	"verif/harness/lab"
)

// ---------- input ----------

type SNIName struct {
	Type int  `json:"type"`
	Name hx.B `json:"name"`
}

type Ext struct {
	Kind   string    `json:"kind"` // sni | groups | points | raw
	Type   int       `json:"type"`
	Names  []SNIName `json:"names,omitempty"`
	Groups []int     `json:"groups,omitempty"`
	Points hx.B      `json:"points,omitempty"`
	Body   hx.B      `json:"body,omitempty"`
}

type Hello struct {
	Vers    int   `json:"vers"`
	Random  hx.B  `json:"random"`
	Session hx.B  `json:"session"`
	Ciphers []int `json:"ciphers"`
	Comp    hx.B  `json:"comp"`
	NoExts  bool  `json:"no_exts_block"`
	Exts    []Ext `json:"exts"`
}

type Rec struct {
	Typ     int  `json:"typ"`
	Vers    int  `json:"vers"`
	Payload hx.B `json:"payload"`
}

type Input struct {
	Hello  *Hello `json:"hello,omitempty"` // nil: malformed stream (records only)
	Note   string `json:"note,omitempty"`
	Recs   []Rec  `json:"records"`
	Cut    int    `json:"cut_stream,omitempty"` // > 0: only the first Cut bytes of the framed stream are sent
	Writes []int  `json:"writes,omitempty"`     // sizes of the successive conn.Write calls (rest in a last one)
}

type Obs struct {
	Digest     string `json:"ja3_digest"`  // https event
	ServerName hx.B   `json:"server_name"` // https event
	EventType  string `json:"event_type"`
	Parsed     bool   `json:"hello_parsed"`  // direct path: GetConfigForClient ran (the hello was parsed)
	Called     bool   `json:"callback_ran"`  // direct path: GetCertificate ran
	JA3        string `json:"ja3_string"`    // direct path: ClientHelloInfo.JA3()
	DirDigest  string `json:"direct_digest"` // direct path: ClientHelloInfo.JA3Digest()
	DirName    hx.B   `json:"direct_sni"`    // direct path: ClientHelloInfo.ServerName
	DigestOK   bool   `json:"digest_is_md5_of_string"`
}

// ---------- encoder (independent of the stack under test) ----------

func p16(b []byte, v int) []byte { return append(b, byte(v>>8), byte(v)) }

func extBody(e Ext) []byte {
	switch e.Kind {
	case "sni":
		var l []byte
		for _, n := range e.Names {
			l = append(l, byte(n.Type))
			l = p16(l, len(n.Name))
			l = append(l, n.Name...)
		}
		return append(p16(nil, len(l)), l...)
	case "groups":
		b := p16(nil, 2*len(e.Groups))
		for _, g := range e.Groups {
			b = p16(b, g)
		}
		return b
	case "points":
		return append([]byte{byte(len(e.Points))}, e.Points...)
	}
	return []byte(e.Body)
}

func extType(e Ext) int {
	switch e.Kind {
	case "sni":
		return 0
	case "groups":
		return 10
	case "points":
		return 11
	}
	return e.Type
}

func encodeHello(h *Hello) []byte {
	b := p16(nil, h.Vers)
	b = append(b, h.Random...)
	b = append(b, byte(len(h.Session)))
	b = append(b, h.Session...)
	b = p16(b, 2*len(h.Ciphers))
	for _, c := range h.Ciphers {
		b = p16(b, c)
	}
	b = append(b, byte(len(h.Comp)))
	b = append(b, h.Comp...)
	if !h.NoExts {
		var x []byte
		for _, e := range h.Exts {
			body := extBody(e)
			x = p16(x, extType(e))
			x = p16(x, len(body))
			x = append(x, body...)
		}
		b = p16(b, len(x))
		b = append(b, x...)
	}
	return append([]byte{1, byte(len(b) >> 16), byte(len(b) >> 8), byte(len(b))}, b...)
}

func frame(recs []Rec) []byte {
	var s []byte
	for _, r := range recs {
		s = append(s, byte(r.Typ), byte(r.Vers>>8), byte(r.Vers), byte(len(r.Payload)>>8), byte(len(r.Payload)))
		s = append(s, r.Payload...)
	}
	return s
}

// ---------- driving the implementation ----------

type capChan struct {
	mu sync.Mutex
	ev []event.Event
}

func (c *capChan) Send(e event.Event) { c.mu.Lock(); c.ev = append(c.ev, e); c.mu.Unlock() }
func (c *capChan) take() []event.Event {
	c.mu.Lock()
	defer c.mu.Unlock()
	e := c.ev
	c.ev = nil
	return e
}

var _ pushers.Channel = (*capChan)(nil)

func stream(in Input) [][]byte {
	s := frame(in.Recs)
	if in.Cut > 0 && in.Cut < len(s) {
		s = s[:in.Cut]
	}
	var segs [][]byte
	for _, w := range in.Writes {
		if w <= 0 || w >= len(s) {
			break
		}
		segs = append(segs, s[:w])
		s = s[w:]
	}
	if len(s) > 0 {
		segs = append(segs, s)
	}
	return segs
}

// drive runs handle on the server side of an in-memory connection, writes the segments,
// drains whatever the server sends, closes the client side and waits for handle to return.
func drive(segs [][]byte, handle func(net.Conn) error) (crash string) {
	sc, cc := lab.Pipe(&net.TCPAddr{IP: net.ParseIP("192.0.2.1"), Port: 443}, &net.TCPAddr{IP: net.ParseIP("198.51.100.7"), Port: 40000})
	done := make(chan string, 1)
	go func() {
		defer func() {
			if r := recover(); r != nil {
				done <- fmt.Sprintf("panic: %v", r)
			}
		}()
		handle(server.TimeoutConn(sc, 30*time.Second))
		sc.Close()
		done <- ""
	}()
	go io.Copy(io.Discard, cc)
	go func() {
		for _, s := range segs {
			if _, err := cc.Write(s); err != nil {
				break
			}
		}
		cc.Close()
	}()
	select {
	case c := <-done:
		return c
	case <-time.After(120 * time.Second):
		cc.Close()
		sc.Close()
		return "handler did not return within 120 s"
	}
}

type httpsInst struct {
	svc services.Servicer
	ch  *capChan
}

func newHTTPS() *httpsInst {
	fn, ok := services.Get("https")
	if !ok {
		hx.Fatal("https service not registered")
	}
	ch := &capChan{}
	return &httpsInst{svc: fn(services.WithChannel(ch)), ch: ch}
}

func (h *httpsInst) run(segs [][]byte, ob *Obs) string {
	h.ch.take()
	crash := drive(segs, func(c net.Conn) error { return h.svc.Handle(context.Background(), c) })
	if crash != "" {
		return "https: " + crash
	}
	var evs []event.Event
	for _, e := range h.ch.take() {
		if e.Get("category") == "https" {
			evs = append(evs, e)
		}
	}
	if len(evs) != 1 {
		return fmt.Sprintf("https: %d events for one connection", len(evs))
	}
	ob.EventType = evs[0].Get("type")
	ob.Digest = evs[0].Get("https.ja3-digest")
	ob.ServerName = hx.B(evs[0].Get("https.server-name"))
	return ""
}

func runDirect(segs [][]byte, ob *Obs) string {
	crash := drive(segs, func(c net.Conn) error {
		tc := tls.Server(c, &tls.Config{
			Certificates: []tls.Certificate{},
			GetConfigForClient: func(hello *tls.ClientHelloInfo) (*tls.Config, error) {
				ob.Parsed = true
				ob.JA3 = hello.JA3()
				ob.DirDigest = hello.JA3Digest()
				ob.DirName = hx.B(hello.ServerName)
				return nil, nil
			},
			GetCertificate: func(hello *tls.ClientHelloInfo) (*tls.Certificate, error) {
				ob.Called = true
				return nil, errors.New("verif: stop here")
			},
		})
		return tc.Handshake()
	})
	if crash != "" {
		return "tls: " + crash
	}
	return ""
}

func finish(ob *Obs) {
	sum := md5.Sum([]byte(ob.JA3))
	want := hex.EncodeToString(sum[:])
	if ob.Digest != "" {
		// whatever the service recorded must be the MD5 of the JA3 string of the hello the stack parsed
		ob.DigestOK = ob.Parsed && ob.Digest == want && ob.DirDigest == want
	} else {
		ob.DigestOK = len(ob.ServerName) == 0
	}
}

// ---------- generator ----------

var greaseVals = []int{0x0a0a, 0x1a1a, 0x2a2a, 0x3a3a, 0x4a4a, 0x5a5a, 0x6a6a, 0x7a7a, 0x8a8a, 0x9a9a, 0xaaaa, 0xbaba, 0xcaca, 0xdada, 0xeaea, 0xfafa}
var suitePool = []int{0xc02b, 0xc02f, 0xc02c, 0xc030, 0xcca9, 0xcca8, 0xc013, 0xc014, 0x009c, 0x009d, 0x002f, 0x0035, 0x000a, 0x1301, 0x1302, 0x1303, 0x0005, 0x0000}
var groupPool = []int{29, 23, 24, 25, 256, 257, 30, 0x6399, 0xff01}
var namePool = []string{"example.com", "a.b", "UPPER.Example.ORG", "xn--bcher-kva.example", "h", "localhost", "10.0.0.1", "under_score.test", "dot.in.the.middle"}

func isSpecial(t int) bool {
	switch t {
	case 0, 5, 10, 11, 13, 16, 18, 35, 13172, 0xff01:
		return true
	}
	return false
}

func genSNI(r *hx.Rand, names []string) Ext {
	e := Ext{Kind: "sni"}
	host := SNIName{Type: 0, Name: hx.B(r.PickStr(names))}
	switch r.Intn(12) {
	case 0: // empty list
	case 1: // only a non-host entry
		e.Names = []SNIName{{Type: r.Range(1, 255), Name: hx.B(r.Bytes(r.Range(0, 6)))}}
	case 2: // a non-host entry first
		e.Names = []SNIName{{Type: r.Range(1, 255), Name: hx.B("x.")}, host}
	case 3: // two host entries, the first counts; what follows it is not looked at
		e.Names = []SNIName{host, {Type: 0, Name: hx.B("second.example.")}}
	case 4: // empty host name
		e.Names = []SNIName{{Type: 0, Name: hx.B("")}}
	default:
		e.Names = []SNIName{host}
	}
	return e
}

func genRaw(r *hx.Rand) Ext {
	e := Ext{Kind: "raw"}
	switch r.Intn(16) {
	case 0: // status_request
		e.Type, e.Body = 5, hx.B{1, 0, 0, 0, 0}
		if r.Chance(1, 3) {
			e.Body = hx.B(r.Bytes(r.Range(0, 4)))
		}
	case 1: // signature_algorithms
		n := r.Range(0, 6)
		b := p16(nil, 2*n)
		for i := 0; i < n; i++ {
			b = p16(b, r.PickInt([]int{0x0403, 0x0804, 0x0401, 0x0201, 0x0a0a}))
		}
		e.Type, e.Body = 13, b
	case 2: // ALPN
		var l []byte
		for _, p := range [][]string{{"h2", "http/1.1"}, {"http/1.1"}, {}, {"\x0a\x0a", "h2"}}[r.Intn(4)] {
			l = append(l, byte(len(p)))
			l = append(l, p...)
		}
		e.Type, e.Body = 16, append(p16(nil, len(l)), l...)
	case 3:
		e.Type = 18 // SCT, empty
	case 4:
		e.Type = 35 // session ticket
		if r.Chance(1, 2) {
			e.Body = hx.B(r.Bytes(r.Range(1, 40)))
		}
	case 5:
		e.Type = 13172 // NPN, empty
	case 6:
		e.Type, e.Body = 0xff01, hx.B{0}
		if r.Chance(1, 4) { // not an initial handshake: refused later, fingerprinted all the same
			e.Body = hx.B{2, 7, 7}
		}
	case 7:
		e.Type = 23 // extended_master_secret
	case 8:
		e.Type, e.Body = 21, hx.B(make([]byte, r.Range(0, 30))) // padding
	case 9:
		e.Type, e.Body = 43, hx.B{4, 0x0a, 0x0a, 3, 4} // supported_versions with GREASE
	case 10:
		e.Type, e.Body = 51, hx.B(r.Bytes(r.Range(2, 40))) // key_share
	case 11, 12: // GREASE extension, empty or one zero byte
		e.Type = r.PickInt(greaseVals)
		if r.Chance(1, 2) {
			e.Body = hx.B{0}
		}
	default: // unknown type, random body
		for {
			e.Type = r.Intn(65536)
			if !isSpecial(e.Type) {
				break
			}
		}
		if r.Chance(1, 4) {
			e.Type = r.PickInt([]int{0xfafa + 1, 0x0a0b, 0x0b0a, 0x0a1a, 65535, 1, 9, 12, 0xff00})
		}
		e.Body = hx.B(r.Bytes(r.PickInt([]int{0, 0, 1, 2, 7, 33})))
	}
	return e
}

func genHello(r *hx.Rand, names []string) *Hello {
	h := &Hello{Vers: r.PickInt([]int{0x0303, 0x0303, 0x0303, 0x0303, 0x0302, 0x0301, 0x0301, 0x0300, 0x0300, 0x0304, 0x0200})}
	// GREASE is decided per hello and per list, so that about half of the hellos have none in
	// ciphers/curves and the lists are exercised independently
	gC, gE, gG := r.Chance(1, 2), r.Chance(1, 2), r.Chance(1, 2)
	h.Random = hx.B(r.Bytes(32))
	h.Session = hx.B(r.Bytes(r.PickInt([]int{0, 32, 32, r.Range(1, 31)})))
	n := r.Range(1, 40)
	if r.Chance(1, 3) {
		n = r.Range(1, 4)
	}
	for i := 0; i < n; i++ {
		switch {
		case gC && (r.Chance(1, 8) || i == 0 || i == n-1 && r.Chance(1, 4)):
			h.Ciphers = append(h.Ciphers, r.PickInt(greaseVals))
		case r.Chance(1, 12):
			h.Ciphers = append(h.Ciphers, r.PickInt([]int{0x00ff, 0x5600}))
		case r.Chance(1, 10):
			h.Ciphers = append(h.Ciphers, r.Intn(65536))
		default:
			h.Ciphers = append(h.Ciphers, r.PickInt(suitePool))
		}
	}
	// the fingerprint is taken before negotiation: offers without null compression are in scope too
	h.Comp = hx.B([][]byte{{0}, {0}, {0}, {0}, {1, 0}, {0, 1, 64}, {1}, {}}[r.Intn(8)])
	if r.Chance(1, 12) {
		h.NoExts = true
		return h
	}
	ne := r.Range(0, 20)
	if r.Chance(1, 4) {
		ne = r.Range(0, 3)
	}
	var exts []Ext
	haveSNI, haveG, haveP := false, false, false
	for i := 0; i < ne; i++ {
		switch k := r.Intn(10); {
		case k == 0 && !haveSNI:
			haveSNI = true
			exts = append(exts, genSNI(r, names))
		case k == 1 && !haveG:
			haveG = true
			e := Ext{Kind: "groups"}
			for j, m := 0, r.Range(0, 8); j < m; j++ {
				switch {
				case gG && (r.Chance(1, 5) || j == 0):
					e.Groups = append(e.Groups, r.PickInt(greaseVals))
				case r.Chance(1, 10):
					e.Groups = append(e.Groups, r.Intn(65536))
				default:
					e.Groups = append(e.Groups, r.PickInt(groupPool))
				}
			}
			exts = append(exts, e)
		case k == 2 && !haveP:
			haveP = true
			exts = append(exts, Ext{Kind: "points", Points: hx.B([][]byte{{}, {0}, {0, 1}, {0, 1, 2}, {2}, {1, 0}}[r.Intn(6)])})
		case k == 3 && len(exts) > 0: // duplicate of an earlier raw extension type
			d := exts[r.Intn(len(exts))]
			if d.Kind == "raw" {
				exts = append(exts, d)
			} else {
				exts = append(exts, genRaw(r))
			}
		default:
			e := genRaw(r)
			if isGrease(e.Type) && !gE {
				e.Type = 23
				e.Body = nil
			}
			exts = append(exts, e)
		}
	}
	// most real hellos carry SNI, groups and point formats: make sure they are well represented
	if !haveSNI && r.Chance(1, 2) {
		exts = append([]Ext{genSNI(r, names)}, exts...)
	}
	h.Exts = exts
	return h
}

func fragmentMsg(r *hx.Rand, msg []byte, trailing []byte) []Rec {
	data := append(append([]byte(nil), msg...), trailing...)
	rv := func() int { return r.PickInt([]int{0x0301, 0x0301, 0x0303, 0x0300, 0x0000, 0x0fff, 0x0304}) }
	var recs []Rec
	switch r.Intn(8) {
	case 0, 1, 2: // one record
	case 3: // a one-byte first fragment
		recs = append(recs, Rec{22, rv(), hx.B(data[:1])})
		data = data[1:]
	case 4: // cut inside the 4-byte handshake header
		k := r.Range(1, 3)
		recs = append(recs, Rec{22, rv(), hx.B(data[:k])})
		data = data[k:]
	default:
		for n := r.Range(1, 5); n > 0 && len(data) > 1; n-- {
			k := r.Range(0, len(data)-1) // zero-length fragments included
			if r.Chance(1, 6) {
				recs = append(recs, Rec{21, rv(), hx.B{1, byte(r.PickInt([]int{90, 100, 112}))}}) // warning alert in between
			}
			recs = append(recs, Rec{22, rv(), hx.B(data[:k])})
			data = data[k:]
		}
	}
	for len(data) > 16384 {
		recs = append(recs, Rec{22, rv(), hx.B(data[:16384])})
		data = data[16384:]
	}
	return append(recs, Rec{22, rv(), hx.B(data)})
}

func genWrites(r *hx.Rand, total int) []int {
	switch r.Intn(4) {
	case 0:
		return []int{r.Range(1, 6)} // the first write ends inside the first record header or just after it
	case 1:
		var w []int
		for left := total; left > 1 && len(w) < 6; {
			k := r.Range(1, left)
			w = append(w, k)
			left -= k
		}
		return w
	}
	return nil
}

func structured(r *hx.Rand, names []string) Input {
	h := genHello(r, names)
	var trailing []byte
	if r.Chance(1, 15) {
		trailing = r.Bytes(r.Range(1, 9))
	}
	in := Input{Hello: h, Recs: fragmentMsg(r, encodeHello(h), trailing)}
	in.Writes = genWrites(r, len(frame(in.Recs)))
	return in
}

// malformed stream: no structured hello, model against implementation only
func malformed(r *hx.Rand, names []string) Input {
	h := genHello(r, names)
	h.NoExts = false
	one := func(m []byte) []Rec { return []Rec{{22, 0x0301, hx.B(m)}} }
	relen := func(m []byte) []byte { n := len(m) - 4; m[1], m[2], m[3] = byte(n>>16), byte(n>>8), byte(n); return m }
	rawExt := func(t int, body []byte) Ext { return Ext{Kind: "raw", Type: t, Body: hx.B(body)} }
	kinds := []string{"truncated-msg", "header-length-short", "flip-byte", "sni-trailing-dot", "dup-groups", "dup-points", "dup-sni",
		"no-null-compression", "nonempty-reneg", "npn-body", "sct-body", "odd-cipher-len", "ext-len-mismatch", "bad-sigalgs", "alpn-empty-proto",
		"groups-odd", "points-len", "not-client-hello", "huge-msg-len", "first-record-appdata", "record-vers-16", "sslv2", "six-warnings",
		"five-warnings", "close-notify", "fatal-alert", "empty-stream", "cut-stream", "oversized-record", "sni-short", "reneg-bad-len", "old-version", "ext-short-header", "session-33"}
	k := kinds[r.Intn(len(kinds))]
	in := Input{Note: k}
	switch k {
	case "truncated-msg":
		m := encodeHello(h)
		in.Recs = one(relen(m[:r.Range(4, len(m)-1)]))
	case "header-length-short": // header announces fewer bytes than sent: the hello is cut, the rest stays buffered
		m := encodeHello(h)
		n := r.Range(0, len(m)-5)
		m[1], m[2], m[3] = byte(n>>16), byte(n>>8), byte(n)
		in.Recs = one(m)
	case "flip-byte":
		m := encodeHello(h)
		m[r.Range(4, len(m)-1)] ^= byte(1 << uint(r.Intn(8)))
		in.Recs = one(m)
	case "sni-trailing-dot":
		h.Exts = append(h.Exts, Ext{Kind: "raw", Type: 0, Body: hx.B(extBody(Ext{Kind: "sni", Names: []SNIName{{0, hx.B("example.com.")}}}))})
		in.Recs = one(encodeHello(h))
	case "dup-groups":
		h.Exts = append([]Ext{rawExt(10, []byte{0, 4, 0x0a, 0x0a, 0, 29})}, append(h.Exts, rawExt(10, []byte{0, 2, 0, 23}))...)
		in.Recs = one(encodeHello(h))
	case "dup-points":
		h.Exts = append([]Ext{rawExt(11, []byte{2, 0, 1})}, append(h.Exts, rawExt(11, []byte{1, 2}))...)
		in.Recs = one(encodeHello(h))
	case "dup-sni":
		a := extBody(Ext{Kind: "sni", Names: []SNIName{{0, hx.B("first.example")}}})
		b := extBody(Ext{Kind: "sni", Names: []SNIName{{7, hx.B("zz")}}})
		if r.Bool() {
			b = extBody(Ext{Kind: "sni", Names: []SNIName{{0, hx.B("second.example")}}})
		}
		h.Exts = append([]Ext{rawExt(0, a)}, append(h.Exts, rawExt(0, b))...)
		in.Recs = one(encodeHello(h))
	case "no-null-compression":
		h.Comp = hx.B([][]byte{{}, {1}, {64, 1}}[r.Intn(3)])
		in.Recs = one(encodeHello(h))
	case "nonempty-reneg":
		h.Exts = append(h.Exts, rawExt(0xff01, []byte{2, 7, 7}))
		in.Recs = one(encodeHello(h))
	case "npn-body":
		h.Exts = append(h.Exts, rawExt(13172, []byte{0}))
		in.Recs = one(encodeHello(h))
	case "sct-body":
		h.Exts = append(h.Exts, rawExt(18, []byte{0}))
		in.Recs = one(encodeHello(h))
	case "odd-cipher-len":
		h.Ciphers = []int{0xc02b}
		h.Session = nil
		m := encodeHello(h)
		m[4+2+32+1+1] = 1
		in.Recs = one(m)
	case "ext-len-mismatch":
		m := encodeHello(h)
		m = append(m, 0)
		in.Recs = one(relen(m))
	case "bad-sigalgs":
		h.Exts = append(h.Exts, rawExt(13, [][]byte{{0, 2, 4}, {0, 4, 4, 3}, {0}, {0, 1, 4}}[r.Intn(4)]))
		in.Recs = one(encodeHello(h))
	case "alpn-empty-proto":
		h.Exts = append(h.Exts, rawExt(16, [][]byte{{0, 1, 0}, {0, 3, 5, 'h', '2'}, {0, 9, 2, 'h', '2'}, {0}}[r.Intn(4)]))
		in.Recs = one(encodeHello(h))
	case "groups-odd":
		h.Exts = append(h.Exts, rawExt(10, [][]byte{{0, 3, 0, 29, 0}, {0, 4, 0, 29}, {0}, {}, {0, 2, 0, 29, 0, 23}}[r.Intn(5)]))
		in.Recs = one(encodeHello(h))
	case "points-len":
		h.Exts = append(h.Exts, rawExt(11, [][]byte{{}, {2, 0}, {0, 0}, {1, 0, 1}}[r.Intn(4)]))
		in.Recs = one(encodeHello(h))
	case "not-client-hello":
		m := encodeHello(h)
		m[0] = byte(r.PickInt([]int{0, 2, 11, 14, 16, 20, 99}))
		in.Recs = one(m)
	case "huge-msg-len":
		m := encodeHello(h)
		m[1], m[2], m[3] = 1, 0, byte(r.Intn(2))
		in.Recs = one(m)
	case "first-record-appdata":
		in.Recs = []Rec{{r.PickInt([]int{23, 20, 0, 24, 255}), 0x0301, hx.B(encodeHello(h))}}
	case "record-vers-16":
		in.Recs = []Rec{{22, r.PickInt([]int{0x1000, 0x1603, 0xffff}), hx.B(encodeHello(h))}}
	case "sslv2":
		in.Recs = []Rec{{0x80, 0x2e01, hx.B(r.Bytes(0x2e))}}
	case "six-warnings", "five-warnings":
		n := 6
		if k == "five-warnings" {
			n = 5
		}
		m := encodeHello(h)
		in.Recs = []Rec{{22, 0x0301, hx.B(m[:2])}}
		if r.Bool() {
			in.Recs = []Rec{{22, 0x0301, hx.B{}}} // an empty handshake record does not reset the count
		}
		for i := 0; i < n; i++ {
			in.Recs = append(in.Recs, Rec{21, 0x0301, hx.B{1, 100}})
		}
		in.Recs = append(in.Recs, Rec{22, 0x0301, hx.B(m[len(in.Recs[0].Payload):])})
	case "close-notify":
		m := encodeHello(h)
		in.Recs = []Rec{{22, 0x0301, hx.B(m[:5])}, {21, 0x0301, hx.B{byte(r.Range(1, 2)), 0}}, {22, 0x0301, hx.B(m[5:])}}
	case "fatal-alert":
		m := encodeHello(h)
		in.Recs = []Rec{{22, 0x0301, hx.B(m[:5])}, {21, 0x0301, [][]byte{{2, 40}, {3, 40}, {1}, {1, 40, 0}}[r.Intn(4)]}, {22, 0x0301, hx.B(m[5:])}}
	case "empty-stream":
		in.Recs = nil
	case "cut-stream":
		in.Recs = one(encodeHello(h))
		in.Cut = r.Range(1, len(frame(in.Recs))-1)
	case "oversized-record":
		big := append(encodeHello(h), make([]byte, 16400)...)
		in.Recs = one(big)
	case "sni-short":
		h.Exts = append(h.Exts, rawExt(0, [][]byte{{}, {0}, {0, 5, 0, 0, 1, 'a'}, {0, 2, 0, 0}, {0, 4, 0, 0, 9, 'a'}}[r.Intn(5)]))
		in.Recs = one(encodeHello(h))
	case "reneg-bad-len":
		h.Exts = append(h.Exts, rawExt(0xff01, [][]byte{{}, {1}, {0, 0}}[r.Intn(3)]))
		in.Recs = one(encodeHello(h))
	case "old-version":
		h.Vers = r.PickInt([]int{0x0200, 0x0002, 0x02ff, 0})
		in.Recs = one(encodeHello(h))
	case "ext-short-header":
		m := encodeHello(h)
		x := len(extsBlock(h))
		extra := []byte{0, 23, 0}[:r.Range(1, 3)]
		m = append(m, extra...)
		off := len(m) - len(extra) - x - 2
		m[off], m[off+1] = byte((x+len(extra))>>8), byte(x+len(extra))
		in.Recs = one(relen(m))
	case "session-33":
		h.Session = hx.B(r.Bytes(33))
		in.Recs = one(encodeHello(h))
	}
	if in.Cut == 0 {
		in.Writes = genWrites(r, len(frame(in.Recs)))
	}
	return in
}

func extsBlock(h *Hello) []byte {
	var x []byte
	for _, e := range h.Exts {
		body := extBody(e)
		x = p16(x, extType(e))
		x = p16(x, len(body))
		x = append(x, body...)
	}
	return x
}

// ---------- Coq rendering ----------

func coqNs(xs []int) string {
	var s []string
	for _, x := range xs {
		s = append(s, fmt.Sprintf("%d", x))
	}
	if len(s) == 0 {
		return "(@nil N)"
	}
	return "[" + strings.Join(s, ";") + "]%N"
}

func coqHello(h *Hello) string {
	if h == nil {
		return "(@None hello)"
	}
	exts := "(@None (list ext))"
	if !h.NoExts {
		var es []string
		for _, e := range h.Exts {
			switch e.Kind {
			case "sni":
				var ns []string
				for _, n := range e.Names {
					ns = append(ns, fmt.Sprintf("(%s, %s)", hx.CoqN(uint64(n.Type)), hx.CoqBytes(n.Name)))
				}
				es = append(es, "ESni "+hx.CoqList(ns, "(N * bytes)"))
			case "groups":
				es = append(es, "EGroups "+coqNs(e.Groups))
			case "points":
				es = append(es, "EPoints "+hx.CoqBytes(e.Points))
			default:
				es = append(es, fmt.Sprintf("ERaw %s %s", hx.CoqN(uint64(e.Type)), hx.CoqBytes(e.Body)))
			}
		}
		exts = "(Some " + hx.CoqList(es, "ext") + ")"
	}
	return fmt.Sprintf("(Some (mkHello %s %s %s %s %s %s))", hx.CoqN(uint64(h.Vers)), hx.CoqBytes(h.Random), hx.CoqBytes(h.Session),
		coqNs(h.Ciphers), hx.CoqBytes(h.Comp), exts)
}

func coqCase(id int, in Input, ob Obs) string {
	var rs []string
	sent := frame(in.Recs)
	if in.Cut > 0 && in.Cut < len(sent) {
		// only whole records reach the record layer; a cut record is an unexpected EOF
		n := 0
		for _, r := range in.Recs {
			if n+5+len(r.Payload) > in.Cut {
				break
			}
			n += 5 + len(r.Payload)
			rs = append(rs, fmt.Sprintf("mkRec %d%%N %d%%N %s", r.Typ, r.Vers, hx.CoqBytes(r.Payload)))
		}
	} else {
		for _, r := range in.Recs {
			rs = append(rs, fmt.Sprintf("mkRec %d%%N %d%%N %s", r.Typ, r.Vers, hx.CoqBytes(r.Payload)))
		}
	}
	return fmt.Sprintf("mkCase %s %s\n    %s\n    %s %s %s %s", hx.CoqN(uint64(id)), coqHello(in.Hello), hx.CoqList(rs, "rec"),
		hx.CoqBool(ob.Digest != ""), hx.CoqStr(ob.JA3), hx.CoqBytes(ob.ServerName), hx.CoqBool(ob.DigestOK))
}

// ---------- main ----------

func sniOf(in Input) string {
	if in.Hello == nil {
		return ""
	}
	for _, e := range in.Hello.Exts {
		if e.Kind == "sni" {
			for _, n := range e.Names {
				if n.Type == 0 {
					return string(n.Name)
				}
			}
		}
	}
	return ""
}

func corpus() []Input {
	rnd := make([]byte, 32)
	for i := range rnd {
		rnd[i] = byte(i)
	}
	mk := func(h *Hello) Input { return Input{Hello: h, Recs: []Rec{{22, 0x0301, hx.B(encodeHello(h))}}} }
	return []Input{
		// the hello of the former GREASE defect (fixed in fea246c): GREASE in ciphers, extensions and curves
		mk(&Hello{Vers: 771, Random: rnd, Ciphers: []int{0x0a0a, 49195}, Comp: hx.B{0}, Exts: []Ext{
			{Kind: "raw", Type: 0x1a1a}, {Kind: "sni", Names: []SNIName{{0, hx.B("example.com")}}},
			{Kind: "groups", Groups: []int{0x2a2a, 29}}, {Kind: "points", Points: hx.B{0}}}}),
		// the same hello with other GREASE values
		mk(&Hello{Vers: 771, Random: rnd, Ciphers: []int{0xfafa, 49195}, Comp: hx.B{0}, Exts: []Ext{
			{Kind: "raw", Type: 0x7a7a}, {Kind: "sni", Names: []SNIName{{0, hx.B("example.com")}}},
			{Kind: "groups", Groups: []int{0xcaca, 29}}, {Kind: "points", Points: hx.B{0}}}}),
		// and without GREASE
		mk(&Hello{Vers: 771, Random: rnd, Ciphers: []int{49195}, Comp: hx.B{0}, Exts: []Ext{
			{Kind: "sni", Names: []SNIName{{0, hx.B("example.com")}}},
			{Kind: "groups", Groups: []int{29}}, {Kind: "points", Points: hx.B{0}}}}),
		// the hello of the former unrecorded-version defect (fixed in a08b807): SSL 3.0
		mk(&Hello{Vers: 768, Random: rnd, Ciphers: []int{10, 5}, Comp: hx.B{0}, NoExts: true}),
	}
}

func main() {
	o := hx.ParseArgs()
	r := hx.NewRand(o.Seed)
	names := namePool[:4]
	nStruct, nMal := 420, 180
	switch o.Tier {
	case "quick":
	case "search":
		names = namePool[:6]
		nStruct, nMal = 1500, 500
	default:
		names = namePool
		nStruct, nMal = 4200, 1800
	}
	var ins []Input
	if o.Only != "" {
		var in Input
		if err := hx.LoadReplay(o.Only, &in); err != nil {
			hx.Fatal("replay: %v", err)
		}
		ins = []Input{in}
	} else {
		ins = corpus()
		for i := 0; i < nStruct; i++ {
			ins = append(ins, structured(r, names))
		}
		for i := 0; i < nMal; i++ {
			ins = append(ins, malformed(r, names))
		}
	}
	obs := make([]Obs, len(ins))
	crash := make([]string, len(ins))
	// the https service creates a 4096-bit RSA key per distinct server name and caches it in
	// the service object: one service instance per server name, instances run in parallel
	groups := map[string][]int{}
	var order []string
	for i, in := range ins {
		k := sniOf(in)
		if _, ok := groups[k]; !ok {
			order = append(order, k)
		}
		groups[k] = append(groups[k], i)
	}
	var wg sync.WaitGroup
	for _, k := range order {
		wg.Add(1)
		go func(idx []int) {
			defer wg.Done()
			inst := newHTTPS()
			for _, i := range idx {
				segs := stream(ins[i])
				if c := inst.run(segs, &obs[i]); c != "" {
					crash[i] = c
					continue
				}
				if c := runDirect(segs, &obs[i]); c != "" {
					crash[i] = c
					continue
				}
				finish(&obs[i])
			}
		}(groups[k])
	}
	wg.Wait()
	dist := map[string]int{}
	var cases []hx.Case
	for i, in := range ins {
		kind := "structured"
		if in.Hello == nil {
			kind = "malformed"
			dist["malformed:"+in.Note]++
		} else {
			h := in.Hello
			dist[fmt.Sprintf("version:%04x", h.Vers)]++
			dist[fmt.Sprintf("ciphers:%s", bucket(len(h.Ciphers)))]++
			if h.NoExts {
				dist["exts:none"]++
			} else {
				dist[fmt.Sprintf("exts:%s", bucket(len(h.Exts)))]++
			}
			g := false
			for _, c := range h.Ciphers {
				g = g || isGrease(c)
			}
			for _, e := range h.Exts {
				for _, c := range e.Groups {
					g = g || isGrease(c)
				}
			}
			if g {
				dist["grease-in-ciphers-or-curves"]++
			}
			if sniOf(in) != "" {
				dist["with-sni"]++
			}
		}
		dist[fmt.Sprintf("records:%s", bucket(len(in.Recs)))]++
		if obs[i].Digest == "" {
			dist["nothing-recorded"]++
		}
		cases = append(cases, hx.Case{ID: i, Kind: kind, Input: in, Obs: obs[i], Crash: crash[i], Coq: coqCase(i, in, obs[i])})
	}
	hx.Write(o, "C13", "ja3", "From HT Require Import Common.Bytes C13.Model C13.Check.", "case", cases, dist, nil, 60)
}

func isGrease(v int) bool { return v>>8 == v&0xff && v&0x0f == 0x0a }

func bucket(n int) string {
	switch {
	case n <= 1:
		return fmt.Sprintf("%d", n)
	case n <= 4:
		return "2-4"
	case n <= 10:
		return "5-10"
	case n <= 20:
		return "11-20"
	}
	return "21+"
}
