package main

// Several connections on ONE service object (obtained from the registry exactly as the server
// obtains it): the login state must belong to the connection.  Lock step across connections:
// one request, its reply and the fence reply on that connection, then the next step on any
// connection - so the schedule is the order in which the service executes the requests.
// Connections are opened at their first step and closed after their last one, so a schedule
// grouped by connection gives sequential connections and a mixed one concurrent connections.

import (
	"bufio"
	"fmt"
	"net"
	"strconv"
	"strings"
	"time"

	ber "github.com/go-asn1-ber/asn1-ber"
	"github.com/honeytrap/honeytrap/event"

	"verif/harness/hx"
)

type MStep struct {
	Conn int    `json:"conn"`
	Req  *LReq  `json:"req,omitempty"`  // ldap
	Line string `json:"line,omitempty"` // ftp (without CR LF)
}

type LMStepObs struct {
	Reply LReply `json:"reply"`
	Event LEvent `json:"event"`
}
type LMObs struct {
	Steps []LMStepObs `json:"steps"`
}

type mconn struct {
	cc   net.Conn
	rd   *bufio.Reader
	done chan string
}

func lastUse(sched []MStep) map[int]int {
	m := map[int]int{}
	for i, s := range sched {
		m[s.Conn] = i
	}
	return m
}

func closeAll(conns map[int]*mconn) {
	for _, c := range conns {
		c.cc.Close()
	}
	for _, c := range conns {
		select {
		case <-c.done:
		case <-time.After(2 * time.Second):
		}
	}
}

func msgID(e event.Event) int64 {
	var id int64 = -1
	e.Range(func(k, v interface{}) bool {
		if k == "ldap.message-id" {
			if x, ok := v.(int64); ok {
				id = x
			}
		}
		return true
	})
	return id
}

func toLEvent(e event.Event) LEvent {
	le := LEvent{}
	if e.Has("ldap.request-type") {
		t, ok := ldapTypes[e.Get("ldap.request-type")]
		if !ok {
			t = 99
		}
		le.Type = t
	}
	if e.Has("ldap.username") {
		le.HasUser, le.User = true, e.Get("ldap.username")
	}
	if e.Has("ldap.password") {
		le.HasPw, le.Pw = true, e.Get("ldap.password")
	}
	return le
}

func runLDAPMulti(creds []string, haveCreds bool, sched []MStep) (LMObs, string) {
	var ob LMObs
	ch := &recChan{}
	svc := newService("ldap", ch, creds, haveCreds)
	conns := map[int]*mconn{}
	last := lastUse(sched)
	fail := func(what string) (LMObs, string) {
		closeAll(conns)
		return ob, what
	}
	for i, st := range sched {
		c := conns[st.Conn]
		if c == nil {
			cc, done := serve(svc, 389)
			c = &mconn{cc: cc, rd: bufio.NewReader(cc), done: done}
			conns[st.Conn] = c
		}
		id := int64(i + 1)
		msg := append(ldapPacket(id, *st.Req), ldapPacket(fenceBase+id, LReq{Kind: "op", Tag: fenceTag})...)
		go func() {
			c.cc.SetWriteDeadline(time.Now().Add(10 * time.Second))
			c.cc.Write(msg)
		}()
		var got []LReply
		for {
			c.cc.SetReadDeadline(time.Now().Add(10 * time.Second))
			p, err := ber.ReadPacket(c.rd)
			if err != nil {
				select {
				case d := <-c.done:
					if d != "" {
						return fail(d)
					}
				default:
				}
				return fail(fmt.Sprintf("ldap step %d (connection %d): no reply: %v", i, st.Conn, err))
			}
			if len(p.Children) < 2 || len(p.Children[1].Children) < 1 {
				return fail(fmt.Sprintf("ldap step %d: malformed reply", i))
			}
			mid, _ := p.Children[0].Value.(int64)
			code, _ := p.Children[1].Children[0].Value.(int64)
			if mid == fenceBase+id {
				break
			}
			if mid != id {
				return fail(fmt.Sprintf("ldap step %d (connection %d): reply with message id %d", i, st.Conn, mid))
			}
			got = append(got, LReply{Tag: int(p.Children[1].Tag), Code: int(code)})
		}
		so := LMStepObs{}
		switch len(got) {
		case 0:
			so.Reply = LReply{None: true}
		case 1:
			so.Reply = got[0]
		default:
			return fail(fmt.Sprintf("ldap step %d: %d replies", i, len(got)))
		}
		// the fence was answered by the same goroutine after it sent the event of the request
		n := 0
		for _, e := range ch.snapshot() {
			if msgID(e) == id {
				n++
				so.Event = toLEvent(e)
			}
		}
		if n == 0 {
			so.Event = LEvent{Type: 98} // no event for this request
		} else if n > 1 {
			so.Event = LEvent{Type: 97} // more than one
		}
		ob.Steps = append(ob.Steps, so)
		if last[st.Conn] == i {
			c.cc.Close()
			if d := waitDone(c.done, "ldap"); d != "" {
				delete(conns, st.Conn)
				return fail(d)
			}
			delete(conns, st.Conn)
		}
	}
	closeAll(conns)
	return ob, ""
}

// ---- ftp ----

type FMStepObs struct {
	Codes  []int    `json:"codes"`
	Events []string `json:"events"`
}
type FMObs struct {
	Fs0   []FsEntry   `json:"fs0"`
	Steps []FMStepObs `json:"steps"`
	Fs1   []FsEntry   `json:"fs1"`
}

func runFTPMulti(sched []MStep) (FMObs, string) {
	var ob FMObs
	ob.Fs0 = resetFs()
	ch := &recChan{}
	svc := newService("ftp", ch, nil, false)
	conns := map[int]*mconn{}
	last := lastUse(sched)
	fail := func(what string) (FMObs, string) {
		closeAll(conns)
		return ob, what
	}
	seen := 0 // events consumed so far
	for i, st := range sched {
		c := conns[st.Conn]
		if c == nil {
			cc, done := serve(svc, 21)
			c = &mconn{cc: cc, rd: bufio.NewReader(cc), done: done}
			conns[st.Conn] = c
			cc.SetReadDeadline(time.Now().Add(10 * time.Second))
			if l, err := c.rd.ReadString('\n'); err != nil || !strings.HasPrefix(l, "220 ") {
				return fail(fmt.Sprintf("ftp greeting (connection %d): %q %v", st.Conn, l, err))
			}
		}
		msg := []byte(st.Line + "\r\n" + ftpFence + "\r\n")
		go func() {
			c.cc.SetWriteDeadline(time.Now().Add(10 * time.Second))
			c.cc.Write(msg)
		}()
		so := FMStepObs{Codes: []int{}, Events: []string{}}
		for {
			c.cc.SetReadDeadline(time.Now().Add(10 * time.Second))
			l, err := c.rd.ReadString('\n')
			if err != nil {
				select {
				case d := <-c.done:
					if d != "" {
						return fail(d)
					}
				default:
				}
				return fail(fmt.Sprintf("ftp step %d (connection %d): %v", i, st.Conn, err))
			}
			l = strings.TrimRight(l, "\r\n")
			if l == ftpFenceReply {
				break
			}
			if len(l) >= 4 && l[3] == ' ' {
				if n, err := strconv.Atoi(l[:3]); err == nil {
					so.Codes = append(so.Codes, n)
				}
			}
		}
		evs := ch.waitFor(func(evs []event.Event) bool { return len(evs) >= seen+2 })
		fresh := evs[seen:]
		seen = len(evs)
		for k, e := range fresh {
			cmd := e.Get("ftp.command")
			if cmd == ftpFence && k == len(fresh)-1 {
				continue
			}
			so.Events = append(so.Events, cmd)
		}
		ob.Steps = append(ob.Steps, so)
		if last[st.Conn] == i {
			go func() { c.cc.Write([]byte("QUIT\r\n")) }()
			c.cc.SetReadDeadline(time.Now().Add(5 * time.Second))
			for {
				if _, err := c.rd.ReadString('\n'); err != nil {
					break
				}
			}
			c.cc.Close()
			d := waitDone(c.done, "ftp")
			delete(conns, st.Conn)
			if d != "" {
				return fail(d)
			}
			// the QUIT line's own event
			evs := ch.waitFor(func(evs []event.Event) bool { return len(evs) >= seen+1 })
			seen = len(evs)
		}
	}
	closeAll(conns)
	ob.Fs1 = listFs()
	return ob, ""
}

// ---- rendering ----

func coqLReq(r LReq) string {
	switch r.Kind {
	case "bind":
		return fmt.Sprintf("LBind %s %s %s", hx.CoqZ(r.Ver), hx.CoqStr(r.DN), hx.CoqStr(r.Pw))
	case "bind-short":
		return "LBindShort " + hx.CoqZ(r.Ver)
	case "bind-badname":
		return "LBindBadName " + hx.CoqZ(r.Ver)
	case "bind-other":
		return fmt.Sprintf("LBindOther %s %s", hx.CoqZ(r.Ver), hx.CoqStr(r.DN))
	}
	return "LOp " + hx.CoqN(uint64(r.Tag))
}

func coqLReply(r LReply) string {
	if r.None {
		return "(@None (N * N))"
	}
	return fmt.Sprintf("(Some (%s, %s))", hx.CoqN(uint64(r.Tag)), hx.CoqN(uint64(r.Code)))
}

func coqLEvent(e LEvent) string {
	return fmt.Sprintf("(mkLE %s %s %s)", hx.CoqN(uint64(e.Type)),
		hx.CoqOpt(hx.CoqStr(e.User), e.HasUser, "str"), hx.CoqOpt(hx.CoqStr(e.Pw), e.HasPw, "str"))
}

func coqLDAPMulti(id int, in Input, ob LMObs) string {
	var steps []string
	for i, s := range ob.Steps {
		st := in.Sched[i]
		steps = append(steps, fmt.Sprintf("(%d%%nat, (%s, %s, %s))", st.Conn, coqLReq(*st.Req), coqLReply(s.Reply), coqLEvent(s.Event)))
	}
	return fmt.Sprintf("CLM (mkLMCase %s %s %s)", hx.CoqN(uint64(id)), coqStrs(effCreds(in)),
		hx.CoqList(steps, "(nat * (lreq * lreply * levent))"))
}

func coqFTPMulti(id int, in Input, ob FMObs) string {
	var steps []string
	for i, s := range ob.Steps {
		st := in.Sched[i]
		var xs []string
		for _, c := range s.Codes {
			xs = append(xs, hx.CoqN(uint64(c)))
		}
		steps = append(steps, fmt.Sprintf("(%d%%nat, (%s, %s, %s))", st.Conn, hx.CoqStr(st.Line+"\r\n"), hx.CoqList(xs, "N"), coqStrs(s.Events)))
	}
	return fmt.Sprintf("CFM (mkFMCase %s %s %s %s)", hx.CoqN(uint64(id)), coqFs(ob.Fs0),
		hx.CoqList(steps, "(nat * (str * list N * list str))"), coqFs(ob.Fs1))
}

// ---- generators ----

// interleave merges the per-connection scripts: sequential (one connection after the other, in
// a random order of connections) or a random interleaving that keeps each script's order
func interleave(r *hx.Rand, scripts [][]MStep, sequential bool) []MStep {
	var out []MStep
	if sequential {
		order := make([]int, len(scripts))
		for i := range order {
			order[i] = i
		}
		for i := len(order) - 1; i > 0; i-- {
			j := r.Intn(i + 1)
			order[i], order[j] = order[j], order[i]
		}
		for _, k := range order {
			out = append(out, scripts[k]...)
		}
		return out
	}
	pos := make([]int, len(scripts))
	for {
		var live []int
		for k := range scripts {
			if pos[k] < len(scripts[k]) {
				live = append(live, k)
			}
		}
		if len(live) == 0 {
			return out
		}
		k := live[r.Intn(len(live))]
		out = append(out, scripts[k][pos[k]])
		pos[k]++
	}
}

func allGated(conn int) []MStep {
	var o []MStep
	for _, t := range gatedTags {
		o = append(o, MStep{Conn: conn, Req: &LReq{Kind: "op", Tag: t}})
	}
	return o
}

func genLDAPMulti(r *hx.Rand) Input {
	in := Input{Svc: "ldap-multi", HaveCreds: true, Creds: genCreds(r)}
	if len(in.Creds) == 0 || r.Chance(1, 2) {
		in.Creds = append(in.Creds, r.PickStr([]string{"root:root", "admin:admin", "guest:123456"}))
	}
	nc := r.Range(2, 3)
	binder := r.Intn(nc) // this connection logs in with a configured pair early
	var scripts [][]MStep
	for c := 0; c < nc; c++ {
		var sc []MStep
		probe := func() {
			p := genProbe(r)
			sc = append(sc, MStep{Conn: c, Req: &p})
		}
		bind := func(good bool) {
			u, p := r.PickStr(users), r.PickStr(passwords)
			if good {
				for _, cr := range in.Creds {
					if i := strings.Index(cr, ":"); i > 0 && strings.Count(cr, ":") == 1 {
						u, p = cr[:i], cr[i+1:]
					}
				}
			} else if r.Chance(1, 4) {
				u, p = "", "" // anonymous
			}
			sc = append(sc, MStep{Conn: c, Req: &LReq{Kind: "bind", Ver: 3, DN: dnForm(r, u), Pw: p}})
		}
		if c == binder {
			if r.Chance(1, 2) {
				probe()
			}
			bind(true)
			for k := r.Range(1, 4); k > 0; k-- {
				probe()
			}
			if r.Chance(1, 3) {
				bind(false)
				probe()
			}
		} else {
			for k := r.Range(1, 3); k > 0; k-- {
				probe()
			}
			if r.Chance(1, 2) {
				bind(r.Chance(1, 4))
			}
			for k := r.Range(1, 3); k > 0; k-- {
				probe()
			}
		}
		scripts = append(scripts, sc)
	}
	in.Sched = interleave(r, scripts, r.Chance(1, 3))
	return in
}

func ldapMultiCorpus() []Input {
	b := func(c int, dn, pw string) MStep {
		return MStep{Conn: c, Req: &LReq{Kind: "bind", Ver: 3, DN: dn, Pw: pw}}
	}
	cat := func(parts ...[]MStep) []MStep {
		var o []MStep
		for _, p := range parts {
			o = append(o, p...)
		}
		return o
	}
	var out []Input
	// default configuration (root:root); concurrent: A logs in, B never does
	out = append(out, Input{Svc: "ldap-multi", Sched: cat([]MStep{b(0, "cn=root,dc=example,dc=com", "root")}, allGated(1), allGated(0),
		[]MStep{b(1, "root", "wrong")}, allGated(1), allGated(0))})
	// sequential: A logs in and leaves, B connects afterwards
	out = append(out, Input{Svc: "ldap-multi", Sched: cat(allGated(0), []MStep{b(0, "root", "root")}, allGated(0), allGated(1), []MStep{b(1, "root", "root")}, allGated(1), allGated(2))})
	// B's anonymous bind and B's failed bind must not log A out; A's anonymous bind must not log B in
	out = append(out, Input{Svc: "ldap-multi", HaveCreds: true, Creds: []string{"admin:admin", "guest:"}, Sched: cat(
		[]MStep{b(0, "admin", "admin"), b(1, "", "")}, allGated(0), allGated(1),
		[]MStep{b(1, "guest", ""), b(0, "admin", "x")}, allGated(0), allGated(1),
		[]MStep{b(0, "", ""), b(2, "admin", "admin")}, allGated(0), allGated(1), allGated(2))})
	return out
}

func genFTPMulti(r *hx.Rand) Input {
	in := Input{Svc: "ftp-multi"}
	nc := r.Range(2, 3)
	binder := r.Intn(nc)
	var scripts [][]MStep
	k := 0
	for c := 0; c < nc; c++ {
		var sc []MStep
		probe := func() {
			k++
			sc = append(sc, MStep{Conn: c, Line: genFtpProbe(r, k)})
		}
		if c == binder {
			if r.Chance(1, 2) {
				probe()
			}
			sc = append(sc, MStep{Conn: c, Line: "USER anonymous"}, MStep{Conn: c, Line: "PASS anonymous"})
			for n := r.Range(1, 4); n > 0; n-- {
				probe()
			}
		} else {
			for n := r.Range(1, 3); n > 0; n-- {
				probe()
			}
			if r.Chance(1, 2) {
				for _, l := range genFtpAttempt(r) {
					sc = append(sc, MStep{Conn: c, Line: l})
				}
			}
			for n := r.Range(1, 3); n > 0; n-- {
				probe()
			}
		}
		scripts = append(scripts, sc)
	}
	in.Sched = interleave(r, scripts, r.Chance(1, 3))
	return in
}

func ftpMultiCorpus() []Input {
	l := func(c int, lines ...string) []MStep {
		var o []MStep
		for _, x := range lines {
			o = append(o, MStep{Conn: c, Line: x})
		}
		return o
	}
	cat := func(parts ...[]MStep) []MStep {
		var o []MStep
		for _, p := range parts {
			o = append(o, p...)
		}
		return o
	}
	var out []Input
	// concurrent: A logs in, B does not; B's USER must not disturb A's pending USER
	out = append(out, Input{Svc: "ftp-multi", Sched: cat(l(0, "USER anonymous"), l(1, "USER root", "MKD /b1", "PWD"), l(0, "PASS anonymous", "MKD /a1", "PWD"),
		l(1, "DELE /f.txt", "PASS root", "SIZE /f.txt", "CWD /sub"), l(0, "DELE /f.txt"), l(1, "PASS anonymous", "RMD /sub"))})
	// sequential: A logs in and quits, B connects afterwards
	out = append(out, Input{Svc: "ftp-multi", Sched: cat(l(0, "MKD /a0", "USER anonymous", "PASS anonymous", "MKD /a1", "PWD"), l(1, "PWD", "MKD /b1", "DELE /f.txt", "USER anonymous", "PASS anonymous", "DELE /f.txt"), l(2, "SIZE /a1", "RMD /a1"))})
	return out
}
