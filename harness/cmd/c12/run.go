package main

// Drivers: one real service object per case, driven through its public Handle over an
// address-carrying in-memory connection wrapped the way the server wraps it.

import (
	"bufio"
	"context"
	"errors"
	"fmt"
	"io"
	"net"
	"os"
	"path/filepath"
	"sort"
	"strconv"
	"strings"
	"sync"
	"sync/atomic"
	"time"

	"github.com/BurntSushi/toml"
	ber "github.com/go-asn1-ber/asn1-ber"
	"github.com/honeytrap/honeytrap/event"
	"github.com/honeytrap/honeytrap/server"
	"github.com/honeytrap/honeytrap/services"
	_ "github.com/honeytrap/honeytrap/services/ftp"
	_ "github.com/honeytrap/honeytrap/services/ldap"
	_ "github.com/honeytrap/honeytrap/services/ssh"
	"github.com/honeytrap/honeytrap/storage"
	"golang.org/x/crypto/ssh"

	"verif/harness/hx"
	"verif/harness/lab"
)

// ---- event recorder ----

type recChan struct {
	mu    sync.Mutex
	evs   []event.Event
	delay time.Duration // a deliberately slow pusher: every Send takes this long
}

func (c *recChan) Send(e event.Event) {
	if c.delay > 0 {
		time.Sleep(c.delay)
	}
	c.mu.Lock()
	c.evs = append(c.evs, e)
	c.mu.Unlock()
}

func (c *recChan) snapshot() []event.Event {
	c.mu.Lock()
	defer c.mu.Unlock()
	return append([]event.Event(nil), c.evs...)
}

// waitFor waits until pred holds on the recorded events (events may be sent by a goroutine
// of the service slightly after the reply was written)
func (c *recChan) waitFor(pred func([]event.Event) bool) []event.Event {
	// generous while every wait so far was satisfied (a loaded machine must not turn a late event
	// into a missing one); once an expected event really did not arrive within the long bound, the
	// run already holds a violation and the remaining cases wait briefly, so that a change which
	// drops one kind of event ends in a verdict within the minute instead of 5 s per case
	bound := 5 * time.Second
	if atomic.LoadInt32(&eventWaitExpired) > 2 {
		bound = 400 * time.Millisecond
	}
	deadline := time.Now().Add(bound)
	for {
		evs := c.snapshot()
		if pred(evs) {
			return evs
		}
		if time.Now().After(deadline) {
			atomic.AddInt32(&eventWaitExpired, 1)
			return evs
		}
		time.Sleep(time.Millisecond)
	}
}

var eventWaitExpired int32

// ---- storage / scratch file system ----

var fsBase string // <out>/fsbase ; the ftp root is fsBase/ftp/root

func setup(out string) {
	db := filepath.Join(out, "db")
	os.RemoveAll(db)
	if err := os.MkdirAll(db, 0o755); err != nil {
		hx.Fatal("mkdir: %v", err)
	}
	storage.SetDataDir(db) // one badger database per process
	fsBase = filepath.Join(out, "fsbase")
	st, err := storage.Namespace("ftp")
	if err != nil {
		hx.Fatal("storage: %v", err)
	}
	if err := st.Set("base", []byte(fsBase)); err != nil {
		hx.Fatal("storage set: %v", err)
	}
	if err := st.Set("fs_root", []byte("root")); err != nil {
		hx.Fatal("storage set: %v", err)
	}
}

func ftpRoot() string { return filepath.Join(fsBase, "ftp", "root") }

type FsEntry struct {
	Name string `json:"name"` // "/" + entry name
	Dir  bool   `json:"dir"`
}

func resetFs() []FsEntry {
	os.RemoveAll(fsBase)
	if err := os.MkdirAll(filepath.Join(ftpRoot(), "sub"), 0o755); err != nil {
		hx.Fatal("mkdir: %v", err)
	}
	if err := os.WriteFile(filepath.Join(ftpRoot(), "f.txt"), []byte("hello"), 0o644); err != nil {
		hx.Fatal("write: %v", err)
	}
	return listFs()
}

func listFs() []FsEntry {
	des, err := os.ReadDir(ftpRoot())
	if err != nil {
		return []FsEntry{{Name: "<root missing>"}}
	}
	var out []FsEntry
	for _, d := range des {
		out = append(out, FsEntry{Name: "/" + d.Name(), Dir: d.IsDir()})
	}
	sort.Slice(out, func(i, j int) bool { return out[i].Name < out[j].Name })
	return out
}

// ---- service construction through the public registry ----

func newService(name string, ch *recChan, creds []string, haveCreds bool) services.Servicer {
	fn, ok := services.Get(name)
	if !ok {
		hx.Fatal("service %q not registered", name)
	}
	opts := []services.ServicerFunc{services.WithChannel(ch)}
	if haveCreds {
		var qs []string
		for _, c := range creds {
			qs = append(qs, hx.TomlStr(c))
		}
		doc := "[s]\ncredentials=[" + strings.Join(qs, ",") + "]\n"
		var cfg struct {
			S toml.Primitive `toml:"s"`
		}
		md, err := toml.Decode(doc, &cfg)
		if err != nil {
			hx.Fatal("toml: %v", err)
		}
		opts = append(opts, services.WithConfig(cfg.S, &md))
	}
	return fn(opts...)
}

var (
	srvAddr = func(port int) net.Addr { return &net.TCPAddr{IP: net.ParseIP("192.0.2.1"), Port: port} }
	cliAddr = &net.TCPAddr{IP: net.ParseIP("198.51.100.7"), Port: 40000}
)

// serve runs svc.Handle on the server end of a pipe; done receives "" or a crash reason
func serve(svc services.Servicer, port int) (net.Conn, chan string) {
	sc, cc := lab.Pipe(srvAddr(port), cliAddr)
	done := make(chan string, 1)
	go func() {
		defer func() {
			if e := recover(); e != nil {
				sc.Close()
				done <- fmt.Sprintf("panic in Handle: %v", e)
			}
		}()
		svc.Handle(context.Background(), server.TimeoutConn(sc, 30*time.Second))
		sc.Close() // the server closes the connection when Handle returns
		done <- ""
	}()
	return cc, done
}

func waitDone(done chan string, what string) string {
	select {
	case d := <-done:
		return d
	case <-time.After(10 * time.Second):
		return what + ": Handle did not return"
	}
}

// asyncConn: writes never block the caller (net.Pipe is synchronous, and both ends of an
// SSH connection write their version line before reading)
type asyncConn struct {
	net.Conn
	q    chan []byte
	once sync.Once
}

func newAsync(c net.Conn) *asyncConn {
	a := &asyncConn{Conn: c, q: make(chan []byte, 1024)}
	go func() {
		for b := range a.q {
			if _, err := c.Write(b); err != nil {
				for range a.q {
				}
				return
			}
		}
	}()
	return a
}
func (a *asyncConn) Write(b []byte) (n int, err error) {
	defer func() {
		if recover() != nil {
			n, err = 0, io.ErrClosedPipe
		}
	}()
	a.q <- append([]byte(nil), b...)
	return len(b), nil
}
func (a *asyncConn) Close() error {
	a.once.Do(func() { close(a.q) })
	return a.Conn.Close()
}

// ================= ssh =================

type SConn struct {
	User string   `json:"user"`
	Pws  []string `json:"passwords"`
}
type SObs struct {
	Results [][]bool    `json:"results"`
	Events  [][2]string `json:"events"`
}

var errNoMore = errors.New("no more passwords")

func runSSH(creds []string, haveCreds bool, conns []SConn) (SObs, string) {
	var ob SObs
	ch := &recChan{}
	svc := newService("ssh-simulator", ch, creds, haveCreds)
	want := 0
	for _, cn := range conns {
		cc, done := serve(svc, 22)
		ac := newAsync(cc)
		i := 0
		cfg := &ssh.ClientConfig{
			User: cn.User,
			Auth: []ssh.AuthMethod{ssh.RetryableAuthMethod(ssh.PasswordCallback(func() (string, error) {
				if i >= len(cn.Pws) {
					return "", errNoMore
				}
				i++
				return cn.Pws[i-1], nil
			}), len(cn.Pws))},
			HostKeyCallback: ssh.InsecureIgnoreHostKey(),
			Timeout:         10 * time.Second,
		}
		ac.SetDeadline(time.Now().Add(20 * time.Second))
		c, chans, reqs, err := ssh.NewClientConn(ac, "pipe", cfg)
		ok := err == nil
		if ok {
			go ssh.DiscardRequests(reqs)
			go func() {
				for nc := range chans {
					nc.Reject(ssh.Prohibited, "")
				}
			}()
			c.Close()
		} else if !strings.Contains(err.Error(), "unable to authenticate") {
			ac.Close()
			waitDone(done, "ssh")
			return ob, "ssh handshake failed: " + err.Error()
		}
		ac.Close()
		if d := waitDone(done, "ssh"); d != "" {
			return ob, d
		}
		rs := make([]bool, i)
		if ok && i > 0 {
			rs[i-1] = true
		}
		if ok && i == 0 {
			return ob, "ssh: connection authenticated without a password attempt"
		}
		ob.Results = append(ob.Results, rs)
		want += i
	}
	evs := ch.waitFor(func(evs []event.Event) bool {
		n := 0
		for _, e := range evs {
			if e.Has("ssh.password") {
				n++
			}
		}
		return n >= want
	})
	ob.Events = [][2]string{}
	for _, e := range evs {
		if e.Has("ssh.password") {
			ob.Events = append(ob.Events, [2]string{e.Get("ssh.username"), e.Get("ssh.password")})
		}
	}
	return ob, ""
}

// ================= ldap =================

type LReq struct {
	Kind string `json:"kind"` // bind | bind-short | bind-badname | bind-other | op
	Ver  int64  `json:"ver,omitempty"`
	DN   string `json:"dn,omitempty"`
	Pw   string `json:"pw,omitempty"`
	Tag  int    `json:"tag,omitempty"`
}
type LReply struct {
	None bool `json:"none,omitempty"`
	Tag  int  `json:"tag"`
	Code int  `json:"code"`
}
type LEvent struct {
	Type    int    `json:"type"`
	HasUser bool   `json:"has_user"`
	User    string `json:"user,omitempty"`
	HasPw   bool   `json:"has_pw"`
	Pw      string `json:"pw,omitempty"`
}
type LObs struct {
	Replies []LReply `json:"replies"`
	Events  []LEvent `json:"events"`
}

const fenceBase = 1000
const fenceTag = 25 // an application tag no handler knows: the catch-all answers it

func ldapPacket(id int64, r LReq) []byte {
	p := ber.Encode(ber.ClassUniversal, ber.TypeConstructed, ber.TagSequence, nil, "")
	p.AppendChild(ber.NewInteger(ber.ClassUniversal, ber.TypePrimitive, ber.TagInteger, id, ""))
	switch r.Kind {
	case "bind":
		b := ber.Encode(ber.ClassApplication, ber.TypeConstructed, 0, nil, "")
		b.AppendChild(ber.NewInteger(ber.ClassUniversal, ber.TypePrimitive, ber.TagInteger, r.Ver, ""))
		b.AppendChild(ber.NewString(ber.ClassUniversal, ber.TypePrimitive, ber.TagOctetString, r.DN, ""))
		b.AppendChild(ber.NewString(ber.ClassContext, ber.TypePrimitive, 0, r.Pw, ""))
		p.AppendChild(b)
	case "bind-short": // fewer than 3 elements: Tag of them (0..2)
		b := ber.Encode(ber.ClassApplication, ber.TypeConstructed, 0, nil, "")
		if r.Tag >= 1 {
			b.AppendChild(ber.NewInteger(ber.ClassUniversal, ber.TypePrimitive, ber.TagInteger, r.Ver, ""))
		}
		if r.Tag >= 2 {
			b.AppendChild(ber.NewString(ber.ClassUniversal, ber.TypePrimitive, ber.TagOctetString, r.DN, ""))
		}
		p.AppendChild(b)
	case "bind-badname": // the name element is an INTEGER
		b := ber.Encode(ber.ClassApplication, ber.TypeConstructed, 0, nil, "")
		b.AppendChild(ber.NewInteger(ber.ClassUniversal, ber.TypePrimitive, ber.TagInteger, r.Ver, ""))
		b.AppendChild(ber.NewInteger(ber.ClassUniversal, ber.TypePrimitive, ber.TagInteger, int64(7), ""))
		b.AppendChild(ber.NewString(ber.ClassContext, ber.TypePrimitive, 0, r.Pw, ""))
		p.AppendChild(b)
	case "bind-other": // authentication choice sasl [3] { mechanism, credentials }
		b := ber.Encode(ber.ClassApplication, ber.TypeConstructed, 0, nil, "")
		b.AppendChild(ber.NewInteger(ber.ClassUniversal, ber.TypePrimitive, ber.TagInteger, r.Ver, ""))
		b.AppendChild(ber.NewString(ber.ClassUniversal, ber.TypePrimitive, ber.TagOctetString, r.DN, ""))
		sasl := ber.Encode(ber.ClassContext, ber.TypeConstructed, 3, nil, "")
		sasl.AppendChild(ber.NewString(ber.ClassUniversal, ber.TypePrimitive, ber.TagOctetString, "PLAIN", ""))
		sasl.AppendChild(ber.NewString(ber.ClassUniversal, ber.TypePrimitive, ber.TagOctetString, "\x00"+r.DN+"\x00"+r.Pw, ""))
		b.AppendChild(sasl)
		p.AppendChild(b)
	default:
		if r.Tag == 10 { // DelRequest ::= [APPLICATION 10] LDAPDN (primitive)
			p.AppendChild(ber.NewString(ber.ClassApplication, ber.TypePrimitive, 10, "cn=x,dc=example,dc=com", ""))
		} else {
			b := ber.Encode(ber.ClassApplication, ber.TypeConstructed, ber.Tag(r.Tag), nil, "")
			b.AppendChild(ber.NewString(ber.ClassUniversal, ber.TypePrimitive, ber.TagOctetString, "cn=x,dc=example,dc=com", ""))
			p.AppendChild(b)
		}
	}
	return p.Bytes()
}

var ldapTypes = map[string]int{"bind": 1, "modify": 2, "add": 3, "delete": 4, "modify-dn": 5, "compare": 6, "abandon": 7}

func runLDAP(creds []string, haveCreds bool, reqs []LReq) (LObs, string) {
	var ob LObs
	ch := &recChan{}
	svc := newService("ldap", ch, creds, haveCreds)
	cc, done := serve(svc, 389)
	rd := bufio.NewReader(cc)
	fail := func(what string) (LObs, string) {
		cc.Close()
		select {
		case d := <-done:
			if d != "" {
				return ob, d
			}
		case <-time.After(2 * time.Second):
		}
		return ob, what
	}
	for i, r := range reqs {
		id := int64(i + 1)
		msg := append(ldapPacket(id, r), ldapPacket(fenceBase+id, LReq{Kind: "op", Tag: fenceTag})...)
		go func() {
			cc.SetWriteDeadline(time.Now().Add(10 * time.Second))
			cc.Write(msg)
		}()
		var got []LReply
		for {
			cc.SetReadDeadline(time.Now().Add(10 * time.Second))
			p, err := ber.ReadPacket(rd)
			if err != nil {
				return fail(fmt.Sprintf("ldap request %d: no reply: %v", i, err))
			}
			if len(p.Children) < 2 || len(p.Children[1].Children) < 1 {
				return fail(fmt.Sprintf("ldap request %d: malformed reply", i))
			}
			mid, _ := p.Children[0].Value.(int64)
			code, _ := p.Children[1].Children[0].Value.(int64)
			if mid == fenceBase+id {
				break
			}
			if mid != id {
				return fail(fmt.Sprintf("ldap request %d: reply with message id %d", i, mid))
			}
			got = append(got, LReply{Tag: int(p.Children[1].Tag), Code: int(code)})
		}
		switch len(got) {
		case 0:
			ob.Replies = append(ob.Replies, LReply{None: true})
		case 1:
			ob.Replies = append(ob.Replies, got[0])
		default:
			return fail(fmt.Sprintf("ldap request %d: %d replies", i, len(got)))
		}
	}
	cc.Close()
	if d := waitDone(done, "ldap"); d != "" {
		return ob, d
	}
	isReq := func(e event.Event) (int64, bool) {
		var id int64 = -1
		e.Range(func(k, v interface{}) bool {
			if k == "ldap.message-id" {
				if x, ok := v.(int64); ok {
					id = x
				}
			}
			return true
		})
		return id, id >= 1 && id < fenceBase
	}
	evs := ch.waitFor(func(evs []event.Event) bool {
		n := 0
		for _, e := range evs {
			if _, ok := isReq(e); ok {
				n++
			}
		}
		return n >= len(reqs)
	})
	ob.Events = []LEvent{}
	for _, e := range evs {
		if _, ok := isReq(e); !ok {
			continue
		}
		le := LEvent{}
		if e.Has("ldap.request-type") {
			t, ok := ldapTypes[e.Get("ldap.request-type")]
			if !ok {
				t = 99
			}
			le.Type = t
		}
		if e.Has("ldap.username") {
			le.HasUser, le.User = true, e.Get("ldap.username")
		}
		if e.Has("ldap.password") {
			le.HasPw, le.Pw = true, e.Get("ldap.password")
		}
		ob.Events = append(ob.Events, le)
	}
	return ob, ""
}

// ================= ftp =================

type FObs struct {
	Fs0    []FsEntry `json:"fs0"`
	Codes  [][]int   `json:"codes"`
	Events []string  `json:"events"`
	Fs1    []FsEntry `json:"fs1"`
}

const ftpFence = "OPTS UTF8 ON"
const ftpFenceReply = "200 UTF8 mode enabled"

// runFTP drives one control connection.  burst=false: lock step (one line, its replies, next
// line).  burst=true: ALL lines are written in ONE segment (a pipelining client) while the
// recording channel is slow (slow per event), so that the service's event pump lags behind the
// command loop; every line must still produce exactly one ftp.command event, in order.  Burst
// lines are restricted by the generator to commands that answer with exactly one coded line.
func runFTP(lines []string, burst bool, slow time.Duration) (FObs, string) {
	var ob FObs
	ob.Fs0 = resetFs()
	ch := &recChan{delay: slow}
	svc := newService("ftp", ch, nil, false)
	cc, done := serve(svc, 21)
	rd := bufio.NewReader(cc)
	fail := func(what string) (FObs, string) {
		cc.Close()
		select {
		case d := <-done:
			if d != "" {
				return ob, d
			}
		case <-time.After(2 * time.Second):
		}
		return ob, what
	}
	cc.SetReadDeadline(time.Now().Add(10 * time.Second))
	if l, err := rd.ReadString('\n'); err != nil || !strings.HasPrefix(l, "220 ") {
		return fail(fmt.Sprintf("ftp greeting: %q %v", l, err))
	}
	// replies up to the fence reply
	untilFence := func(i int) ([]int, error) {
		codes := []int{}
		for {
			cc.SetReadDeadline(time.Now().Add(10 * time.Second))
			l, err := rd.ReadString('\n')
			if err != nil {
				return codes, fmt.Errorf("ftp line %d: %v", i, err)
			}
			l = strings.TrimRight(l, "\r\n")
			if l == ftpFenceReply {
				return codes, nil
			}
			if len(l) >= 4 && l[3] == ' ' {
				if n, err := strconv.Atoi(l[:3]); err == nil {
					codes = append(codes, n)
				}
			}
		}
	}
	want := 2 * len(lines)
	if burst {
		want = len(lines) + 1
		msg := []byte(strings.Join(lines, "") + ftpFence + "\r\n")
		go func() {
			cc.SetWriteDeadline(time.Now().Add(10 * time.Second))
			cc.Write(msg) // one segment
		}()
		flat, err := untilFence(0)
		if err != nil {
			return fail(err.Error())
		}
		for i := range lines {
			cs := []int{}
			if i < len(flat) {
				cs = append(cs, flat[i])
			}
			if i == len(lines)-1 && len(flat) > len(lines) {
				cs = append(cs, flat[len(lines):]...)
			}
			ob.Codes = append(ob.Codes, cs)
		}
	} else {
		for i, line := range lines {
			msg := []byte(line + ftpFence + "\r\n")
			go func() {
				cc.SetWriteDeadline(time.Now().Add(10 * time.Second))
				cc.Write(msg)
			}()
			codes, err := untilFence(i)
			if err != nil {
				return fail(err.Error())
			}
			ob.Codes = append(ob.Codes, codes)
		}
	}
	evs := ch.waitFor(func(evs []event.Event) bool { return len(evs) >= want })
	go func() { cc.Write([]byte("QUIT\r\n")) }()
	cc.SetReadDeadline(time.Now().Add(5 * time.Second))
	io.Copy(io.Discard, rd)
	cc.Close()
	if d := waitDone(done, "ftp"); d != "" {
		return ob, d
	}
	ob.Events = []string{}
	for k, e := range evs {
		c := e.Get("ftp.command")
		if burst {
			if c == ftpFence && k == len(evs)-1 {
				continue // the single fence at the end of the segment
			}
			if c == "QUIT" && k >= len(lines) {
				continue // the QUIT of the harness
			}
		} else {
			if k >= want {
				break // the QUIT of the harness
			}
			if k%2 == 1 && c == ftpFence {
				continue
			}
		}
		ob.Events = append(ob.Events, c)
	}
	ob.Fs1 = listFs()
	return ob, ""
}
