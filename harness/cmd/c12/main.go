// C12 harness: logins succeed exactly for configured credentials; gated commands stay gated.
//
// Three kinds of cases in one part ("auth"), each on a NEW service object obtained from the
// public registry (services.Get) and driven through Handle over lab.Pipe wrapped in
// server.TimeoutConn:
//   ssh  - ssh-simulator with a credentials list; golang.org/x/crypto/ssh clients (one or
//          more connections, each one user and up to four passwords presented in order);
//          observed: outcome of every attempt made, the password-authentication events;
//   ldap - ldap with a credentials list; BER requests built with asn1-ber: simple binds
//          (name forms cn=..,sn=..,with/without suffix; versions 3,2,1,0) interleaved with
//          modify/add/delete/modifyDN/compare/abandon/unknown requests; observed: response
//          tag + result code per request, request-type/username/password of every event;
//   ftp  - ftp (its users map is fixed in the code); command lines (USER/PASS attempts,
//          probes before and after, a sweep over every name of the commands table with and
//          without argument); observed: reply codes per line, ftp.command events, the
//          service root before and after;
//   ftp-burst - the same service with a pipelining client: 20-40 control lines followed by
//          USER/PASS attempts and probes written in ONE segment, the recording channel
//          deliberately slow (1-2 ms per event) so that the event pump lags behind the command
//          loop; every line must still yield exactly one ftp.command event, in order.
package main

import (
	"fmt"
	"io"
	"log"
	"strings"
	"time"

	"verif/harness/hx"
)

type Input struct {
	Svc       string   `json:"svc"` // ssh | ldap | ftp | ldap-multi | ftp-multi
	Creds     []string `json:"creds,omitempty"`
	HaveCreds bool     `json:"have_creds"` // false: no credentials key (the service's default)
	Conns     []SConn  `json:"conns,omitempty"`
	Reqs      []LReq   `json:"reqs,omitempty"`
	Lines     []string `json:"lines,omitempty"`
	Sched     []MStep  `json:"sched,omitempty"`   // ldap-multi | ftp-multi: (connection, request) in execution order
	Burst     bool     `json:"burst,omitempty"`   // ftp: all lines in one segment
	SlowUs    int      `json:"slow_us,omitempty"` // ftp: the recording channel sleeps this long per event
}

var users = []string{"root", "admin", "guest", ""}
var passwords = []string{"root", "admin", "123456", ""}

func allPairs() [][2]string {
	var out [][2]string
	for _, u := range users {
		for _, p := range passwords {
			out = append(out, [2]string{u, p})
		}
	}
	return out
}

// a credentials list: 0..3 pairs, sometimes the wildcard, names without ':', odd entries
var oddCreds = []string{"root", "admin", "guest", "", "root:root:root", "root:", ":root", ":", "*:*", "root:*", "**", " *"}

func genCreds(r *hx.Rand) []string {
	pairs := allPairs()
	n := r.Range(0, 3)
	var cs []string
	for i := 0; i < n; i++ {
		p := pairs[r.Intn(len(pairs))]
		cs = append(cs, p[0]+":"+p[1])
	}
	if r.Chance(1, 5) {
		k := r.Intn(len(cs) + 1)
		cs = append(cs[:k], append([]string{"*"}, cs[k:]...)...)
	}
	if r.Chance(1, 3) {
		k := r.Intn(len(cs) + 1)
		cs = append(cs[:k], append([]string{r.PickStr(oddCreds)}, cs[k:]...)...)
	}
	return cs
}

// an attempt: half of the time one that some entry of the list names
var oddUsers = []string{"Root", " root", "root ", "ro:ot", "*", "anonymous", "root\tx"}
var oddPws = []string{" root", "root ", "Root", "ROOT", "ro:ot", "123456 ", "*", "root\t", "  ", "a very long password with blanks and more than thirty-two characters"}

func genAttempt(r *hx.Rand, creds []string) (string, string) {
	if r.Chance(1, 8) {
		u, p := r.PickStr(users), r.PickStr(passwords)
		if r.Bool() {
			u = r.PickStr(oddUsers)
		}
		if r.Bool() {
			p = r.PickStr(oddPws)
		}
		return u, p
	}
	if len(creds) > 0 && r.Chance(1, 2) {
		c := creds[r.Intn(len(creds))]
		if i := strings.Index(c, ":"); i >= 0 {
			return c[:i], c[i+1:]
		}
		return c, r.PickStr(passwords)
	}
	return r.PickStr(users), r.PickStr(passwords)
}

// ---- ssh ----

func genSSH(r *hx.Rand) Input {
	in := Input{Svc: "ssh", HaveCreds: true, Creds: genCreds(r)}
	nc := r.Range(1, 3)
	left := 4 // attempts in the case
	for i := 0; i < nc && left > 0; i++ {
		u, p := genAttempt(r, in.Creds)
		cn := SConn{User: u, Pws: []string{p}}
		left--
		for left > 0 && r.Chance(1, 2) {
			if r.Chance(1, 3) {
				_, p = genAttempt(r, in.Creds)
			} else {
				p = r.PickStr(passwords)
			}
			cn.Pws = append(cn.Pws, p)
			left--
		}
		// the failing passwords first, more often than not (so that later ones are reached)
		in.Conns = append(in.Conns, cn)
	}
	return in
}

func sshCorpus(tier string) []Input {
	var out []Input
	// the default configuration (no credentials key): wildcard
	out = append(out, Input{Svc: "ssh", Conns: []SConn{{User: "root", Pws: []string{"anything"}}, {User: "", Pws: []string{""}}}})
	// empty list, wildcard in different positions, entries without ':' and with two ':'
	out = append(out, Input{Svc: "ssh", HaveCreds: true, Creds: []string{}, Conns: []SConn{{User: "root", Pws: []string{"root", "", "admin", "123456"}}}})
	out = append(out, Input{Svc: "ssh", HaveCreds: true, Creds: []string{"root:root", "*"}, Conns: []SConn{{User: "guest", Pws: []string{"x"}}}})
	out = append(out, Input{Svc: "ssh", HaveCreds: true, Creds: []string{"root", "root:root:root", "admin:admin"}, Conns: []SConn{{User: "root", Pws: []string{"", "root", "root:root"}}, {User: "root:root", Pws: []string{"root"}}, {User: "admin", Pws: []string{"123456", "admin"}}}})
	out = append(out, Input{Svc: "ssh", HaveCreds: true, Creds: []string{":", "guest:"}, Conns: []SConn{{User: "", Pws: []string{"root", ""}}, {User: "guest", Pws: []string{"guest", ""}}}})
	out = append(out, Input{Svc: "ssh", HaveCreds: true, Creds: []string{"root:123456"}, Conns: []SConn{{User: "root", Pws: []string{"root", "admin", "", "123456"}}, {User: "admin", Pws: []string{"123456"}}, {User: "root", Pws: []string{"123456"}}}})
	// every pair of the quantifier against fixed lists (one connection per pair, one service object)
	lists := [][]string{{"root:root"}, {"admin:123456", "guest:", ":admin"}}
	if tier != "quick" {
		lists = append(lists, []string{}, []string{"*"}, []string{":"}, []string{"root:", "root:admin", "guest:guest"}, []string{"admin", "admin:admin"})
		for _, p := range allPairs() {
			lists = append(lists, []string{p[0] + ":" + p[1]})
		}
	}
	for _, l := range lists {
		var conns []SConn
		for _, u := range users {
			conns = append(conns, SConn{User: u, Pws: append([]string(nil), passwords...)})
		}
		out = append(out, Input{Svc: "ssh", HaveCreds: true, Creds: l, Conns: conns})
	}
	return out
}

// ---- ldap ----

var gatedTags = []int{6, 8, 10, 12, 14}

func dnForm(r *hx.Rand, u string) string {
	switch r.Intn(9) {
	case 0, 1:
		return u
	case 2:
		return "cn=" + u
	case 3:
		return "cn=" + u + ",dc=example,dc=com"
	case 4:
		return "sn=" + u + ",ou=people"
	case 5:
		return "uid=" + u + ",dc=example,dc=com"
	case 6:
		return u + ",dc=example,dc=com"
	case 7:
		return "cn=cn=" + u
	default:
		return "CN=" + u
	}
}

func genOddBind(r *hx.Rand, creds []string) LReq {
	u, p := genAttempt(r, creds)
	ver := int64(r.PickInt([]int{3, 3, 2, 1, 0}))
	switch r.Intn(3) {
	case 0:
		return LReq{Kind: "bind-short", Ver: ver, DN: dnForm(r, u), Tag: r.Range(0, 2)}
	case 1:
		return LReq{Kind: "bind-badname", Ver: ver, Pw: p}
	default:
		return LReq{Kind: "bind-other", Ver: ver, DN: dnForm(r, u), Pw: p}
	}
}

func genProbe(r *hx.Rand) LReq {
	if r.Chance(1, 8) {
		return LReq{Kind: "op", Tag: r.PickInt([]int{16, 26, 30})}
	}
	return LReq{Kind: "op", Tag: r.PickInt(gatedTags)}
}

func genLDAP(r *hx.Rand) Input {
	in := Input{Svc: "ldap", HaveCreds: true, Creds: genCreds(r)}
	n := r.Range(1, 4)
	if r.Chance(3, 4) {
		in.Reqs = append(in.Reqs, genProbe(r))
	}
	for i := 0; i < n; i++ {
		u, p := genAttempt(r, in.Creds)
		ver := int64(3)
		switch r.Intn(12) {
		case 0:
			ver = 2
		case 1, 2:
			ver = int64(r.PickInt([]int{1, 0}))
		}
		in.Reqs = append(in.Reqs, LReq{Kind: "bind", Ver: ver, DN: dnForm(r, u), Pw: p})
		for k := r.Range(0, 2); k > 0; k-- {
			if r.Chance(1, 10) {
				in.Reqs = append(in.Reqs, genOddBind(r, in.Creds))
			}
			in.Reqs = append(in.Reqs, genProbe(r))
		}
	}
	return in
}

func ldapCorpus(tier string) []Input {
	var out []Input
	probes := func() []LReq {
		var ps []LReq
		for _, t := range gatedTags {
			ps = append(ps, LReq{Kind: "op", Tag: t})
		}
		return ps
	}
	bind := func(dn, pw string) LReq { return LReq{Kind: "bind", Ver: 3, DN: dn, Pw: pw} }
	seq := func(parts ...[]LReq) []LReq {
		var o []LReq
		for _, p := range parts {
			o = append(o, p...)
		}
		return o
	}
	// regression witness of the repaired defect (eb36456): a version-1 bind must leave its name and password in the event
	out = append(out, Input{Svc: "ldap", HaveCreds: true, Creds: []string{"root:root"}, Reqs: []LReq{{Kind: "bind", Ver: 1, DN: "root", Pw: "root"}}})
	// default configuration (root:root): all gated operations before, after a wrong, after the right bind
	out = append(out, Input{Svc: "ldap", Reqs: seq(probes(), []LReq{bind("cn=root,dc=example,dc=com", "admin")}, probes(), []LReq{bind("cn=root,dc=example,dc=com", "root")}, probes())})
	// anonymous bind succeeds and is not a login; a later failed bind keeps an earlier login
	out = append(out, Input{Svc: "ldap", HaveCreds: true, Creds: []string{"admin:admin"}, Reqs: seq([]LReq{bind("", "")}, probes(), []LReq{bind("admin", "admin")}, probes(), []LReq{bind("admin", "x")}, probes(), []LReq{bind("", "")}, probes())})
	// the wildcard entry and names without ':' name nobody in this service
	out = append(out, Input{Svc: "ldap", HaveCreds: true, Creds: []string{"*", "root"}, Reqs: seq([]LReq{bind("root", "root"), bind("*", ""), bind("root", "")}, probes())})
	// empty user name with a password: accepted when listed, but the session stays anonymous
	out = append(out, Input{Svc: "ldap", HaveCreds: true, Creds: []string{":123456", "root:"}, Reqs: seq([]LReq{bind("", "123456")}, probes(), []LReq{bind("root", "")}, probes(), []LReq{bind(",dc=com", "123456")}, probes())})
	// the returns of bind.go that precede the version check, for old and current versions,
	// before and after a login
	out = append(out, Input{Svc: "ldap", HaveCreds: true, Creds: []string{"root:root"}, Reqs: []LReq{
		{Kind: "bind-short", Ver: 1, Tag: 1}, {Kind: "bind-short", Ver: 3, DN: "cn=root", Tag: 2}, {Kind: "bind-short", Tag: 0},
		{Kind: "bind-badname", Ver: 1, Pw: "root"}, {Kind: "bind-badname", Ver: 3, Pw: "root"},
		{Kind: "bind-other", Ver: 1, DN: "cn=root,dc=example,dc=com", Pw: "root"}, {Kind: "bind-other", Ver: 3, DN: "sn=admin", Pw: "x"},
		{Kind: "op", Tag: 6}, bind("root", "root"), {Kind: "op", Tag: 6},
		{Kind: "bind-short", Ver: 3, Tag: 1}, {Kind: "bind-badname", Ver: 0, Pw: ""}, {Kind: "bind-other", Ver: 3, DN: "root", Pw: "root"}, {Kind: "op", Tag: 8}}})
	// old protocol versions, abandon, unknown operations
	out = append(out, Input{Svc: "ldap", HaveCreds: true, Creds: []string{"root:root"}, Reqs: []LReq{{Kind: "bind", Ver: 1, DN: "root", Pw: "root"}, {Kind: "op", Tag: 6}, {Kind: "bind", Ver: 0, DN: "root", Pw: "root"}, {Kind: "op", Tag: 16}, {Kind: "bind", Ver: 2, DN: "root", Pw: "root"}, {Kind: "op", Tag: 16}, {Kind: "op", Tag: 26}, {Kind: "op", Tag: 14}}})
	lists := [][]string{{"root:root"}, {"admin:123456", "guest:", ":admin"}}
	if tier != "quick" {
		lists = append(lists, []string{}, []string{"*"}, []string{":"}, []string{"root:", "root:admin", "guest:guest"})
		for _, p := range allPairs() {
			lists = append(lists, []string{p[0] + ":" + p[1]})
		}
	}
	for _, l := range lists {
		for _, u := range users {
			var reqs []LReq
			for _, p := range passwords {
				reqs = append(reqs, LReq{Kind: "op", Tag: gatedTags[(len(reqs)/2)%len(gatedTags)]}, bind("cn="+u+",dc=example,dc=com", p))
			}
			reqs = append(reqs, LReq{Kind: "op", Tag: 8})
			out = append(out, Input{Svc: "ldap", HaveCreds: true, Creds: l, Reqs: reqs})
		}
	}
	return out
}

// ---- ftp ----

var ftpUsers = []string{"root", "admin", "guest", "", "anonymous"}
var ftpPws = []string{"root", "admin", "123456", "", "anonymous"}

// every name of the commands table (cmd.go)
var ftpNames = []string{"ADAT", "ALLO", "APPE", "AUTH", "CDUP", "CWD", "CCC", "CONF", "DELE", "ENC", "EPRT", "EPSV", "FEAT",
	"LIST", "NLST", "MDTM", "MIC", "MKD", "MODE", "NOOP", "OPTS", "PASS", "PASV", "PBSZ", "PORT", "PROT", "PWD", "QUIT",
	"RETR", "REST", "RNFR", "RNTO", "RMD", "SIZE", "STOR", "STRU", "SYST", "TYPE", "USER", "XCUP", "XCWD", "XPWD", "XRMD"}

// probes whose outcome the model covers when they are executed (no data connection)
func genFtpProbe(r *hx.Rand, k int) string {
	path := r.PickStr([]string{"/f.txt", "/sub", "/nofile", fmt.Sprintf("/m%d", k), "/m0"})
	switch r.Intn(22) {
	case 0:
		return "PWD"
	case 1:
		return "CWD " + r.PickStr([]string{"/sub", "/nofile", "/", fmt.Sprintf("/m%d", k)})
	case 2:
		return "CDUP"
	case 3, 4:
		return "MKD " + r.PickStr([]string{fmt.Sprintf("/m%d", k), "/m0", "/sub"})
	case 5:
		return "RMD " + path
	case 6, 7:
		return "DELE " + path
	case 8:
		return "SIZE " + path
	case 9:
		return "MDTM " + path
	case 10:
		return "LIST"
	case 11:
		return "NLST " + r.PickStr([]string{"/", "/sub", "/nofile"})
	case 12:
		return "RETR /nofile"
	case 13:
		return "RNFR " + path
	case 14:
		return "REST " + r.PickStr([]string{"0", "17", "x"})
	case 15:
		return "APPE"
	case 16:
		return "TYPE " + r.PickStr([]string{"I", "a", "X"})
	case 17:
		return r.PickStr([]string{"MODE S", "MODE B", "STRU F", "STRU R", "SYST", "NOOP", "ALLO", "FEAT"})
	case 18:
		return r.PickStr([]string{"XPWD", "XCWD /sub", "XCUP", "XRMD /sub", "XMKD /q", "SITE HELP", "HELP"})
	case 19:
		return r.PickStr([]string{"mkd /lower", "Dele /f.txt", "pwd", "cwd", "DELE", "MKD", "SIZE  ", "RMD \t"})
	case 20:
		return r.PickStr([]string{"PBSZ 0", "PROT P", "AUTH SSL", "ADAT x", "CCC x", "CONF x", "ENC x", "MIC x"})
	default:
		return "STOR" // without argument: 553 whether logged in or not
	}
}

func genFtpAttempt(r *hx.Rand) []string {
	u, p := r.PickStr(ftpUsers), r.PickStr(ftpPws)
	if r.Chance(1, 3) {
		u, p = "anonymous", "anonymous"
	}
	uc, pc := "USER", "PASS"
	if r.Chance(1, 8) {
		uc, pc = "user", "Pass"
	}
	switch r.Intn(10) {
	case 0:
		return []string{pc + " " + p} // PASS without USER
	case 1:
		return []string{uc + " " + u} // USER without PASS
	case 2:
		return []string{uc + " " + u, uc + " " + r.PickStr(ftpUsers), pc + " " + p} // USER twice
	case 3:
		return []string{uc + "  " + u + " ", pc + " " + p + "  "} // blanks around the arguments
	default:
		return []string{uc + " " + u, pc + " " + p}
	}
}

func genFTP(r *hx.Rand) Input {
	in := Input{Svc: "ftp"}
	n := r.Range(1, 4)
	k := 0
	probe := func() {
		for j := r.Range(0, 2); j > 0; j-- {
			k++
			in.Lines = append(in.Lines, genFtpProbe(r, k))
		}
	}
	probe()
	for i := 0; i < n; i++ {
		in.Lines = append(in.Lines, genFtpAttempt(r)...)
		probe()
	}
	return in
}

// ---- ftp, pipelined: 20-40 control lines and the USER/PASS attempts in one segment, slow pusher ----

// commands that answer with exactly one coded reply line, logged in or not
var burstFillers = []string{"NOOP", "SYST", "FEAT", "ALLO", "PWD", "TYPE I", "MODE S", "STRU F", "HELP", "noop", "APPE", "REST 0"}
var burstProbes = []string{"PWD", "MKD /m1", "MKD /m2", "DELE /f.txt", "SIZE /f.txt", "SIZE /nofile", "CWD /sub", "RMD /sub", "CDUP", "RNFR /f.txt", "DELE /nofile"}

func genFTPBurst(r *hx.Rand) Input {
	in := Input{Svc: "ftp", Burst: true, SlowUs: r.PickInt([]int{1000, 1500, 2000})}
	for n := r.Range(20, 40); n > 0; n-- {
		in.Lines = append(in.Lines, r.PickStr(burstFillers))
	}
	for a := r.Range(1, 3); a > 0; a-- {
		u, p := r.PickStr(ftpUsers), r.PickStr(ftpPws)
		if r.Chance(1, 2) {
			u, p = "anonymous", "anonymous"
		}
		in.Lines = append(in.Lines, "USER "+u)
		for k := r.Range(0, 2); k > 0; k-- {
			in.Lines = append(in.Lines, r.PickStr(burstFillers))
		}
		in.Lines = append(in.Lines, "PASS "+p)
		for k := r.Range(0, 3); k > 0; k-- {
			in.Lines = append(in.Lines, r.PickStr(burstProbes))
		}
	}
	return in
}

func ftpBurstCorpus() []Input {
	var out []Input
	mk := func(n int, tail ...string) Input {
		in := Input{Svc: "ftp", Burst: true, SlowUs: 1500}
		for i := 0; i < n; i++ {
			in.Lines = append(in.Lines, "NOOP")
		}
		in.Lines = append(in.Lines, tail...)
		return in
	}
	out = append(out, mk(20, "USER anonymous", "PASS anonymous"))
	out = append(out, mk(30, "USER root", "PASS root", "USER admin", "PASS 123456", "USER anonymous", "PASS anonymous", "MKD /m1", "PWD"))
	out = append(out, mk(40, "USER guest", "PASS guest", "DELE /f.txt"))
	return out
}

func ftpCorpus(tier string) []Input {
	var out []Input
	// sweep: every command of the table, without and with an argument, nobody logged in;
	// QUIT and "AUTH TLS" end/alter the control connection and are left out
	sweep := func(prefix []string) Input {
		in := Input{Svc: "ftp", Lines: append([]string(nil), prefix...)}
		for _, n := range ftpNames {
			if n == "QUIT" || n == "PASS" || n == "USER" {
				continue
			}
			in.Lines = append(in.Lines, n, n+" /f.txt")
		}
		return in
	}
	out = append(out, sweep(nil))
	out = append(out, sweep([]string{"USER root", "PASS root", "USER anonymous", "PASS", "PASS wrong"}))
	// the one configured pair; a failed attempt afterwards does not log out
	out = append(out, Input{Svc: "ftp", Lines: []string{"DELE /f.txt", "MKD /m1", "USER anonymous", "MKD /m2", "PASS anonymous", "MKD /m3", "DELE /f.txt", "DELE /f.txt", "USER root", "PASS root", "PWD", "RMD /sub", "CWD /sub", "MDTM /m3", "MDTM /nofile", "LIST", "SIZE /m3"}})
	// every user x password pair as a session of its own, with probes before and after
	for _, u := range ftpUsers {
		for _, p := range ftpPws {
			if tier == "quick" && u != "anonymous" && p != "anonymous" && u != p {
				continue
			}
			out = append(out, Input{Svc: "ftp", Lines: []string{"MKD /a", "USER " + u, "DELE /f.txt", "PASS " + p, "MKD /b", "PWD", "SIZE /f.txt"}})
		}
	}
	return out
}

// ---- rendering ----

func coqStrs(xs []string) string {
	var es []string
	for _, x := range xs {
		es = append(es, hx.CoqStr(x))
	}
	return hx.CoqList(es, "str")
}

func coqFs(es []FsEntry) string {
	var xs []string
	for _, e := range es {
		xs = append(xs, "("+hx.CoqStr(e.Name)+", "+hx.CoqBool(e.Dir)+")")
	}
	return hx.CoqList(xs, "(str * bool)")
}

func effCreds(in Input) []string {
	if in.HaveCreds {
		return in.Creds
	}
	switch in.Svc {
	case "ssh":
		return []string{"*"} // ssh-simulator.go: Credentials: []string{"*"}
	case "ldap", "ldap-multi":
		return []string{"root:root"} // ldap.go: Credentials: []string{"root:root"}
	}
	return nil
}

func coqSSH(id int, in Input, ob SObs) string {
	var conns, rss, evs []string
	for _, c := range in.Conns {
		conns = append(conns, "("+hx.CoqStr(c.User)+", "+coqStrs(c.Pws)+")")
	}
	for _, rs := range ob.Results {
		var bs []string
		for _, b := range rs {
			bs = append(bs, hx.CoqBool(b))
		}
		rss = append(rss, hx.CoqList(bs, "bool"))
	}
	for _, e := range ob.Events {
		evs = append(evs, "("+hx.CoqStr(e[0])+", "+hx.CoqStr(e[1])+")")
	}
	return fmt.Sprintf("CS (mkSCase %s %s %s %s %s)", hx.CoqN(uint64(id)), coqStrs(effCreds(in)),
		hx.CoqList(conns, "(str * list str)"), hx.CoqList(rss, "(list bool)"), hx.CoqList(evs, "(str * str)"))
}

func coqLDAP(id int, in Input, ob LObs) string {
	var reqs, rps, evs []string
	for _, r := range in.Reqs {
		switch r.Kind {
		case "bind":
			reqs = append(reqs, fmt.Sprintf("LBind %s %s %s", hx.CoqZ(r.Ver), hx.CoqStr(r.DN), hx.CoqStr(r.Pw)))
		case "bind-short":
			reqs = append(reqs, "LBindShort "+hx.CoqZ(r.Ver))
		case "bind-badname":
			reqs = append(reqs, "LBindBadName "+hx.CoqZ(r.Ver))
		case "bind-other":
			reqs = append(reqs, fmt.Sprintf("LBindOther %s %s", hx.CoqZ(r.Ver), hx.CoqStr(r.DN)))
		default:
			reqs = append(reqs, "LOp "+hx.CoqN(uint64(r.Tag)))
		}
	}
	for _, r := range ob.Replies {
		if r.None {
			rps = append(rps, "(@None (N * N))")
		} else {
			rps = append(rps, fmt.Sprintf("(Some (%s, %s))", hx.CoqN(uint64(r.Tag)), hx.CoqN(uint64(r.Code))))
		}
	}
	for _, e := range ob.Events {
		evs = append(evs, fmt.Sprintf("mkLE %s %s %s", hx.CoqN(uint64(e.Type)),
			hx.CoqOpt(hx.CoqStr(e.User), e.HasUser, "str"), hx.CoqOpt(hx.CoqStr(e.Pw), e.HasPw, "str")))
	}
	return fmt.Sprintf("CL (mkLCase %s %s %s %s %s)", hx.CoqN(uint64(id)), coqStrs(effCreds(in)),
		hx.CoqList(reqs, "lreq"), hx.CoqList(rps, "lreply"), hx.CoqList(evs, "levent"))
}

func coqFTP(id int, in Input, ob FObs) string {
	var lines, codes []string
	for _, l := range in.Lines {
		lines = append(lines, hx.CoqStr(l+"\r\n"))
	}
	for _, cs := range ob.Codes {
		var xs []string
		for _, c := range cs {
			xs = append(xs, hx.CoqN(uint64(c)))
		}
		codes = append(codes, hx.CoqList(xs, "N"))
	}
	return fmt.Sprintf("CF (mkFCase %s %s %s %s %s %s)", hx.CoqN(uint64(id)), coqFs(ob.Fs0),
		hx.CoqList(lines, "str"), hx.CoqList(codes, "(list N)"), coqStrs(ob.Events), coqFs(ob.Fs1))
}

func runCase(id int, in Input) hx.Case {
	c := hx.Case{ID: id, Kind: in.Svc, Input: in}
	switch in.Svc {
	case "ssh":
		ob, crash := runSSH(in.Creds, in.HaveCreds, in.Conns)
		c.Obs, c.Crash = ob, crash
		c.Coq = coqSSH(id, in, ob)
	case "ldap":
		ob, crash := runLDAP(in.Creds, in.HaveCreds, in.Reqs)
		c.Obs, c.Crash = ob, crash
		c.Coq = coqLDAP(id, in, ob)
	case "ftp":
		lines := make([]string, len(in.Lines))
		for i, l := range in.Lines {
			lines[i] = l + "\r\n"
		}
		if in.Burst {
			c.Kind = "ftp-burst"
		}
		ob, crash := runFTP(lines, in.Burst, time.Duration(in.SlowUs)*time.Microsecond)
		c.Obs, c.Crash = ob, crash
		c.Coq = coqFTP(id, in, ob)
	case "ldap-multi":
		ob, crash := runLDAPMulti(in.Creds, in.HaveCreds, in.Sched)
		c.Obs, c.Crash = ob, crash
		if crash == "" {
			c.Coq = coqLDAPMulti(id, in, ob)
		}
	case "ftp-multi":
		ob, crash := runFTPMulti(in.Sched)
		c.Obs, c.Crash = ob, crash
		if crash == "" {
			c.Coq = coqFTPMulti(id, in, ob)
		}
	default:
		hx.Fatal("unknown service %q", in.Svc)
	}
	return c
}

func main() {
	o := hx.ParseArgs()
	log.SetOutput(io.Discard) // the ftp service logs every connection through the standard logger
	setup(o.Out)
	header := "From HT Require Import Common.Bytes C12.Model C12.Check."
	dist := map[string]int{}
	var cases []hx.Case
	add := func(in Input) {
		c := runCase(len(cases)+1, in)
		cases = append(cases, c)
		dist["svc:"+in.Svc]++
		switch in.Svc {
		case "ssh":
			n := 0
			for _, cn := range in.Conns {
				n += len(cn.Pws)
			}
			dist[fmt.Sprintf("ssh-conns:%d", len(in.Conns))]++
			dist["ssh-planned-attempts"] += n
			if ob, ok := c.Obs.(SObs); ok {
				for _, rs := range ob.Results {
					for _, b := range rs {
						if b {
							dist["ssh-accepted"]++
						} else {
							dist["ssh-rejected"]++
						}
					}
				}
			}
		case "ldap":
			dist[fmt.Sprintf("ldap-reqs:%d", len(in.Reqs))]++
			if ob, ok := c.Obs.(LObs); ok {
				for i, rp := range ob.Replies {
					k := "ldap-" + in.Reqs[i].Kind
					if rp.None {
						dist[k+"-noreply"]++
					} else {
						dist[fmt.Sprintf("%s-code:%d", k, rp.Code)]++
					}
				}
			}
		case "ftp":
			dist["ftp-lines"] += len(in.Lines)
			if in.Burst {
				dist["ftp-burst-sessions"]++
				dist["ftp-burst-lines"] += len(in.Lines)
			}
			if ob, ok := c.Obs.(FObs); ok {
				for _, cs := range ob.Codes {
					for _, x := range cs {
						dist[fmt.Sprintf("ftp-code:%d", x)]++
					}
				}
			}
		}
		if len(in.Sched) > 0 {
			cs := map[int]bool{}
			for _, st := range in.Sched {
				cs[st.Conn] = true
			}
			dist[fmt.Sprintf("%s-conns:%d", in.Svc, len(cs))]++
			dist[in.Svc+"-steps"] += len(in.Sched)
		}
		if c.Crash != "" {
			dist["crash"]++
		}
	}
	if o.Only != "" {
		var in Input
		if err := hx.LoadReplay(o.Only, &in); err != nil {
			hx.Fatal("replay: %v", err)
		}
		add(in)
		hx.Write(o, "C12", "auth", header, "case", cases, dist, nil, 400)
		return
	}
	r := hx.NewRand(o.Seed)
	for _, in := range sshCorpus(o.Tier) {
		add(in)
	}
	for _, in := range ldapCorpus(o.Tier) {
		add(in)
	}
	for _, in := range ftpCorpus(o.Tier) {
		add(in)
	}
	for _, in := range ftpBurstCorpus() {
		add(in)
	}
	for _, in := range ldapMultiCorpus() {
		add(in)
	}
	for _, in := range ftpMultiCorpus() {
		add(in)
	}
	nS, nL, nF, nB, nM := 200, 300, 270, 12, 60
	switch o.Tier {
	case "thorough":
		nS, nL, nF, nB, nM = 2000, 3500, 3000, 100, 600
	case "search":
		nS, nL, nF, nB, nM = 600, 1200, 1000, 40, 200
	}
	for i := 0; i < nS; i++ {
		add(genSSH(r))
	}
	for i := 0; i < nL; i++ {
		add(genLDAP(r))
	}
	for i := 0; i < nF; i++ {
		add(genFTP(r))
	}
	for i := 0; i < nB; i++ {
		add(genFTPBurst(r))
	}
	for i := 0; i < nM; i++ {
		add(genLDAPMulti(r))
		add(genFTPMulti(r))
	}
	hx.Write(o, "C12", "auth", header, "case", cases, dist, map[string]interface{}{"ftp_root": ftpRoot()}, 400)
}
