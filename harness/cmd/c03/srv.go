package main

import (
	"bytes"
	"fmt"
	"net"
	"strings"

	"verif/harness/hx"
	"verif/harness/lab"
)

// part "srv": the isolation experiment through the real server (server.New + Run in the harness
// process, recording listener, stub services): which service is handed a connection must be a
// function of the configuration and of the connection's own destination address.

type SEntry struct {
	Proto string `json:"proto"` // tcp | udp
	IP    int    `json:"ip"`    // 0: no host in the port entry; k: 10.0.0.k
	Port  int    `json:"port"`
	Svc   int    `json:"svc"` // stub service s<Svc>
}
type SDest struct {
	Proto string `json:"proto"`
	IP    int    `json:"ip"` // destination 10.0.0.k
	Port  int    `json:"port"`
}
type SInput struct {
	Cfg   []SEntry `json:"cfg"`
	Hist  []SDest  `json:"history"`
	Probe SDest    `json:"probe"`
}
type SObs struct {
	Alone  int  `json:"alone"` // stub that handled the probe on a fresh server, 0 = none
	After  int  `json:"after"` // ... after the history
	Intact bool `json:"intact"`
}

func srvToml(in SInput) string {
	var sb strings.Builder
	sb.WriteString("[listener]\ntype=\"verif-rec\"\n\n")
	seen := map[int]bool{}
	for _, e := range in.Cfg {
		if !seen[e.Svc] {
			seen[e.Svc] = true
			fmt.Fprintf(&sb, "[service.s%d]\ntype=\"verif-stub\"\nname=\"s%d\"\nprefix=\"\"\nreadsize=512\n\n", e.Svc, e.Svc)
		}
	}
	for _, e := range in.Cfg {
		host := ""
		if e.IP != 0 {
			host = fmt.Sprintf("10.0.0.%d:", e.IP)
		}
		fmt.Fprintf(&sb, "[[port]]\nport=\"%s/%s%d\"\nservices=[\"s%d\"]\n\n", e.Proto, host, e.Port, e.Svc)
	}
	return sb.String()
}

// one connection / datagram; returns the stub that handled it (0 = none) and whether it read the payload
func srvConnect(l *lab.Lab, d SDest, k int) (int, bool, string) {
	_, before := l.Snapshot()
	payload := []byte(fmt.Sprintf("payload-of-connection-%d", k))
	ip := net.IPv4(10, 0, 0, byte(d.IP))
	rip := net.IPv4(198, 51, 100, byte(1+k%250))
	var err error
	if d.Proto == "tcp" {
		err = l.Probe(&net.TCPAddr{IP: ip, Port: d.Port}, &net.TCPAddr{IP: rip, Port: 41000 + k}, [][]byte{payload})
	} else {
		err = l.ProbeUDP(&net.UDPAddr{IP: ip, Port: d.Port}, &net.UDPAddr{IP: rip, Port: 41000 + k}, payload, nil)
	}
	if err != nil {
		return 0, false, err.Error()
	}
	_, after := l.Snapshot()
	if len(after) > len(before)+1 {
		return 0, false, "more than one service handled one connection"
	}
	if len(after) == len(before) {
		return 0, true, ""
	}
	h := after[len(after)-1]
	var s int
	fmt.Sscanf(h.Service, "s%d", &s)
	return s, bytes.Equal(h.Bytes, payload), ""
}

func runSrvOnce(in SInput, withHist bool, scratch string) (int, bool, string) {
	l, err := lab.Start(srvToml(in), scratch)
	if err != nil {
		hx.Fatal("lab start: %v", err)
	}
	defer l.Stop()
	if !l.Started() {
		return 0, false, "server returned before starting the listener"
	}
	k := 0
	if withHist {
		for _, d := range in.Hist {
			k++
			if _, _, crash := srvConnect(l, d, k); crash != "" {
				return 0, false, "earlier connection: " + crash
			}
		}
	}
	return srvConnect(l, in.Probe, 200)
}

func runSrv(in SInput, scratch string) (SObs, string) {
	var ob SObs
	a, ok1, crash := runSrvOnce(in, false, scratch)
	if crash != "" {
		return ob, crash
	}
	b, ok2, crash := runSrvOnce(in, true, scratch)
	if crash != "" {
		return ob, crash
	}
	ob.Alone, ob.After, ob.Intact = a, b, ok1 && ok2
	return ob, ""
}

// configurations in which a port number is used more than once, never ambiguously (at most one
// entry matches any destination: the server's walk over a Go map has no defined order)
func srvTemplates(p, q int) [][]SEntry {
	return [][]SEntry{
		{{"tcp", 0, p, 1}, {"udp", 0, p, 2}},                                                       // one number, two protocols
		{{"tcp", 1, p, 1}, {"tcp", 2, p, 2}},                                                       // one number, two hosts
		{{"tcp", 1, p, 1}, {"tcp", 0, q, 3}},                                                       // a host-qualified port only
		{{"udp", 1, p, 1}, {"udp", 2, p, 2}, {"tcp", 0, p, 3}},                                     // both
		{{"tcp", 1, p, 1}, {"tcp", 2, p, 2}, {"udp", 1, p, 3}, {"udp", 0, q, 4}, {"tcp", 3, q, 1}}, // a service on two entries
	}
}

func srvPool(p, q int) []SDest {
	var pool []SDest
	for _, proto := range []string{"tcp", "udp"} {
		for _, ip := range []int{1, 2, 9} { // 10.0.0.9: no entry names it
			for _, port := range []int{p, q} {
				pool = append(pool, SDest{proto, ip, port})
			}
		}
		pool = append(pool, SDest{proto, 1, 7}) // a port number nobody configured
	}
	return pool
}

func genSrv(r *hx.Rand, tier string) []SInput {
	var ins []SInput
	ports := [][2]int{{5060, 53}, {80, 8080}}
	for ti := 0; ti < 5; ti++ {
		pq := ports[ti%2]
		cfg := srvTemplates(pq[0], pq[1])[ti]
		pool := srvPool(pq[0], pq[1])
		if tier != "quick" {
			// every ordered pair: one earlier connection, then the probe
			for _, h := range pool {
				for _, p := range pool {
					ins = append(ins, SInput{Cfg: cfg, Hist: []SDest{h}, Probe: p})
				}
			}
		}
		// the probe's port number under the other protocol / another host / an unconfigured address first
		for _, p := range pool {
			if p.Port == 7 {
				continue
			}
			var rel []SDest
			for _, h := range pool {
				if h.Port == p.Port && h != p {
					rel = append(rel, h)
				}
			}
			if tier == "quick" && p.IP == 9 && p.Proto == "udp" {
				continue
			}
			ins = append(ins, SInput{Cfg: cfg, Hist: rel, Probe: p})
			ins = append(ins, SInput{Cfg: cfg, Hist: []SDest{rel[r.Intn(len(rel))]}, Probe: p})
		}
		n := 3
		if tier != "quick" {
			n = 40
		}
		for i := 0; i < n; i++ {
			in := SInput{Cfg: cfg, Probe: pool[r.Intn(len(pool))]}
			for k, m := 0, r.Range(0, 8); k < m; k++ {
				in.Hist = append(in.Hist, pool[r.Intn(len(pool))])
			}
			ins = append(ins, in)
		}
	}
	return ins
}

func coqSrv(id int, in SInput, ob SObs) string {
	udp := func(p string) string { return hx.CoqBool(p == "udp") }
	var es, hs []string
	for _, e := range in.Cfg {
		es = append(es, fmt.Sprintf("mkPE %s %d%%N %d%%N %d%%N", udp(e.Proto), e.IP, e.Port, e.Svc))
	}
	d := func(x SDest) string { return fmt.Sprintf("mkDest %s %d%%N %d%%N", udp(x.Proto), x.IP, x.Port) }
	for _, h := range in.Hist {
		hs = append(hs, d(h))
	}
	return fmt.Sprintf("mkCase %d%%N %s %s (%s) %d%%N %d%%N %s", id, hx.CoqList(es, "pentry"), hx.CoqList(hs, "dest"), d(in.Probe), ob.Alone, ob.After, hx.CoqBool(ob.Intact))
}

func srvPart(o hx.Opts, r *hx.Rand, only *SInput) {
	var ins []SInput
	if only != nil {
		ins = []SInput{*only}
	} else {
		ins = genSrv(r, o.Tier)
	}
	dist := map[string]int{}
	var cases []hx.Case
	for i, in := range ins {
		ob, crash := runSrv(in, o.Out)
		dist[fmt.Sprintf("port-entries:%d", len(in.Cfg))]++
		dist[fmt.Sprintf("earlier-connections:%d", len(in.Hist))]++
		dist["probe:"+in.Probe.Proto]++
		if ob.Alone == 0 {
			dist["probe-to-unconfigured-destination"]++
		}
		same := false
		for _, h := range in.Hist {
			if h.Port == in.Probe.Port && h != in.Probe {
				same = true
			}
		}
		if same {
			dist["history-uses-the-probe's-port-number-elsewhere"]++
		}
		cases = append(cases, hx.Case{ID: i, Kind: "server", Input: in, Obs: ob, Crash: crash, Coq: coqSrv(i, in, ob)})
	}
	hx.Write(o, "C03", "srv", "From HT Require Import C03.Model C03.CheckSrv.", "case", cases, dist, nil, 100)
}
