package main

import (
	"bytes"
	"crypto/sha1"
	"encoding/binary"
	"fmt"
	"net"
	"regexp"
	"sort"
	"strings"

	ber "github.com/go-asn1-ber/asn1-ber"
	"github.com/honeytrap/honeytrap/event"
	"verif/harness/hx"
)

// part "diff": the property as an experiment on the implementation alone.  A probe session B
// is run alone on a fresh service instance (twice: whatever differs between the two is
// volatile and left out) and on a fresh instance together with other sessions A1..An that are
// drawn from the WHOLE command table of the protocol, including multi-step commands that are
// started and abandoned, end anywhere (QUIT, disconnect, stay open), use IPv4 and IPv6 client
// addresses and other destination addresses, and - for the rate-limited UDP services - use up
// their own budget.  Everything B receives and every event recorded under B's address must
// be the same, step by step.

type DStep struct {
	Kind string `json:"kind"` // open | send | close
	Data hx.B   `json:"data,omitempty"`
}
type DSess struct {
	Conn  int     `json:"conn"`
	Steps []DStep `json:"steps"`
}
type DInput struct {
	Svc     int     `json:"svc"`
	Name    string  `json:"service"`
	Variant string  `json:"variant"` // which probe script
	Probe   DSess   `json:"probe"`
	Others  []DSess `json:"others"`
	Order   []int   `json:"order"` // whose step comes next: 0 = probe, k = others[k-1]
	// so many earlier sessions, each complete (histSession(svc, k): a tftp upload, a memcached set,
	// a mail, a login ...), every one from its own client address, before anything else
	Hist int `json:"hist,omitempty"`
	// variant "address": how the probe's and the other client's addresses relate (addrPairs)
	Pair string `json:"pair,omitempty"`
}
type DObs struct {
	Alone    []string `json:"alone"`    // per probe step (+ tail, + event stream): digest
	Again    []string `json:"again"`    // the same probe alone on a second fresh instance
	Together []string `json:"together"` // the same probe with the other sessions around
	Differ   []int    `json:"differ,omitempty"`
	Detail   string   `json:"detail,omitempty"` // first differing step, both canonical forms
}

var (
	reFtpPort  = regexp.MustCompile(`(\(\d+,\d+,\d+,\d+),\d+,\d+\)`)
	reFtpEport = regexp.MustCompile(`\(\|\|\|\d+\|\)`)
)

// ldap: attribute lists are built from Go maps; order them
func canonBer(p *ber.Packet) string {
	if len(p.Children) == 0 {
		return fmt.Sprintf("[%d.%d.%d:%x]", p.ClassType, p.TagType, p.Tag, p.Data.Bytes())
	}
	var cs []string
	for _, c := range p.Children {
		cs = append(cs, canonBer(c))
	}
	if p.ClassType == ber.ClassUniversal && (p.Tag == ber.TagSequence || p.Tag == ber.TagSet) {
		sort.Strings(cs)
	}
	return fmt.Sprintf("[%d.%d.%d:%s]", p.ClassType, p.TagType, p.Tag, strings.Join(cs, ""))
}

func maskReply(svc int, b []byte) string {
	if svc == LDAP {
		var sb strings.Builder
		rd := bytes.NewReader(b)
		for rd.Len() > 0 {
			p, err := ber.ReadPacket(rd)
			if err != nil {
				sb.WriteString(fmt.Sprintf("<undecodable %x>", b))
				break
			}
			// the envelope (message id first) keeps its order
			sb.WriteString("{")
			for _, c := range p.Children {
				sb.WriteString(canonBer(c))
			}
			sb.WriteString("}")
		}
		return sb.String()
	}
	s := string(b)
	if svc == FTP {
		s = reFtpPort.ReplaceAllString(s, "$1,p,p)")
		s = reFtpEport.ReplaceAllString(s, "(|||p|)")
	}
	return s
}

func canonRawEvent(ev event.Event) string {
	m := event.ToMap(ev)
	var ks []string
	for k := range m {
		if k == "date" || strings.HasSuffix(k, "sessionid") {
			continue
		}
		ks = append(ks, k)
	}
	sort.Strings(ks)
	var sb strings.Builder
	for _, k := range ks {
		switch v := m[k].(type) {
		case []byte:
			fmt.Fprintf(&sb, "%s=%x;", k, v)
		default:
			fmt.Fprintf(&sb, "%s=%v;", k, v)
		}
	}
	return sb.String()
}

func eventOf(ev event.Event, conn int) bool {
	m := event.ToMap(ev)
	return connOfAddr(asStr(m["source-ip"]), asInt(m["source-port"])) == canonID(conn)
}

// runs the schedule; returns, per probe step (+ one tail entry), the canonical form of what the
// probe received, and as last entry the stream of events recorded under the probe's address
// (events are sent by pump goroutines in ftp/smtp: their stream is compared as a whole, which
// does not depend on when exactly each one was recorded)
func runDiffOnce(in *DInput, withOthers bool) ([]string, string) {
	udp := in.Svc == TFTP || in.Svc == MCUDP
	if in.Svc == FTP {
		resetFtpTree() // a probe cut short may leave a directory behind
	}
	var e *engine
	var u *udpRunner
	if udp {
		u = newUDPRunner(in.Svc)
		u.raw = true
	} else {
		e = newEngine(in.Svc)
		e.raw = true
	}
	pc := in.Probe.Conn
	var out []string
	var pend, evs strings.Builder
	absorb := func(st OStep) {
		if b := st.rawOut[pc]; len(b) > 0 {
			pend.WriteString(maskReply(proto(in.Svc), b))
		}
		if st.rawEOF[pc] {
			pend.WriteString("<closed>")
		}
		for _, ev := range st.rawEvs {
			if eventOf(ev, pc) {
				evs.WriteString(canonRawEvent(ev) + "\n")
			}
		}
	}
	idx := make([]int, len(in.Others)+1)
	sessOf := func(k int) *DSess {
		if k == 0 {
			return &in.Probe
		}
		return &in.Others[k-1]
	}
	order := in.Order
	if !withOthers {
		order = nil
		for range in.Probe.Steps {
			order = append(order, 0)
		}
	} else {
		for k := 0; k < in.Hist; k++ {
			hs := histSession(in.Svc, k)
			for n, stp := range hs.Steps {
				var crash string
				if udp {
					_, crash = u.datagram(n, hs.Conn, stp.Data)
				} else {
					kind := stp.Kind
					if kind == "send" {
						kind = "tok"
					}
					_, crash = e.step(n, kind, hs.Conn, stp.Data, 0)
				}
				if crash != "" {
					return out, fmt.Sprintf("earlier session %d: %s", k, crash)
				}
			}
			if !udp {
				e.forget(hs.Conn)
			}
		}
	}
	for n, k := range order {
		s := sessOf(k)
		if idx[k] >= len(s.Steps) {
			continue
		}
		stp := s.Steps[idx[k]]
		idx[k]++
		var st OStep
		var crash string
		if udp {
			if stp.Kind != "send" {
				continue
			}
			st, crash = u.datagram(n, s.Conn, stp.Data)
		} else {
			kind := stp.Kind
			if kind == "send" {
				kind = "tok"
			}
			st, crash = e.step(n, kind, s.Conn, stp.Data, 0)
		}
		if crash != "" {
			return out, crash
		}
		absorb(st)
		if k == 0 {
			out = append(out, pend.String())
			pend.Reset()
		}
	}
	if !udp {
		// late events: in ftp and smtp the event of a connection's last line is sent by its pump
		// goroutine after the handler is back in Read (or gone).  No waiting time is right for
		// that on a loaded machine; instead end every session and wait until all goroutines this
		// run started - handlers, pumps - have finished: then nothing can be recorded any more.
		if cr := e.drain(); cr != "" {
			return out, cr
		}
		absorb(e.harvest())
	}
	out = append(out, pend.String(), evs.String())
	return out, ""
}

func digest(s string) string {
	h := sha1.Sum([]byte(s))
	return fmt.Sprintf("%d", binary.BigEndian.Uint64(h[:8])>>4)
}

func runDiff(in *DInput) (DObs, string) {
	var ob DObs
	a1, crash := runDiffOnce(in, false)
	if crash != "" {
		return ob, "probe alone: " + crash
	}
	a2, crash := runDiffOnce(in, false)
	if crash != "" {
		return ob, "probe alone: " + crash
	}
	t, crash := runDiffOnce(in, true)
	if crash != "" {
		return ob, crash
	}
	if len(a1) != len(a2) || len(a1) != len(t) {
		return ob, fmt.Sprintf("probe steps executed: %d and %d alone, %d with the other sessions", len(a1), len(a2), len(t))
	}
	for i := range a1 {
		ob.Alone = append(ob.Alone, digest(a1[i]))
		ob.Again = append(ob.Again, digest(a2[i]))
		ob.Together = append(ob.Together, digest(t[i]))
		if a1[i] != t[i] || a1[i] != a2[i] {
			if ob.Detail == "" {
				ob.Detail = fmt.Sprintf("step %d alone %q alone again %q together %q", i, clip(a1[i]), clip(a2[i]), clip(t[i]))
			}
			ob.Differ = append(ob.Differ, i)
		}
	}
	return ob, ""
}

func clip(s string) string {
	if len(s) > 600 {
		return s[:600] + "..."
	}
	return s
}

// ---- command tables ----

func ldapSearch(id int, base string, filterAttr string) []byte {
	p := ber.Encode(ber.ClassUniversal, ber.TypeConstructed, ber.TagSequence, nil, "req")
	p.AppendChild(ber.NewInteger(ber.ClassUniversal, ber.TypePrimitive, ber.TagInteger, int64(id), "id"))
	s := ber.Encode(ber.ClassApplication, ber.TypeConstructed, 3, nil, "search")
	s.AppendChild(ber.NewString(ber.ClassUniversal, ber.TypePrimitive, ber.TagOctetString, base, "base"))
	s.AppendChild(ber.NewInteger(ber.ClassUniversal, ber.TypePrimitive, ber.TagEnumerated, int64(0), "scope"))
	s.AppendChild(ber.NewInteger(ber.ClassUniversal, ber.TypePrimitive, ber.TagEnumerated, int64(0), "deref"))
	s.AppendChild(ber.NewInteger(ber.ClassUniversal, ber.TypePrimitive, ber.TagInteger, int64(0), "size"))
	s.AppendChild(ber.NewInteger(ber.ClassUniversal, ber.TypePrimitive, ber.TagInteger, int64(0), "time"))
	s.AppendChild(ber.NewBoolean(ber.ClassUniversal, ber.TypePrimitive, ber.TagBoolean, false, "typesonly"))
	if filterAttr == "objectClass" {
		s.AppendChild(ber.NewString(ber.ClassContext, ber.TypePrimitive, 7, "objectClass", "present"))
	} else {
		f := ber.Encode(ber.ClassContext, ber.TypeConstructed, 3, nil, "equality")
		f.AppendChild(ber.NewString(ber.ClassUniversal, ber.TypePrimitive, ber.TagOctetString, filterAttr, "attr"))
		f.AppendChild(ber.NewString(ber.ClassUniversal, ber.TypePrimitive, ber.TagOctetString, "jdoe", "value"))
		s.AppendChild(f)
	}
	s.AppendChild(ber.Encode(ber.ClassUniversal, ber.TypeConstructed, ber.TagSequence, nil, "attrs"))
	p.AppendChild(s)
	return p.Bytes()
}

func ldapOp(id int, tag ber.Tag, constructed bool) []byte {
	p := ber.Encode(ber.ClassUniversal, ber.TypeConstructed, ber.TagSequence, nil, "req")
	p.AppendChild(ber.NewInteger(ber.ClassUniversal, ber.TypePrimitive, ber.TagInteger, int64(id), "id"))
	if constructed {
		o := ber.Encode(ber.ClassApplication, ber.TypeConstructed, tag, nil, "op")
		o.AppendChild(ber.NewString(ber.ClassUniversal, ber.TypePrimitive, ber.TagOctetString, "cn=x,dc=example,dc=com", "dn"))
		o.AppendChild(ber.Encode(ber.ClassUniversal, ber.TypeConstructed, ber.TagSequence, nil, "body"))
		p.AppendChild(o)
	} else {
		p.AppendChild(ber.NewString(ber.ClassApplication, ber.TypePrimitive, tag, "cn=x,dc=example,dc=com", "op"))
	}
	return p.Bytes()
}

func ldapExtended(id int, oid string) []byte {
	p := ber.Encode(ber.ClassUniversal, ber.TypeConstructed, ber.TagSequence, nil, "req")
	p.AppendChild(ber.NewInteger(ber.ClassUniversal, ber.TypePrimitive, ber.TagInteger, int64(id), "id"))
	o := ber.Encode(ber.ClassApplication, ber.TypeConstructed, 23, nil, "extended")
	o.AppendChild(ber.NewString(ber.ClassContext, ber.TypePrimitive, 0, oid, "oid"))
	p.AppendChild(o)
	return p.Bytes()
}

type table struct {
	login  [][]byte            // how a session usually starts (after the connection is open)
	others [][]byte            // every command of the protocol, incl. halves of multi-step commands
	probe  [][]byte            // the probe's script
	probes map[string][][]byte // further probe scripts
	quit   []byte
}

func lines(ss ...string) [][]byte {
	var out [][]byte
	for _, s := range ss {
		out = append(out, []byte(s))
	}
	return out
}

func tableOf(svc int) table {
	switch proto(svc) {
	case FTP:
		return table{
			login: lines("USER anonymous\r\n", "PASS anonymous\r\n"),
			others: lines("USER anonymous\r\n", "PASS anonymous\r\n", "USER bob\r\n", "PASS nope\r\n", "PWD\r\n", "XPWD\r\n", "CWD a\r\n",
				"CWD /a/c\r\n", "XCWD b\r\n", "CWD nope\r\n", "CDUP\r\n", "XCUP\r\n", "MKD da\r\n", "RMD da\r\n", "XRMD da\r\n", "DELE nofile\r\n",
				"RNFR da\r\n", "RNFR nofile\r\n", "RNTO zz\r\n", "SIZE a\r\n", "MDTM a\r\n", "TYPE A\r\n", "TYPE I\r\n", "TYPE X\r\n", "MODE S\r\n", "STRU F\r\n",
				"STRU R\r\n", "SYST\r\n", "FEAT\r\n", "OPTS UTF8 ON\r\n", "OPTS x\r\n", "NOOP\r\n", "PASV\r\n", "EPSV\r\n", "PORT 127,0,0,1,0,1\r\n",
				"PORT 1,2\r\n", "EPRT |1|127.0.0.1|1|\r\n", "EPRT |2|::1|1|\r\n", "REST 5\r\n", "REST x\r\n", "ALLO 10\r\n", "PBSZ 0\r\n", "PROT P\r\n",
				"ADAT x\r\n", "CCC\r\n", "ENC x\r\n", "MIC x\r\n", "CONF x\r\n", "CWD\r\n", "XYZZY\r\n", "\r\n", "noop\r\n"),
			probe: lines("USER anonymous\r\n", "PASS anonymous\r\n", "PWD\r\n", "PASV\r\n", "CWD a\r\n", "PWD\r\n", "SIZE c\r\n", "CDUP\r\n",
				"EPSV\r\n", "RNFR b\r\n", "MKD pb\r\n", "RMD pb\r\n", "REST 7\r\n", "TYPE I\r\n", "SYST\r\n", "PASV\r\n", "QUIT\r\n"),
			probes: map[string][][]byte{"feat": lines("FEAT\r\n", "USER anonymous\r\n", "PASS anonymous\r\n", "FEAT\r\n", "QUIT\r\n")},
			quit:   []byte("QUIT\r\n"),
		}
	case SMTP:
		return table{
			login: lines("EHLO a.example\r\n"),
			others: lines("EHLO a.example\r\n", "HELO a.example\r\n", "MAIL FROM:<a@a.example>\r\n", "RCPT TO:<b@b.example>\r\n", "DATA\r\n",
				"Subject: from-a\r\n", "\r\n", "line of a\r\n", ".\r\n", "BDAT 10\r\nSECRET-OFA", "BDAT 26\r\nSubject: secret-a\r\n\r\nAAAA",
				"BDAT 4 LAST\r\nZZZZ", "BDAT x\r\n", "RSET\r\n", "NOOP\r\n", "HELP\r\n", "VRFY a\r\n", "AUTH PLAIN AGEAYg==\r\n", "STARTTLS\r\n",
				"\x16\x03\x01\x00\x05hello", "FROB\r\n", "\r\n", "mail from:<x@y>\r\n"),
			probe: lines("EHLO probe.example\r\n", "MAIL FROM:<p@probe.example>\r\n", "RCPT TO:<q@q.example>\r\n",
				"BDAT 31\r\nSubject: probe\r\n\r\nprobe-body-1\r\n", "BDAT 14 LAST\r\nprobe-body-2\r\n", "MAIL FROM:<p@probe.example>\r\n",
				"BDAT 28 LAST\r\nSubject: second\r\n\r\nbody-3\r\n", "MAIL FROM:<p@probe.example>\r\n", "DATA\r\n",
				"Subject: third\r\n\r\nbody-4\r\n.\r\n", "HELP\r\n", "NOOP\r\n", "QUIT\r\n"),
			quit: []byte("QUIT\r\n"),
		}
	case LDAP:
		return table{
			login: [][]byte{ldapPacket(1, 1)},
			others: [][]byte{ldapPacket(1, 2), ldapPacket(2, 3), ldapPacket(3, 4), ldapPacket(4, 5), ldapPacket(7, 6),
				ldapSearch(7, "", "objectClass"), ldapSearch(8, "dc=example,dc=com", "uid"), ldapSearch(9, "dc=example,dc=com", "mail"),
				ldapOp(10, 6, true), ldapOp(11, 8, true), ldapOp(12, 12, true), ldapOp(13, 14, true), ldapOp(14, 10, false),
				ldapExtended(15, "1.3.6.1.4.1.4203.1.11.3"), ldapExtended(16, "1.3.6.1.4.1.1466.20037"),
				{0x30, 0x03, 0x02, 0x01}, {0x16, 0x03, 0x01, 0x00, 0x05, 'h', 'e', 'l', 'l', 'o'}},
			probe: [][]byte{ldapSearch(1, "", "objectClass"), ldapPacket(4, 2), ldapPacket(2, 3), ldapPacket(1, 4), ldapPacket(4, 5),
				ldapSearch(6, "", "objectClass"), ldapSearch(7, "dc=example,dc=com", "uid"), ldapOp(8, 6, true), ldapOp(9, 14, true),
				ldapExtended(10, "1.3.6.1.4.1.4203.1.11.3"), ldapPacket(3, 11), ldapPacket(4, 12), ldapPacket(6, 13)},
			quit: ldapPacket(6, 99),
		}
	case TELNET:
		return table{
			login: lines("admin\r\n", "secret\r\n"),
			others: lines("admin\r\n", "secret\r\n", "ls -la\r\n", "\r\n", "cat /etc/passwd\r\n", "\x1b[A", "\x1b[A\r\n", "ab\x7fc\r\n", "\x04", "partial", "\xff\xfb\x01", "uname -a\r\n",
				"a", "d", "min", "\x01x\x05y\r\n", "word1 word2\x17\r\n", "abc\x0b\r\n", "\x1b[D\x1b[Cz\r\n", "\x0c", "\x1b[200~pasted\x1b[201~\r\n", strings.Repeat("long-", 30)+"\r\n"),
			probe: lines("root\r\n", "toor\r\n", "uname -a\r\n", "id\r\n", "\r\n", "cat /etc/passwd\r\n", "\x1b[A\r\n", "ab\x7fc\r\n", "wget http://x/y\r\n", "exit\r\n"),
		}
	case REDIS:
		return table{
			others: lines("*1\r\n$4\r\nINFO\r\n", "*2\r\n$4\r\ninfo\r\n$6\r\nserver\r\n", "*2\r\n$4\r\ninfo\r\n$3\r\nall\r\n", "*1\r\n$4\r\nPING\r\n", "*2\r\n$4\r\nINFO\r\n$6\r\nSERVER\r\n", "*2\r\n$4\r\ninfo\r\n$7\r\nclients\r\n",
				"*2\r\n$4\r\ninfo\r\n$6\r\nmemory\r\n", "*2\r\n$4\r\ninfo\r\n$11\r\npersistence\r\n", "*2\r\n$4\r\nInfo\r\n$5\r\nStats\r\n", "*2\r\n$4\r\ninfo\r\n$11\r\nreplication\r\n",
				"*2\r\n$4\r\ninfo\r\n$3\r\ncpu\r\n", "*2\r\n$4\r\ninfo\r\n$7\r\ncluster\r\n", "*2\r\n$4\r\ninfo\r\n$8\r\nKEYSPACE\r\n", "*2\r\n$4\r\ninfo\r\n$7\r\ndefault\r\n",
				"*3\r\n$3\r\nSET\r\n$1\r\nk\r\n$1\r\nv\r\n", "*3\r\n$3\r\nSET\r\n", "$1\r\nk\r\n", "\r\n", "+OK\r\n", ":5\r\n", "*1\r\n*1\r\n$4\r\nINFO\r\n", "*0\r\n", "?x\r\n"),
			probe: lines("*1\r\n$4\r\nPING\r\n", "*2\r\n$4\r\ninfo\r\n$6\r\nserver\r\n", "*2\r\n$4\r\ninfo\r\n$7\r\nclients\r\n", "*2\r\n$4\r\ninfo\r\n$5\r\nstats\r\n", "*3\r\n$3\r\nSET\r\n$1\r\nk\r\n$1\r\nv\r\n", "*2\r\n$3\r\nGET\r\n$1\r\nk\r\n",
				"*2\r\n$4\r\ninfo\r\n$8\r\nkeyspace\r\n", "\r\n", "*3\r\n$4\r\ninfo\r\n$1\r\na\r\n$1\r\nb\r\n"),
		}
	case MEMCACHED:
		return table{
			others: lines("flush_all\r\n", "stats\r\n", "get k\r\n", "set k 0 0 3\r\nabc\r\n", "set k 0 0 100\r\nshort\r\n", "set big 0 0 78\r\n"+strings.Repeat("OTHER-CLIENT-", 6)+"\r\n", "append big 0 0 120\r\n"+strings.Repeat("other.client.", 9)+"abc\r\n", "add k 0 0 1\r\nx\r\n",
				"replace k 0 0 1\r\nx\r\n", "append k 0 0 1\r\nx\r\n", "prepend k 0 0 1\r\nx\r\n", "cas k 0 0 1 7\r\nx\r\n", "delete k\r\n", "incr k 1\r\n", "bogus\r\n", "\r\n", "set k 0 0\r\n"),
			probe: lines("stats\r\n", "set pk 1 2 5\r\nprobe\r\n", "get pk\r\n", "add pk 0 0 2\r\nzz\r\n", "flush_all\r\n", "cas pk 0 0 1 9\r\ny\r\n", "quit\r\n"),
		}
	case HTTP:
		return table{
			others: lines("GET /a HTTP/1.1\r\nHost: x\r\n\r\n", "POST /b HTTP/1.1\r\nHost: x\r\nContent-Length: 3\r\n\r\nabc", "POST /b HTTP/1.1\r\nHost: x\r\nContent-Length: 30\r\n\r\nshort",
				"HEAD /c HTTP/1.0\r\n\r\n", "PUT /d HTTP/1.1\r\nHost: x\r\nCookie: sid=a\r\nContent-Length: 0\r\n\r\n", "DELETE /e HTTP/1.1\r\nHost: x\r\n\r\n",
				"OPTIONS * HTTP/1.1\r\nHost: x\r\n\r\n", "GET /partial HTTP/1.1\r\nHost: x\r\n", "X-More: 1\r\n", "\r\n", "BLAH\r\n\r\n"),
			probe: lines("GET /p1 HTTP/1.1\r\nHost: probe\r\nCookie: sid=probe\r\n\r\n", "POST /p2 HTTP/1.1\r\nHost: probe\r\nContent-Length: 5\r\n\r\nprobe",
				"HEAD /p3 HTTP/1.0\r\n\r\n", "GET /p4?x=1 HTTP/1.1\r\nHost: probe\r\nUser-Agent: p\r\n\r\n"),
		}
	case TFTP:
		d := func(blk byte, n int) []byte { return append([]byte{0, 3, 0, blk}, []byte(strings.Repeat("d", n))...) }
		pd := func(blk byte, n int) []byte { return append([]byte{0, 3, 0, blk}, []byte(strings.Repeat("P", n))...) } // the probe's own bytes
		return table{
			others: [][]byte{[]byte("\x00\x01fa\x00octet\x00"), []byte("\x00\x02fa\x00octet\x00"), d(1, 512), d(2, 512), d(3, 100), d(1, 0),
				{0, 4, 0, 1}, {0, 5, 0, 1, 'e', 0}, {0, 9, 0, 0}, []byte("\x00\x02other\x00netascii\x00")},
			probe: [][]byte{[]byte("\x00\x02probe\x00octet\x00"), pd(1, 512), pd(2, 77), []byte("\x00\x01probe\x00octet\x00")},
		}
	case MCUDP:
		h := func(s string) []byte { return append([]byte{0, 1, 0, 0, 0, 1, 0, 0}, []byte(s)...) }
		return table{
			others: [][]byte{h("stats\r\n"), h("flush_all\r\n"), h("get k\r\n"), h("bogus\r\n"), h("stats\r\nstats\r\n"), h("set k 0 0 3\r\nabc\r\n")},
			probe:  [][]byte{h("stats\r\n"), h("get pk\r\n"), h("flush_all\r\n"), h("stats\r\n")},
		}
	}
	hx.Fatal("no command table for service %d", svc)
	return table{}
}

// another session: mostly logged in, then 1..n entries of the table (each entry is one write, so
// multi-step commands are begun and left unfinished wherever the draw ends), then QUIT,
// disconnect, or nothing (stays open)
func genOther(r *hx.Rand, svc, conn int, exhaust bool) DSess {
	t := tableOf(svc)
	s := DSess{Conn: conn}
	udp := svc == TFTP || svc == MCUDP
	if !udp {
		s.Steps = append(s.Steps, DStep{Kind: "open"})
		if r.Chance(3, 4) {
			for _, l := range t.login {
				s.Steps = append(s.Steps, DStep{Kind: "send", Data: l})
			}
		}
	}
	n := r.Range(1, 9)
	if exhaust {
		n = r.Range(5, 9) // beyond the limiter burst
	}
	start := r.Intn(len(t.others))
	for i := 0; i < n; i++ {
		var d []byte
		if r.Chance(1, 2) {
			d = t.others[(start+i)%len(t.others)] // a run of neighbouring entries: related commands
		} else {
			d = t.others[r.Intn(len(t.others))]
		}
		s.Steps = append(s.Steps, DStep{Kind: "send", Data: d})
	}
	if !udp {
		switch r.Intn(4) {
		case 0:
			if t.quit != nil {
				s.Steps = append(s.Steps, DStep{Kind: "send", Data: t.quit})
			}
		case 1, 2:
			s.Steps = append(s.Steps, DStep{Kind: "close"})
		}
	}
	return s
}

// every entry of the table is used by some "other" session at least once per run: a sweep
func sweepOthers(svc int, conns []int) []DSess {
	t := tableOf(svc)
	udp := svc == TFTP || svc == MCUDP
	var out []DSess
	per := (len(t.others) + len(conns) - 1) / len(conns)
	for k, c := range conns {
		s := DSess{Conn: c}
		if !udp {
			s.Steps = append(s.Steps, DStep{Kind: "open"})
			for _, l := range t.login {
				s.Steps = append(s.Steps, DStep{Kind: "send", Data: l})
			}
		}
		for i := k * per; i < (k+1)*per && i < len(t.others); i++ {
			s.Steps = append(s.Steps, DStep{Kind: "send", Data: t.others[i]})
		}
		if !udp && k%2 == 0 {
			s.Steps = append(s.Steps, DStep{Kind: "close"})
		}
		out = append(out, s)
	}
	return out
}

func probeOf(svc, conn int, variant string) DSess {
	t := tableOf(svc)
	if variant != "main" {
		t.probe = t.probes[variant]
	}
	s := DSess{Conn: conn}
	udp := svc == TFTP || svc == MCUDP
	if !udp {
		s.Steps = append(s.Steps, DStep{Kind: "open"})
	}
	for _, l := range t.probe {
		s.Steps = append(s.Steps, DStep{Kind: "send", Data: l})
	}
	return s
}

// the k-th earlier session of a long history: short, complete, from its own client (IPv6 pool
// 2001:db8:9::200+k - the IPv4 pool of the harness has only 256 hosts)
func histSession(svc, k int) DSess {
	c := 8192 + 16*k
	s := DSess{Conn: c}
	send := func(ds ...string) {
		for _, d := range ds {
			s.Steps = append(s.Steps, DStep{Kind: "send", Data: []byte(d)})
		}
	}
	switch proto(svc) {
	case TFTP: // a complete upload of 1120 bytes: exactly the four datagrams the limiter grants
		send(fmt.Sprintf("\x00\x02h%d\x00octet\x00", k), "\x00\x03\x00\x01"+strings.Repeat("h", 512), "\x00\x03\x00\x02"+strings.Repeat("h", 512), "\x00\x03\x00\x03"+strings.Repeat("h", 96))
		return s
	case MCUDP:
		send("\x00\x01\x00\x00\x00\x01\x00\x00stats\r\n", "\x00\x01\x00\x00\x00\x01\x00\x00get k\r\n")
		return s
	}
	s.Steps = append(s.Steps, DStep{Kind: "open"})
	switch proto(svc) {
	case MEMCACHED:
		send(fmt.Sprintf("set h%d 0 0 5\r\nhello\r\n", k), fmt.Sprintf("get h%d\r\n", k))
	case REDIS:
		send("*1\r\n$4\r\nINFO\r\n", "*1\r\n$4\r\nPING\r\n")
	case SMTP:
		send("EHLO h.example\r\n", "MAIL FROM:<h@h.example>\r\n", "RCPT TO:<x@y.example>\r\n", "BDAT 8\r\nhistory-", fmt.Sprintf("BDAT 33 LAST\r\nSubject: h%04d\r\n\r\nearlier mail\r\n", k%10000), "QUIT\r\n")
	case FTP:
		send("USER anonymous\r\n", "PASS anonymous\r\n", "CWD a\r\n", "FEAT\r\n", "QUIT\r\n")
	case LDAP:
		for i, t := range []int{1, 4, 6} {
			s.Steps = append(s.Steps, DStep{Kind: "send", Data: ldapPacket(t, i+1)})
		}
	case TELNET:
		send("admin\r\n", "secret\r\n", fmt.Sprintf("echo %d\r\n", k))
	case HTTP:
		send(fmt.Sprintf("GET /h%d HTTP/1.1\r\nHost: h\r\nCookie: sid=h%d\r\n\r\n", k, k))
	}
	s.Steps = append(s.Steps, DStep{Kind: "close"})
	return s
}

// the probe with every write cut into 2-3 pieces: the service sees each request arrive in several
// reads, like a slow link or a person typing
func splitProbe(r *hx.Rand, p DSess) DSess {
	out := DSess{Conn: p.Conn}
	for _, st := range p.Steps {
		if st.Kind != "send" || len(st.Data) < 2 {
			out.Steps = append(out.Steps, st)
			continue
		}
		cuts := []int{r.Range(1, len(st.Data)-1)}
		if len(st.Data) >= 4 && r.Chance(1, 2) {
			cuts = append(cuts, r.Range(1, len(st.Data)-1))
			sort.Ints(cuts)
		}
		prev := 0
		for _, c := range append(cuts, len(st.Data)) {
			if c > prev {
				out.Steps = append(out.Steps, DStep{Kind: "send", Data: st.Data[prev:c]})
				prev = c
			}
		}
	}
	return out
}

// text protocols: a spelling variant of a request changes the case of its letters only
func textProto(svc int) bool {
	switch proto(svc) {
	case FTP, SMTP, REDIS, MEMCACHED, TELNET, HTTP:
		return true
	}
	return false
}

func recase(b []byte, mode int) []byte {
	out := append([]byte(nil), b...)
	word := true
	for i, c := range out {
		isL := c >= 'a' && c <= 'z'
		isU := c >= 'A' && c <= 'Z'
		switch mode {
		case 0: // upper
			if isL {
				out[i] = c - 32
			}
		case 1: // lower
			if isU {
				out[i] = c + 32
			}
		default: // Title
			if isL && word {
				out[i] = c - 32
			} else if isU && !word {
				out[i] = c + 32
			}
		}
		word = !(isL || isU)
	}
	return out
}

// the probe respelt; and a shadow session that sends, just before every request of the probe, the
// same request in another spelling from another client
func recaseSess(p DSess, mode int) DSess {
	out := DSess{Conn: p.Conn}
	for _, st := range p.Steps {
		if st.Kind == "send" {
			st.Data = recase(st.Data, mode)
		}
		out.Steps = append(out.Steps, st)
	}
	return out
}

// the probe cut short: its first j requests, then the first part of the next one, then the
// client disconnects (the service is left in the middle of a line / a data block / a BER value)
func cutProbe(p DSess, j, at int) DSess {
	out := DSess{Conn: p.Conn}
	n := 0
	for _, st := range p.Steps {
		if st.Kind != "send" {
			out.Steps = append(out.Steps, st)
			continue
		}
		if n == j {
			k := at
			if k >= len(st.Data) {
				k = len(st.Data) - 1
			}
			if k > 0 {
				out.Steps = append(out.Steps, DStep{Kind: "send", Data: st.Data[:k]})
			}
			break
		}
		out.Steps = append(out.Steps, st)
		n++
	}
	out.Steps = append(out.Steps, DStep{Kind: "close"})
	return out
}

func sends(p DSess) int {
	n := 0
	for _, st := range p.Steps {
		if st.Kind == "send" {
			n++
		}
	}
	return n
}

func variantsOf(svc int) []string {
	var vs []string
	for v := range tableOf(svc).probes {
		vs = append(vs, v)
	}
	sort.Strings(vs)
	return vs
}

func orderOf(r *hx.Rand, in *DInput, mode string) {
	in.Order = nil
	switch mode {
	case "woven":
		// after every step of the probe one step of another session (taken in turn): with a split
		// probe the others' input is processed while a request of the probe is half read
		left := make([]int, len(in.Others))
		for k, o := range in.Others {
			left[k] = len(o.Steps)
		}
		next := 0
		// the others first get their connections open and say hello
		for k := range in.Others {
			for n := 0; n < 2 && left[k] > 0; n++ {
				in.Order = append(in.Order, k+1)
				left[k]--
			}
		}
		for range in.Probe.Steps {
			in.Order = append(in.Order, 0)
			for tries := 0; tries < len(in.Others); tries++ {
				k := (next + tries) % len(in.Others)
				if left[k] > 0 {
					in.Order = append(in.Order, k+1)
					left[k]--
					next = k + 1
					break
				}
			}
		}
		for k := range in.Others {
			for ; left[k] > 0; left[k]-- {
				in.Order = append(in.Order, k+1)
			}
		}
	case "before":
		for k := range in.Others {
			for range in.Others[k].Steps {
				in.Order = append(in.Order, k+1)
			}
		}
		for range in.Probe.Steps {
			in.Order = append(in.Order, 0)
		}
	default:
		left := []int{len(in.Probe.Steps)}
		for _, o := range in.Others {
			left = append(left, len(o.Steps))
		}
		for {
			var live []int
			for k, n := range left {
				if n > 0 {
					live = append(live, k)
				}
			}
			if len(live) == 0 {
				return
			}
			k := live[r.Intn(len(live))]
			run := r.Range(1, 3)
			for ; run > 0 && left[k] > 0; run-- {
				in.Order = append(in.Order, k)
				left[k]--
			}
		}
	}
}

func genDiff(r *hx.Rand, tier string) []DInput {
	var ins []DInput
	perSvc := 8
	if tier != "quick" {
		perSvc = 150
	}
	ids4 := []int{connID(1), connID(2), connID(3), connID(4)}
	ids6 := []int{connID6(1), connID6(2), connID6(3), connID6(4)}
	for svc := LDAP; svc <= MCUDP; svc++ {
		if svc == SMTP2 {
			continue
		}
		for _, pc := range []int{connID(0), connID6(0)} {
			// sweeps: the whole table, before the probe and interleaved with it, from IPv4 and IPv6 clients
			for _, mode := range []string{"before", "mixed"} {
				for _, ids := range [][]int{{ids4[0], ids6[1], ids4[2]}, {ids6[0], ids6[1], ids6[2], ids4[3]}} {
					in := DInput{Svc: svc, Variant: "main", Probe: probeOf(svc, pc, "main"), Others: sweepOthers(svc, ids)}
					orderOf(r, &in, mode)
					ins = append(ins, in)
				}
			}
		}
		udp := svc == TFTP || svc == MCUDP
		// READ granularity: the probe's requests arrive in pieces, other sessions' input in between
		if !udp {
			nw := 4
			if tier != "quick" {
				nw = 40
			}
			for i := 0; i < nw; i++ {
				pc := connID(0)
				if i%2 == 1 {
					pc = connID6(0)
				}
				in := DInput{Svc: svc, Variant: "split", Probe: splitProbe(r, probeOf(svc, pc, "main"))}
				for k, n := 0, r.Range(1, 3); k < n; k++ {
					c := ids4[k]
					if r.Chance(1, 2) {
						c = ids6[k]
					}
					o := genOther(r, svc, c, false)
					if r.Chance(1, 2) {
						o = splitProbe(r, o)
					}
					in.Others = append(in.Others, o)
				}
				orderOf(r, &in, r.PickStr([]string{"woven", "woven", "mixed"}))
				ins = append(ins, in)
			}
		}
		// the probe ENDS ABRUPTLY at every point: after j requests and a part of the next the client
		// disconnects; earlier and concurrent sessions have left longer data (sweep of the whole table).
		// Error paths are where stale buffers show.
		if !udp {
			base := probeOf(svc, connID(0), "main")
			for j := 0; j < sends(base); j++ {
				if tier == "quick" && (j+int(r.U64()%2))%2 == 1 && sends(base) > 8 {
					continue // quick: about every other cut point of the long probes
				}
				var data []byte
				n := 0
				for _, st := range base.Steps {
					if st.Kind == "send" {
						if n == j {
							data = st.Data
						}
						n++
					}
				}
				// cut points: a random one, and one or two bytes into whatever follows a line break
				// inside the request (a data block, a header, the next element)
				ats := []int{r.Range(1, len(data))}
				breaks := 0
				for i := 1; i < len(data)-1 && breaks < 2; i++ {
					if data[i-1] == '\n' {
						breaks++
						ats = append(ats, i+1)
						if i+2 < len(data) && tier != "quick" {
							ats = append(ats, i+2)
						}
					}
				}
				if tier != "quick" {
					ats = append(ats, 1, len(data)-1, len(data)/2)
				}
				for n, at := range ats {
					modes := []string{r.PickStr([]string{"before", "before", "woven"})}
					if n > 0 && n <= breaks {
						modes = []string{"before", "woven"} // inside a data block: after and among the others
					}
					for _, mode := range modes {
						in := DInput{Svc: svc, Variant: "cut", Probe: cutProbe(base, j, at), Others: sweepOthers(svc, []int{ids4[0], ids6[1], ids4[2]})}
						orderOf(r, &in, mode)
						ins = append(ins, in)
					}
				}
			}
		}
		// spelling: the probe in upper / lower / Title case, after and among sessions that use the
		// other spellings of the very same requests (a shadow of the probe, one step ahead of it)
		if textProto(svc) {
			base := probeOf(svc, connID(0), "main")
			for mode := 0; mode < 3; mode++ {
				for other := 0; other < 3; other++ {
					if other == mode || (tier == "quick" && (mode+other)%2 == 0 && mode != 0) {
						continue
					}
					shadow := recaseSess(probeOf(svc, ids6[0], "main"), other)
					in := DInput{Svc: svc, Variant: "spelling", Probe: recaseSess(base, mode), Others: []DSess{shadow}}
					// shadow: open, then always one request ahead of the probe
					in.Order = []int{1, 1}
					for range in.Probe.Steps {
						in.Order = append(in.Order, 0, 1)
					}
					ins = append(ins, in)
					in2 := DInput{Svc: svc, Variant: "spelling", Probe: recaseSess(base, mode), Others: []DSess{shadow}}
					orderOf(r, &in2, "before")
					ins = append(ins, in2)
				}
			}
		}
		ins = append(ins, genDiffAddr(r, tier, svc)...)
		// long sequential histories: so many complete earlier sessions, then the probe
		hists := []int{1, 10, 100}
		if udp {
			hists = []int{1, 10, 1000}
		}
		if tier != "quick" {
			hists = append(hists, 10*hists[2])
		}
		for _, h := range hists {
			in := DInput{Svc: svc, Variant: "history", Probe: probeOf(svc, connID(0), "main"), Hist: h}
			orderOf(r, &in, "before")
			ins = append(ins, in)
		}
		for i := 0; i < perSvc; i++ {
			pc := connID(0)
			if r.Chance(1, 2) {
				pc = connID6(0)
			}
			variant := "main"
			if vs := variantsOf(svc); len(vs) > 0 && r.Chance(1, 5) {
				variant = vs[r.Intn(len(vs))]
			}
			in := DInput{Svc: svc, Variant: variant, Probe: probeOf(svc, pc, variant)}
			for k, n := 0, r.Range(1, 4); k < n; k++ {
				c := ids4[k]
				if r.Chance(1, 2) {
					c = ids6[k]
				}
				in.Others = append(in.Others, genOther(r, svc, c, r.Chance(1, 2)))
			}
			orderOf(r, &in, r.PickStr([]string{"before", "mixed", "mixed"}))
			ins = append(ins, in)
		}
	}
	return ins
}

// the ADDRESS dimension: the probe and ONE other client whose addresses differ in one respect only
// (addrPairs), both ways round; the other client has its own dialogue in flight while the probe's is
func genDiffAddr(r *hx.Rand, tier string, svc int) []DInput {
	var ins []DInput
	udp := svc == TFTP || svc == MCUDP
	pairs := addrPairs()
	if !udp && tier == "quick" {
		// quick: two pair kinds per tcp service, drawn
		for i := len(pairs) - 1; i > 0; i-- {
			j := r.Intn(i + 1)
			pairs[i], pairs[j] = pairs[j], pairs[i]
		}
		var keep []addrPair
		for _, p := range pairs {
			if !p.samePeer && len(keep) < 2 {
				keep = append(keep, p)
			}
		}
		pairs = keep
	}
	for _, p := range pairs {
		if p.samePeer || (udp && p.sameHost) {
			continue // one peer / one bucket of the limiter: dependence is by design
		}
		for _, d := range [][2]int{{p.a, p.b}, {p.b, p.a}} {
			var other DSess
			switch {
			case svc == TFTP:
				// a complete upload of the other client
				other = DSess{Conn: d[1]}
				for _, x := range [][]byte{[]byte("\x00\x02fa\x00octet\x00"), append([]byte{0, 3, 0, 1}, bytes.Repeat([]byte{'d'}, 512)...), append([]byte{0, 3, 0, 2}, bytes.Repeat([]byte{'d'}, 100)...)} {
					other.Steps = append(other.Steps, DStep{Kind: "send", Data: x})
				}
			case udp:
				other = genOther(r, svc, d[1], true)
			default:
				other = genOther(r, svc, d[1], false)
			}
			modes := []string{"woven", "mixed"}
			if svc != TFTP && tier == "quick" {
				modes = []string{r.PickStr(modes)}
			}
			for _, mode := range modes {
				in := DInput{Svc: svc, Variant: "address", Probe: probeOf(svc, d[0], "main"), Others: []DSess{other}, Pair: p.name}
				orderOf(r, &in, mode)
				ins = append(ins, in)
			}
		}
	}
	return ins
}

func coqDiff(id int, in DInput, ob DObs) string {
	var ps []string
	for i := range ob.Alone {
		ps = append(ps, fmt.Sprintf("(%s%%N,%s%%N,%s%%N)", ob.Alone[i], ob.Again[i], ob.Together[i]))
	}
	return fmt.Sprintf("mkCase %d%%N %d%%N %s", id, in.Svc, hx.CoqList(ps, "(N*N*N)"))
}

func diffPart(o hx.Opts, r *hx.Rand, only *DInput) {
	var ins []DInput
	if only != nil {
		ins = []DInput{*only}
	} else {
		ins = genDiff(r, o.Tier)
	}
	dist := map[string]int{}
	var cases []hx.Case
	crashes := map[int]int{}
	for i := range ins {
		in := ins[i]
		in.Name = svcName[in.Svc]
		if crashes[in.Svc] >= 8 {
			dist["not-run-after-repeated-failures:"+in.Name]++
			continue
		}
		ob, crash := runDiff(&in)
		if crash != "" {
			crashes[in.Svc]++
		}
		dist["service:"+in.Name]++
		dist[fmt.Sprintf("other-sessions:%d", len(in.Others))]++
		if isV6(in.Probe.Conn) {
			dist["probe-client:ipv6"]++
		} else {
			dist["probe-client:ipv4"]++
		}
		if in.Variant == "address" {
			dist["probe-and-other-client:"+in.Pair]++
		}
		v6 := false
		for _, s := range in.Others {
			if isV6(s.Conn) {
				v6 = true
			}
		}
		if v6 {
			dist["with-ipv6-other-clients"]++
		}
		if in.Hist > 0 {
			dist[fmt.Sprintf("earlier-complete-sessions:%d", in.Hist)]++
		}
		if in.Variant == "split" {
			dist["probe-requests-arrive-in-pieces"]++
		}
		if in.Variant == "cut" {
			dist["probe-disconnects-mid-request"]++
		}
		if in.Variant == "spelling" {
			dist["probe-and-shadow-session-in-different-spellings"]++
		}
		if in.Variant == "" {
			in.Variant = "main"
		}
		cases = append(cases, hx.Case{ID: i, Kind: in.Name + "/" + in.Variant, Input: in, Obs: ob, Crash: crash, Coq: coqDiff(i, in, ob)})
	}
	hx.Write(o, "C03", "diff", "From HT Require Import C03.Model C03.CheckDiff.", "case", cases, dist, nil, 100)
}

var _ = net.IPv4
