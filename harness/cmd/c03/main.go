// C03 harness: several scripted sessions with distinct client addresses on ONE instance of
// a real service (obtained through the public registry, driven through Handle exactly as
// server.handle does: server.TimeoutConn around an address-carrying connection, one
// goroutine per connection), interleaved at request/response granularity.  Observed per
// step: the replies with the connection they arrived on and the events with the
// connection whose source address they carry.
package main

import (
	"context"
	"fmt"
	"net"
	"os"
	"path/filepath"
	"regexp"
	"runtime"
	"sort"
	"strings"
	"sync"
	"sync/atomic"
	"time"

	"github.com/honeytrap/honeytrap/event"
	"github.com/honeytrap/honeytrap/listener"
	"github.com/honeytrap/honeytrap/server"
	"github.com/honeytrap/honeytrap/services"
	_ "github.com/honeytrap/honeytrap/services/ftp"
	_ "github.com/honeytrap/honeytrap/services/ldap"
	_ "github.com/honeytrap/honeytrap/services/redis"
	_ "github.com/honeytrap/honeytrap/services/smtp"
	_ "github.com/honeytrap/honeytrap/services/telnet"
	"github.com/honeytrap/honeytrap/storage"
	"verif/harness/hx"
	"verif/harness/lab"
)

const (
	LDAP = 1 + iota
	FTP
	SMTP
	TFTP
	TELNET
	REDIS
	MEMCACHED
	HTTP
	SMTP2 // two smtp services in one process: even connection ids are served by the second
	MCUDP // memcached over UDP (rate limited)
)

var svcName = map[int]string{LDAP: "ldap", FTP: "ftp", SMTP: "smtp", TFTP: "tftp", TELNET: "telnet", REDIS: "redis", MEMCACHED: "memcached", HTTP: "http", SMTP2: "smtp-two-services", MCUDP: "memcached-udp"}
var svcPort = map[int]int{LDAP: 389, FTP: 21, SMTP: 25, TFTP: 69, TELNET: 23, REDIS: 6379, MEMCACHED: 11211, HTTP: 80, SMTP2: 25, MCUDP: 11211}

// ---- the scenario ----
type Step struct {
	Conn int    `json:"conn"`
	Kind string `json:"kind"` // open | tok | close
	T    int    `json:"t,omitempty"`
	A    int    `json:"a,omitempty"`
	Pick int    `json:"pick,omitempty"` // filled in from the observation
}

type Input struct {
	Svc   int    `json:"svc"`
	Name  string `json:"service"`
	Trace []Step `json:"trace"`
}

type OEv struct {
	Conn  int `json:"conn"` // connection whose source address the event carries (9999: none of ours)
	Type  int `json:"type"`
	Arg   int `json:"arg"`
	Sid   int `json:"sid"`
	DPort int `json:"dport"`
}
type ORep struct {
	Conn int `json:"conn"`
	Code int `json:"code"`
}
type OStep struct {
	Replies []ORep `json:"replies"`
	Events  []OEv  `json:"events"`
	Skipped bool   `json:"skipped,omitempty"` // nobody was reading the connection: nothing sent
	// unprojected material for the differential part (not written out)
	rawOut map[int][]byte
	rawEOF map[int]bool
	rawEvs []event.Event
}
type Obs struct {
	Steps []OStep `json:"steps"`
}

// ---- addresses ----
// A connection id stands for a client address (coq/C03/Model.v: ip_bytes, zone_of, port_of):
// family f = n / famBase, host h = (n % famBase) / 16, source port 40000 + n%16
//
//	f = 0, n < 4096 : 10.9.(h/256).(h%256) as a 4-byte net.IP (what an AF_INET socket reports)
//	f = 0, otherwise: 2001:db8:9::<h>
//	f = 1           : the IPv4 host 10.9.x.y as a 16-byte net.IP, ::ffff:10.9.x.y (what a dual-stack
//	                  socket reports) - the SAME peer as connection n % famBase for everything that
//	                  prints or compares the address
//	f = 2           : fe80::9:<h> with zone eth0 (link-local)
//	f >= 3          : 2001:db8:9::a09:<h> - an IPv6 host whose low four bytes are those of 10.9.x.y
//
// destination (local) address of connection n: 192.0.2.(1 + (n % famBase) % 3)
const (
	famBase   = 1 << 20
	famV4     = 0
	famMapped = 1
	famLL     = 2
	famLow4   = 3
)

func famOf(n int) int  { return n / famBase }
func hostOf(n int) int { return (n % famBase) / 16 }
func isV6(n int) bool  { return famOf(n) >= famLL || (famOf(n) == famV4 && n%famBase >= 4096) }

// the id of host h, port slot in family f
func idOf(f, h, slot int) int {
	if f == famV4 && h >= 256 {
		hx.Fatal("IPv4 pool has 256 hosts")
	}
	return f*famBase + 16*h + slot
}

// idOf with the plain IPv6 family: hosts 256.. of family 0
func id6(h, slot int) int { return 16*(256+h) + slot }

func remoteIP(n int) net.IP {
	h := hostOf(n)
	hi, lo := byte(h>>8), byte(h)
	switch f := famOf(n); {
	case f == famV4 && n%famBase < 4096:
		return net.IP{10, 9, hi, lo}
	case f == famV4:
		ip := net.ParseIP("2001:db8:9::")
		ip[14], ip[15] = hi, lo
		return ip
	case f == famMapped:
		return net.IPv4(10, 9, hi, lo) // 16 bytes
	case f == famLL:
		ip := net.ParseIP("fe80::9:0")
		ip[14], ip[15] = hi, lo
		return ip
	default:
		ip := net.ParseIP("2001:db8:9::")
		ip[12], ip[13], ip[14], ip[15] = 10, 9, hi, lo
		return ip
	}
}
func remoteZone(n int) string {
	if famOf(n) == famLL {
		return "eth0"
	}
	return ""
}
func remotePort(n int) int   { return 40000 + n%16 }
func localIPOf(n int) net.IP { return net.IPv4(192, 0, 2, byte(1+(n%famBase)%3)) }
func tcpAddrOf(n int) *net.TCPAddr {
	return &net.TCPAddr{IP: remoteIP(n), Port: remotePort(n), Zone: remoteZone(n)}
}
func udpAddrOf(n int) *net.UDPAddr {
	return &net.UDPAddr{IP: remoteIP(n), Port: remotePort(n), Zone: remoteZone(n)}
}

// the canonical id of the peer a connection id denotes: the 4-byte spelling of an IPv4 host
func canonID(n int) int {
	if famOf(n) == famMapped && n%famBase < 4096 {
		return n % famBase
	}
	return n
}

// the (canonical) connection id an address printed in an event belongs to; 9999: none of ours
func connOfAddr(ip string, port int) int {
	if port < 40000 || port > 40015 {
		return 9999
	}
	slot := port - 40000
	q := net.ParseIP(ip)
	if q == nil {
		return 9999
	}
	if p := q.To4(); p != nil {
		if p[0] != 10 || p[1] != 9 || p[2] != 0 {
			return 9999
		}
		return idOf(famV4, int(p[3]), slot)
	}
	h := int(q[14])<<8 + int(q[15])
	for _, f := range []int{famLL, famLow4} {
		n := idOf(f, h, slot)
		if remoteIP(n).Equal(q) {
			return n
		}
	}
	if n := 16*h + slot; h >= 256 && remoteIP(n).Equal(q) {
		return n
	}
	return 9999
}

// resolveConn: the connection of the scenario an observed (canonical) address belongs to.  Two
// connections of a scenario may print alike (10.9.0.1 in 4 and in 16 bytes, same port); an
// address that is the stepping connection's own names the stepping connection.
func resolveConn(c, stepping int, ids []int) int {
	if canonID(stepping) == c {
		return stepping
	}
	for _, x := range ids {
		if canonID(x) == c {
			return x
		}
	}
	return c
}

func traceIDs(tr []Step) []int {
	seen := map[int]bool{}
	var ids []int
	for _, s := range tr {
		if !seen[s.Conn] {
			seen[s.Conn] = true
			ids = append(ids, s.Conn)
		}
	}
	sort.Ints(ids)
	return ids
}

func resolveStep(st *OStep, stepping int, ids []int, udp bool) {
	// tcp: a reply is labelled with the connection it arrived on; udp: with the peer it was sent to
	for k := range st.Replies {
		if udp && st.Replies[k].Conn != stepping {
			st.Replies[k].Conn = resolveConn(canonID(st.Replies[k].Conn), stepping, ids)
		}
	}
	for k := range st.Events {
		st.Events[k].Conn = resolveConn(st.Events[k].Conn, stepping, ids)
	}
	sort.SliceStable(st.Events, func(i, j int) bool { return st.Events[i].Conn < st.Events[j].Conn })
}

// ---- recording channel ----
type recorder struct {
	mu  sync.Mutex
	evs []event.Event
}

func (r *recorder) Send(e event.Event) {
	r.mu.Lock()
	r.evs = append(r.evs, e)
	r.mu.Unlock()
}
func (r *recorder) count() int { r.mu.Lock(); defer r.mu.Unlock(); return len(r.evs) }

// ---- server side connection: counts the goroutines blocked in Read and the bytes moved ----
type cntConn struct {
	*lab.AConn
	eng      *engine
	blocked  int32
	consumed int64
	written  int64
}

func (c *cntConn) Read(p []byte) (int, error) {
	atomic.AddInt32(&c.blocked, 1)
	atomic.AddInt32(&c.eng.blocked, 1)
	n, err := c.AConn.Read(p)
	atomic.AddInt32(&c.eng.blocked, -1)
	atomic.AddInt32(&c.blocked, -1)
	atomic.AddInt64(&c.consumed, int64(n))
	return n, err
}
func (c *cntConn) Write(p []byte) (int, error) {
	n, err := c.AConn.Write(p)
	atomic.AddInt64(&c.written, int64(n))
	return n, err
}

type sess struct {
	id         int
	sc         *cntConn
	cc         net.Conn
	mu         sync.Mutex
	out        []byte
	received   int64
	eof        bool // the server closed the connection (seen by the client)
	eofTold    bool
	selfClosed bool
	sent       int64
	returned   bool // Handle returned
}

type engine struct {
	svc       int
	s         services.Servicer
	wantEvent bool              // every consumed write is reported by a pump goroutine (ftp, smtp)
	quiet     time.Duration     // how long the service must be seen at rest (default quietWindow)
	raw       bool              // keep the unprojected replies and events of every step
	s2        services.Servicer // SMTP2: the second service (port 587), serving even connection ids
	rec       *recorder
	sess      map[int]*sess
	order     []int
	blocked   int32
	panics    int32 // panics in Handle, recovered as server.handle does
	live      int32
	evSeen    int
	sids      map[string]int
	crashMu   sync.Mutex
	crash     string
	retMu     sync.Mutex
	returned  []int
}

func (e *engine) setCrash(s string) {
	e.crashMu.Lock()
	if e.crash == "" {
		e.crash = s
	}
	e.crashMu.Unlock()
}

// how long the service must be seen at rest before a step is considered complete
const quietWindow = 250 * time.Microsecond

// how long a single step may take before the service is declared stuck.  Generous on purpose:
// the harness shares the machine with other checks; a step normally takes well under a millisecond,
// and a service that really hangs costs this much at most eight times (see the crash cap)
const stepDeadline = 25 * time.Second

// schedBarrier lets the Go scheduler run whatever is runnable: n round trips through a freshly
// started goroutine.  Its duration grows with the load on the machine, which makes "seen at rest
// for k polls" mean the same thing on an idle and on a busy machine (a fixed sleep would not).
func schedBarrier(n int) {
	for i := 0; i < n; i++ {
		done := make(chan struct{})
		go func() { close(done) }()
		<-done
	}
}

// the protocol spoken in a scenario of kind svc
func proto(svc int) int {
	if svc == SMTP2 {
		return SMTP
	}
	return svc
}

// the registry name of the service behind a scenario kind
func regName(svc int) string {
	if svc == MCUDP {
		return "memcached"
	}
	return svcName[proto(svc)]
}

func newService(svc int, rec *recorder) services.Servicer {
	fn, ok := services.Get(regName(svc))
	if !ok {
		hx.Fatal("service %s not registered", regName(svc))
	}
	// note: every smtp service ever built in this process stays registered on the package-level
	// smtp.DefaultServeMux; connections must not depend on it
	return fn(services.WithChannel(rec))
}

func newEngine(svc int) *engine {
	rec := &recorder{}
	e := &engine{svc: svc, s: newService(svc, rec), rec: rec, sess: map[int]*sess{}, sids: map[string]int{}}
	if svc == SMTP2 {
		e.s2 = newService(svc, rec)
	}
	return e
}

func (e *engine) open(id int) {
	port := svcPort[e.svc]
	handler := e.s
	if e.svc == SMTP2 && id%2 == 0 {
		port, handler = 587, e.s2
	}
	sc, cc := lab.Pipe(&net.TCPAddr{IP: localIPOf(id), Port: port}, tcpAddrOf(id))
	cn := &cntConn{AConn: sc, eng: e}
	s := &sess{id: id, sc: cn, cc: cc}
	e.sess[id] = s
	e.order = append(e.order, id)
	sort.Ints(e.order)
	atomic.AddInt32(&e.live, 1)
	go func() {
		defer func() {
			if r := recover(); r != nil {
				// server.handle recovers, records a fatal event on the bus and closes the connection
				atomic.AddInt32(&e.panics, 1)
			}
			cn.Close() // server.handle: defer conn.Close()
			e.retMu.Lock()
			e.returned = append(e.returned, id)
			e.retMu.Unlock()
			s.mu.Lock()
			s.returned = true
			s.mu.Unlock()
			atomic.AddInt32(&e.live, -1)
		}()
		handler.Handle(context.Background(), server.TimeoutConn(cn, 30*time.Second))
	}()
	go func() {
		buf := make([]byte, 1<<16)
		for {
			n, err := cc.Read(buf)
			s.mu.Lock()
			if n > 0 {
				s.out = append(s.out, buf[:n]...)
				s.received += int64(n)
			}
			if err != nil {
				if !s.selfClosed {
					s.eof = true
				}
				s.mu.Unlock()
				return
			}
			s.mu.Unlock()
		}
	}()
}

// quiescent: every Handle goroutine that has not returned is blocked in a Read, everything
// the server wrote has reached the client side, closures have been noticed, and at least
// wantEvents events have been recorded; observed on several consecutive polls.
func (e *engine) settle(wantEvents int) bool {
	deadline := time.Now().Add(stepDeadline)
	stable := 0
	var since time.Time
	lastEv := -1
	for {
		ok := atomic.LoadInt32(&e.blocked) == atomic.LoadInt32(&e.live)
		for _, s := range e.sess {
			s.mu.Lock()
			if s.received != atomic.LoadInt64(&s.sc.written) {
				ok = false
			}
			select {
			case <-s.sc.Closed():
				if !s.eof && !s.selfClosed {
					ok = false
				}
			default:
			}
			s.mu.Unlock()
		}
		n := e.rec.count()
		if n < wantEvents || n != lastEv {
			ok = false
		}
		lastEv = n
		now := time.Now()
		if ok {
			if stable == 0 {
				since = now
			}
			stable++
			if stable >= 4 && now.Sub(since) >= e.quietFor() {
				return true
			}
		} else {
			stable = 0
		}
		if now.After(deadline) {
			return false
		}
		schedBarrier(1)
	}
}

func (e *engine) quietFor() time.Duration {
	if e.quiet > 0 {
		return e.quiet
	}
	return quietWindow
}

func (e *engine) harvest() OStep {
	var st OStep
	for _, id := range e.order {
		s := e.sess[id]
		s.mu.Lock()
		out := s.out
		s.out = nil
		eof := s.eof && !s.eofTold
		if eof {
			s.eofTold = true
		}
		s.mu.Unlock()
		for _, c := range canonReplies(proto(e.svc), out) {
			st.Replies = append(st.Replies, ORep{Conn: id, Code: c})
		}
		if eof {
			st.Replies = append(st.Replies, ORep{Conn: id, Code: 0})
		}
		if e.raw {
			if st.rawOut == nil {
				st.rawOut, st.rawEOF = map[int][]byte{}, map[int]bool{}
			}
			st.rawOut[id], st.rawEOF[id] = out, eof
		}
	}
	e.rec.mu.Lock()
	evs := append([]event.Event(nil), e.rec.evs[e.evSeen:]...)
	e.evSeen = len(e.rec.evs)
	e.rec.mu.Unlock()
	for _, ev := range evs {
		st.Events = append(st.Events, canonEvent(proto(e.svc), ev, e.sids))
	}
	sort.SliceStable(st.Events, func(i, j int) bool { return st.Events[i].Conn < st.Events[j].Conn })
	if e.raw {
		st.rawEvs = evs
	}
	return st
}

// goroutines started by a service's Handle (the event pumps of ftp and smtp)
var reHandleChild = regexp.MustCompile(`created by github\.com/honeytrap/honeytrap/services/[^\s]*\.Handle `)

func handleChildren() int {
	buf := make([]byte, 1<<20)
	for {
		n := runtime.Stack(buf, true)
		if n < len(buf) {
			return len(reHandleChild.FindAll(buf[:n], -1))
		}
		buf = make([]byte, 2*len(buf))
	}
}

// drain ends every session of the scenario and waits until every handler has returned and every
// goroutine a handler started (event pump) has finished: then nothing can be recorded any more.
// This is a condition on the program's state, not a waiting time, so it holds on a loaded machine.
func (e *engine) drain() string {
	e.closeAll()
	t0 := time.Now()
	for atomic.LoadInt32(&e.live) > 0 || handleChildren() > 0 {
		if time.Since(t0) > stepDeadline {
			return fmt.Sprintf("after all connections were closed %d handlers and %d goroutines started by handlers are still running", atomic.LoadInt32(&e.live), handleChildren())
		}
		schedBarrier(2)
	}
	return ""
}

// forget drops a finished connection from the bookkeeping (long histories)
func (e *engine) forget(id int) {
	s := e.sess[id]
	if s == nil {
		return
	}
	s.mu.Lock()
	s.selfClosed = true
	s.mu.Unlock()
	s.cc.Close()
	delete(e.sess, id)
	for k, x := range e.order {
		if x == id {
			e.order = append(e.order[:k], e.order[k+1:]...)
			break
		}
	}
}

func (e *engine) closeAll() {
	for _, s := range e.sess {
		s.mu.Lock()
		s.selfClosed = true
		s.mu.Unlock()
		s.cc.Close()
	}
}

// one step: open / close / write p on the connection; waits for the service to come to rest
func (e *engine) step(k int, kind string, conn int, p []byte, events int) (OStep, string) {
	want := e.rec.count()
	e.retMu.Lock()
	e.returned = nil
	e.retMu.Unlock()
	skipped := false
	switch kind {
	case "open":
		if _, dup := e.sess[conn]; dup {
			hx.Fatal("scenario opens connection %d twice", conn)
		}
		e.open(conn)
	case "close":
		s := e.sess[conn]
		if s == nil {
			skipped = true
			break
		}
		s.mu.Lock()
		already := s.selfClosed || s.eof
		s.selfClosed = true
		s.mu.Unlock()
		if already {
			skipped = true
		}
		s.cc.Close()
	case "tok":
		s := e.sess[conn]
		if s == nil {
			skipped = true
			break
		}
		s.mu.Lock()
		dead := s.selfClosed || s.eof
		s.mu.Unlock()
		select {
		case <-s.sc.Closed():
			dead = true
		default:
		}
		if dead || atomic.LoadInt32(&s.sc.blocked) == 0 {
			// closed, or no goroutine will ever read this connection again: a real socket
			// would buffer the bytes unread; nothing can come of them
			skipped = true
			break
		}
		s.cc.SetWriteDeadline(time.Now().Add(stepDeadline))
		n, _ := s.cc.Write(p)
		s.sent += int64(n)
		// the server side has taken the bytes out of the pipe; wait until its Read returned
		t0 := time.Now()
		for atomic.LoadInt64(&s.sc.consumed) < s.sent && time.Since(t0) < stepDeadline {
			runtime.Gosched()
		}
		want += events // events sent by a pump goroutine, after the handler is back in Read
	}
	if !e.settle(want) {
		e.crashMu.Lock()
		c := e.crash
		e.crashMu.Unlock()
		if c == "" {
			c = fmt.Sprintf("step %d (%s conn %d): the service did not come to rest within 25 s (blocked readers %d, running handlers %d, events %d, expected at least %d)",
				k, kind, conn, atomic.LoadInt32(&e.blocked), atomic.LoadInt32(&e.live), e.rec.count(), want)
		}
		return OStep{}, c
	}
	st := e.harvest()
	st.Skipped = skipped
	e.crashMu.Lock()
	c := e.crash
	e.crashMu.Unlock()
	return st, c
}

// run the scenario; fills in the picks
func runTCP(in *Input) (Obs, string) {
	e := newEngine(in.Svc)
	var ob Obs
	defer e.closeAll()
	ids := traceIDs(in.Trace)
	for k := range in.Trace {
		stp := &in.Trace[k]
		var p []byte
		if stp.Kind == "tok" {
			p = payload(proto(in.Svc), stp.Conn, stp.T, stp.A)
		}
		// ftp, smtp: one event per line / message, sent by the connection's pump goroutine
		events := 0
		if in.Svc == FTP || proto(in.Svc) == SMTP {
			events = 1
			if proto(in.Svc) == SMTP && (stp.T == 12 || stp.T == 13) {
				events = 2 // the BDAT line and the mail it completes
			}
		}
		st, crash := e.step(k, stp.Kind, stp.Conn, p, events)
		if crash != "" && len(st.Replies) == 0 && len(st.Events) == 0 {
			return ob, crash
		}
		resolveStep(&st, stp.Conn, ids, false)
		// the connection whose address the step's event carried (for the replay files)
		if stp.Kind == "tok" {
			stp.Pick = 0
			for _, ev := range st.Events {
				if proto(in.Svc) == SMTP && ev.Type != 2 {
					continue
				}
				stp.Pick = ev.Conn
				break
			}
		}
		ob.Steps = append(ob.Steps, st)
		if crash != "" {
			return ob, crash
		}
	}
	return ob, ""
}

// UDP services (tftp, memcached): one datagram = one connection object (listener.DummyUDPConn),
// as the socket listener builds it; Handle runs to completion for each
type udpRunner struct {
	svc  int
	s    services.Servicer
	rec  *recorder
	sids map[string]int
	seen int
	raw  bool
}

func newUDPRunner(svc int) *udpRunner {
	rec := &recorder{}
	return &udpRunner{svc: svc, s: newService(svc, rec), rec: rec, sids: map[string]int{}}
}

func (u *udpRunner) datagram(k, conn int, p []byte) (OStep, string) {
	var st OStep
	var replies [][]byte
	var repTo []int // the peer each reply was sent to
	from := udpAddrOf(conn)
	c := &listener.DummyUDPConn{Buffer: append([]byte(nil), p...),
		Laddr: &net.UDPAddr{IP: localIPOf(conn), Port: svcPort[u.svc]},
		Raddr: from,
		Fn: func(b []byte, addr *net.UDPAddr) (int, error) {
			replies = append(replies, append([]byte(nil), b...))
			to := conn
			if addr == nil || !addr.IP.Equal(from.IP) || addr.Port != from.Port || addr.Zone != from.Zone {
				to = 9999
				if addr != nil {
					to = connOfAddr(addr.IP.String(), addr.Port)
				}
			}
			repTo = append(repTo, to)
			return len(b), nil
		}}
	done := make(chan string, 1)
	go func() {
		defer func() {
			if r := recover(); r != nil {
				done <- fmt.Sprintf("panic in Handle: %v", r)
			}
		}()
		u.s.Handle(context.Background(), server.TimeoutConn(c, 30*time.Second))
		done <- ""
	}()
	select {
	case cr := <-done:
		if cr != "" {
			return st, cr
		}
	case <-time.After(stepDeadline):
		return st, fmt.Sprintf("step %d: %s Handle did not return", k, svcName[u.svc])
	}
	var all []byte
	for k, r := range replies {
		code := canonTFTP(r)
		if u.svc == MCUDP {
			code = 9
			if cs := canonReplies(MEMCACHED, r); len(cs) > 0 {
				code = cs[0]
			}
		}
		st.Replies = append(st.Replies, ORep{Conn: repTo[k], Code: code})
		all = append(all, r...)
		all = append(all, '|')
	}
	u.rec.mu.Lock()
	evs := append([]event.Event(nil), u.rec.evs[u.seen:]...)
	u.seen = len(u.rec.evs)
	u.rec.mu.Unlock()
	for _, ev := range evs {
		st.Events = append(st.Events, canonEvent(proto(u.svc), ev, u.sids))
	}
	sort.SliceStable(st.Events, func(i, j int) bool { return st.Events[i].Conn < st.Events[j].Conn })
	if u.raw {
		st.rawOut, st.rawEOF, st.rawEvs = map[int][]byte{conn: all}, map[int]bool{}, evs
	}
	return st, ""
}

func runUDP(in *Input) (ob Obs, crash string) {
	u := newUDPRunner(in.Svc)
	ids := traceIDs(in.Trace)
	for k := range in.Trace {
		stp := &in.Trace[k]
		if stp.Kind != "tok" {
			ob.Steps = append(ob.Steps, OStep{})
			continue
		}
		st, cr := u.datagram(k, stp.Conn, payload(in.Svc, stp.Conn, stp.T, stp.A))
		if cr != "" {
			return ob, cr
		}
		resolveStep(&st, stp.Conn, ids, true)
		ob.Steps = append(ob.Steps, st)
	}
	return ob, ""
}

func runOne(in *Input) (Obs, string) {
	if in.Svc == TFTP || in.Svc == MCUDP {
		return runUDP(in)
	}
	return runTCP(in)
}

// ---- rendering ----
func coqCase(id int, in Input, ob Obs) string {
	var tr, os_ []string
	for _, s := range in.Trace {
		switch s.Kind {
		case "open":
			tr = append(tr, fmt.Sprintf("O %d%%N", s.Conn))
		case "close":
			tr = append(tr, fmt.Sprintf("X %d%%N", s.Conn))
		default:
			tr = append(tr, fmt.Sprintf("T %d%%N %d%%N %d%%N %d%%N", s.Conn, s.T, s.A, s.Pick))
		}
	}
	for _, st := range ob.Steps {
		var rs, es []string
		for _, r := range st.Replies {
			rs = append(rs, fmt.Sprintf("(%d%%N,%d%%N)", r.Conn, r.Code))
		}
		for _, e := range st.Events {
			es = append(es, fmt.Sprintf("E %d%%N %d%%N %d%%N %d%%N %d%%N", e.Conn, e.Type, e.Arg, e.Sid, e.DPort))
		}
		os_ = append(os_, "("+hx.CoqList(rs, "(N*N)")+", "+hx.CoqList(es, "oev")+")")
	}
	// the real library on the scenario's client addresses: classes of equal net.IP.String() and
	// of equal RemoteAddr().String()
	var ks []string
	ids := traceIDs(in.Trace)
	ipClass, peerClass := map[string]int{}, map[string]int{}
	for k, n := range ids {
		is, ps := remoteIP(n).String(), udpAddrOf(n).String()
		if ts := tcpAddrOf(n).String(); ts != ps {
			hx.Fatal("TCP and UDP address of connection %d print differently: %s %s", n, ts, ps)
		}
		if _, ok := ipClass[is]; !ok {
			ipClass[is] = k
		}
		if _, ok := peerClass[ps]; !ok {
			peerClass[ps] = k
		}
		ks = append(ks, fmt.Sprintf("(%d%%N,%d%%N,%d%%N)", n, ipClass[is], peerClass[ps]))
	}
	return fmt.Sprintf("mkCase %d%%N %d%%N %s %s %s", id, in.Svc, hx.CoqList(tr, "(N*input)"), hx.CoqList(os_, "ostep"), hx.CoqList(ks, "(N*N*N)"))
}

// the directory tree the ftp service serves: /a/c and /b, nothing else
var ftpRoot string

func resetFtpTree() {
	os.RemoveAll(ftpRoot)
	for _, d := range []string{"a/c", "b"} {
		if err := os.MkdirAll(filepath.Join(ftpRoot, d), 0o755); err != nil {
			hx.Fatal("mkdir: %v", err)
		}
	}
}

func setupStorage(out string) {
	db := filepath.Join(out, "db")
	os.RemoveAll(db)
	if err := os.MkdirAll(db, 0o755); err != nil {
		hx.Fatal("mkdir: %v", err)
	}
	storage.SetDataDir(db)
	base := filepath.Join(out, "fsbase")
	ftpRoot = filepath.Join(base, "ftp", "root")
	resetFtpTree()
	st, err := storage.Namespace("ftp")
	if err != nil {
		hx.Fatal("storage: %v", err)
	}
	if err := st.Set("base", []byte(base)); err != nil {
		hx.Fatal("storage set: %v", err)
	}
	if err := st.Set("fs_root", []byte("root")); err != nil {
		hx.Fatal("storage set: %v", err)
	}
}

func shape(in Input) string {
	seen := map[int]bool{}
	runs := 0
	last := -1
	for _, s := range in.Trace {
		if s.Conn != last {
			runs++
			last = s.Conn
		}
		seen[s.Conn] = true
	}
	switch {
	case len(seen) <= 1:
		return "single"
	case runs <= len(seen):
		return "sequential"
	}
	return "interleaved"
}

// a replay file carries the input of one case of one part
type anyInput struct {
	Svc     int      `json:"svc"`
	Trace   []Step   `json:"trace"`
	Calls   []LCall  `json:"calls"`
	Probe   *DSess   `json:"probe"`
	Others  []DSess  `json:"others"`
	Order   []int    `json:"order"`
	Variant string   `json:"variant"`
	Hist    int      `json:"hist"`
	Cfg     []SEntry `json:"cfg"`
	Conns   []PConn  `json:"conns"`
	DelayMs int      `json:"delay_ms"`
	Pair    string   `json:"pair"`
	History []SDest  `json:"history"`
	SProbe  *SDest   `json:"-"`
}

func isoPart(o hx.Opts, r *hx.Rand, only *Input) {
	var ins []Input
	if only != nil {
		ins = []Input{*only}
	} else {
		ins = generate(r, o.Tier)
	}
	dist := map[string]int{}
	var cases []hx.Case
	debug := os.Getenv("C03_DEBUG") != ""
	crashes := map[int]int{}
	for i := range ins {
		in := ins[i]
		in.Name = svcName[in.Svc]
		for k := range in.Trace {
			in.Trace[k].Pick = 0
		}
		if crashes[in.Svc] >= 8 {
			// the service keeps failing abruptly: eight scenarios with replay are enough
			dist["not-run-after-repeated-failures:"+in.Name]++
			continue
		}
		ob, crash := runOne(&in)
		if crash != "" {
			crashes[in.Svc]++
		}
		dist["service:"+in.Name]++
		dist["shape:"+shape(in)]++
		dist[fmt.Sprintf("steps:%02d-%02d", len(in.Trace)/5*5, len(in.Trace)/5*5+4)]++
		v6 := false
		for _, st := range in.Trace {
			if isV6(st.Conn) {
				v6 = true
			}
		}
		if v6 {
			dist["with-ipv6-clients"]++
		}
		for _, rel := range addrRelations(traceIDs(in.Trace)) {
			dist["client-addresses:"+rel]++
		}
		for _, st := range ob.Steps {
			if st.Skipped {
				dist["steps-on-unread-or-closed-connection"]++
			}
		}
		if debug {
			fmt.Fprintf(os.Stderr, "case %d %s crash=%q\n", i, in.Name, crash)
			for k, st := range ob.Steps {
				fmt.Fprintf(os.Stderr, "  %+v -> %+v %+v\n", in.Trace[k], st.Replies, st.Events)
			}
		}
		cases = append(cases, hx.Case{ID: i, Kind: in.Name + "/" + shape(in), Input: in, Obs: ob, Crash: crash, Coq: coqCase(i, in, ob)})
	}
	hx.Write(o, "C03", "iso", "From HT Require Import C03.Model C03.Check.", "case", cases, dist, nil, 60)
}

func main() {
	o := hx.ParseArgs()
	// smtp prints every line to stdout
	if devnull, err := os.OpenFile(os.DevNull, os.O_WRONLY, 0); err == nil {
		os.Stdout = devnull
	}
	setupStorage(o.Out)
	r := hx.NewRand(o.Seed)
	if o.Only != "" {
		var in anyInput
		if err := hx.LoadReplay(o.Only, &in); err != nil {
			hx.Fatal("replay: %v", err)
		}
		switch {
		case in.Conns != nil:
			peekPart(o, r, &PInput{Conns: in.Conns, DelayMs: in.DelayMs})
		case in.Cfg != nil:
			var sin SInput
			if err := hx.LoadReplay(o.Only, &sin); err != nil {
				hx.Fatal("replay: %v", err)
			}
			srvPart(o, r, &sin)
		case in.Calls != nil:
			limPart(o, r, &LInput{Calls: in.Calls})
		case in.Probe != nil:
			diffPart(o, r, &DInput{Svc: in.Svc, Variant: in.Variant, Probe: *in.Probe, Others: in.Others, Order: in.Order, Hist: in.Hist, Pair: in.Pair})
		default:
			isoPart(o, r, &Input{Svc: in.Svc, Trace: in.Trace})
		}
		return
	}
	isoPart(o, r, nil)
	diffPart(o, hx.NewRand(o.Seed+1000003), nil)
	limPart(o, hx.NewRand(o.Seed+2000003), nil)
	srvPart(o, hx.NewRand(o.Seed+3000003), nil)
	peekPart(o, hx.NewRand(o.Seed+4000003), nil)
}

func lower(s string) string { return strings.ToLower(s) }
