package main

import (
	"bytes"
	"fmt"
	"net"
	"strings"
	"sync"
	"time"

	"verif/harness/hx"
	"verif/harness/lab"
)

// part "peek": one port shared by two detector services on the real server, connections
// dispatched while earlier ones have been peeked but not yet read by their service.

type PConn struct {
	Payload hx.B `json:"payload"`
	GapMs   int  `json:"gap_ms"` // started so long after the previous connection
}
type PInput struct {
	Conns   []PConn `json:"conns"`
	DelayMs int     `json:"delay_ms"` // the services wait so long before their first read
}
type PObsConn struct {
	Svc    int  `json:"svc"`
	Intact bool `json:"intact"`
	Got    hx.B `json:"got,omitempty"`
}
type PObs struct {
	Conns []PObsConn `json:"conns"`
}

func runPeek(in PInput, scratch string) (PObs, string) {
	var ob PObs
	var sb strings.Builder
	sb.WriteString("[listener]\ntype=\"verif-rec\"\n\n")
	for k, pfx := range []string{"AA", "BB"} {
		fmt.Fprintf(&sb, "[service.s%d]\ntype=\"verif-stub-det\"\nname=\"s%d\"\nprefix=%q\nreadsize=512\ndelay=%d\n\n", k+1, k+1, pfx, in.DelayMs)
	}
	sb.WriteString("[[port]]\nport=\"tcp/80\"\nservices=[\"s1\",\"s2\"]\n")
	l, err := lab.Start(sb.String(), scratch)
	if err != nil {
		hx.Fatal("lab start: %v", err)
	}
	defer l.Stop()
	if !l.Started() {
		return ob, "server returned before starting the listener"
	}
	var wg sync.WaitGroup
	errs := make([]error, len(in.Conns))
	for k, c := range in.Conns {
		// the stagger only shapes the schedule; whatever schedule results, every connection must
		// get its own bytes
		time.Sleep(time.Duration(c.GapMs) * time.Millisecond)
		wg.Add(1)
		go func(k int, c PConn) {
			defer wg.Done()
			errs[k] = l.Probe(&net.TCPAddr{IP: net.IPv4(192, 0, 2, 1), Port: 80}, &net.TCPAddr{IP: net.IPv4(198, 51, 100, byte(1+k)), Port: 42000 + k}, [][]byte{c.Payload})
		}(k, c)
	}
	wg.Wait()
	for k, e := range errs {
		if e != nil {
			return ob, fmt.Sprintf("connection %d: %v", k, e)
		}
	}
	_, handled := l.Snapshot()
	for k, c := range in.Conns {
		o := PObsConn{}
		n := 0
		for _, h := range handled {
			if ta, ok := h.Remote.(*net.TCPAddr); ok && ta.Port == 42000+k {
				n++
				fmt.Sscanf(h.Service, "s%d", &o.Svc)
				o.Intact = bytes.Equal(h.Bytes, c.Payload)
				if !o.Intact {
					o.Got = h.Bytes
				}
			}
		}
		if n > 1 {
			return ob, "more than one service handled one connection"
		}
		if n == 0 {
			o.Intact = true
		}
		ob.Conns = append(ob.Conns, o)
	}
	return ob, ""
}

func genPeek(r *hx.Rand, tier string) []PInput {
	pay := func(pfx string, k, n int) hx.B {
		return hx.B(pfx + fmt.Sprintf("-first-bytes-of-connection-%d-", k) + strings.Repeat(string(rune('a'+k)), n))
	}
	var ins []PInput
	n := 10
	if tier != "quick" {
		n = 80
	}
	// A then B (other service), B then A, same service twice, three and four connections, payloads
	// shorter / longer than the earlier one's, one that matches no detector
	ins = append(ins,
		PInput{DelayMs: 60, Conns: []PConn{{pay("AA", 0, 40), 0}, {pay("BB", 1, 10), 8}}},
		PInput{DelayMs: 60, Conns: []PConn{{pay("BB", 0, 5), 0}, {pay("AA", 1, 300), 8}}},
		PInput{DelayMs: 60, Conns: []PConn{{pay("AA", 0, 100), 0}, {pay("AA", 1, 20), 8}, {pay("BB", 2, 60), 8}}},
		PInput{DelayMs: 60, Conns: []PConn{{pay("AA", 0, 30), 0}, {pay("ZZ", 1, 30), 8}, {pay("BB", 2, 30), 8}, {pay("AA", 3, 900), 8}}},
	)
	for i := 0; i < n; i++ {
		in := PInput{DelayMs: r.PickInt([]int{30, 60, 90})}
		for k, m := 0, r.Range(2, 4); k < m; k++ {
			in.Conns = append(in.Conns, PConn{pay(r.PickStr([]string{"AA", "BB", "AA", "BB", "ZZ"}), k, r.PickInt([]int{1, 10, 100, 600, 1100})), r.PickInt([]int{0, 3, 8, 15})})
		}
		ins = append(ins, in)
	}
	return ins
}

func coqPeek(id int, in PInput, ob PObs) string {
	var cs []string
	for k, c := range in.Conns {
		cs = append(cs, fmt.Sprintf("mkPC %d%%N %d%%N %s", c.Payload[0], ob.Conns[k].Svc, hx.CoqBool(ob.Conns[k].Intact)))
	}
	return fmt.Sprintf("mkCase %d%%N %s", id, hx.CoqList(cs, "pconn"))
}

func peekPart(o hx.Opts, r *hx.Rand, only *PInput) {
	var ins []PInput
	if only != nil {
		ins = []PInput{*only}
	} else {
		ins = genPeek(r, o.Tier)
	}
	dist := map[string]int{}
	var cases []hx.Case
	for i, in := range ins {
		ob, crash := runPeek(in, o.Out)
		dist[fmt.Sprintf("connections:%d", len(in.Conns))]++
		c := hx.Case{ID: i, Kind: "shared-port", Input: in, Obs: ob, Crash: crash}
		if crash == "" {
			c.Coq = coqPeek(i, in, ob)
		}
		cases = append(cases, c)
	}
	hx.Write(o, "C03", "peek", "From HT Require Import C03.Model C03.CheckPeek.", "case", cases, dist, nil, 100)
}
