package main

import (
	"sort"

	"verif/harness/hx"
)

func sortStrings(s []string) { sort.Strings(s) }

func op(c int) Step       { return Step{Conn: c, Kind: "open"} }
func cl(c int) Step       { return Step{Conn: c, Kind: "close"} }
func tk(c, t, a int) Step { return Step{Conn: c, Kind: "tok", T: t, A: a} }
func connID(k int) int    { return 17 * (k + 1) }    // distinct IP, port and destination address per session
func connID6(k int) int   { return 4096 + 17*(k+1) } // the same with an IPv6 client address

// a session id: the k-th host of the scenario in one of the address families (IPv4 in 4 bytes, IPv4
// in 16 bytes, IPv6 global, link-local with zone, IPv6 with the low bytes of the IPv4 host); its
// source port is its own or - now and then - one that other sessions of the scenario use as well
func pickID(r *hx.Rand, k int) int {
	h, slot := k+1, k+1
	if r.Chance(1, 4) {
		slot = 9
	}
	switch r.Intn(9) {
	case 0, 1:
		return id6(h, slot)
	case 2:
		return idOf(famMapped, h, slot)
	case 3:
		return idOf(famLL, h, slot)
	case 4:
		return idOf(famLow4, h, slot)
	}
	return idOf(famV4, h, slot)
}

// ---- the ADDRESS dimension: pairs of client addresses that differ in one respect only ----
type addrPair struct {
	name     string
	a, b     int
	sameHost bool // one IP (the rate limiter's bucket is shared by design)
	samePeer bool // one IP and one port, spelt in 4 and in 16 bytes: ONE peer for the unchanged code
}

func addrPairs() []addrPair {
	const s = 5 // the source port slot both use
	v4, mp, ll, lw := famV4, famMapped, famLL, famLow4
	return []addrPair{
		{name: "ipv6-other-host-same-port", a: id6(1, s), b: id6(2, s)},
		{name: "ipv6-same-host-other-port", a: id6(1, s), b: id6(1, s+1), sameHost: true},
		{name: "ipv4-other-host-same-port", a: idOf(v4, 1, s), b: idOf(v4, 2, s)},
		{name: "ipv4-same-host-other-port", a: idOf(v4, 1, s), b: idOf(v4, 1, s+1), sameHost: true},
		{name: "ipv4-in-4-and-in-16-bytes-same-port", a: idOf(v4, 1, s), b: idOf(mp, 1, s), sameHost: true, samePeer: true},
		{name: "ipv4-in-4-and-in-16-bytes-other-port", a: idOf(v4, 1, s), b: idOf(mp, 1, s+1), sameHost: true},
		{name: "ipv4-and-v4-mapped-other-host-same-port", a: idOf(v4, 1, s), b: idOf(mp, 2, s)},
		{name: "v4-mapped-other-host-same-port", a: idOf(mp, 1, s), b: idOf(mp, 2, s)},
		{name: "ipv4-and-ipv6-same-low-bytes-same-port", a: idOf(v4, 1, s), b: idOf(lw, 1, s)},
		{name: "v4-mapped-and-ipv6-same-low-bytes-same-port", a: idOf(mp, 1, s), b: idOf(lw, 1, s)},
		{name: "ipv6-low-bytes-of-ipv4-other-host-same-port", a: idOf(lw, 1, s), b: idOf(lw, 2, s)},
		{name: "ipv6-differing-in-the-low-bytes-only-same-port", a: id6(1, s), b: idOf(lw, 1, s)},
		{name: "link-local-other-host-same-port", a: idOf(ll, 1, s), b: idOf(ll, 2, s)},
		{name: "link-local-same-host-other-port", a: idOf(ll, 1, s), b: idOf(ll, 1, s+1), sameHost: true},
		{name: "link-local-and-global-same-port", a: idOf(ll, 1, s), b: id6(1, s)},
	}
}

// how the client addresses of a scenario relate (for the distribution counts)
func addrRelations(ids []int) []string {
	set := map[string]bool{}
	for _, n := range ids {
		switch {
		case famOf(n) == famMapped:
			set["has-ipv4-in-16-bytes"] = true
		case famOf(n) == famLL:
			set["has-link-local-with-zone"] = true
		case famOf(n) >= famLow4:
			set["has-ipv6-with-ipv4-low-bytes"] = true
		case isV6(n):
			set["has-ipv6-global"] = true
		default:
			set["has-ipv4-in-4-bytes"] = true
		}
	}
	for i, x := range ids {
		for _, y := range ids[i+1:] {
			ipEq := remoteIP(x).Equal(remoteIP(y)) && remoteZone(x) == remoteZone(y)
			portEq := remotePort(x) == remotePort(y)
			switch {
			case ipEq && portEq:
				set["pair-one-peer-in-two-spellings"] = true
			case ipEq:
				set["pair-same-host-other-port"] = true
			case portEq:
				set["pair-other-host-same-port"] = true
			}
			if !ipEq && isV6(x) != isV6(y) {
				a, b := remoteIP(x).To16(), remoteIP(y).To16()
				if string(a[12:]) == string(b[12:]) {
					set["pair-ipv4-and-ipv6-same-low-bytes"] = true
				}
			}
		}
	}
	var out []string
	for k := range set {
		out = append(out, k)
	}
	sortStrings(out)
	return out
}

func perm(r *hx.Rand, n int) []int {
	p := make([]int, n)
	for i := range p {
		p[i] = i
	}
	for i := n - 1; i > 0; i-- {
		j := r.Intn(i + 1)
		p[i], p[j] = p[j], p[i]
	}
	return p
}

func remap(ss [][]Step, ids ...int) [][]Step {
	var out [][]Step
	for k, s := range ss {
		if k >= len(ids) {
			break
		}
		var t []Step
		for _, st := range s {
			st.Conn = ids[k]
			t = append(t, st)
		}
		out = append(out, t)
	}
	return out
}

// scenarios over every pair of addrPairs, per service
func genAddr(r *hx.Rand, tier string) []Input {
	var ins []Input
	add := func(svc int, tr []Step) { ins = append(ins, Input{Svc: svc, Trace: number(svc, tr)}) }
	sample := func(svc int, ss [][]Step, n int) {
		ms := allMerges(ss)
		if n >= len(ms) {
			for _, m := range ms {
				add(svc, m)
			}
			return
		}
		for i := 0; i < n; i++ {
			add(svc, ms[r.Intn(len(ms))])
		}
	}
	all := 1 << 30
	nTCP, nSvc, nEmpty, nMC, nHammer := 1, 3, 1, 2, 1
	if tier != "quick" {
		nTCP, nSvc, nEmpty, nMC, nHammer = 6, 99, all, all, all
	}
	tcpSvcs := []int{LDAP, FTP, SMTP, TELNET, REDIS, MEMCACHED, HTTP}
	for _, p := range addrPairs() {
		a, b := p.a, p.b
		// tftp: two uploads in flight at the same time - WRQ(A) WRQ(B) DATA(A) DATA(B) ... with the
		// final (short / empty) blocks in both orders: EVERY interleaving
		if p.sameHost {
			// one bucket of the limiter: four datagrams in all
			sample(TFTP, [][]Step{{tk(a, 2, 1), tk(a, 4, 1)}, {tk(b, 2, 2), tk(b, 4, 1)}}, all)
			sample(TFTP, [][]Step{{tk(a, 2, 1), tk(a, 3, 1), tk(a, 7, 2)}, {tk(b, 2, 2)}}, nEmpty)
		} else {
			sample(TFTP, [][]Step{{tk(a, 2, 1), tk(a, 3, 1), tk(a, 4, 2)}, {tk(b, 2, 2), tk(b, 4, 1)}}, all)
			sample(TFTP, [][]Step{{tk(a, 2, 3), tk(a, 3, 1), tk(a, 7, 2)}, {tk(b, 2, 3), tk(b, 7, 1), tk(b, 1, 3)}}, nEmpty)
			sample(TFTP, [][]Step{{tk(a, 2, 1), tk(a, 4, 1), tk(a, 2, 2), tk(a, 4, 1)}, {tk(b, 3, 1), tk(b, 2, 1), tk(b, 4, 1)}}, nEmpty)
		}
		// memcached/udp: the only per-peer state is the limiter's bucket; B hammers, A must be served
		sample(MCUDP, [][]Step{{tk(a, 2, 0), tk(a, 3, 0), tk(a, 1, 0)}, {tk(b, 2, 0), tk(b, 1, 0)}}, nMC)
		if !p.sameHost {
			sample(MCUDP, [][]Step{{tk(a, 2, 0), tk(a, 3, 0), tk(a, 1, 0), tk(a, 2, 0)},
				{tk(b, 2, 0), tk(b, 2, 0), tk(b, 2, 0), tk(b, 2, 0), tk(b, 2, 0), tk(b, 2, 0)}}, nHammer)
		}
		// tcp services: session ids and the addresses of events; two connections of one peer
		// (same address, same port) cannot be told apart by any observer and are left out
		if p.samePeer {
			continue
		}
		// (quick: three of the seven services per pair, drawn)
		for k, i := range perm(r, len(tcpSvcs)) {
			if k < nSvc {
				sample(tcpSvcs[i], remap(fixedScripts(tcpSvcs[i], false), a, b), nTCP)
			}
		}
	}
	return ins
}
func cat(xs ...[]Step) []Step {
	var out []Step
	for _, x := range xs {
		out = append(out, x...)
	}
	return out
}

// message ids / message numbers must be unique within a scenario: assigned by position
func number(svc int, tr []Step) []Step {
	out := append([]Step(nil), tr...)
	for k := range out {
		if out[k].Kind != "tok" {
			continue
		}
		if svc == LDAP || (proto(svc) == SMTP && (out[k].T == 5 || out[k].T == 10 || out[k].T == 12)) {
			out[k].A = k + 1
		}
	}
	return out
}

// one session's script (without the connection being opened): mostly well-formed dialogue
func genTokens(r *hx.Rand, svc, c, n int) []Step {
	var s []Step
	switch proto(svc) {
	case LDAP:
		for i := 0; i < n; i++ {
			s = append(s, tk(c, r.PickInt([]int{1, 1, 2, 3, 4, 4, 4, 4, 7}), 0))
		}
		if r.Chance(1, 6) {
			s = append(s, tk(c, 6, 0))
		}
	case FTP:
		switch r.Intn(6) {
		case 0: // never logs in
		case 1:
			s = append(s, tk(c, 1, 2), tk(c, 2, 2))
		case 2:
			s = append(s, tk(c, 1, 1), tk(c, 2, 2))
		default:
			s = append(s, tk(c, 1, 1), tk(c, 2, 1))
		}
		for i := 0; i < n; i++ {
			switch r.Intn(10) {
			case 0, 1, 2:
				s = append(s, tk(c, 3, 0))
			case 3, 4, 5:
				s = append(s, tk(c, 4, r.Range(1, 9)))
			case 6:
				s = append(s, tk(c, 5, 0))
			case 7:
				s = append(s, tk(c, r.PickInt([]int{6, 7}), 0))
			case 8:
				s = append(s, tk(c, r.PickInt([]int{9, 10}), 0))
			default:
				s = append(s, tk(c, r.PickInt([]int{3, 11, 11, 12}), 0))
			}
		}
		if r.Chance(1, 4) {
			s = append(s, tk(c, 8, 0))
		}
	case SMTP:
		// track the dialogue state so that message text is only sent after "354", body chunks
		// only after a header chunk; sessions may end anywhere: in DATA, between BDAT chunks ...
		st, pend := 1, false
		for i := 0; i < n+3 && st != 5; i++ {
			var t int
			switch st {
			case 1:
				t = r.PickInt([]int{1, 1, 1, 1, 1, 1, 1, 6, 9})
			case 2:
				t = r.PickInt([]int{2, 2, 2, 2, 2, 6, 7, 9, 3, 8, 1})
			case 3:
				if pend {
					t = r.PickInt([]int{11, 11, 13, 13, 13, 10, 12, 7, 9, 4, 3})
				} else {
					t = r.PickInt([]int{3, 3, 4, 4, 10, 10, 10, 12, 12, 7, 9, 6})
				}
			case 4:
				t = 5
				if r.Chance(1, 6) {
					return s // the session ends inside DATA
				}
			}
			s = append(s, tk(c, t, 0))
			switch {
			case st == 1 && t == 1:
				st = 2
			case st == 1:
				st = 5
			case st == 2 && t == 2:
				st, pend = 3, false
			case st == 2 && t == 8:
				st = 5
			case st == 2 && t == 7:
				pend = false
			case st == 2:
			case st == 3 && t == 4:
				st = 4
			case st == 3 && t == 3:
			case st == 3 && (t == 10 || t == 11):
				pend = true
			case st == 3 && (t == 12 || t == 13):
				st, pend = 2, false
			case st == 3 && t == 7:
				st, pend = 2, false
			case st == 3:
				st = 2
			case st == 4:
				st, pend = 2, false
			}
		}
		if st == 4 && r.Chance(3, 4) {
			s = append(s, tk(c, 5, 0))
		}
	case TFTP:
		for i := 0; i < n; i++ {
			switch r.Intn(8) {
			case 0:
				s = append(s, tk(c, 1, r.Range(1, 3)))
			case 1, 2:
				s = append(s, tk(c, 2, r.Range(1, 3)))
			case 3, 4:
				s = append(s, tk(c, 3, r.Range(1, 3)))
			case 5, 6:
				s = append(s, tk(c, 4, r.Range(1, 3)))
			default:
				s = append(s, tk(c, r.PickInt([]int{5, 6, 7}), 0))
			}
		}
	case MCUDP:
		// up to and beyond the limiter burst
		for i := 0; i < n+r.PickInt([]int{0, 0, 2, 4}); i++ {
			s = append(s, tk(c, r.PickInt([]int{1, 2, 2, 3}), 0))
		}
	case TELNET:
		for i := 0; i < n; i++ {
			s = append(s, tk(c, r.PickInt([]int{1, 1, 2, 2, 3}), 0))
		}
	case REDIS:
		for i := 0; i < n; i++ {
			s = append(s, tk(c, r.PickInt([]int{1, 1, 2, 2, 3, 4}), 0))
		}
		if r.Chance(1, 8) {
			s = append(s, tk(c, 5, 0), tk(c, 1, 0))
		}
	case MEMCACHED:
		for i := 0; i < n; i++ {
			s = append(s, tk(c, r.PickInt([]int{1, 2, 3, 3, 4, 4}), 0))
		}
		if r.Chance(1, 8) {
			s = append(s, tk(c, 5, 0), tk(c, 1, 0))
		}
	case HTTP:
		for i := 0; i < n; i++ {
			s = append(s, tk(c, r.PickInt([]int{1, 1, 2, 2, 3}), 0))
		}
		if r.Chance(1, 8) {
			s = append(s, tk(c, 4, 0), tk(c, 1, 0))
		}
	}
	return s
}

func genSession(r *hx.Rand, svc, c, n int, mustClose bool) []Step {
	s := genTokens(r, svc, c, n)
	if svc == TFTP || svc == MCUDP {
		return s
	}
	s = append([]Step{op(c)}, s...)
	if mustClose || r.Chance(1, 4) {
		s = append(s, cl(c))
	}
	return s
}

// a random interleaving that keeps every session's own order
func mergeRandom(r *hx.Rand, ss [][]Step) []Step {
	idx := make([]int, len(ss))
	var out []Step
	for {
		var live []int
		for k := range ss {
			if idx[k] < len(ss[k]) {
				live = append(live, k)
			}
		}
		if len(live) == 0 {
			return out
		}
		k := live[r.Intn(len(live))]
		// bursts: stay with a session for a few steps now and then
		run := 1
		if r.Chance(1, 3) {
			run = r.Range(1, 3)
		}
		for ; run > 0 && idx[k] < len(ss[k]); run-- {
			out = append(out, ss[k][idx[k]])
			idx[k]++
		}
	}
}

// every interleaving
func allMerges(ss [][]Step) [][]Step {
	total := 0
	for _, s := range ss {
		total += len(s)
	}
	var out [][]Step
	idx := make([]int, len(ss))
	cur := make([]Step, 0, total)
	var rec func()
	rec = func() {
		if len(cur) == total {
			out = append(out, append([]Step(nil), cur...))
			return
		}
		for k := range ss {
			if idx[k] < len(ss[k]) {
				cur = append(cur, ss[k][idx[k]])
				idx[k]++
				rec()
				idx[k]--
				cur = cur[:len(cur)-1]
			}
		}
	}
	rec()
	return out
}

// the scripts whose interleavings are enumerated exhaustively, per service
func fixedScripts(svc int, three bool) [][]Step {
	a, b, c := connID(0), connID(1), connID(2)
	var ss [][]Step
	switch proto(svc) {
	case LDAP:
		ss = [][]Step{{op(a), tk(a, 1, 0), tk(a, 4, 0), tk(a, 4, 0)}, {op(b), tk(b, 4, 0), tk(b, 3, 0), cl(b)}, {op(c), tk(c, 2, 0)}}
	case FTP:
		ss = [][]Step{{op(a), tk(a, 1, 1), tk(a, 2, 1), tk(a, 4, 1), tk(a, 11, 0)}, {op(b), tk(b, 1, 1), tk(b, 2, 1), tk(b, 11, 0)}, {op(c), tk(c, 6, 0)}}
		if three {
			ss[0] = []Step{op(a), tk(a, 1, 1), tk(a, 2, 1), tk(a, 4, 1)}
			ss[1] = []Step{op(b), tk(b, 1, 1), tk(b, 2, 1)}
		}
	case SMTP:
		ss = [][]Step{{op(a), tk(a, 1, 0), tk(a, 2, 0), tk(a, 10, 0), tk(a, 13, 0)}, {op(b), tk(b, 1, 0), tk(b, 2, 0), tk(b, 10, 0)}, {op(c), tk(c, 9, 0)}}
		if three {
			ss[0] = []Step{op(a), tk(a, 1, 0), tk(a, 2, 0), tk(a, 4, 0)}
			ss[1] = []Step{op(b), tk(b, 1, 0), cl(b)}
		}
	case TFTP:
		ss = [][]Step{{tk(a, 2, 1), tk(a, 3, 1), tk(a, 4, 2), tk(a, 1, 2), tk(a, 1, 3)}, {tk(b, 2, 2), tk(b, 4, 1), tk(b, 4, 2)}, {tk(c, 3, 1), tk(c, 1, 1)}}
		if three {
			ss[0] = []Step{tk(a, 2, 1), tk(a, 3, 1), tk(a, 4, 2)}
			ss[1] = []Step{tk(b, 2, 2), tk(b, 4, 1), tk(b, 4, 2)}
		}
	case MCUDP:
		ss = [][]Step{{tk(a, 2, 0), tk(a, 1, 0), tk(a, 2, 0), tk(a, 3, 0), tk(a, 2, 0)}, {tk(b, 2, 0), tk(b, 3, 0), tk(b, 1, 0)}, {tk(c, 2, 0), tk(c, 2, 0)}}
	case TELNET:
		ss = [][]Step{{op(a), tk(a, 1, 0), tk(a, 1, 0), tk(a, 2, 0)}, {op(b), tk(b, 2, 0), tk(b, 3, 0), tk(b, 1, 0)}, {op(c), tk(c, 3, 0)}}
	case REDIS:
		ss = [][]Step{{op(a), tk(a, 1, 0), tk(a, 2, 0), tk(a, 5, 0)}, {op(b), tk(b, 3, 0), tk(b, 4, 0), cl(b)}, {op(c), tk(c, 2, 0)}}
	case MEMCACHED:
		ss = [][]Step{{op(a), tk(a, 4, 0), tk(a, 1, 0), tk(a, 5, 0)}, {op(b), tk(b, 2, 0), tk(b, 3, 0), cl(b)}, {op(c), tk(c, 4, 0)}}
	case HTTP:
		ss = [][]Step{{op(a), tk(a, 1, 0), tk(a, 2, 0), tk(a, 4, 0)}, {op(b), tk(b, 3, 0), tk(b, 1, 0), cl(b)}, {op(c), tk(c, 2, 0)}}
	}
	if three {
		for k := range ss {
			if len(ss[k]) > 3 {
				ss[k] = ss[k][:3]
			}
		}
		return ss
	}
	if svc == SMTP2 {
		return [][]Step{ss[0][:4], ss[1][:3]}
	}
	return ss[:2]
}

func corpus() []Input {
	a, b, c := connID(0), connID(1), connID(2)
	mk := func(svc int, tr ...Step) Input { return Input{Svc: svc, Trace: number(svc, tr)} }
	return []Input{
		// regression schedules of the repaired defects first.
		// ldap (before /repo 1166e31): B connects after A has bound; A's next request was answered on
		// B's connection, and as an unauthenticated one
		mk(LDAP, op(a), tk(a, 1, 0), tk(a, 4, 0), op(b), tk(b, 3, 0), tk(a, 4, 0), tk(a, 4, 0)),
		// ldap: nothing but B's arrival between A's bind and A's request
		mk(LDAP, op(a), tk(a, 1, 0), op(b), tk(a, 4, 0)),
		// ldap: B leaves; A's next request used to find the service object's socket closed
		mk(LDAP, op(a), tk(a, 1, 0), op(b), cl(b), tk(a, 4, 0)),
		// ftp: an earlier session is over (regression: before /repo 9efeaf2 its event pump took lines
		// of the next session)
		mk(FTP, op(a), tk(a, 1, 1), cl(a), op(b), tk(b, 1, 1), tk(b, 2, 1), tk(b, 6, 0), tk(b, 6, 0)),
		// ftp (before /repo 5db0fa2): A changes directory, B's PWD followed
		mk(FTP, op(a), tk(a, 1, 1), tk(a, 2, 1), op(b), tk(b, 1, 1), tk(b, 2, 1), tk(b, 3, 0), tk(a, 4, 1), tk(b, 3, 0)),
		// ftp: the directory of a finished session was where the next one started
		mk(FTP, op(a), tk(a, 1, 1), tk(a, 2, 1), tk(a, 4, 8), tk(a, 8, 0), op(b), tk(b, 1, 1), tk(b, 2, 1), tk(b, 3, 0), tk(b, 4, 1)),
		// smtp (before /repo ed36195): mails of B while a session A has finished and the pump of an
		// idle, open session C waited on the shared receive channel
		mk(SMTP, op(a), tk(a, 1, 0), tk(a, 8, 0), op(c), op(b), tk(b, 1, 0), tk(b, 2, 0), tk(b, 3, 0), tk(b, 4, 0), tk(b, 5, 0),
			tk(b, 2, 0), tk(b, 4, 0), tk(b, 5, 0), tk(b, 2, 0), tk(b, 4, 0), tk(b, 5, 0), tk(b, 8, 0)),
		// tftp: two uploads interleaved, then the limiter boundary (5th datagram of A dropped)
		mk(TFTP, tk(a, 2, 1), tk(b, 2, 2), tk(a, 3, 1), tk(b, 3, 1), tk(a, 4, 2), tk(b, 4, 2), tk(a, 1, 3), tk(a, 1, 3), tk(b, 1, 1)),
		// tftp: DATA without WRQ while another client has an upload open
		mk(TFTP, tk(a, 2, 1), tk(b, 3, 1), tk(b, 4, 1), tk(a, 4, 1)),
		// tftp: two IPv6 clients with ONE source port upload at the same time (a transfer table keyed by
		// less than the whole address would merge them); then the same for 10.9.0.1 / ::ffff:10.9.0.2 /
		// 2001:db8:9::a09:1 (same low bytes)
		mk(TFTP, tk(id6(1, 5), 2, 1), tk(id6(2, 5), 2, 2), tk(id6(1, 5), 3, 1), tk(id6(2, 5), 4, 1), tk(id6(1, 5), 4, 2)),
		mk(TFTP, tk(idOf(famV4, 1, 5), 2, 1), tk(idOf(famMapped, 2, 5), 2, 2), tk(idOf(famLow4, 1, 5), 2, 3),
			tk(idOf(famV4, 1, 5), 4, 1), tk(idOf(famMapped, 2, 5), 4, 1), tk(idOf(famLow4, 1, 5), 4, 1)),
		// tftp: 10.9.0.1:40005 in 4 bytes and in 16 bytes is ONE peer for the unchanged code: the DATA
		// sent from the 16-byte spelling completes the upload begun from the 4-byte one
		mk(TFTP, tk(idOf(famV4, 1, 5), 2, 1), tk(idOf(famMapped, 1, 5), 4, 1)),
		// tftp: two clients behind one IP share the limiter (by design; not judged, only modelled)
		mk(TFTP, tk(32, 1, 1), tk(32, 1, 2), tk(33, 1, 3), tk(32, 1, 1), tk(33, 1, 2), tk(32, 1, 3)),
		// two smtp services in one process (a=17, c=51 on the first, b=34 on the second): nobody on the
		// second service - the session used to hang after its first mail; then with an idle client on
		// the second service - the mail used to be reported a second time under that client's address
		mk(SMTP2, op(a), tk(a, 1, 0), tk(a, 2, 0), tk(a, 4, 0), tk(a, 5, 0), tk(a, 6, 0), tk(a, 2, 0), tk(a, 4, 0), tk(a, 5, 0), tk(a, 8, 0)),
		mk(SMTP2, op(b), op(a), tk(a, 1, 0), tk(a, 2, 0), tk(a, 4, 0), tk(a, 5, 0), tk(a, 6, 0), tk(b, 1, 0), tk(b, 6, 0), tk(a, 8, 0), tk(b, 8, 0)),
		mk(SMTP2, op(a), op(b), tk(b, 1, 0), tk(a, 1, 0), tk(b, 2, 0), tk(a, 2, 0), tk(b, 4, 0), tk(a, 4, 0), tk(b, 5, 0), tk(a, 5, 0), op(c), tk(c, 1, 0), tk(c, 2, 0), tk(c, 4, 0), tk(c, 5, 0)),
		// smtp: A abandons a chunked transfer (ends between BDAT chunks); B then sends a chunked mail
		mk(SMTP, op(a), tk(a, 1, 0), tk(a, 2, 0), tk(a, 10, 0), cl(a), op(b), tk(b, 1, 0), tk(b, 2, 0), tk(b, 12, 0), tk(b, 2, 0), tk(b, 10, 0), tk(b, 11, 0), tk(b, 13, 0), tk(b, 8, 0)),
		mk(SMTP, op(a), tk(a, 1, 0), tk(a, 2, 0), tk(a, 10, 0), tk(a, 11, 0), op(b), tk(b, 1, 0), tk(b, 2, 0), tk(b, 12, 0), tk(a, 9, 0), tk(a, 8, 0), op(c), tk(c, 1, 0), tk(c, 2, 0), tk(c, 10, 0), tk(c, 13, 0)),
		// smtp: A ends inside DATA
		mk(SMTP, op(a), tk(a, 1, 0), tk(a, 2, 0), tk(a, 4, 0), cl(a), op(b), tk(b, 1, 0), tk(b, 2, 0), tk(b, 4, 0), tk(b, 5, 0)),
		// ftp: passive mode on two destination addresses, sockets never used
		mk(FTP, op(a), tk(a, 1, 1), tk(a, 2, 1), tk(a, 11, 0), op(b), tk(b, 1, 1), tk(b, 2, 1), tk(b, 11, 0), tk(a, 11, 0), tk(b, 12, 0), tk(a, 8, 0), tk(b, 11, 0)),
		mk(FTP, op(a), tk(a, 1, 1), tk(a, 2, 1), tk(a, 11, 0), cl(a), op(connID6(1)), tk(connID6(1), 1, 1), tk(connID6(1), 2, 1), tk(connID6(1), 11, 0)),
		// rate-limited UDP services: other clients (IPv4 and IPv6) use up their own budget, then the probe
		mk(TFTP, tk(connID6(0), 1, 1), tk(connID6(0), 1, 2), tk(connID6(0), 1, 3), tk(connID6(0), 1, 1), tk(connID6(0), 1, 2), tk(connID6(1), 2, 1), tk(connID6(1), 4, 1), tk(a, 1, 1), tk(connID6(2), 1, 1)),
		mk(MCUDP, tk(connID6(0), 2, 0), tk(connID6(0), 2, 0), tk(connID6(0), 1, 0), tk(connID6(0), 3, 0), tk(connID6(0), 2, 0), tk(connID6(1), 2, 0), tk(a, 2, 0), tk(connID6(2), 2, 0)),
		mk(MCUDP, tk(a, 2, 0), tk(a, 2, 0), tk(a, 2, 0), tk(a, 2, 0), tk(a, 2, 0), tk(b, 2, 0), tk(32, 1, 0), tk(33, 1, 0)),
		mk(TELNET, op(a), op(b), tk(a, 1, 0), tk(b, 2, 0), tk(a, 1, 0), tk(b, 3, 0), tk(a, 2, 0), tk(b, 1, 0), cl(a), tk(b, 2, 0)),
		mk(REDIS, op(a), op(b), tk(a, 1, 0), tk(b, 2, 0), tk(a, 5, 0), tk(b, 3, 0), tk(a, 1, 0)),
		mk(MEMCACHED, op(a), op(b), tk(a, 4, 0), tk(b, 2, 0), tk(a, 5, 0), tk(b, 3, 0), tk(b, 1, 0)),
		mk(HTTP, op(a), op(b), tk(a, 1, 0), tk(b, 2, 0), tk(a, 4, 0), tk(b, 3, 0), tk(b, 1, 0)),
	}
}

func generate(r *hx.Rand, tier string) []Input {
	ins := corpus()
	ins = append(ins, genAddr(r, tier)...)
	nRandom, nHist := 22, 8
	if tier != "quick" {
		nRandom, nHist = 450, 100
	}
	for svc := LDAP; svc <= MCUDP; svc++ {
		// exhaustive: every interleaving of two fixed scripts (and of three short ones beyond quick)
		for _, m := range allMerges(fixedScripts(svc, false)) {
			ins = append(ins, Input{Svc: svc, Trace: number(svc, m)})
		}
		if tier != "quick" {
			for _, m := range allMerges(fixedScripts(svc, true)) {
				ins = append(ins, Input{Svc: svc, Trace: number(svc, m)})
			}
		}
		// sampled: 2-3 random sessions, random interleaving
		for i := 0; i < nRandom; i++ {
			ns := r.PickInt([]int{2, 2, 3})
			var ss [][]Step
			for k := 0; k < ns; k++ {
				ss = append(ss, genSession(r, svc, pickID(r, k), r.Range(1, 5), false))
			}
			ins = append(ins, Input{Svc: svc, Trace: number(svc, mergeRandom(r, ss))})
		}
		// sequential histories: N earlier sessions, each finished, then a probe session
		for i := 0; i < nHist; i++ {
			n := r.PickInt([]int{1, 1, 2, 3, 5, 8})
			var tr []Step
			for k := 0; k < n; k++ {
				tr = append(tr, genSession(r, svc, pickID(r, k+1), r.Range(1, 4), true)...)
			}
			tr = append(tr, genSession(r, svc, pickID(r, 0), r.Range(2, 6), false)...)
			ins = append(ins, Input{Svc: svc, Trace: number(svc, tr)})
		}
	}
	return ins
}
