package main

import (
	"bytes"
	"fmt"
	"net"
	"strconv"
	"strings"

	ber "github.com/go-asn1-ber/asn1-ber"
	"github.com/honeytrap/honeytrap/event"
	"verif/harness/hx"
)

// ---- what a token puts on the wire ----

var ftpCwdParam = map[int]string{1: "a", 2: "b", 3: "c", 4: "..", 5: "/", 6: "/a", 7: "/b", 8: "/a/c", 9: "nope"}

func ftpLine(t, a int) string {
	switch t {
	case 1:
		if a == 1 {
			return "USER anonymous"
		}
		return "USER bob"
	case 2:
		if a == 1 {
			return "PASS anonymous"
		}
		return "PASS wrong"
	case 3:
		return "PWD"
	case 4:
		return "CWD " + ftpCwdParam[a]
	case 5:
		return "CDUP"
	case 6:
		return "NOOP"
	case 7:
		return "SYST"
	case 8:
		return "QUIT"
	case 10:
		return "CWD"
	case 11:
		return "PASV"
	case 12:
		return "EPSV"
	}
	return "XYZZY"
}

// reverse: the command text of an ftp event -> 16*t + a
var ftpRev = func() map[string]int {
	m := map[string]int{}
	add := func(t, a int) { m[ftpLine(t, a)] = 16*t + a }
	add(1, 1)
	add(1, 2)
	add(2, 1)
	add(2, 2)
	for a := 1; a <= 9; a++ {
		add(4, a)
	}
	for _, t := range []int{3, 5, 6, 7, 8, 9, 10, 11, 12} {
		add(t, 0)
	}
	return m
}()

func smtpLine(t int) string {
	switch t {
	case 1:
		return "HELO client.example"
	case 2:
		return "MAIL FROM:<a@example.org>"
	case 3:
		return "RCPT TO:<b@example.net>"
	case 4:
		return "DATA"
	case 6:
		return "NOOP"
	case 7:
		return "RSET"
	case 8:
		return "QUIT"
	case 10:
		return "BDAT 22"
	case 11:
		return "BDAT 4"
	case 12:
		return "BDAT 22 LAST"
	case 13:
		return "BDAT 4 LAST"
	}
	return "FROB"
}

var smtpRev = func() map[string]int {
	m := map[string]int{}
	for _, t := range []int{1, 2, 3, 4, 6, 7, 8, 9, 10, 11, 12, 13} {
		m[smtpLine(t)] = t
	}
	return m
}()

var telnetWord = map[int]string{1: "root", 2: "ls", 3: ""}

func telnetTok(s string) int {
	for k, v := range telnetWord {
		if v == s {
			return k
		}
	}
	return 15
}

var memcachedLine = map[int]string{1: "flush_all", 2: "stats", 3: "get k", 4: "set k 0 0 3", 5: "set k 0 0"}

func ldapPacket(t, id int) []byte {
	p := ber.Encode(ber.ClassUniversal, ber.TypeConstructed, ber.TagSequence, nil, "req")
	p.AppendChild(ber.NewInteger(ber.ClassUniversal, ber.TypePrimitive, ber.TagInteger, int64(id), "id"))
	bind := func(dn, pw string) {
		b := ber.Encode(ber.ClassApplication, ber.TypeConstructed, 0, nil, "bind")
		b.AppendChild(ber.NewInteger(ber.ClassUniversal, ber.TypePrimitive, ber.TagInteger, int64(3), "version"))
		b.AppendChild(ber.NewString(ber.ClassUniversal, ber.TypePrimitive, ber.TagOctetString, dn, "dn"))
		b.AppendChild(ber.NewString(ber.ClassContext, ber.TypePrimitive, 0, pw, "pw"))
		p.AppendChild(b)
	}
	switch t {
	case 1:
		bind("cn=root,dc=example,dc=com", "root")
	case 2:
		bind("cn=root,dc=example,dc=com", "wrong")
	case 3:
		bind("", "")
	case 4:
		p.AppendChild(ber.NewString(ber.ClassApplication, ber.TypePrimitive, 10, "cn=victim,dc=example,dc=com", "del"))
	case 6:
		p.AppendChild(ber.Encode(ber.ClassApplication, ber.TypePrimitive, 2, nil, "unbind"))
	default: // 7 abandon
		p.AppendChild(ber.NewInteger(ber.ClassApplication, ber.TypePrimitive, 16, int64(1), "abandon"))
	}
	return p.Bytes()
}

// every data byte a tftp client uploads: its own (Model.v fill_of)
func fillOf(conn int) byte { return byte(1 + conn%250) }

// the digest of an uploaded file (Model.v hash_fill)
func fileDigest(b []byte) int {
	h := 0
	for _, c := range b {
		h = (h*31 + int(c)) % 999983
	}
	return h
}

func payload(svc, conn, t, a int) []byte {
	switch svc {
	case LDAP:
		return ldapPacket(t, a)
	case FTP:
		return []byte(ftpLine(t, a) + "\r\n")
	case SMTP:
		switch t {
		case 5:
			return []byte(fmt.Sprintf("Subject: s%04d\r\n\r\nhello\r\n.\r\n", a%10000))
		case 10, 12: // header chunk, 22 bytes
			return []byte(fmt.Sprintf("%s\r\nSubject: s%04d\r\n\r\nAAAA", smtpLine(t), a%10000))
		case 11, 13: // body chunk, 4 bytes
			return []byte(smtpLine(t) + "\r\nBBBB")
		}
		return []byte(smtpLine(t) + "\r\n")
	case TELNET:
		return []byte(telnetWord[t] + "\r\n")
	case REDIS:
		switch t {
		case 1:
			return []byte("*1\r\n$4\r\nINFO\r\n")
		case 2:
			return []byte("*1\r\n$4\r\nPING\r\n")
		case 3:
			return []byte("*2\r\n$4\r\ninfo\r\n$6\r\nserver\r\n")
		case 4:
			return []byte("\r\n")
		}
		return []byte("?x\r\n")
	case MEMCACHED:
		if t == 4 {
			return []byte(memcachedLine[4] + "\r\nabc\r\n")
		}
		if l, ok := memcachedLine[t]; ok {
			return []byte(l + "\r\n")
		}
		return []byte("bogus\r\n")
	case HTTP:
		switch t {
		case 1:
			return []byte("GET /a HTTP/1.1\r\nHost: x\r\n\r\n")
		case 2:
			return []byte("POST /b HTTP/1.1\r\nHost: x\r\nContent-Length: 3\r\n\r\nabc")
		case 3:
			return []byte("HEAD /c HTTP/1.0\r\n\r\n")
		}
		return []byte("BLAH\r\n\r\n")
	case MCUDP:
		l, ok := memcachedLine[t]
		if !ok {
			l = "bogus"
		}
		return append([]byte{0, 1, 0, 0, 0, 1, 0, 0}, []byte(l+"\r\n")...)
	case TFTP:
		file := fmt.Sprintf("f%d", a)
		switch t {
		case 1:
			return append([]byte{0, 1}, []byte(file+"\x00octet\x00")...)
		case 2:
			return append([]byte{0, 2}, []byte(file+"\x00octet\x00")...)
		case 3:
			return append([]byte{0, 3, byte(a >> 8), byte(a)}, bytes.Repeat([]byte{fillOf(conn)}, 512)...)
		case 4:
			return append([]byte{0, 3, byte(a >> 8), byte(a)}, bytes.Repeat([]byte{fillOf(conn)}, 100)...)
		case 5:
			return []byte{0, 4, 0, 1}
		case 7: // an empty final block
			return []byte{0, 3, byte(a >> 8), byte(a)}
		}
		return []byte{0, 9, 0, 0}
	}
	hx.Fatal("no vocabulary for service %d", svc)
	return nil
}

// ---- canonical replies: codes only, never texts ----

var ftpDirs = map[string]int{"/": 0, "/a": 1, "/b": 2, "/a/c": 3}

func dirCode(s string) int {
	if k, ok := ftpDirs[strings.TrimSpace(s)]; ok {
		return k
	}
	return 99
}

func canonReplies(svc int, b []byte) []int {
	var out []int
	if len(b) == 0 {
		return nil
	}
	switch svc {
	case LDAP:
		rd := bytes.NewReader(b)
		for rd.Len() > 0 {
			p, err := ber.ReadPacket(rd)
			if err != nil || len(p.Children) < 2 {
				out = append(out, 999999)
				break
			}
			id, _ := p.Children[0].Value.(int64)
			op := p.Children[1]
			rc := int64(999)
			if len(op.Children) > 0 {
				if v, ok := op.Children[0].Value.(int64); ok {
					rc = v
				}
			}
			out = append(out, int(id)*1000000+int(op.Tag)*1000+int(rc))
		}
	case FTP, SMTP:
		for _, l := range strings.Split(string(b), "\r\n") {
			if len(l) < 4 {
				continue
			}
			n, err := strconv.Atoi(l[:3])
			if err != nil {
				continue
			}
			if l[3] == '-' {
				continue
			}
			d := 0
			if svc == FTP && n == 257 {
				d = dirCode(l[4:])
			}
			if svc == FTP && n == 250 {
				d = dirCode(strings.TrimPrefix(l[4:], "Directory changed to "))
			}
			if svc == FTP && n == 227 {
				// "Entering Passive Mode (h1,h2,h3,h4,p1,p2)": the address must be 192.0.2.x -> x
				d = 999
				if i := strings.Index(l, "("); i >= 0 {
					q := strings.Split(strings.Trim(l[i:], "()"), ",")
					if len(q) == 6 && q[0] == "192" && q[1] == "0" && q[2] == "2" {
						if x, err := strconv.Atoi(q[3]); err == nil {
							d = x
						}
					}
				}
			}
			out = append(out, n*1000+d)
		}
	case TELNET:
		marks := []string{"Login authentication", "Username: ", "Password: ", "command not found"}
		s := string(b)
		for len(s) > 0 {
			best, bi := -1, -1
			for k, m := range marks {
				if i := strings.Index(s, m); i >= 0 && (best < 0 || i < best) {
					best, bi = i, k
				}
			}
			if best < 0 {
				break
			}
			out = append(out, bi+1)
			s = s[best+len(marks[bi]):]
		}
	case REDIS:
		switch b[0] {
		case '$':
			out = append(out, 1)
		case '-':
			out = append(out, 2)
		case '+':
			out = append(out, 3)
		default:
			out = append(out, 9)
		}
	case MEMCACHED:
		s := string(b)
		for len(s) > 0 {
			switch {
			case strings.HasPrefix(s, `OK\r\n`):
				out = append(out, 1)
				s = s[len(`OK\r\n`):]
			case strings.HasPrefix(s, "\nSTAT"):
				out = append(out, 2)
				if i := strings.Index(s, `END\r\n`+"\n"); i >= 0 {
					s = s[i+len(`END\r\n`+"\n"):]
				} else {
					s = ""
				}
			case strings.HasPrefix(s, "ERROR\r\n"):
				out = append(out, 3)
				s = s[7:]
			case strings.HasPrefix(s, "STORED\r\n"):
				out = append(out, 4)
				s = s[8:]
			default:
				out = append(out, 9)
				s = ""
			}
		}
	case HTTP:
		s := string(b)
		for {
			i := strings.Index(s, "HTTP/1.")
			if i < 0 || len(s) < i+12 {
				break
			}
			n, err := strconv.Atoi(s[i+9 : i+12])
			if err != nil {
				n = 999
			}
			out = append(out, n)
			s = s[i+12:]
		}
	}
	return out
}

func canonTFTP(b []byte) int {
	if len(b) >= 4 && b[1] == 4 {
		return 4000 + int(b[2])<<8 + int(b[3])
	}
	if len(b) >= 4 && b[1] == 5 {
		return 5000 + int(b[2])<<8 + int(b[3])
	}
	return 9999
}

// ---- canonical events ----
func asInt(v interface{}) int {
	switch x := v.(type) {
	case int:
		return x
	case int64:
		return int(x)
	case uint16:
		return int(x)
	case string:
		n, err := strconv.Atoi(x)
		if err == nil {
			return n
		}
	}
	return -1
}
func asStr(v interface{}) string {
	switch x := v.(type) {
	case string:
		return x
	case []byte:
		return string(x)
	case []string:
		return strings.Join(x, ",")
	}
	return ""
}

func canonEvent(svc int, ev event.Event, sids map[string]int) OEv {
	m := event.ToMap(ev)
	var o OEv
	o.Conn = connOfAddr(asStr(m["source-ip"]), asInt(m["source-port"]))
	o.DPort = asInt(m["destination-port"])
	// the destination must be the address the carried connection was accepted on
	if o.DPort < 0 || !net.ParseIP(asStr(m["destination-ip"])).Equal(localIPOf(o.Conn)) {
		o.DPort = 0
	}
	sid := ""
	ty := asStr(m["type"])
	switch svc {
	case LDAP:
		switch asStr(m["ldap.request-type"]) {
		case "bind":
			o.Type = 1
		case "delete":
			o.Type = 4
		case "unbind":
			o.Type = 6
		case "abandon":
			o.Type = 7
		default:
			o.Type = 99
		}
		o.Arg = asInt(m["ldap.message-id"])
	case FTP:
		o.Type = 1
		if c, ok := ftpRev[asStr(m["ftp.command"])]; ok {
			o.Arg = c
		} else {
			o.Arg = 9999
		}
		sid = asStr(m["ftp.sessionid"])
	case SMTP:
		if ty == "email" {
			o.Type = 2
			subj := asInt(strings.TrimLeft(strings.TrimPrefix(asStr(m["smtp.Subject"]), "s"), "0"))
			if asStr(m["smtp.Subject"]) == "s0000" {
				subj = 0
			}
			o.Arg = 9998
			if subj >= 0 {
				o.Arg = 1000*subj + len(asStr(m["smtp.body"]))
			}
		} else {
			o.Type = 1
			if t, ok := smtpRev[asStr(m["smtp.line"])]; ok {
				o.Arg = t
			} else {
				o.Arg = 9999
			}
		}
	case TFTP:
		f := asInt(strings.TrimPrefix(strings.TrimRight(asStr(m["tftp.filename"]), "\x00"), "f"))
		switch ty {
		case "tftp-read":
			o.Type, o.Arg = 1, f
		case "tftp-write":
			o.Type, o.Arg = 2, f
		case "tftp-write-file":
			// file name, length and digest of the bytes recorded
			content := []byte(asStr(m["tftp.file"]))
			o.Type, o.Arg = 3, -1
			if f >= 0 && f < 10 {
				o.Arg = (fileDigest(content)*10+f)*100000 + len(content)
			}
		default:
			o.Type = 99
		}
	case TELNET:
		sid = asStr(m["telnet.sessionid"])
		switch ty {
		case "connect":
			o.Type = 1
		case "password-authentication":
			o.Type = 2
			o.Arg = 16*telnetTok(asStr(m["telnet.username"])) + telnetTok(asStr(m["telnet.password"]))
		case "session":
			o.Type = 3
			o.Arg = telnetTok(asStr(m["telnet.command"]))
		default:
			o.Type = 99
		}
	case REDIS:
		o.Type = 1
		switch lower(asStr(m["redis.command"])) {
		case "info":
			o.Arg = 1
		case "ping":
			o.Arg = 2
		default:
			o.Arg = 99
		}
	case MEMCACHED, MCUDP:
		if ty == "memcached-command" {
			o.Type = 1
			o.Arg = 99
			for t, l := range memcachedLine {
				if l == asStr(m["memcached.command"]) {
					o.Arg = t
				}
			}
		} else {
			o.Type = 2
			o.Arg = asInt(m["payload-length"])
		}
	case HTTP:
		sid = asStr(m["http.sessionid"])
		o.Type = 1
		switch asStr(m["http.url"]) {
		case "/a":
			o.Arg = 1
		case "/b":
			o.Arg = 2
		case "/c":
			o.Arg = 3
		default:
			o.Arg = 99
		}
	}
	if o.Arg < 0 {
		o.Arg = 9998
	}
	if sid != "" {
		if _, ok := sids[sid]; !ok {
			sids[sid] = len(sids) + 1
		}
		o.Sid = sids[sid]
	}
	return o
}
