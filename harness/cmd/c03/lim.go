package main

import (
	"fmt"
	"net"
	"strings"

	"github.com/honeytrap/honeytrap/services"
	"verif/harness/hx"
)

// part "lim": the real services.Limiter (the one tftp, memcached/udp, snmp, counterstrike
// consult) on generated sequences of client addresses.

type LCall struct {
	Kind int  `json:"kind"` // 1 *net.TCPAddr, 2 *net.UDPAddr, 3 another net.Addr
	IP   hx.B `json:"ip"`   // the bytes of the net.IP (0, 4 or 16 bytes)
}
type LInput struct {
	Calls []LCall `json:"calls"`
}
type LObs struct {
	Allowed []bool `json:"allowed"`
}

type otherAddr struct{ s string }

func (o otherAddr) Network() string { return "unix" }
func (o otherAddr) String() string  { return o.s }

func runLim(in LInput) LObs {
	l := services.NewLimiter()
	var ob LObs
	for _, c := range in.Calls {
		var a net.Addr
		ip := net.IP(append([]byte(nil), c.IP...))
		if len(c.IP) == 0 {
			ip = nil
		}
		switch c.Kind {
		case 1:
			a = &net.TCPAddr{IP: ip, Port: 1234}
		case 2:
			a = &net.UDPAddr{IP: ip, Port: 4321}
		default:
			a = otherAddr{ip.String()}
		}
		ob.Allowed = append(ob.Allowed, l.Allow(a))
	}
	return ob
}

// a pool of client addresses: IPv4 (4-byte form), the same hosts in v4-mapped 16-byte form,
// IPv6 hosts differing in one byte only (first / middle / last), the nil IP
func limPool(r *hx.Rand) []hx.B {
	var pool []hx.B
	for i := 0; i < 3; i++ {
		v4 := []byte{byte(r.PickInt([]int{10, 192, 203})), byte(r.Intn(256)), byte(r.Intn(256)), byte(1 + r.Intn(250))}
		pool = append(pool, hx.B(v4))
		pool = append(pool, hx.B(net.IP(v4).To16()))
	}
	base := net.ParseIP("2001:db8::1")
	for i := 0; i < 4; i++ {
		ip := append(net.IP(nil), base...)
		ip[r.PickInt([]int{0, 5, 8, 15})] ^= byte(1 + r.Intn(255))
		pool = append(pool, hx.B(ip))
	}
	pool = append(pool, hx.B(net.ParseIP("::1")), hx.B(net.ParseIP("fe80::1")), hx.B(nil))
	return pool
}

func genLim(r *hx.Rand) LInput {
	pool := limPool(r)
	// 2-5 clients; some stay within the burst, some go far beyond it
	n := r.Range(2, 5)
	var clients []hx.B
	for i := 0; i < n; i++ {
		clients = append(clients, pool[r.Intn(len(pool))])
	}
	var in LInput
	total := r.Range(4, 30)
	for i := 0; i < total; i++ {
		k := r.Intn(n)
		if r.Chance(1, 3) {
			k = 0 // one client hammers
		}
		kind := r.PickInt([]int{1, 2, 2, 2})
		if r.Chance(1, 25) {
			kind = 3
		}
		in.Calls = append(in.Calls, LCall{Kind: kind, IP: clients[k]})
	}
	return in
}

func limCorpus() []LInput {
	u := func(s string) LCall { return LCall{Kind: 2, IP: hx.B(net.ParseIP(s).To16())} }
	u4 := func(s string) LCall { return LCall{Kind: 2, IP: hx.B(net.ParseIP(s).To4())} }
	rep := func(c LCall, n int) []LCall {
		var out []LCall
		for i := 0; i < n; i++ {
			out = append(out, c)
		}
		return out
	}
	cat := func(xs ...[]LCall) LInput {
		var in LInput
		for _, x := range xs {
			in.Calls = append(in.Calls, x...)
		}
		return in
	}
	return []LInput{
		// one IPv6 client uses up its budget, two other IPv6 clients follow
		cat(rep(u("2001:db8:aaaa::1"), 6), rep(u("2001:db8:bbbb::2"), 2), rep(u("2001:db8:aaaa::2"), 5)),
		// IPv4: 4-byte and v4-mapped forms of one host are one client, another host is another
		cat(rep(u4("10.1.1.1"), 3), rep(u("10.1.1.1"), 3), rep(u4("10.1.1.2"), 5), []LCall{{Kind: 1, IP: hx.B(net.ParseIP("10.1.1.1").To4())}}),
		// TCP and UDP addresses of one host share the bucket; other address types are refused
		cat([]LCall{{Kind: 3, IP: hx.B(net.ParseIP("10.1.1.1").To4())}}, rep(LCall{Kind: 1, IP: hx.B(net.ParseIP("::1"))}, 2), rep(u("::1"), 3), rep(LCall{Kind: 2, IP: nil}, 5), rep(u("::2"), 1)),
	}
}

func coqLim(id int, in LInput, ob LObs) string {
	var cs, bs []string
	for _, c := range in.Calls {
		cs = append(cs, fmt.Sprintf("mkAddr %d%%N %s", c.Kind, hx.CoqBytes(c.IP)))
	}
	for _, b := range ob.Allowed {
		bs = append(bs, hx.CoqBool(b))
	}
	return fmt.Sprintf("mkCase %d%%N %s %s", id, hx.CoqList(cs, "addr"), hx.CoqList(bs, "bool"))
}

func limPart(o hx.Opts, r *hx.Rand, only *LInput) {
	var ins []LInput
	if only != nil {
		ins = []LInput{*only}
	} else {
		ins = limCorpus()
		n := 120
		if o.Tier != "quick" {
			n = 1500
		}
		for i := 0; i < n; i++ {
			ins = append(ins, genLim(r))
		}
	}
	dist := map[string]int{}
	var cases []hx.Case
	for i, in := range ins {
		ob := runLim(in)
		fam := map[string]bool{}
		for _, c := range in.Calls {
			switch {
			case len(c.IP) == 4:
				fam["ipv4"] = true
			case len(c.IP) == 16 && net.IP(c.IP).To4() != nil:
				fam["ipv4-mapped"] = true
			case len(c.IP) == 16:
				fam["ipv6"] = true
			default:
				fam["nil-ip"] = true
			}
		}
		var fs []string
		for _, f := range []string{"ipv4", "ipv4-mapped", "ipv6", "nil-ip"} {
			if fam[f] {
				fs = append(fs, f)
				dist["family:"+f]++
			}
		}
		refused := 0
		for _, b := range ob.Allowed {
			if !b {
				refused++
			}
		}
		if refused > 0 {
			dist["with-refused-calls"]++
		}
		cases = append(cases, hx.Case{ID: i, Kind: "limiter/" + strings.Join(fs, "+"), Input: in, Obs: ob, Coq: coqLim(i, in, ob)})
	}
	hx.Write(o, "C03", "lim", "From HT Require Import C03.Model C03.CheckLim.", "case", cases, dist, nil, 100)
}
