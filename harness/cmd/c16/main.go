// C16 harness: (codec) MarshalBinary/UnmarshalBinary of every agent message type on
// generated messages; (raw) UnmarshalBinary on damaged encodings; (session) the real
// agent listener driven by a scripted libdisco agent, this process playing the
// services on the surfaced connections.
package main

import (
	"fmt"
	"os"

	"verif/harness/hx"
)

// ---------- generators: addresses ----------

var v4pool = [][]byte{{192, 0, 2, 1}, {192, 0, 2, 2}, {10, 0, 0, 7}, {198, 51, 100, 9}, {0, 0, 0, 0}, {255, 255, 255, 255}}
var v6pool = [][]byte{
	{0x20, 0x01, 0x0d, 0xb8, 0, 0, 0, 0, 0, 0, 0, 0, 0, 0, 0, 1},
	{0xfe, 0x80, 0, 0, 0, 0, 0, 0, 0x02, 0x11, 0x22, 0xff, 0xfe, 0x33, 0x44, 0x55},
	{0, 0, 0, 0, 0, 0, 0, 0, 0, 0, 0, 0, 0, 0, 0, 1},
	{0, 0, 0, 0, 0, 0, 0, 0, 0, 0, 0, 0, 0, 0, 0, 0},
}
var portPool = []int{0, 1, 22, 80, 255, 256, 443, 8080, 32767, 32768, 65534, 65535}

func mapped(ip4 []byte) []byte {
	return append([]byte{0, 0, 0, 0, 0, 0, 0, 0, 0, 0, 0xff, 0xff}, ip4...)
}

func genIP(r *hx.Rand) []byte {
	switch r.Intn(10) {
	case 0, 1, 2, 3:
		return v4pool[r.Intn(len(v4pool))]
	case 4:
		return r.Bytes(4)
	case 5, 6:
		return v6pool[r.Intn(len(v6pool))]
	case 7:
		return r.Bytes(16)
	case 8:
		return mapped(v4pool[r.Intn(len(v4pool))])
	}
	return nil // unspecified address (nil IP)
}

func genPort(r *hx.Rand) int {
	if r.Chance(1, 2) {
		return portPool[r.Intn(len(portPool))]
	}
	return r.Intn(65536)
}

func genAddr(r *hx.Rand) *Addr {
	k := "tcp"
	if r.Chance(1, 3) {
		k = "udp"
	}
	return &Addr{Kind: k, IP: hx.B(genIP(r)), Port: genPort(r)}
}

func addrEncLen(a *Addr) int { return 1 + 2 + len(a.IP) + 2 }

// ---------- generators: codec ----------

var bigLens = []int{4000, 4050, 4060, 4095, 4096, 4097, 4200, 8191, 8192, 8193, 12288, 16384, 30000, 32768, 65000}

func genCodecMsg(r *hx.Rand, thorough bool) Msg {
	switch r.Intn(12) {
	case 0:
		return Msg{T: "hello", L: genAddr(r), R: genAddr(r)}
	case 1:
		return Msg{T: "eof", L: genAddr(r), R: genAddr(r)}
	case 2:
		return Msg{T: "ping"}
	case 3:
		// handshake: small strings, or strings sized around the 4096 boundary
		m := Msg{T: "handshake", PV: genPort(r)}
		for i := 0; i < 4; i++ {
			m.Strs = append(m.Strs, genPay(r, r.Intn(40)))
		}
		if r.Chance(1, 2) {
			i := r.Intn(4)
			used := 2 + 8
			for j, s := range m.Strs {
				if j != i {
					used += len(s.Bytes())
				}
			}
			target := 4096 + r.Range(-6, 6)
			if r.Chance(1, 4) {
				target = r.PickInt([]int{5000, 9000, 20000})
			}
			if target-used > 0 {
				m.Strs[i] = genPay(r, target-used)
			}
		}
		return m
	case 4:
		m := Msg{T: "hsresp"}
		n := r.PickInt([]int{0, 1, 2, 3, 5, 17, 100, 190, 194, 195, 196, 200, 254, 255})
		if r.Chance(1, 2) {
			n = r.Intn(12)
		}
		for i := 0; i < n; i++ {
			m.Addrs = append(m.Addrs, *genAddr(r))
		}
		return m
	}
	t := "data"
	if r.Chance(1, 4) {
		t = "udp"
	}
	m := Msg{T: t, L: genAddr(r), R: genAddr(r)}
	hdr := addrEncLen(m.L) + addrEncLen(m.R) + 2
	var n int
	switch r.Intn(8) {
	case 0:
		n = r.Intn(4)
	case 1:
		n = r.Intn(300)
	case 2, 3, 4:
		n = 4096 - hdr + r.Range(-5, 5) // the whole encoding around the bufio buffer size
	case 5:
		n = r.Intn(4000)
	case 6:
		n = bigLens[r.Intn(len(bigLens))]
	default:
		n = r.Range(4000, 65000)
		if !thorough {
			n = r.Range(4000, 20000)
		}
	}
	p := genPay(r, n)
	m.P = &p
	return m
}

type RawIn struct {
	Ty   int  `json:"ty"`
	Data hx.B `json:"data"`
}

func genRaw(r *hx.Rand) RawIn {
	m := genCodecMsg(r, false)
	for m.T == "ping" || (m.P != nil && m.P.N > 6000) {
		m = genCodecMsg(r, false)
	}
	data, _ := m.Real().MarshalBinary()
	ty := typeCode[m.T]
	switch r.Intn(8) {
	case 0, 1, 2:
		if len(data) > 0 {
			data = data[:r.Intn(len(data))]
		}
	case 3, 4:
		data = append([]byte(nil), data...)
		for k := r.Range(1, 3); k > 0 && len(data) > 0; k-- {
			i := r.Intn(len(data))
			if len(data) > 60 && r.Chance(2, 3) {
				i = r.Intn(60) // the header fields
			}
			data[i] = byte(r.Intn(256))
		}
	case 5:
		ty = r.Intn(7) // decode as another type
	case 6:
		data = r.Bytes(r.Intn(64))
	case 7:
		data = append(append([]byte(nil), data...), r.Bytes(r.Intn(8))...)
	}
	return RawIn{Ty: ty, Data: hx.B(data)}
}

// ---------- generators: sessions ----------

func litPay(b []byte) *Pay { return &Pay{Lit: hx.B(b)} }

func sessPayLen(r *hx.Rand) int {
	switch r.Intn(10) {
	case 0:
		return 0
	case 1, 2, 3, 4:
		return r.Range(1, 64)
	case 5, 6, 7:
		return r.Range(65, 1500)
	case 8:
		return r.Range(1500, 4000)
	}
	return r.PickInt([]int{1, 2, 3999, 4000})
}

type connPlan struct {
	l, r  *Addr
	items []string // H D E C X(data after the end)
	cid   int
}

func genSession(r *hx.Rand, large bool) []Action {
	var acts []Action
	nconn := r.Range(1, 4)
	locals := []*Addr{{Kind: "tcp", IP: hx.B(v4pool[0]), Port: 80}, {Kind: "tcp", IP: hx.B(v4pool[1]), Port: 22}, {Kind: "tcp", IP: hx.B(v6pool[0]), Port: 443}}
	var cps []*connPlan
	for i := 0; i < nconn; i++ {
		cp := &connPlan{cid: -1}
		if i > 0 && r.Chance(1, 6) {
			// duplicate id: same address pair as an earlier connection, perhaps in another representation
			o := cps[r.Intn(i)]
			l, rr := *o.l, *o.r
			if len(rr.IP) == 4 && r.Bool() {
				rr.IP = hx.B(mapped(rr.IP))
			}
			if r.Chance(1, 3) {
				rr.Kind, l.Kind = "udp", "udp"
			}
			cp.l, cp.r = &l, &rr
		} else {
			cp.l = locals[r.Intn(len(locals))]
			ip := v4pool[r.Intn(4)]
			if r.Chance(1, 4) {
				ip = v6pool[r.Intn(2)]
			}
			cp.r = &Addr{Kind: "tcp", IP: hx.B(ip), Port: 40000 + r.Intn(4)}
		}
		cp.items = append(cp.items, "H")
		nd := r.Range(0, 20)
		if r.Chance(1, 2) {
			nd = r.Range(0, 5)
		}
		for k := 0; k < nd; k++ {
			cp.items = append(cp.items, "D")
		}
		switch r.Intn(6) {
		case 0: // ends with the session
		case 1:
			cp.items = append(cp.items, "C")
			if r.Bool() {
				cp.items = append(cp.items, "X", "E")
			}
		default:
			cp.items = append(cp.items, "E")
			if r.Chance(1, 4) {
				cp.items = append(cp.items, "X")
			}
			if r.Chance(1, 8) {
				cp.items = append(cp.items, "E")
			}
		}
		cps = append(cps, cp)
	}
	alive := true
	ncid, nudp := 0, 0
	poisonAt := -1
	if r.Chance(1, 20) {
		poisonAt = r.Intn(12)
	}
	readSizes := []int{1, 2, 7, 100, 1000, 4096, 8192}
	timeouts := 0
	step := 0
	send := func(m Msg) { acts = append(acts, Action{A: "send", M: &m}) }
	for {
		var open []*connPlan
		for _, cp := range cps {
			if len(cp.items) > 0 {
				open = append(open, cp)
			}
		}
		if len(open) == 0 {
			break
		}
		step++
		if step == poisonAt && alive {
			// a datagram relay message whose addresses are not UDP addresses
			send(Msg{T: "udp", L: locals[0], R: &Addr{Kind: "tcp", IP: hx.B(v4pool[2]), Port: 5353}, P: litPay([]byte("x"))})
			alive = false
		}
		cp := open[r.Intn(len(open))]
		it := cp.items[0]
		cp.items = cp.items[1:]
		n := sessPayLen(r)
		if large && r.Chance(1, 3) {
			n = r.PickInt([]int{4060, 4100, 5000, 9000, 20000, 65000})
		}
		pay := genPay(r, n)
		switch it {
		case "H":
			if !alive {
				cp.items = nil
				continue
			}
			send(Msg{T: "hello", L: cp.l, R: cp.r})
			cp.cid = ncid
			ncid++
		case "D", "X":
			m := Msg{T: "data", L: cp.l, R: cp.r, P: &pay}
			if cp.cid >= 0 && r.Chance(1, 5) && (n > 0 || r.Chance(1, 6)) {
				// (a waiting Read is not woken for good by an empty payload: it runs into its deadline)
				acts = append(acts, Action{A: "park", C: cp.cid, N: r.PickInt(readSizes), M: &m})
			} else {
				send(m)
			}
			if cp.cid >= 0 && r.Chance(1, 3) {
				acts = append(acts, Action{A: "read", C: cp.cid, N: r.PickInt(readSizes)})
			}
		case "E":
			m := Msg{T: "eof", L: cp.l, R: cp.r}
			if cp.cid >= 0 && r.Chance(1, 5) {
				acts = append(acts, Action{A: "park", C: cp.cid, N: r.PickInt(readSizes), M: &m})
			} else {
				send(m)
			}
		case "C":
			if cp.cid >= 0 {
				acts = append(acts, Action{A: "close", C: cp.cid})
			}
		}
		// sprinkled actions
		if cp.cid >= 0 && alive && r.Chance(1, 6) {
			wn := r.PickInt([]int{0, 1, 5, 40, 300, 2000, 4000})
			if large && r.Chance(1, 2) {
				wn = r.PickInt([]int{4060, 6000, 65000})
			}
			wp := genPay(r, wn)
			acts = append(acts, Action{A: "write", C: cp.cid, P: &wp})
		}
		if r.Chance(1, 25) {
			// data / eof for an id that was never announced
			u := &Addr{Kind: "tcp", IP: hx.B(v4pool[3]), Port: 50000 + r.Intn(3)}
			p := genPay(r, r.Range(1, 30))
			if r.Bool() {
				send(Msg{T: "data", L: cp.l, R: u, P: &p})
			} else {
				send(Msg{T: "eof", L: u, R: cp.r})
			}
		}
		if alive && r.Chance(1, 14) {
			p := genPay(r, r.PickInt([]int{0, 1, 30, 512, 1400}))
			send(Msg{T: "udp", L: &Addr{Kind: "udp", IP: hx.B(v4pool[0]), Port: 53}, R: &Addr{Kind: "udp", IP: hx.B(genIP(r)), Port: genPort(r)}, P: &p})
			if r.Bool() {
				wp := genPay(r, r.Range(0, 200))
				acts = append(acts, Action{A: "udpw", C: nudp, P: &wp})
			}
			nudp++
		}
		if r.Chance(1, 40) {
			send(Msg{T: "ping"})
		}
		if ncid > 0 && timeouts < 2 && r.Chance(1, 30) {
			acts = append(acts, Action{A: "read", C: r.Intn(ncid), N: r.PickInt(readSizes)})
			timeouts++
		}
	}
	if ncid > 0 && alive {
		acts = append(acts, Action{A: "write", C: r.Intn(ncid), P: litPay([]byte("flush"))})
	}
	if r.Bool() {
		acts = append(acts, Action{A: "disc"})
		if r.Chance(1, 4) && len(cps) > 0 {
			p := genPay(r, 5)
			send(Msg{T: "data", L: cps[0].l, R: cps[0].r, P: &p}) // after the end: never received
		}
	}
	return acts
}

// all interleavings of per-connection message sequences
func interleavings(seqs [][]Action) [][]Action {
	var out [][]Action
	idx := make([]int, len(seqs))
	var cur []Action
	var rec func()
	rec = func() {
		done := true
		for i := range seqs {
			if idx[i] < len(seqs[i]) {
				done = false
				cur = append(cur, seqs[i][idx[i]])
				idx[i]++
				rec()
				idx[i]--
				cur = cur[:len(cur)-1]
			}
		}
		if done {
			out = append(out, append([]Action(nil), cur...))
		}
	}
	rec()
	return out
}

func connSeq(i int, ndata int) []Action {
	l := &Addr{Kind: "tcp", IP: hx.B(v4pool[0]), Port: 80}
	r := &Addr{Kind: "tcp", IP: hx.B(v4pool[2]), Port: 41000 + i}
	seq := []Action{{A: "send", M: &Msg{T: "hello", L: l, R: r}}}
	for k := 0; k < ndata; k++ {
		seq = append(seq, Action{A: "send", M: &Msg{T: "data", L: l, R: r, P: litPay([]byte(fmt.Sprintf("c%d-m%d;", i, k)))}})
	}
	return append(seq, Action{A: "send", M: &Msg{T: "eof", L: l, R: r}})
}

// shapeSessions: two connections A and B in every address relationship (same remote /
// different local, same local / different remote, local and remote swapped, same ip other
// port, identical pair in another representation), each with: interleaved data, data for
// an unknown id that shares one address with the connection used last, eof of one while the
// other goes on, the id announced again after its eof (first as newest, then as oldest
// connection) and used again, service writes on both.
func shapeSessions() [][]Action {
	ip1, ip2, ip3 := hx.B(v4pool[0]), hx.B(v4pool[1]), hx.B(v4pool[2])
	t := func(ip hx.B, port int) *Addr { return &Addr{Kind: "tcp", IP: ip, Port: port} }
	type pair struct{ l, r *Addr }
	shapes := [][2]pair{
		{{t(ip1, 80), t(ip3, 40000)}, {t(ip1, 22), t(ip3, 40000)}},              // same remote, other local port
		{{t(ip1, 80), t(ip3, 40000)}, {t(ip2, 80), t(ip3, 40000)}},              // same remote, other local ip
		{{t(ip1, 80), t(ip3, 40000)}, {t(ip1, 80), t(ip3, 40001)}},              // same local, other remote port
		{{t(ip1, 80), t(ip3, 40000)}, {t(ip1, 80), t(ip2, 40000)}},              // same local, other remote ip
		{{t(ip1, 80), t(ip3, 40000)}, {t(ip3, 40000), t(ip1, 80)}},              // swapped
		{{t(ip1, 80), t(ip3, 40000)}, {t(hx.B(mapped(ip1)), 80), t(ip3, 40000)}}, // same strings, other representation
		{{t(ip1, 80), t(ip3, 40000)}, {t(hx.B(v6pool[0]), 80), t(hx.B(v6pool[1]), 40000)}},
	}
	var out [][]Action
	for si, sh := range shapes {
		for order := 0; order < 2; order++ {
			a, b := sh[0], sh[1]
			if order == 1 {
				a, b = b, a
			}
			k := 0
			data := func(p pair) Action {
				k++
				return Action{A: "send", M: &Msg{T: "data", L: p.l, R: p.r, P: litPay([]byte(fmt.Sprintf("s%d-%d;", si, k)))}}
			}
			hello := func(p pair) Action { return Action{A: "send", M: &Msg{T: "hello", L: p.l, R: p.r}} }
			eof := func(p pair) Action { return Action{A: "send", M: &Msg{T: "eof", L: p.l, R: p.r}} }
			unknown := pair{b.l, t(hx.B(v4pool[3]), 50000)} // shares its local address with B
			unknown2 := pair{t(hx.B(v4pool[3]), 8080), a.r} // shares its remote address with A
			w := func(c int) Action { k++; return Action{A: "write", C: c, P: litPay([]byte(fmt.Sprintf("w%d-%d;", si, k)))} }
			acts := []Action{
				hello(a), hello(b), data(a), data(b), data(unknown2), data(a), data(unknown), data(b), w(0), w(1),
				{A: "read", C: 0, N: 4096}, {A: "read", C: 1, N: 4096},
				eof(b), data(b), data(a), // B was the newest: ended; its id is unknown now
				hello(b), data(b), data(a), w(2), // announced again (connection 2), newest again
				eof(a), data(a), data(b), // A was the oldest
				hello(a), data(a), data(b), data(unknown2), w(3), w(2), // announced again (connection 3)
				eof(unknown), eof(b), data(b), data(a), eof(a),
			}
			out = append(out, acts)
		}
	}
	return out
}

// ---------- main ----------

type Input struct {
	Codec *Msg     `json:"codec,omitempty"`
	Raw   *RawIn   `json:"raw,omitempty"`
	Sess  []Action `json:"sess,omitempty"`
	Large bool     `json:"large,omitempty"`
	// Fam: the session belongs to the family of textually confusable address pairs (confusable.go:
	// concat, glue, differ, prefix, mapped) or to the family of relayed datagrams ("udp-relay", udprelay.go)
	Fam string `json:"fam,omitempty"`
	// Key: Laddr.String()+Raddr.String() of this pair, as Go prints it (correspondence of the text model)
	Key *KeyIn `json:"key,omitempty"`
	// Stress > 0: that many unsynchronised sessions (4 connections each); every stream is a case
	Stress int `json:"stress,omitempty"`
	Stream int `json:"stream,omitempty"` // which stream of the stress run this case is (information only)
}

type KeyIn struct {
	L Addr `json:"l"`
	R Addr `json:"r"`
}

func main() {
	o := hx.ParseArgs()
	r := hx.NewRand(o.Seed)
	dist := map[string]int{}
	var inputs []Input

	if n := os.Getenv("C16_STRESS"); n != "" {
		k := 0
		fmt.Sscan(n, &k)
		e := startEnv(o.Out)
		stress(e, r, k)
		e.stop()
		return
	}
	if o.Only != "" {
		var in Input
		if err := hx.LoadReplay(o.Only, &in); err != nil {
			hx.Fatal("replay: %v", err)
		}
		inputs = []Input{in}
	} else {
		nCodec, nRaw, nSess, nLarge := 260, 200, 70, 6
		switch o.Tier {
		case "thorough":
			nCodec, nRaw, nSess, nLarge = 1500, 1500, 700, 20
		case "search":
			nCodec, nRaw, nSess, nLarge = 800, 600, 250, 8
		}
		// corpus: the known witnesses first
		tl := &Addr{Kind: "tcp", IP: hx.B(v4pool[0]), Port: 80}
		tr := &Addr{Kind: "tcp", IP: hx.B(v4pool[2]), Port: 40000}
		for _, n := range []int{4050, 4060, 65000} {
			inputs = append(inputs, Input{Codec: &Msg{T: "data", L: tl, R: tr, P: &Pay{S: 7, N: n}}})
		}
		inputs = append(inputs, Input{Codec: &Msg{T: "handshake", PV: 1, Strs: []Pay{{Lit: hx.B("1.0")}, {Lit: hx.B("abcdef0")}, {Lit: hx.B("abcdef0123456789")}, {Lit: hx.B("token")}}}})
		for i := 0; i < nCodec; i++ {
			m := genCodecMsg(r, o.Tier == "thorough")
			inputs = append(inputs, Input{Codec: &m})
		}
		for i := 0; i < nRaw; i++ {
			x := genRaw(r)
			inputs = append(inputs, Input{Raw: &x})
		}
		// sessions: every interleaving of two (three) short connections, then random ones
		il := interleavings([][]Action{connSeq(0, 1), connSeq(1, 1)})
		il = append(il, interleavings([][]Action{connSeq(0, 2), connSeq(1, 2)})...)
		if o.Tier == "thorough" {
			il = append(il, interleavings([][]Action{connSeq(0, 1), connSeq(1, 1), connSeq(2, 1)})...)
		}
		for _, a := range il {
			inputs = append(inputs, Input{Sess: a})
		}
		for _, a := range shapeSessions() {
			inputs = append(inputs, Input{Sess: a})
		}
		// the agent session ends with 0, 1, 2, 3 relayed connections still open (with and
		// without unread bytes / an earlier service close): every service call returns and
		// every connection sees its end (the final reads until EOF are added by the run)
		for k := 0; k <= 3; k++ {
			for variant := 0; variant < 2; variant++ {
				var acts []Action
				for i := 0; i < k; i++ {
					seq := connSeq(i, 1+variant)
					acts = append(acts, seq[:len(seq)-1]...) // no eof
				}
				if variant == 1 && k > 0 {
					acts = append(acts, Action{A: "write", C: k - 1, P: litPay([]byte("bye"))}, Action{A: "close", C: 0})
				}
				acts = append(acts, Action{A: "disc"})
				inputs = append(inputs, Input{Sess: acts})
			}
		}
		for i := 0; i < nSess; i++ {
			inputs = append(inputs, Input{Sess: genSession(r, false)})
		}
		for i := 0; i < nLarge; i++ {
			inputs = append(inputs, Input{Sess: genSession(r, true), Large: true})
		}
		// sets of connections whose address pairs are textually confusable
		cs, cpairs := confusableSessions(r, o.Tier, dist)
		for _, c := range cs {
			inputs = append(inputs, Input{Sess: c.acts, Fam: c.fam})
		}
		seenKey := map[string]bool{}
		for _, p := range cpairs {
			if len(p.l.IP) != 4 || len(p.r.IP) != 4 {
				continue
			}
			l, rr := p.text()
			if seenKey[l+" "+rr] {
				continue
			}
			seenKey[l+" "+rr] = true
			inputs = append(inputs, Input{Key: &KeyIn{L: *p.l, R: *p.r}})
		}
		// relayed UDP datagrams, several in flight, answered late and out of order (udprelay.go)
		for _, c := range relaySessions(r, o.Tier, dist) {
			inputs = append(inputs, Input{Sess: c.acts, Fam: c.fam})
		}
		nStress := 150
		if o.Tier != "quick" {
			nStress = 1000
		}
		inputs = append(inputs, Input{Stress: nStress})
	}

	var e *env
	var cases []hx.Case
	id := -1
	crashes := 0
	for _, in := range inputs {
		id++
		idc := hx.CoqN(uint64(id))
		switch {
		case in.Stress > 0:
			if crashes >= 3 {
				dist["stress:skipped-after-3-abrupt-failures"]++
				id--
				continue
			}
			if e == nil {
				e = startEnv(o.Out)
			}
			for k, x := range stressStreams(e, r, in.Stress) {
				dist["stress:streams"]++
				if len(x.got) != len(x.sent) {
					dist["stress:streams-short"]++
				}
				cases = append(cases, hx.Case{ID: id, Kind: "stress", Input: Input{Stress: 300, Stream: k + 1},
					Obs:  map[string]interface{}{"sent_len": len(x.sent), "read_len": len(x.got)},
					Coq:  fmt.Sprintf("CT (mkTCase %s %s %s)", hx.CoqN(uint64(id)), coqB(x.sent), coqB(x.got))})
				id++
			}
			if !stressHung && crashes < 3 {
				rounds := 3000
				if o.Tier != "quick" {
					rounds = 20000
				}
				done, stuck := wakeupRounds(e, r, rounds)
				dist["stress:wakeup-rounds"] = done
				c := hx.Case{ID: id, Kind: "stress-wakeup", Input: Input{Stress: 300, Stream: -1},
					Obs: map[string]interface{}{"rounds_delivered": done, "stuck": stuck},
					Coq: fmt.Sprintf("CT (mkTCase %s [1]%%N [1]%%N)", hx.CoqN(uint64(id)))}
				if stuck {
					c.Crash = fmt.Sprintf("handler-did-not-return: round %d: a Read waiting on a surfaced connection was not woken by the data message (byte not delivered within 20 s)", done)
				}
				cases = append(cases, c)
				id++
			}
			if stressHung {
				degraded = true
				cases = append(cases, hx.Case{ID: id, Kind: "stress", Input: Input{Stress: 300},
					Crash: "handler-did-not-return: in an unsynchronised session a service Read never returned after the eofs"})
				id++
			}
			id--
		case in.Codec != nil:
			m := *in.Codec
			var enc []byte
			var dec Msg
			crash := ""
			func() {
				defer func() {
					if x := recover(); x != nil {
						crash = fmt.Sprintf("MarshalBinary panicked: %v", x)
					}
				}()
				var err error
				enc, err = m.Real().MarshalBinary()
				if err != nil {
					crash = "MarshalBinary returned an error: " + err.Error()
				}
			}()
			if crash == "" {
				dec, crash = decodeReal(typeCode[m.T], enc)
			}
			dist["codec:"+m.T]++
			switch {
			case len(enc) > 4096:
				dist["codec:encoding>4096"]++
			case len(enc) >= 4090:
				dist["codec:encoding 4090..4096"]++
			default:
				dist["codec:encoding<4090"]++
			}
			c := hx.Case{ID: id, Kind: "codec-" + m.T, Input: in, Crash: crash,
				Obs: map[string]interface{}{"encoded_len": len(enc), "decoded": dec.obsJSON()}}
			if crash == "" {
				c.Coq = fmt.Sprintf("CC (mkCCase %s %s %s %s)", idc, m.Coq(), coqB(enc), dec.Coq())
			}
			cases = append(cases, c)
		case in.Key != nil:
			text := in.Key.L.Net().String() + in.Key.R.Net().String()
			dist["addrtext"]++
			cases = append(cases, hx.Case{ID: id, Kind: "addrtext", Input: in, Obs: map[string]interface{}{"text": text},
				Coq: fmt.Sprintf("CK (mkKCase %s %s %s %s)", idc, in.Key.L.Coq(), in.Key.R.Coq(), coqB([]byte(text)))})
		case in.Raw != nil:
			dec, crash := decodeReal(in.Raw.Ty, in.Raw.Data)
			dist[fmt.Sprintf("raw:type%d", in.Raw.Ty)]++
			c := hx.Case{ID: id, Kind: "raw", Input: in, Crash: crash, Obs: dec.obsJSON()}
			if crash == "" {
				c.Coq = fmt.Sprintf("CR (mkRCase %s %s %s %s)", idc, hx.CoqZ(int64(in.Raw.Ty)), coqB(in.Raw.Data), dec.Coq())
			}
			cases = append(cases, c)
		default:
			if e == nil {
				e = startEnv(o.Out)
			}
			if crashes >= 3 {
				dist["session:skipped-after-3-abrupt-failures"]++
				id--
				continue
			}
			exec, res, frames, _, crash := e.run(in.Sess)
			if crash != "" {
				crashes++
				degraded = true
			}
			kind := "session"
			if in.Large {
				kind = "session-large"
			}
			if in.Fam == "udp-relay" {
				kind = "session-udp-relay"
			} else if in.Fam != "" {
				kind = "session-confusable"
				dist["confusable:sessions-"+in.Fam]++
			}
			var as, rs, fs []string
			nmsg, nconn, nread, npark := 0, 0, 0, 0
			for i, a := range exec {
				as = append(as, a.Coq())
				if a.A == "send" && a.M.T != "ping" {
					nmsg++
				}
				if a.A == "read" {
					nread++
				}
				if a.A == "park" {
					npark++
				}
				if i < len(res) && res[i].K == "acc" {
					nconn++
				}
			}
			for _, x := range res {
				rs = append(rs, x.Coq())
			}
			var fobs []map[string]interface{}
			for _, f := range frames {
				fs = append(fs, f.Coq())
				fobs = append(fobs, f.obsJSON())
			}
			dist[fmt.Sprintf("%s:connections=%d", kind, nconn)]++
			dist[kind+":messages"] += nmsg
			dist[kind+":reads"] += nread
			dist[kind+":parked-reads"] += npark
			dist[kind+":frames-to-agent"] += len(frames)
			var robs []string
			for _, x := range res {
				if x.K == "data" {
					robs = append(robs, fmt.Sprintf("data:%d", len(x.B)))
				} else if x.K != "none" {
					robs = append(robs, x.K)
				}
			}
			c := hx.Case{ID: id, Kind: kind, Input: in, Crash: crash,
				Obs: map[string]interface{}{"results": robs, "frames": fobs, "executed_actions": len(exec)}}
			if crash == "" {
				c.Coq = fmt.Sprintf("CS (mkSCase %s %s\n     %s\n     %s)", idc, hx.CoqList(as, "act"), hx.CoqList(rs, "res"), hx.CoqList(fs, "msg"))
			}
			cases = append(cases, c)
		}
	}
	if e != nil {
		e.stop()
	}
	header := "From HT Require Import Common.Bytes C16.Model C16.Check."
	hx.Write(o, "C16", "tunnel", header, "case", cases, dist, nil, 60)
	_ = os.Stdout
}
