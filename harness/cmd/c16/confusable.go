// C16 harness - sets of simultaneously open virtual connections whose ADDRESS PAIRS are
// textually confusable.  The identity of a virtual connection is the pair (local address,
// remote address); any lookup that goes through something coarser than the pair (one text
// built from both addresses, one of the two addresses only, a prefix comparison, ...)
// confuses some of these sets.  Families:
//
//	concat   pairs whose Laddr.String()+Raddr.String() is the SAME text: local port P vs
//	         P*10^k+d with the remote's first octet "dE" vs "E" (local IP of any shape: 4-byte,
//	         16-byte, empty - only the remote has to be printed without bracket), also with
//	         local and remote exchanged (Raddr.String()+Laddr.String()), also three at once
//	glue     one address printed as IP and port without ':' is the same text
//	         (1.2.3.4 port 80 vs 1.2.3.48 port 0), the other address equal
//	differ   pairs that differ only in the local IP / local port / remote IP / remote port,
//	         with local and remote exchanged, and all four pairs over two addresses
//	prefix   one address is a textual prefix / suffix of the other (port 80 vs 8080 and 180,
//	         1.1.1.1 vs 11.1.1.1 and 1.1.1.11)
//	mapped   the same addresses as 4-byte IPs and as IPv4-mapped 16-byte IPs (the SAME id
//	         for the code as it is: both print alike), next to an unrelated connection
//
// Every set is announced in both orders and driven by a script that addresses the connection
// announced LAST first, reads every connection, lets every service write, ends the last and
// then the first connection, and announces each again after its eof (used again).  Two-pair
// sets of the colliding families also run every interleaving of (data, eof) x (data, eof).
// Payloads are tagged with the pair they are addressed to.
package main

import (
	"fmt"
	"strconv"

	"verif/harness/hx"
)

type cpair struct{ l, r *Addr }

type cset struct {
	fam string
	ps  []cpair
}

func tcp(ip []byte, port int) *Addr { return &Addr{Kind: "tcp", IP: hx.B(ip), Port: port} }

func (p cpair) text() (string, string) { return p.l.Net().String(), p.r.Net().String() }

func pow10(k int) int {
	n := 1
	for ; k > 0; k-- {
		n *= 10
	}
	return n
}

// octetSplits: every way of writing an octet's decimal text n as d ++ e with both parts
// non-empty and e itself the text of an octet (no leading zero unless e is "0").
func octetSplits(n int) [][2]string {
	s := strconv.Itoa(n)
	var out [][2]string
	for k := 1; k < len(s); k++ {
		d, e := s[:k], s[k:]
		if len(e) > 1 && e[0] == '0' {
			continue
		}
		out = append(out, [2]string{d, e})
	}
	return out
}

// collide2: two different pairs with the same Laddr.String()+Raddr.String().
func collide2(r *hx.Rand, lip []byte) (cpair, cpair) {
	for {
		n := r.Range(10, 255)
		sp := octetSplits(n)
		if len(sp) == 0 {
			continue
		}
		de := sp[r.Intn(len(sp))]
		d, _ := strconv.Atoi(de[0])
		e, _ := strconv.Atoi(de[1])
		k := pow10(len(de[0]))
		maxP := (65535 - d) / k
		if maxP < 1 {
			continue
		}
		p := r.Range(1, maxP)
		if r.Chance(1, 3) {
			p = r.PickInt([]int{2, 22, 80, 222, 443, 808}) // the ports services really share a prefix on
			if p > maxP {
				continue
			}
		}
		rest := r.Bytes(3)
		rport := r.PickInt([]int{40000, 1, 65535, r.Intn(65536)})
		a := cpair{tcp(lip, p), tcp([]byte{byte(n), rest[0], rest[1], rest[2]}, rport)}
		b := cpair{tcp(lip, p*k+d), tcp([]byte{byte(e), rest[0], rest[1], rest[2]}, rport)}
		return a, b
	}
}

// glue2: two different addresses whose IP text followed by the port text (no ':') is the same.
func glue2(r *hx.Rand) (*Addr, *Addr) {
	for {
		n := r.Range(10, 255) // the longer last octet
		s := strconv.Itoa(n)
		k := r.Range(1, len(s)-1)
		x, m := s[:k], s[k:] // shorter last octet, digits that move to the port
		if m[0] == '0' {
			continue
		}
		y2 := r.PickInt([]int{0, 1, 8, 80, 443, r.Intn(1000)})
		y, _ := strconv.Atoi(m + strconv.Itoa(y2))
		if y > 65535 {
			continue
		}
		xi, _ := strconv.Atoi(x)
		pre := r.Bytes(3)
		return tcp([]byte{pre[0], pre[1], pre[2], byte(xi)}, y), tcp([]byte{pre[0], pre[1], pre[2], byte(n)}, y2)
	}
}

func swapped(p cpair) cpair { return cpair{p.r, p.l} }

func randV4(r *hx.Rand) []byte {
	if r.Bool() {
		return append([]byte(nil), v4pool[r.Intn(4)]...)
	}
	b := r.Bytes(4)
	return b
}

// textual extensions of an address: the port with a digit appended / prepended, the first
// octet with a digit prepended, the last octet with a digit appended
func extendPort(r *hx.Rand, a *Addr, front bool) *Addr {
	d := r.Range(0, 9)
	s := strconv.Itoa(a.Port)
	if front {
		s = strconv.Itoa(r.Range(1, 5)) + s
	} else {
		s = s + strconv.Itoa(d)
	}
	p, _ := strconv.Atoi(s)
	if p > 65535 || a.Port == 0 {
		return nil
	}
	return tcp(a.IP, p)
}

func extendOctet(r *hx.Rand, a *Addr, first bool) *Addr {
	if len(a.IP) != 4 {
		return nil
	}
	ip := append([]byte(nil), a.IP...)
	i := 3
	if first {
		i = 0
	}
	s := strconv.Itoa(int(ip[i]))
	if first {
		s = strconv.Itoa(r.Range(1, 2)) + s
	} else {
		if ip[i] == 0 {
			return nil
		}
		s = s + strconv.Itoa(r.Range(0, 9))
	}
	v, _ := strconv.Atoi(s)
	if v > 255 {
		return nil
	}
	ip[i] = byte(v)
	return tcp(ip, a.Port)
}

// confusableSets: the corpus first (the known witness), then the generated families.
func confusableSets(r *hx.Rand, tier string) []cset {
	per := 2
	switch tier {
	case "thorough":
		per = 12
	case "search":
		per = 6
	}
	var out []cset
	sensor := []byte{10, 0, 0, 5}
	// corpus: one sensor address with a service on 222 and on 2222, two visitors with the same source port
	w1 := cpair{tcp(sensor, 222), tcp([]byte{210, 1, 1, 1}, 40000)}
	w2 := cpair{tcp(sensor, 2222), tcp([]byte{10, 1, 1, 1}, 40000)}
	out = append(out, cset{"concat", []cpair{w1, w2}})
	// three at once: ports 22, 222, 2222
	out = append(out, cset{"concat", []cpair{
		{tcp(sensor, 22), tcp([]byte{221, 1, 1, 1}, 40000)},
		{tcp(sensor, 222), tcp([]byte{21, 1, 1, 1}, 40000)},
		{tcp(sensor, 2222), tcp([]byte{1, 1, 1, 1}, 40000)}}})
	// the witness next to an unrelated connection and with local/remote exchanged
	out = append(out, cset{"concat", []cpair{swapped(w1), {tcp(v4pool[0], 80), tcp(v4pool[2], 40000)}, swapped(w2)}})
	lips := [][]byte{sensor, v6pool[0], nil, mapped(sensor), v4pool[4]}
	for i := 0; i < 2*per+1; i++ {
		a, b := collide2(r, lips[i%len(lips)])
		if i%3 == 2 {
			a, b = swapped(a), swapped(b)
		}
		out = append(out, cset{"concat", []cpair{a, b}})
	}
	for i := 0; i < per; i++ {
		x, y := glue2(r)
		o := tcp(randV4(r), 40000+r.Intn(3))
		if i%2 == 0 {
			out = append(out, cset{"glue", []cpair{{x, o}, {y, o}}})
		} else {
			out = append(out, cset{"glue", []cpair{{o, x}, {o, y}}})
		}
	}
	// differ in exactly one component / exchanged
	for i := 0; i < per; i++ {
		x := tcp(randV4(r), genPort(r))
		y := tcp(randV4(r), genPort(r))
		x2 := tcp(randV4(r), x.Port)             // other ip
		x3 := tcp(x.IP, (x.Port+1+r.Intn(9))%65536) // other port
		for string(x2.IP) == string(x.IP) {
			x2 = tcp(r.Bytes(4), x.Port)
		}
		if string(x.IP) == string(y.IP) && x.Port == y.Port {
			continue
		}
		switch i % 3 {
		case 0:
			out = append(out, cset{"differ", []cpair{{x, y}, {x2, y}, {x3, y}}})
		case 1:
			out = append(out, cset{"differ", []cpair{{y, x}, {y, x2}, {y, x3}}})
		default:
			out = append(out, cset{"differ", []cpair{{x, y}, {y, x}, {x, x}, {y, y}}})
		}
	}
	out = append(out, cset{"differ", []cpair{{tcp(sensor, 80), tcp(v4pool[2], 40000)}, {tcp(v4pool[2], 40000), tcp(sensor, 80)},
		{tcp(sensor, 80), tcp(sensor, 80)}, {tcp(v4pool[2], 40000), tcp(v4pool[2], 40000)}}})
	// textual prefixes / suffixes
	base := tcp([]byte{1, 2, 3, 4}, 80)
	other := tcp([]byte{1, 1, 1, 1}, 40000)
	out = append(out, cset{"prefix", []cpair{{base, other}, {tcp(base.IP, 8080), other}, {tcp(base.IP, 180), other}}})
	out = append(out, cset{"prefix", []cpair{{base, other}, {base, tcp([]byte{11, 1, 1, 1}, 40000)}, {base, tcp([]byte{1, 1, 1, 11}, 40000)}, {base, tcp(other.IP, 4000)}}})
	for i := 0; i < per; i++ {
		x := tcp(randV4(r), r.PickInt([]int{2, 22, 80, 443, 808, r.Range(1, 6000)}))
		y := tcp(randV4(r), 40000+r.Intn(4))
		var vs []*Addr
		for _, v := range []*Addr{extendPort(r, x, false), extendPort(r, x, true), extendOctet(r, x, true), extendOctet(r, x, false)} {
			if v != nil {
				vs = append(vs, v)
			}
		}
		if len(vs) == 0 {
			continue
		}
		v := vs[r.Intn(len(vs))]
		w := vs[r.Intn(len(vs))]
		switch i % 3 {
		case 0:
			out = append(out, cset{"prefix", []cpair{{x, y}, {v, y}}})
		case 1:
			out = append(out, cset{"prefix", []cpair{{y, v}, {y, x}}})
		default:
			out = append(out, cset{"prefix", []cpair{{v, w}, {x, x}, {x, w}, {v, x}}})
		}
	}
	// 4-byte vs IPv4-mapped 16-byte spelling of the same addresses (one id for the code as it is)
	l4, r4 := tcp(v4pool[0], 80), tcp(v4pool[2], 40000)
	l16, r16 := tcp(mapped(v4pool[0]), 80), tcp(mapped(v4pool[2]), 40000)
	un := cpair{tcp(v4pool[1], 22), tcp(v4pool[3], 40001)}
	out = append(out, cset{"mapped", []cpair{{l4, r4}, un, {l16, r4}}})
	out = append(out, cset{"mapped", []cpair{{l4, r16}, {l4, r4}}})
	out = append(out, cset{"mapped", []cpair{{l16, r16}, un, {l4, r4}}})
	if tier != "quick" {
		out = append(out, cset{"mapped", []cpair{{l16, r4}, {l4, r16}, un}})
	}
	return out
}

// checkSets: the generator's own claims, so that a family cannot silently degenerate.
func checkSets(sets []cset, dist map[string]int) {
	for _, s := range sets {
		dist["confusable:sets-"+s.fam]++
		for i := range s.ps {
			li, ri := s.ps[i].text()
			for j := 0; j < i; j++ {
				lj, rj := s.ps[j].text()
				same := li == lj && ri == rj
				if same && s.fam != "mapped" {
					hx.Fatal("confusable set (%s): pairs %d and %d are the same pair %s %s", s.fam, j, i, li, ri)
				}
				if same {
					dist["confusable:pairs-printing-alike"]++
				}
				if !same && (li+ri == lj+rj || ri+li == rj+lj) {
					dist["confusable:pairs-colliding-when-concatenated"]++
				}
			}
		}
		if s.fam == "concat" {
			n := 0
			for i := range s.ps {
				li, ri := s.ps[i].text()
				for j := 0; j < i; j++ {
					lj, rj := s.ps[j].text()
					if li+ri == lj+rj || ri+li == rj+lj {
						n++
					}
				}
			}
			if n == 0 {
				hx.Fatal("confusable set (concat) without a colliding pair")
			}
		}
	}
}

type scripter struct {
	acts []Action
	k    int
	tag  string
}

func (s *scripter) hello(p cpair) {
	s.acts = append(s.acts, Action{A: "send", M: &Msg{T: "hello", L: p.l, R: p.r}})
}
func (s *scripter) eof(p cpair) {
	s.acts = append(s.acts, Action{A: "send", M: &Msg{T: "eof", L: p.l, R: p.r}})
}

// data: the payload names the pair (by its position in the set) it is addressed to
func (s *scripter) data(i int, p cpair) {
	s.k++
	s.acts = append(s.acts, Action{A: "send", M: &Msg{T: "data", L: p.l, R: p.r, P: litPay([]byte(fmt.Sprintf("<%s to %d #%d>", s.tag, i, s.k)))}})
}
func (s *scripter) read(c int) { s.acts = append(s.acts, Action{A: "read", C: c, N: 4096}) }
func (s *scripter) write(c int) {
	s.k++
	s.acts = append(s.acts, Action{A: "write", C: c, P: litPay([]byte(fmt.Sprintf("<%s from %d #%d>", s.tag, c, s.k)))})
}

// confScript: announce all; address the connection announced last first.
func confScript(ps []cpair, tag string) []Action {
	s := &scripter{tag: tag}
	n := len(ps)
	last := n - 1
	for _, p := range ps {
		s.hello(p)
	}
	for round := 0; round < 2; round++ {
		for i := last; i >= 0; i-- {
			s.data(i, ps[i])
		}
	}
	for c := 0; c < n; c++ {
		s.read(c)
	}
	for c := last; c >= 0; c-- {
		s.write(c)
	}
	// the connection announced last ends; the others go on
	s.eof(ps[last])
	s.data(last, ps[last])
	s.read(last)
	if n > 1 {
		s.read(0)
	}
	s.data(0, ps[0])
	s.read(0)
	// announced again (connection n), used again
	s.hello(ps[last])
	s.data(last, ps[last])
	s.data(0, ps[0])
	s.read(n)
	s.read(0)
	s.write(n)
	// the connection announced first ends
	s.eof(ps[0])
	s.data(0, ps[0])
	s.data(last, ps[last])
	s.read(n)
	s.read(0)
	// announced again (connection n+1)
	s.hello(ps[0])
	s.data(0, ps[0])
	s.read(n + 1)
	s.write(n + 1)
	s.eof(ps[last])
	s.data(last, ps[last])
	s.data(0, ps[0])
	s.read(n + 1)
	for c := 1; c < last; c++ {
		s.data(c, ps[c])
		s.read(c)
	}
	return s.acts
}

// eofOnly: nothing but end-of-stream frames - which connection ends when.
func eofOnly(ps []cpair, tag string) []Action {
	s := &scripter{tag: tag}
	for _, p := range ps {
		s.hello(p)
	}
	last := len(ps) - 1
	s.eof(ps[last])
	s.read(last)
	s.read(0)
	s.data(0, ps[0])
	s.read(0)
	s.eof(ps[0])
	s.read(0)
	return s.acts
}

// confInterleavings: both announced, then every interleaving of (data, eof) of the one
// with (data, eof) of the other; the final reads until EOF are added by the run.
func confInterleavings(a, b cpair, tag string) [][]Action {
	mk := func(i int, p cpair) []Action {
		return []Action{
			{A: "send", M: &Msg{T: "data", L: p.l, R: p.r, P: litPay([]byte(fmt.Sprintf("<%s to %d>", tag, i)))}},
			{A: "send", M: &Msg{T: "eof", L: p.l, R: p.r}},
		}
	}
	var out [][]Action
	for _, il := range interleavings([][]Action{mk(1, b), mk(0, a)}) {
		acts := []Action{{A: "send", M: &Msg{T: "hello", L: a.l, R: a.r}}, {A: "send", M: &Msg{T: "hello", L: b.l, R: b.r}}}
		out = append(out, append(acts, il...))
	}
	return out
}

type confSession struct {
	fam  string
	acts []Action
}

func confusableSessions(r *hx.Rand, tier string, dist map[string]int) ([]confSession, []cpair) {
	sets := confusableSets(r, tier)
	checkSets(sets, dist)
	var out []confSession
	var pairs []cpair
	for si, s := range sets {
		pairs = append(pairs, s.ps...)
		rev := make([]cpair, len(s.ps))
		for i, p := range s.ps {
			rev[len(s.ps)-1-i] = p
		}
		tag := fmt.Sprintf("%s%d", s.fam, si)
		out = append(out, confSession{s.fam, confScript(s.ps, tag+"a")}, confSession{s.fam, confScript(rev, tag+"b")})
		if len(s.ps) == 2 && (s.fam == "concat" || s.fam == "glue" || s.fam == "mapped") {
			orders := [][]cpair{s.ps}
			if si == 0 || tier != "quick" {
				orders = append(orders, rev)
			}
			for oi, o := range orders {
				for _, il := range confInterleavings(o[0], o[1], fmt.Sprintf("%si%d", tag, oi)) {
					out = append(out, confSession{s.fam, il})
				}
			}
			out = append(out, confSession{s.fam, eofOnly(s.ps, tag+"e")})
		}
	}
	return out, pairs
}
