// C16 harness - manual stress probe (not part of ./check): C16_STRESS=<sessions> makes
// the harness run UNSYNCHRONISED sessions - services read eagerly while the agent sends
// data and eof back to back - and report on stderr how often a connection's stream
// differs from what was sent.  It looks for the window in agentConnection.Read between
// the empty-buffer test and the select (a receive in that window wakes nobody; a
// following close makes Read return EOF with bytes still buffered).
package main

import (
	"bytes"
	"fmt"
	"os"
	"sync"
	"time"

	"verif/harness/hx"
)

type stream struct{ sent, got []byte }

// stressHung: a service Read of an unsynchronised session never returned
var stressHung bool

// stressStreams runs unsynchronised sessions of 4 connections and returns, per
// connection, what the agent sent for it and what its service read until EOF.
func stressStreams(e *env, r *hx.Rand, sessions int) []stream {
	var out []stream
	for sn := 0; sn < sessions; sn++ {
		s, crash := e.open()
		if crash != "" {
			hx.Fatal("stress: %s", crash)
		}
		nconn := 4
		want := make([][]byte, nconn)
		got := make([][]byte, nconn)
		seed := make([]int, nconn)
		var wg sync.WaitGroup
		l := &Addr{Kind: "tcp", IP: hx.B(v4pool[0]), Port: 80}
		for i := 0; i < nconn; i++ {
			seed[i] = r.Intn(251)
			ra := &Addr{Kind: "tcp", IP: hx.B(v4pool[2]), Port: 42000 + i}
			s.sendMsg(Msg{T: "hello", L: l, R: ra})
			c := s.takeAccept(2 * time.Second)
			if c == nil {
				hx.Fatal("stress: no accept")
			}
			wg.Add(1)
			go func(i int) {
				defer wg.Done()
				buf := make([]byte, 512)
				for {
					c.SetReadDeadline(time.Now().Add(3 * time.Second))
					n, err := c.Read(buf)
					got[i] = append(got[i], buf[:n]...)
					if err != nil {
						return
					}
				}
			}(i)
		}
		for k := 0; k < 60; k++ {
			i := r.Intn(nconn)
			ra := &Addr{Kind: "tcp", IP: hx.B(v4pool[2]), Port: 42000 + i}
			// the stream of connection i is the pattern (seed[i]+j) mod 251, cut into messages
			p := Pay{S: (seed[i] + len(want[i])) % 251, N: r.Range(1, 40)}
			want[i] = append(want[i], p.Bytes()...)
			s.sendMsg(Msg{T: "data", L: l, R: ra, P: &p})
		}
		for i := 0; i < nconn; i++ {
			s.sendMsg(Msg{T: "eof", L: l, R: &Addr{Kind: "tcp", IP: hx.B(v4pool[2]), Port: 42000 + i}})
		}
		wd := make(chan struct{})
		go func() { wg.Wait(); close(wd) }()
		select {
		case <-wd:
		case <-time.After(hangBound()):
			stressHung = true
			s.c.Close()
			return out
		}
		for i := range want {
			out = append(out, stream{sent: want[i], got: got[i]})
		}
		s.c.Close()
		s.waitDown()
	}
	return out
}

func stress(e *env, r *hx.Rand, sessions int) {
	lost := 0
	ss := stressStreams(e, r, sessions)
	for i, x := range ss {
		if !bytes.Equal(x.sent, x.got) {
			lost++
			if lost <= 5 {
				fmt.Fprintf(os.Stderr, "stress: stream %d: sent %d bytes, service read %d bytes\n", i, len(x.sent), len(x.got))
			}
		}
	}
	fmt.Fprintf(os.Stderr, "stress: %d of %d connection streams differ from what was sent\n", lost, len(ss))
}

// wakeupRounds: one connection, many rounds of "the service starts a Read at a jittered
// moment while one data message arrives".  Every round must deliver its byte; a Read that
// is still waiting 20 s after the message was processed was not woken (the bytes sit in the
// buffer until the next message).  Stops at the first stuck round.
func wakeupRounds(e *env, r *hx.Rand, rounds int) (done int, stuck bool) {
	s, crash := e.open()
	if crash != "" {
		hx.Fatal("wakeup: %s", crash)
	}
	defer func() { s.c.Close(); s.waitDown() }()
	l := &Addr{Kind: "tcp", IP: hx.B(v4pool[0]), Port: 80}
	ra := &Addr{Kind: "tcp", IP: hx.B(v4pool[2]), Port: 43000}
	s.sendMsg(Msg{T: "hello", L: l, R: ra})
	c := s.takeAccept(2 * time.Second)
	if c == nil {
		hx.Fatal("wakeup: no accept")
	}
	spin := func(n int) {
		x := 0
		for i := 0; i < n*40; i++ {
			x += i
		}
		_ = x
	}
	buf := make([]byte, 16)
	for k := 0; k < rounds; k++ {
		jitter := r.Intn(2500)
		res := make(chan int, 1)
		go func() {
			spin(jitter)
			c.SetReadDeadline(time.Now().Add(25 * time.Second))
			n, err := c.Read(buf)
			if err != nil {
				n = -1
			}
			res <- n
		}()
		p := Pay{Lit: hx.B([]byte{byte(k % 251)})}
		s.sendMsg(Msg{T: "data", L: l, R: ra, P: &p})
		select {
		case n := <-res:
			if n != 1 || buf[0] != byte(k%251) {
				return k, true
			}
		case <-time.After(20 * time.Second):
			// unstick the reader so that it ends
			s.sendMsg(Msg{T: "data", L: l, R: ra, P: &p})
			return k, true
		}
	}
	return rounds, false
}
