// C16 harness - manual stress probe (not part of ./check): C16_STRESS=<sessions> makes
// the harness run UNSYNCHRONISED sessions - services read eagerly while the agent sends
// data and eof back to back - and report on stderr how often a connection's stream
// differs from what was sent.  It looks for the window in agentConnection.Read between
// the empty-buffer test and the select (a receive in that window wakes nobody; a
// following close makes Read return EOF with bytes still buffered).
package main

import (
	"bytes"
	"fmt"
	"os"
	"sync"
	"time"

	"verif/harness/hx"
)

type stream struct{ sent, got []byte }

// stressStreams runs unsynchronised sessions of 4 connections and returns, per
// connection, what the agent sent for it and what its service read until EOF.
func stressStreams(e *env, r *hx.Rand, sessions int) []stream {
	var out []stream
	for sn := 0; sn < sessions; sn++ {
		s, crash := e.open()
		if crash != "" {
			hx.Fatal("stress: %s", crash)
		}
		nconn := 4
		want := make([][]byte, nconn)
		got := make([][]byte, nconn)
		seed := make([]int, nconn)
		var wg sync.WaitGroup
		l := &Addr{Kind: "tcp", IP: hx.B(v4pool[0]), Port: 80}
		for i := 0; i < nconn; i++ {
			seed[i] = r.Intn(251)
			ra := &Addr{Kind: "tcp", IP: hx.B(v4pool[2]), Port: 42000 + i}
			s.sendMsg(Msg{T: "hello", L: l, R: ra})
			c := s.takeAccept(2 * time.Second)
			if c == nil {
				hx.Fatal("stress: no accept")
			}
			wg.Add(1)
			go func(i int) {
				defer wg.Done()
				buf := make([]byte, 512)
				for {
					c.SetReadDeadline(time.Now().Add(3 * time.Second))
					n, err := c.Read(buf)
					got[i] = append(got[i], buf[:n]...)
					if err != nil {
						return
					}
				}
			}(i)
		}
		for k := 0; k < 60; k++ {
			i := r.Intn(nconn)
			ra := &Addr{Kind: "tcp", IP: hx.B(v4pool[2]), Port: 42000 + i}
			// the stream of connection i is the pattern (seed[i]+j) mod 251, cut into messages
			p := Pay{S: (seed[i] + len(want[i])) % 251, N: r.Range(1, 40)}
			want[i] = append(want[i], p.Bytes()...)
			s.sendMsg(Msg{T: "data", L: l, R: ra, P: &p})
		}
		for i := 0; i < nconn; i++ {
			s.sendMsg(Msg{T: "eof", L: l, R: &Addr{Kind: "tcp", IP: hx.B(v4pool[2]), Port: 42000 + i}})
		}
		wg.Wait()
		for i := range want {
			out = append(out, stream{sent: want[i], got: got[i]})
		}
		s.c.Close()
		s.waitDown()
	}
	return out
}

func stress(e *env, r *hx.Rand, sessions int) {
	lost := 0
	ss := stressStreams(e, r, sessions)
	for i, x := range ss {
		if !bytes.Equal(x.sent, x.got) {
			lost++
			if lost <= 5 {
				fmt.Fprintf(os.Stderr, "stress: stream %d: sent %d bytes, service read %d bytes\n", i, len(x.sent), len(x.got))
			}
		}
	}
	fmt.Fprintf(os.Stderr, "stress: %d of %d connection streams differ from what was sent\n", lost, len(ss))
}
