// C16 harness - session part: the REAL agent listener (listener/agent, Noise_NK over
// loopback TCP) driven by a scripted agent speaking libdisco; this process plays the
// services: it takes every connection the listener's Accept returns and performs the
// scripted Read/Write/Close calls on it.  Every step is synchronised (a Ping whose
// "agent-ping" bus event shows that the serv loop has processed everything before it),
// so the outcome of a schedule does not depend on goroutine timing.
package main

import (
	"context"
	"encoding/binary"
	"fmt"
	"io"
	"net"
	"os"
	"path/filepath"
	"sync"
	"time"

	"github.com/BurntSushi/toml"
	bus "github.com/dutchcoders/gobus"
	"github.com/honeytrap/honeytrap/listener"
	"github.com/honeytrap/honeytrap/listener/agent"
	"github.com/honeytrap/honeytrap/storage"
	"github.com/mimoo/disco/libdisco"
	logging "github.com/op/go-logging"
	"verif/harness/hx"
)

type Action struct {
	A string `json:"a"`           // send read park write close udpw disc
	M *Msg   `json:"m,omitempty"` // send, park
	C int    `json:"c,omitempty"` // connection index (accept order); udpw: datagram index
	N int    `json:"n,omitempty"` // read size
	P *Pay   `json:"p,omitempty"` // write payload
	Q *Pay   `json:"q,omitempty"` // what the service refills its write buffer with right after Write returns
}

type Res struct {
	K string `json:"k"` // none acc udpacc data eof timeout panic
	L *Addr  `json:"l,omitempty"`
	R *Addr  `json:"r,omitempty"`
	B hx.B   `json:"b,omitempty"`
}

func (r Res) Coq() string {
	switch r.K {
	case "acc":
		return fmt.Sprintf("(RAcc %s %s)", r.L.Coq(), r.R.Coq())
	case "udpacc":
		return fmt.Sprintf("(RUdpAcc %s %s %s)", r.L.Coq(), r.R.Coq(), coqB(r.B))
	case "data":
		return "(RData " + coqB(r.B) + ")"
	case "eof":
		return "REof"
	case "timeout":
		return "RTimeout"
	case "panic":
		return "RPanic"
	}
	return "RNone"
}

// refill is what the service's write buffer holds after the write (same length as P).
func (a Action) refill() []byte {
	n := len(a.P.Bytes())
	if a.Q != nil {
		q := a.Q.Bytes()
		if len(q) == n {
			return q
		}
	}
	if a.P.N > 0 {
		return Pay{S: (a.P.S + 97) % 251, N: n}.Bytes()
	}
	q := make([]byte, n)
	for i, b := range a.P.Bytes() {
		q[i] = ^b
	}
	return q
}

// degraded: a session has already failed abruptly in this run; keep the remaining waits short
var degraded bool

func tmo(d time.Duration) time.Duration {
	if degraded && d > 400*time.Millisecond {
		return 400 * time.Millisecond
	}
	return d
}

// hangBound bounds every call into the code under test that has no deadline of its own
// (a call that blocks on the connection's mutex ignores read/write deadlines).
func hangBound() time.Duration { return tmo(25 * time.Second) }

func (a Action) Coq() string {
	switch a.A {
	case "send":
		return "(ASend " + a.M.Coq() + ")"
	case "read":
		return fmt.Sprintf("(ARead %d %s)", a.C, hx.CoqZ(int64(a.N)))
	case "park":
		return fmt.Sprintf("(APark %d %s %s)", a.C, hx.CoqZ(int64(a.N)), a.M.Coq())
	case "write":
		return fmt.Sprintf("(AWrite %d %s %s)", a.C, coqB(a.P.Bytes()), coqB(a.refill()))
	case "close":
		return fmt.Sprintf("(AClose %d)", a.C)
	case "udpw":
		// the answer is identified by WHICH datagram pseudo-connection (accept order) it is written on;
		// the addresses it must carry are the model's business (those of that datagram)
		return fmt.Sprintf("(AUdpR %d %s %s)", a.C, coqB(a.P.Bytes()), coqB(a.refill()))
	}
	return "ADisc"
}

// ---- the listener, once per process ----

type env struct {
	addr     string
	pub      []byte
	accepted chan net.Conn
	ping     chan struct{}
	disc     chan struct{}
	dir      string
}

func freePort() int {
	l, err := net.Listen("tcp", "127.0.0.1:0")
	if err != nil {
		hx.Fatal("no loopback port: %v", err)
	}
	p := l.Addr().(*net.TCPAddr).Port
	l.Close()
	return p
}

func startEnv(out string) *env {
	dir, err := os.MkdirTemp(out, "c16db")
	if err != nil {
		hx.Fatal("scratch dir: %v", err)
	}
	storage.SetDataDir(dir)
	logging.SetBackend(logging.NewLogBackend(io.Discard, "", 0))
	e := &env{accepted: make(chan net.Conn, 64), ping: make(chan struct{}, 64), disc: make(chan struct{}, 64), dir: dir}
	fn, ok := listener.Get("agent")
	if !ok {
		hx.Fatal("agent listener is not registered")
	}
	var started bool
	for try := 0; try < 5 && !started; try++ {
		e.addr = fmt.Sprintf("127.0.0.1:%d", freePort())
		var cfg struct {
			Listener toml.Primitive `toml:"listener"`
		}
		md, err := toml.Decode(fmt.Sprintf("[listener]\ntype=\"agent\"\nlisten=%q\n", e.addr), &cfg)
		if err != nil {
			hx.Fatal("toml: %v", err)
		}
		l, err := fn(listener.WithConfig(cfg.Listener, &md))
		if err != nil {
			hx.Fatal("agent.New: %v", err)
		}
		// the listener announces these to the agent in its HandshakeResponse
		if aa, ok := l.(listener.AddAddresser); ok {
			aa.AddAddress(&net.TCPAddr{IP: net.IPv4(192, 0, 2, 1).To4(), Port: 80})
			aa.AddAddress(&net.UDPAddr{IP: net.ParseIP("2001:db8::1"), Port: 53})
		}
		if err := l.Start(context.Background()); err != nil {
			continue
		}
		started = true
		go func() {
			for {
				c, err := l.Accept()
				if err != nil {
					return
				}
				e.accepted <- c
			}
		}()
	}
	if !started {
		hx.Fatal("agent listener could not be started")
	}
	st, err := agent.Storage()
	if err != nil {
		hx.Fatal("agent.Storage: %v", err)
	}
	kp, err := st.KeyPair()
	if err != nil {
		hx.Fatal("KeyPair: %v", err)
	}
	e.pub = append([]byte(nil), kp.PublicKey[:]...)
	bus.Subscribe("agent-ping", "c16", func(string, interface{}) error {
		select {
		case e.ping <- struct{}{}:
		default:
		}
		return nil
	})
	bus.Subscribe("agent-disconnect", "c16", func(string, interface{}) error {
		select {
		case e.disc <- struct{}{}:
		default:
		}
		return nil
	})
	return e
}

func (e *env) stop() { os.RemoveAll(e.dir) }

// ---- one scripted session ----

type session struct {
	e        *env
	c        net.Conn
	mu       sync.Mutex
	frames   []Msg
	nData    int // ReadWriteTCP frames received
	nUdp     int
	dead     chan struct{} // closed when the server has closed the transport
	tcp      []net.Conn    // accepted virtual connections, accept order
	udp      []*listener.DummyUDPConn
	writes   int
	udpw     int
	down     bool // teardown observed (agent-disconnect event)
	selfDisc bool
	exec     []Action
	res      []Res
	hsresp   *Msg
	wbuf     []byte // the services' write buffer, reused for every Write and refilled right after it
	rbuf     []byte // the services' read buffer, reused for every Read and overwritten after the result is copied out
}

func drain(ch chan struct{}) {
	for {
		select {
		case <-ch:
		default:
			return
		}
	}
}

func writeFrame(c net.Conn, ty int, data []byte) error {
	// exactly what conn2.send does: three Writes
	if _, err := c.Write([]byte{byte(ty)}); err != nil {
		return err
	}
	var l [2]byte
	binary.LittleEndian.PutUint16(l[:], uint16(len(data)))
	if _, err := c.Write(l[:]); err != nil {
		return err
	}
	_, err := c.Write(data)
	return err
}

func readFrame(c net.Conn) (int, []byte, error) {
	var h [3]byte
	if _, err := io.ReadFull(c, h[:1]); err != nil {
		return 0, nil, err
	}
	if _, err := io.ReadFull(c, h[1:3]); err != nil {
		return 0, nil, err
	}
	n := int(binary.LittleEndian.Uint16(h[1:3]))
	data := make([]byte, n)
	if n > 0 {
		if _, err := io.ReadFull(c, data); err != nil {
			return 0, nil, err
		}
	}
	return int(h[0]), data, nil
}

func agentHandshake() []byte {
	// the handshake an agent built from this code sends
	b, err := agent.Handshake{ProtocolVersion: 1, Version: "1.0", ShortCommitID: "abcdef0", CommitID: "abcdef0123456789", Token: "tok-c16"}.MarshalBinary()
	if err != nil {
		hx.Fatal("Handshake.MarshalBinary: %v", err)
	}
	return b
}

func (e *env) open() (*session, string) {
	drain(e.ping)
	drain(e.disc)
	for len(e.accepted) > 0 {
		<-e.accepted
	}
	c, err := libdisco.Dial("tcp", e.addr, &libdisco.Config{HandshakePattern: libdisco.Noise_NK, RemoteKey: e.pub})
	if err != nil {
		hx.Fatal("dial agent listener: %v", err)
	}
	s := &session{e: e, c: c, dead: make(chan struct{})}
	if err := writeFrame(c, 2, agentHandshake()); err != nil {
		return s, "handshake could not be sent: " + err.Error()
	}
	c.SetReadDeadline(time.Now().Add(5 * time.Second))
	ty, data, err := readFrame(c)
	c.SetReadDeadline(time.Time{})
	if err != nil || ty != 3 {
		return s, fmt.Sprintf("no handshake response (type %d, err %v)", ty, err)
	}
	hr, crash := decodeReal(3, data)
	if crash != "" {
		return s, crash
	}
	s.hsresp = &hr
	go func() {
		defer close(s.dead)
		for {
			ty, data, err := readFrame(c)
			if err != nil {
				return
			}
			if ty < 0 || ty > 6 {
				continue
			}
			m, _ := decodeReal(ty, data)
			s.mu.Lock()
			s.frames = append(s.frames, m)
			if ty == 1 {
				s.nData++
			}
			if ty == 6 {
				s.nUdp++
			}
			s.mu.Unlock()
		}
	}()
	return s, ""
}

func (s *session) isDead() bool {
	select {
	case <-s.dead:
		return true
	default:
		return false
	}
}

// waitDown waits for the end of serv (its deferred functions have run).
func (s *session) waitDown() {
	if s.down {
		return
	}
	select {
	case <-s.e.disc:
	case <-time.After(tmo(3 * time.Second)):
	}
	s.down = true
}

func (s *session) sendMsg(m Msg) {
	data, err := m.Real().MarshalBinary()
	if err != nil {
		hx.Fatal("MarshalBinary: %v", err)
	}
	writeFrame(s.c, typeCode[m.T], data) // errors: the server is gone; observed through s.dead
}

// sync returns when the serv loop has processed everything sent so far (or has ended).
func (s *session) sync() {
	if s.down {
		return
	}
	for try := 0; try < 8; try++ {
		drain(s.e.ping)
		s.exec = append(s.exec, Action{A: "send", M: &Msg{T: "ping"}})
		s.res = append(s.res, Res{K: "none"})
		s.sendMsg(Msg{T: "ping"})
		select {
		case <-s.e.ping:
			return
		case <-s.dead:
			s.waitDown()
			return
		case <-time.After(400 * time.Millisecond):
		}
	}
}

func (s *session) takeAccept(wait time.Duration) net.Conn {
	select {
	case c := <-s.e.accepted:
		return c
	default:
	}
	if s.down {
		return nil
	}
	select {
	case c := <-s.e.accepted:
		return c
	case <-time.After(wait):
		return nil
	}
}

func (s *session) doSend(m Msg) Res {
	if s.down || s.selfDisc {
		// nothing can be sent any more; the model treats it the same way (not alive)
		return Res{K: "none"}
	}
	s.sendMsg(m)
	// NB the caller appends the action before the sync pings are appended
	return Res{K: "none"}
}

func (s *session) afterSend(m Msg) Res {
	wasDown := s.down
	s.sync()
	if !wasDown && s.down {
		// the session ended while/after processing m
		if c := s.takeAccept(0); c != nil {
			return s.accepted(c)
		}
		return Res{K: "panic"}
	}
	if m.T == "hello" || m.T == "udp" {
		if c := s.takeAccept(300 * time.Millisecond); c != nil {
			return s.accepted(c)
		}
	}
	return Res{K: "none"}
}

func (s *session) accepted(c net.Conn) Res {
	if u, ok := c.(*listener.DummyUDPConn); ok {
		s.udp = append(s.udp, u)
		buf := make([]byte, 70000)
		n, _ := u.Read(buf)
		got := append([]byte(nil), buf[:n]...)
		for i := range buf[:n] {
			buf[i] = 0xA5
		}
		l, r := fromNet(u.LocalAddr()), fromNet(u.RemoteAddr())
		return Res{K: "udpacc", L: &l, R: &r, B: hx.B(got)}
	}
	s.tcp = append(s.tcp, c)
	l, r := fromNet(c.LocalAddr()), fromNet(c.RemoteAddr())
	return Res{K: "acc", L: &l, R: &r}
}

// readOnce performs one Read(n bytes) through the services' reusable read buffer; the
// result is copied out and the buffer overwritten before anything else happens, as a
// service that reuses its buffer does.
func (s *session) readOnce(c net.Conn, n int, d time.Duration, own bool) Res {
	var buf []byte
	if own {
		buf = make([]byte, n) // a Read that runs concurrently with others gets its own buffer
	} else {
		if len(s.rbuf) < n {
			s.rbuf = make([]byte, n)
		}
		buf = s.rbuf[:n]
	}
	c.SetReadDeadline(time.Now().Add(d))
	k, err := c.Read(buf)
	var out []byte
	if k > 0 {
		out = append(out, buf[:k]...)
	}
	for i := range buf {
		buf[i] = 0xA5
	}
	if err == nil {
		return Res{K: "data", B: hx.B(out)}
	}
	if err == io.EOF {
		return Res{K: "eof"}
	}
	if te, ok := err.(interface{ Timeout() bool }); ok && te.Timeout() {
		return Res{K: "timeout"}
	}
	return Res{K: "panic"}
}

// writeReused sends p through the services' reusable write buffer and refills the buffer
// with q as soon as Write has returned: by then the caller owns the buffer again, while
// the session's sender goroutine has typically not yet marshalled the message.
func (s *session) writeReused(w io.Writer, p, q []byte) (int, error) {
	if cap(s.wbuf) < len(p) {
		s.wbuf = make([]byte, len(p))
	}
	buf := s.wbuf[:len(p)]
	copy(buf, p)
	n, err := w.Write(buf)
	copy(buf, q)
	return n, err
}

func (s *session) waitFrames() string {
	deadline := time.Now().Add(tmo(2 * time.Second))
	for {
		s.mu.Lock()
		ok := s.nData >= s.writes && s.nUdp >= s.udpw
		s.mu.Unlock()
		if ok {
			return ""
		}
		if s.isDead() || time.Now().After(deadline) {
			return "a frame written by the service did not reach the agent"
		}
		time.Sleep(50 * time.Microsecond)
	}
}

// run executes the plan; returns the executed actions (plan + sync pings + final
// drain), the per-action results, the frames the agent received, and a crash reason.
func (e *env) run(plan []Action) (exec []Action, res []Res, frames []Msg, hs *Msg, crash string) {
	s, crash := e.open()
	defer func() {
		s.c.Close()
		if !s.down {
			s.waitDown()
		}
		// drop connections of this session nobody took
		for len(e.accepted) > 0 {
			<-e.accepted
		}
	}()
	if crash != "" {
		return nil, nil, nil, nil, crash
	}
	// the session is up once the first ping comes back
	s.sync()
	fail := func(format string, a ...interface{}) ([]Action, []Res, []Msg, *Msg, string) {
		return s.exec, s.res, s.frames, s.hsresp, fmt.Sprintf(format, a...)
	}
	var do func(a Action) string
	do = func(a Action) string {
		switch a.A {
		case "send":
			s.exec = append(s.exec, a)
			idx := len(s.res)
			s.res = append(s.res, s.doSend(*a.M))
			if r := s.afterSend(*a.M); r.K != "none" {
				s.res[idx] = r
			}
		case "read":
			if a.C >= len(s.tcp) {
				return fmt.Sprintf("connection %d was never surfaced", a.C)
			}
			s.exec = append(s.exec, a)
			rch := make(chan Res, 1)
			rc := s.tcp[a.C]
			go func() { rch <- s.readOnce(rc, a.N, 40*time.Millisecond, false) }()
			select {
			case r := <-rch:
				s.res = append(s.res, r)
			case <-time.After(hangBound()):
				s.res = append(s.res, Res{K: "panic"})
				s.rbuf = nil // the stuck Read still owns the old buffer
				return fmt.Sprintf("handler-did-not-return: Read on surfaced connection %d blocks beyond its deadline", a.C)
			}
		case "park":
			if a.C >= len(s.tcp) {
				return fmt.Sprintf("connection %d was never surfaced", a.C)
			}
			ch := make(chan Res, 1)
			c := s.tcp[a.C]
			go func() { ch <- s.readOnce(c, a.N, 120*time.Millisecond, true) }()
			time.Sleep(2 * time.Millisecond)
			s.exec = append(s.exec, a)
			idx := len(s.res)
			s.res = append(s.res, Res{K: "none"})
			s.doSend(*a.M)
			s.sync()
			select {
			case r := <-ch:
				s.res[idx] = r
			case <-time.After(hangBound()):
				return "handler-did-not-return: a waiting Read returned neither data, EOF nor a timeout"
			}
		case "write":
			if a.C >= len(s.tcp) {
				return fmt.Sprintf("connection %d was never surfaced", a.C)
			}
			if s.down {
				return "" // not executed: the session is gone (Write would panic)
			}
			s.exec = append(s.exec, a)
			p := a.P.Bytes()
			s.tcp[a.C].SetWriteDeadline(time.Now().Add(tmo(2 * time.Second)))
			type wres struct {
				n   int
				err error
			}
			wch := make(chan wres, 1)
			wc := s.tcp[a.C]
			go func() { n, err := s.writeReused(wc, p, a.refill()); wch <- wres{n, err} }()
			var n int
			var err error
			select {
			case w := <-wch:
				n, err = w.n, w.err
			case <-time.After(hangBound()):
				s.res = append(s.res, Res{K: "panic"})
				s.wbuf = nil
				return fmt.Sprintf("handler-did-not-return: Write on surfaced connection %d blocks beyond its deadline", a.C)
			}
			if err != nil || n != len(p) {
				s.res = append(s.res, Res{K: "panic"})
				return fmt.Sprintf("Write on a surfaced connection failed: n=%d err=%v", n, err)
			}
			s.res = append(s.res, Res{K: "none"})
			s.writes++
			if c := s.waitFrames(); c != "" {
				return c
			}
		case "close":
			if a.C >= len(s.tcp) {
				return fmt.Sprintf("connection %d was never surfaced", a.C)
			}
			s.exec = append(s.exec, a)
			cd := make(chan struct{})
			cc := s.tcp[a.C]
			go func() { cc.Close(); close(cd) }()
			select {
			case <-cd:
			case <-time.After(hangBound()):
				return "handler-did-not-return: Close on a surfaced connection does not return"
			}
			s.res = append(s.res, Res{K: "none"})
		case "udpw":
			if a.C >= len(s.udp) || s.down {
				return ""
			}
			u := s.udp[a.C]
			s.exec = append(s.exec, a)
			p := a.P.Bytes()
			uch := make(chan error, 1)
			go func() {
				n, err := s.writeReused(u, p, a.refill())
				if err == nil && n != len(p) {
					err = fmt.Errorf("short write %d", n)
				}
				uch <- err
			}()
			var uerr error
			select {
			case uerr = <-uch:
			case <-time.After(hangBound()):
				s.res = append(s.res, Res{K: "panic"})
				s.wbuf = nil
				return "handler-did-not-return: Write on a datagram connection blocks"
			}
			if n, err := len(p), uerr; err != nil {
				s.res = append(s.res, Res{K: "panic"})
				return fmt.Sprintf("Write on a datagram connection failed: n=%d err=%v", n, err)
			}
			s.res = append(s.res, Res{K: "none"})
			s.udpw++
			if c := s.waitFrames(); c != "" {
				return c
			}
		case "disc":
			if !s.selfDisc && !s.down && len(s.tcp) > 0 {
				// make sure every frame sent so far has reached the agent: frames leave in
				// order, so one more service write that has arrived flushes them all
				if c := do(Action{A: "write", C: 0, P: litPay([]byte("flush"))}); c != "" {
					return c
				}
			}
			s.exec = append(s.exec, a)
			s.res = append(s.res, Res{K: "none"})
			if !s.selfDisc {
				s.selfDisc = true
				s.c.Close()
				s.waitDown()
			}
		}
		return ""
	}
	var panicked interface{}
	func() {
		defer func() { panicked = recover() }()
		for _, a := range plan {
			if c := do(a); c != "" {
				crash = c
				return
			}
		}
		// the agent goes away, then every service reads until its connection ends
		if !s.selfDisc {
			if c := do(Action{A: "disc"}); c != "" {
				crash = c
				return
			}
		}
		for i := range s.tcp {
			for k := 0; ; k++ {
				if c := do(Action{A: "read", C: i, N: 8192}); c != "" {
					crash = c
					return
				}
				last := s.res[len(s.res)-1].K
				if last == "eof" {
					break
				}
				if last != "data" || k > 200 {
					crash = fmt.Sprintf("connection %d does not end after the agent has gone (Read: %s)", i, last)
					return
				}
			}
		}
	}()
	if panicked != nil {
		return fail("panic in a service call: %v", panicked)
	}
	if crash != "" {
		return fail("%s", crash)
	}
	s.mu.Lock()
	frames = append(frames, s.frames...)
	s.mu.Unlock()
	return s.exec, s.res, frames, s.hsresp, ""
}

var _ = filepath.Join
