// C16 harness - family 'udp-relay': RELAYED UDP DATAGRAMS on one agent session, several
// in flight at once, answered late and out of order.
//
// Every ReadWriteUDP message is its own flow: serv hands the services one pseudo-connection
// per datagram, and whatever a service writes on the pseudo-connection of datagram i has to
// return to the agent tagged with the (local, remote) pair of datagram i - however many
// datagrams have arrived in the meantime.  A session of the family:
//
//   - k = 2..6 datagrams with pairwise different (local, remote) pairs: IPv4 and IPv6 mixed,
//     pairs sharing the whole local address, pairs sharing only the local port, pairs sharing
//     the remote address, a pair with local and remote exchanged;
//   - the services (this process) hold ALL pseudo-connections handed over so far and answer
//     according to a schedule: all k first and then the answers in order / in reverse / in a
//     random permutation; some datagrams answered twice, some never; some answered at once
//     (before the next datagram arrives) while others wait; a fully random interleaving of
//     arrivals and answers;
//   - optionally 1..2 TCP virtual connections on the same session whose data messages,
//     service writes and reads are interleaved with the datagrams and their answers.
//
// Payloads are tagged: the query names its datagram, every answer names the datagram it
// answers and carries a serial number (no two answers of a session are alike).  Every step
// is synchronised on a condition (the services hold the pseudo-connection of datagram i once
// the listener's Accept has returned it and the session loop has caught up with the Ping sent
// after it; an answer has arrived once the agent has counted its frame) - never on a delay.
// The generator checks its own claims (pairs pairwise distinct as the code compares them, an
// answer only after its datagram) and counts in dist how many answers were written after a
// LATER datagram had arrived.
package main

import (
	"fmt"

	"verif/harness/hx"
)

func udpA(ip []byte, port int) *Addr { return &Addr{Kind: "udp", IP: hx.B(ip), Port: port} }

var (
	relayLocal4  = [][]byte{{10, 0, 0, 5}, {192, 0, 2, 1}, {10, 0, 0, 6}}
	relayLocal6  = [][]byte{{0x20, 0x01, 0x0d, 0xb8, 0, 0, 0, 0, 0, 0, 0, 0, 0, 0, 0, 5}, {0xfe, 0x80, 0, 0, 0, 0, 0, 0, 0, 0, 0, 0, 0, 0, 0, 1}}
	relayRemote4 = [][]byte{{198, 51, 100, 1}, {203, 0, 113, 2}, {10, 0, 0, 7}, {198, 51, 100, 2}}
	relayRemote6 = [][]byte{{0x20, 0x01, 0x0d, 0xb8, 0, 0, 0, 0, 0, 0, 0, 0, 0, 0, 0xaa, 0xaa}, {0x20, 0x01, 0x0d, 0xb8, 0, 0, 0, 0, 0, 0, 0, 0, 0, 0, 0xbb, 0xbb}}
	relayLPorts  = []int{53, 123, 161, 69, 5353, 1900, 5060}
)

func pairText(p cpair) string { l, r := p.text(); return l + " " + r }

// relayPairs: k pairwise different pairs in the relationships named above.
func relayPairs(r *hx.Rand, k int, dist map[string]int) []cpair {
	fresh := func() cpair {
		if r.Chance(1, 3) {
			return cpair{udpA(relayLocal6[r.Intn(len(relayLocal6))], r.PickInt(relayLPorts)),
				udpA(relayRemote6[r.Intn(len(relayRemote6))], 40000+r.Intn(2000))}
		}
		l := relayLocal4[r.Intn(len(relayLocal4))]
		if r.Chance(1, 8) {
			l = mapped(l) // the same IPv4 address in its 16-byte spelling
		}
		return cpair{udpA(l, r.PickInt(relayLPorts)), udpA(relayRemote4[r.Intn(len(relayRemote4))], 40000+r.Intn(2000))}
	}
	seen := map[string]bool{}
	var ps []cpair
	for len(ps) < k {
		var p cpair
		how := "fresh"
		if len(ps) == 0 {
			p = fresh()
		} else {
			o := ps[r.Intn(len(ps))]
			f := fresh()
			switch r.Intn(8) {
			case 0, 1: // same local address (ip and port), another client
				p, how = cpair{o.l, f.r}, "sharing-local-address"
			case 2: // same local port on another local ip
				p, how = cpair{udpA(f.l.IP, o.l.Port), f.r}, "sharing-local-port"
			case 3, 4: // same client, another local port / ip
				p, how = cpair{f.l, o.r}, "sharing-remote-address"
			case 5: // same client ip, next source port, same local address
				p, how = cpair{o.l, udpA(o.r.IP, (o.r.Port+1)%65536)}, "remote-port-neighbour"
			case 6: // local and remote exchanged
				p, how = cpair{o.r, o.l}, "exchanged"
			default:
				p = f
			}
		}
		if seen[pairText(p)] {
			continue
		}
		seen[pairText(p)] = true
		ps = append(ps, p)
		dist["udp-relay:pair-"+how]++
		if len(p.l.IP) == 16 || len(p.r.IP) == 16 {
			dist["udp-relay:pair-with-16-byte-ip"]++
		}
	}
	return ps
}

// relayEv: D = datagram i arrives, A = the services answer datagram i,
// T = something on a TCP virtual connection of the same session.
type relayEv struct {
	k byte
	i int
}

// relaySchedule returns arrivals and answers for k datagrams in the given mode.
func relaySchedule(r *hx.Rand, k int, mode string) []relayEv {
	var ev []relayEv
	all := func() {
		for i := 0; i < k; i++ {
			ev = append(ev, relayEv{'D', i})
		}
	}
	perm := func() []int {
		p := make([]int, k)
		for i := range p {
			p[i] = i
		}
		for i := k - 1; i > 0; i-- {
			j := r.Intn(i + 1)
			p[i], p[j] = p[j], p[i]
		}
		return p
	}
	switch mode {
	case "in-order":
		all()
		for i := 0; i < k; i++ {
			ev = append(ev, relayEv{'A', i})
		}
	case "reverse":
		all()
		for i := k - 1; i >= 0; i-- {
			ev = append(ev, relayEv{'A', i})
		}
	case "permuted":
		all()
		for _, i := range perm() {
			ev = append(ev, relayEv{'A', i})
		}
	case "twice-and-never":
		all()
		var as []int
		never := r.Intn(k)
		for i := 0; i < k; i++ {
			if i == never {
				continue
			}
			as = append(as, i)
			if r.Chance(1, 2) {
				as = append(as, i)
			}
		}
		as = append(as, (never+1)%k) // at least one datagram is answered twice
		for i := len(as) - 1; i > 0; i-- {
			j := r.Intn(i + 1)
			as[i], as[j] = as[j], as[i]
		}
		for _, i := range as {
			ev = append(ev, relayEv{'A', i})
		}
	case "some-at-once":
		// some are answered before the next datagram arrives, the others wait until all are there
		var later []int
		for i := 0; i < k; i++ {
			ev = append(ev, relayEv{'D', i})
			if i < k-1 && r.Chance(1, 2) {
				ev = append(ev, relayEv{'A', i})
				if r.Chance(1, 3) {
					later = append(later, i) // and once more at the end
				}
			} else {
				later = append(later, i)
			}
		}
		if len(later) == 1 && later[0] == k-1 {
			later = append(later, 0)
		}
		for i := len(later) - 1; i > 0; i-- {
			j := r.Intn(i + 1)
			later[i], later[j] = later[j], later[i]
		}
		for _, i := range later {
			ev = append(ev, relayEv{'A', i})
		}
	default: // "interleaved": any order in which no answer precedes its datagram
		arrived, nAns := 0, r.Range(k, 2*k)
		for arrived < k || nAns > 0 {
			if arrived < k && (arrived == 0 || nAns == 0 || r.Chance(1, 2)) {
				ev = append(ev, relayEv{'D', arrived})
				arrived++
			} else {
				ev = append(ev, relayEv{'A', r.Intn(arrived)})
				nAns--
			}
		}
	}
	return ev
}

// lateAnswers: how many answers are written when a later datagram has already arrived.
func lateAnswers(ev []relayEv) int {
	arrived, n := 0, 0
	for _, e := range ev {
		switch e.k {
		case 'D':
			arrived++
		case 'A':
			if e.i >= arrived {
				hx.Fatal("udp-relay: answer to datagram %d before it arrived", e.i)
			}
			if e.i < arrived-1 {
				n++
			}
		}
	}
	return n
}

// relayScript turns a schedule into actions.  ntcp TCP virtual connections are announced
// first; with ntcp > 0 their traffic is interleaved.
func relayScript(r *hx.Rand, ps []cpair, ev []relayEv, ntcp int, tag string) []Action {
	var acts []Action
	serial := 0
	var tcps []cpair
	for c := 0; c < ntcp; c++ {
		// the TCP connections share addresses with the datagrams: same local ip and port number,
		// same client - only the protocol differs
		p := cpair{tcp(ps[c%len(ps)].l.IP, ps[c%len(ps)].l.Port), tcp(ps[c%len(ps)].r.IP, ps[c%len(ps)].r.Port)}
		tcps = append(tcps, p)
		acts = append(acts, Action{A: "send", M: &Msg{T: "hello", L: p.l, R: p.r}})
	}
	unread := make([]int, ntcp) // data messages not yet read by the service (a Read with nothing buffered waits for its deadline)
	tcpStep := func() {
		if ntcp == 0 {
			return
		}
		c := r.Intn(ntcp)
		serial++
		k := r.Intn(4)
		if k == 3 && unread[c] == 0 {
			k = 0
		}
		switch k {
		case 0, 1:
			acts = append(acts, Action{A: "send", M: &Msg{T: "data", L: tcps[c].l, R: tcps[c].r,
				P: litPay([]byte(fmt.Sprintf("<%s tcp%d data #%d>", tag, c, serial)))}})
			unread[c]++
		case 2:
			acts = append(acts, Action{A: "write", C: c, P: litPay([]byte(fmt.Sprintf("<%s tcp%d write #%d>", tag, c, serial)))})
		default:
			acts = append(acts, Action{A: "read", C: c, N: 4096})
			unread[c] = 0
		}
	}
	for _, e := range ev {
		if r.Chance(1, 2) {
			tcpStep()
		}
		serial++
		switch e.k {
		case 'D':
			q := []byte(fmt.Sprintf("<%s query of datagram %d>", tag, e.i))
			if r.Chance(1, 6) {
				q = append(q, genPay(r, r.PickInt([]int{100, 512, 1400})).Bytes()...)
			}
			acts = append(acts, Action{A: "send", M: &Msg{T: "udp", L: ps[e.i].l, R: ps[e.i].r, P: litPay(q)}})
		case 'A':
			a := []byte(fmt.Sprintf("<%s answer to datagram %d #%d>", tag, e.i, serial))
			if r.Chance(1, 6) {
				a = append(a, genPay(r, r.PickInt([]int{60, 512, 1400})).Bytes()...)
			}
			acts = append(acts, Action{A: "udpw", C: e.i, P: litPay(a)})
		}
	}
	for c := 0; c < ntcp; c++ {
		if r.Bool() {
			tcpStep()
		}
		acts = append(acts, Action{A: "read", C: c, N: 8192})
		if r.Bool() {
			acts = append(acts, Action{A: "send", M: &Msg{T: "eof", L: tcps[c].l, R: tcps[c].r}})
		}
	}
	return acts
}

func relaySessions(r *hx.Rand, tier string, dist map[string]int) []confSession {
	var out []confSession
	add := func(ps []cpair, ev []relayEv, ntcp int, mode string) {
		for i := range ps {
			for j := 0; j < i; j++ {
				if pairText(ps[i]) == pairText(ps[j]) {
					hx.Fatal("udp-relay: datagrams %d and %d have the same address pair %s", j, i, pairText(ps[i]))
				}
			}
		}
		tag := fmt.Sprintf("u%d", len(out))
		out = append(out, confSession{"udp-relay", relayScript(r, ps, ev, ntcp, tag)})
		dist["udp-relay:sessions"]++
		dist["udp-relay:sessions-"+mode]++
		dist[fmt.Sprintf("udp-relay:sessions-with-%d-datagrams", len(ps))]++
		if ntcp > 0 {
			dist["udp-relay:sessions-with-tcp-connections"]++
		}
		for _, e := range ev {
			if e.k == 'A' {
				dist["udp-relay:answers"]++
			}
		}
		dist["udp-relay:answers-after-a-later-datagram"] += lateAnswers(ev)
	}
	// corpus: three datagrams (two on the same sensor address, one IPv6), all three held by the
	// services, answered last one first; then the smallest history: two datagrams, the first
	// answered after the second has arrived (in order, and in reverse)
	a := cpair{udpA([]byte{10, 0, 0, 5}, 53), udpA([]byte{198, 51, 100, 1}, 40001)}
	b := cpair{udpA([]byte{10, 0, 0, 5}, 123), udpA([]byte{203, 0, 113, 2}, 40002)}
	c := cpair{udpA(relayLocal6[0], 161), udpA(relayRemote6[0], 40003)}
	add([]cpair{a, b, c}, relaySchedule(r, 3, "reverse"), 0, "reverse")
	add([]cpair{a, b}, relaySchedule(r, 2, "in-order"), 0, "in-order")
	add([]cpair{a, b}, relaySchedule(r, 2, "reverse"), 0, "reverse")
	// same local port for two clients (the usual case: one DNS service, two clients), same client to two ports
	a2 := cpair{a.l, udpA([]byte{203, 0, 113, 2}, 40001)}
	add([]cpair{a, a2}, relaySchedule(r, 2, "reverse"), 1, "reverse")
	b2 := cpair{b.l, a.r}
	add([]cpair{a, b2, c}, relaySchedule(r, 3, "permuted"), 0, "permuted")

	modes := []string{"in-order", "reverse", "permuted", "twice-and-never", "some-at-once", "interleaved"}
	rounds := 1
	switch tier {
	case "thorough":
		rounds = 10
	case "search":
		rounds = 4
	}
	for round := 0; round < rounds; round++ {
		for k := 2; k <= 6; k++ {
			for mi, mode := range modes {
				ntcp := 0
				if (k+mi+round)%3 == 0 {
					ntcp = r.Range(1, 2)
				}
				add(relayPairs(r, k, dist), relaySchedule(r, k, mode), ntcp, mode)
			}
		}
	}
	return out
}
