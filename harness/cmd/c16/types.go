// C16 harness - message/address types shared by the codec and the session part, their
// conversion from/to the real types of listener/agent, and their Gallina rendering.
package main

import (
	"encoding"
	"fmt"
	"net"
	"strings"

	"github.com/honeytrap/honeytrap/listener/agent"
	"verif/harness/hx"
)

// ---- byte strings ----

// Pay is a payload: either literal bytes or the pattern b[i] = (S+i) mod 251, N bytes.
type Pay struct {
	Lit hx.B `json:"lit,omitempty"`
	S   int  `json:"s,omitempty"`
	N   int  `json:"n,omitempty"`
}

func (p Pay) Bytes() []byte {
	if p.N == 0 {
		return []byte(p.Lit)
	}
	b := make([]byte, p.N)
	for i := range b {
		b[i] = byte((p.S + i) % 251)
	}
	return b
}

func genPay(r *hx.Rand, n int) Pay {
	if n <= 48 {
		return Pay{Lit: hx.B(r.Bytes(n))}
	}
	return Pay{S: r.Intn(251), N: n}
}

// coqB renders a byte string as a Gallina term of type bytes.  Long strings are
// written as a list of segments (pattern run / zero run / literal) expanded by
// Check.X; the rendering is exact (checked here by re-expansion).
func coqB(b []byte) string {
	if len(b) <= 24 {
		return hx.CoqBytes(b)
	}
	type seg struct {
		kind byte // 'g' 'z' 'l'
		s, n int
		lit  []byte
	}
	var segs []seg
	var lit []byte
	flush := func() {
		if len(lit) > 0 {
			segs = append(segs, seg{kind: 'l', lit: lit})
			lit = nil
		}
	}
	i := 0
	for i < len(b) {
		// zero run
		z := 0
		for i+z < len(b) && b[i+z] == 0 {
			z++
		}
		// pattern run
		g := 0
		if b[i] < 251 {
			g = 1
			for i+g < len(b) && int(b[i+g]) == (int(b[i+g-1])+1)%251 {
				g++
			}
		}
		switch {
		case g >= 8 && g >= z:
			flush()
			segs = append(segs, seg{kind: 'g', s: int(b[i]), n: g})
			i += g
		case z >= 8:
			flush()
			segs = append(segs, seg{kind: 'z', n: z})
			i += z
		default:
			lit = append(lit, b[i])
			i++
			if len(lit) >= 400 {
				flush()
			}
		}
	}
	flush()
	// verify
	var back []byte
	var parts []string
	for _, s := range segs {
		switch s.kind {
		case 'g':
			for k := 0; k < s.n; k++ {
				back = append(back, byte((s.s+k)%251))
			}
			parts = append(parts, fmt.Sprintf("SG %d %d", s.s, s.n))
		case 'z':
			back = append(back, make([]byte, s.n)...)
			parts = append(parts, fmt.Sprintf("SZ %d", s.n))
		default:
			back = append(back, s.lit...)
			parts = append(parts, "SL "+hx.CoqBytes(s.lit))
		}
	}
	if string(back) != string(b) {
		hx.Fatal("segment encoding is not exact")
	}
	return "(X [" + strings.Join(parts, "; ") + "]%N)"
}

// ---- addresses ----

type Addr struct {
	Kind string `json:"kind"` // tcp | udp | nil
	IP   hx.B   `json:"ip,omitempty"`
	Port int    `json:"port"`
}

func (a Addr) Net() net.Addr {
	var ip net.IP
	if len(a.IP) > 0 {
		ip = net.IP(append([]byte(nil), a.IP...))
	}
	switch a.Kind {
	case "tcp":
		return &net.TCPAddr{IP: ip, Port: a.Port}
	case "udp":
		return &net.UDPAddr{IP: ip, Port: a.Port}
	}
	return nil
}

func fromNet(a net.Addr) Addr {
	switch x := a.(type) {
	case *net.TCPAddr:
		if x != nil {
			return Addr{Kind: "tcp", IP: hx.B(x.IP), Port: x.Port}
		}
	case *net.UDPAddr:
		if x != nil {
			return Addr{Kind: "udp", IP: hx.B(x.IP), Port: x.Port}
		}
	}
	return Addr{Kind: "nil"}
}

func (a Addr) Coq() string {
	switch a.Kind {
	case "tcp":
		return fmt.Sprintf("(ATcp %s %s)", coqB(a.IP), hx.CoqZ(int64(a.Port)))
	case "udp":
		return fmt.Sprintf("(AUdp %s %s)", coqB(a.IP), hx.CoqZ(int64(a.Port)))
	}
	return "ANil"
}

// ---- messages ----

type Msg struct {
	T      string `json:"t"` // hello data handshake hsresp eof ping udp
	L      *Addr  `json:"l,omitempty"`
	R      *Addr  `json:"r,omitempty"`
	P      *Pay   `json:"p,omitempty"`
	PV     int    `json:"pv,omitempty"`
	Strs   []Pay  `json:"strs,omitempty"` // version, short commit id, commit id, token
	Addrs  []Addr `json:"addrs,omitempty"`
	obsPay []byte // payload as observed (decoded messages)
}

var typeCode = map[string]int{"hello": 0, "data": 1, "handshake": 2, "hsresp": 3, "eof": 4, "ping": 5, "udp": 6}

func (m Msg) pay() []byte {
	if m.obsPay != nil {
		return m.obsPay
	}
	if m.P != nil {
		return m.P.Bytes()
	}
	return nil
}

func (m Msg) Coq() string {
	switch m.T {
	case "hello":
		return fmt.Sprintf("(MHello %s %s)", m.L.Coq(), m.R.Coq())
	case "eof":
		return fmt.Sprintf("(MEof %s %s)", m.L.Coq(), m.R.Coq())
	case "data":
		return fmt.Sprintf("(MData %s %s %s)", m.L.Coq(), m.R.Coq(), coqB(m.pay()))
	case "udp":
		return fmt.Sprintf("(MUdp %s %s %s)", m.L.Coq(), m.R.Coq(), coqB(m.pay()))
	case "handshake":
		s := m.Strs
		return fmt.Sprintf("(MHandshake %s %s %s %s %s)", hx.CoqZ(int64(m.PV)), coqB(s[0].Bytes()), coqB(s[1].Bytes()), coqB(s[2].Bytes()), coqB(s[3].Bytes()))
	case "hsresp":
		var as []string
		for _, a := range m.Addrs {
			as = append(as, a.Coq())
		}
		return "(MHsResp " + hx.CoqList(as, "addr") + ")"
	}
	return "MPing"
}

// Real builds the value of the real message type (as passed to conn2.send).
func (m Msg) Real() encoding.BinaryMarshaler {
	switch m.T {
	case "hello":
		return agent.Hello{Laddr: m.L.Net(), Raddr: m.R.Net()}
	case "eof":
		return agent.EOF{Laddr: m.L.Net(), Raddr: m.R.Net()}
	case "data":
		return agent.ReadWriteTCP{Laddr: m.L.Net(), Raddr: m.R.Net(), Payload: m.pay()}
	case "udp":
		return agent.ReadWriteUDP{Laddr: m.L.Net(), Raddr: m.R.Net(), Payload: m.pay()}
	case "handshake":
		s := m.Strs
		return agent.Handshake{ProtocolVersion: m.PV, Version: string(s[0].Bytes()), ShortCommitID: string(s[1].Bytes()),
			CommitID: string(s[2].Bytes()), Token: string(s[3].Bytes())}
	case "hsresp":
		var as []net.Addr
		for _, a := range m.Addrs {
			as = append(as, a.Net())
		}
		return agent.HandshakeResponse{Addresses: as}
	}
	return agent.Ping{}
}

// decodeReal runs the real UnmarshalBinary for message type ty on data.
func decodeReal(ty int, data []byte) (m Msg, crash string) {
	defer func() {
		if e := recover(); e != nil {
			crash = fmt.Sprintf("UnmarshalBinary(type %d) panicked: %v", ty, e)
		}
	}()
	ap := func(a net.Addr) *Addr { x := fromNet(a); return &x }
	nz := func(b []byte) []byte {
		if b == nil {
			return []byte{}
		}
		return b
	}
	lit := func(s string) Pay { return Pay{Lit: hx.B(s)} }
	var err error
	switch ty {
	case 0:
		o := &agent.Hello{}
		err = o.UnmarshalBinary(data)
		m = Msg{T: "hello", L: ap(o.Laddr), R: ap(o.Raddr)}
	case 1:
		o := &agent.ReadWriteTCP{}
		err = o.UnmarshalBinary(data)
		m = Msg{T: "data", L: ap(o.Laddr), R: ap(o.Raddr), obsPay: nz(o.Payload)}
	case 2:
		o := &agent.Handshake{}
		err = o.UnmarshalBinary(data)
		m = Msg{T: "handshake", PV: o.ProtocolVersion, Strs: []Pay{lit(o.Version), lit(o.ShortCommitID), lit(o.CommitID), lit(o.Token)}}
	case 3:
		o := &agent.HandshakeResponse{}
		err = o.UnmarshalBinary(data)
		m = Msg{T: "hsresp"}
		for _, a := range o.Addresses {
			m.Addrs = append(m.Addrs, fromNet(a))
		}
	case 4:
		o := &agent.EOF{}
		err = o.UnmarshalBinary(data)
		m = Msg{T: "eof", L: ap(o.Laddr), R: ap(o.Raddr)}
	case 5:
		o := &agent.Ping{}
		err = o.UnmarshalBinary(data)
		m = Msg{T: "ping"}
	case 6:
		o := &agent.ReadWriteUDP{}
		err = o.UnmarshalBinary(data)
		m = Msg{T: "udp", L: ap(o.Laddr), R: ap(o.Raddr), obsPay: nz(o.Payload)}
	default:
		hx.Fatal("decodeReal: type %d", ty)
	}
	if err != nil {
		crash = fmt.Sprintf("UnmarshalBinary(type %d) returned error %v", ty, err)
	}
	return
}

// obsJSON is a compact description of a decoded message for the evidence files.
func (m Msg) obsJSON() map[string]interface{} {
	o := map[string]interface{}{"t": m.T}
	if m.L != nil {
		o["l"] = *m.L
	}
	if m.R != nil {
		o["r"] = *m.R
	}
	if p := m.pay(); p != nil || m.T == "data" || m.T == "udp" {
		o["payload_len"] = len(p)
		if len(p) <= 64 {
			o["payload"] = hx.B(p)
		}
	}
	if m.T == "handshake" {
		o["pv"] = m.PV
		var ls []int
		for _, s := range m.Strs {
			ls = append(ls, len(s.Bytes()))
		}
		o["str_lens"] = ls
	}
	if m.T == "hsresp" {
		o["addrs"] = len(m.Addrs)
	}
	return o
}
