// C07 harness: the rotating log file of the "file" channel.
//
// Kind "write": fschannel.OpenRotateFile + Write driven directly with generated batches of
// newline-terminated JSON lines (lengths around the rotation boundary), with waits for the
// next wall-clock second, outside remove / rename of the log file, its directory renamed away
// (or replaced by a regular file) and restored, and restarts in between.
// Kind "chan": the registered "file" channel (pushers.Get("file") + toml configuration) end
// to end with Send, bursts separated by the idle flush; the same destination faults hit the
// quiescent channel between bursts; events the JSON encoder rejects are mixed into the bursts.
//
// The wall-clock second is observed before and after every call that may rotate; a case in
// which the two differ is run again.  Seconds are reported relative to the start of the case.
// Observed: bytes of <file>, of every <file>.<timestamp>, of files renamed away, what Write
// returned, whether Send returned.
package main

import (
	"bytes"
	"encoding/json"
	"fmt"
	"io/ioutil"
	"math"
	"os"
	"path/filepath"
	"sort"
	"strconv"
	"strings"
	"sync"
	"sync/atomic"
	"time"

	"github.com/BurntSushi/toml"
	"github.com/honeytrap/honeytrap/event"
	"github.com/honeytrap/honeytrap/pushers"
	fschannel "github.com/honeytrap/honeytrap/pushers/file"
	logging "github.com/op/go-logging"
	"verif/harness/hx"
)

// ---- inputs ----

type Op struct {
	// w write, t wait for the next second, rm remove, mv rename away, re restart,
	// da directory of the log renamed away, df the same and a regular file put in its place, db restored
	K    string `json:"k"`
	Lens []int  `json:"lens,omitempty"` // w: total length of each line, newline included
}

type WIn struct {
	// Name: base name of the log file ("" = log); Deep: extra directory levels below the
	// directory that the outage operations move
	Name string `json:"name,omitempty"`
	Deep int    `json:"deep,omitempty"`
	Max  int64  `json:"max"`
	Init []int  `json:"init,omitempty"` // lines already in the file
	Ops  []Op   `json:"ops"`
}

type CIn struct {
	Name     string `json:"name,omitempty"` // as for the direct cases
	Deep     int    `json:"deep,omitempty"`
	Max      int64  `json:"max"`
	Openable bool   `json:"openable"`
	Init     []int  `json:"init,omitempty"`
	// per burst: target length of each encoded event; -1/-2/-3 = an event the encoder rejects
	// (NaN float / chan / func value)
	Bursts [][]int `json:"bursts"`
	// per burst (may be shorter): the fault that hits the quiescent channel before the burst
	// ("" none, rm, mv, da, df, db as for the direct cases)
	Faults []string `json:"faults,omitempty"`
	// Big: one burst of more than 500 KiB without idle gap (the size flush fires during the burst
	// and may rotate hundreds of times): the second of each rotation is read off the file names
	Big bool `json:"big,omitempty"`
}

type Input struct {
	W *WIn `json:"w,omitempty"`
	C *CIn `json:"c,omitempty"`
}

// ---- observations ----

type RotObs struct {
	Sec  int64  `json:"sec"`
	K    int    `json:"k"` // <file>.<ts>.<k>; 0 = no suffix
	Len  int    `json:"len"`
	Head string `json:"head"` // first bytes, for the reader of a replay file
	data []byte
}

type Obs struct {
	Secs    []int64  `json:"secs"` // second observed per op (w/re) resp. per burst (send, idle)
	Sec0    int64    `json:"sec0"`
	Rets    []int    `json:"rets,omitempty"`
	Errs    []string `json:"errs,omitempty"`
	Exists  bool     `json:"exists"`
	CurLen  int      `json:"cur_len"`
	CurHead string   `json:"cur_head"`
	Rot     []RotObs `json:"rot"`
	Moved   []int    `json:"moved,omitempty"`
	Gone    []int    `json:"gone,omitempty"`
	Blocked bool     `json:"blocked,omitempty"`
	NewErr  bool     `json:"new_err,omitempty"`  // New returned an error: no channel, nothing to Send on
	LogErrs int      `json:"log_errs,omitempty"` // "Failed to copy data" lines of the writer for this path
	cur     []byte
	moved   [][]byte
	gone    [][]byte
}

const tsLayout = "20060102150405"

// dest is the scratch layout of one case: root/d/log (+ rotated siblings), files renamed away go
// to root/moved-<k>, the directory itself to root/d.away while it is "unreachable".
type dest struct {
	root, ldir, path string
	away, blocker    bool
	nmoved           int
}

func newDest(root, name string, deep int) *dest {
	d := &dest{root: root, ldir: filepath.Join(root, "d")}
	if name == "" {
		name = "log"
	}
	sub := d.ldir
	for i := 0; i < deep; i++ {
		sub = filepath.Join(sub, fmt.Sprintf("lvl %d.\u00e9", i)) // space, dot, non-ASCII
	}
	d.path = filepath.Join(sub, name)
	if err := os.MkdirAll(sub, 0o755); err != nil {
		hx.Fatal("mkdir: %v", err)
	}
	return d
}

func nameLen(name string) int {
	if name == "" {
		return 3
	}
	return len(name)
}

// fault applies one outside operation; ob collects what the harness itself took away.
func (d *dest) fault(k string, ob *Obs) {
	switch k {
	case "rm":
		if b, err := ioutil.ReadFile(d.path); err == nil {
			if os.Remove(d.path) == nil {
				ob.gone = append(ob.gone, b)
				ob.Gone = append(ob.Gone, len(b))
			}
		}
	case "mv":
		if _, err := os.Stat(d.path); err == nil {
			if os.Rename(d.path, filepath.Join(d.root, fmt.Sprintf("moved-%d", d.nmoved))) == nil {
				d.nmoved++
			}
		}
	case "da", "df":
		if !d.away {
			if err := os.Rename(d.ldir, d.ldir+".away"); err != nil {
				hx.Fatal("rename dir away: %v", err)
			}
			d.away = true
			if k == "df" {
				if err := ioutil.WriteFile(d.ldir, []byte("x"), 0o600); err != nil {
					hx.Fatal("placeholder: %v", err)
				}
				d.blocker = true
			}
		}
	case "db":
		d.restore()
	}
}

func (d *dest) restore() {
	if d.away {
		if d.blocker {
			os.Remove(d.ldir)
			d.blocker = false
		}
		if err := os.Rename(d.ldir+".away", d.ldir); err != nil {
			hx.Fatal("rename dir back: %v", err)
		}
		d.away = false
	}
}

func (d *dest) readMoved(ob *Obs) {
	for i := 0; i < d.nmoved; i++ {
		b, err := ioutil.ReadFile(filepath.Join(d.root, fmt.Sprintf("moved-%d", i)))
		if err != nil {
			hx.Fatal("moved file: %v", err)
		}
		ob.moved = append(ob.moved, b)
		ob.Moved = append(ob.Moved, len(b))
	}
}

// ---- the implementation's log output: "Failed to copy data to File" names the path ----

type logTap struct {
	mu   sync.Mutex
	msgs []string
}

func (t *logTap) Log(l logging.Level, depth int, r *logging.Record) error {
	m := r.Message()
	t.mu.Lock()
	t.msgs = append(t.msgs, m)
	t.mu.Unlock()
	return nil
}

// count of write errors logged for a path
func (t *logTap) failures(path string) int {
	t.mu.Lock()
	defer t.mu.Unlock()
	n := 0
	q := strings.Trim(strconv.QuoteToASCII(path), "\"") // the message quotes the error with %+q
	for _, m := range t.msgs {
		if strings.Contains(m, "Failed to copy data") && (strings.Contains(m, path) || strings.Contains(m, q)) {
			n++
		}
	}
	return n
}

var tap = &logTap{}

// line number id of total length n (newline included) as the direct cases write it
func mkLine(id, n int) []byte {
	base := len(fmt.Sprintf(`{"i":%d,"p":""}`, id)) + 1
	fill := n - base
	if fill < 0 {
		fill = 0
	}
	return []byte(fmt.Sprintf(`{"i":%d,"p":"%s"}`+"\n", id, strings.Repeat(string(rune('a'+id%26)), fill)))
}

func evFields(id, n int) (int, string) {
	base := len(fmt.Sprintf(`{"date":"d","i":%d,"p":""}`, id)) + 1
	fill := n - base
	if fill < 0 {
		fill = 0
	}
	return id, strings.Repeat(string(rune('a'+id%26)), fill)
}

func head(b []byte) string {
	if len(b) > 24 {
		return string(b[:24])
	}
	return string(b)
}

func readRot(path string, base int64) ([]RotObs, error) {
	m, _ := filepath.Glob(path + ".*")
	var out []RotObs
	for _, f := range m {
		ts := strings.TrimPrefix(f, path+".")
		k := 0
		if i := strings.IndexByte(ts, '.'); i >= 0 {
			n, err := strconv.Atoi(ts[i+1:])
			if err != nil || n < 1 || strconv.Itoa(n) != ts[i+1:] {
				return nil, fmt.Errorf("rotated file with unexpected name %q", filepath.Base(f))
			}
			k, ts = n, ts[:i]
		}
		t, err := time.ParseInLocation(tsLayout, ts, time.Local)
		if err != nil {
			return nil, fmt.Errorf("rotated file with unexpected name %q", filepath.Base(f))
		}
		b, err := ioutil.ReadFile(f)
		if err != nil {
			return nil, err
		}
		out = append(out, RotObs{Sec: t.Unix() - base, K: k, Len: len(b), Head: head(b), data: b})
	}
	sort.Slice(out, func(i, j int) bool {
		return out[i].Sec < out[j].Sec || (out[i].Sec == out[j].Sec && out[i].K < out[j].K)
	})
	return out, nil
}

func waitNextSecond() {
	now := time.Now()
	next := now.Truncate(time.Second).Add(time.Second + 3*time.Millisecond)
	time.Sleep(next.Sub(now))
}

// ---- kind "write" ----

type rotFile interface {
	Write([]byte) (int, error)
	Close() error
}

// runW returns ambiguous=true when a clock reading straddled a second boundary.
func runW(in WIn, dir string) (ob Obs, batches [][]byte, initB []byte, crash string, ambiguous bool) {
	os.RemoveAll(dir)
	dst := newDest(dir, in.Name, in.Deep)
	path := dst.path
	id := 0
	for _, n := range in.Init {
		initB = append(initB, mkLine(id, n)...)
		id++
	}
	if len(in.Init) > 0 {
		if err := ioutil.WriteFile(path, initB, 0o600); err != nil {
			hx.Fatal("init: %v", err)
		}
	}
	defer func() {
		if r := recover(); r != nil {
			crash = fmt.Sprintf("panic: %v", r)
		}
	}()
	// stay clear of the end of a second at the start
	if time.Now().Nanosecond() > 900e6 {
		waitNextSecond()
	}
	base := time.Now().Unix()
	var rf rotFile
	open := func() bool {
		s1 := time.Now().Unix()
		f, err := fschannel.OpenRotateFile(path, 0o600, in.Max)
		s2 := time.Now().Unix()
		if err != nil {
			crash = "OpenRotateFile: " + err.Error()
			return false
		}
		rf = f
		if s1 != s2 {
			ambiguous = true
			return false
		}
		ob.Secs = append(ob.Secs, s1-base)
		return true
	}
	if !open() {
		return
	}
	ob.Sec0 = ob.Secs[0]
	ob.Secs = nil
	for _, o := range in.Ops {
		switch o.K {
		case "t":
			waitNextSecond()
		case "w":
			var p []byte
			for _, n := range o.Lens {
				p = append(p, mkLine(id, n)...)
				id++
			}
			batches = append(batches, p)
			s1 := time.Now().Unix()
			var n int
			var err error
			done := make(chan struct{})
			go func() {
				defer func() {
					if r := recover(); r != nil {
						err = fmt.Errorf("panic: %v", r)
						crash = err.Error()
					}
					close(done)
				}()
				n, err = rf.Write(append([]byte(nil), p...))
			}()
			select {
			case <-done:
			case <-time.After(patience):
				crash = "Write did not return within the deadline"
				dst.restore()
				return
			}
			if crash != "" {
				dst.restore()
				return
			}
			s2 := time.Now().Unix()
			if s1 != s2 {
				ambiguous = true
				rf.Close()
				dst.restore()
				return
			}
			ob.Secs = append(ob.Secs, s1-base)
			ob.Rets = append(ob.Rets, n)
			e := ""
			if err != nil {
				e = "error"
			}
			ob.Errs = append(ob.Errs, e)
		case "rm", "mv", "da", "df", "db":
			dst.fault(o.K, &ob)
		case "re":
			if dst.away {
				break // no writer can be started while the directory is unreachable
			}
			rf.Close()
			if !open() {
				return
			}
		}
	}
	rf.Close()
	dst.restore()
	if b, err := ioutil.ReadFile(path); err == nil {
		ob.Exists = true
		ob.cur = b
	}
	ob.CurLen, ob.CurHead = len(ob.cur), head(ob.cur)
	dst.readMoved(&ob)
	rot, err := readRot(path, base)
	if err != nil {
		crash = err.Error()
		return
	}
	ob.Rot = rot
	return
}

// ---- Coq rendering ----

// hexTerm renders n in base 16 with the constructors Q0..QF of Check.v, most significant digit
// outermost: 0x17b = Q1 (Q7 (QB Qz)).
func hexTerm(n int) string {
	if n == 0 {
		return "Qz"
	}
	h := strings.ToUpper(strconv.FormatInt(int64(n), 16))
	var sb strings.Builder
	for i := 0; i < len(h); i++ {
		sb.WriteString("(Q")
		sb.WriteByte(h[i])
		sb.WriteByte(' ')
	}
	sb.WriteString("Qz")
	sb.WriteString(strings.Repeat(")", len(h)))
	return sb.String()
}

// dict mirrors DICT in Check.v: an item with count 0 refers to entry number b.
var dict = [][]byte{
	[]byte(`{"date":"d","i":`),
	[]byte(`,"p":"`),
	[]byte("\"}\n"),
	[]byte(`{"i":`),
}

func coqRLE(b []byte) string {
	if len(b) == 0 {
		return "(@nil hx)"
	}
	// item = byte + 256*count (a run) or, with count 0, a dictionary entry
	var runs []string
	for i := 0; i < len(b); {
		hit := -1
		for k, d := range dict {
			if b[i] == d[0] && bytes.HasPrefix(b[i:], d) {
				hit = k
				break
			}
		}
		if hit >= 0 {
			runs = append(runs, hexTerm(hit))
			i += len(dict[hit])
			continue
		}
		j := i
		for j < len(b) && b[j] == b[i] {
			j++
		}
		runs = append(runs, hexTerm(int(b[i])+256*(j-i)))
		i = j
	}
	if len(runs) <= 400 {
		return "[" + strings.Join(runs, ";") + "]"
	}
	var parts []string
	for i := 0; i < len(runs); i += 400 {
		j := i + 400
		if j > len(runs) {
			j = len(runs)
		}
		parts = append(parts, "["+strings.Join(runs[i:j], ";")+"]")
	}
	return "(List.concat [" + strings.Join(parts, ";\n ") + "])"
}

func coqRot(rs []RotObs) string {
	var es []string
	for _, r := range rs {
		es = append(es, fmt.Sprintf("(%s, %s, %s)", hx.CoqN(uint64(r.Sec)), hx.CoqN(uint64(r.K)), coqRLE(r.data)))
	}
	return hx.CoqList(es, "(N * N * rle)")
}

func coqRLEs(bs [][]byte) string {
	var es []string
	for _, b := range bs {
		es = append(es, coqRLE(b))
	}
	return hx.CoqList(es, "rle")
}

func coqW(id int, in WIn, ob Obs, batches [][]byte, initB []byte) string {
	var ops []string
	wi, si := 0, 0
	away := false
	for _, o := range in.Ops {
		switch o.K {
		case "w":
			ops = append(ops, fmt.Sprintf("CWrite %s %s", hx.CoqN(uint64(ob.Secs[si])), coqRLE(batches[wi])))
			wi++
			si++
		case "rm":
			ops = append(ops, "CRemove")
		case "mv":
			ops = append(ops, "CMove")
		case "da", "df":
			ops = append(ops, "CDirAway")
			away = true
		case "db":
			ops = append(ops, "CDirBack")
			away = false
		case "re":
			if away { // not performed (no writer can be started); the model does nothing either
				ops = append(ops, "CReopen 0%N")
				break
			}
			ops = append(ops, fmt.Sprintf("CReopen %s", hx.CoqN(uint64(ob.Secs[si]))))
			si++
		}
	}
	var rets []string
	for i, n := range ob.Rets {
		rets = append(rets, fmt.Sprintf("(%s, %s)", hx.CoqZ(int64(n)), hx.CoqBool(ob.Errs[i] == "")))
	}
	return fmt.Sprintf("CW (mkW %s %s %s %s %s %s %s %s %s %s %s %s)", hx.CoqN(uint64(id)), hx.CoqZ(in.Max), hx.CoqZ(int64(nameLen(in.Name))), hx.CoqN(uint64(ob.Sec0)),
		coqRLE(initB), hx.CoqList(ops, "cop"), hx.CoqList(rets, "(Z * bool)"), hx.CoqBool(ob.Exists), coqRLE(ob.cur),
		coqRot(ob.Rot), coqRLEs(ob.moved), coqRLEs(ob.gone))
}

// ---- kind "chan" ----

type tomlCfg struct {
	C toml.Primitive `toml:"c"`
}

func sendTimeout(ch pushers.Channel, evs []event.Event, d time.Duration) bool {
	done := make(chan struct{})
	go func() {
		for _, e := range evs {
			ch.Send(e)
		}
		close(done)
	}()
	select {
	case <-done:
		return true
	case <-time.After(d):
		return false
	}
}

type snap struct {
	size int64
	mod  time.Time
	nrot int
}

func takeSnap(path string) snap {
	var s snap
	if fi, err := os.Stat(path); err == nil {
		s.size, s.mod = fi.Size(), fi.ModTime()
	} else {
		s.size = -1
	}
	m, _ := filepath.Glob(path + ".*")
	s.nrot = len(m)
	return s
}

// quiesce waits until the destination and its rotated siblings have not changed for `still`
// (at most `max`) and returns the time of the last change seen (or the call time if none).
func quiesce(path string, still, max time.Duration) time.Time {
	last, lastChange, lastSeen := takeSnap(path), time.Now(), time.Now()
	changed := false
	deadline := time.Now().Add(max)
	for time.Now().Before(deadline) && time.Since(lastSeen) < still {
		time.Sleep(2 * time.Millisecond)
		if sn := takeSnap(path); sn != last {
			last, lastSeen, changed = sn, time.Now(), true
			lastChange = lastSeen
		}
	}
	_ = changed
	return lastChange
}

// writtenSince returns the latest modification time among the destination and its rotated
// siblings that were written at or after t0, how many there are, and whether their
// modification times fall into more than one second.
func writtenSince(path string, t0 time.Time) (latest time.Time, n int, spread bool) {
	files, _ := filepath.Glob(path + ".*")
	files = append(files, path)
	t0 = t0.Add(-8 * time.Millisecond) // file times come from the coarse kernel clock
	for _, f := range files {
		fi, err := os.Stat(f)
		if err != nil || fi.ModTime().Before(t0) {
			continue
		}
		if n > 0 && fi.ModTime().Unix() != latest.Unix() {
			spread = true
		}
		if fi.ModTime().After(latest) {
			latest = fi.ModTime()
		}
		n++
	}
	return
}

// alignSecond sleeps until the wall clock is in the first part of a second.
func alignSecond() {
	ns := time.Now().Nanosecond()
	if ns < 20e6 || ns > 250e6 {
		now := time.Now()
		time.Sleep(now.Truncate(time.Second).Add(time.Second + 40*time.Millisecond).Sub(now))
	}
}

// tomlQuote: a TOML basic string; UTF-8 goes in as it is.
func tomlQuote(s string) string {
	var sb strings.Builder
	sb.WriteByte('"')
	for _, r := range s {
		switch {
		case r == '"' || r == '\\':
			sb.WriteByte('\\')
			sb.WriteRune(r)
		case r < 0x20 || r == 0x7f:
			fmt.Fprintf(&sb, "\\u%04X", r)
		default:
			sb.WriteRune(r)
		}
	}
	sb.WriteByte('"')
	return sb.String()
}

// badValue: something encoding/json refuses to marshal.
func badValue(k int) interface{} {
	switch k {
	case -2:
		return make(chan int)
	case -3:
		return func() {}
	}
	return math.NaN()
}

// waitUntil polls cond every 2 ms up to max; it reports whether cond became true.
func waitUntil(max time.Duration, cond func() bool) bool {
	deadline := time.Now().Add(max)
	for {
		if cond() {
			return true
		}
		if time.Now().After(deadline) {
			return false
		}
		time.Sleep(2 * time.Millisecond)
	}
}

const patience = 30 * time.Second // deadline for things that must happen eventually

func runC(in CIn, dir string) (ob Obs, lines [][][]byte, initB []byte, crash string, ambiguous bool) {
	os.RemoveAll(dir)
	dst := newDest(dir, in.Name, in.Deep)
	path := dst.path
	id := 0
	if !in.Openable {
		// the directory of the log file is a regular file: OpenFile fails whoever runs this
		if err := ioutil.WriteFile(filepath.Join(dir, "blk"), []byte("x"), 0o600); err != nil {
			hx.Fatal("blk: %v", err)
		}
		path = filepath.Join(dir, "blk", "log")
	} else {
		for _, n := range in.Init {
			i, p := evFields(id, n)
			b, _ := json.Marshal(map[string]interface{}{"date": "d", "i": i, "p": p})
			initB = append(initB, append(b, '\n')...)
			id++
		}
		if len(in.Init) > 0 {
			if err := ioutil.WriteFile(path, initB, 0o600); err != nil {
				hx.Fatal("init: %v", err)
			}
		}
	}
	defer func() {
		if r := recover(); r != nil {
			crash = fmt.Sprintf("panic: %v", r)
		}
		dst.restore()
	}()
	var cfg tomlCfg
	md, err := toml.Decode(fmt.Sprintf("[c]\ntype=\"file\"\nfilename=%s\nmaxsize=%d\n", tomlQuote(path), in.Max), &cfg)
	if err != nil {
		hx.Fatal("toml: %v", err)
	}
	fn, ok := pushers.Get("file")
	if !ok {
		hx.Fatal("channel type file is not registered")
	}
	strictName := nameLen(in.Name) <= 200 // then rotation seconds are read off the rotated names
	if !strictName {
		alignSecond()
	}
	base := time.Now().Unix()
	ch, err := fn(pushers.WithConfig(cfg.C, &md))
	if err != nil || ch == nil {
		// no channel was handed out (expected exactly when the destination cannot be opened)
		ob.NewErr = true
		if b, err := ioutil.ReadFile(path); err == nil {
			ob.Exists = true
			ob.cur = b
		}
		ob.CurLen, ob.CurHead = len(ob.cur), head(ob.cur)
		for range in.Bursts {
			lines = append(lines, nil)
		}
		if in.Openable {
			if rot, rerr := readRot(path, base); rerr == nil {
				ob.Rot = rot
			}
		}
		return
	}
	// New opens the destination (rotating a full file) before it returns
	if !strictName && time.Now().Unix() != base {
		ambiguous = true
		return
	}
	ob.Sec0 = 0
	buffered := 0 // bytes the writer holds after the events sent so far (it flushes at 500 KiB)
	for bi, burst := range in.Bursts {
		// the channel is quiescent here (the idle flush of the previous burst has been seen)
		if bi < len(in.Faults) && in.Faults[bi] != "" {
			dst.fault(in.Faults[bi], &ob)
		}
		var evs []event.Event
		var bl [][]byte
		crossed := false
		for _, n := range burst {
			if n < 0 {
				evs = append(evs, event.New(event.Custom("date", "d"), event.Custom("i", id), event.Custom("bad", badValue(n))))
				id++
				bl = append(bl, nil)
				continue
			}
			i, p := evFields(id, n)
			id++
			evs = append(evs, event.New(event.Custom("date", "d"), event.Custom("i", i), event.Custom("p", p)))
			b, _ := json.Marshal(map[string]interface{}{"date": "d", "i": i, "p": p})
			b = append(b, '\n')
			bl = append(bl, b)
			buffered += len(b)
			if buffered >= 500*1024 {
				buffered, crossed = 0, true
			}
		}
		lines = append(lines, bl)
		if in.Big {
			if !sendTimeout(ch, evs, 2*patience) {
				ob.Blocked = true
				break
			}
			// the idle flush of what is left, then nothing changes for 1.5 s
			quiesce(path, 1500*time.Millisecond, 2*patience)
			buffered = 0
			ob.Secs = append(ob.Secs, 0, 0)
			continue
		}
		if nameLen(in.Name) > 200 {
			alignSecond()
		}
		s1 := time.Now().Unix()
		t0 := time.Now()
		nfail := tap.failures(path)
		beforeHidden := takeSnap(filepath.Join(dst.ldir+".away", "log"))
		if !sendTimeout(ch, evs, patience) {
			ob.Blocked = true
			ob.Secs = append(ob.Secs, s1-base, s1-base)
			break
		}
		tdone := time.Now()
		s2 := tdone.Unix()
		before := takeSnap(path) // the idle flush comes a second after the last Send at the earliest
		// more than a second between two Sends would let the idle flush cut the burst in two;
		// a size flush during the burst needs one clock reading
		strict := nameLen(in.Name) <= 200 // then the rotation seconds are read off the rotated names
		if time.Since(t0) > 600*time.Millisecond || (!strict && crossed && s1 != s2) {
			ambiguous = true
			break
		}
		tflush := time.Now()
		switch {
		case buffered == 0:
			// nothing is pending (no encodable event, or the size flush took everything)
		case dst.away:
			// the idle flush must fail: wait until the writer has said so (then the batch is gone)
			// (or, should it write through its old descriptor into the directory that was moved
			// away, until that shows)
			hidden := filepath.Join(dst.ldir+".away", "log")
			if !waitUntil(patience, func() bool { return tap.failures(path) > nfail || takeSnap(hidden) != beforeHidden }) {
				crash = "no flush attempt seen within the deadline while the destination was unreachable"
				return
			}
			quiesce(hidden, 150*time.Millisecond, patience)
		default:
			// wait for the idle flush (one second without a request) to change the destination,
			// let a multi-rotation flush finish, then take the flush's second from the files
			// themselves (modification times of what was written after the last Send returned; a size flush
			// during the burst is older)
			// (bounded by 10 s: should this goroutine have been stalled for a second right after
			// the last Send, the flush is already in the snapshot and nothing more will change)
			// (a flush that fails - a rotation that is impossible - shows in the writer's log)
			waitUntil(10*time.Second, func() bool { return takeSnap(path) != before || tap.failures(path) > nfail })
			quiesce(path, 150*time.Millisecond, patience)
			if ft, n, spread := writtenSince(path, tdone); n > 0 {
				if !strict && (spread || ft.Nanosecond() > 985e6 || ft.Nanosecond() < 15e6) {
					ambiguous = true
				}
				tflush = ft
			}
		}
		if ambiguous {
			break
		}
		buffered = 0
		ob.Secs = append(ob.Secs, s1-base, tflush.Unix()-base)
	}
	if !ob.Blocked {
		if fb, ok := ch.(*fschannel.FileBackend); ok {
			fb.Close()
			quiesce(path, 100*time.Millisecond, patience)
		}
	}
	dst.restore()
	if ambiguous {
		return
	}
	ob.LogErrs = tap.failures(path)
	if b, err := ioutil.ReadFile(path); err == nil {
		ob.Exists = true
		ob.cur = b
	}
	ob.CurLen, ob.CurHead = len(ob.cur), head(ob.cur)
	if in.Openable {
		dst.readMoved(&ob)
		rot, err := readRot(path, base)
		if err != nil {
			crash = err.Error()
			return
		}
		ob.Rot = rot
	}
	return
}

var faultCode = map[string]int{"": 0, "rm": 1, "mv": 2, "da": 3, "df": 3, "db": 4}

func coqOptRLEs(bs [][]byte) string {
	var es []string
	for _, b := range bs {
		if b == nil {
			es = append(es, "None")
		} else {
			es = append(es, "Some "+coqRLE(b))
		}
	}
	return hx.CoqList(es, "(option rle)")
}

func coqC(id int, in CIn, ob Obs, lines [][][]byte, initB []byte) string {
	var bs []string
	for k, bl := range lines {
		s1, s2 := int64(0), int64(0)
		if 2*k+1 < len(ob.Secs) {
			s1, s2 = ob.Secs[2*k], ob.Secs[2*k+1]
		}
		f := 0
		if k < len(in.Faults) {
			f = faultCode[in.Faults[k]]
		}
		bs = append(bs, fmt.Sprintf("(%s, %s, %s, %s)", hx.CoqN(uint64(f)), hx.CoqN(uint64(s1)), hx.CoqN(uint64(s2)), coqOptRLEs(bl)))
	}
	var clock []string
	sec0 := ob.Sec0
	if nameLen(in.Name) <= 200 && len(ob.Rot) > 0 {
		sec0 = ob.Rot[0].Sec // a rotation when the file was opened is the first one; otherwise unused
	}
	if in.Big || nameLen(in.Name) <= 200 {
		// every rotation succeeds (the name fits): the second each one read is in the names
		for _, r := range ob.Rot { // sorted by (second, k) = order of rotation
			clock = append(clock, hx.CoqN(uint64(r.Sec)))
		}
	}
	return fmt.Sprintf("CC (mkC %s %s %s %s %s %s %s %s %s %s %s %s %s %s %s)", hx.CoqN(uint64(id)), hx.CoqZ(in.Max), hx.CoqZ(int64(nameLen(in.Name))), hx.CoqBool(in.Openable),
		hx.CoqN(uint64(sec0)), coqRLE(initB), hx.CoqList(bs, "(N * N * N * list (option rle))"), hx.CoqList(clock, "N"),
		hx.CoqBool(!ob.NewErr), hx.CoqBool(ob.Blocked), coqRLE(ob.cur), coqRot(ob.Rot), coqRLEs(ob.moved), coqRLEs(ob.gone),
		hx.CoqN(uint64(ob.LogErrs)))
}

// ---- generators ----

var maxes = []int64{1024, 1024, 1024, 4096, 4096, 64, 200}

// genW draws a history; [pos] follows the file position an ideal writer would have, to aim
// line lengths at the rotation boundary.
func genW(r *hx.Rand, big bool) WIn {
	in := WIn{Max: maxes[r.Intn(len(maxes))]}
	if big {
		in.Max = 1 << 20
	}
	max := int(in.Max)
	minLen := 16
	pos := 0
	pick := func() int {
		room := max - pos
		var n int
		switch r.Intn(10) {
		case 0, 1, 2:
			n = room + r.PickInt([]int{-2, -1, 0, 0, 1, 1, 2, 3, 17})
		case 3:
			n = max + r.PickInt([]int{-1, 0, 1, 2, 30})
		case 4:
			n = r.PickInt([]int{max / 2, max/2 + 1, max / 3, max - 20})
		default:
			n = r.PickInt([]int{16, 17, 20, 33, 50, 100, 100, 120, 250})
		}
		// a line larger than the whole file is written in one piece (one rotation + fsync each)
		if n > 4*max {
			n = 4 * max
		}
		if n < minLen {
			n = minLen
		}
		if pos+n > max {
			pos = n
			if pos > max {
				pos = 0
			}
		} else {
			pos += n
		}
		return n
	}
	if r.Chance(1, 4) {
		for i, k := 0, r.Range(1, 3); i < k; i++ {
			in.Init = append(in.Init, pick())
		}
		if r.Chance(1, 4) { // a file that is exactly full or over: rotated when opened
			in.Init = []int{max / 2, max - max/2 + r.PickInt([]int{0, 0, 1, 20})}
			pos = 0
		}
	}
	nops := r.Range(1, 7)
	away := ""
	if big {
		nops = r.Range(2, 4)
	}
	for i := 0; i < nops; i++ {
		switch x := r.Intn(20); {
		case x < 3 && !big:
			in.Ops = append(in.Ops, Op{K: "t"})
		case x == 3:
			in.Ops = append(in.Ops, Op{K: "rm"})
			pos = 0
		case x == 4:
			in.Ops = append(in.Ops, Op{K: "mv"})
			pos = 0
		case x == 5:
			in.Ops = append(in.Ops, Op{K: "re"})
		case x == 6 && !big:
			// an outage of the directory over the next write(s)
			if away == "" {
				away = r.PickStr([]string{"da", "df"})
				in.Ops = append(in.Ops, Op{K: away})
			} else {
				in.Ops = append(in.Ops, Op{K: "db"})
				away = ""
			}
		}
		o := Op{K: "w"}
		nl := 1
		if r.Chance(1, 2) {
			nl = r.PickInt([]int{2, 3, 5, 8, 12, 30})
		}
		for j := 0; j < nl; j++ {
			o.Lens = append(o.Lens, pick())
		}
		in.Ops = append(in.Ops, o)
	}
	if away != "" {
		// the outage ends and what is written afterwards must be there
		in.Ops = append(in.Ops, Op{K: "db"}, Op{K: "w", Lens: []int{pick(), pick()}})
	}
	return in
}

// genBig: a 1 MiB file filled with batches as the channel produces them (up to ~500 KiB of
// 2000-byte lines per Write), the batch that crosses the boundary aimed at it.
func genBig(r *hx.Rand) WIn {
	const max = 1 << 20
	in := WIn{Max: max}
	pos := 0
	full := func(k int) {
		in.Ops = append(in.Ops, Op{K: "w", Lens: rep(2000, k)})
		pos += 2000 * k
	}
	full(260)
	full(r.PickInt([]int{250, 260, 262}))
	room := max - pos
	var b []int
	switch r.Intn(4) {
	case 0: // one line that does not fit: no newline in the window
		b = []int{room + r.PickInt([]int{1, 2, 50})}
	case 1: // fits exactly / ends exactly one past
		k := room / 2000
		b = append(rep(2000, k), room-2000*k+r.PickInt([]int{0, 1}))
	case 2: // several lines, the boundary inside the last but one
		k := room/2000 + 2
		b = rep(2000, k)
	default: // a line larger than the whole file
		b = []int{2000, max + r.PickInt([]int{1, 2, 3})}
	}
	in.Ops = append(in.Ops, Op{K: "w", Lens: b})
	if r.Chance(1, 2) {
		in.Ops = append(in.Ops, Op{K: "t"})
	}
	in.Ops = append(in.Ops, Op{K: "w", Lens: rep(2000, r.PickInt([]int{1, 40}))})
	return in
}

// all sequences of up to n single-line writes with lengths from set, max 1024
func enumW(set []int, n int) []WIn {
	var out []WIn
	var rec func(prefix []int)
	rec = func(prefix []int) {
		if len(prefix) > 0 {
			in := WIn{Max: 1024}
			for _, l := range prefix {
				in.Ops = append(in.Ops, Op{K: "w", Lens: []int{l}})
			}
			out = append(out, in)
		}
		if len(prefix) == n {
			return
		}
		for _, l := range set {
			rec(append(append([]int(nil), prefix...), l))
		}
	}
	rec(nil)
	return out
}

func genC(r *hx.Rand) CIn {
	in := CIn{Max: int64(r.PickInt([]int{1024, 1024, 4096})), Openable: true}
	nb := r.Range(1, 3)
	for i := 0; i < nb; i++ {
		var b []int
		for j, k := 0, r.PickInt([]int{1, 1, 2, 5, 12, 30}); j < k; j++ {
			b = append(b, r.PickInt([]int{40, 100, 100, 300, 500, int(in.Max) - 1, int(in.Max) + 1}))
		}
		if r.Chance(1, 3) && len(b) < 12 {
			at := r.Intn(len(b) + 1)
			b = append(append(append([]int(nil), b[:at]...), -1-r.Intn(3)), b[at:]...)
		}
		in.Bursts = append(in.Bursts, b)
	}
	if r.Chance(1, 2) {
		in.Faults = make([]string, nb)
		at := r.Intn(nb)
		k := r.PickStr([]string{"rm", "mv", "da", "df"})
		in.Faults[at] = k
		if (k == "da" || k == "df") && at+1 < nb {
			in.Faults[at+1] = "db"
		}
	}
	return in
}

// faultsW: a base history of writes with (1) an outage of the log directory over every window
// [i,j) of the write sequence (0 <= i <= j <= n; the writes inside fail, everything after must be
// there), in the realisations picked by variant, and (2) the file removed / renamed away at every
// position.  all=false keeps a spread of them.
func faultsW(max int64, base [][]int, all bool) []WIn {
	n := len(base)
	var out []WIn
	mk := func(pre map[int][]string) WIn {
		in := WIn{Max: max}
		for i := 0; i <= n; i++ {
			for _, k := range pre[i] {
				in.Ops = append(in.Ops, Op{K: k})
			}
			if i < n {
				in.Ops = append(in.Ops, Op{K: "w", Lens: base[i]})
			}
		}
		return in
	}
	c := 0
	for i := 0; i <= n; i++ {
		for j := i; j <= n; j++ {
			for v, away := range []string{"da", "df"} {
				c++
				if !all && (c+v)%2 == 0 {
					continue
				}
				if i == j {
					out = append(out, mk(map[int][]string{i: {away, "db"}}))
				} else {
					out = append(out, mk(map[int][]string{i: {away}, j: {"db"}}))
				}
			}
		}
		for _, k := range []string{"rm", "mv"} {
			out = append(out, mk(map[int][]string{i: {k}}))
		}
	}
	// combinations: the file goes while the directory is away (nothing happens), a restart
	// right after the directory is back, two outages
	out = append(out, mk(map[int][]string{1: {"da", "rm"}, 2: {"db"}}), mk(map[int][]string{1: {"df"}, 2: {"db", "re"}}),
		mk(map[int][]string{0: {"da"}, 1: {"db"}, 2: {"df"}, 3: {"db", "mv"}}), mk(map[int][]string{1: {"rm", "da"}, 2: {"db"}}))
	return out
}

// faultsC: the same for the channel, between bursts (each burst ends with its idle flush).
func faultsC(max int64, base [][]int, all bool) []CIn {
	n := len(base)
	var out []CIn
	mk := func(f map[int]string) CIn {
		in := CIn{Max: max, Openable: true, Bursts: base, Faults: make([]string, n)}
		for i, k := range f {
			in.Faults[i] = k
		}
		return in
	}
	c := 0
	for i := 0; i < n; i++ {
		for j := i + 1; j <= n; j++ {
			for v, away := range []string{"da", "df"} {
				c++
				if !all && (c+v)%3 != 0 {
					continue
				}
				f := map[int]string{i: away}
				if j < n {
					f[j] = "db"
				}
				out = append(out, mk(f))
			}
		}
		for v, k := range []string{"rm", "mv"} {
			if all || (i+v)%2 == 0 {
				out = append(out, mk(map[int]string{i: k}))
			}
		}
	}
	return out
}

// badC: an event the encoder rejects at every position of a burst that has buffered events
// before and after it; the burst before and the one after are ordinary.
func badC(max int64, burst []int, all bool) []CIn {
	var out []CIn
	for pos := 0; pos <= len(burst); pos++ {
		for kind := -1; kind >= -3; kind-- {
			if !all && (pos+(-kind))%3 != 1 {
				continue
			}
			b := append(append(append([]int(nil), burst[:pos]...), kind), burst[pos:]...)
			out = append(out, CIn{Max: max, Openable: true, Bursts: [][]int{{300}, b, {300}}})
		}
	}
	out = append(out, CIn{Max: max, Openable: true, Bursts: [][]int{{200, -1, -2, 200}, {-3}, {-1, 200}}})
	return out
}

// logNames: base names of the log file: 1 byte, long ones around the point where name +
// ".YYYYMMDDhhmmss" (+ ".<k>") no longer fits into NAME_MAX = 255, spaces / dots / non-ASCII.
func logNames() []string {
	long := func(n int) string { return strings.Repeat("n", n-4) + ".log" }
	return []string{"a", long(200), long(238), long(240), long(241), long(250), long(255),
		"my log .file.json", "\u043b\u043e\u0433 \u30d5\u30a1\u30a4\u30eb.log"}
}

// namesW / namesC: histories that rotate (a newline in the window; none in the window; twice
// within one second; again a second later) under every name, also below nested directories.
func namesW(all bool) []WIn {
	var out []WIn
	for i, n := range logNames() {
		ops := []Op{{K: "w", Lens: []int{300, 300, 300}}, {K: "w", Lens: []int{300, 300}}, {K: "w", Lens: rep(300, 7)},
			{K: "t"}, {K: "w", Lens: []int{300, 300, 300}}, {K: "w", Lens: []int{700}}, {K: "w", Lens: []int{60}}}
		out = append(out, WIn{Name: n, Deep: i % 3, Max: 1024, Ops: ops})
		if all {
			out = append(out, WIn{Name: n, Deep: 4, Max: 4096, Ops: []Op{{K: "w", Lens: rep(1000, 5)}, {K: "rm"}, {K: "w", Lens: rep(1000, 5)},
				{K: "da"}, {K: "w", Lens: []int{100}}, {K: "db"}, {K: "w", Lens: rep(1000, 9)}, {K: "t"}, {K: "w", Lens: []int{5000, 100}}}})
		}
	}
	return out
}

func namesC(all bool) []CIn {
	var out []CIn
	for i, n := range logNames() {
		if !all && (i == 1 || i == 2 || i == 5) {
			continue
		}
		out = append(out, CIn{Name: n, Deep: i % 3, Max: 1024, Openable: true,
			Bursts: [][]int{{300, 300, 300}, {300, 300}, rep(300, 7), {700}}})
		if all {
			out = append(out, CIn{Name: n, Deep: 3, Max: 4096, Openable: true, Init: rep(1000, 4),
				Bursts: [][]int{{1000}, rep(1000, 9), {5000, 100}}, Faults: []string{"", "rm", ""}})
		}
	}
	return out
}

// sizesC: single events around and beyond the 500 KiB flush threshold - after an idle second,
// two back to back, directly behind a size flush caused by small events.
func sizesC(all bool) []CIn {
	kib := 1024
	var out []CIn
	mk := func(max int64, b ...[]int) { out = append(out, CIn{Max: max, Openable: true, Bursts: b}) }
	if !all {
		mk(1<<20, []int{100}, []int{500 * kib})                   // after an idle second, exactly the threshold
		mk(4096, []int{501 * kib, 1024 * kib})                    // back to back
		mk(1<<20, append(rep(2000, 256), 1024*kib), []int{100})   // behind a size flush
		mk(4096, []int{100}, []int{499 * kib}, []int{1000 * kib}) // just below; well above after an idle second
		return out
	}
	sizes := []int{499 * kib, 500 * kib, 501 * kib, 1024 * kib, 1000 * kib}
	for i, n := range sizes {
		for _, max := range []int64{1 << 20, 4096} {
			mk(max, []int{100}, []int{n})                  // after an idle second
			mk(max, []int{n, sizes[(i+1)%len(sizes)]})     // back to back
			mk(max, append(rep(2000, 256), n), []int{100}) // behind a size flush
		}
	}
	return out
}

// bigBurst: one burst without idle gap, the pattern of event lengths repeated up to total bytes
// (more than the 500 KiB flush threshold, so the size flush happens inside the burst).
func bigBurst(max int64, pattern []int, total int) CIn {
	var b []int
	for sum, i := 0, 0; sum < total; i++ {
		n := pattern[i%len(pattern)]
		b = append(b, n)
		sum += n
	}
	return CIn{Max: max, Openable: true, Big: true, Bursts: [][]int{b}}
}

func rep(n, k int) []int {
	out := make([]int, k)
	for i := range out {
		out[i] = n
	}
	return out
}

// ---- main ----

type job struct {
	id int
	in Input
}

var clockRetries int64 // cases run again because a clock reading straddled a second boundary

func inputJSON(in Input) string {
	b, _ := json.Marshal(in)
	if len(b) > 400 {
		b = b[:400]
	}
	return string(b)
}

func runJob(j job, scratch string) hx.Case {
	dir := filepath.Join(scratch, fmt.Sprintf("c%d", j.id))
	defer os.RemoveAll(dir)
	for attempt := 0; ; attempt++ {
		if j.in.W != nil {
			ob, batches, initB, crash, amb := runW(*j.in.W, dir)
			if amb && attempt < 12 {
				atomic.AddInt64(&clockRetries, 1)
				continue
			}
			if amb {
				hx.Fatal("case %d: the clock could not be pinned down in 12 attempts: %s", j.id, inputJSON(j.in))
			}
			c := hx.Case{ID: j.id, Kind: "write", Input: j.in, Obs: ob, Crash: crash}
			if crash == "" {
				c.Coq = coqW(j.id, *j.in.W, ob, batches, initB)
			}
			return c
		}
		ob, lines, initB, crash, amb := runC(*j.in.C, dir)
		if amb && attempt < 12 {
			atomic.AddInt64(&clockRetries, 1)
			continue
		}
		if amb {
			hx.Fatal("case %d: the clock could not be pinned down in 12 attempts: %s", j.id, inputJSON(j.in))
		}
		c := hx.Case{ID: j.id, Kind: "chan", Input: j.in, Obs: ob, Crash: crash}
		if crash == "" {
			c.Coq = coqC(j.id, *j.in.C, ob, lines, initB)
		}
		return c
	}
}

func main() {
	o := hx.ParseArgs()
	logging.SetBackend(tap)
	r := hx.NewRand(o.Seed)
	var ins []Input
	w := func(x WIn) { y := x; ins = append(ins, Input{W: &y}) }
	c := func(x CIn) { y := x; ins = append(ins, Input{C: &y}) }
	if o.Only != "" {
		var in Input
		if err := hx.LoadReplay(o.Only, &in); err != nil {
			panic(err)
		}
		ins = []Input{in}
	} else {
		// corpus
		// no newline inside the remaining window (before the repair the first byte of the second line was dropped)
		w(WIn{Max: 1024, Ops: []Op{{K: "w", Lens: []int{1000}}, {K: "w", Lens: []int{100}}}})
		// file exactly full
		w(WIn{Max: 1024, Ops: []Op{{K: "w", Lens: []int{1024}}, {K: "w", Lens: []int{100}}}})
		// a line larger than max (before the repair: one byte dropped and one rename per iteration)
		w(WIn{Max: 1024, Ops: []Op{{K: "w", Lens: []int{300}}, {K: "w", Lens: []int{1030}}}})
		// two clean rotations within one second (before the repair the first rotated file was replaced)
		w(WIn{Max: 1024, Ops: []Op{{K: "w", Lens: rep(100, 25)}}})
		w(WIn{Max: 1024, Ops: []Op{{K: "w", Lens: rep(100, 15)}, {K: "w", Lens: rep(100, 10)}}})
		// clean: the same two rotations in different seconds; the fitting-exactly split
		w(WIn{Max: 1024, Ops: []Op{{K: "w", Lens: rep(100, 15)}, {K: "t"}, {K: "w", Lens: rep(100, 10)}}})
		w(WIn{Max: 1024, Ops: []Op{{K: "w", Lens: []int{1000}}, {K: "w", Lens: []int{25}}}})
		// outside remove / rename / restart
		w(WIn{Max: 1024, Ops: []Op{{K: "w", Lens: rep(100, 5)}, {K: "rm"}, {K: "w", Lens: rep(100, 3)}, {K: "mv"}, {K: "w", Lens: []int{100}}, {K: "re"}, {K: "w", Lens: []int{100}}}})
		w(WIn{Max: 1024, Init: []int{512, 512}, Ops: []Op{{K: "w", Lens: []int{100}}}})
		// channel: the destination cannot be opened: New must fail (before the repair: Send blocked for ever)
		c(CIn{Max: 1024, Openable: false, Bursts: [][]int{{100}}})
		c(CIn{Max: 4096, Openable: false, Bursts: [][]int{{100, 100}, {300}}})
		// channel: New refuses a maximum size below 1024
		c(CIn{Max: 512, Openable: true, Bursts: [][]int{{100}}})
		// channel: one event per idle flush, the third does not fit any more
		c(CIn{Max: 1024, Openable: true, Bursts: [][]int{{400}, {400}, {400}}})
		// channel: a burst of 3000 bytes into a 1024-byte file: several rotations in one second
		c(CIn{Max: 1024, Openable: true, Bursts: [][]int{rep(100, 30)}})
		// channel, clean: no rotation; one rotation that falls on a newline
		c(CIn{Max: 4096, Openable: true, Bursts: [][]int{rep(100, 12)}})
		c(CIn{Max: 4096, Openable: true, Init: rep(100, 3), Bursts: [][]int{rep(100, 27), rep(100, 20)}})
		// channel: the 500 KiB threshold flush, 1 MiB file
		c(CIn{Max: 1 << 20, Openable: true, Bursts: [][]int{rep(2000, 300)}})

		var nrand, nbig, nchan int
		var set []int
		var depth int
		switch o.Tier {
		case "quick":
			nrand, nbig, nchan, set, depth = 400, 1, 6, []int{100, 512, 924, 925, 1024, 1025}, 3
		case "search":
			nrand, nbig, nchan, set, depth = 1500, 6, 12, []int{100, 512, 924, 925, 1024, 1025}, 4
		default:
			nrand, nbig, nchan, set, depth = 4000, 12, 40, []int{100, 512, 924, 925, 1024, 1025}, 4
		}
		for _, x := range enumW(set, depth) {
			w(x)
		}
		if o.Tier == "thorough" {
			for _, x := range enumW([]int{100, 500, 1000}, 6) {
				if len(x.Ops) > 4 {
					w(x)
				}
			}
		}
		// the 1 MiB cases are spread out so that they land in different shards
		every := nrand / (nbig + 1)
		for i := 0; i < nrand; i++ {
			w(genW(r, false))
			if i%every == every-1 && nbig > 0 {
				w(genBig(r))
				nbig--
			}
		}
		for i := 0; i < nchan; i++ {
			c(genC(r))
		}
		// destination faults at every position of the history, events the encoder rejects at
		// every position of a burst
		all := o.Tier != "quick"
		baseW := [][]int{{300, 300}, {300, 300}, {300}, {300, 300, 300}}
		for _, x := range faultsW(1024, baseW, all) {
			w(x)
		}
		baseC := [][]int{{200, 200}, {300}, {200, 200, 200}, {300, 300}}
		for _, x := range faultsC(1024, baseC, all) {
			c(x)
		}
		for _, x := range badC(1024, []int{200, 200, 200, 200}, all) {
			c(x)
		}
		// the name and place of the log file; the size of a single event
		for _, x := range namesW(all) {
			w(x)
		}
		for _, x := range namesC(all) {
			c(x)
		}
		for _, x := range sizesC(all) {
			c(x)
		}
		if all {
			for _, x := range faultsW(4096, [][]int{{1000, 1000, 1000}, {1000, 1000}, {5000}, {100}, {1000, 1000, 1000}}, true) {
				w(x)
			}
			for _, x := range faultsC(4096, [][]int{{1000, 1000, 1000}, {1000, 1000}, {100}}, true) {
				c(x)
			}
			// unencodable events inside a burst that crosses the size flush
			big := bigBurst(1024, []int{350}, 546000)
			for i := 97; i < len(big.Bursts[0]); i += 211 {
				big.Bursts[0][i] = -1 - i%3
			}
			c(big)
		}
		if o.Tier == "thorough" {
			c(CIn{Max: 1 << 20, Openable: true, Bursts: [][]int{rep(2000, 300), rep(2000, 300)}})
		}
		// more than 500 KiB through the channel without idle gap into small files: the size flush
		// hands one large batch to Write, which must consist of whole lines
		c(bigBurst(1024, []int{350}, 546000))
		c(bigBurst(4096, []int{97, 1000, 350}, 560000))
		if o.Tier != "quick" {
			for _, x := range []CIn{bigBurst(1024, []int{97}, 530000), bigBurst(1024, []int{1000}, 600000),
				bigBurst(1024, []int{350, 97, 1000}, 580000), bigBurst(4096, []int{350}, 540000),
				bigBurst(4096, []int{1000}, 600000), bigBurst(1024, []int{350, 1030, 97}, 560000)} {
				c(x)
			}
		}
	}

	if o.Only == "" {
		// every channel case ends with one more small event after the last idle flush: a writer
		// that stopped making progress shows as a Send that does not return
		for _, in := range ins {
			if in.C != nil && in.C.Openable && in.C.Max >= 1024 {
				in.C.Bursts = append(append([][]int(nil), in.C.Bursts...), []int{60})
			}
		}
	}

	// spread the cases that carry a lot of bytes over the shards (one shard = 60 consecutive cases)
	weight := func(in Input) int {
		n := 0
		if in.C != nil {
			for _, b := range in.C.Bursts {
				for _, x := range b {
					if x > 0 {
						n += x
					}
				}
			}
		} else {
			for _, op := range in.W.Ops {
				for _, x := range op.Lens {
					n += x
				}
			}
		}
		return n
	}
	if o.Only == "" {
		var light, heavy []Input
		for _, in := range ins {
			if weight(in) > 300000 {
				heavy = append(heavy, in)
			} else {
				light = append(light, in)
			}
		}
		ins = ins[:0]
		every := len(light)/(len(heavy)+1) + 1
		for i, in := range light {
			ins = append(ins, in)
			if i%every == every-1 && len(heavy) > 0 {
				ins = append(ins, heavy[0])
				heavy = heavy[1:]
			}
		}
		ins = append(ins, heavy...)
	}

	scratch := filepath.Join(o.Out, "scratch")
	os.RemoveAll(scratch)
	os.MkdirAll(scratch, 0o755)
	defer os.RemoveAll(scratch)

	cases := make([]hx.Case, len(ins))
	jobs := make(chan job)
	var wg sync.WaitGroup
	// the cases mostly wait for the clock: many workers
	for k := 0; k < 96; k++ {
		wg.Add(1)
		go func() {
			defer wg.Done()
			for j := range jobs {
				t0 := time.Now()
				cases[j.id] = runJob(j, scratch)
				if d := time.Since(t0); d > 8*time.Second && os.Getenv("C07_SLOW") != "" {
					fmt.Fprintf(os.Stderr, "slow case %d: %v %s\n", j.id, d, inputJSON(j.in))
				}
			}
		}()
	}
	// channel cases first: they take seconds each
	for pass := 0; pass < 2; pass++ {
		for i, in := range ins {
			if (in.C != nil) == (pass == 0) {
				jobs <- job{id: i, in: in}
			}
		}
	}
	close(jobs)
	wg.Wait()

	dist := map[string]int{}
	for _, cs := range cases {
		in := cs.Input.(Input)
		ob := cs.Obs.(Obs)
		dist["kind:"+cs.Kind]++
		if in.W != nil {
			dist[fmt.Sprintf("max:%d", in.W.Max)]++
			nw := 0
			for _, op := range in.W.Ops {
				if op.K == "w" {
					nw++
					if len(op.Lens) > 1 {
						dist["write:batch-of-several-lines"]++
					} else {
						dist["write:single-line"]++
					}
				} else {
					dist["op:"+op.K]++
				}
			}
			if nw > 6 {
				nw = 6
			}
			dist[fmt.Sprintf("writes:%d", nw)]++
		} else {
			dist[fmt.Sprintf("chan-max:%d", in.C.Max)]++
			if ob.Blocked {
				dist["chan:send-blocked"]++
			}
			if ob.NewErr {
				dist["chan:new-returned-error"]++
			}
		}
		nr := len(ob.Rot)
		if nr > 3 {
			nr = 3
		}
		dist[fmt.Sprintf("rotated-files-at-end:%d", nr)]++
	}
	dist["clock-ambiguous-reruns"] = int(atomic.LoadInt64(&clockRetries))
	hx.Write(o, "C07", "rotate", "From HT Require Import Common.Bytes C07.Model C07.Check.", "case", cases, dist, nil, 60)
}
