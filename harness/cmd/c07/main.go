// C07 harness: the rotating log file of the "file" channel.
//
// Kind "write": fschannel.OpenRotateFile + Write driven directly with generated batches of
// newline-terminated JSON lines (lengths around the rotation boundary), with waits for the
// next wall-clock second, outside remove / rename of the log file and restarts in between.
// Kind "chan": the registered "file" channel (pushers.Get("file") + toml configuration) end
// to end with Send, bursts separated by the idle flush.
//
// The wall-clock second is observed before and after every call that may rotate; a case in
// which the two differ is run again.  Seconds are reported relative to the start of the case.
// Observed: bytes of <file>, of every <file>.<timestamp>, of files renamed away, what Write
// returned, whether Send returned.
package main

import (
	"bytes"
	"encoding/json"
	"fmt"
	"io/ioutil"
	"os"
	"path/filepath"
	"sort"
	"strconv"
	"strings"
	"sync"
	"sync/atomic"
	"time"

	"github.com/BurntSushi/toml"
	"github.com/honeytrap/honeytrap/event"
	"github.com/honeytrap/honeytrap/pushers"
	fschannel "github.com/honeytrap/honeytrap/pushers/file"
	"verif/harness/hx"
)

// ---- inputs ----

type Op struct {
	K    string `json:"k"`              // w write, t wait for the next second, rm remove, mv rename away, re restart
	Lens []int  `json:"lens,omitempty"` // w: total length of each line, newline included
}

type WIn struct {
	Max  int64 `json:"max"`
	Init []int `json:"init,omitempty"` // lines already in the file
	Ops  []Op  `json:"ops"`
}

type CIn struct {
	Max      int64   `json:"max"`
	Openable bool    `json:"openable"`
	Init     []int   `json:"init,omitempty"`
	Bursts   [][]int `json:"bursts"` // per burst: target length of each encoded event
	// Big: one burst of more than 500 KiB without idle gap (the size flush fires during the burst
	// and may rotate hundreds of times): the second of each rotation is read off the file names
	Big bool `json:"big,omitempty"`
}

type Input struct {
	W *WIn `json:"w,omitempty"`
	C *CIn `json:"c,omitempty"`
}

// ---- observations ----

type RotObs struct {
	Sec  int64  `json:"sec"`
	K    int    `json:"k"` // <file>.<ts>.<k>; 0 = no suffix
	Len  int    `json:"len"`
	Head string `json:"head"` // first bytes, for the reader of a replay file
	data []byte
}

type Obs struct {
	Secs    []int64  `json:"secs"` // second observed per op (w/re) resp. per burst (send, idle)
	Sec0    int64    `json:"sec0"`
	Rets    []int    `json:"rets,omitempty"`
	Errs    []string `json:"errs,omitempty"`
	Exists  bool     `json:"exists"`
	CurLen  int      `json:"cur_len"`
	CurHead string   `json:"cur_head"`
	Rot     []RotObs `json:"rot"`
	Moved   []int    `json:"moved,omitempty"`
	Gone    []int    `json:"gone,omitempty"`
	Blocked bool     `json:"blocked,omitempty"`
	NewErr  bool     `json:"new_err,omitempty"` // New returned an error: no channel, nothing to Send on
	cur     []byte
	moved   [][]byte
	gone    [][]byte
}

const tsLayout = "20060102150405"

// line number id of total length n (newline included) as the direct cases write it
func mkLine(id, n int) []byte {
	base := len(fmt.Sprintf(`{"i":%d,"p":""}`, id)) + 1
	fill := n - base
	if fill < 0 {
		fill = 0
	}
	return []byte(fmt.Sprintf(`{"i":%d,"p":"%s"}`+"\n", id, strings.Repeat(string(rune('a'+id%26)), fill)))
}

func evFields(id, n int) (int, string) {
	base := len(fmt.Sprintf(`{"date":"d","i":%d,"p":""}`, id)) + 1
	fill := n - base
	if fill < 0 {
		fill = 0
	}
	return id, strings.Repeat(string(rune('a'+id%26)), fill)
}

func head(b []byte) string {
	if len(b) > 24 {
		return string(b[:24])
	}
	return string(b)
}

func readRot(path string, base int64) ([]RotObs, error) {
	m, _ := filepath.Glob(path + ".*")
	var out []RotObs
	for _, f := range m {
		ts := strings.TrimPrefix(f, path+".")
		k := 0
		if i := strings.IndexByte(ts, '.'); i >= 0 {
			n, err := strconv.Atoi(ts[i+1:])
			if err != nil || n < 1 || strconv.Itoa(n) != ts[i+1:] {
				return nil, fmt.Errorf("rotated file with unexpected name %q", filepath.Base(f))
			}
			k, ts = n, ts[:i]
		}
		t, err := time.ParseInLocation(tsLayout, ts, time.Local)
		if err != nil {
			return nil, fmt.Errorf("rotated file with unexpected name %q", filepath.Base(f))
		}
		b, err := ioutil.ReadFile(f)
		if err != nil {
			return nil, err
		}
		out = append(out, RotObs{Sec: t.Unix() - base, K: k, Len: len(b), Head: head(b), data: b})
	}
	sort.Slice(out, func(i, j int) bool {
		return out[i].Sec < out[j].Sec || (out[i].Sec == out[j].Sec && out[i].K < out[j].K)
	})
	return out, nil
}

func waitNextSecond() {
	now := time.Now()
	next := now.Truncate(time.Second).Add(time.Second + 3*time.Millisecond)
	time.Sleep(next.Sub(now))
}

// ---- kind "write" ----

type rotFile interface {
	Write([]byte) (int, error)
	Close() error
}

// runW returns ambiguous=true when a clock reading straddled a second boundary.
func runW(in WIn, dir string) (ob Obs, batches [][]byte, initB []byte, crash string, ambiguous bool) {
	os.RemoveAll(dir)
	if err := os.MkdirAll(dir, 0o755); err != nil {
		hx.Fatal("mkdir: %v", err)
	}
	path := filepath.Join(dir, "log")
	id := 0
	for _, n := range in.Init {
		initB = append(initB, mkLine(id, n)...)
		id++
	}
	if len(in.Init) > 0 {
		if err := ioutil.WriteFile(path, initB, 0o600); err != nil {
			hx.Fatal("init: %v", err)
		}
	}
	defer func() {
		if r := recover(); r != nil {
			crash = fmt.Sprintf("panic: %v", r)
		}
	}()
	// stay clear of the end of a second at the start
	if time.Now().Nanosecond() > 900e6 {
		waitNextSecond()
	}
	base := time.Now().Unix()
	var rf rotFile
	open := func() bool {
		s1 := time.Now().Unix()
		f, err := fschannel.OpenRotateFile(path, 0o600, in.Max)
		s2 := time.Now().Unix()
		if err != nil {
			crash = "OpenRotateFile: " + err.Error()
			return false
		}
		rf = f
		if s1 != s2 {
			ambiguous = true
			return false
		}
		ob.Secs = append(ob.Secs, s1-base)
		return true
	}
	if !open() {
		return
	}
	ob.Sec0 = ob.Secs[0]
	ob.Secs = nil
	nmoved := 0
	for _, o := range in.Ops {
		switch o.K {
		case "t":
			waitNextSecond()
		case "w":
			var p []byte
			for _, n := range o.Lens {
				p = append(p, mkLine(id, n)...)
				id++
			}
			batches = append(batches, p)
			s1 := time.Now().Unix()
			n, err := rf.Write(append([]byte(nil), p...))
			s2 := time.Now().Unix()
			if s1 != s2 {
				ambiguous = true
				rf.Close()
				return
			}
			ob.Secs = append(ob.Secs, s1-base)
			ob.Rets = append(ob.Rets, n)
			e := ""
			if err != nil {
				e = "error"
			}
			ob.Errs = append(ob.Errs, e)
		case "rm":
			if b, err := ioutil.ReadFile(path); err == nil {
				if os.Remove(path) == nil {
					ob.gone = append(ob.gone, b)
					ob.Gone = append(ob.Gone, len(b))
				}
			}
		case "mv":
			if _, err := os.Stat(path); err == nil {
				dst := filepath.Join(dir, fmt.Sprintf("moved-%d", nmoved))
				if os.Rename(path, dst) == nil {
					nmoved++
				}
			}
		case "re":
			rf.Close()
			if !open() {
				return
			}
		}
	}
	rf.Close()
	if b, err := ioutil.ReadFile(path); err == nil {
		ob.Exists = true
		ob.cur = b
	}
	ob.CurLen, ob.CurHead = len(ob.cur), head(ob.cur)
	for i := 0; i < nmoved; i++ {
		b, err := ioutil.ReadFile(filepath.Join(dir, fmt.Sprintf("moved-%d", i)))
		if err != nil {
			hx.Fatal("moved file: %v", err)
		}
		ob.moved = append(ob.moved, b)
		ob.Moved = append(ob.Moved, len(b))
	}
	rot, err := readRot(path, base)
	if err != nil {
		crash = err.Error()
		return
	}
	ob.Rot = rot
	return
}

// ---- Coq rendering ----

// hexTerm renders n in base 16 with the constructors Q0..QF of Check.v, most significant digit
// outermost: 0x17b = Q1 (Q7 (QB Qz)).
func hexTerm(n int) string {
	if n == 0 {
		return "Qz"
	}
	h := strings.ToUpper(strconv.FormatInt(int64(n), 16))
	var sb strings.Builder
	for i := 0; i < len(h); i++ {
		sb.WriteString("(Q")
		sb.WriteByte(h[i])
		sb.WriteByte(' ')
	}
	sb.WriteString("Qz")
	sb.WriteString(strings.Repeat(")", len(h)))
	return sb.String()
}

// dict mirrors DICT in Check.v: an item with count 0 refers to entry number b.
var dict = [][]byte{
	[]byte(`{"date":"d","i":`),
	[]byte(`,"p":"`),
	[]byte("\"}\n"),
	[]byte(`{"i":`),
}

func coqRLE(b []byte) string {
	if len(b) == 0 {
		return "(@nil hx)"
	}
	// item = byte + 256*count (a run) or, with count 0, a dictionary entry
	var runs []string
	for i := 0; i < len(b); {
		hit := -1
		for k, d := range dict {
			if b[i] == d[0] && bytes.HasPrefix(b[i:], d) {
				hit = k
				break
			}
		}
		if hit >= 0 {
			runs = append(runs, hexTerm(hit))
			i += len(dict[hit])
			continue
		}
		j := i
		for j < len(b) && b[j] == b[i] {
			j++
		}
		runs = append(runs, hexTerm(int(b[i])+256*(j-i)))
		i = j
	}
	if len(runs) <= 400 {
		return "[" + strings.Join(runs, ";") + "]"
	}
	var parts []string
	for i := 0; i < len(runs); i += 400 {
		j := i + 400
		if j > len(runs) {
			j = len(runs)
		}
		parts = append(parts, "["+strings.Join(runs[i:j], ";")+"]")
	}
	return "(List.concat [" + strings.Join(parts, ";\n ") + "])"
}

func coqRot(rs []RotObs) string {
	var es []string
	for _, r := range rs {
		es = append(es, fmt.Sprintf("(%s, %s, %s)", hx.CoqN(uint64(r.Sec)), hx.CoqN(uint64(r.K)), coqRLE(r.data)))
	}
	return hx.CoqList(es, "(N * N * rle)")
}

func coqRLEs(bs [][]byte) string {
	var es []string
	for _, b := range bs {
		es = append(es, coqRLE(b))
	}
	return hx.CoqList(es, "rle")
}

func coqW(id int, in WIn, ob Obs, batches [][]byte, initB []byte) string {
	var ops []string
	wi, si := 0, 0
	for _, o := range in.Ops {
		switch o.K {
		case "w":
			ops = append(ops, fmt.Sprintf("CWrite %s %s", hx.CoqN(uint64(ob.Secs[si])), coqRLE(batches[wi])))
			wi++
			si++
		case "rm":
			ops = append(ops, "CRemove")
		case "mv":
			ops = append(ops, "CMove")
		case "re":
			ops = append(ops, fmt.Sprintf("CReopen %s", hx.CoqN(uint64(ob.Secs[si]))))
			si++
		}
	}
	var rets []string
	for i, n := range ob.Rets {
		rets = append(rets, fmt.Sprintf("(%s, %s)", hx.CoqZ(int64(n)), hx.CoqBool(ob.Errs[i] == "")))
	}
	return fmt.Sprintf("CW (mkW %s %s %s %s %s %s %s %s %s %s %s)", hx.CoqN(uint64(id)), hx.CoqZ(in.Max), hx.CoqN(uint64(ob.Sec0)),
		coqRLE(initB), hx.CoqList(ops, "cop"), hx.CoqList(rets, "(Z * bool)"), hx.CoqBool(ob.Exists), coqRLE(ob.cur),
		coqRot(ob.Rot), coqRLEs(ob.moved), coqRLEs(ob.gone))
}

// ---- kind "chan" ----

type tomlCfg struct {
	C toml.Primitive `toml:"c"`
}

func sendTimeout(ch pushers.Channel, evs []event.Event, d time.Duration) bool {
	done := make(chan struct{})
	go func() {
		for _, e := range evs {
			ch.Send(e)
		}
		close(done)
	}()
	select {
	case <-done:
		return true
	case <-time.After(d):
		return false
	}
}

type snap struct {
	size int64
	mod  time.Time
	nrot int
}

func takeSnap(path string) snap {
	var s snap
	if fi, err := os.Stat(path); err == nil {
		s.size, s.mod = fi.Size(), fi.ModTime()
	} else {
		s.size = -1
	}
	m, _ := filepath.Glob(path + ".*")
	s.nrot = len(m)
	return s
}

// quiesce waits until the destination and its rotated siblings have not changed for `still`
// (at most `max`) and returns the time of the last change seen (or the call time if none).
func quiesce(path string, still, max time.Duration) time.Time {
	last, lastChange, lastSeen := takeSnap(path), time.Now(), time.Now()
	changed := false
	deadline := time.Now().Add(max)
	for time.Now().Before(deadline) && time.Since(lastSeen) < still {
		time.Sleep(2 * time.Millisecond)
		if sn := takeSnap(path); sn != last {
			last, lastSeen, changed = sn, time.Now(), true
			lastChange = lastSeen
		}
	}
	_ = changed
	return lastChange
}

// writtenSince returns the latest modification time among the destination and its rotated
// siblings that were written at or after t0, how many there are, and whether their
// modification times fall into more than one second.
func writtenSince(path string, t0 time.Time) (latest time.Time, n int, spread bool) {
	files, _ := filepath.Glob(path + ".*")
	files = append(files, path)
	t0 = t0.Add(-8 * time.Millisecond) // file times come from the coarse kernel clock
	for _, f := range files {
		fi, err := os.Stat(f)
		if err != nil || fi.ModTime().Before(t0) {
			continue
		}
		if n > 0 && fi.ModTime().Unix() != latest.Unix() {
			spread = true
		}
		if fi.ModTime().After(latest) {
			latest = fi.ModTime()
		}
		n++
	}
	return
}

// alignSecond sleeps until the wall clock is in the first part of a second.
func alignSecond() {
	ns := time.Now().Nanosecond()
	if ns < 20e6 || ns > 250e6 {
		now := time.Now()
		time.Sleep(now.Truncate(time.Second).Add(time.Second + 40*time.Millisecond).Sub(now))
	}
}

func runC(in CIn, dir string) (ob Obs, lines [][][]byte, initB []byte, crash string, ambiguous bool) {
	os.RemoveAll(dir)
	if err := os.MkdirAll(dir, 0o755); err != nil {
		hx.Fatal("mkdir: %v", err)
	}
	path := filepath.Join(dir, "log")
	id := 0
	if !in.Openable {
		// the directory of the log file is a regular file: OpenFile fails whoever runs this
		if err := ioutil.WriteFile(filepath.Join(dir, "blk"), []byte("x"), 0o600); err != nil {
			hx.Fatal("blk: %v", err)
		}
		path = filepath.Join(dir, "blk", "log")
	} else {
		for _, n := range in.Init {
			i, p := evFields(id, n)
			b, _ := json.Marshal(map[string]interface{}{"date": "d", "i": i, "p": p})
			initB = append(initB, append(b, '\n')...)
			id++
		}
		if len(in.Init) > 0 {
			if err := ioutil.WriteFile(path, initB, 0o600); err != nil {
				hx.Fatal("init: %v", err)
			}
		}
	}
	defer func() {
		if r := recover(); r != nil {
			crash = fmt.Sprintf("panic: %v", r)
		}
	}()
	var cfg tomlCfg
	md, err := toml.Decode(fmt.Sprintf("[c]\ntype=\"file\"\nfilename=%s\nmaxsize=%d\n", hx.TomlStr(path), in.Max), &cfg)
	if err != nil {
		hx.Fatal("toml: %v", err)
	}
	fn, ok := pushers.Get("file")
	if !ok {
		hx.Fatal("channel type file is not registered")
	}
	alignSecond()
	base := time.Now().Unix()
	ch, err := fn(pushers.WithConfig(cfg.C, &md))
	if err != nil || ch == nil {
		// no channel was handed out (expected exactly when the destination cannot be opened)
		ob.NewErr = true
		if b, err := ioutil.ReadFile(path); err == nil {
			ob.Exists = true
			ob.cur = b
		}
		ob.CurLen, ob.CurHead = len(ob.cur), head(ob.cur)
		for range in.Bursts {
			lines = append(lines, nil)
		}
		if in.Openable {
			if rot, rerr := readRot(path, base); rerr == nil {
				ob.Rot = rot
			}
		}
		return
	}
	// New opens the destination (rotating a full file) before it returns
	if time.Now().Unix() != base {
		ambiguous = true
		return
	}
	ob.Sec0 = 0
	for _, burst := range in.Bursts {
		var evs []event.Event
		var bl [][]byte
		total := 0
		for _, n := range burst {
			i, p := evFields(id, n)
			id++
			evs = append(evs, event.New(event.Custom("date", "d"), event.Custom("i", i), event.Custom("p", p)))
			b, _ := json.Marshal(map[string]interface{}{"date": "d", "i": i, "p": p})
			b = append(b, '\n')
			bl = append(bl, b)
			total += len(b)
		}
		lines = append(lines, bl)
		if in.Big {
			if !sendTimeout(ch, evs, 60*time.Second) {
				ob.Blocked = true
				break
			}
			// quiescence: nothing changed for 1.5 s (the idle flush has happened)
			last, lastChange := takeSnap(path), time.Now()
			deadline := time.Now().Add(60 * time.Second)
			for time.Now().Before(deadline) && time.Since(lastChange) < 1500*time.Millisecond {
				time.Sleep(10 * time.Millisecond)
				if sn := takeSnap(path); sn != last {
					last, lastChange = sn, time.Now()
				}
			}
			ob.Secs = append(ob.Secs, 0, 0)
			continue
		}
		alignSecond()
		s1 := time.Now().Unix()
		t0 := time.Now()
		if !sendTimeout(ch, evs, 3*time.Second) {
			ob.Blocked = true
			ob.Secs = append(ob.Secs, s1-base, s1-base)
			break
		}
		s2 := time.Now().Unix()
		if s1 != s2 || time.Since(t0) > 600*time.Millisecond {
			ambiguous = true
			break
		}
		// wait for the idle flush (one second without a request) and note its second
		before := takeSnap(path)
		var tflush time.Time
		deadline := time.Now().Add(1600 * time.Millisecond)
		for time.Now().Before(deadline) {
			time.Sleep(2 * time.Millisecond)
			if takeSnap(path) != before {
				tflush = time.Now()
				break
			}
		}
		if tflush.IsZero() {
			// nothing was pending (the size threshold flushed everything): any second will do
			tflush = time.Now()
		} else if tflush.Nanosecond() < 40e6 {
			ambiguous = true
			break
		}
		// let a multi-rotation flush finish (nothing changes for 150 ms), then take the flush's
		// second from the files themselves (modification times of what was written since the
		// send started) rather than from this goroutine's clock, which lags under load
		quiesce(path, 150*time.Millisecond, 20*time.Second)
		if ft, n, spread := writtenSince(path, t0); n > 0 {
			if spread || ft.Nanosecond() > 985e6 || ft.Nanosecond() < 15e6 {
				ambiguous = true
				break
			}
			tflush = ft
		}
		ob.Secs = append(ob.Secs, s1-base, tflush.Unix()-base)
	}
	if !ob.Blocked {
		if fb, ok := ch.(*fschannel.FileBackend); ok {
			fb.Close()
			quiesce(path, 100*time.Millisecond, 20*time.Second)
		}
	}
	if ambiguous {
		return
	}
	if b, err := ioutil.ReadFile(path); err == nil {
		ob.Exists = true
		ob.cur = b
	}
	ob.CurLen, ob.CurHead = len(ob.cur), head(ob.cur)
	if in.Openable {
		rot, err := readRot(path, base)
		if err != nil {
			crash = err.Error()
			return
		}
		ob.Rot = rot
	}
	return
}

func coqC(id int, in CIn, ob Obs, lines [][][]byte, initB []byte) string {
	var bs []string
	for k, bl := range lines {
		s1, s2 := int64(0), int64(0)
		if 2*k+1 < len(ob.Secs) {
			s1, s2 = ob.Secs[2*k], ob.Secs[2*k+1]
		}
		bs = append(bs, fmt.Sprintf("(%s, %s, %s)", hx.CoqN(uint64(s1)), hx.CoqN(uint64(s2)), coqRLEs(bl)))
	}
	var clock []string
	if in.Big {
		for _, r := range ob.Rot { // sorted by (second, k) = order of rotation
			clock = append(clock, hx.CoqN(uint64(r.Sec)))
		}
	}
	return fmt.Sprintf("CC (mkC %s %s %s %s %s %s %s %s %s %s %s)", hx.CoqN(uint64(id)), hx.CoqZ(in.Max), hx.CoqBool(in.Openable),
		hx.CoqN(uint64(ob.Sec0)), coqRLE(initB), hx.CoqList(bs, "(N * N * list rle)"), hx.CoqList(clock, "N"),
		hx.CoqBool(!ob.NewErr), hx.CoqBool(ob.Blocked), coqRLE(ob.cur), coqRot(ob.Rot))
}

// ---- generators ----

var maxes = []int64{1024, 1024, 1024, 4096, 4096, 64, 200}

// genW draws a history; [pos] follows the file position an ideal writer would have, to aim
// line lengths at the rotation boundary.
func genW(r *hx.Rand, big bool) WIn {
	in := WIn{Max: maxes[r.Intn(len(maxes))]}
	if big {
		in.Max = 1 << 20
	}
	max := int(in.Max)
	minLen := 16
	pos := 0
	pick := func() int {
		room := max - pos
		var n int
		switch r.Intn(10) {
		case 0, 1, 2:
			n = room + r.PickInt([]int{-2, -1, 0, 0, 1, 1, 2, 3, 17})
		case 3:
			n = max + r.PickInt([]int{-1, 0, 1, 2, 30})
		case 4:
			n = r.PickInt([]int{max / 2, max/2 + 1, max / 3, max - 20})
		default:
			n = r.PickInt([]int{16, 17, 20, 33, 50, 100, 100, 120, 250})
		}
		// a line larger than the whole file is written in one piece (one rotation + fsync each)
		if n > 4*max {
			n = 4 * max
		}
		if n < minLen {
			n = minLen
		}
		if pos+n > max {
			pos = n
			if pos > max {
				pos = 0
			}
		} else {
			pos += n
		}
		return n
	}
	if r.Chance(1, 4) {
		for i, k := 0, r.Range(1, 3); i < k; i++ {
			in.Init = append(in.Init, pick())
		}
		if r.Chance(1, 4) { // a file that is exactly full or over: rotated when opened
			in.Init = []int{max / 2, max - max/2 + r.PickInt([]int{0, 0, 1, 20})}
			pos = 0
		}
	}
	nops := r.Range(1, 7)
	if big {
		nops = r.Range(2, 4)
	}
	for i := 0; i < nops; i++ {
		switch x := r.Intn(20); {
		case x < 3 && !big:
			in.Ops = append(in.Ops, Op{K: "t"})
		case x == 3:
			in.Ops = append(in.Ops, Op{K: "rm"})
			pos = 0
		case x == 4:
			in.Ops = append(in.Ops, Op{K: "mv"})
			pos = 0
		case x == 5:
			in.Ops = append(in.Ops, Op{K: "re"})
		}
		o := Op{K: "w"}
		nl := 1
		if r.Chance(1, 2) {
			nl = r.PickInt([]int{2, 3, 5, 8, 12, 30})
		}
		for j := 0; j < nl; j++ {
			o.Lens = append(o.Lens, pick())
		}
		in.Ops = append(in.Ops, o)
	}
	return in
}

// genBig: a 1 MiB file filled with batches as the channel produces them (up to ~500 KiB of
// 2000-byte lines per Write), the batch that crosses the boundary aimed at it.
func genBig(r *hx.Rand) WIn {
	const max = 1 << 20
	in := WIn{Max: max}
	pos := 0
	full := func(k int) {
		in.Ops = append(in.Ops, Op{K: "w", Lens: rep(2000, k)})
		pos += 2000 * k
	}
	full(260)
	full(r.PickInt([]int{250, 260, 262}))
	room := max - pos
	var b []int
	switch r.Intn(4) {
	case 0: // one line that does not fit: no newline in the window
		b = []int{room + r.PickInt([]int{1, 2, 50})}
	case 1: // fits exactly / ends exactly one past
		k := room / 2000
		b = append(rep(2000, k), room-2000*k+r.PickInt([]int{0, 1}))
	case 2: // several lines, the boundary inside the last but one
		k := room/2000 + 2
		b = rep(2000, k)
	default: // a line larger than the whole file
		b = []int{2000, max + r.PickInt([]int{1, 2, 3})}
	}
	in.Ops = append(in.Ops, Op{K: "w", Lens: b})
	if r.Chance(1, 2) {
		in.Ops = append(in.Ops, Op{K: "t"})
	}
	in.Ops = append(in.Ops, Op{K: "w", Lens: rep(2000, r.PickInt([]int{1, 40}))})
	return in
}

// all sequences of up to n single-line writes with lengths from set, max 1024
func enumW(set []int, n int) []WIn {
	var out []WIn
	var rec func(prefix []int)
	rec = func(prefix []int) {
		if len(prefix) > 0 {
			in := WIn{Max: 1024}
			for _, l := range prefix {
				in.Ops = append(in.Ops, Op{K: "w", Lens: []int{l}})
			}
			out = append(out, in)
		}
		if len(prefix) == n {
			return
		}
		for _, l := range set {
			rec(append(append([]int(nil), prefix...), l))
		}
	}
	rec(nil)
	return out
}

func genC(r *hx.Rand) CIn {
	in := CIn{Max: int64(r.PickInt([]int{1024, 1024, 4096})), Openable: true}
	nb := r.Range(1, 3)
	for i := 0; i < nb; i++ {
		var b []int
		for j, k := 0, r.PickInt([]int{1, 1, 2, 5, 12, 30}); j < k; j++ {
			b = append(b, r.PickInt([]int{40, 100, 100, 300, 500, int(in.Max) - 1, int(in.Max) + 1}))
		}
		in.Bursts = append(in.Bursts, b)
	}
	return in
}

// bigBurst: one burst without idle gap, the pattern of event lengths repeated up to total bytes
// (more than the 500 KiB flush threshold, so the size flush happens inside the burst).
func bigBurst(max int64, pattern []int, total int) CIn {
	var b []int
	for sum, i := 0, 0; sum < total; i++ {
		n := pattern[i%len(pattern)]
		b = append(b, n)
		sum += n
	}
	return CIn{Max: max, Openable: true, Big: true, Bursts: [][]int{b}}
}

func rep(n, k int) []int {
	out := make([]int, k)
	for i := range out {
		out[i] = n
	}
	return out
}

// ---- main ----

type job struct {
	id int
	in Input
}

var clockRetries int64 // cases run again because a clock reading straddled a second boundary

func runJob(j job, scratch string) hx.Case {
	dir := filepath.Join(scratch, fmt.Sprintf("c%d", j.id))
	defer os.RemoveAll(dir)
	for attempt := 0; ; attempt++ {
		if j.in.W != nil {
			ob, batches, initB, crash, amb := runW(*j.in.W, dir)
			if amb && attempt < 12 {
				atomic.AddInt64(&clockRetries, 1)
				continue
			}
			if amb {
				hx.Fatal("case %d: the clock could not be pinned down in 12 attempts", j.id)
			}
			c := hx.Case{ID: j.id, Kind: "write", Input: j.in, Obs: ob, Crash: crash}
			if crash == "" {
				c.Coq = coqW(j.id, *j.in.W, ob, batches, initB)
			}
			return c
		}
		ob, lines, initB, crash, amb := runC(*j.in.C, dir)
		if amb && attempt < 12 {
			atomic.AddInt64(&clockRetries, 1)
			continue
		}
		if amb {
			hx.Fatal("case %d: the clock could not be pinned down in 12 attempts", j.id)
		}
		c := hx.Case{ID: j.id, Kind: "chan", Input: j.in, Obs: ob, Crash: crash}
		if crash == "" {
			c.Coq = coqC(j.id, *j.in.C, ob, lines, initB)
		}
		return c
	}
}

func main() {
	o := hx.ParseArgs()
	r := hx.NewRand(o.Seed)
	var ins []Input
	w := func(x WIn) { y := x; ins = append(ins, Input{W: &y}) }
	c := func(x CIn) { y := x; ins = append(ins, Input{C: &y}) }
	if o.Only != "" {
		var in Input
		if err := hx.LoadReplay(o.Only, &in); err != nil {
			panic(err)
		}
		ins = []Input{in}
	} else {
		// corpus
		// no newline inside the remaining window (before the repair the first byte of the second line was dropped)
		w(WIn{Max: 1024, Ops: []Op{{K: "w", Lens: []int{1000}}, {K: "w", Lens: []int{100}}}})
		// file exactly full
		w(WIn{Max: 1024, Ops: []Op{{K: "w", Lens: []int{1024}}, {K: "w", Lens: []int{100}}}})
		// a line larger than max (before the repair: one byte dropped and one rename per iteration)
		w(WIn{Max: 1024, Ops: []Op{{K: "w", Lens: []int{300}}, {K: "w", Lens: []int{1030}}}})
		// two clean rotations within one second (before the repair the first rotated file was replaced)
		w(WIn{Max: 1024, Ops: []Op{{K: "w", Lens: rep(100, 25)}}})
		w(WIn{Max: 1024, Ops: []Op{{K: "w", Lens: rep(100, 15)}, {K: "w", Lens: rep(100, 10)}}})
		// clean: the same two rotations in different seconds; the fitting-exactly split
		w(WIn{Max: 1024, Ops: []Op{{K: "w", Lens: rep(100, 15)}, {K: "t"}, {K: "w", Lens: rep(100, 10)}}})
		w(WIn{Max: 1024, Ops: []Op{{K: "w", Lens: []int{1000}}, {K: "w", Lens: []int{25}}}})
		// outside remove / rename / restart
		w(WIn{Max: 1024, Ops: []Op{{K: "w", Lens: rep(100, 5)}, {K: "rm"}, {K: "w", Lens: rep(100, 3)}, {K: "mv"}, {K: "w", Lens: []int{100}}, {K: "re"}, {K: "w", Lens: []int{100}}}})
		w(WIn{Max: 1024, Init: []int{512, 512}, Ops: []Op{{K: "w", Lens: []int{100}}}})
		// channel: the destination cannot be opened: New must fail (before the repair: Send blocked for ever)
		c(CIn{Max: 1024, Openable: false, Bursts: [][]int{{100}}})
		c(CIn{Max: 4096, Openable: false, Bursts: [][]int{{100, 100}, {300}}})
		// channel: New refuses a maximum size below 1024
		c(CIn{Max: 512, Openable: true, Bursts: [][]int{{100}}})
		// channel: one event per idle flush, the third does not fit any more
		c(CIn{Max: 1024, Openable: true, Bursts: [][]int{{400}, {400}, {400}}})
		// channel: a burst of 3000 bytes into a 1024-byte file: several rotations in one second
		c(CIn{Max: 1024, Openable: true, Bursts: [][]int{rep(100, 30)}})
		// channel, clean: no rotation; one rotation that falls on a newline
		c(CIn{Max: 4096, Openable: true, Bursts: [][]int{rep(100, 12)}})
		c(CIn{Max: 4096, Openable: true, Init: rep(100, 3), Bursts: [][]int{rep(100, 27), rep(100, 20)}})
		// channel: the 500 KiB threshold flush, 1 MiB file
		c(CIn{Max: 1 << 20, Openable: true, Bursts: [][]int{rep(2000, 300)}})

		var nrand, nbig, nchan int
		var set []int
		var depth int
		switch o.Tier {
		case "quick":
			nrand, nbig, nchan, set, depth = 400, 1, 6, []int{100, 512, 924, 925, 1024, 1025}, 3
		case "search":
			nrand, nbig, nchan, set, depth = 1500, 6, 12, []int{100, 512, 924, 925, 1024, 1025}, 4
		default:
			nrand, nbig, nchan, set, depth = 4000, 12, 40, []int{100, 512, 924, 925, 1024, 1025}, 4
		}
		for _, x := range enumW(set, depth) {
			w(x)
		}
		if o.Tier == "thorough" {
			for _, x := range enumW([]int{100, 500, 1000}, 6) {
				if len(x.Ops) > 4 {
					w(x)
				}
			}
		}
		// the 1 MiB cases are spread out so that they land in different shards
		every := nrand / (nbig + 1)
		for i := 0; i < nrand; i++ {
			w(genW(r, false))
			if i%every == every-1 && nbig > 0 {
				w(genBig(r))
				nbig--
			}
		}
		for i := 0; i < nchan; i++ {
			c(genC(r))
		}
		if o.Tier == "thorough" {
			c(CIn{Max: 1 << 20, Openable: true, Bursts: [][]int{rep(2000, 300), rep(2000, 300)}})
		}
		// more than 500 KiB through the channel without idle gap into small files: the size flush
		// hands one large batch to Write, which must consist of whole lines
		c(bigBurst(1024, []int{350}, 546000))
		c(bigBurst(4096, []int{97, 1000, 350}, 560000))
		if o.Tier != "quick" {
			for _, x := range []CIn{bigBurst(1024, []int{97}, 530000), bigBurst(1024, []int{1000}, 600000),
				bigBurst(1024, []int{350, 97, 1000}, 580000), bigBurst(4096, []int{350}, 540000),
				bigBurst(4096, []int{1000}, 600000), bigBurst(1024, []int{350, 1030, 97}, 560000)} {
				c(x)
			}
		}
	}

	scratch := filepath.Join(o.Out, "scratch")
	os.RemoveAll(scratch)
	os.MkdirAll(scratch, 0o755)
	defer os.RemoveAll(scratch)

	cases := make([]hx.Case, len(ins))
	jobs := make(chan job)
	var wg sync.WaitGroup
	// the cases mostly wait for the clock: many workers
	for k := 0; k < 96; k++ {
		wg.Add(1)
		go func() {
			defer wg.Done()
			for j := range jobs {
				cases[j.id] = runJob(j, scratch)
			}
		}()
	}
	// channel cases first: they take seconds each
	for pass := 0; pass < 2; pass++ {
		for i, in := range ins {
			if (in.C != nil) == (pass == 0) {
				jobs <- job{id: i, in: in}
			}
		}
	}
	close(jobs)
	wg.Wait()

	dist := map[string]int{}
	for _, cs := range cases {
		in := cs.Input.(Input)
		ob := cs.Obs.(Obs)
		dist["kind:"+cs.Kind]++
		if in.W != nil {
			dist[fmt.Sprintf("max:%d", in.W.Max)]++
			nw := 0
			for _, op := range in.W.Ops {
				if op.K == "w" {
					nw++
					if len(op.Lens) > 1 {
						dist["write:batch-of-several-lines"]++
					} else {
						dist["write:single-line"]++
					}
				} else {
					dist["op:"+op.K]++
				}
			}
			if nw > 6 {
				nw = 6
			}
			dist[fmt.Sprintf("writes:%d", nw)]++
		} else {
			dist[fmt.Sprintf("chan-max:%d", in.C.Max)]++
			if ob.Blocked {
				dist["chan:send-blocked"]++
			}
			if ob.NewErr {
				dist["chan:new-returned-error"]++
			}
		}
		nr := len(ob.Rot)
		if nr > 3 {
			nr = 3
		}
		dist[fmt.Sprintf("rotated-files-at-end:%d", nr)]++
	}
	dist["clock-ambiguous-reruns"] = int(atomic.LoadInt64(&clockRetries))
	hx.Write(o, "C07", "rotate", "From HT Require Import Common.Bytes C07.Model C07.Check.", "case", cases, dist, nil, 60)
}
