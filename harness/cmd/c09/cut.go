// Part "sweep", scenario 10 ("cut"): length-structured protocols (ipp over http, redis, ldap,
// snmp, memcached) fed every prefix of valid sample messages - one connection (or datagram)
// per prefix, cut at every position, structural boundaries included - with a watchdog for
// handlers that spin or grow instead of returning.
package main

import (
	"bytes"
	"context"
	"fmt"
	"net"
	"runtime"
	"time"

	"github.com/honeytrap/honeytrap/listener"
	"github.com/honeytrap/honeytrap/server"
	"github.com/honeytrap/honeytrap/services"

	"verif/harness/hx"
)

func ippAttr(tag byte, name, val string) []byte {
	return cat([]byte{tag}, be16(uint16(len(name))), []byte(name), be16(uint16(len(val))), []byte(val))
}

// valid samples per protocol; every prefix of each becomes one connection
func cutSamples(svc string) [][]byte {
	switch svc {
	case "ipp":
		getAttrs := cat([]byte{2, 0}, be16(0x000b), be32(1), []byte{1},
			ippAttr(0x47, "attributes-charset", "utf-8"), ippAttr(0x48, "attributes-natural-language", "en"),
			ippAttr(0x45, "printer-uri", "ipp://x/p"), []byte{3})
		printJob := cat([]byte{1, 1}, be16(0x0002), be32(7), []byte{1},
			ippAttr(0x47, "attributes-charset", "utf-8"), ippAttr(0x48, "attributes-natural-language", "en"),
			ippAttr(0x45, "printer-uri", "ipp://x/p"), []byte{2},
			cat([]byte{0x21}, be16(6), []byte("copies"), be16(4), be32(1)), []byte{3}, []byte("%PDF"))
		return [][]byte{getAttrs, printJob}
	case "redis":
		return [][]byte{[]byte("*2\r\n$3\r\nGET\r\n$1\r\nk\r\n*3\r\n$3\r\nSET\r\n$1\r\nk\r\n$2\r\nvv\r\n"), []byte("PING\r\n*1\r\n$4\r\nINFO\r\n")}
	case "memcached":
		return [][]byte{[]byte("set k 0 0 5\r\nhello\r\nget k\r\nstats\r\n"), []byte("append k 1 2 3\r\nabc\r\nflush_all\r\n")}
	case "ldap":
		bind := []byte{0x30, 0x0c, 0x02, 0x01, 0x01, 0x60, 0x07, 0x02, 0x01, 0x03, 0x04, 0x00, 0x80, 0x00}
		search := cat([]byte{0x30, 0x25, 0x02, 0x01, 0x02, 0x63, 0x20, 0x04, 0x00, 0x0a, 0x01, 0x00, 0x0a, 0x01, 0x00, 0x02, 0x01, 0x00, 0x02, 0x01, 0x00, 0x01, 0x01, 0x00,
			0x87, 0x0b}, []byte("objectclass"), []byte{0x30, 0x00})
		unbind := []byte{0x30, 0x05, 0x02, 0x01, 0x03, 0x42, 0x00}
		return [][]byte{cat(bind, search, unbind)}
	case "snmp":
		get := cat([]byte{0x30, 0x26, 0x02, 0x01, 0x00, 0x04, 0x06}, []byte("public"),
			[]byte{0xa0, 0x19, 0x02, 0x04, 0x01, 0x02, 0x03, 0x04, 0x02, 0x01, 0x00, 0x02, 0x01, 0x00, 0x30, 0x0b, 0x30, 0x09, 0x06, 0x05, 0x2b, 0x06, 0x01, 0x02, 0x01, 0x05, 0x00})
		return [][]byte{get}
	}
	return nil
}

// the connection payloads of one cut case
func cutScripts(svc string) []hx.B {
	var out []hx.B
	for _, smp := range cutSamples(svc) {
		for i := 0; i <= len(smp); i++ {
			body := smp[:i]
			if svc == "ipp" {
				out = append(out, hx.B(cat([]byte(fmt.Sprintf("POST /printers/p HTTP/1.1\r\nHost: x\r\nContent-Type: application/ipp\r\nContent-Length: %d\r\n\r\n", len(body))), body)))
			} else {
				out = append(out, hx.B(append([]byte{}, body...)))
			}
		}
	}
	// input that fills a fixed-size internal buffer / exceeds a size cap without completing a token
	switch svc {
	case "redis": // bufio.Scanner gives up on a token longer than 64 KiB
		out = append(out, hx.B(bytes.Repeat([]byte("a"), 70000)), hx.B(cat([]byte("*1\r\n$70000\r\n"), bytes.Repeat([]byte("b"), 70000))))
	case "ldap": // announced lengths at and above the 1 MiB cap, nothing behind them
		out = append(out, hx.B([]byte{0x30, 0x84, 0x00, 0x20, 0x00, 0x00}), hx.B([]byte{0x30, 0x83, 0x10, 0x00, 0x00, 0x02, 0x01}), hx.B([]byte{0x30, 0x85, 1, 2, 3, 4, 5}))
	case "memcached":
		out = append(out, hx.B(bytes.Repeat([]byte("k"), 9000)))
	case "snmp":
		out = append(out, hx.B(cat([]byte{0x30, 0x82, 0xff, 0xff}, bytes.Repeat([]byte{0}, 100))))
	}
	return out
}

// awaitEnd waits for Handle: generously when it is merely slow, but a handler that burns a
// core for two windows in a row or lets the heap grow by hundreds of MB is cut short
func awaitEnd(done <-chan string, wait time.Duration) (outcome, panicked string) {
	limit := time.After(wait)
	var ms runtime.MemStats
	runtime.ReadMemStats(&ms)
	heap0 := ms.HeapAlloc
	hot := 0
	for {
		c0 := cpuTime()
		select {
		case p := <-done:
			if p != "" {
				return "panic", p
			}
			return "returned", ""
		case <-limit:
			return "blocked", ""
		case <-time.After(300 * time.Millisecond):
		}
		if cpuTime()-c0 > 240*time.Millisecond {
			hot++
		} else {
			hot = 0
		}
		runtime.ReadMemStats(&ms)
		if hot >= 5 || ms.HeapAlloc > heap0+(300<<20) {
			return "spin", ""
		}
	}
}

func runCutConn(svc services.Servicer, sp Spec, idx int) (ob ConnObs, gone bool) {
	in := sp.Sweep
	deadline := time.Duration(sp.DeadlineMs) * time.Millisecond
	wait := time.Duration(sp.WaitMs) * time.Millisecond
	lip, rip := connAddrs(sp, idx)
	payload := []byte(in.Payloads[idx%len(in.Payloads)])
	var base net.Conn
	if in.Svc == "snmp" {
		rbuf := make([]byte, 65536)
		base = &listener.DummyUDPConn{Buffer: rbuf[:copy(rbuf, payload)], Laddr: &net.UDPAddr{IP: lip, Port: 161}, Raddr: &net.UDPAddr{IP: rip, Port: 40000},
			Fn: func(b []byte, addr *net.UDPAddr) (int, error) { return len(b), nil }}
	} else {
		end := "close"
		if in.Silent {
			end = "silent"
		}
		var segs [][]byte
		if len(payload) > 0 {
			segs = [][]byte{payload}
		}
		base = newMemConn(&net.TCPAddr{IP: lip, Port: 631}, &net.TCPAddr{IP: rip, Port: 40000}, segs, end)
	}
	conn := server.TimeoutConn(base, deadline)
	done := make(chan string, 1)
	go func() {
		p := ""
		defer func() {
			if e := recover(); e != nil {
				p = fmt.Sprint(e)
				if p == "" {
					p = "panic"
				}
			}
			conn.Close()
			done <- p
		}()
		svc.Handle(context.Background(), conn)
	}()
	ob.Outcome, ob.Panic = awaitEnd(done, 2*(wait+20*deadline))
	if len(ob.Panic) > 120 {
		ob.Panic = ob.Panic[:120]
	}
	gone = ob.Outcome == "spin" || ob.Outcome == "blocked"
	return
}
