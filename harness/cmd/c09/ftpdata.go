// Part "sweep", service "ftp-data": the ftp data channel in every mode -
// passive / active  x  plain / TLS (certificate present or not)  x  what the data peer does
// (absent, connects and closes, connects and holds still)  x  data command (LIST, RETR, STOR).
// Observed only: Handle ends within the bound, nothing is held afterwards.
package main

import (
	"bufio"
	"context"
	"fmt"
	"net"
	"os"
	"path/filepath"
	"strings"
	"time"

	"github.com/honeytrap/honeytrap/server"
	"github.com/honeytrap/honeytrap/services"
	"github.com/honeytrap/honeytrap/storage"

	"verif/harness/hx"
	"verif/harness/lab"
)

// scenario number = (mode*3 + peer)*3 + cmd; plain / TLS is the service variant
var ftpModes = []string{"passive", "active"}
var ftpPeers = []string{"absent", "knock", "hold"}
var ftpCmds = []string{"LIST", "RETR f", "STOR f"}

func ftpDataScenario(sc int) (mode, peer, cmd string) {
	cmd = ftpCmds[sc%3]
	sc /= 3
	peer = ftpPeers[sc%3]
	sc /= 3
	mode = ftpModes[sc%2]
	return
}

const ftpDataScenarios = 18

// does the scenario wait out one passive-socket timeout (30 s of wall-clock)?
func ftpDataSlow(sc int, tls bool) bool {
	mode, peer, cmd := ftpDataScenario(sc)
	if mode != "passive" {
		// reading from an active data connection whose peer holds still can only end by a
		// deadline on that connection
		return peer == "hold" && strings.HasPrefix(cmd, "STOR")
	}
	switch peer {
	case "absent":
		return true
	case "hold":
		return tls || strings.HasPrefix(cmd, "STOR")
	}
	return false
}

// without a certificate the service runs its data channel in the clear: make the stored key
// unusable before the service is constructed (public storage API)
func ftpPlainStorage() {
	st, err := storage.Namespace("ftp")
	if err != nil {
		hx.Fatal("storage: %v", err)
	}
	// both entries present (so nothing is generated) and unusable: tls.X509KeyPair fails,
	// Certificate() returns an error, the service runs without a tls.Config
	st.Set("pemkey", []byte("not a key"))
	st.Set("pemcert", []byte("not a certificate"))
}

func buildFtpData(scratch string, tls bool, ch *countChannel) services.Servicer {
	if !tls {
		ftpPlainStorage()
	}
	root := filepath.Join(scratch, "ftproot")
	os.MkdirAll(root, 0o755)
	return buildServiceCfg("ftp", fmt.Sprintf("[s]\nfs_base=%q\n", root), ch)
}

func runFtpDataConn(svc services.Servicer, sp Spec, idx int) (ob ConnObs, gone bool) {
	mode, peer, cmd := ftpDataScenario(sp.Sweep.Scenario)
	deadline := time.Duration(sp.DeadlineMs) * time.Millisecond
	wait := time.Duration(sp.WaitMs) * time.Millisecond
	sc, cc := lab.Pipe(&net.TCPAddr{IP: net.ParseIP("127.0.0.1"), Port: 21}, &net.TCPAddr{IP: net.ParseIP("127.0.0.1"), Port: 40000 + idx})
	conn := server.TimeoutConn(sc, deadline)
	type ret struct{ panicked string }
	done := make(chan ret, 1)
	go func() {
		var r ret
		defer func() {
			if e := recover(); e != nil {
				r.panicked = fmt.Sprint(e)
			}
			conn.Close()
			done <- r
		}()
		svc.Handle(context.Background(), conn)
	}()
	clientGone := make(chan struct{})
	go func() {
		defer close(clientGone)
		rd := bufio.NewReader(cc)
		reply := func() string {
			cc.SetReadDeadline(time.Now().Add(wait))
			line, err := rd.ReadString('\n')
			if err != nil {
				return ""
			}
			return line
		}
		send := func(s string) { cc.SetWriteDeadline(time.Now().Add(2 * time.Second)); cc.Write([]byte(s + "\r\n")) }
		reply() // banner
		send("USER anonymous")
		reply()
		send("PASS anonymous")
		reply()
		var ln net.Listener
		if mode == "passive" {
			send("PASV")
			if p := passivePort(reply()); p > 0 && peer != "absent" {
				before := accepting()
				if dc, err := net.DialTimeout("tcp", fmt.Sprintf("127.0.0.1:%d", p), 5*time.Second); err == nil {
					waitAccepted(before)
					if peer == "knock" {
						dc.Close()
					} else {
						heldMu.Lock()
						held = append(held, dc)
						heldMu.Unlock()
					}
				}
			}
		} else {
			// active: the client listens; "absent": the announced port is closed
			l, err := net.Listen("tcp", "127.0.0.1:0")
			if err != nil {
				return
			}
			port := l.Addr().(*net.TCPAddr).Port
			if peer == "absent" {
				l.Close()
			} else {
				ln = l
				go func() {
					dc, err := l.Accept()
					l.Close()
					if err != nil {
						return
					}
					if peer == "knock" {
						dc.Close()
					} else {
						heldMu.Lock()
						held = append(held, dc)
						heldMu.Unlock()
					}
				}()
			}
			send(fmt.Sprintf("PORT 127,0,0,1,%d,%d", port/256, port%256))
			reply()
		}
		send(cmd)
		// the client waits for the end of the transfer (or gives up after the bound) and leaves
		for i := 0; i < 3; i++ {
			l := reply()
			if l == "" || strings.HasPrefix(l, "226") || strings.HasPrefix(l, "4") || strings.HasPrefix(l, "5") {
				break
			}
		}
		_ = ln
		cc.Close()
	}()
	returned := false
	var r ret
	select {
	case <-clientGone:
		select {
		case r = <-done:
			returned = true
		case <-time.After(wait):
		}
	case r = <-done:
		returned = true
	case <-time.After(2*wait + 2*time.Second):
	}
	if returned {
		ob.Outcome = "returned"
		if r.panicked != "" {
			ob.Outcome = "panic"
			ob.Panic = r.panicked
		}
	} else {
		ob.Outcome = "blocked"
		gone = true
	}
	return
}
