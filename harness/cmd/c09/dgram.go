// Part "dgram": datagrams whose size sits exactly on an internal buffer boundary of the
// datagram-handling services.
//
// Boundaries: the receive-buffer sizes found in the service's own source (go/ast: make([]byte, N),
// [N]byte, bufio.NewReaderSize(_, N), constants resolved) and in the listener / server code every
// datagram passes through - an INPUT TO THE GENERATOR only, never a verdict; nothing found = the
// fixed list alone - plus the fixed list below.  For every boundary b the sizes b-1, b, b+1, each
// with a valid protocol head padded to the size and as raw bytes, handed to Handle the way the
// server does (server.TimeoutConn(&listener.DummyUDPConn{Buffer: buf[:n], ...}, d)); the boundary
// sizes a loopback socket can carry also after a trip through a real UDP socket (received into
// a buffer of the listener's size, DummyUDPConn built around buf[:n] with the socket's own
// addresses and WriteToUDP, as listener/socket/socket.go does).
// One child process per service runs all its datagrams one after the other; one CASE is one
// cluster of adjacent sizes of one service (the replay file is that cluster).
package main

import (
	"bytes"
	"context"
	"fmt"
	"go/ast"
	"go/parser"
	"go/token"
	"hash/fnv"
	"io"
	"io/ioutil"
	"net"
	"os"
	"path/filepath"
	"regexp"
	"runtime"
	"sort"
	"strconv"
	"strings"
	"sync"
	"sync/atomic"
	"time"

	"github.com/honeytrap/honeytrap/listener"
	"github.com/honeytrap/honeytrap/server"
	"github.com/honeytrap/honeytrap/services"

	"verif/harness/hx"
)

// DgItem is one datagram.
type DgItem struct {
	Size    int    `json:"size"`
	Content string `json:"content"` // head: valid protocol head padded to Size | raw | alt: a second valid shape (tftp, memcached)
	Via     string `json:"via"`     // dummy: DummyUDPConn built as the socket listener builds it | socket: the same after a real loopback socket
	Carry   bool   `json:"carry"`   // a loopback UDP socket carries a datagram of this size (probed at start-up)
}

// DgramIn is one case of part "dgram" (or, Svc == "probe", a scripted dialogue with the real DummyUDPConn).
type DgramIn struct {
	Svc        string   `json:"svc"`
	Cap        int      `json:"listener_buffer"`      // size of the socket listener's receive buffer (source fact, else 65535)
	Boundaries []int    `json:"boundaries,omitempty"` // the boundaries this cluster of sizes sits on
	FromSource []int    `json:"from_source,omitempty"`
	Items      []DgItem `json:"items,omitempty"`
	ProbeLen   int      `json:"probe_len,omitempty"`
	ProbeCaps  []int    `json:"probe_caps,omitempty"`
}

var dgFixed = []int{0, 1, 511, 512, 513, 1023, 1024, 1025, 1499, 1500, 4095, 4096, 4097, 8191, 8192, 65506, 65507, 65508, 65527, 65534, 65535}

// io.Copy's buffer: ntp and echo read their datagram through it (bufio's 4096 is in the list)
var dgLibrary = []int{32768}

var dgServices = []string{"ntp", "echo", "dummy", "dns", "snmp", "tftp", "memcached", "counterstrike", "adb", "ldap", "copy", "dns-proxy"}

var dgSvcCode = map[string]int{"ntp": 1, "echo": 2, "dummy": 3, "dns": 4, "snmp": 5, "tftp": 6, "memcached": 7, "counterstrike": 8, "adb": 9, "ldap": 10, "copy": 11, "dns-proxy": 12}

func dgRelays(svc string) bool { return svc == "copy" || svc == "dns-proxy" }

// length of the protocol head in front of the payload (a buffer behind the head is filled
// exactly by a datagram of b + head bytes)
var dgHeadLen = map[string][]int{"tftp": {4}, "memcached": {8}, "adb": {24}, "counterstrike": {5}, "snmp": {2}}

func repoDir() string {
	if r := os.Getenv("VERIF_REPO"); r != "" {
		return r
	}
	return "/repo"
}

// ---- source facts (generator input only) ----

func evalInt(e ast.Expr, consts map[string]ast.Expr, depth int) (int, bool) {
	if depth > 8 {
		return 0, false
	}
	switch x := e.(type) {
	case *ast.BasicLit:
		if x.Kind == token.INT {
			v, err := strconv.ParseInt(x.Value, 0, 64)
			return int(v), err == nil
		}
	case *ast.ParenExpr:
		return evalInt(x.X, consts, depth+1)
	case *ast.Ident:
		if c, ok := consts[x.Name]; ok {
			return evalInt(c, consts, depth+1)
		}
	case *ast.BinaryExpr:
		a, ok1 := evalInt(x.X, consts, depth+1)
		b, ok2 := evalInt(x.Y, consts, depth+1)
		if ok1 && ok2 {
			switch x.Op {
			case token.ADD:
				return a + b, true
			case token.SUB:
				return a - b, true
			case token.MUL:
				return a * b, true
			case token.SHL:
				if b >= 0 && b < 31 {
					return a << uint(b), true
				}
			}
		}
	}
	return 0, false
}

func isByte(e ast.Expr) bool {
	id, ok := e.(*ast.Ident)
	return ok && (id.Name == "byte" || id.Name == "uint8")
}

// bufferSizes returns the constant sizes of byte buffers made in the given files.
func bufferSizes(files []string) []int {
	fset := token.NewFileSet()
	var parsed []*ast.File
	consts := map[string]ast.Expr{}
	for _, f := range files {
		af, err := parser.ParseFile(fset, f, nil, 0)
		if err != nil {
			continue
		}
		parsed = append(parsed, af)
		ast.Inspect(af, func(n ast.Node) bool {
			if vs, ok := n.(*ast.ValueSpec); ok {
				for i, name := range vs.Names {
					if i < len(vs.Values) {
						consts[name.Name] = vs.Values[i]
					}
				}
			}
			return true
		})
	}
	seen := map[int]bool{}
	add := func(e ast.Expr) {
		if v, ok := evalInt(e, consts, 0); ok && v >= 1 && v <= 1<<20 {
			seen[v] = true
		}
	}
	for _, af := range parsed {
		ast.Inspect(af, func(n ast.Node) bool {
			switch x := n.(type) {
			case *ast.CallExpr:
				if id, ok := x.Fun.(*ast.Ident); ok && id.Name == "make" && len(x.Args) >= 2 {
					if at, ok := x.Args[0].(*ast.ArrayType); ok && at.Len == nil && isByte(at.Elt) {
						for _, a := range x.Args[1:] {
							add(a)
						}
					}
				}
				if se, ok := x.Fun.(*ast.SelectorExpr); ok && (se.Sel.Name == "NewReaderSize" || se.Sel.Name == "NewWriterSize") && len(x.Args) == 2 {
					add(x.Args[1])
				}
			case *ast.ArrayType:
				if x.Len != nil && isByte(x.Elt) {
					add(x.Len)
				}
			}
			return true
		})
	}
	var out []int
	for v := range seen {
		out = append(out, v)
	}
	sort.Ints(out)
	return out
}

var registerRe = regexp.MustCompile(`Register\("([^"]+)"`)
var datagramRe = regexp.MustCompile(`"udp"|UDPAddr|DummyUDPConn`)

// serviceSources maps every registered service name to its source files and tells whether
// these mention datagrams at all.
func serviceSources() (files map[string][]string, datagram map[string]bool) {
	files, datagram = map[string][]string{}, map[string]bool{}
	root := filepath.Join(repoDir(), "services")
	filepath.Walk(root, func(p string, fi os.FileInfo, err error) error {
		if err != nil || fi.IsDir() || !strings.HasSuffix(p, ".go") || strings.HasSuffix(p, "_test.go") {
			return nil
		}
		b, err := ioutil.ReadFile(p)
		if err != nil {
			return nil
		}
		for _, m := range registerRe.FindAllSubmatch(b, -1) {
			name := string(m[1])
			var fs []string
			if filepath.Dir(p) == root {
				fs = []string{p}
			} else {
				all, _ := filepath.Glob(filepath.Join(filepath.Dir(p), "*.go"))
				for _, f := range all {
					if !strings.HasSuffix(f, "_test.go") {
						fs = append(fs, f)
					}
				}
			}
			files[name] = fs
			for _, f := range fs {
				if fb, err := ioutil.ReadFile(f); err == nil && datagramRe.Match(fb) {
					datagram[name] = true
				}
			}
		}
		return nil
	})
	if _, err := os.Stat(filepath.Join(root, "dummy.go")); err == nil {
		files["dummy"] = []string{filepath.Join(root, "dummy.go")}
	}
	return
}

// what every datagram passes through
func commonSources() []string {
	r := repoDir()
	return []string{filepath.Join(r, "listener", "socket", "socket.go"), filepath.Join(r, "listener", "udp_conn.go"),
		filepath.Join(r, "server", "honeytrap.go"), filepath.Join(r, "server", "peek-connection.go"), filepath.Join(r, "server", "timeout_conn.go")}
}

func listenerCap() int {
	c := 0
	for _, v := range bufferSizes([]string{filepath.Join(repoDir(), "listener", "socket", "socket.go")}) {
		if v > c {
			c = v
		}
	}
	if c < 1024 {
		return 65535
	}
	return c
}

// loopbackCarries tells which of the sizes a loopback UDP socket carries (asked of the kernel)
func loopbackCarries(sizes []int) map[int]bool {
	out := map[int]bool{}
	rc, err := net.ListenUDP("udp4", &net.UDPAddr{IP: net.IPv4(127, 0, 0, 1)})
	if err != nil {
		return out
	}
	defer rc.Close()
	cl, err := net.DialUDP("udp4", nil, rc.LocalAddr().(*net.UDPAddr))
	if err != nil {
		return out
	}
	defer cl.Close()
	buf := make([]byte, 1<<16)
	sort.Ints(sizes)
	for _, s := range sizes {
		if s <= 1024 || out[s] {
			out[s] = s >= 0
			continue
		}
		if _, err := cl.Write(make([]byte, s)); err != nil {
			continue
		}
		rc.SetReadDeadline(time.Now().Add(2 * time.Second))
		if n, _, err := rc.ReadFromUDP(buf); err == nil && n == s {
			out[s] = true
		}
	}
	return out
}

// dgramCases: the clusters of every datagram service
func dgramCases() (cases []DgramIn, dist map[string]int) {
	dist = map[string]int{}
	files, isDg := serviceSources()
	svcs := append([]string{}, dgServices...)
	var extra []string
	for name := range isDg {
		if _, ok := dgSvcCode[name]; !ok {
			extra = append(extra, name)
		}
	}
	sort.Strings(extra)
	for i, name := range extra { // a datagram service the list does not know yet
		dgSvcCode[name] = 13 + i
		svcs = append(svcs, name)
		dist["service-found-in-source"]++
	}
	lcap := listenerCap()
	common := bufferSizes(commonSources())
	var all []int
	perSvc := map[string][]int{}
	perSvcSrc := map[string][]int{}
	for _, svc := range svcs {
		src := bufferSizes(files[svc])
		if len(src) == 0 {
			dist["no-buffer-size-in-source"]++
		}
		set := map[int]bool{}
		for _, l := range [][]int{dgFixed, dgLibrary, common, src} {
			for _, b := range l {
				set[b] = true
			}
		}
		for _, b := range src {
			for _, h := range dgHeadLen[svc] {
				set[b+h] = true
			}
		}
		var bs []int
		for b := range set {
			if b >= 0 && b-1 <= lcap {
				bs = append(bs, b)
			}
		}
		sort.Ints(bs)
		perSvc[svc], perSvcSrc[svc] = bs, src
		for _, b := range bs {
			all = append(all, b-1, b, b+1)
		}
	}
	carries := loopbackCarries(all)
	for _, svc := range svcs {
		bs := perSvc[svc]
		isB := map[int]bool{}
		sizeSet := map[int]bool{}
		for _, b := range bs {
			isB[b] = true
			for _, s := range []int{b - 1, b, b + 1} {
				if s >= 0 && s <= lcap {
					sizeSet[s] = true
				}
			}
		}
		var sizes []int
		for s := range sizeSet {
			sizes = append(sizes, s)
		}
		sort.Ints(sizes)
		for i := 0; i < len(sizes); {
			j := i
			for j+1 < len(sizes) && sizes[j+1]-sizes[j] <= 1 {
				j++
			}
			c := DgramIn{Svc: svc, Cap: lcap, FromSource: perSvcSrc[svc]}
			for _, s := range sizes[i : j+1] {
				if isB[s] {
					c.Boundaries = append(c.Boundaries, s)
				}
				carry := carries[s] || (s <= 1024)
				c.Items = append(c.Items, DgItem{Size: s, Content: "head", Via: "dummy", Carry: carry}, DgItem{Size: s, Content: "raw", Via: "dummy", Carry: carry})
				if svc == "tftp" || svc == "memcached" {
					c.Items = append(c.Items, DgItem{Size: s, Content: "alt", Via: "dummy", Carry: carry})
				}
				if isB[s] && carry && svc != "dummy" {
					c.Items = append(c.Items, DgItem{Size: s, Content: "head", Via: "socket", Carry: true})
				}
			}
			cases = append(cases, c)
			i = j + 1
		}
	}
	return
}

// ---- datagram contents ----

func padTo(head []byte, size int, fill byte) []byte {
	out := make([]byte, size)
	n := copy(out, head)
	for i := n; i < size; i++ {
		out[i] = fill
	}
	return out
}

var snmpGet = cat([]byte{0x30, 0x26, 0x02, 0x01, 0x00, 0x04, 0x06}, []byte("public"),
	[]byte{0xa0, 0x19, 0x02, 0x04, 0x01, 0x02, 0x03, 0x04, 0x02, 0x01, 0x00, 0x02, 0x01, 0x00, 0x30, 0x0b, 0x30, 0x09, 0x06, 0x05, 0x2b, 0x06, 0x01, 0x02, 0x01, 0x05, 0x00})

var ldapBind = []byte{0x30, 0x0c, 0x02, 0x01, 0x01, 0x60, 0x07, 0x02, 0x01, 0x03, 0x04, 0x00, 0x80, 0x00}

// dgramPayload returns the datagram and, for exchanges that need one, the datagram sent before
// it from the same address (tftp: the WRQ that opens the upload a DATA block belongs to)
func dgramPayload(svc string, size int, content string) (pre, d []byte) {
	if content == "raw" {
		d = make([]byte, size)
		for i := range d {
			d[i] = byte(i*131 + 17 + size)
		}
		if size > 0 {
			d[0] |= 0x80 // no protocol of the services starts like this
		}
		return nil, d
	}
	switch svc {
	case "ntp":
		return nil, padTo([]byte{0x1b}, size, 0)
	case "dns", "dns-proxy":
		return nil, padTo(dnsQuery, size, 0)
	case "snmp":
		return nil, padTo(snmpGet, size, 0)
	case "ldap":
		return nil, padTo(ldapBind, size, 0)
	case "counterstrike":
		return nil, padTo(cat([]byte{0xff, 0xff, 0xff, 0xff, 'T'}, []byte("Source Engine Query\x00")), size, 0)
	case "adb":
		if size >= 24 {
			return nil, adbPacket("CNXN", 0x01000000, 4096, padTo([]byte("host::\x00"), size-24, 'x'))
		}
		return nil, adbPacket("CNXN", 0x01000000, 4096, []byte("host::\x00"))[:size]
	case "tftp":
		if content == "alt" { // a read request with a file name as long as it takes
			if size >= 11 {
				return nil, cat([]byte{0, 1}, bytes.Repeat([]byte("f"), size-9), []byte("\x00octet\x00"))
			}
			return nil, []byte("\x00\x01f\x00octet\x00")[:size]
		}
		if size >= 4 { // a DATA block of an upload opened just before from the same address
			return []byte("\x00\x02up.bin\x00octet\x00"), padTo([]byte{0, 3, 0, 1}, size, 'd')
		}
		return nil, []byte{0, 3, 0, 1}[:size]
	case "memcached":
		hdr := []byte{0, 1, 0, 0, 0, 1, 0, 0}
		if content == "alt" { // get with a key as long as it takes
			if size >= 8+7 {
				return nil, cat(hdr, []byte("get "), bytes.Repeat([]byte("k"), size-8-6), []byte("\r\n"))
			}
			return nil, cat(hdr, []byte("get k\r\n"))[:size]
		}
		// a store command whose data block makes the datagram exactly size bytes long
		for klen := 1; klen <= 2; klen++ {
			for n := size; n >= 0; n-- {
				cmd := fmt.Sprintf("set %s 0 0 %d\r\n", strings.Repeat("k", klen), n)
				if 8+len(cmd)+n+2 == size {
					return nil, cat(hdr, []byte(cmd), bytes.Repeat([]byte("v"), n), []byte("\r\n"))
				}
				if 8+len(cmd)+n+2 < size {
					break
				}
			}
		}
		return nil, padTo(cat(hdr, []byte("stats\r\n")), size, '\n')[:size]
	}
	return nil, padTo([]byte("hello backend\n"), size, 'a')
}

// ---- the child's side ----

// dgBackend is the backend of the relaying services: it remembers the last datagram it got and
// answers with its length
type dgBackend struct {
	pc   net.PacketConn
	mu   sync.Mutex
	got  bool
	n    int
	hash uint64
	seen int64 // datagrams received in all
}

func sum64(b []byte) uint64 { h := fnv.New64a(); h.Write(b); return h.Sum64() }

func startDgBackend() *dgBackend {
	pc, err := net.ListenPacket("udp4", "127.0.0.1:0")
	if err != nil {
		hx.Fatal("dgram backend: %v", err)
	}
	if uc, ok := pc.(*net.UDPConn); ok {
		uc.SetReadBuffer(1 << 20)
	}
	bk := &dgBackend{pc: pc}
	go func() {
		buf := make([]byte, 1<<16)
		for {
			n, from, err := pc.ReadFrom(buf)
			if err != nil {
				return
			}
			bk.mu.Lock()
			bk.got, bk.n, bk.hash = true, n, sum64(buf[:n])
			bk.seen++
			bk.mu.Unlock()
			pc.WriteTo([]byte{byte(n >> 8), byte(n)}, from)
		}
	}()
	return bk
}

func (bk *dgBackend) take() (got bool, n int, h uint64) {
	bk.mu.Lock()
	defer bk.mu.Unlock()
	got, n, h = bk.got, bk.n, bk.hash
	bk.got, bk.n, bk.hash = false, 0, 0
	return
}

var (
	dgBk    *dgBackend
	dgFront *net.UDPConn
)

func buildDgramService(in *DgramIn, scratch string, ch *countChannel) services.Servicer {
	for _, it := range in.Items {
		if it.Via == "socket" && dgFront == nil {
			f, err := net.ListenUDP("udp4", &net.UDPAddr{IP: net.IPv4(127, 0, 0, 1)})
			if err != nil {
				hx.Fatal("dgram front socket: %v", err)
			}
			f.SetReadBuffer(1 << 20)
			dgFront = f
		}
	}
	if dgRelays(in.Svc) {
		f, ok := services.Get(in.Svc)
		if !ok {
			hx.Fatal("service %q is not registered", in.Svc)
		}
		dgBk = startDgBackend()
		return f(services.WithChannel(ch), services.WithDirector(&harnessDirector{network: "udp", addr: dgBk.pc.LocalAddr().String()}))
	}
	return buildService(in.Svc, scratch, ch)
}

// a goroutine of the service that is runnable or running (not parked): with a handler that has
// not come back, the mark of a busy loop
func handlerRunnable() bool {
	buf := make([]byte, 1<<20)
	n := runtime.Stack(buf, true)
	for _, g := range bytes.Split(buf[:n], []byte("\n\n")) {
		if !bytes.Contains(g, []byte("github.com/honeytrap/honeytrap/services")) {
			continue
		}
		nl := bytes.IndexByte(g, '\n')
		if nl < 0 {
			continue
		}
		if bytes.Contains(g[:nl], []byte("[running")) || bytes.Contains(g[:nl], []byte("[runnable")) {
			return true
		}
	}
	return false
}

// handOver runs Handle on one datagram connection the way server.handle does and waits for it
func handOver(svc services.Servicer, base net.Conn, cnt *counters, sp Spec) (outcome, panicked string) {
	conn := server.TimeoutConn(base, time.Duration(sp.DeadlineMs)*time.Millisecond)
	done := make(chan string, 1)
	go func() {
		p := ""
		defer func() {
			if e := recover(); e != nil {
				p = fmt.Sprint(e)
				if p == "" {
					p = "panic"
				}
			}
			conn.Close()
			done <- p
		}()
		svc.Handle(context.Background(), conn)
	}()
	select {
	case p := <-done:
		if p != "" {
			return "panic", p
		}
		return "returned", ""
	case <-time.After(time.Duration(sp.WaitMs) * time.Millisecond):
	}
	// spinning or blocked?  CPU time, Read calls and the goroutine dump over an idle window
	c0, r0 := cpuTime(), atomic.LoadInt64(&cnt.reads)
	busy := 0
	for i := 0; i < 5; i++ {
		time.Sleep(30 * time.Millisecond)
		if handlerRunnable() {
			busy++
		}
	}
	c1, r1 := cpuTime(), atomic.LoadInt64(&cnt.reads)
	select {
	case p := <-done: // it did come back in the end (a loaded machine): not a hang
		if p != "" {
			return "panic", p
		}
		return "returned", ""
	default:
	}
	if c1-c0 > 60*time.Millisecond || r1-r0 > 1000 || r1 > 5000 || busy >= 4 {
		return "spin", ""
	}
	return "blocked", ""
}

func runDgramConn(svc services.Servicer, sp Spec, idx int) (ob ConnObs, gone bool) {
	in := sp.Dgram
	it := in.Items[idx]
	pre, payload := dgramPayload(in.Svc, it.Size, it.Content)
	lcap := in.Cap
	if lcap < 1024 {
		lcap = 65535
	}
	lip, rip := connAddrs(sp, idx)
	laddr, raddr := &net.UDPAddr{IP: lip, Port: 53}, &net.UDPAddr{IP: rip, Port: 40000}
	mk := func(d []byte) *udpMeter {
		// exactly as listener/socket/socket.go builds it: buf[:n] of the receive buffer
		rbuf := make([]byte, lcap)
		return &udpMeter{Conn: &listener.DummyUDPConn{Buffer: rbuf[:copy(rbuf, d)], Laddr: laddr, Raddr: raddr,
			Fn: func(b []byte, addr *net.UDPAddr) (int, error) { return len(b), nil }}}
	}
	var client *net.UDPConn
	if it.Via == "socket" {
		if dgFront == nil {
			hx.Fatal("dgram: no front socket")
		}
		// a fresh loopback source address per datagram (per-address limiters)
		src := &net.UDPAddr{IP: net.IPv4(127, byte(1+idx/60000), byte(idx/250%240+1), byte(1+idx%250))}
		c, err := net.DialUDP("udp4", src, dgFront.LocalAddr().(*net.UDPAddr))
		if err != nil {
			c, err = net.DialUDP("udp4", nil, dgFront.LocalAddr().(*net.UDPAddr))
		}
		if err != nil {
			hx.Fatal("dgram client socket: %v", err)
		}
		client = c
		defer client.Close()
		through := func(d []byte) *udpMeter {
			if _, err := client.Write(d); err != nil {
				hx.Fatal("dgram: a loopback socket does not carry %d bytes: %v", len(d), err)
			}
			buf := make([]byte, lcap)
			dgFront.SetReadDeadline(time.Now().Add(10 * time.Second))
			n, from, err := dgFront.ReadFromUDP(buf)
			if err != nil {
				hx.Fatal("dgram: front socket: %v", err)
			}
			return &udpMeter{Conn: &listener.DummyUDPConn{Buffer: buf[:n], Laddr: dgFront.LocalAddr(), Raddr: from, Fn: dgFront.WriteToUDP}}
		}
		mk = through
	}
	if dgBk != nil {
		dgBk.take()
	}
	if pre != nil {
		m := mk(pre)
		if out, p := handOver(svc, m, &m.cnt, sp); out == "spin" || out == "blocked" {
			ob.Outcome, ob.Panic, gone = out, p, true
			return
		}
	}
	m := mk(payload)
	ob.Outcome, ob.Panic = handOver(svc, m, &m.cnt, sp)
	if len(ob.Panic) > 120 {
		ob.Panic = ob.Panic[:120]
	}
	gone = ob.Outcome == "spin" || ob.Outcome == "blocked"
	ob.Reads, ob.ZeroReads, ob.Timeouts, ob.EOFs = atomic.LoadInt64(&m.cnt.reads), atomic.LoadInt64(&m.cnt.zero), atomic.LoadInt64(&m.cnt.timeouts), atomic.LoadInt64(&m.cnt.eofs)
	ob.Writes, ob.WBytes = atomic.LoadInt64(&m.cnt.writes), atomic.LoadInt64(&m.cnt.wbytes)
	if dgBk != nil {
		got, n, h := dgBk.take()
		if it.Carry && it.Size >= 1 {
			switch {
			case !got:
				ob.Relay = 3
			case n == len(payload) && h == sum64(payload):
				ob.Relay = 1
			default:
				ob.Relay = 2
			}
		}
		ob.Fwd = n
	}
	if client != nil { // whatever was answered stays in the client's socket, which goes away now
		client.Close()
	}
	return
}

// ---- the parent's side ----

var contentCode = map[string]int{"raw": 0, "head": 1, "alt": 2}
var viaCode = map[string]int{"dummy": 0, "socket": 1}

type dgObs struct {
	Item DgItem  `json:"item"`
	Obs  ConnObs `json:"obs"`
}

type dgResult struct {
	obs   []dgObs
	crash string
	run   bool
}

// runDgramJob runs all clusters of one service in one child (a new child after every handler
// that did not come back) and returns the observations cluster by cluster
func runDgramJob(cs []DgramIn, scratch string, k int, deadline, wait int, perturb string) []dgResult {
	out := make([]dgResult, len(cs))
	type ref struct{ c, i int }
	var flat []DgItem
	var refs []ref
	for ci, c := range cs {
		for ii, it := range c.Items {
			flat = append(flat, it)
			refs = append(refs, ref{ci, ii})
		}
	}
	start := 0
	for launch := 0; start < len(flat) && launch < 4; launch++ {
		in := DgramIn{Svc: cs[0].Svc, Cap: cs[0].Cap, Items: flat[start:]}
		sp := Spec{Svc: "dgram:" + in.Svc, Proto: "udp", N: len(in.Items), DeadlineMs: deadline, WaitMs: wait, Perturb: perturb, Dgram: &in}
		res, crash := runChild(sp, scratch, k*100+launch)
		if crash == "" && res.Err != "" {
			crash = res.Err
		}
		if crash != "" {
			out[refs[start].c].crash = crash
			out[refs[start].c].run = true
			return out
		}
		complete := len(res.Conns) == len(in.Items)
		pg, pl, pf := 0, 0, 0
		for i, c := range res.Conns {
			g, l, f := c.Gor-pg, c.Lis-pl, c.Fds-pf
			pg, pl, pf = c.Gor, c.Lis, c.Fds
			// "kept" is what is still there at the end of the history: a goroutine that merely
			// ended a little late is not
			if complete && res.GorGC == 0 {
				g = 0
			}
			if complete && res.LisGC == 0 {
				l = 0
			}
			if complete && res.FdsGC == 0 {
				f = 0
			}
			c.Gor, c.Lis, c.Fds = g, l, f
			r := refs[start+i]
			out[r.c].obs = append(out[r.c].obs, dgObs{Item: flat[start+i], Obs: c})
			out[r.c].run = true
		}
		if len(res.Conns) == 0 {
			break
		}
		start += len(res.Conns)
	}
	return out
}

func coqDgram(id int, in DgramIn, obs []dgObs) string {
	var os []string
	for _, o := range obs {
		c := o.Obs
		os = append(os, fmt.Sprintf("mkDo %d %d %d %d %d %d %d %s %s %s %d %d", o.Item.Size, contentCode[o.Item.Content], viaCode[o.Item.Via], outCode[c.Outcome],
			c.Reads, c.ZeroReads, c.EOFs, hx.CoqZ(int64(c.Gor)), hx.CoqZ(int64(c.Lis)), hx.CoqZ(int64(c.Fds)), c.Relay, c.Fwd))
	}
	return fmt.Sprintf("CDg %s %d%%N %s %s %s", hx.CoqN(uint64(id)), dgSvcCode[in.Svc], hx.CoqBool(dgRelays(in.Svc)), hx.CoqN(uint64(len(in.Items))), hx.CoqList(os, "dobs"))
}

// ---- the model of DummyUDPConn.Read against the real type ----

type probeObs struct {
	N   int  `json:"n"`
	EOF bool `json:"eof"`
}

func dgramProbes() []DgramIn {
	var out []DgramIn
	for _, l := range []int{0, 1, 5} {
		for _, caps := range [][]int{{0, 0, 3, 0, 5, 0, 1, 0}, {5, 0, 0, 1, 0}, {1, 1, 1, 1, 1, 1, 0, 2}, {0, 8, 0, 8}, {2, 0, 2, 0, 2, 0, 2}} {
			out = append(out, DgramIn{Svc: "probe", ProbeLen: l, ProbeCaps: caps})
		}
	}
	return out
}

func runProbe(in DgramIn) []probeObs {
	rbuf := make([]byte, 65535)
	dc := &listener.DummyUDPConn{Buffer: rbuf[:in.ProbeLen]}
	var out []probeObs
	for _, k := range in.ProbeCaps {
		n, err := dc.Read(make([]byte, k))
		if err != nil && err != io.EOF {
			hx.Fatal("listener.DummyUDPConn.Read: unexpected error %v", err)
		}
		out = append(out, probeObs{n, err == io.EOF})
	}
	return out
}

func coqProbe(id int, in DgramIn, obs []probeObs) string {
	var caps, got []string
	for _, k := range in.ProbeCaps {
		caps = append(caps, hx.CoqN(uint64(k)))
	}
	for _, o := range obs {
		got = append(got, fmt.Sprintf("(%s, %s)", hx.CoqN(uint64(o.N)), hx.CoqBool(o.EOF)))
	}
	return fmt.Sprintf("CProbe %s %s %s %s", hx.CoqN(uint64(id)), hx.CoqN(uint64(in.ProbeLen)), hx.CoqList(caps, "N"), hx.CoqList(got, "(N * bool)"))
}
