// Part "sweep", service "tftp-upload": whole uploads (WRQ, DATA blocks, last block) of every
// length around the block size from one client address each, through the real service.  The
// per-client upload state (tftpService.buffers) must be gone when the upload is complete:
// observed without a hook - the last block must be acknowledged, and one more DATA block from
// the same address must be answered with ERROR (no upload on record), not with ACK.
package main

import (
	"context"
	"net"
	"time"

	"github.com/honeytrap/honeytrap/listener"
	"github.com/honeytrap/honeytrap/server"
	"github.com/honeytrap/honeytrap/services"
)

var tftpUploadLengths = []int{0, 1, 511, 512, 513, 1023, 1024}

// one datagram to the service; the reply's opcode (0: none)
func tftpSend(svc services.Servicer, sp Spec, raddr *net.UDPAddr, payload []byte) (op int, ok bool) {
	rbuf := make([]byte, 65536)
	reply := 0
	base := &listener.DummyUDPConn{Buffer: rbuf[:copy(rbuf, payload)], Laddr: &net.UDPAddr{IP: net.ParseIP("192.0.2.1"), Port: 69}, Raddr: raddr,
		Fn: func(b []byte, addr *net.UDPAddr) (int, error) {
			if len(b) >= 2 {
				reply = int(b[1])
			}
			return len(b), nil
		}}
	conn := server.TimeoutConn(base, time.Duration(sp.DeadlineMs)*time.Millisecond)
	done := make(chan string, 1)
	go func() {
		defer func() { recover(); conn.Close(); done <- "" }()
		svc.Handle(context.Background(), conn)
	}()
	out, _ := awaitEnd(done, time.Duration(sp.WaitMs)*time.Millisecond)
	return reply, out == "returned"
}

// kept counts, cumulatively, the uploads whose state the service still holds after their end
var tftpKept int

func runTftpUpload(svc services.Servicer, sp Spec, idx int) (ob ConnObs, gone bool) {
	l := tftpUploadLengths[idx%len(tftpUploadLengths)]
	raddr := &net.UDPAddr{IP: net.IPv4(198, 51, 100, byte(idx+1)), Port: 40000 + idx}
	ob.Outcome = "returned"
	sent := 0
	send := func(p []byte) int {
		op, ok := tftpSend(svc, sp, raddr, p)
		sent++
		if !ok {
			ob.Outcome = "blocked"
			gone = true
		}
		return op
	}
	send([]byte("\x00\x02up.bin\x00octet\x00"))
	lastAcked := true
	for blk, rest := 1, l; !gone; blk++ {
		n := rest
		if n > 512 {
			n = 512
		}
		op := send(cat([]byte{0, 3, byte(blk >> 8), byte(blk)}, make([]byte, n)))
		rest -= n
		if n < 512 {
			lastAcked = op == 4
			break
		}
	}
	kept := !lastAcked
	if !gone && sent < 4 { // the per-address limiter admits four datagrams
		if op := send([]byte{0, 3, 0, 99, 'x'}); op == 4 {
			kept = true // still an upload on record for this address
		}
	}
	if kept {
		tftpKept++
	}
	ob.perturbGor = 0
	ob.Lis = tftpKept // reported in the "listeners" slot of the observation (see Sweep.v, service 17)
	return
}
